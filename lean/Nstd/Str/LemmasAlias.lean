import Nstd.Str.LemmasX
/-!
  Pointer arguments that point into the string's own storage.  `prepend` is safe (the local copy keeps the
  old block alive), `append` is safe when no reallocation happens, and faults otherwise.
-/
namespace Nstd.Str

theorem detach_vars_other {s s' : St} {v c m : Nat} (e : detach s v c m = some s') {w : Nat} (hw : w ≠ v) :
    s'.vars w = s.vars w := by
  simp only [detach, Option.bind_eq_bind, Option.bind_eq_some_iff] at e
  obtain ⟨d, _, e⟩ := e
  split at e
  · simp only [Option.bind_eq_some_iff] at e
    obtain ⟨_, _, _, _, e⟩ := e
    rw [(writeOwn_fields e).2.2]
  · simp only [Option.bind_eq_some_iff, Option.pure_def, Option.some.injEq] at e
    obtain ⟨_, _, _, _, _, _, rfl⟩ := e
    simp only [allocSet, setEmpty, setVar, upd_other _ _ _ _ hw, (release_fields s v).2.2.2]

theorem detach_fast_vars {s s' : St} {v c m : Nat} {d : Desc} (hd : desc s v = some d)
    (fast : d.ref = 1 ∧ m ≤ d.cap) (e : detach s v c m = some s') : s'.vars = s.vars := by
  simp only [detach, hd, Option.bind_eq_bind, Option.bind_some, fast, and_self, if_true,
    Option.bind_eq_some_iff] at e
  obtain ⟨_, _, _, _, e⟩ := e
  exact (writeOwn_fields e).2.2

/-- reading the old storage of `v` through the pointer taken before the call, in a later state in which some
    slot `w` still holds that storage with the same chars -/
theorem rd_old {s s2 : St} (h : Inv s) (h2 : Inv s2) {v w : Nat} {d0 : Desc} (hd0 : desc s v = some d0)
    (hregs : s2.regs = s.regs) (habs : absVar s2 w = absVar s v)
    (hloc : ∀ b, s.vars v = .blk b → s2.vars w = .blk b) {off len : Nat} (hol : off + len ≤ d0.len) :
    rdRange s2 d0.base (d0.off + off) len = some (((absVar s v).drop off).take len) := by
  cases hv : s.vars v with
  | empty =>
    rw [desc_empty hv] at hd0; injection hd0 with hd0; subst hd0
    have : off = 0 ∧ len = 0 := by simp only at hol; omega
    obtain ⟨rfl, rfl⟩ := this
    simp [rdRange, memOf, rdList]
  | foreign r o l =>
    rw [desc_foreign hv] at hd0; injection hd0 with hd0; subst hd0
    have fr := h.frg v r o l hv
    simp only at hol
    have c : o + off + len ≤ (List.map some (s.regs r)).length := by simp only [List.length_map]; omega
    simp only [rdRange, memOf, hregs, rdList, Option.bind_eq_bind, Option.bind_some, c, if_true, absVar, hv,
      List.drop_take, List.drop_drop, List.take_take]
    congr 2
    omega
  | blk b =>
    obtain ⟨blk, hb⟩ := h.live v b hv
    rw [desc_blk hv hb] at hd0; injection hd0 with hd0; subst hd0
    have hw := hloc b hv
    obtain ⟨blk2, hb2⟩ := h2.live w b hw
    have hdw := desc_blk hw hb2
    have hl : blk2.len = blk.len := by
      have a := desc_len h2 hdw
      have b' := desc_len h (desc_blk hv hb)
      simp only at a b'
      rw [a, b', habs]
    simp only at hol
    have := rd_mid h2 hdw (a := off) (k := len) (by simp only; omega)
    simp only [Nat.zero_add] at this ⊢
    rw [this, habs]

/-- **prepend with a pointer into the string itself is safe**: `String copy(*this)` keeps the old storage -/
theorem eff_prependAlias {s s' : St} (h : Inv s) {v tmp : Nat} (hv : v < s.n) (ht : tmp < s.n) (hne : v ≠ tmp)
    (h0 : absVar s tmp = []) {off len : Nat} (e : prependAlias s v off len tmp = some s') :
    Eff s s' v (((absVar s v).drop off).take len ++ absVar s v) := by
  simp only [prependAlias, Option.bind_eq_bind, Option.bind_eq_some_iff] at e
  obtain ⟨s1, h1, d0, hd0, e⟩ := e
  have S1 := silent_cview h hv h1
  split at e
  · cases e
  · rename_i hol
    simp only [Option.bind_eq_some_iff, Option.pure_def, Option.some.injEq] at e
    obtain ⟨s2, h2, dc, hdc, s3, h3, a, ha, b, hb, s4, h4, rfl⟩ := e
    have hv1 : v < s1.n := by rw [S1.n]; exact hv
    have ht1 : tmp < s1.n := by rw [S1.n]; exact ht
    have E2 := eff_ctorCopy S1.inv ht1 h2
    have hv2 : v < s2.n := by rw [E2.n]; exact hv1
    obtain ⟨E3, X⟩ := eff_detach E2.inv hv2 h3
    have tne : tmp ≠ v := fun x => hne x.symm
    -- the copy still holds the old storage
    have habs : absVar s3 tmp = absVar s1 v := by rw [E3.other tmp tne, E2.self]
    have hloc : ∀ bk, s1.vars v = .blk bk → s3.vars tmp = .blk bk := by
      intro bk hbk
      rw [detach_vars_other h3 tne]
      obtain ⟨dd, hdd⟩ := desc_some S1.inv v
      simp only [ctorCopy, hdd, Option.bind_eq_bind, Option.bind_some, hbk] at h2
      have R := rebound_share S1.inv h2
      rw [R.vars, upd_same]
    have hrd := rd_old S1.inv E3.inv hd0 (by rw [E3.regs, E2.regs]) habs hloc (off := off) (len := len) (by omega)
    rw [hrd] at ha; injection ha with ha; subst ha
    rw [content_eq E3.inv tmp, habs] at hb; injection hb with hb; subst hb
    have hlen : dc.len = (absVar s1 v).length := by rw [desc_len E2.inv hdc, E2.self]
    have hal : (((absVar s1 v).drop off).take len).length = len := by
      have := desc_len S1.inv hd0
      simp only [List.length_take, List.length_drop]; omega
    have X' : Excl s3 v 0 ((((absVar s1 v).drop off).take len).length + (absVar s1 v).length) := by
      rw [hal, ← hlen]; exact X
    have E4 := eff_putFront E3.inv X' (by simpa only [putFront] using h4)
    have E5 := eff_setEmpty E4.inv (v := tmp) (by rw [E4.n, E3.n, E2.n]; exact ht1)
    refine S1.andThen ⟨E5.inv, by rw [E5.n, E4.n, E3.n, E2.n], by rw [E5.regs, E4.regs, E3.regs, E2.regs], ?_, ?_⟩
    · rw [E5.other v hne, E4.self, S1.abs]
    · intro u hu
      by_cases c : u = tmp
      · subst c; rw [E5.self, S1.abs, h0]
      · rw [E5.other u c, E4.other u hu, E3.other u hu, E2.other u c]

/-- **append with a pointer into the string itself is safe when nothing is reallocated**: the block is
    exclusively owned and large enough (e.g. after `reserve`) -/
theorem eff_appendAlias_reserved {s : St} (h : Inv s) {v : Nat} (hv : v < s.n) {L C : Nat} (X : Excl s v L C)
    {off len : Nat} (hol : off + len ≤ L) (hC : L + len ≤ C) :
    ∃ s', appendAlias s v off len = some s' ∧ Eff s s' v (absVar s v ++ ((absVar s v).drop off).take len) := by
  obtain ⟨b, blk, hloc, hb, r1, hl, hcap⟩ := X
  have W := h.wf b blk hb
  have hd := desc_blk hloc hb
  -- the view: already terminated
  have hcv : cview s v = some s := by
    simp only [cview, hd, Option.bind_eq_bind, Option.bind_some, rdVal, memOf, hb, Option.map_some, Nat.zero_add,
      W.2.2, ne_eq, not_true_eq_false, if_false, Option.pure_def]
  have hnot : ¬ (off + len > blk.len) := by omega
  obtain ⟨s1, h1⟩ := detach_some h v (c := blk.len) (m := blk.len + len) (by omega)
  obtain ⟨E1, X1⟩ := eff_detach h hv h1
  have hlenabs : blk.len = (absVar s v).length := desc_len h hd
  rw [hlenabs, resizeL_self] at E1
  have hvars := detach_fast_vars hd (by simp only; exact ⟨r1, by omega⟩) h1
  have hloc1 : s1.vars v = .blk b := by rw [hvars]; exact hloc
  obtain ⟨d1, hd1, hl1⟩ := X1.desc
  have hrd := rd_old h E1.inv (v := v) (w := v) hd (E1.regs) E1.self
    (by intro bk hbk; rw [hloc] at hbk; injection hbk with hbk; subst hbk; exact hloc1)
    (off := off) (len := len) (by simp only; omega)
  simp only at hrd
  have hsl : (((absVar s v).drop off).take len).length = len := by
    simp only [List.length_take, List.length_drop]; omega
  have X1' : Excl s1 v blk.len (blk.len + (((absVar s v).drop off).take len).length) := by rw [hsl]; exact X1
  obtain ⟨s2, h2⟩ := putTail_some E1.inv X1' (Nat.le_refl _)
  have E2 := eff_putTail_append E1.inv X1' h2
  refine ⟨s2, ?_, ?_⟩
  · simp only [appendAlias, hcv, hd, Option.bind_eq_bind, Option.bind_some, hnot, if_false, h1, hd1, hl1, hrd]
    rw [hsl] at h2; exact h2
  · rw [E1.self] at E2; exact E1.trans E2

end Nstd.Str

namespace Nstd.Str

/-! ### every read-only call leaves a state in which all theorems apply again -/

/-- the read-only calls change the state at most by taking C string views: they are silent -/
theorem queries_silent {s : St} (h : Inv s) {v w : Nat} (hv : v < s.n) (hw : w < s.n) :
    (∀ nd s' r, findS s v nd = some (s', r) → Silent s s') ∧
    (∀ nd s' r, findLastS s v nd = some (s', r) → Silent s s') ∧
    (∀ nd s' r, findOneOf s v nd = some (s', r) → Silent s s') ∧
    (∀ nd s' r, findLastOf s v nd = some (s', r) → Silent s s') ∧
    (∀ nd st s' r, findSFrom s v nd st = some (s', r) → Silent s s') ∧
    (∀ nd st s' r, findOneOfFrom s v nd st = some (s', r) → Silent s s') ∧
    (∀ c st s' r, findCFrom s v c st = some (s', r) → Silent s s') ∧
    (∀ s' r, compareS s v w = some (s', r) → Silent s s') ∧
    (∀ k s' r, compareN s v w k = some (s', r) → Silent s s') ∧
    (∀ s' r, compareIC s v w = some (s', r) → Silent s s') ∧
    (∀ k s' r, compareICN s v w k = some (s', r) → Silent s s') ∧
    (∀ s' r, equalsIC s v w = some (s', r) → Silent s s') ∧
    (∀ s' r, toBool s v = some (s', r) → Silent s s') ∧
    (∀ s' r, hash s v = some (s', r) → Silent s s') ∧
    (∀ seps skip s' r, split s v seps skip = some (s', r) → Silent s s') := by
  have one : ∀ {s1 : St}, cview s v = some s1 → Silent s s1 := fun h1 => silent_cview h hv h1
  have two : ∀ {s1 s2 : St}, cview s v = some s1 → cview s1 w = some s2 → Silent s s2 := by
    intro s1 s2 h1 h2
    have S1 := silent_cview h hv h1
    exact S1.trans (silent_cview S1.inv (by rw [S1.n]; exact hw) h2)
  have cic : ∀ s' r, compareIC s v w = some (s', r) → Silent s s' := by
    intro s' r e
    simp only [compareIC, Option.bind_eq_bind, Option.bind_eq_some_iff, Option.pure_def, Option.some.injEq,
      Prod.mk.injEq] at e
    obtain ⟨s1, h1, s2, h2, _, _, _, _, rfl, _⟩ := e
    exact two h1 h2
  refine ⟨?_, ?_, ?_, ?_, ?_, ?_, ?_, ?_, ?_, cic, ?_, ?_, ?_, ?_, ?_⟩
  · intro nd s' r e
    simp only [findS, Option.bind_eq_bind, Option.bind_eq_some_iff, Option.pure_def, Option.some.injEq,
      Prod.mk.injEq] at e
    obtain ⟨s1, h1, _, _, rfl, _⟩ := e; exact one h1
  · intro nd s' r e
    simp only [findLastS, Option.bind_eq_bind, Option.bind_eq_some_iff, Option.pure_def, Option.some.injEq,
      Prod.mk.injEq] at e
    obtain ⟨s1, h1, _, _, rfl, _⟩ := e; exact one h1
  · intro nd s' r e
    simp only [findOneOf, Option.bind_eq_bind, Option.bind_eq_some_iff, Option.pure_def, Option.some.injEq,
      Prod.mk.injEq] at e
    obtain ⟨s1, h1, _, _, rfl, _⟩ := e; exact one h1
  · intro nd s' r e
    simp only [findLastOf, Option.bind_eq_bind, Option.bind_eq_some_iff, Option.pure_def, Option.some.injEq,
      Prod.mk.injEq] at e
    obtain ⟨s1, h1, _, _, rfl, _⟩ := e; exact one h1
  · intro nd st s' r e
    simp only [findSFrom, Option.bind_eq_bind, Option.bind_eq_some_iff] at e
    obtain ⟨d, _, e⟩ := e
    split at e
    · simp only [Option.pure_def, Option.some.injEq, Prod.mk.injEq] at e; rw [← e.1]; exact Silent.refl h
    · simp only [Option.bind_eq_some_iff, Option.pure_def, Option.some.injEq, Prod.mk.injEq] at e
      obtain ⟨s1, h1, _, _, rfl, _⟩ := e; exact one h1
  · intro nd st s' r e
    simp only [findOneOfFrom, Option.bind_eq_bind, Option.bind_eq_some_iff] at e
    obtain ⟨d, _, e⟩ := e
    split at e
    · simp only [Option.pure_def, Option.some.injEq, Prod.mk.injEq] at e; rw [← e.1]; exact Silent.refl h
    · simp only [Option.bind_eq_some_iff, Option.pure_def, Option.some.injEq, Prod.mk.injEq] at e
      obtain ⟨s1, h1, _, _, rfl, _⟩ := e; exact one h1
  · intro c st s' r e; exact silent_findCFrom h hv e
  · intro s' r e
    simp only [compareS, Option.bind_eq_bind, Option.bind_eq_some_iff, Option.pure_def, Option.some.injEq,
      Prod.mk.injEq] at e
    obtain ⟨s1, h1, s2, h2, _, _, _, _, rfl, _⟩ := e
    exact two h1 h2
  · intro k s' r e
    simp only [compareN, Option.bind_eq_bind, Option.bind_eq_some_iff, Option.pure_def, Option.some.injEq,
      Prod.mk.injEq] at e
    obtain ⟨s1, h1, s2, h2, _, _, _, _, rfl, _⟩ := e
    exact two h1 h2
  · intro k s' r e
    simp only [compareICN, Option.bind_eq_bind, Option.bind_eq_some_iff, Option.pure_def, Option.some.injEq,
      Prod.mk.injEq] at e
    obtain ⟨s1, h1, s2, h2, _, _, _, _, rfl, _⟩ := e
    exact two h1 h2
  · intro s' r e
    simp only [equalsIC, Option.bind_eq_bind, Option.bind_eq_some_iff] at e
    obtain ⟨dv, _, dw, _, e⟩ := e
    split at e
    · simp only [Option.pure_def, Option.some.injEq, Prod.mk.injEq] at e; rw [← e.1]; exact Silent.refl h
    · simp only [Option.bind_eq_some_iff, Option.pure_def, Option.some.injEq, Prod.mk.injEq] at e
      obtain ⟨⟨s2, k⟩, h2, rfl, _⟩ := e
      exact cic _ _ h2
  · intro s' r e
    simp only [toBool, Option.bind_eq_bind, Option.bind_eq_some_iff] at e
    obtain ⟨d, _, e⟩ := e
    split at e
    · simp only [Option.pure_def, Option.some.injEq, Prod.mk.injEq] at e; rw [← e.1]; exact Silent.refl h
    · simp only [Option.bind_eq_some_iff] at e
      obtain ⟨z, _, e⟩ := e
      split at e
      · simp only [Option.pure_def, Option.some.injEq, Prod.mk.injEq] at e; rw [← e.1]; exact Silent.refl h
      · simp only [Option.bind_eq_some_iff, Option.pure_def, Option.some.injEq, Prod.mk.injEq] at e
        obtain ⟨s1, h1, _, _, _, _, rfl, _⟩ := e; exact one h1
  · intro s' r e
    simp only [hash, Option.bind_eq_bind, Option.bind_eq_some_iff, Option.pure_def, Option.some.injEq,
      Prod.mk.injEq] at e
    obtain ⟨s1, h1, _, _, _, _, _, _, rfl, _⟩ := e; exact one h1
  · intro seps skip s' r e; exact silent_split h hv e

/-! ### helpers for the own-pointer forms of `attach` / `printf` -/

theorem detach_cases {s s2 : St} {v c m : Nat} {d : Desc} (hd : desc s v = some d) (e : detach s v c m = some s2) :
    (d.ref = 1 ∧ m ≤ d.cap ∧ ∃ bytes, writeOwn s v bytes c = some s2) ∨
    (¬ (d.ref = 1 ∧ m ≤ d.cap) ∧ ∃ bytes cap, s2 = allocSet s v bytes c cap) := by
  simp only [detach, hd, Option.bind_eq_bind, Option.bind_some] at e
  by_cases fast : d.ref = 1 ∧ m ≤ d.cap
  · simp only [fast, and_self, if_true, Option.bind_eq_some_iff] at e
    obtain ⟨m0, _, m1, _, e⟩ := e
    exact Or.inl ⟨fast.1, fast.2, m1, e⟩
  · simp only [fast, if_false, Option.bind_eq_some_iff, Option.pure_def, Option.some.injEq] at e
    obtain ⟨src, _, m1, _, m2, _, e⟩ := e
    exact Or.inr ⟨fast, m2, _, e.symm⟩

/-- memory that is not the released block of `v` survives `allocSet` -/
theorem memOf_allocSet {s : St} (h : Inv s) {v : Nat} (bytes : List Byte) (len cap : Nat) {p : Base}
    (hp : ∀ b, p = .blk b → b < s.next ∧ ∀ blk, s.vars v = .blk b → s.heap b = some blk → blk.ref ≠ 1) :
    memOf (allocSet s v bytes len cap) p = memOf s p := by
  cases p with
  | nul => rfl
  | reg r => simp only [memOf, (allocSet_fields s v bytes len cap).2]
  | blk b =>
    obtain ⟨hb, hr⟩ := hp b rfl
    have F := release_fields s v
    have hne : b ≠ (setEmpty s v).next := by
      simp only [setEmpty, setVar, F.2.1]; omega
    simp only [memOf, allocSet, upd_other _ _ _ _ hne]
    simp only [setEmpty, setVar]
    unfold release
    cases hloc : s.vars v with
    | empty => rfl
    | foreign r off len => rfl
    | blk bv =>
      simp only
      cases hbv : s.heap bv with
      | none => rfl
      | some blk =>
        simp only
        by_cases eb : b = bv
        · subst eb
          have := hr blk hloc hbv
          simp only [this, if_false, upd_same, hbv, Option.map_some]
        · by_cases r1 : blk.ref = 1 <;> simp only [r1, if_true, if_false, upd_other _ _ _ _ eb]

/-- the variable owns a heap block that no other String shares -/
def OwnsExcl (s : St) (v : Nat) : Prop := ∃ b blk, s.vars v = .blk b ∧ s.heap b = some blk ∧ blk.ref = 1

theorem cview_terminated {s : St} {v : Nat} (ht : termByte s v = some (some 0)) : cview s v = some s := by
  unfold termByte at ht
  unfold cview
  cases hd : desc s v with
  | none => simp [hd] at ht
  | some d =>
    simp only [hd, Option.bind_eq_bind, Option.bind_some] at ht ⊢
    cases hm : memOf s d.base with
    | none => simp [hm] at ht
    | some m =>
      simp only [hm, Option.bind_some] at ht
      simp only [rdVal, hm, Option.bind_eq_bind, Option.bind_some, ht]
      rfl

end Nstd.Str
