import Nstd.Str.LemmasMem
/-!
  Effect of the String API functions of the model: each one, when it does not fault,
  keeps the invariant, leaves foreign memory alone, gives the target slot the value the
  specification says and leaves the value of every other slot unchanged (`Eff`).
-/
namespace Nstd.Str

structure Eff (s s' : St) (v : Nat) (val : List Byte) : Prop where
  inv : Inv s'
  n : s'.n = s.n
  regs : s'.regs = s.regs
  self : absVar s' v = val
  other : ∀ w, w ≠ v → absVar s' w = absVar s w

theorem Eff.trans {s s1 s2 : St} {v : Nat} {a b : List Byte} (e1 : Eff s s1 v a) (e2 : Eff s1 s2 v b) :
    Eff s s2 v b :=
  ⟨e2.inv, by rw [e2.n, e1.n], by rw [e2.regs, e1.regs], e2.self,
    fun w hw => by rw [e2.other w hw, e1.other w hw]⟩

theorem Eff.refl {s : St} (h : Inv s) (v : Nat) : Eff s s v (absVar s v) :=
  ⟨h, rfl, rfl, rfl, fun _ _ => rfl⟩

theorem Eff.val_eq {s s' : St} {v : Nat} {a b : List Byte} (e : Eff s s' v a) (h : a = b) : Eff s s' v b := h ▸ e

/-! ### descriptors and loads -/

theorem desc_empty {s : St} {v : Nat} (h : s.vars v = .empty) : desc s v = some ⟨.nul, 0, 0, 0, 0⟩ := by
  simp [desc, h]

theorem desc_foreign {s : St} {v r off len : Nat} (h : s.vars v = .foreign r off len) :
    desc s v = some ⟨.reg r, off, len, 0, 0⟩ := by
  simp [desc, h]

theorem desc_blk {s : St} {v b : Nat} {blk : Block} (h : s.vars v = .blk b) (hb : s.heap b = some blk) :
    desc s v = some ⟨.blk b, 0, blk.len, blk.cap, blk.ref⟩ := by
  simp [desc, h, hb]

theorem desc_len {s : St} (h : Inv s) {v : Nat} {d : Desc} (hd : desc s v = some d) :
    d.len = (absVar s v).length := by
  unfold absVar
  cases hloc : s.vars v with
  | empty => rw [desc_empty hloc] at hd; injection hd with hd; subst hd; rfl
  | foreign r off len =>
    rw [desc_foreign hloc] at hd; injection hd with hd; subst hd
    have := h.frg v r off len hloc
    simp only [List.length_take, List.length_drop, List.length_map]; omega
  | blk b =>
    obtain ⟨blk, hb⟩ := h.live v b hloc
    rw [desc_blk hloc hb] at hd; injection hd with hd; subst hd
    have := h.wf b blk hb
    simp only [hb, List.length_take]; omega

theorem desc_some {s : St} (h : Inv s) (v : Nat) : ∃ d, desc s v = some d := by
  cases hloc : s.vars v with
  | empty => exact ⟨_, desc_empty hloc⟩
  | foreign r off len => exact ⟨_, desc_foreign hloc⟩
  | blk b => obtain ⟨blk, hb⟩ := h.live v b hloc; exact ⟨_, desc_blk hloc hb⟩

/-- loading a prefix of the chars of a slot -/
theorem rd_prefix {s : St} (h : Inv s) {v : Nat} {d : Desc} (hd : desc s v = some d) {k : Nat} (hk : k ≤ d.len) :
    rdRange s d.base d.off k = some ((absVar s v).take k) := by
  unfold absVar
  cases hloc : s.vars v with
  | empty =>
    rw [desc_empty hloc] at hd; injection hd with hd; subst hd
    have : k = 0 := by simpa using hk
    subst this
    simp [rdRange, memOf, rdList]
  | foreign r off len =>
    rw [desc_foreign hloc] at hd; injection hd with hd; subst hd
    have := h.frg v r off len hloc
    simp only at hk
    have c : off + k ≤ (List.map some (s.regs r)).length := by simp only [List.length_map]; omega
    simp only [rdRange, memOf, rdList, Option.bind_eq_bind, Option.bind_some, c, if_true, List.take_take]
    have : min k len = k := by omega
    rw [this]
  | blk b =>
    obtain ⟨blk, hb⟩ := h.live v b hloc
    rw [desc_blk hloc hb] at hd; injection hd with hd; subst hd
    have := h.wf b blk hb
    simp only at hk
    have c : 0 + k ≤ blk.bytes.length := by omega
    simp only [rdRange, memOf, hb, Option.map_some, rdList, Option.bind_eq_bind, Option.bind_some, c, if_true,
      List.drop_zero, List.take_take]
    have : min k blk.len = k := by omega
    rw [this]

theorem rd_all {s : St} (h : Inv s) {v : Nat} {d : Desc} (hd : desc s v = some d) :
    rdRange s d.base d.off d.len = some (absVar s v) := by
  rw [rd_prefix h hd (Nat.le_refl _), desc_len h hd, List.take_length]

theorem content_eq {s : St} (h : Inv s) (v : Nat) : content s v = some (absVar s v) := by
  obtain ⟨d, hd⟩ := desc_some h v
  simp only [content, hd, Option.bind_eq_bind, Option.bind_some]
  exact rd_all h hd

/-! ### constructors, assignment -/

theorem eff_setEmpty {s : St} (h : Inv s) {v : Nat} (hv : v < s.n) : Eff s (setEmpty s v) v [] :=
  have R := rebound_setEmpty h v
  ⟨inv_setEmpty h hv, R.n, R.regs, R.abs_self_empty, fun _ hw => R.abs_other h hv hw⟩

theorem eff_attach {s : St} (h : Inv s) {v : Nat} (hv : v < s.n) {r off len : Nat}
    (hr : off + len < (s.regs r).length) :
    Eff s (attach s v r off len) v ((((s.regs r).map some).drop off).take len) :=
  have R := rebound_setForeign h v r off len
  ⟨R.inv h hv (by intro c x; cases x) (by intro r' o' l' x; injection x with a b c; subst a b c; exact hr),
    R.n, R.regs, R.abs_self_foreign, fun _ hw => R.abs_other h hv hw⟩

theorem eff_ctorPtr {s s' : St} (h : Inv s) {v : Nat} (hv : v < s.n) {src : List Byte}
    (e : ctorPtr s v src = some s') : Eff s s' v src := by
  obtain ⟨m, hm, h1, h2, h3⟩ := mkBlock_spec src
  simp only [ctorPtr, hm, Option.bind_eq_bind, Option.bind_some, Option.pure_def, Option.some.injEq] at e
  subst e
  exact ⟨inv_allocSet h hv h1 (le_capRule _) h3, (allocSet_fields ..).1, (allocSet_fields ..).2,
    by rw [abs_allocSet_self, h2], fun w hw => abs_allocSet_other h hv _ _ _ hw⟩

theorem eff_ctorFill {s s' : St} (h : Inv s) {v : Nat} (hv : v < s.n) {n c : Nat}
    (e : ctorFill s v n c = some s') : Eff s s' v (List.replicate n (some c)) :=
  eff_ctorPtr h hv e

theorem eff_ctorCap {s s' : St} (h : Inv s) {v : Nat} (hv : v < s.n) {cap : Nat}
    (e : ctorCap s v cap = some s') : Eff s s' v [] := by
  simp only [ctorCap, Option.bind_eq_bind, Option.pure_def] at e
  cases hm : wr (fresh (cap + 1)) 0 [some 0] with
  | none => simp [hm] at e
  | some m =>
    simp only [hm, Option.bind_some, Option.some.injEq] at e
    subst e
    have hl : m.length = cap + 1 := by rw [wr_length hm, length_fresh]
    exact ⟨inv_allocSet h hv hl (Nat.zero_le _) (wr_get hm), (allocSet_fields ..).1, (allocSet_fields ..).2,
      by rw [abs_allocSet_self]; rfl, fun w hw => abs_allocSet_other h hv _ _ _ hw⟩

theorem eff_share {s s' : St} (h : Inv s) {v : Nat} (hv : v < s.n) {b : Nat} {blk : Block}
    (hb : s.heap b = some blk) (e : share s v b = some s') : Eff s s' v (blk.bytes.take blk.len) :=
  have R := rebound_share h e
  ⟨R.inv h hv (by intro c x; injection x with x; subst x; exact ⟨_, hb⟩) (by intro r o l x; cases x),
    R.n, R.regs, R.abs_self_blk h hv hb, fun _ hw => R.abs_other h hv hw⟩

/-- `operator=`: the target gets the chars of the source (which may be the target itself) -/
theorem eff_assign {s s' : St} (h : Inv s) {v : Nat} (hv : v < s.n) {w : Nat}
    (e : assign s v w = some s') : Eff s s' v (absVar s w) := by
  obtain ⟨d, hd⟩ := desc_some h w
  simp only [assign, hd, Option.bind_eq_bind, Option.bind_some] at e
  cases hloc : s.vars w with
  | blk b =>
    simp only [hloc] at e
    obtain ⟨blk, hb⟩ := h.live w b hloc
    have := eff_share h hv hb e
    simpa [absVar, hloc, hb] using this
  | empty =>
    simp only [hloc, rd_all h hd, Option.bind_some] at e
    exact eff_ctorPtr h hv e
  | foreign r off len =>
    simp only [hloc, rd_all h hd, Option.bind_some] at e
    exact eff_ctorPtr h hv e

/-- copy constructor into a slot -/
theorem eff_ctorCopy {s s' : St} (h : Inv s) {v : Nat} (hv : v < s.n) {w : Nat}
    (e : ctorCopy s v w = some s') : Eff s s' v (absVar s w) := by
  obtain ⟨d, hd⟩ := desc_some h w
  simp only [ctorCopy, hd, Option.bind_eq_bind, Option.bind_some] at e
  cases hloc : s.vars w with
  | blk b =>
    simp only [hloc] at e
    obtain ⟨blk, hb⟩ := h.live w b hloc
    have := eff_share h hv hb e
    simpa [absVar, hloc, hb] using this
  | empty =>
    simp only [hloc, Option.pure_def, Option.some.injEq] at e
    subst e
    have := eff_setEmpty h hv
    simpa [absVar, hloc] using this
  | foreign r off len =>
    simp only [hloc, rd_all h hd, Option.bind_some] at e
    exact eff_ctorPtr h hv e

/-! ### detach -/

theorem fresh_copy_take {N c : Nat} {a src m1 : List Byte} (hw : wr (fresh N) 0 src = some m1) (hc : c < N)
    (hs : src = a.take (if a.length < c then a.length else c)) : m1.take c = resizeL a c := by
  obtain ⟨hle, hm⟩ := wr_eq hw
  subst hm
  simp only [List.take_zero, List.nil_append, Nat.zero_add, length_fresh] at hle ⊢
  unfold resizeL
  by_cases hlt : a.length < c
  · simp only [hlt, if_true, List.take_length] at hs
    subst hs
    rw [List.take_append, List.take_of_length_le (Nat.le_of_lt hlt)]
    congr 1
    simp only [fresh, List.drop_replicate, List.take_replicate]
    congr 1
    omega
  · simp only [hlt, if_false] at hs
    have hl : src.length = c := by rw [hs, List.length_take]; omega
    rw [List.take_left' hl, hs]
    have : c - a.length = 0 := by omega
    simp [this]

/-- after a successful `detach` the slot owns its block exclusively -/
def Excl (s : St) (v : Nat) (len minCap : Nat) : Prop :=
  ∃ b blk, s.vars v = .blk b ∧ s.heap b = some blk ∧ blk.ref = 1 ∧ blk.len = len ∧ minCap ≤ blk.cap

theorem eff_detach {s s' : St} (h : Inv s) {v : Nat} (hv : v < s.n) {c m : Nat}
    (e : detach s v c m = some s') :
    Eff s s' v (resizeL (absVar s v) c) ∧ Excl s' v c m := by
  obtain ⟨d, hd⟩ := desc_some h v
  have hlen := desc_len h hd
  simp only [detach, hd, Option.bind_eq_bind, Option.bind_some] at e
  by_cases fast : d.ref = 1 ∧ m ≤ d.cap
  · simp only [fast, and_self, if_true] at e
    cases hloc : s.vars v with
    | empty => rw [desc_empty hloc] at hd; injection hd with hd; subst hd; simp at fast
    | foreign r off len => rw [desc_foreign hloc] at hd; injection hd with hd; subst hd; simp at fast
    | blk b =>
      obtain ⟨blk, hb⟩ := h.live v b hloc
      rw [desc_blk hloc hb] at hd; injection hd with hd; subst hd
      simp only at fast hlen e
      have W := h.wf b blk hb
      simp only [memOf, hb, Option.map_some, Option.bind_some] at e
      cases hm1 : wr (poison blk.bytes blk.len c) c [some 0] with
      | none => simp [hm1] at e
      | some m1 =>
        simp only [hm1, Option.bind_some] at e
        have hl1 : m1.length = blk.cap + 1 := by rw [wr_length hm1, poison_length, W.1]
        have hc : c ≤ blk.cap := by
          have := (wr_eq hm1).1
          simp only [List.length_cons, List.length_nil, poison_length] at this; omega
        have inv' := inv_writeOwn h e (by
          intro b' blk' hv' hb'
          rw [hloc] at hv'; injection hv' with hv'; subst hv'
          rw [hb] at hb'; injection hb' with hb'; subst hb'
          exact ⟨hl1, hc, wr_get hm1⟩)
        have F := writeOwn_fields e
        refine ⟨⟨inv', F.1, F.2.1, ?_, fun w hw => abs_writeOwn_other h e hw⟩, ?_⟩
        · rw [abs_writeOwn_self e, wr_take hm1 (Nat.le_refl c),
            poison_take _ _ _ (by omega) (by omega)]
          simp [absVar, hloc, hb]
        · obtain ⟨b', blk', hv', hb', r1, rfl⟩ := writeOwn_eq e
          rw [hloc] at hv'; injection hv' with hv'; subst hv'
          rw [hb] at hb'; injection hb' with hb'; subst hb'
          exact ⟨b, { blk with bytes := m1, len := c }, hloc, by simp, r1, rfl, fast.2⟩
  · simp only [fast, if_false] at e
    have hk : (if d.len < c then d.len else c) ≤ d.len := by split <;> omega
    rw [rd_prefix h hd hk] at e
    simp only [Option.bind_some] at e
    cases hm1 : wr (fresh (capRule m + 1)) 0 ((absVar s v).take (if d.len < c then d.len else c)) with
    | none => simp [hm1] at e
    | some m1 =>
      simp only [hm1, Option.bind_some] at e
      cases hm2 : wr m1 c [some 0] with
      | none => simp [hm2] at e
      | some m2 =>
        simp only [hm2, Option.bind_some, Option.pure_def, Option.some.injEq] at e
        subst e
        have hl1 : m1.length = capRule m + 1 := by rw [wr_length hm1, length_fresh]
        have hl2 : m2.length = capRule m + 1 := by rw [wr_length hm2, hl1]
        have hc : c ≤ capRule m := by
          have := (wr_eq hm2).1
          simp only [List.length_cons, List.length_nil, hl1] at this; omega
        refine ⟨⟨inv_allocSet h hv hl2 hc (wr_get hm2), (allocSet_fields ..).1, (allocSet_fields ..).2, ?_,
          fun w hw => abs_allocSet_other h hv _ _ _ hw⟩, ?_⟩
        · rw [abs_allocSet_self, wr_take hm2 (Nat.le_refl c)]
          exact fresh_copy_take hm1 (by omega) (by rw [hlen])
        · exact ⟨(setEmpty s v).next, ⟨m2, c, capRule m, 1⟩, by simp [allocSet], by simp [allocSet], rfl, rfl, le_capRule m⟩

theorem resizeL_self (a : List Byte) : resizeL a a.length = a := by simp [resizeL]

theorem eff_mview {s s' : St} (h : Inv s) {v : Nat} (hv : v < s.n) (e : mview s v = some s') :
    Eff s s' v (absVar s v) ∧ Excl s' v (absVar s v).length (absVar s v).length := by
  obtain ⟨d, hd⟩ := desc_some h v
  have hlen := desc_len h hd
  simp only [mview, hd, Option.bind_eq_bind, Option.bind_some] at e
  rw [hlen] at e
  have := eff_detach h hv e
  rw [resizeL_self] at this
  exact this

theorem eff_resize {s s' : St} (h : Inv s) {v : Nat} (hv : v < s.n) {n : Nat} (e : resize s v n = some s') :
    Eff s s' v (resizeL (absVar s v) n) := (eff_detach h hv e).1

theorem eff_reserve {s s' : St} (h : Inv s) {v : Nat} (hv : v < s.n) {n : Nat} (e : reserve s v n = some s') :
    Eff s s' v (absVar s v) := by
  obtain ⟨d, hd⟩ := desc_some h v
  have hlen := desc_len h hd
  simp only [reserve, hd, Option.bind_eq_bind, Option.bind_some] at e
  rw [hlen] at e
  have := (eff_detach h hv e).1
  rw [resizeL_self] at this
  exact this

/-- the C string view: same chars, and afterwards `str[length()]` is NUL -/
theorem eff_cview {s s' : St} (h : Inv s) {v : Nat} (hv : v < s.n) (e : cview s v = some s') :
    Eff s s' v (absVar s v) ∧ termByte s' v = some (some 0) := by
  obtain ⟨d, hd⟩ := desc_some h v
  have hlen := desc_len h hd
  simp only [cview, hd, Option.bind_eq_bind, Option.bind_some] at e
  cases ht : rdVal s d.base (d.off + d.len) with
  | none => simp [ht] at e
  | some t =>
    simp only [ht, Option.bind_some] at e
    by_cases t0 : t = 0
    · subst t0
      simp only [ne_eq, not_true_eq_false, if_false, Option.pure_def, Option.some.injEq] at e
      subst e
      refine ⟨Eff.refl h v, ?_⟩
      simp only [termByte, hd, Option.bind_eq_bind, Option.bind_some]
      simp only [rdVal, Option.bind_eq_bind] at ht
      cases hm : memOf s d.base with
      | none => simp [hm] at ht
      | some mm =>
        simp only [hm, Option.bind_some] at ht ⊢
        cases hx : mm[d.off + d.len]? with
        | none => simp [hx] at ht
        | some x =>
          cases x with
          | none => simp [hx] at ht
          | some y => simp only [hx, Option.some.injEq] at ht; subst ht; rfl
    · simp only [ne_eq, t0, not_false_eq_true, if_true] at e
      rw [hlen] at e
      obtain ⟨E, b, blk, hvb, hb, _, hl, _⟩ := eff_detach h hv e
      rw [resizeL_self] at E
      refine ⟨E, ?_⟩
      have W := E.inv.wf b blk hb
      simp only [termByte, desc_blk hvb hb, memOf, hb, Option.bind_eq_bind, Option.bind_some, Option.map_some,
        Nat.zero_add]
      exact W.2.2

theorem eff_clear {s s' : St} (h : Inv s) {v : Nat} (hv : v < s.n) (e : clear s v = some s') :
    Eff s s' v [] := by
  obtain ⟨d, hd⟩ := desc_some h v
  simp only [clear, hd, Option.bind_eq_bind, Option.bind_some] at e
  by_cases r1 : d.ref = 1
  · simp only [r1, if_true] at e
    cases hloc : s.vars v with
    | empty => rw [desc_empty hloc] at hd; injection hd with hd; subst hd; simp at r1
    | foreign r off len => rw [desc_foreign hloc] at hd; injection hd with hd; subst hd; simp at r1
    | blk b =>
      obtain ⟨blk, hb⟩ := h.live v b hloc
      rw [desc_blk hloc hb] at hd; injection hd with hd; subst hd
      have W := h.wf b blk hb
      simp only [memOf, hb, Option.map_some, Option.bind_some] at e
      cases hm1 : wr blk.bytes 0 [some 0] with
      | none => simp [hm1] at e
      | some m1 =>
        simp only [hm1, Option.bind_some] at e
        have inv' := inv_writeOwn h e (by
          intro b' blk' hv' hb'
          rw [hloc] at hv'; injection hv' with hv'; subst hv'
          rw [hb] at hb'; injection hb' with hb'; subst hb'
          exact ⟨by rw [wr_length hm1, W.1], Nat.zero_le _, wr_get hm1⟩)
        have F := writeOwn_fields e
        exact ⟨inv', F.1, F.2.1, by rw [abs_writeOwn_self e]; rfl, fun w hw => abs_writeOwn_other h e hw⟩
  · simp only [r1, if_false, Option.pure_def, Option.some.injEq] at e
    subst e
    exact eff_setEmpty h hv

/-! ### append -/

theorem eff_putTail_append {s s' : St} (h : Inv s) {v : Nat} {L C : Nat} (X : Excl s v L C) {src : List Byte}
    (e : putTail s v L src (L + src.length) = some s') : Eff s s' v (absVar s v ++ src) := by
  obtain ⟨b, blk, hloc, hb, r1, hl, _⟩ := X
  subst hl
  have W := h.wf b blk hb
  simp only [putTail, desc_blk hloc hb, memOf, hb, Option.bind_eq_bind, Option.bind_some, Option.map_some,
    Nat.zero_add] at e
  cases hm1 : wr blk.bytes blk.len src with
  | none => simp [hm1] at e
  | some m1 =>
    simp only [hm1, Option.bind_some] at e
    cases hm2 : wr m1 (blk.len + src.length) [some 0] with
    | none => simp [hm2] at e
    | some m2 =>
      simp only [hm2, Option.bind_some] at e
      have hl1 : m1.length = blk.cap + 1 := by rw [wr_length hm1, W.1]
      have hc : blk.len + src.length ≤ blk.cap := by
        have := (wr_eq hm2).1
        simp only [List.length_cons, List.length_nil, hl1] at this; omega
      have inv' := inv_writeOwn h e (by
        intro b' blk' hv' hb'
        rw [hloc] at hv'; injection hv' with hv'; subst hv'
        rw [hb] at hb'; injection hb' with hb'; subst hb'
        exact ⟨by rw [wr_length hm2, hl1], hc, wr_get hm2⟩)
      have F := writeOwn_fields e
      refine ⟨inv', F.1, F.2.1, ?_, fun w hw => abs_writeOwn_other h e hw⟩
      rw [abs_writeOwn_self e, wr_take hm2 (Nat.le_refl _), wr_take_end hm1]
      simp [absVar, hloc, hb]

theorem Excl.desc {s : St} {v L C : Nat} (X : Excl s v L C) : ∃ d, desc s v = some d ∧ d.len = L := by
  obtain ⟨b, blk, hloc, hb, r1, hl, _⟩ := X
  exact ⟨_, desc_blk hloc hb, hl⟩

theorem eff_appendP {s s' : St} (h : Inv s) {v : Nat} (hv : v < s.n) {src : List Byte}
    (e : appendP s v src = some s') : Eff s s' v (absVar s v ++ src) := by
  obtain ⟨d, hd⟩ := desc_some h v
  have hlen := desc_len h hd
  simp only [appendP, hd, Option.bind_eq_bind, Option.bind_some] at e
  cases h1 : detach s v d.len (d.len + src.length) with
  | none => simp [h1] at e
  | some s1 =>
    simp only [h1, Option.bind_some] at e
    obtain ⟨E1, X⟩ := eff_detach h hv h1
    rw [hlen, resizeL_self] at E1
    obtain ⟨d1, hd1, hl1⟩ := X.desc
    simp only [hd1, Option.bind_some, hl1] at e
    have E2 := eff_putTail_append E1.inv X e
    rw [E1.self] at E2
    exact E1.trans E2

theorem eff_appendC {s s' : St} (h : Inv s) {v : Nat} (hv : v < s.n) {c : Nat}
    (e : appendC s v c = some s') : Eff s s' v (absVar s v ++ [some c]) := eff_appendP h hv e

theorem eff_appendS {s s' : St} (h : Inv s) {v : Nat} (hv : v < s.n) {w : Nat}
    (e : appendS s v w = some s') : Eff s s' v (absVar s v ++ absVar s w) := by
  obtain ⟨d, hd⟩ := desc_some h v
  obtain ⟨dw, hdw⟩ := desc_some h w
  have hlen := desc_len h hd
  have hlenw := desc_len h hdw
  simp only [appendS, hd, hdw, Option.bind_eq_bind, Option.bind_some] at e
  cases h1 : detach s v d.len (d.len + dw.len) with
  | none => simp [h1] at e
  | some s1 =>
    simp only [h1, Option.bind_some] at e
    obtain ⟨E1, X⟩ := eff_detach h hv h1
    rw [hlen, resizeL_self] at E1
    obtain ⟨d1, hd1, hl1⟩ := X.desc
    have hw1 : absVar s1 w = absVar s w := by
      by_cases ew : w = v
      · subst ew; exact E1.self
      · exact E1.other w ew
    simp only [hd1, Option.bind_some, hl1, content_eq E1.inv w, hw1] at e
    rw [hlenw] at e X
    have E2 := eff_putTail_append E1.inv X e
    rw [E1.self] at E2
    exact E1.trans E2

end Nstd.Str
