import Nstd.Str.LemmasMem
import Nstd.Str.LemmasQuery
/-!
  Effect of the String API functions of the model: each one, when it does not fault,
  keeps the invariant, leaves foreign memory alone, gives the target slot the value the
  specification says and leaves the value of every other slot unchanged (`Eff`).
-/
namespace Nstd.Str

structure Eff (s s' : St) (v : Nat) (val : List Byte) : Prop where
  inv : Inv s'
  n : s'.n = s.n
  regs : s'.regs = s.regs
  self : absVar s' v = val
  other : ∀ w, w ≠ v → absVar s' w = absVar s w

theorem Eff.trans {s s1 s2 : St} {v : Nat} {a b : List Byte} (e1 : Eff s s1 v a) (e2 : Eff s1 s2 v b) :
    Eff s s2 v b :=
  ⟨e2.inv, by rw [e2.n, e1.n], by rw [e2.regs, e1.regs], e2.self,
    fun w hw => by rw [e2.other w hw, e1.other w hw]⟩

theorem Eff.refl {s : St} (h : Inv s) (v : Nat) : Eff s s v (absVar s v) :=
  ⟨h, rfl, rfl, rfl, fun _ _ => rfl⟩

theorem Eff.val_eq {s s' : St} {v : Nat} {a b : List Byte} (e : Eff s s' v a) (h : a = b) : Eff s s' v b := h ▸ e

/-! ### descriptors and loads -/

theorem desc_empty {s : St} {v : Nat} (h : s.vars v = .empty) : desc s v = some ⟨.nul, 0, 0, 0, 0⟩ := by
  simp [desc, h]

theorem desc_foreign {s : St} {v r off len : Nat} (h : s.vars v = .foreign r off len) :
    desc s v = some ⟨.reg r, off, len, 0, 0⟩ := by
  simp [desc, h]

theorem desc_blk {s : St} {v b : Nat} {blk : Block} (h : s.vars v = .blk b) (hb : s.heap b = some blk) :
    desc s v = some ⟨.blk b, 0, blk.len, blk.cap, blk.ref⟩ := by
  simp [desc, h, hb]

theorem desc_len {s : St} (h : Inv s) {v : Nat} {d : Desc} (hd : desc s v = some d) :
    d.len = (absVar s v).length := by
  unfold absVar
  cases hloc : s.vars v with
  | empty => rw [desc_empty hloc] at hd; injection hd with hd; subst hd; rfl
  | foreign r off len =>
    rw [desc_foreign hloc] at hd; injection hd with hd; subst hd
    have := h.frg v r off len hloc
    simp only [List.length_take, List.length_drop, List.length_map]; omega
  | blk b =>
    obtain ⟨blk, hb⟩ := h.live v b hloc
    rw [desc_blk hloc hb] at hd; injection hd with hd; subst hd
    have := h.wf b blk hb
    simp only [hb, List.length_take]; omega

theorem desc_some {s : St} (h : Inv s) (v : Nat) : ∃ d, desc s v = some d := by
  cases hloc : s.vars v with
  | empty => exact ⟨_, desc_empty hloc⟩
  | foreign r off len => exact ⟨_, desc_foreign hloc⟩
  | blk b => obtain ⟨blk, hb⟩ := h.live v b hloc; exact ⟨_, desc_blk hloc hb⟩

/-- loading a prefix of the chars of a slot -/
theorem rd_prefix {s : St} (h : Inv s) {v : Nat} {d : Desc} (hd : desc s v = some d) {k : Nat} (hk : k ≤ d.len) :
    rdRange s d.base d.off k = some ((absVar s v).take k) := by
  unfold absVar
  cases hloc : s.vars v with
  | empty =>
    rw [desc_empty hloc] at hd; injection hd with hd; subst hd
    have : k = 0 := by simpa using hk
    subst this
    simp [rdRange, memOf, rdList]
  | foreign r off len =>
    rw [desc_foreign hloc] at hd; injection hd with hd; subst hd
    have := h.frg v r off len hloc
    simp only at hk
    have c : off + k ≤ (List.map some (s.regs r)).length := by simp only [List.length_map]; omega
    simp only [rdRange, memOf, rdList, Option.bind_eq_bind, Option.bind_some, c, if_true, List.take_take]
    have : min k len = k := by omega
    rw [this]
  | blk b =>
    obtain ⟨blk, hb⟩ := h.live v b hloc
    rw [desc_blk hloc hb] at hd; injection hd with hd; subst hd
    have := h.wf b blk hb
    simp only at hk
    have c : 0 + k ≤ blk.bytes.length := by omega
    simp only [rdRange, memOf, hb, Option.map_some, rdList, Option.bind_eq_bind, Option.bind_some, c, if_true,
      List.drop_zero, List.take_take]
    have : min k blk.len = k := by omega
    rw [this]

theorem rd_all {s : St} (h : Inv s) {v : Nat} {d : Desc} (hd : desc s v = some d) :
    rdRange s d.base d.off d.len = some (absVar s v) := by
  rw [rd_prefix h hd (Nat.le_refl _), desc_len h hd, List.take_length]

theorem content_eq {s : St} (h : Inv s) (v : Nat) : content s v = some (absVar s v) := by
  obtain ⟨d, hd⟩ := desc_some h v
  simp only [content, hd, Option.bind_eq_bind, Option.bind_some]
  exact rd_all h hd

/-! ### constructors, assignment -/

theorem eff_setEmpty {s : St} (h : Inv s) {v : Nat} (hv : v < s.n) : Eff s (setEmpty s v) v [] :=
  have R := rebound_setEmpty h v
  ⟨inv_setEmpty h hv, R.n, R.regs, R.abs_self_empty, fun _ hw => R.abs_other h hv hw⟩

theorem eff_attach {s : St} (h : Inv s) {v : Nat} (hv : v < s.n) {r off len : Nat}
    (hr : off + len < (s.regs r).length) :
    Eff s (attach s v r off len) v ((((s.regs r).map some).drop off).take len) :=
  have R := rebound_setForeign h v r off len
  ⟨R.inv h hv (by intro c x; cases x) (by intro r' o' l' x; injection x with a b c; subst a b c; exact hr),
    R.n, R.regs, R.abs_self_foreign, fun _ hw => R.abs_other h hv hw⟩

theorem eff_ctorPtr {s s' : St} (h : Inv s) {v : Nat} (hv : v < s.n) {src : List Byte}
    (e : ctorPtr s v src = some s') : Eff s s' v src := by
  obtain ⟨m, hm, h1, h2, h3⟩ := mkBlock_spec src
  simp only [ctorPtr, hm, Option.bind_eq_bind, Option.bind_some, Option.pure_def, Option.some.injEq] at e
  subst e
  exact ⟨inv_allocSet h hv h1 (le_ctorRule _) h3, (allocSet_fields ..).1, (allocSet_fields ..).2,
    by rw [abs_allocSet_self, h2], fun w hw => abs_allocSet_other h hv _ _ _ hw⟩

theorem eff_ctorFill {s s' : St} (h : Inv s) {v : Nat} (hv : v < s.n) {n c : Nat}
    (e : ctorFill s v n c = some s') : Eff s s' v (List.replicate n (some c)) :=
  eff_ctorPtr h hv e

theorem eff_ctorCap {s s' : St} (h : Inv s) {v : Nat} (hv : v < s.n) {cap : Nat}
    (e : ctorCap s v cap = some s') : Eff s s' v [] := by
  simp only [ctorCap, Option.bind_eq_bind, Option.pure_def] at e
  cases hm : wr (fresh (cap + 1)) 0 [some 0] with
  | none => simp [hm] at e
  | some m =>
    simp only [hm, Option.bind_some, Option.some.injEq] at e
    subst e
    have hl : m.length = cap + 1 := by rw [wr_length hm, length_fresh]
    exact ⟨inv_allocSet h hv hl (Nat.zero_le _) (wr_get hm), (allocSet_fields ..).1, (allocSet_fields ..).2,
      by rw [abs_allocSet_self]; rfl, fun w hw => abs_allocSet_other h hv _ _ _ hw⟩

theorem eff_share {s s' : St} (h : Inv s) {v : Nat} (hv : v < s.n) {b : Nat} {blk : Block}
    (hb : s.heap b = some blk) (e : share s v b = some s') : Eff s s' v (blk.bytes.take blk.len) :=
  have R := rebound_share h e
  ⟨R.inv h hv (by intro c x; injection x with x; subst x; exact ⟨_, hb⟩) (by intro r o l x; cases x),
    R.n, R.regs, R.abs_self_blk h hv hb, fun _ hw => R.abs_other h hv hw⟩

/-- `operator=`: the target gets the chars of the source (which may be the target itself) -/
theorem eff_assign {s s' : St} (h : Inv s) {v : Nat} (hv : v < s.n) {w : Nat}
    (e : assign s v w = some s') : Eff s s' v (absVar s w) := by
  obtain ⟨d, hd⟩ := desc_some h w
  simp only [assign, hd, Option.bind_eq_bind, Option.bind_some] at e
  cases hloc : s.vars w with
  | blk b =>
    simp only [hloc] at e
    obtain ⟨blk, hb⟩ := h.live w b hloc
    have := eff_share h hv hb e
    simpa [absVar, hloc, hb] using this
  | empty =>
    simp only [hloc, rd_all h hd, Option.bind_some] at e
    exact eff_ctorPtr h hv e
  | foreign r off len =>
    simp only [hloc, rd_all h hd, Option.bind_some] at e
    exact eff_ctorPtr h hv e

/-- copy constructor into a slot -/
theorem eff_ctorCopy {s s' : St} (h : Inv s) {v : Nat} (hv : v < s.n) {w : Nat}
    (e : ctorCopy s v w = some s') : Eff s s' v (absVar s w) := by
  obtain ⟨d, hd⟩ := desc_some h w
  simp only [ctorCopy, hd, Option.bind_eq_bind, Option.bind_some] at e
  cases hloc : s.vars w with
  | blk b =>
    simp only [hloc] at e
    obtain ⟨blk, hb⟩ := h.live w b hloc
    have := eff_share h hv hb e
    simpa [absVar, hloc, hb] using this
  | empty =>
    simp only [hloc, Option.pure_def, Option.some.injEq] at e
    subst e
    have := eff_setEmpty h hv
    simpa [absVar, hloc] using this
  | foreign r off len =>
    simp only [hloc, rd_all h hd, Option.bind_some] at e
    exact eff_ctorPtr h hv e

/-! ### detach -/

theorem fresh_copy_take {N c : Nat} {a src m1 : List Byte} (hw : wr (fresh N) 0 src = some m1) (hc : c < N)
    (hs : src = a.take (if a.length < c then a.length else c)) : m1.take c = resizeL a c := by
  obtain ⟨hle, hm⟩ := wr_eq hw
  subst hm
  simp only [List.take_zero, List.nil_append, Nat.zero_add, length_fresh] at hle ⊢
  unfold resizeL
  by_cases hlt : a.length < c
  · simp only [hlt, if_true, List.take_length] at hs
    subst hs
    rw [List.take_append, List.take_of_length_le (Nat.le_of_lt hlt)]
    congr 1
    simp only [fresh, List.drop_replicate, List.take_replicate]
    congr 1
    omega
  · simp only [hlt, if_false] at hs
    have hl : src.length = c := by rw [hs, List.length_take]; omega
    rw [List.take_left' hl, hs]
    have : c - a.length = 0 := by omega
    simp [this]

/-- after a successful `detach` the slot owns its block exclusively -/
def Excl (s : St) (v : Nat) (len minCap : Nat) : Prop :=
  ∃ b blk, s.vars v = .blk b ∧ s.heap b = some blk ∧ blk.ref = 1 ∧ blk.len = len ∧ minCap ≤ blk.cap

theorem eff_detach {s s' : St} (h : Inv s) {v : Nat} (hv : v < s.n) {c m : Nat}
    (e : detach s v c m = some s') :
    Eff s s' v (resizeL (absVar s v) c) ∧ Excl s' v c m := by
  obtain ⟨d, hd⟩ := desc_some h v
  have hlen := desc_len h hd
  simp only [detach, hd, Option.bind_eq_bind, Option.bind_some] at e
  by_cases fast : d.ref = 1 ∧ m ≤ d.cap
  · simp only [fast, and_self, if_true] at e
    cases hloc : s.vars v with
    | empty => rw [desc_empty hloc] at hd; injection hd with hd; subst hd; simp at fast
    | foreign r off len => rw [desc_foreign hloc] at hd; injection hd with hd; subst hd; simp at fast
    | blk b =>
      obtain ⟨blk, hb⟩ := h.live v b hloc
      rw [desc_blk hloc hb] at hd; injection hd with hd; subst hd
      simp only at fast hlen e
      have W := h.wf b blk hb
      simp only [memOf, hb, Option.map_some, Option.bind_some] at e
      cases hm1 : wr (poison blk.bytes blk.len c) c [some 0] with
      | none => simp [hm1] at e
      | some m1 =>
        simp only [hm1, Option.bind_some] at e
        have hl1 : m1.length = blk.cap + 1 := by rw [wr_length hm1, poison_length, W.1]
        have hc : c ≤ blk.cap := by
          have := (wr_eq hm1).1
          simp only [List.length_cons, List.length_nil, poison_length] at this; omega
        have inv' := inv_writeOwn h e (by
          intro b' blk' hv' hb'
          rw [hloc] at hv'; injection hv' with hv'; subst hv'
          rw [hb] at hb'; injection hb' with hb'; subst hb'
          exact ⟨hl1, hc, wr_get hm1⟩)
        have F := writeOwn_fields e
        refine ⟨⟨inv', F.1, F.2.1, ?_, fun w hw => abs_writeOwn_other h e hw⟩, ?_⟩
        · rw [abs_writeOwn_self e, wr_take hm1 (Nat.le_refl c),
            poison_take _ _ _ (by omega) (by omega)]
          simp [absVar, hloc, hb]
        · obtain ⟨b', blk', hv', hb', r1, rfl⟩ := writeOwn_eq e
          rw [hloc] at hv'; injection hv' with hv'; subst hv'
          rw [hb] at hb'; injection hb' with hb'; subst hb'
          exact ⟨b, { blk with bytes := m1, len := c }, hloc, by simp, r1, rfl, fast.2⟩
  · simp only [fast, if_false] at e
    have hk : (if d.len < c then d.len else c) ≤ d.len := by split <;> omega
    rw [rd_prefix h hd hk] at e
    simp only [Option.bind_some] at e
    cases hm1 : wr (fresh (capRule m + 1)) 0 ((absVar s v).take (if d.len < c then d.len else c)) with
    | none => simp [hm1] at e
    | some m1 =>
      simp only [hm1, Option.bind_some] at e
      cases hm2 : wr m1 c [some 0] with
      | none => simp [hm2] at e
      | some m2 =>
        simp only [hm2, Option.bind_some, Option.pure_def, Option.some.injEq] at e
        subst e
        have hl1 : m1.length = capRule m + 1 := by rw [wr_length hm1, length_fresh]
        have hl2 : m2.length = capRule m + 1 := by rw [wr_length hm2, hl1]
        have hc : c ≤ capRule m := by
          have := (wr_eq hm2).1
          simp only [List.length_cons, List.length_nil, hl1] at this; omega
        refine ⟨⟨inv_allocSet h hv hl2 hc (wr_get hm2), (allocSet_fields ..).1, (allocSet_fields ..).2, ?_,
          fun w hw => abs_allocSet_other h hv _ _ _ hw⟩, ?_⟩
        · rw [abs_allocSet_self, wr_take hm2 (Nat.le_refl c)]
          exact fresh_copy_take hm1 (by omega) (by rw [hlen])
        · exact ⟨(setEmpty s v).next, ⟨m2, c, capRule m, 1⟩, by simp [allocSet], by simp [allocSet], rfl, rfl, le_capRule m⟩

theorem resizeL_self (a : List Byte) : resizeL a a.length = a := by simp [resizeL]

theorem eff_mview {s s' : St} (h : Inv s) {v : Nat} (hv : v < s.n) (e : mview s v = some s') :
    Eff s s' v (absVar s v) ∧ Excl s' v (absVar s v).length (absVar s v).length := by
  obtain ⟨d, hd⟩ := desc_some h v
  have hlen := desc_len h hd
  simp only [mview, hd, Option.bind_eq_bind, Option.bind_some] at e
  rw [hlen] at e
  have := eff_detach h hv e
  rw [resizeL_self] at this
  exact this

theorem eff_resize {s s' : St} (h : Inv s) {v : Nat} (hv : v < s.n) {n : Nat} (e : resize s v n = some s') :
    Eff s s' v (resizeL (absVar s v) n) := (eff_detach h hv e).1

theorem eff_reserve {s s' : St} (h : Inv s) {v : Nat} (hv : v < s.n) {n : Nat} (e : reserve s v n = some s') :
    Eff s s' v (absVar s v) := by
  obtain ⟨d, hd⟩ := desc_some h v
  have hlen := desc_len h hd
  simp only [reserve, hd, Option.bind_eq_bind, Option.bind_some] at e
  rw [hlen] at e
  have := (eff_detach h hv e).1
  rw [resizeL_self] at this
  exact this

/-- the C string view: same chars, and afterwards `str[length()]` is NUL -/
theorem eff_cview {s s' : St} (h : Inv s) {v : Nat} (hv : v < s.n) (e : cview s v = some s') :
    Eff s s' v (absVar s v) ∧ termByte s' v = some (some 0) := by
  obtain ⟨d, hd⟩ := desc_some h v
  have hlen := desc_len h hd
  simp only [cview, hd, Option.bind_eq_bind, Option.bind_some] at e
  cases ht : rdVal s d.base (d.off + d.len) with
  | none => simp [ht] at e
  | some t =>
    simp only [ht, Option.bind_some] at e
    by_cases t0 : t = 0
    · subst t0
      simp only [ne_eq, not_true_eq_false, if_false, Option.pure_def, Option.some.injEq] at e
      subst e
      refine ⟨Eff.refl h v, ?_⟩
      simp only [termByte, hd, Option.bind_eq_bind, Option.bind_some]
      simp only [rdVal, Option.bind_eq_bind] at ht
      cases hm : memOf s d.base with
      | none => simp [hm] at ht
      | some mm =>
        simp only [hm, Option.bind_some] at ht ⊢
        cases hx : mm[d.off + d.len]? with
        | none => simp [hx] at ht
        | some x =>
          cases x with
          | none => simp [hx] at ht
          | some y => simp only [hx, Option.some.injEq] at ht; subst ht; rfl
    · simp only [ne_eq, t0, not_false_eq_true, if_true] at e
      rw [hlen] at e
      obtain ⟨E, b, blk, hvb, hb, _, hl, _⟩ := eff_detach h hv e
      rw [resizeL_self] at E
      refine ⟨E, ?_⟩
      have W := E.inv.wf b blk hb
      simp only [termByte, desc_blk hvb hb, memOf, hb, Option.bind_eq_bind, Option.bind_some, Option.map_some,
        Nat.zero_add]
      exact W.2.2

theorem eff_clear {s s' : St} (h : Inv s) {v : Nat} (hv : v < s.n) (e : clear s v = some s') :
    Eff s s' v [] := by
  obtain ⟨d, hd⟩ := desc_some h v
  simp only [clear, hd, Option.bind_eq_bind, Option.bind_some] at e
  by_cases r1 : d.ref = 1
  · simp only [r1, if_true] at e
    cases hloc : s.vars v with
    | empty => rw [desc_empty hloc] at hd; injection hd with hd; subst hd; simp at r1
    | foreign r off len => rw [desc_foreign hloc] at hd; injection hd with hd; subst hd; simp at r1
    | blk b =>
      obtain ⟨blk, hb⟩ := h.live v b hloc
      rw [desc_blk hloc hb] at hd; injection hd with hd; subst hd
      have W := h.wf b blk hb
      simp only [memOf, hb, Option.map_some, Option.bind_some] at e
      cases hm1 : wr blk.bytes 0 [some 0] with
      | none => simp [hm1] at e
      | some m1 =>
        simp only [hm1, Option.bind_some] at e
        have inv' := inv_writeOwn h e (by
          intro b' blk' hv' hb'
          rw [hloc] at hv'; injection hv' with hv'; subst hv'
          rw [hb] at hb'; injection hb' with hb'; subst hb'
          exact ⟨by rw [wr_length hm1, W.1], Nat.zero_le _, wr_get hm1⟩)
        have F := writeOwn_fields e
        exact ⟨inv', F.1, F.2.1, by rw [abs_writeOwn_self e]; rfl, fun w hw => abs_writeOwn_other h e hw⟩
  · simp only [r1, if_false, Option.pure_def, Option.some.injEq] at e
    subst e
    exact eff_setEmpty h hv

/-! ### append -/

theorem eff_putTail_append {s s' : St} (h : Inv s) {v : Nat} {L C : Nat} (X : Excl s v L C) {src : List Byte}
    (e : putTail s v L src (L + src.length) = some s') : Eff s s' v (absVar s v ++ src) := by
  obtain ⟨b, blk, hloc, hb, r1, hl, _⟩ := X
  subst hl
  have W := h.wf b blk hb
  simp only [putTail, desc_blk hloc hb, memOf, hb, Option.bind_eq_bind, Option.bind_some, Option.map_some,
    Nat.zero_add] at e
  cases hm1 : wr blk.bytes blk.len src with
  | none => simp [hm1] at e
  | some m1 =>
    simp only [hm1, Option.bind_some] at e
    cases hm2 : wr m1 (blk.len + src.length) [some 0] with
    | none => simp [hm2] at e
    | some m2 =>
      simp only [hm2, Option.bind_some] at e
      have hl1 : m1.length = blk.cap + 1 := by rw [wr_length hm1, W.1]
      have hc : blk.len + src.length ≤ blk.cap := by
        have := (wr_eq hm2).1
        simp only [List.length_cons, List.length_nil, hl1] at this; omega
      have inv' := inv_writeOwn h e (by
        intro b' blk' hv' hb'
        rw [hloc] at hv'; injection hv' with hv'; subst hv'
        rw [hb] at hb'; injection hb' with hb'; subst hb'
        exact ⟨by rw [wr_length hm2, hl1], hc, wr_get hm2⟩)
      have F := writeOwn_fields e
      refine ⟨inv', F.1, F.2.1, ?_, fun w hw => abs_writeOwn_other h e hw⟩
      rw [abs_writeOwn_self e, wr_take hm2 (Nat.le_refl _), wr_take_end hm1]
      simp [absVar, hloc, hb]

theorem Excl.desc {s : St} {v L C : Nat} (X : Excl s v L C) : ∃ d, desc s v = some d ∧ d.len = L := by
  obtain ⟨b, blk, hloc, hb, r1, hl, _⟩ := X
  exact ⟨_, desc_blk hloc hb, hl⟩

theorem eff_appendP {s s' : St} (h : Inv s) {v : Nat} (hv : v < s.n) {src : List Byte}
    (e : appendP s v src = some s') : Eff s s' v (absVar s v ++ src) := by
  obtain ⟨d, hd⟩ := desc_some h v
  have hlen := desc_len h hd
  simp only [appendP, hd, Option.bind_eq_bind, Option.bind_some] at e
  cases h1 : detach s v d.len (d.len + src.length) with
  | none => simp [h1] at e
  | some s1 =>
    simp only [h1, Option.bind_some] at e
    obtain ⟨E1, X⟩ := eff_detach h hv h1
    rw [hlen, resizeL_self] at E1
    obtain ⟨d1, hd1, hl1⟩ := X.desc
    simp only [hd1, Option.bind_some, hl1] at e
    have E2 := eff_putTail_append E1.inv X e
    rw [E1.self] at E2
    exact E1.trans E2

theorem eff_appendC {s s' : St} (h : Inv s) {v : Nat} (hv : v < s.n) {c : Nat}
    (e : appendC s v c = some s') : Eff s s' v (absVar s v ++ [some c]) := eff_appendP h hv e

theorem eff_appendS {s s' : St} (h : Inv s) {v : Nat} (hv : v < s.n) {w : Nat}
    (e : appendS s v w = some s') : Eff s s' v (absVar s v ++ absVar s w) := by
  obtain ⟨d, hd⟩ := desc_some h v
  obtain ⟨dw, hdw⟩ := desc_some h w
  have hlen := desc_len h hd
  have hlenw := desc_len h hdw
  simp only [appendS, hd, hdw, Option.bind_eq_bind, Option.bind_some] at e
  cases h1 : detach s v d.len (d.len + dw.len) with
  | none => simp [h1] at e
  | some s1 =>
    simp only [h1, Option.bind_some] at e
    obtain ⟨E1, X⟩ := eff_detach h hv h1
    rw [hlen, resizeL_self] at E1
    obtain ⟨d1, hd1, hl1⟩ := X.desc
    have hw1 : absVar s1 w = absVar s w := by
      by_cases ew : w = v
      · subst ew; exact E1.self
      · exact E1.other w ew
    simp only [hd1, Option.bind_some, hl1, content_eq E1.inv w, hw1] at e
    rw [hlenw] at e X
    have E2 := eff_putTail_append E1.inv X e
    rw [E1.self] at E2
    exact E1.trans E2

/-! ### temporaries: `assignTemp`, `substr`, `prepend` -/

theorem eff_assignTemp {s s' : St} (h : Inv s) {v tmp : Nat} (hv : v < s.n) (ht : tmp < s.n) (hne : v ≠ tmp)
    (h0 : absVar s tmp = []) {src : List Byte} (e : assignTemp s v src tmp = some s') : Eff s s' v src := by
  simp only [assignTemp, Option.bind_eq_bind, Option.pure_def] at e
  cases h1 : ctorPtr s tmp src with
  | none => simp [h1] at e
  | some s1 =>
    simp only [h1, Option.bind_some] at e
    have E1 := eff_ctorPtr h ht h1
    cases h2 : assign s1 v tmp with
    | none => simp [h2] at e
    | some s2 =>
      simp only [h2, Option.bind_some, Option.some.injEq] at e
      subst e
      have E2 := eff_assign E1.inv (by rw [E1.n]; exact hv) h2
      have E3 := eff_setEmpty E2.inv (v := tmp) (by rw [E2.n, E1.n]; exact ht)
      refine ⟨E3.inv, by rw [E3.n, E2.n, E1.n], by rw [E3.regs, E2.regs, E1.regs], ?_, ?_⟩
      · rw [E3.other v hne, E2.self, E1.self]
      · intro w hw
        by_cases hwt : w = tmp
        · subst hwt; rw [E3.self, h0]
        · rw [E3.other w hwt, E2.other w hw, E1.other w hwt]

theorem substrRange_le (len : Nat) (start length : Int) : (substrRange len start length).2 ≤ len := by
  unfold substrRange
  simp only
  by_cases c : length ≥ 0
  · simp only [c, if_true]
    generalize (if start < 0 then (if (len : Int) + start < 0 then 0 else ((len : Int) + start).toNat)
      else if start.toNat > len then len else start.toNat) = st
    by_cases c2 : st + length.toNat > len
    · simp only [c2, if_true]; exact Nat.le_refl _
    · simp only [c2, if_false]; omega
  · simp only [c, if_false]; exact Nat.le_refl _

/-- loading the range `substr` computes gives the sub-list of the chars -/
theorem rd_sub {s : St} (h : Inv s) {w : Nat} {d : Desc} (hd : desc s w = some d) {a b : Int} {src : List Byte}
    (hr : rdRange s d.base (d.off + (substrRange d.len a b).1)
      ((substrRange d.len a b).2 - (substrRange d.len a b).1) = some src) : src = subList (absVar s w) a b := by
  have hlen := desc_len h hd
  have hall := rd_all h hd
  simp only [rdRange, Option.bind_eq_bind] at hr hall
  cases hm : memOf s d.base with
  | none => simp [hm] at hr
  | some mm =>
    simp only [hm, Option.bind_some, rdList] at hr hall
    split at hall
    · rename_i c1
      split at hr
      · injection hr with hr
        injection hall with hall
        subst hr
        unfold subList
        rw [← hlen, ← hall]
        simp only [List.drop_take, List.drop_drop, List.take_take]
        congr 1
        have := substrRange_le d.len a b
        omega
      · cases hr
    · cases hall

theorem eff_substr {s s' : St} (h : Inv s) {v w tmp : Nat} (hv : v < s.n) (ht : tmp < s.n) (hne : v ≠ tmp)
    (h0 : absVar s tmp = []) {start length : Int} (e : substr s v w start length tmp = some s') :
    Eff s s' v (subList (absVar s w) start length) := by
  obtain ⟨d, hd⟩ := desc_some h w
  simp only [substr, hd, Option.bind_eq_bind, Option.bind_some, Option.bind_eq_some_iff] at e
  obtain ⟨src, hr, e⟩ := e
  have E := eff_assignTemp h hv ht hne h0 e
  exact E.val_eq (rd_sub h hd hr)

theorem substrRange_nonneg {len p k : Nat} (h : p + k ≤ len) :
    substrRange len (p : Int) (k : Int) = (p, p + k) := by
  unfold substrRange
  have h1 : ¬ ((p : Int) < 0) := by omega
  have h2 : ¬ (p > len) := by omega
  have h3 : (k : Int) ≥ 0 := by omega
  simp only [h1, if_false, h3, if_true, Int.toNat_natCast, h2]
  have h4 : ¬ (p + k > len) := by omega
  simp only [h4, if_false]

theorem subList_nonneg {a : List Byte} {p k : Nat} (h : p + k ≤ a.length) :
    subList a (p : Int) (k : Int) = (a.drop p).take k := by
  unfold subList
  rw [substrRange_nonneg h]
  simp

theorem wr3_take {m m1 m2 m3 a b : List Byte} (h1 : wr m 0 a = some m1) (h2 : wr m1 a.length b = some m2)
    (h3 : wr m2 (a.length + b.length) [some 0] = some m3) : m3.take (a.length + b.length) = a ++ b := by
  rw [wr_take h3 (Nat.le_refl _), wr_take_end h2]
  have := wr_take_end h1
  simp only [Nat.zero_add, List.take_zero, List.nil_append] at this
  rw [this]

/-- the common tail of both `prepend`s: `a` then the old chars `b` into the exclusively owned block -/
theorem eff_putFront {s s' : St} (h : Inv s) {v : Nat} {C : Nat} (X : Excl s v 0 C) {a b : List Byte}
    (e : (do
      let dv ← desc s v
      let m ← memOf s dv.base
      let m ← wr m 0 a
      let m ← wr m a.length b
      let m ← wr m (a.length + b.length) [some 0]
      writeOwn s v m (a.length + b.length)) = some s') : Eff s s' v (a ++ b) := by
  obtain ⟨bk, blk, hloc, hb, r1, hl, _⟩ := X
  have W := h.wf bk blk hb
  simp only [desc_blk hloc hb, memOf, hb, Option.bind_eq_bind, Option.bind_some, Option.map_some] at e
  cases hm1 : wr blk.bytes 0 a with
  | none => simp [hm1] at e
  | some m1 =>
    simp only [hm1, Option.bind_some] at e
    cases hm2 : wr m1 a.length b with
    | none => simp [hm2] at e
    | some m2 =>
      simp only [hm2, Option.bind_some] at e
      cases hm3 : wr m2 (a.length + b.length) [some 0] with
      | none => simp [hm3] at e
      | some m3 =>
        simp only [hm3, Option.bind_some] at e
        have hl3 : m3.length = blk.cap + 1 := by rw [wr_length hm3, wr_length hm2, wr_length hm1, W.1]
        have hc : a.length + b.length ≤ blk.cap := by
          have := (wr_eq hm3).1
          simp only [List.length_cons, List.length_nil, wr_length hm2, wr_length hm1, W.1] at this; omega
        have inv' := inv_writeOwn h e (by
          intro b' blk' hv' hb'
          rw [hloc] at hv'; injection hv' with hv'; subst hv'
          rw [hb] at hb'; injection hb' with hb'; subst hb'
          exact ⟨hl3, hc, wr_get hm3⟩)
        have F := writeOwn_fields e
        exact ⟨inv', F.1, F.2.1, by rw [abs_writeOwn_self e, wr3_take hm1 hm2 hm3],
          fun w hw => abs_writeOwn_other h e hw⟩

theorem resizeL_zero (a : List Byte) : resizeL a 0 = [] := by simp [resizeL]

theorem eff_prependS {s s' : St} (h : Inv s) {v w tmp : Nat} (hv : v < s.n) (ht : tmp < s.n) (hne : v ≠ tmp)
    (hwt : w ≠ tmp) (h0 : absVar s tmp = []) (e : prependS s v w tmp = some s') :
    Eff s s' v (absVar s w ++ absVar s v) := by
  simp only [prependS, Option.bind_eq_bind, Option.pure_def] at e
  cases h1 : ctorCopy s tmp v with
  | none => simp [h1] at e
  | some s1 =>
    simp only [h1, Option.bind_some] at e
    have E1 := eff_ctorCopy h ht h1
    have hv1 : v < s1.n := by rw [E1.n]; exact hv
    generalize hw' : (if w = v then tmp else w) = w' at e
    have hw'v : w' ≠ v := by
      rw [← hw']; by_cases c : w = v
      · simp only [c, if_true]; exact fun x => hne x.symm
      · simp only [c, if_false]; exact c
    have habs : absVar s1 w' = absVar s w := by
      rw [← hw']; by_cases c : w = v
      · simp only [c, if_true]; rw [E1.self]
      · simp only [c, if_false]; exact E1.other w hwt
    obtain ⟨dw, hdw⟩ := desc_some E1.inv w'
    obtain ⟨dc, hdc⟩ := desc_some E1.inv tmp
    have hlw := desc_len E1.inv hdw
    have hlc := desc_len E1.inv hdc
    simp only [hdw, hdc, Option.bind_some] at e
    cases h2 : detach s1 v 0 (dw.len + dc.len) with
    | none => simp [h2] at e
    | some s2 =>
      simp only [h2, Option.bind_some] at e
      obtain ⟨E2, X⟩ := eff_detach E1.inv hv1 h2
      have ha : absVar s2 w' = absVar s w := by rw [E2.other w' hw'v, habs]
      have hb : absVar s2 tmp = absVar s v := by rw [E2.other tmp (fun x => hne x.symm), E1.self]
      simp only [content_eq E2.inv, Option.bind_some, ha, hb] at e
      rw [hlw, hlc, habs, E1.self] at e X
      -- split off the final destruction of the temporary
      cases h3 : (do
          let dv ← desc s2 v
          let m ← memOf s2 dv.base
          let m ← wr m 0 (absVar s w)
          let m ← wr m (absVar s w).length (absVar s v)
          let m ← wr m ((absVar s w).length + (absVar s v).length) [some 0]
          writeOwn s2 v m ((absVar s w).length + (absVar s v).length)) with
      | none =>
        simp only [Option.bind_eq_bind] at h3
        cases hd2 : desc s2 v with
        | none => simp [hd2] at e
        | some dv =>
          simp only [hd2, Option.bind_some] at e h3
          cases hm0 : memOf s2 dv.base with
          | none => simp [hm0] at e
          | some mm =>
            simp only [hm0, Option.bind_some] at e h3
            cases hm1 : wr mm 0 (absVar s w) with
            | none => simp [hm1] at e
            | some m1 =>
              simp only [hm1, Option.bind_some] at e h3
              cases hm2 : wr m1 (absVar s w).length (absVar s v) with
              | none => simp [hm2] at e
              | some m2 =>
                simp only [hm2, Option.bind_some] at e h3
                cases hm3 : wr m2 ((absVar s w).length + (absVar s v).length) [some 0] with
                | none => simp [hm3] at e
                | some m3 =>
                  simp only [hm3, Option.bind_some] at e h3
                  simp [h3] at e
      | some s3 =>
        have E3 := eff_putFront E2.inv X h3
        simp only [Option.bind_eq_bind] at h3
        cases hd2 : desc s2 v with
        | none => simp [hd2] at h3
        | some dv =>
          simp only [hd2, Option.bind_some] at e h3
          cases hm0 : memOf s2 dv.base with
          | none => simp [hm0] at h3
          | some mm =>
            simp only [hm0, Option.bind_some] at e h3
            cases hm1 : wr mm 0 (absVar s w) with
            | none => simp [hm1] at h3
            | some m1 =>
              simp only [hm1, Option.bind_some] at e h3
              cases hm2 : wr m1 (absVar s w).length (absVar s v) with
              | none => simp [hm2] at h3
              | some m2 =>
                simp only [hm2, Option.bind_some] at e h3
                cases hm3 : wr m2 ((absVar s w).length + (absVar s v).length) [some 0] with
                | none => simp [hm3] at h3
                | some m3 =>
                  simp only [hm3, Option.bind_some] at e h3
                  simp only [h3, Option.bind_some, Option.some.injEq] at e
                  subst e
                  have E4 := eff_setEmpty E3.inv (v := tmp) (by rw [E3.n, E2.n, E1.n]; exact ht)
                  refine ⟨E4.inv, by rw [E4.n, E3.n, E2.n, E1.n], by rw [E4.regs, E3.regs, E2.regs, E1.regs], ?_, ?_⟩
                  · rw [E4.other v hne, E3.self]
                  · intro u hu
                    by_cases hut : u = tmp
                    · subst hut; rw [E4.self, h0]
                    · rw [E4.other u hut, E3.other u hu, E2.other u hu, E1.other u hut]

theorem eff_prependP {s s' : St} (h : Inv s) {v tmp : Nat} (hv : v < s.n) (ht : tmp < s.n) (hne : v ≠ tmp)
    (h0 : absVar s tmp = []) {a : List Byte} (e : prependP s v a tmp = some s') :
    Eff s s' v (a ++ absVar s v) := by
  simp only [prependP, Option.bind_eq_bind, Option.pure_def] at e
  cases h1 : ctorCopy s tmp v with
  | none => simp [h1] at e
  | some s1 =>
    simp only [h1, Option.bind_some] at e
    have E1 := eff_ctorCopy h ht h1
    have hv1 : v < s1.n := by rw [E1.n]; exact hv
    obtain ⟨dc, hdc⟩ := desc_some E1.inv tmp
    have hlc := desc_len E1.inv hdc
    simp only [hdc, Option.bind_some] at e
    cases h2 : detach s1 v 0 (a.length + dc.len) with
    | none => simp [h2] at e
    | some s2 =>
      simp only [h2, Option.bind_some] at e
      obtain ⟨E2, X⟩ := eff_detach E1.inv hv1 h2
      have hb : absVar s2 tmp = absVar s v := by rw [E2.other tmp (fun x => hne x.symm), E1.self]
      simp only [content_eq E2.inv, Option.bind_some, hb] at e
      rw [hlc, E1.self] at e X
      -- split off the final destruction of the temporary
      cases h3 : (do
          let dv ← desc s2 v
          let m ← memOf s2 dv.base
          let m ← wr m 0 a
          let m ← wr m a.length (absVar s v)
          let m ← wr m (a.length + (absVar s v).length) [some 0]
          writeOwn s2 v m (a.length + (absVar s v).length)) with
      | none =>
        simp only [Option.bind_eq_bind] at h3
        cases hd2 : desc s2 v with
        | none => simp [hd2] at e
        | some dv =>
          simp only [hd2, Option.bind_some] at e h3
          cases hm0 : memOf s2 dv.base with
          | none => simp [hm0] at e
          | some mm =>
            simp only [hm0, Option.bind_some] at e h3
            cases hm1 : wr mm 0 a with
            | none => simp [hm1] at e
            | some m1 =>
              simp only [hm1, Option.bind_some] at e h3
              cases hm2 : wr m1 a.length (absVar s v) with
              | none => simp [hm2] at e
              | some m2 =>
                simp only [hm2, Option.bind_some] at e h3
                cases hm3 : wr m2 (a.length + (absVar s v).length) [some 0] with
                | none => simp [hm3] at e
                | some m3 =>
                  simp only [hm3, Option.bind_some] at e h3
                  simp [h3] at e
      | some s3 =>
        have E3 := eff_putFront E2.inv X h3
        simp only [Option.bind_eq_bind] at h3
        cases hd2 : desc s2 v with
        | none => simp [hd2] at h3
        | some dv =>
          simp only [hd2, Option.bind_some] at e h3
          cases hm0 : memOf s2 dv.base with
          | none => simp [hm0] at h3
          | some mm =>
            simp only [hm0, Option.bind_some] at e h3
            cases hm1 : wr mm 0 a with
            | none => simp [hm1] at h3
            | some m1 =>
              simp only [hm1, Option.bind_some] at e h3
              cases hm2 : wr m1 a.length (absVar s v) with
              | none => simp [hm2] at h3
              | some m2 =>
                simp only [hm2, Option.bind_some] at e h3
                cases hm3 : wr m2 (a.length + (absVar s v).length) [some 0] with
                | none => simp [hm3] at h3
                | some m3 =>
                  simp only [hm3, Option.bind_some] at e h3
                  simp only [h3, Option.bind_some, Option.some.injEq] at e
                  subst e
                  have E4 := eff_setEmpty E3.inv (v := tmp) (by rw [E3.n, E2.n, E1.n]; exact ht)
                  refine ⟨E4.inv, by rw [E4.n, E3.n, E2.n, E1.n], by rw [E4.regs, E3.regs, E2.regs, E1.regs], ?_, ?_⟩
                  · rw [E4.other v hne, E3.self]
                  · intro u hu
                    by_cases hut : u = tmp
                    · subst hut; rw [E4.self, h0]
                    · rw [E4.other u hut, E3.other u hu, E2.other u hu, E1.other u hut]

/-! ### in-place edits: `fillFrom`, `replace(char, char)`, case maps -/

theorem wr_get_out {m : List Byte} {off : Nat} {d m' : List Byte} (h : wr m off d = some m') {i : Nat}
    (hi : i < off ∨ off + d.length ≤ i) : m'[i]? = m[i]? := by
  obtain ⟨a, b⟩ := wr_eq h
  subst b
  rcases hi with hi | hi
  · rw [List.append_assoc, List.getElem?_append_left (by simp only [List.length_take]; omega),
      List.getElem?_take]
    simp [hi]
  · rw [List.getElem?_append_right (by simp only [List.length_append, List.length_take]; omega)]
    simp only [List.length_append, List.length_take, List.getElem?_drop]
    congr 1
    omega

theorem mapUntilNul_spec {f : Nat → Nat} : ∀ {m m' : List Byte}, mapUntilNul f m = some m' →
    m'.length = m.length ∧ ∀ i : Nat, m[i]? = some (some 0) → m'[i]? = some (some 0)
  | [], _, h => by simp [mapUntilNul] at h
  | none :: _, _, h => by simp [mapUntilNul] at h
  | some x :: r, m', h => by
    simp only [mapUntilNul] at h
    by_cases x0 : x = 0
    · simp only [x0, if_true, Option.some.injEq] at h
      subst h; subst x0
      exact ⟨rfl, fun i hi => hi⟩
    · simp only [x0, if_false, Option.map_eq_some_iff] at h
      obtain ⟨r', hr, rfl⟩ := h
      have ih := mapUntilNul_spec hr
      refine ⟨by simp [ih.1], ?_⟩
      intro i hi
      cases i with
      | zero => simp at hi; exact absurd hi x0
      | succ j => simp only [List.getElem?_cons_succ] at hi ⊢; exact ih.2 j hi

/-- an in-place rewrite of the chars of an exclusively owned block that keeps its size and terminator -/
theorem eff_rewrite {s s' : St} (h : Inv s) {v L C : Nat} (X : Excl s v L C) {m' : List Byte}
    (hm : ∀ b blk, s.vars v = .blk b → s.heap b = some blk →
      m'.length = blk.bytes.length ∧ m'[L]? = some (some 0))
    (e : writeOwn s v m' L = some s') : Eff s s' v (m'.take L) := by
  obtain ⟨bk, blk, hloc, hb, r1, hl, _⟩ := X
  have W := h.wf bk blk hb
  have M := hm bk blk hloc hb
  have inv' := inv_writeOwn h e (by
    intro b' blk' hv' hb'
    rw [hloc] at hv'; injection hv' with hv'; subst hv'
    rw [hb] at hb'; injection hb' with hb'; subst hb'
    exact ⟨by rw [M.1, W.1], by omega, M.2⟩)
  have F := writeOwn_fields e
  exact ⟨inv', F.1, F.2.1, abs_writeOwn_self e, fun w hw => abs_writeOwn_other h e hw⟩

theorem mapUntilNul_take {f : Nat → Nat} : ∀ {m m' : List Byte} {L : Nat}, mapUntilNul f m = some m' →
    m[L]? = some (some 0) → m'.take L = Spec.mapCStr f (m.take L)
  | [], _, _, h, _ => by simp [mapUntilNul] at h
  | none :: _, _, _, h, _ => by simp [mapUntilNul] at h
  | some x :: r, m', L, h, hL => by
    simp only [mapUntilNul] at h
    by_cases x0 : x = 0
    · simp only [x0, if_true, Option.some.injEq] at h
      subst h; subst x0
      cases L with
      | zero => simp [Spec.mapCStr]
      | succ k => simp [Spec.mapCStr]
    · simp only [x0, if_false, Option.map_eq_some_iff] at h
      obtain ⟨r', hr, rfl⟩ := h
      cases L with
      | zero => simp at hL; exact absurd hL x0
      | succ k =>
        simp only [List.getElem?_cons_succ] at hL
        simp only [List.take_succ_cons, Spec.mapCStr, x0, if_false]
        rw [mapUntilNul_take hr hL]

theorem eff_mapChars {s s' : St} (h : Inv s) {v : Nat} (hv : v < s.n) {f : Nat → Nat}
    (e : mapChars s v f = some s') : Eff s s' v (Spec.mapCStr f (absVar s v)) := by
  simp only [mapChars, Option.bind_eq_bind] at e
  cases h1 : mview s v with
  | none => simp [h1] at e
  | some s1 =>
    simp only [h1, Option.bind_some] at e
    obtain ⟨E1, X⟩ := eff_mview h hv h1
    obtain ⟨bk, blk, hloc, hb, r1, hl, hcap⟩ := X
    have W := E1.inv.wf bk blk hb
    simp only [desc_blk hloc hb, memOf, hb, Option.bind_some, Option.map_some] at e
    cases hm : mapUntilNul f blk.bytes with
    | none => simp [hm] at e
    | some m' =>
      simp only [hm, Option.bind_some] at e
      have M := mapUntilNul_spec hm
      have E2 := eff_rewrite E1.inv ⟨bk, blk, hloc, hb, r1, rfl, Nat.le_refl _⟩ (by
        intro b' blk' hv' hb'
        rw [hloc] at hv'; injection hv' with hv'; subst hv'
        rw [hb] at hb'; injection hb' with hb'; subst hb'
        exact ⟨M.1, M.2 _ W.2.2⟩) e
      refine (E1.trans E2).val_eq ?_
      rw [mapUntilNul_take hm W.2.2, ← E1.self]
      simp [absVar, hloc, hb]

theorem eff_fillFrom {s s' : St} (h : Inv s) {v : Nat} (hv : v < s.n) {from_ c : Nat}
    (e : fillFrom s v from_ c = some s') :
    Eff s s' v ((absVar s v).take from_ ++ List.replicate ((absVar s v).length - from_) (some c)) := by
  simp only [fillFrom, Option.bind_eq_bind] at e
  cases h1 : mview s v with
  | none => simp [h1] at e
  | some s1 =>
    simp only [h1, Option.bind_some] at e
    obtain ⟨E1, X⟩ := eff_mview h hv h1
    obtain ⟨bk, blk, hloc, hb, r1, hl, hcap⟩ := X
    have W := E1.inv.wf bk blk hb
    simp only [desc_blk hloc hb, memOf, hb, Option.bind_some, Option.map_some] at e
    cases hm : wr blk.bytes (if from_ < blk.len then from_ else blk.len) (List.replicate (blk.len - from_) (some c)) with
    | none => simp [hm] at e
    | some m' =>
      simp only [hm, Option.bind_some] at e
      have hend : (if from_ < blk.len then from_ else blk.len) + (List.replicate (blk.len - from_) (some c)).length
          = blk.len := by
        simp only [List.length_replicate]; split <;> omega
      have E2 := eff_rewrite E1.inv ⟨bk, blk, hloc, hb, r1, rfl, Nat.le_refl _⟩ (by
        intro b' blk' hv' hb'
        rw [hloc] at hv'; injection hv' with hv'; subst hv'
        rw [hb] at hb'; injection hb' with hb'; subst hb'
        refine ⟨wr_length hm, ?_⟩
        rw [wr_get_out hm (Or.inr (by rw [hend]; exact Nat.le_refl _))]
        exact W.2.2) e
      refine (E1.trans E2).val_eq ?_
      have t := wr_take_end hm
      rw [hend] at t
      rw [t]
      have ha : absVar s1 v = blk.bytes.take blk.len := by simp [absVar, hloc, hb]
      rw [← E1.self, ha, List.take_take, List.length_take]
      have hlen : min blk.len blk.bytes.length = blk.len := by omega
      rw [hlen]
      congr 2
      split <;> omega

/-! ### calls that leave every value alone, and calls composed of several effects -/

structure Silent (s s' : St) : Prop where
  inv : Inv s'
  n : s'.n = s.n
  regs : s'.regs = s.regs
  abs : ∀ u, absVar s' u = absVar s u

theorem Silent.refl {s : St} (h : Inv s) : Silent s s := ⟨h, rfl, rfl, fun _ => rfl⟩

theorem Eff.silent {s s' : St} {v : Nat} (E : Eff s s' v (absVar s v)) : Silent s s' :=
  ⟨E.inv, E.n, E.regs, fun u => by
    by_cases c : u = v
    · subst c; exact E.self
    · exact E.other u c⟩

theorem Silent.trans {s s1 s2 : St} (a : Silent s s1) (b : Silent s1 s2) : Silent s s2 :=
  ⟨b.inv, by rw [b.n, a.n], by rw [b.regs, a.regs], fun u => by rw [b.abs, a.abs]⟩

theorem Silent.andThen {s s1 s2 : St} {v : Nat} {a : List Byte} (S : Silent s s1) (E : Eff s1 s2 v a) :
    Eff s s2 v a :=
  ⟨E.inv, by rw [E.n, S.n], by rw [E.regs, S.regs], E.self, fun w hw => by rw [E.other w hw, S.abs]⟩

theorem Silent.eff {s s' : St} (S : Silent s s') (v : Nat) : Eff s s' v (absVar s v) :=
  ⟨S.inv, S.n, S.regs, S.abs v, fun w _ => S.abs w⟩

theorem silent_cview {s s' : St} (h : Inv s) {v : Nat} (hv : v < s.n) (e : cview s v = some s') : Silent s s' :=
  (eff_cview h hv e).1.silent

/-- an effect on a temporary that is emptied again is silent for the user variables; here: the
    temporary ends with some value, the caller empties it -/
theorem eff_two {s s1 s2 : St} {v t : Nat} {a b : List Byte} (hne : v ≠ t) (h0 : absVar s t = [])
    (E1 : Eff s s1 v a) (E2 : Eff s1 s2 t b) (hb : b = []) : Eff s s2 v a :=
  ⟨E2.inv, by rw [E2.n, E1.n], by rw [E2.regs, E1.regs], by rw [E2.other v hne, E1.self], fun w hw => by
    by_cases c : w = t
    · subst c; rw [E2.self, hb, h0]
    · rw [E2.other w c, E1.other w hw]⟩

/-! ### trim, token -/

theorem contentVal_eq {s : St} (h : Inv s) (v : Nat) : contentVal s v = allSome (absVar s v) := by
  simp only [contentVal, content_eq h v, Option.bind_eq_bind, Option.bind_some]

theorem allSome_eq : ∀ {a : List Byte} {c : List Nat}, allSome a = some c → a = c.map some
  | [], c, e => by simp only [allSome, Option.some.injEq] at e; subst e; rfl
  | none :: r, c, e => by simp [allSome] at e
  | some x :: r, c, e => by
    simp only [allSome, Option.map_eq_some_iff] at e
    obtain ⟨c', hc, rfl⟩ := e
    rw [allSome_eq hc]; rfl

theorem eff_trim {s s' : St} (h : Inv s) {v tmp : Nat} (hv : v < s.n) (ht : tmp < s.n) (hne : v ≠ tmp)
    (h0 : absVar s tmp = []) {chars : List Nat} (e : trim s v chars tmp = some s') :
    ∃ c, allSome (absVar s v) = some c ∧ Eff s s' v ((Spec.trimL chars c).map some) := by
  obtain ⟨d, hd⟩ := desc_some h v
  have hlen := desc_len h hd
  simp only [trim, hd, Option.bind_eq_bind, Option.bind_some] at e
  by_cases l0 : d.len = 0
  · simp only [l0, if_true, Option.pure_def, Option.some.injEq] at e
    subst e
    have : absVar s v = [] := by
      have : (absVar s v).length = 0 := by omega
      exact List.eq_nil_of_length_eq_zero this
    exact ⟨[], by rw [this]; rfl, (Eff.refl h v).val_eq (by rw [this]; rfl)⟩
  · simp only [l0, if_false, contentVal_eq h v, Option.bind_eq_some_iff] at e
    obtain ⟨c, hc, e⟩ := e
    refine ⟨c, hc, ?_⟩
    have habs := allSome_eq hc
    have hcl : c.length = d.len := by rw [hlen, habs, List.length_map]
    have TR := trim_range (inSet chars) c
    generalize hp : (c.takeWhile (inSet chars)).length = p at e TR
    generalize hk : ((c.drop p).reverse.takeWhile (inSet chars)).length = k at e TR
    have hpk : p + (c.length - k - p) ≤ (absVar s v).length := by
      rw [habs, List.length_map]
      have : p ≤ c.length := by
        rw [← hp]
        have := List.takeWhile_append_dropWhile (p := inSet chars) (l := c)
        have h2 := congrArg List.length this
        simp only [List.length_append] at h2
        omega
      omega
    split at e
    · simp only [Option.bind_eq_some_iff] at e
      obtain ⟨src, hr, e⟩ := e
      have E := eff_assignTemp h hv ht hne h0 e
      refine E.val_eq ?_
      rw [rd_sub h hd hr, subList_nonneg hpk, habs, ← List.map_drop, ← List.map_take, TR]
      rfl
    · rename_i hne2
      simp only [Option.pure_def, Option.some.injEq] at e
      subst e
      refine (Eff.refl h v).val_eq ?_
      have hz : c.length - k - p = c.length := by
        have : ¬ (c.length - k - p ≠ d.len) := hne2
        omega
      have p0 : p = 0 := by omega
      rw [habs]
      congr 1
      unfold Spec.trimL
      rw [← TR, hz, p0]
      simp

theorem cstrOf_append : ∀ (c : List Nat) (rest : List Byte), (∀ x ∈ c, x ≠ 0) →
    cstrOf (c.map some ++ some 0 :: rest) = some c
  | [], rest, _ => by simp [cstrOf]
  | x :: t, rest, hc => by
    have hx : x ≠ 0 := hc x (by simp)
    simp only [List.map_cons, List.cons_append, cstrOf, hx, if_false]
    rw [cstrOf_append t rest (fun y hy => hc y (by simp [hy]))]
    rfl

/-- memory that holds `a`, then a NUL -/
theorem drop_split {mm : List Byte} {off len : Nat} (ht : mm[off + len]? = some (some 0)) :
    mm.drop off = (mm.drop off).take len ++ some 0 :: mm.drop (off + len + 1) := by
  have hlt : off + len < mm.length := by
    by_cases c : off + len < mm.length
    · exact c
    · rw [List.getElem?_eq_none (by omega)] at ht; cases ht
  conv => lhs; rw [← List.take_append_drop len (mm.drop off)]
  congr 1
  rw [List.drop_drop]
  have : mm.drop (off + len) = mm[off + len] :: mm.drop (off + len + 1) := by
    rw [List.drop_eq_getElem_cons hlt]
  rw [this]
  congr 1
  have := List.getElem?_eq_getElem hlt
  rw [this] at ht
  injection ht

/-- when `str[length()]` is NUL and the chars are initialised and NUL-free, the C string at
    `data->str + start` is the rest of the value of the variable -/
theorem cstrVar_from {s : St} (h : Inv s) {v : Nat} (ht : termByte s v = some (some 0)) {c : List Nat}
    (hc : allSome (absVar s v) = some c) (hz : ∀ x ∈ c, x ≠ 0) {start : Nat} (hs : start ≤ c.length) :
    cstrVar s v start = some (c.drop start) := by
  obtain ⟨d, hd⟩ := desc_some h v
  have hall := rd_all h hd
  have hlen := desc_len h hd
  simp only [termByte, hd, Option.bind_eq_bind, Option.bind_some] at ht
  simp only [cstrVar, hd, Option.bind_eq_bind, Option.bind_some, cstrAt]
  simp only [rdRange, Option.bind_eq_bind] at hall
  cases hm : memOf s d.base with
  | none => simp [hm] at ht
  | some mm =>
    simp only [hm, Option.bind_some, rdList] at ht hall ⊢
    split at hall
    · rename_i hle
      injection hall with hall
      have hcl : c.length = d.len := by rw [hlen, allSome_eq hc, List.length_map]
      have hoff : d.off + start ≤ mm.length := by omega
      simp only [hoff, if_true]
      rw [← List.drop_drop, drop_split ht, hall, allSome_eq hc,
        List.drop_append_of_le_length (by rw [List.length_map]; exact hs), ← List.map_drop]
      exact cstrOf_append _ _ (fun x hx => hz x (List.mem_of_mem_drop hx))
    · cases hall

theorem cstrVar_eq {s : St} (h : Inv s) {v : Nat} (ht : termByte s v = some (some 0)) {c : List Nat}
    (hc : allSome (absVar s v) = some c) (hz : ∀ x ∈ c, x ≠ 0) : cstrVar s v 0 = some c := by
  have := cstrVar_from h ht hc hz (start := 0) (Nat.zero_le _)
  simpa using this

theorem subList_toEnd (a : List Byte) (st : Nat) : subList a (st : Int) (-1) = a.drop st := by
  unfold subList substrRange
  have h1 : ¬ ((st : Int) < 0) := by omega
  have h3 : ¬ ((-1 : Int) ≥ 0) := by omega
  simp only [h1, if_false, h3, Int.toNat_natCast]
  by_cases c : st > a.length
  · simp only [c, if_true]
    rw [List.drop_of_length_le (Nat.le_refl _), List.drop_of_length_le (by omega)]
    simp
  · simp only [c, if_false]
    rw [List.take_of_length_le (by simp only [List.length_drop]; omega)]

theorem nulFree_of {c : List Nat} (h : 0 ∉ c) : ∀ x ∈ c, x ≠ 0 := fun x hx h0 => h (h0 ▸ hx)

theorem strchrL_le {h : List Nat} {c k : Nat} (e : strchrL h c = some k) : k ≤ h.length := by
  unfold strchrL at e
  by_cases c0 : c = 0
  · simp only [c0, if_true, Option.some.injEq] at e; omega
  · simp only [c0, if_false] at e
    obtain ⟨hi, _, _⟩ := List.findIdx?_eq_some_iff_getElem.mp e
    omega

theorem silent_findCFrom {s s1 : St} (h : Inv s) {w : Nat} (hw : w < s.n) {c st : Nat} {r : Option Nat}
    (e : findCFrom s w c st = some (s1, r)) : Silent s s1 := by
  obtain ⟨d, hd⟩ := desc_some h w
  simp only [findCFrom, hd, Option.bind_eq_bind, Option.bind_some] at e
  by_cases c1 : st ≥ d.len
  · simp only [c1, if_true, Option.pure_def, Option.some.injEq, Prod.mk.injEq] at e
    rw [← e.1]; exact Silent.refl h
  · simp only [c1, if_false, Option.bind_eq_some_iff, Option.pure_def, Option.some.injEq, Prod.mk.injEq] at e
    obtain ⟨s2, h2, _, _, e⟩ := e
    rw [← e.1]; exact silent_cview h hw h2

theorem findCFrom_eq {s s1 : St} (h : Inv s) {w : Nat} (hw : w < s.n) {sep st : Nat} {r : Option Nat}
    {c : List Nat} (hc : allSome (absVar s w) = some c) (hz : 0 ∉ c)
    (e : findCFrom s w sep st = some (s1, r)) :
    Silent s s1 ∧ r = if st ≥ c.length then none else (strchrL (c.drop st) sep).map (· + st) := by
  obtain ⟨d, hd⟩ := desc_some h w
  have hlen := desc_len h hd
  have hcl : c.length = d.len := by rw [hlen, allSome_eq hc, List.length_map]
  simp only [findCFrom, hd, Option.bind_eq_bind, Option.bind_some] at e
  by_cases c1 : st ≥ d.len
  · simp only [c1, if_true, Option.pure_def, Option.some.injEq, Prod.mk.injEq] at e
    rw [← e.1, ← e.2]
    have : st ≥ c.length := by omega
    exact ⟨Silent.refl h, by simp only [this, if_true]⟩
  · simp only [c1, if_false, Option.bind_eq_some_iff, Option.pure_def, Option.some.injEq, Prod.mk.injEq] at e
    obtain ⟨s2, h2, hh, h3, e⟩ := e
    obtain ⟨E, t⟩ := eff_cview h hw h2
    have := cstrVar_from E.inv t (by rw [E.self]; exact hc) (nulFree_of hz) (start := st) (by omega)
    rw [this] at h3; injection h3 with h3; subst h3
    rw [← e.1, ← e.2]
    have : ¬ st ≥ c.length := by omega
    exact ⟨E.silent, by simp only [this, if_false]⟩

theorem eff_tokenC {s s' : St} (h : Inv s) {v w tmp : Nat} (hv : v < s.n) (hw : w < s.n) (ht : tmp < s.n)
    (hne : v ≠ tmp) (h0 : absVar s tmp = []) {sep st : Nat} {r : Nat} {c : List Nat}
    (hc : allSome (absVar s w) = some c) (hz : 0 ∉ c)
    (e : tokenC s v w sep st tmp = some (s', r)) :
    Eff s s' v ((if st ≥ c.length then [] else Spec.tokenL c st (strchrL (c.drop st) sep)).map some) := by
  simp only [tokenC, Option.bind_eq_bind, Option.bind_eq_some_iff] at e
  obtain ⟨⟨s1, f⟩, h1, d, hd, e⟩ := e
  obtain ⟨S, hf⟩ := findCFrom_eq h hw hc hz h1
  have hv1 : v < s1.n := by rw [S.n]; exact hv
  have ht1 : tmp < s1.n := by rw [S.n]; exact ht
  have h01 : absVar s1 tmp = [] := by rw [S.abs, h0]
  have habs : absVar s1 w = c.map some := by rw [S.abs, allSome_eq hc]
  have hlen := desc_len S.inv hd
  cases f with
  | none =>
    simp only [Option.bind_eq_some_iff, Option.pure_def, Option.some.injEq, Prod.mk.injEq] at e
    obtain ⟨src, hr, s2, h2, e, _⟩ := e
    subst e
    refine (S.andThen (eff_assignTemp S.inv hv1 ht1 hne h01 h2)).val_eq ?_
    rw [rd_sub S.inv hd hr, subList_toEnd, habs, ← List.map_drop]
    by_cases c1 : st ≥ c.length
    · simp only [c1, if_true]; rw [List.drop_of_length_le c1]
    · simp only [c1, if_false] at hf ⊢
      have : strchrL (c.drop st) sep = none := by
        cases hs : strchrL (c.drop st) sep with
        | none => rfl
        | some k => rw [hs] at hf; cases hf
      rw [this]; rfl
  | some f =>
    simp only [Option.bind_eq_some_iff, Option.pure_def, Option.some.injEq, Prod.mk.injEq] at e
    obtain ⟨src, hr, s2, h2, e, _⟩ := e
    subst e
    refine (S.andThen (eff_assignTemp S.inv hv1 ht1 hne h01 h2)).val_eq ?_
    by_cases c1 : st ≥ c.length
    · simp only [c1, if_true] at hf; cases hf
    · simp only [c1, if_false] at hf ⊢
      cases hs : strchrL (c.drop st) sep with
      | none => rw [hs] at hf; cases hf
      | some k =>
        rw [hs] at hf
        simp only [Option.map_some, Option.some.injEq] at hf
        subst hf
        have hk := strchrL_le hs
        simp only [List.length_drop] at hk
        have e1 : k + st - st = k := by omega
        rw [e1] at hr
        have hb : st + k ≤ (absVar s1 w).length := by rw [habs, List.length_map]; omega
        rw [rd_sub S.inv hd hr, subList_nonneg hb, habs, ← List.map_drop, ← List.map_take]
        rfl

theorem eff_tokenS {s s' : St} (h : Inv s) {v w tmp : Nat} (hv : v < s.n) (hw : w < s.n) (ht : tmp < s.n)
    (hne : v ≠ tmp) (h0 : absVar s tmp = []) {seps : List Nat} {st : Nat} {r : Nat} {c : List Nat}
    (hc : allSome (absVar s w) = some c) (hz : 0 ∉ c) (hst : st ≤ c.length)
    (e : tokenS s v w seps st tmp = some (s', r)) :
    Eff s s' v ((Spec.tokenL c st (strpbrkL (c.drop st) seps)).map some) := by
  simp only [tokenS, Option.bind_eq_bind, Option.bind_eq_some_iff] at e
  obtain ⟨s1, h1, hh, h3, d, hd, e⟩ := e
  obtain ⟨E, t⟩ := eff_cview h hw h1
  have S := E.silent
  have := cstrVar_from E.inv t (by rw [E.self]; exact hc) (nulFree_of hz) hst
  rw [this] at h3; injection h3 with h3; subst h3
  have hv1 : v < s1.n := by rw [S.n]; exact hv
  have ht1 : tmp < s1.n := by rw [S.n]; exact ht
  have h01 : absVar s1 tmp = [] := by rw [S.abs, h0]
  have habs : absVar s1 w = c.map some := by rw [S.abs, allSome_eq hc]
  cases hf : strpbrkL (c.drop st) seps with
  | none =>
    simp only [hf, Option.bind_eq_some_iff, Option.pure_def, Option.some.injEq, Prod.mk.injEq] at e
    obtain ⟨src, hr, s2, h2, e, _⟩ := e
    subst e
    refine (S.andThen (eff_assignTemp S.inv hv1 ht1 hne h01 h2)).val_eq ?_
    rw [rd_sub S.inv hd hr, subList_toEnd, habs, ← List.map_drop]
    rfl
  | some k =>
    simp only [hf, Option.bind_eq_some_iff, Option.pure_def, Option.some.injEq, Prod.mk.injEq] at e
    obtain ⟨src, hr, s2, h2, e, _⟩ := e
    subst e
    refine (S.andThen (eff_assignTemp S.inv hv1 ht1 hne h01 h2)).val_eq ?_
    obtain ⟨hk, _, _⟩ := strpbrk_some hf
    simp only [List.length_drop] at hk
    have hb : st + k ≤ (absVar s1 w).length := by rw [habs, List.length_map]; omega
    rw [rd_sub S.inv hd hr, subList_nonneg hb, habs, ← List.map_drop, ← List.map_take]
    rfl

/-- the `start` that `token(char, start)` leaves behind -/
theorem tokenC_start {s s' : St} (h : Inv s) {v w tmp : Nat} (hw : w < s.n) {sep st : Nat} {r : Nat}
    {c : List Nat} (hc : allSome (absVar s w) = some c) (hz : 0 ∉ c)
    (e : tokenC s v w sep st tmp = some (s', r)) :
    r = if st ≥ c.length then c.length else Spec.tokenNext c st (strchrL (c.drop st) sep) := by
  simp only [tokenC, Option.bind_eq_bind, Option.bind_eq_some_iff] at e
  obtain ⟨⟨s1, f⟩, h1, d, hd, e⟩ := e
  obtain ⟨S, hf⟩ := findCFrom_eq h hw hc hz h1
  have hlen : d.len = c.length := by rw [desc_len S.inv hd, S.abs, allSome_eq hc, List.length_map]
  cases f with
  | none =>
    simp only [Option.bind_eq_some_iff, Option.pure_def, Option.some.injEq, Prod.mk.injEq] at e
    obtain ⟨src, _, s2, _, _, rfl⟩ := e
    by_cases c1 : st ≥ c.length
    · simp only [c1, if_true]; exact hlen
    · simp only [c1, if_false] at hf ⊢
      cases hs : strchrL (c.drop st) sep with
      | none => exact hlen
      | some k => rw [hs] at hf; cases hf
  | some f =>
    simp only [Option.bind_eq_some_iff, Option.pure_def, Option.some.injEq, Prod.mk.injEq] at e
    obtain ⟨src, _, s2, _, _, rfl⟩ := e
    by_cases c1 : st ≥ c.length
    · simp only [c1, if_true] at hf; cases hf
    · simp only [c1, if_false] at hf ⊢
      cases hs : strchrL (c.drop st) sep with
      | none => rw [hs] at hf; cases hf
      | some k =>
        rw [hs] at hf
        simp only [Option.map_some, Option.some.injEq] at hf
        subst hf
        simp only [Spec.tokenNext]
        omega

/-- the `start` that `token(const char*, start)` leaves behind -/
theorem tokenS_start {s s' : St} (h : Inv s) {v w tmp : Nat} (hw : w < s.n) {seps : List Nat} {st : Nat} {r : Nat}
    {c : List Nat} (hc : allSome (absVar s w) = some c) (hz : 0 ∉ c) (hst : st ≤ c.length)
    (e : tokenS s v w seps st tmp = some (s', r)) :
    r = Spec.tokenNext c st (strpbrkL (c.drop st) seps) := by
  simp only [tokenS, Option.bind_eq_bind, Option.bind_eq_some_iff] at e
  obtain ⟨s1, h1, hh, h3, d, hd, e⟩ := e
  obtain ⟨E, t⟩ := eff_cview h hw h1
  have S := E.silent
  have := cstrVar_from E.inv t (by rw [E.self]; exact hc) (nulFree_of hz) hst
  rw [this] at h3; injection h3 with h3; subst h3
  have hlen : d.len = c.length := by rw [desc_len S.inv hd, S.abs, allSome_eq hc, List.length_map]
  cases hf : strpbrkL (c.drop st) seps with
  | none =>
    simp only [hf, Option.bind_eq_some_iff, Option.pure_def, Option.some.injEq, Prod.mk.injEq] at e
    obtain ⟨src, _, s2, _, _, rfl⟩ := e
    exact hlen
  | some k =>
    simp only [hf, Option.bind_eq_some_iff, Option.pure_def, Option.some.injEq, Prod.mk.injEq] at e
    obtain ⟨src, _, s2, _, _, rfl⟩ := e
    rfl

/-! ### join -/

theorem eff_joinLoop {v sep : Nat} : ∀ (toks : List (List Byte)) {s s' : St}, Inv s → v < s.n →
    joinLoop s v sep toks = some s' → Eff s s' v (absVar s v ++ Spec.joinL sep toks)
  | [], s, s', h, _, e => by
    simp only [joinLoop, Option.some.injEq] at e; subst e
    exact (Eff.refl h v).val_eq (by simp [Spec.joinL])
  | [t], s, s', h, hv, e => by
    simp only [joinLoop] at e; exact eff_appendP h hv e
  | t :: t2 :: rest, s, s', h, hv, e => by
    simp only [joinLoop, Option.bind_eq_bind, Option.bind_eq_some_iff] at e
    obtain ⟨s1, h1, s2, h2, e⟩ := e
    have E1 := eff_appendP h hv h1
    have hv1 : v < s1.n := by rw [E1.n]; exact hv
    have E2 := eff_appendC E1.inv hv1 h2
    have hv2 : v < s2.n := by rw [E2.n]; exact hv1
    have E3 := eff_joinLoop (t2 :: rest) E2.inv hv2 e
    refine ((E1.trans E2).trans E3).val_eq ?_
    rw [E2.self, E1.self]
    simp [Spec.joinL]

theorem eff_join {s s' : St} (h : Inv s) {v : Nat} (hv : v < s.n) {toks : List (List Byte)} {sep : Nat}
    (e : join s v toks sep = some s') : Eff s s' v (Spec.joinL sep toks) := by
  simp only [join, Option.bind_eq_bind, Option.bind_eq_some_iff] at e
  obtain ⟨s1, h1, e⟩ := e
  have E1 := eff_clear h hv h1
  have E2 := eff_joinLoop toks E1.inv (by rw [E1.n]; exact hv) e
  refine (E1.trans E2).val_eq ?_
  rw [E1.self]; rfl

/-! ### replace(needle, replacement) -/

theorem eff_replaceLoop {hh nn : List Nat} {c : List Byte} {wr_ tmp : Nat} :
    ∀ (fuel : Nat) {s s' : St} (pos m : Nat), Inv s → tmp < s.n →
      replaceLoop hh nn c wr_ tmp fuel s pos m = some s' → ∃ val, Eff s s' tmp val
  | 0, _, _, _, _, _, _, e => by simp [replaceLoop] at e
  | fuel + 1, s, s', pos, m, h, ht, e => by
    simp only [replaceLoop, Option.bind_eq_bind, Option.bind_eq_some_iff] at e
    obtain ⟨s1, h1, s2, h2, e⟩ := e
    have E1 := eff_appendP h ht h1
    have ht1 : tmp < s1.n := by rw [E1.n]; exact ht
    have E2 := eff_appendS E1.inv ht1 h2
    have ht2 : tmp < s2.n := by rw [E2.n]; exact ht1
    cases hf : strstrL (List.drop (m + nn.length) hh) nn with
    | none =>
      simp only [hf] at e
      exact ⟨_, (E1.trans E2).trans (eff_appendP E2.inv ht2 e)⟩
    | some k =>
      simp only [hf] at e
      obtain ⟨val, E3⟩ := eff_replaceLoop fuel _ _ E2.inv ht2 e
      exact ⟨val, (E1.trans E2).trans E3⟩

theorem eff_replaceS {s s' : St} (h : Inv s) {v wn wr_ tmp : Nat} (hv : v < s.n) (hwn : wn < s.n)
    (ht : tmp < s.n) (hne : v ≠ tmp) (h0 : absVar s tmp = []) (e : replaceS s v wn wr_ tmp = some s') :
    ∃ val, Eff s s' v val := by
  obtain ⟨dn, hdn⟩ := desc_some h wn
  simp only [replaceS, hdn, Option.bind_eq_bind, Option.bind_some] at e
  by_cases l0 : dn.len = 0
  · simp only [l0, if_true, Option.pure_def, Option.some.injEq] at e
    subst e; exact ⟨_, Eff.refl h v⟩
  · simp only [l0, if_false, Option.bind_eq_some_iff] at e
    obtain ⟨s1, h1, s2, h2, hh, _, nn, _, e⟩ := e
    have S1 := silent_cview h hv h1
    have S2 := silent_cview S1.inv (by rw [S1.n]; exact hwn) h2
    have S := S1.trans S2
    cases hf : strstrL hh nn with
    | none =>
      simp only [hf, Option.pure_def, Option.some.injEq] at e
      subst e; exact ⟨_, S.eff v⟩
    | some m =>
      simp only [hf, Option.bind_eq_some_iff, Option.pure_def, Option.some.injEq] at e
      obtain ⟨dv, _, dr, _, c, _, s3, h3, s4, h4, s5, h5, e⟩ := e
      subst e
      have ht2 : tmp < s2.n := by rw [S.n]; exact ht
      have E3 := eff_ctorCap S.inv ht2 h3
      have ht3 : tmp < s3.n := by rw [E3.n]; exact ht2
      obtain ⟨val4, E4⟩ := eff_replaceLoop _ _ _ E3.inv ht3 h4
      have hv4 : v < s4.n := by rw [E4.n, E3.n, S.n]; exact hv
      have E5 := eff_assign E4.inv hv4 h5
      have ht5 : tmp < s5.n := by rw [E5.n, E4.n]; exact ht3
      have E6 := eff_setEmpty E5.inv ht5
      refine ⟨absVar s4 tmp, S.andThen ⟨E6.inv, by rw [E6.n, E5.n, E4.n, E3.n], by rw [E6.regs, E5.regs, E4.regs, E3.regs], ?_, ?_⟩⟩
      · rw [E6.other v hne, E5.self]
      · intro u hu
        by_cases hut : u = tmp
        · subst hut; rw [E6.self, S.abs, h0]
        · rw [E6.other u hut, E5.other u hu, E4.other u hut, E3.other u hut]

/-- taking the C string view of `wn` keeps `v` terminated (they may be the same object) -/
theorem term_after_cview {s1 s2 : St} (h1 : Inv s1) {v wn : Nat} (hwn : wn < s1.n)
    (t1 : termByte s1 v = some (some 0)) (h2 : cview s1 wn = some s2) : termByte s2 v = some (some 0) := by
  obtain ⟨E2, t2⟩ := eff_cview h1 hwn h2
  have S2 := E2.silent
  by_cases cvw : v = wn
  · subst cvw; exact t2
  · cases hloc : s2.vars v with
    | empty => simp [termByte, desc_empty hloc, memOf]
    | blk b =>
      obtain ⟨blk, hbk⟩ := S2.inv.live v b hloc
      simp only [termByte, desc_blk hloc hbk, memOf, hbk, Option.bind_eq_bind, Option.bind_some, Option.map_some,
        Nat.zero_add]
      exact (S2.inv.wf b blk hbk).2.2
    | foreign r off len =>
      have hv1 : s1.vars v = .foreign r off len := by
        obtain ⟨d1, hd1⟩ := desc_some h1 wn
        simp only [cview, hd1, Option.bind_eq_bind, Option.bind_some, Option.bind_eq_some_iff] at h2
        obtain ⟨t, _, h2⟩ := h2
        by_cases t0 : t = 0
        · simp only [t0, ne_eq, not_true_eq_false, if_false, Option.pure_def, Option.some.injEq] at h2
          subst h2; exact hloc
        · simp only [ne_eq, t0, not_false_eq_true, if_true, detach, hd1, Option.bind_eq_bind, Option.bind_some] at h2
          split at h2
          · simp only [Option.bind_eq_some_iff] at h2
            obtain ⟨_, _, _, _, h2⟩ := h2
            rw [← (writeOwn_fields h2).2.2]; exact hloc
          · simp only [Option.bind_eq_some_iff, Option.pure_def, Option.some.injEq] at h2
            obtain ⟨_, _, _, _, _, _, rfl⟩ := h2
            simp only [allocSet, setEmpty, setVar, upd_other _ _ _ _ cvw, (release_fields s1 wn).2.2.2] at hloc
            exact hloc
      have := t1
      simp only [termByte, desc_foreign hv1, memOf, Option.bind_eq_bind, Option.bind_some] at this
      simp only [termByte, desc_foreign hloc, memOf, Option.bind_eq_bind, Option.bind_some, S2.regs]
      exact this

theorem replaceAux_none {n : List Nat} {r : List Byte} {h : List Nat} (e : strstrL h n = none) (fuel : Nat) :
    Spec.replaceAux n r fuel h = h.map some := by
  cases fuel with
  | zero => rfl
  | succ f => simp only [Spec.replaceAux, e]

theorem eff_replaceLoop_val {hh nn : List Nat} {wr_ tmp : Nat} (hwt : wr_ ≠ tmp) :
    ∀ (fuel : Nat) {s s' : St} (pos m : Nat), Inv s → tmp < s.n → pos ≤ m →
      strstrL (hh.drop pos) nn = some (m - pos) →
      replaceLoop hh nn (hh.map some) wr_ tmp fuel s pos m = some s' →
      Eff s s' tmp (absVar s tmp ++ Spec.replaceAux nn (absVar s wr_) fuel (hh.drop pos))
  | 0, _, _, _, _, _, _, _, _, e => by simp [replaceLoop] at e
  | fuel + 1, s, s', pos, m, h, ht, hpm, hs, e => by
    simp only [replaceLoop, Option.bind_eq_bind, Option.bind_eq_some_iff] at e
    obtain ⟨s1, h1, s2, h2, e⟩ := e
    have E1 := eff_appendP h ht h1
    have ht1 : tmp < s1.n := by rw [E1.n]; exact ht
    have E2 := eff_appendS E1.inv ht1 h2
    have ht2 : tmp < s2.n := by rw [E2.n]; exact ht1
    have hR1 : absVar s1 wr_ = absVar s wr_ := E1.other wr_ hwt
    have hR2 : absVar s2 wr_ = absVar s wr_ := by rw [E2.other wr_ hwt, hR1]
    have hdrop : (hh.drop pos).drop (m - pos + nn.length) = hh.drop (m + nn.length) := by
      rw [List.drop_drop]; congr 1; omega
    have hacc : absVar s2 tmp = absVar s tmp ++ ((hh.drop pos).take (m - pos)).map some ++ absVar s wr_ := by
      rw [E2.self, E1.self, hR1, List.map_take, List.map_drop]
    simp only [Spec.replaceAux, hs, hdrop]
    cases hf : strstrL (List.drop (m + nn.length) hh) nn with
    | none =>
      simp only [hf] at e
      have E3 := eff_appendP E2.inv ht2 e
      refine ((E1.trans E2).trans E3).val_eq ?_
      rw [hacc, replaceAux_none hf]
      have : List.take ((List.map some hh).length - (m + nn.length)) (List.drop (m + nn.length) (List.map some hh))
          = (hh.drop (m + nn.length)).map some := by
        rw [List.take_of_length_le (by simp only [List.length_drop, List.length_map]; omega), List.map_drop]
      rw [this]
      simp only [List.append_assoc]
    | some k =>
      simp only [hf] at e
      have E3 := eff_replaceLoop_val hwt fuel (m + nn.length) (m + nn.length + k) E2.inv ht2 (by omega)
        (by rw [hf]; congr 1; omega) e
      refine ((E1.trans E2).trans E3).val_eq ?_
      rw [hacc, hR2]
      simp only [List.append_assoc]

theorem eff_replaceS_val {s s' : St} (h : Inv s) {v wn wr_ tmp : Nat} (hv : v < s.n) (hwn : wn < s.n)
    (ht : tmp < s.n) (hne : v ≠ tmp) (hwt : wr_ ≠ tmp) (h0 : absVar s tmp = [])
    {c nd : List Nat} (hc : allSome (absVar s v) = some c) (hn : allSome (absVar s wn) = some nd)
    (hzc : 0 ∉ c) (hzn : 0 ∉ nd) (e : replaceS s v wn wr_ tmp = some s') :
    Eff s s' v (Spec.replaceAll nd (absVar s wr_) c) := by
  obtain ⟨dn, hdn⟩ := desc_some h wn
  have hlenn := desc_len h hdn
  have hndl : nd.length = dn.len := by rw [hlenn, allSome_eq hn, List.length_map]
  simp only [replaceS, hdn, Option.bind_eq_bind, Option.bind_some] at e
  by_cases l0 : dn.len = 0
  · simp only [l0, if_true, Option.pure_def, Option.some.injEq] at e
    subst e
    have : nd = [] := List.eq_nil_of_length_eq_zero (by omega)
    refine (Eff.refl h v).val_eq ?_
    simp only [Spec.replaceAll, this, if_true]
    exact allSome_eq hc
  · have hnd : nd ≠ [] := by intro x; subst x; simp at hndl; omega
    simp only [l0, if_false, Option.bind_eq_some_iff] at e
    obtain ⟨s1, h1, s2, h2, hh, h3, nn, h4, e⟩ := e
    obtain ⟨E1, t1⟩ := eff_cview h hv h1
    have S1 := E1.silent
    obtain ⟨E2, t2⟩ := eff_cview S1.inv (by rw [S1.n]; exact hwn) h2
    have S2 := E2.silent
    have S := S1.trans S2
    -- the C strings the two `strstr` arguments denote
    have tv : termByte s2 v = some (some 0) := by
      by_cases cvw : v = wn
      · subst cvw; exact t2
      · -- `needle` is another object: taking its view does not move `*this`
        cases hloc : s2.vars v with
        | empty => simp [termByte, desc_empty hloc, memOf]
        | blk b =>
          obtain ⟨blk, hbk⟩ := S2.inv.live v b hloc
          simp only [termByte, desc_blk hloc hbk, memOf, hbk, Option.bind_eq_bind, Option.bind_some, Option.map_some,
            Nat.zero_add]
          exact (S2.inv.wf b blk hbk).2.2
        | foreign r off len =>
          -- still the foreign descriptor it had after its own view
          have hv1 : s1.vars v = .foreign r off len := by
            obtain ⟨d1, hd1⟩ := desc_some S1.inv wn
            simp only [cview, hd1, Option.bind_eq_bind, Option.bind_some, Option.bind_eq_some_iff] at h2
            obtain ⟨t, _, h2⟩ := h2
            by_cases t0 : t = 0
            · simp only [t0, ne_eq, not_true_eq_false, if_false, Option.pure_def, Option.some.injEq] at h2
              subst h2; exact hloc
            · simp only [ne_eq, t0, not_false_eq_true, if_true, detach, hd1, Option.bind_eq_bind, Option.bind_some] at h2
              split at h2
              · simp only [Option.bind_eq_some_iff] at h2
                obtain ⟨_, _, _, _, h2⟩ := h2
                rw [← (writeOwn_fields h2).2.2]; exact hloc
              · simp only [Option.bind_eq_some_iff, Option.pure_def, Option.some.injEq] at h2
                obtain ⟨_, _, _, _, _, _, rfl⟩ := h2
                simp only [allocSet, setEmpty, setVar, upd_other _ _ _ _ cvw, (release_fields s1 wn).2.2.2] at hloc
                exact hloc
          have := t1
          simp only [termByte, desc_foreign hv1, memOf, Option.bind_eq_bind, Option.bind_some] at this
          simp only [termByte, desc_foreign hloc, memOf, Option.bind_eq_bind, Option.bind_some, S2.regs]
          exact this
    have ehh := cstrVar_eq S2.inv tv (by rw [S.abs]; exact hc) (nulFree_of hzc)
    have enn := cstrVar_eq S2.inv t2 (by rw [S.abs]; exact hn) (nulFree_of hzn)
    rw [ehh] at h3; rw [enn] at h4
    injection h3 with h3; injection h4 with h4
    subst h3; subst h4
    cases hf : strstrL c nd with
    | none =>
      simp only [hf, Option.pure_def, Option.some.injEq] at e
      subst e
      refine (S.eff v).val_eq ?_
      simp only [Spec.replaceAll, hnd, if_false, Spec.replaceAux, hf]
      exact allSome_eq hc
    | some m =>
      simp only [hf, Option.bind_eq_some_iff, Option.pure_def, Option.some.injEq] at e
      obtain ⟨dv, _, dr, _, cc, hcc, s3, h3, s4, h4, s5, h5, e⟩ := e
      subst e
      have hcc' : cc = c.map some := by
        rw [content_eq S2.inv v, S.abs] at hcc
        injection hcc with hcc
        rw [← hcc, allSome_eq hc]
      subst hcc'
      have ht2 : tmp < s2.n := by rw [S.n]; exact ht
      have E3 := eff_ctorCap S.inv ht2 h3
      have ht3 : tmp < s3.n := by rw [E3.n]; exact ht2
      have E4 := eff_replaceLoop_val hwt _ 0 m E3.inv ht3 (Nat.zero_le _) (by simpa using hf) h4
      have hv4 : v < s4.n := by rw [E4.n, E3.n, S.n]; exact hv
      have E5 := eff_assign E4.inv hv4 h5
      have ht5 : tmp < s5.n := by rw [E5.n, E4.n]; exact ht3
      have E6 := eff_setEmpty E5.inv ht5
      refine S.andThen ⟨E6.inv, by rw [E6.n, E5.n, E4.n, E3.n], by rw [E6.regs, E5.regs, E4.regs, E3.regs], ?_, ?_⟩
      · rw [E6.other v hne, E5.self, E4.self, E3.self, E3.other wr_ hwt, S.abs]
        simp only [Spec.replaceAll, hnd, if_false, List.nil_append, List.drop_zero]
      · intro u hu
        by_cases hut : u = tmp
        · subst hut; rw [E6.self, S.abs, h0]
        · rw [E6.other u hut, E5.other u hu, E4.other u hut, E3.other u hut]

/-! ### printf -/

theorem wr_get_last {m : List Byte} {off : Nat} {d : List Byte} {x : Byte} {m' : List Byte}
    (h : wr m off (d ++ [x]) = some m') : m'[off + d.length]? = some x := by
  have t := wr_take_end h
  simp only [List.length_append, List.length_cons, List.length_nil] at t
  have g : (m'.take (off + (d.length + 0 + 1)))[off + d.length]? = some x := by
    rw [t]
    have := (wr_eq h).1
    simp only [List.length_append, List.length_cons, List.length_nil] at this
    rw [← List.append_assoc, List.getElem?_append_right (by simp only [List.length_append, List.length_take]; omega)]
    simp only [List.length_append, List.length_take]
    have : off + d.length - (min off m.length + d.length) = 0 := by omega
    simp [this]
  rw [List.getElem?_take] at g
  have : off + d.length < off + (d.length + 0 + 1) := by omega
  simpa [this] using g

/-- `data ++ NUL` stored at the start of an exclusively owned block, `len = data.length` -/
theorem eff_store {s s' : St} (h : Inv s) {v L C : Nat} (X : Excl s v L C) {data : List Byte}
    (e : (do
      let d ← desc s v
      let m ← memOf s d.base
      let m ← wr m 0 (data ++ [some 0])
      writeOwn s v m data.length) = some s') : Eff s s' v data := by
  obtain ⟨bk, blk, hloc, hb, r1, hl, hC⟩ := X
  have W := h.wf bk blk hb
  simp only [desc_blk hloc hb, memOf, hb, Option.bind_eq_bind, Option.bind_some, Option.map_some,
    Option.bind_eq_some_iff] at e
  obtain ⟨m', hm, e⟩ := e
  have hlen := wr_length hm
  have hle := (wr_eq hm).1
  simp only [List.length_append, List.length_cons, List.length_nil, W.1] at hle
  have hterm := wr_get_last hm
  simp only [Nat.zero_add] at hterm
  have inv' := inv_writeOwn h e (by
    intro b' blk' hv' hb'
    rw [hloc] at hv'; injection hv' with hv'; subst hv'
    rw [hb] at hb'; injection hb' with hb'; subst hb'
    exact ⟨by rw [hlen, W.1], by omega, hterm⟩)
  have F := writeOwn_fields e
  refine ⟨inv', F.1, F.2.1, ?_, fun w hw => abs_writeOwn_other h e hw⟩
  rw [abs_writeOwn_self e]
  have t := wr_take_end hm
  simp only [Nat.zero_add, List.take_zero, List.nil_append, List.length_append, List.length_cons,
    List.length_nil] at t
  have t2 : m'.take data.length = (m'.take (data.length + 1)).take data.length := by
    rw [List.take_take]; congr 1; omega
  rw [t2, t, List.take_left' rfl]

/-! #### both `vsnprintf` attempts -/

theorem vsnStore_fits {m : List Byte} {size : Nat} {out : List Nat} (h : out.length < size) :
    vsnStore m size out = wr m 0 (out.map some ++ [some 0]) := by
  have h0 : size ≠ 0 := by omega
  simp only [vsnStore, h0, if_false]
  rw [List.take_of_length_le (by omega)]

theorem vsnStore_length {m m' : List Byte} {size : Nat} {out : List Nat} (h : vsnStore m size out = some m') :
    m'.length = m.length := by
  unfold vsnStore at h
  split at h
  · injection h with h; rw [h]
  · exact wr_length h

theorem upd_upd {α : Type} (f : Nat → α) (i : Nat) (x y : α) : upd (upd f i x) i y = upd f i y := by
  funext j; unfold upd; split <;> rfl

/-- `detach(0, k)` on a block whose chars were scribbled over while `data->len` stayed 0 (the state the first,
    failed `vsnprintf` attempt of `printf` leaves behind): the invariant is restored, the value is empty -/
theorem eff_detach_dirty {s s2 : St} (h : Inv s) {v bk : Nat} {blk : Block} (hv : v < s.n)
    (hloc : s.vars v = .blk bk) (hb : s.heap bk = some blk) (r1 : blk.ref = 1) {m1 : List Byte}
    (hl : m1.length = blk.bytes.length) {k : Nat}
    (e : detach { s with heap := upd s.heap bk (some { blk with bytes := m1, len := 0 }) } v 0 k = some s2) :
    Eff s s2 v [] ∧ Excl s2 v 0 k := by
  have W := h.wf bk blk hb
  have hd : desc { s with heap := upd s.heap bk (some { blk with bytes := m1, len := 0 }) } v
      = some ⟨.blk bk, 0, 0, blk.cap, 1⟩ := by
    simp [desc, hloc, upd_same, r1]
  obtain ⟨d, hd, hdb, hdo, hdl, hdc, hdr⟩ : ∃ d, desc { s with heap := upd s.heap bk (some { blk with bytes := m1, len := 0 }) } v
      = some d ∧ d.base = .blk bk ∧ d.off = 0 ∧ d.len = 0 ∧ d.cap = blk.cap ∧ d.ref = 1 := ⟨_, hd, rfl, rfl, rfl, rfl, rfl⟩
  simp only [detach, hd, Option.bind_eq_bind, Option.bind_some] at e
  by_cases fast : d.ref = 1 ∧ k ≤ d.cap
  · simp only [fast, and_self, if_true, hdb, hdl, memOf, upd_same, Option.map_some, Option.bind_some] at e
    have fast : k ≤ blk.cap := hdc ▸ fast.2
    have hp : poison m1 0 0 = m1 := by simp [poison]
    rw [hp] at e
    cases hm2 : wr m1 0 [some 0] with
    | none => simp [hm2] at e
    | some m2 =>
      simp only [hm2, Option.bind_some] at e
      have e' : writeOwn s v m2 0 = some s2 := by
        rw [← e]
        simp only [writeOwn, hloc, hb, upd_same, r1, if_true, upd_upd]
      have hl2 : m2.length = blk.cap + 1 := by rw [wr_length hm2, hl, W.1]
      have inv' := inv_writeOwn h e' (by
        intro b' blk' hv' hb'
        rw [hloc] at hv'; injection hv' with hv'; subst hv'
        rw [hb] at hb'; injection hb' with hb'; subst hb'
        exact ⟨hl2, Nat.zero_le _, wr_get hm2⟩)
      have F := writeOwn_fields e'
      refine ⟨⟨inv', F.1, F.2.1, ?_, fun w hw => abs_writeOwn_other h e' hw⟩, ?_⟩
      · rw [abs_writeOwn_self e']; rfl
      · obtain ⟨b', blk', hv', hb', _, rfl⟩ := writeOwn_eq e'
        rw [hloc] at hv'; injection hv' with hv'; subst hv'
        rw [hb] at hb'; injection hb' with hb'; subst hb'
        exact ⟨bk, { blk with bytes := m2, len := 0 }, hloc, by simp [upd_same], r1, rfl, fast⟩
  · simp only [fast, if_false, hdb, hdl, hdo, Nat.lt_irrefl, rdRange, memOf, upd_same, Option.map_some, Option.bind_eq_bind,
      Option.bind_some, Nat.add_zero] at e
    have hr : rdList m1 0 0 = some [] := by simp [rdList]
    rw [hr] at e
    simp only [Option.bind_some] at e
    cases hm3 : wr (fresh (capRule k + 1)) 0 [] with
    | none => simp [hm3] at e
    | some m3 =>
      simp only [hm3, Option.bind_some] at e
      cases hm4 : wr m3 0 [some 0] with
      | none => simp [hm4] at e
      | some m4 =>
        simp only [hm4, Option.bind_some, Option.pure_def, Option.some.injEq] at e
        have hrel : release { s with heap := upd s.heap bk (some { blk with bytes := m1, len := 0 }) } v = release s v := by
          simp only [release, hloc, hb, upd_same, r1, if_true, upd_upd]
        have e' : allocSet s v m4 0 (capRule k) = s2 := by
          rw [← e]
          simp only [allocSet, setEmpty, hrel]
        subst e'
        have hl3 : m3.length = capRule k + 1 := by rw [wr_length hm3, length_fresh]
        have hl4 : m4.length = capRule k + 1 := by rw [wr_length hm4, hl3]
        refine ⟨⟨inv_allocSet h hv hl4 (Nat.zero_le _) (wr_get hm4), (allocSet_fields ..).1, (allocSet_fields ..).2, ?_,
          fun w hw => abs_allocSet_other h hv _ _ _ hw⟩, ?_⟩
        · rw [abs_allocSet_self]; rfl
        · exact ⟨(setEmpty s v).next, ⟨m4, 0, capRule k, 1⟩, by simp [allocSet], by simp [allocSet], rfl, rfl, le_capRule k⟩

/-- the two attempts on the exclusively owned, empty block `detach(0, …)` / `String(capacity)` left -/
theorem eff_printfTail {s s' : St} (h : Inv s) {v : Nat} (hv : v < s.n) {C : Nat} (X : Excl s v 0 C) {out : List Nat}
    {r : Nat} (e : printfTail s v out = some (s', r)) : Eff s s' v (out.map some) ∧ r = out.length := by
  obtain ⟨bk, blk, hloc, hb, r1, hl0, hC⟩ := X
  have W := h.wf bk blk hb
  have X : Excl s v 0 C := ⟨bk, blk, hloc, hb, r1, hl0, hC⟩
  simp only [printfTail, desc_blk hloc hb, memOf, hb, Option.bind_eq_bind, Option.bind_some, Option.map_some,
    Option.bind_eq_some_iff] at e
  obtain ⟨m1, hm1, e⟩ := e
  by_cases c : out.length < blk.cap
  · simp only [c, if_true, Option.bind_eq_some_iff, Option.pure_def, Option.some.injEq, Prod.mk.injEq] at e
    obtain ⟨s2, h2, rfl, rfl⟩ := e
    rw [vsnStore_fits c] at hm1
    have hl : out.length = (out.map some).length := by simp
    rw [hl] at h2
    exact ⟨eff_store h X (data := out.map some) (by
      simp only [desc_blk hloc hb, memOf, hb, Option.bind_eq_bind, Option.bind_some, Option.map_some, hm1]
      exact h2), rfl⟩
  · simp only [c, if_false, Option.bind_eq_some_iff, Option.pure_def, Option.some.injEq, Prod.mk.injEq] at e
    obtain ⟨s1, h1, s2, h2, d2, hd2, mm2, hmm2, m', hm', s3, h3, rfl, rfl⟩ := e
    obtain ⟨b', blk', hv', hb', _, rfl⟩ := writeOwn_eq h1
    rw [hloc] at hv'; injection hv' with hv'; subst hv'
    rw [hb] at hb'; injection hb' with hb'; subst hb'
    rw [hl0] at h2
    obtain ⟨E2, X2⟩ := eff_detach_dirty h hv hloc hb r1 (vsnStore_length hm1) h2
    rw [vsnStore_fits (Nat.lt_succ_self _)] at hm'
    have hl : out.length = (out.map some).length := by simp
    rw [hl] at h3
    have E3 := eff_store E2.inv X2 (data := out.map some) (by
      have hmm2' : memOf s2 d2.base = some mm2 := hmm2
      simp only [hd2, hmm2', hm', Option.bind_eq_bind, Option.bind_some]; exact h3)
    exact ⟨E2.trans E3, rfl⟩

theorem eff_printfOut {s s' : St} (h : Inv s) {v : Nat} (hv : v < s.n) {out : List Nat} {r : Nat}
    (e : printfOut s v out = some (s', r)) : Eff s s' v (out.map some) ∧ r = out.length := by
  simp only [printfOut, Option.bind_eq_bind, Option.bind_eq_some_iff] at e
  obtain ⟨s1, h1, e⟩ := e
  obtain ⟨E1, X1⟩ := eff_detach h hv h1
  obtain ⟨E2, hr⟩ := eff_printfTail E1.inv (by rw [E1.n]; exact hv) X1 e
  exact ⟨E1.trans E2, hr⟩

theorem eff_printf {s s' : St} (h : Inv s) {v : Nat} (hv : v < s.n) {f : List Fmt} {r : Nat}
    (e : printf s v f = some (s', r)) : Eff s s' v ((render f).map some) :=
  (eff_printfOut h hv e).1

end Nstd.Str
