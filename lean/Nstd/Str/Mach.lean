import Nstd.Str.Model
/-!
  The statement-level semantics the translator `tools/gen_str.py` maps the C++ bodies of String.hpp onto
  (`lean/Nstd/Generated/StrBody.lean` is written over these definitions; `PropsBody.lean` proves the translated
  bodies equal to the hand-written model steps of `Model.lean`).

  * a `Data*` value is a `Loc`: `&emptyData`, a heap block, or the address of an inline `_data` descriptor — the
    descriptor's fields travel with the pointer (the translated bodies never store into `_data`; the translator
    refuses a body that does);
  * a `char*` value is a `CPtr` = (memory object, offset);
  * a `String` object is its slot index; `X.data` is `s.vars X`;
  * every load / store is checked: a load through a dangling `Data*`, a store through a `Data*` that is no live heap
    block, a store into memory that is no heap block, an out-of-range access, a read of the never initialised
    `_data.capacity`, an `Atomic::decrement` of a zero counter are *faults* (`none`).
  Nothing here knows about `String`'s control flow: that comes from the C++ source through the translator.
-/
namespace Nstd.Str.Mach

/-- a `char*` value -/
structure CPtr where
  base : Base
  off : Nat
  deriving Repr

/-- `sizeof(Data)` (its value never matters: `new char[n + sizeof(Data)]` gives `n` chars behind the header) -/
def sizeofData : Nat := 32

/-! ### loads through a `Data*` -/

/-- `p->ref` -/
def dRef (s : St) : Loc → Option Nat
  | .empty => some 0
  | .foreign _ _ _ => some 0
  | .blk b => (s.heap b).map (·.ref)

/-- `p->len` -/
def dLen (s : St) : Loc → Option Nat
  | .empty => some 0
  | .foreign _ _ len => some len
  | .blk b => (s.heap b).map (·.len)

/-- `p->capacity`: `_data.capacity` is never initialised — reading it is a fault; `emptyData` is a zeroed static -/
def dCap (s : St) : Loc → Option Nat
  | .empty => some 0
  | .foreign _ _ _ => none
  | .blk b => (s.heap b).map (·.cap)

/-- `p->str` -/
def dStr (s : St) : Loc → Option CPtr
  | .empty => some ⟨.nul, 0⟩
  | .foreign r off _ => some ⟨.reg r, off⟩
  | .blk b => (s.heap b).map (fun _ => ⟨.blk b, 0⟩)

/-! ### stores through a `Data*` (heap blocks only) -/

def updBlk (s : St) (p : Loc) (f : Block → Block) : Option St :=
  match p with
  | .blk b =>
    match s.heap b with
    | some blk => some { s with heap := upd s.heap b (some (f blk)) }
    | none => none
  | _ => none

/-- `p->len = n` -/
def setLen (s : St) (p : Loc) (n : Nat) : Option St := updBlk s p (fun k => { k with len := n })
/-- `p->capacity = n` -/
def setCap (s : St) (p : Loc) (n : Nat) : Option St := updBlk s p (fun k => { k with cap := n })
/-- `p->ref = n` -/
def setRef (s : St) (p : Loc) (n : Nat) : Option St := updBlk s p (fun k => { k with ref := n })
/-- `Atomic::increment(p->ref)` -/
def atomicInc (s : St) (p : Loc) : Option St := updBlk s p (fun k => { k with ref := k.ref + 1 })

/-- `Atomic::decrement(p->ref)` (the new value is read back with `dRef`: one thread); a zero counter is a fault -/
def atomicDec (s : St) (p : Loc) : Option St :=
  match p with
  | .blk b =>
    match s.heap b with
    | some blk => if blk.ref = 0 then none
                  else some { s with heap := upd s.heap b (some { blk with ref := blk.ref - 1 }) }
    | none => none
  | _ => none

/-- `delete[] (char*)p` -/
def deleteData (s : St) (p : Loc) : Option St :=
  match p with
  | .blk b =>
    match s.heap b with
    | some _ => some { s with heap := upd s.heap b none }
    | none => none
  | _ => none

/-- `p = (Data*)new char[total]` (the translator insists on a following `p->str = (char*)((byte*)p + sizeof(Data))`): a new block with `total - sizeof(Data)`
    uninitialised chars at the address `Loc.blk s.next`; its header fields read as 0 until they are stored -/
def newData (s : St) (total : Nat) : Option St :=
  if sizeofData ≤ total then
    some { s with heap := upd s.heap s.next (some ⟨fresh (total - sizeofData), 0, 0, 0⟩), next := s.next + 1 }
  else none

/-- `(char*)((byte*)p + sizeof(Data))`: the chars behind the header of a heap block -/
def charsOf (s : St) : Loc → Option CPtr
  | .blk b => (s.heap b).map (fun _ => ⟨.blk b, 0⟩)
  | _ => none

/-- `p->str = q`: the text of a heap block is the chars behind its header (the model's blocks have no other `str`); storing
    anything else is outside the model: a fault -/
def setStr (s : St) (p : Loc) (q : CPtr) : Option St :=
  match p, q.base with
  | .blk b, .blk c => if c = b ∧ q.off = 0 then some s else none
  | _, _ => none

/-! ### chars -/

/-- `Memory::copy(dst, src, n)`: `src` may hold uninitialised chars; `dst` must lie in a live heap block -/
def memCopy (s : St) (dst src : CPtr) (n : Nat) : Option St := do
  let d ← rdRange s src.base src.off n
  match dst.base with
  | .blk b =>
    match s.heap b with
    | some blk => do
      let m ← wr blk.bytes dst.off d
      some { s with heap := upd s.heap b (some { blk with bytes := m }) }
    | none => none
  | _ => none

/-- `p[i] = c` -/
def storeChar (s : St) (p : CPtr) (i c : Nat) : Option St :=
  match p.base with
  | .blk b =>
    match s.heap b with
    | some blk => do
      let m ← wr blk.bytes (p.off + i) [some c]
      some { s with heap := upd s.heap b (some { blk with bytes := m }) }
    | none => none
  | _ => none

/-- `p[i]` as a value that is branched on -/
def loadChar (s : St) (p : CPtr) (i : Nat) : Option Nat := rdVal s p.base (p.off + i)

/-- `vsnprintf(p, size, format, ap)` where `out` is the text the format and its arguments produce (assumption: C standard
    behaviour of the libc formatter): at most `size - 1` chars and a NUL are stored at `p` — nothing when `size` is 0 —; the
    value of the call is `out.length` (the translator writes that down separately) -/
def vsnprintf (s : St) (p : CPtr) (size : Nat) (out : List Nat) : Option St :=
  match p.base with
  | .blk b =>
    match s.heap b with
    | some blk =>
      if size = 0 then some s
      else do
        let m ← wr blk.bytes p.off ((out.take (size - 1)).map some ++ [some 0])
        some { s with heap := upd s.heap b (some { blk with bytes := m }) }
    | none => none
  | _ => none

/-- `memcmp` on two byte lists of the same length: zero iff equal, else the difference of the first differing bytes -/
def memcmpL : List Nat → List Nat → Int
  | x :: xs, y :: ys => if x = y then memcmpL xs ys else (x : Int) - (y : Int)
  | _, _ => 0

/-- `Memory::compare(p, q, n)`: both ranges are read and branched on (all `n` chars must be initialised) -/
def memCompare (s : St) (p q : CPtr) (n : Nat) : Option Int := do
  let a ← rdRange s p.base p.off n
  let a ← allSome a
  let b ← rdRange s q.base q.off n
  let b ← allSome b
  pure (memcmpL a b)

/-- `p - n` -/
def psub (p : CPtr) (n : Nat) : CPtr := ⟨p.base, p.off - n⟩

/-- `p + n` -/
def padd (p : CPtr) (n : Nat) : CPtr := ⟨p.base, p.off + n⟩

/-- `data = p` of object `v` -/
def setData (s : St) (v : Nat) (p : Loc) : St := { s with vars := upd s.vars v p }

/-- the slot of a local `String` after its destructor has run holds no object (reads as `&emptyData`) -/
def endLife (s : St) (v : Nat) : St := { s with vars := upd s.vars v .empty }

/-- the model's convention for a String that grows in place: the chars `[oldLen, newLen)` that come into view without
    having been written are marked unspecified (the C++ code leaves stale chars there).  This is NOT in the C++ code:
    `Model.detach` = translated `detach` followed by this step (`PropsBody.detach_translated`). -/
def expose (s : St) (v : Nat) (oldLen newLen : Nat) : Option St :=
  match s.vars v with
  | .blk b =>
    match s.heap b with
    | some blk => some { s with heap := upd s.heap b (some { blk with bytes := poison blk.bytes oldLen newLen }) }
    | none => none
  | _ => none

end Nstd.Str.Mach
