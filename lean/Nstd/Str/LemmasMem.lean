import Nstd.Str.Lemmas
import Nstd.Str.Spec
/-!
  Checked-memory lemmas (`wr`, `rdList`, `poison`, `mkBlock`) and the effect of the two
  remaining primitives (`allocSet`, `writeOwn`) on the invariant and on the abstract values.
-/
namespace Nstd.Str

theorem wr_eq {m : List Byte} {off : Nat} {d m' : List Byte} (h : wr m off d = some m') :
    off + d.length ≤ m.length ∧ m' = m.take off ++ d ++ m.drop (off + d.length) := by
  unfold wr at h
  by_cases c : off + d.length ≤ m.length
  · simp only [c, if_true, Option.some.injEq] at h; exact ⟨c, h.symm⟩
  · simp [c] at h

theorem wr_length {m : List Byte} {off : Nat} {d m' : List Byte} (h : wr m off d = some m') :
    m'.length = m.length := by
  obtain ⟨a, b⟩ := wr_eq h
  subst b
  simp only [List.length_append, List.length_take, List.length_drop]
  omega

theorem wr_take {m : List Byte} {off : Nat} {d m' : List Byte} (h : wr m off d = some m') {k : Nat}
    (hk : k ≤ off) : m'.take k = m.take k := by
  obtain ⟨a, b⟩ := wr_eq h
  subst b
  rw [List.append_assoc, List.take_append_of_le_length (by simp only [List.length_take]; omega)]
  rw [List.take_take]
  congr 1
  omega

/-- the chars up to the end of the written range -/
theorem wr_take_end {m : List Byte} {off : Nat} {d m' : List Byte} (h : wr m off d = some m') :
    m'.take (off + d.length) = m.take off ++ d := by
  obtain ⟨a, b⟩ := wr_eq h
  subst b
  apply List.take_left'
  simp only [List.length_append, List.length_take]
  omega

theorem wr_get {m : List Byte} {off : Nat} {x : Byte} {m' : List Byte} (h : wr m off [x] = some m') :
    m'[off]? = some x := by
  obtain ⟨a, b⟩ := wr_eq h
  subst b
  simp only [List.length_cons, List.length_nil] at a
  rw [List.append_assoc, List.getElem?_append_right (by simp only [List.length_take]; omega)]
  simp only [List.length_take]
  have : off - min off m.length = 0 := by omega
  simp [this]

theorem wr_some {m : List Byte} {off : Nat} {d : List Byte} (h : off + d.length ≤ m.length) :
    ∃ m', wr m off d = some m' := by
  unfold wr; simp [h]

theorem length_fresh (n : Nat) : (fresh n).length = n := by simp [fresh]

theorem poison_length (m : List Byte) (a b : Nat) : (poison m a b).length = m.length := by
  unfold poison
  by_cases c : a < b ∧ b ≤ m.length
  · simp only [c, and_self, if_true, List.length_append, List.length_take, List.length_drop, length_fresh]
    omega
  · simp only [c, if_false]

theorem poison_take (m : List Byte) (a b : Nat) (ha : a ≤ m.length) (hb : b ≤ m.length) :
    (poison m a b).take b = resizeL (m.take a) b := by
  unfold poison resizeL
  by_cases c : a < b
  · have c2 : a < b ∧ b ≤ m.length := ⟨c, hb⟩
    simp only [c2, and_self, if_true]
    have : (m.take a ++ fresh (b - a)).length = b := by
      simp only [List.length_append, List.length_take, length_fresh]; omega
    rw [List.take_left' this]
    simp only [List.length_take, fresh]
    have e1 : min a m.length = a := by omega
    rw [e1, List.take_take]
    have e2 : min b a = a := by omega
    rw [e2]
  · have c2 : ¬ (a < b ∧ b ≤ m.length) := fun x => c x.1
    simp only [c2, if_false, List.length_take, List.take_take]
    have e1 : min a m.length = a := by omega
    have e2 : b - a = 0 := by omega
    have e3 : min b a = b := by omega
    simp [e1, e2, e3]

theorem le_capRule (n : Nat) : n ≤ capRule n := Nat.left_le_or
theorem le_ctorRule (n : Nat) : n ≤ ctorRule n := Nat.left_le_or

theorem mkBlock_spec (src : List Byte) :
    ∃ m, mkBlock src = some m ∧ m.length = ctorRule src.length + 1 ∧ m.take src.length = src ∧
      m[src.length]? = some (some 0) := by
  have hc := le_ctorRule src.length
  have hw : 0 + (src ++ [some 0]).length ≤ (fresh (ctorRule src.length + 1)).length := by
    simp only [List.length_append, List.length_cons, List.length_nil, length_fresh]; omega
  obtain ⟨m, hm⟩ := wr_some hw
  refine ⟨m, hm, ?_, ?_, ?_⟩
  · rw [wr_length hm, length_fresh]
  · have := wr_take_end hm
    simp only [List.take_zero, List.nil_append, Nat.zero_add, List.length_append, List.length_cons,
      List.length_nil] at this
    have t2 : m.take src.length = (m.take (src.length + 1)).take src.length := by
      rw [List.take_take]; congr 1; omega
    rw [t2, this, List.take_left' rfl]
  · have := wr_take_end hm
    simp only [List.take_zero, List.nil_append, Nat.zero_add, List.length_append, List.length_cons,
      List.length_nil] at this
    have g : (m.take (src.length + 1))[src.length]? = some (some 0) := by
      rw [this]; simp
    rw [List.getElem?_take] at g
    simpa using g

/-! ### allocSet -/

theorem handlesOf_zero (n : Nat) (vars : Nat → Loc) (b : Nat) (h : ∀ w, w < n → vars w ≠ .blk b) :
    handlesOf n vars b = 0 := by
  unfold handlesOf
  apply List.countP_eq_zero.mpr
  intro w hw
  simp [h w (List.mem_range.mp hw)]

theorem inv_setEmpty {s : St} (h : Inv s) {v : Nat} (hv : v < s.n) : Inv (setEmpty s v) :=
  (rebound_setEmpty h v).inv h hv (by intro c x; cases x) (by intro r o l x; cases x)

theorem inv_allocSet {s : St} (h : Inv s) {v : Nat} (hv : v < s.n) {bytes : List Byte} {len cap : Nat}
    (h1 : bytes.length = cap + 1) (h2 : len ≤ cap) (h3 : bytes[len]? = some (some 0)) :
    Inv (allocSet s v bytes len cap) := by
  have R := rebound_setEmpty h v
  have h' := inv_setEmpty h hv
  unfold allocSet
  generalize hs1 : setEmpty s v = s1 at *
  have hv1 : v < s1.n := by rw [R.n]; exact hv
  have hve : s1.vars v = .empty := by rw [R.vars, upd_same]
  constructor
  · intro w c hw
    simp only at hw ⊢
    by_cases e : w = v
    · subst e; rw [upd_same] at hw; injection hw with hw; subst hw; exact ⟨_, by rw [upd_same]⟩
    · rw [upd_other _ _ _ _ e] at hw
      have := h'.bound hw
      have ne : c ≠ s1.next := by omega
      rw [upd_other _ _ _ _ ne]
      exact h'.live w c hw
  · intro c blk hc
    simp only at hc ⊢
    have hu := handlesOf_upd s1.n s1.vars v (.blk s1.next) c hv1
    by_cases e : c = s1.next
    · subst e
      rw [upd_same] at hc
      injection hc with hc; subst hc
      have z := handlesOf_zero s1.n s1.vars s1.next (by
        intro w _ hw; have := h'.bound hw; omega)
      simp only [hve, reduceCtorEq, if_false, if_true, Nat.add_zero] at hu
      simp only; omega
    · rw [upd_other _ _ _ _ e] at hc
      have := h'.cnt c blk hc
      have ne : ¬ (Loc.blk s1.next = Loc.blk c) := by intro x; injection x with x; exact e x.symm
      simp only [hve, reduceCtorEq, if_false, Nat.add_zero, ne] at hu
      omega
  · intro c hc
    simp only at hc ⊢
    have ne : c ≠ s1.next := by omega
    rw [upd_other _ _ _ _ ne]
    exact h'.fresh c (by omega)
  · intro w hw
    simp only at hw ⊢
    have e : w ≠ v := by omega
    rw [upd_other _ _ _ _ e]; exact h'.outside w hw
  · intro c blk hc
    simp only at hc
    by_cases e : c = s1.next
    · subst e; rw [upd_same] at hc; injection hc with hc; subst hc; exact ⟨h1, h2, h3⟩
    · rw [upd_other _ _ _ _ e] at hc; exact h'.wf c blk hc
  · intro w r off len hw
    simp only at hw ⊢
    by_cases e : w = v
    · subst e; rw [upd_same] at hw; cases hw
    · rw [upd_other _ _ _ _ e] at hw; exact h'.frg w r off len hw

theorem abs_allocSet_self (s : St) (v : Nat) (bytes : List Byte) (len cap : Nat) :
    absVar (allocSet s v bytes len cap) v = bytes.take len := by
  simp [allocSet, absVar]

theorem abs_allocSet_other {s : St} (h : Inv s) {v : Nat} (hv : v < s.n) (bytes : List Byte) (len cap : Nat)
    {w : Nat} (hw : w ≠ v) : absVar (allocSet s v bytes len cap) w = absVar s w := by
  have R := rebound_setEmpty h v
  have h' := inv_setEmpty h hv
  rw [← R.abs_other h hv hw]
  unfold allocSet
  generalize setEmpty s v = s1 at *
  unfold absVar
  simp only [upd_other _ _ _ _ hw]
  cases hloc : s1.vars w with
  | empty => rfl
  | foreign r off len => rfl
  | blk c =>
    simp only
    have := h'.bound hloc
    have ne : c ≠ s1.next := by omega
    rw [upd_other _ _ _ _ ne]

theorem allocSet_fields (s : St) (v : Nat) (bytes : List Byte) (len cap : Nat) :
    (allocSet s v bytes len cap).n = s.n ∧ (allocSet s v bytes len cap).regs = s.regs := by
  simp [allocSet, setEmpty, setVar, (release_fields s v).1, (release_fields s v).2.2.1]

/-! ### writeOwn -/

theorem writeOwn_eq {s s' : St} {v : Nat} {bytes : List Byte} {len : Nat} (e : writeOwn s v bytes len = some s') :
    ∃ b blk, s.vars v = .blk b ∧ s.heap b = some blk ∧ blk.ref = 1 ∧
      s' = { s with heap := upd s.heap b (some { blk with bytes := bytes, len := len }) } := by
  unfold writeOwn at e
  cases hloc : s.vars v with
  | empty => simp [hloc] at e
  | foreign r off len => simp [hloc] at e
  | blk b =>
    simp only [hloc] at e
    cases hb : s.heap b with
    | none => simp [hb] at e
    | some blk =>
      simp only [hb] at e
      by_cases r1 : blk.ref = 1
      · rw [if_pos r1] at e
        injection e with e
        exact ⟨b, blk, rfl, hb, r1, e.symm⟩
      · simp [r1] at e

theorem inv_writeOwn {s s' : St} (h : Inv s) {v : Nat} {bytes : List Byte} {len : Nat}
    (e : writeOwn s v bytes len = some s')
    (hw : ∀ b blk, s.vars v = .blk b → s.heap b = some blk →
      bytes.length = blk.cap + 1 ∧ len ≤ blk.cap ∧ bytes[len]? = some (some 0)) : Inv s' := by
  obtain ⟨b, blk, hloc, hb, r1, rfl⟩ := writeOwn_eq e
  have W := hw b blk hloc hb
  constructor
  · intro w c hwc
    simp only at hwc ⊢
    by_cases ec : c = b
    · subst ec; exact ⟨_, by rw [upd_same]⟩
    · rw [upd_other _ _ _ _ ec]; exact h.live w c hwc
  · intro c blk' hc
    simp only at hc ⊢
    by_cases ec : c = b
    · subst ec; rw [upd_same] at hc; injection hc with hc; subst hc; exact h.cnt c blk hb
    · rw [upd_other _ _ _ _ ec] at hc; exact h.cnt c blk' hc
  · intro c hc
    simp only at hc ⊢
    have := h.bound hloc
    have ec : c ≠ b := by omega
    rw [upd_other _ _ _ _ ec]; exact h.fresh c hc
  · exact h.outside
  · intro c blk' hc
    simp only at hc
    by_cases ec : c = b
    · subst ec; rw [upd_same] at hc; injection hc with hc; subst hc; exact W
    · rw [upd_other _ _ _ _ ec] at hc; exact h.wf c blk' hc
  · exact h.frg

theorem abs_writeOwn_self {s s' : St} {v : Nat} {bytes : List Byte} {len : Nat}
    (e : writeOwn s v bytes len = some s') : absVar s' v = bytes.take len := by
  obtain ⟨b, blk, hloc, hb, r1, rfl⟩ := writeOwn_eq e
  simp [absVar, hloc]

theorem abs_writeOwn_other {s s' : St} (h : Inv s) {v : Nat} {bytes : List Byte} {len : Nat}
    (e : writeOwn s v bytes len = some s') {w : Nat} (hw : w ≠ v) : absVar s' w = absVar s w := by
  obtain ⟨b, blk, hloc, hb, r1, rfl⟩ := writeOwn_eq e
  unfold absVar
  simp only
  cases hlw : s.vars w with
  | empty => rfl
  | foreign r off len => rfl
  | blk c =>
    simp only
    by_cases ec : c = b
    · subst ec
      have two := handlesOf_two s.n s.vars v w c (h.lt_n hloc) (h.lt_n hlw) hw hloc hlw
      have := (h.cnt c blk hb).1
      omega
    · rw [upd_other _ _ _ _ ec]

theorem writeOwn_fields {s s' : St} {v : Nat} {bytes : List Byte} {len : Nat}
    (e : writeOwn s v bytes len = some s') : s'.n = s.n ∧ s'.regs = s.regs ∧ s'.vars = s.vars := by
  obtain ⟨b, blk, hloc, hb, r1, rfl⟩ := writeOwn_eq e
  simp

/-- the chars of the slot a rebinding points at a block -/
theorem Rebound.abs_self_blk {s s' : St} {v b : Nat} (h : Inv s) (hv : v < s.n) (R : Rebound s s' v (.blk b))
    {blk : Block} (hb : s.heap b = some blk) : absVar s' v = blk.bytes.take blk.len := by
  unfold absVar
  rw [R.vars, upd_same]
  simp only
  have pos := handlesOf_pos s.n (upd s.vars v (.blk b)) v b hv (by rw [upd_same])
  have := refAfter_eq h hv (.blk b) hb
  rw [R.heap b]
  simp only [rebindHeap, hb]
  have hne : ¬ refAfter s v (.blk b) b blk.ref = 0 := by omega
  simp only [hne, if_false]

theorem Rebound.abs_self_empty {s s' : St} {v : Nat} (R : Rebound s s' v .empty) : absVar s' v = [] := by
  unfold absVar; rw [R.vars, upd_same]

theorem Rebound.abs_self_foreign {s s' : St} {v r off len : Nat} (R : Rebound s s' v (.foreign r off len)) :
    absVar s' v = (((s.regs r).map some).drop off).take len := by
  unfold absVar; rw [R.vars, upd_same, R.regs]

end Nstd.Str
