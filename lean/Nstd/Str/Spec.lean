import Nstd.Str.Model
/-!
  The specification of property C06: every String variable is an independent byte list
  (`none` = a char whose value is unspecified: exposed by a growing `resize`).  Each call
  changes the list of its target variable only; the new value is a function of the old
  values (and, for `attach`/literals, of the foreign memory).
-/
namespace Nstd.Str

/-- `resize` on byte lists: chars that come into view are unspecified -/
def resizeL (a : List Byte) (n : Nat) : List Byte := a.take n ++ List.replicate (n - a.length) none

def Op.target : Op → Nat
  | .ctorEmpty v | .attach v _ _ _ | .ctorCopy v _ | .ctorPtr v _ | .ctorFill v _ _ | .ctorCap v _
  | .assign v _ | .clear v | .detach v | .cview v | .resize v _ | .reserve v _ | .fillFrom v _ _
  | .appendS v _ | .appendP v _ | .appendC v _ | .prependS v _ | .prependP v _ | .replaceC v _ _
  | .lower v | .upper v | .substr v _ _ _ | .trim v _ | .tokenC v _ _ _ | .tokenS v _ _ _ | .join v _ _
  | .replaceS v _ _ | .replaceL v _ _ | .printf v _ | .plusEqS v _ | .plusEqC v _ | .plus v _ _ | .plusLit v _ _ _
  | .fromCStr v _ | .fromCStrN v _ | .fromBool v _ | .fromD v _ | .fromU v _ | .fromPrintf v _ | .printfO v _
  | .fromOut v _ => v

namespace Spec

/-- chars up to the first NUL are mapped (`for(char* p = str; *p; ++p) *p = f(*p)`) -/
def mapCStr (f : Nat → Nat) : List Byte → List Byte
  | [] => []
  | none :: r => none :: r
  | some x :: r => if x = 0 then some 0 :: r else some (f x) :: mapCStr f r

def joinL (sep : Nat) : List (List Byte) → List Byte
  | [] => []
  | [t] => t
  | t :: rest => t ++ some sep :: joinL sep rest

/-- `trim`: the value without its leading and trailing chars of the set -/
def trimL (chars : List Nat) (c : List Nat) : List Nat :=
  ((c.dropWhile (inSet chars)).reverse.dropWhile (inSet chars)).reverse

/-- the token that starts at `start`: up to the first separator found (`hit`, relative to `start`), else the rest -/
def tokenL (c : List Nat) (start : Nat) : Option Nat → List Nat
  | some k => (c.drop start).take k
  | none => c.drop start

/-- the `start` a `token` call leaves behind: the index behind the separator found, else `length()` -/
def tokenNext (c : List Nat) (start : Nat) : Option Nat → Nat
  | some k => start + k + 1
  | none => c.length

/-- iterating `token(separators, start)` from `start` while `start < length()` -/
def tokenIter (seps c : List Nat) : Nat → Nat → List (List Nat)
  | 0, _ => []
  | fuel + 1, start =>
    if start ≥ c.length then []
    else
      let hit := strpbrkL (c.drop start) seps
      tokenL c start hit :: tokenIter seps c fuel (tokenNext c start hit)

/-- `replace(needle, replacement)`: left to right, non-overlapping (`fuel` bounds the number of matches) -/
def replaceAux (n : List Nat) (r : List Byte) : Nat → List Nat → List Byte
  | 0, h => h.map some
  | fuel + 1, h =>
    match strstrL h n with
    | none => h.map some
    | some k => (h.take k).map some ++ r ++ replaceAux n r fuel (h.drop (k + n.length))

/-- an empty needle replaces nothing (fixes/str/0003) -/
def replaceAll (n : List Nat) (r : List Byte) (h : List Nat) : List Byte :=
  if n = [] then h.map some else replaceAux n r (h.length + 1) h

/-- the new value of the target variable; `none` = outside the domain of the specification (a call that branches on unspecified chars, a C-string
    based call on a value containing NUL, `token(const char*, start)` with `start > length()`) -/
def newVal (regs : Nat → List Nat) (σ : Nat → List Byte) : Op → Option (List Byte)
  | .ctorEmpty _ => some []
  | .attach _ r off len => some ((((regs r).map some).drop off).take len)
  | .ctorCopy _ w => some (σ w)
  | .ctorPtr _ src => some (src.map some)
  | .ctorFill _ n c => some (List.replicate n (some c))
  | .ctorCap _ _ => some []
  | .assign _ w => some (σ w)
  | .clear _ => some []
  | .detach v => some (σ v)
  | .cview v => some (σ v)
  | .resize v n => some (resizeL (σ v) n)
  | .reserve v _ => some (σ v)
  | .fillFrom v from_ c => some ((σ v).take from_ ++ List.replicate ((σ v).length - from_) (some c))
  | .appendS v w => some (σ v ++ σ w)
  | .appendP v src => some (σ v ++ src.map some)
  | .appendC v c => some (σ v ++ [some c])
  | .prependS v w => some (σ w ++ σ v)
  | .prependP v src => some (src.map some ++ σ v)
  | .substr _ w st ln => some (subList (σ w) st ln)
  | .join _ toks sep => some (joinL sep (toks.map (·.map some)))
  | .printf _ f => some ((render f).map some)
  | .replaceC v a b => (allSome (σ v)).map fun _ => mapCStr (fun c => if c = a then b else c) (σ v)
  | .lower v => (allSome (σ v)).map fun _ => mapCStr toLower (σ v)
  | .tokenC _ w sep start => (allSome (σ w)).bind fun c =>
      if 0 ∉ c then some ((if start ≥ c.length then [] else tokenL c start (strchrL (c.drop start) sep)).map some)
      else none
  | .tokenS _ w seps start => (allSome (σ w)).bind fun c =>
      if 0 ∉ c ∧ start ≤ c.length then some ((tokenL c start (strpbrkL (c.drop start) seps)).map some) else none
  | .replaceS v wn wr_ => (allSome (σ v)).bind fun c => (allSome (σ wn)).bind fun nd =>
      if 0 ∉ c ∧ 0 ∉ nd then some (replaceAll nd (σ wr_) c) else none
  | .replaceL v nd rp => (allSome (σ v)).bind fun c =>
      if 0 ∉ c ∧ 0 ∉ nd then some (replaceAll nd (rp.map some) c) else none
  | .trim v chars => (allSome (σ v)).map (fun c => (trimL chars c).map some)
  | .upper v => (allSome (σ v)).map fun _ => mapCStr toUpper (σ v)
  | .plusEqS v w => some (σ v ++ σ w)
  | .plusEqC v c => some (σ v ++ [some c])
  | .plus _ a b => some (σ a ++ σ b)
  | .plusLit _ a r len => some (σ a ++ ((regs r).map some).take len)
  | .fromCStr _ src => some ((src.takeWhile (· ≠ 0)).map some)
  | .fromCStrN _ src => some (src.map some)
  | .fromBool _ b => some ((if b then [116, 114, 117, 101] else [102, 97, 108, 115, 101]).map some)   -- "true" / "false"
  | .fromD _ x => some ((render [.d x]).map some)
  | .fromU _ x => some ((render [.u x]).map some)
  | .fromPrintf _ f => some ((render f).map some)
  | .printfO _ out => some (out.map some)
  | .fromOut _ out => some (out.map some)

def step (regs : Nat → List Nat) (σ : Nat → List Byte) (op : Op) : Option (Nat → List Byte) :=
  (newVal regs σ op).map (fun val => upd σ op.target val)

def run (regs : Nat → List Nat) (σ : Nat → List Byte) : List Op → Option (Nat → List Byte)
  | [] => some σ
  | op :: ops => (step regs σ op).bind (fun σ => run regs σ ops)

/-! ### specification of the extended operations (token list, String operands) -/

/-- reference: the pieces between separator chars (always at least one piece) -/
def splitRef (seps : List Nat) : List Nat → List (List Nat)
  | [] => [[]]
  | x :: t =>
    if seps.contains x then [] :: splitRef seps t
    else
      match splitRef seps t with
      | tok :: rest => (x :: tok) :: rest
      | [] => [[x]]

/-- what `split` delivers: all pieces, or the non-empty ones when `skipEmpty` -/
def splitOut (skipEmpty : Bool) (pieces : List (List Nat)) : List (List Byte) :=
  ((if skipEmpty then pieces.filter (fun t => !t.isEmpty) else pieces).map (·.map some))

structure XState where
  σ : Nat → List Byte
  toks : List (List Byte)

def xstep (regs : Nat → List Nat) (x : XState) : XOp → Option XState
  | .base op => (step regs x.σ op).map (fun σ => { x with σ := σ })
  | .split v seps skip => (allSome (x.σ v)).bind fun c =>
      if 0 ∉ c then some { x with toks := splitOut skip (splitRef seps c) } else none
  | .joinT v sep => some { x with σ := upd x.σ v (joinL sep x.toks) }
  | .appendL v src => some { x with σ := upd x.σ v (x.σ v ++ src.map some) }
  | .prependL v src => some { x with σ := upd x.σ v (src.map some ++ x.σ v) }

def xrun (regs : Nat → List Nat) (x : XState) : List XOp → Option XState
  | [] => some x
  | op :: ops => (xstep regs x op).bind (fun x => xrun regs x ops)

end Spec
end Nstd.Str
