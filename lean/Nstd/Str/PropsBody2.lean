import Nstd.Str.LemmasBody2
/-!
  Tie by translation, second part (see `PropsBody.lean`): the translated bodies that use a local `String` object, over every
  state with the heap invariant `Inv` (every reachable state: `reach_good`) and an unused temporary slot.
-/
set_option linter.unusedSimpArgs false
namespace Nstd.Str
open Mach Generated

/-- `prepend(const char* str, usize len)` for ANY pointer: `String copy(*this)` in the temporary slot, `detach(0, …)`, the chars
    are read through the pointer after the detach (the model's `prependAlias` tail), `copy` is destroyed at the end -/
theorem prependP_translated {s : St} (h : Inv s) {v tmp : Nat} (hv : v < s.n) (ht : tmp < s.n) (hne : v ≠ tmp)
    (h0 : s.vars tmp = .empty) (p : CPtr) (len : Nat) :
    Body.prependP s v p len tmp = (do
      let s1 ← ctorCopy s tmp v
      let dc ← desc s1 tmp
      let s2 ← detach s1 v 0 (len + dc.len)
      let a ← rdRange s2 p.base p.off len
      let c ← content s2 tmp
      let s3 ← putFront s2 v a c
      pure (setEmpty s3 tmp)) := by
  unfold Body.prependP
  rw [ctorCopy_translated (sane_of_inv h) tmp v h0]
  cases h1 : ctorCopy s tmp v with
  | none => simp
  | some s1 =>
    have E1 := eff_ctorCopy h ht h1
    have hv1 : v < s1.n := by rw [E1.n]; exact hv
    simp only [Option.bind_eq_bind, Option.bind_some, dLen_desc]
    cases hdc : desc s1 tmp with
    | none => simp
    | some dc =>
      have e := detach_translated_eq (sane_of_inv E1.inv) v 0 (len + dc.len) (Or.inl (Nat.zero_le _))
      simp only [Option.map_some, Option.bind_some, e]
      cases h2 : detach s1 v 0 (len + dc.len) with
      | none => simp
      | some s2 =>
        obtain ⟨E2, b, blk, hv2, hb2, r1, hl, _⟩ := eff_detach E1.inv hv1 h2
        have htb := excl_other E2.inv hv2 hb2 r1 (fun x => hne x.symm)
        have hdv2 : desc s2 v = some ⟨.blk b, 0, blk.len, blk.cap, blk.ref⟩ := by simp [desc, hv2, hb2]
        obtain ⟨dt, hdt⟩ := desc_some E2.inv tmp
        have hlen : dt.len = dc.len := by
          rw [desc_len E2.inv hdt, desc_len E1.inv hdc, E2.other tmp (fun x => hne x.symm)]
        simp only [Option.bind_some, dStr_desc, hdv2, Option.map_some, memCopy, Nat.mul_one, content, putFront, memOf, hb2]
        cases ha : rdRange s2 p.base p.off len with
        | none => simp
        | some a =>
          have hla := rdRange_length ha
          simp only [Option.bind_some, Option.bind_eq_bind]
          cases hloc : s2.vars tmp with
          | empty =>
            simp [desc, hloc] at hdt; subst hdt; simp at hlen
            cases hw : wr blk.bytes 0 a <;> pre_simp [hloc, hv2, hb2, hw, hla, r1, rdList, ← hlen]
          | foreign r off l =>
            simp [desc, hloc] at hdt; subst hdt; simp at hlen
            cases hc : rdList (List.map some (s2.regs r)) off l with
            | none => cases hw : wr blk.bytes 0 a <;> pre_simp [hloc, hv2, hb2, hw, hla, r1, hc, ← hlen]
            | some c =>
              have hlc := rdList_length hc
              cases hw : wr blk.bytes 0 a <;> pre_simp [hloc, hv2, hb2, hw, hla, r1, hc, hlc, ← hlen]
          | blk b2 =>
            have hb2b : b2 ≠ b := by intro e; subst e; exact htb hloc
            obtain ⟨blk2, hbk2⟩ := E2.inv.live tmp b2 hloc
            have r2 : blk2.ref ≠ 0 := by have := (E2.inv.cnt b2 blk2 hbk2).2; omega
            have hu : ∀ x, upd s2.heap b x b2 = s2.heap b2 := fun x => upd_other _ _ _ _ hb2b
            simp [desc, hloc, hbk2] at hdt; subst hdt; simp at hlen
            cases hc : rdList blk2.bytes 0 blk2.len with
            | none => cases hw : wr blk.bytes 0 a <;> pre_simp [hloc, hv2, hb2, hw, hla, r1, hc, hbk2, hu, ← hlen]
            | some c =>
              have hlc := rdList_length hc
              by_cases r21 : blk2.ref = 1
              · cases hw : wr blk.bytes 0 a <;> pre_simp [hloc, hv2, hb2, hw, hla, r1, hc, hlc, hbk2, hu, r21, r2, ← hlen]
              · have r22 : blk2.ref - 1 ≠ 0 := by omega
                cases hw : wr blk.bytes 0 a <;> pre_simp [hloc, hv2, hb2, hw, hla, r1, hc, hlc, hbk2, hu, r21, r2, r22, ← hlen]

/-- `prepend(const String& other)` is the model's `prependS`; `other` may be the String itself -/
theorem prependS_translated {s : St} (h : Inv s) {v tmp : Nat} (hv : v < s.n) (ht : tmp < s.n) (hne : v ≠ tmp)
    (h0 : s.vars tmp = .empty) (w : Nat) : Body.prependS s v w tmp = prependS s v w tmp := by
  unfold Body.prependS prependS
  rw [ctorCopy_translated (sane_of_inv h) tmp v h0]
  cases h1 : ctorCopy s tmp v with
  | none => simp
  | some s1 =>
    have E1 := eff_ctorCopy h ht h1
    have hv1 : v < s1.n := by rw [E1.n]; exact hv
    have huv : (if w = v then tmp else w) ≠ v := by
      by_cases c : w = v
      · simp [c]; exact fun x => hne x.symm
      · simp [c]
    generalize (if w = v then tmp else w) = u at huv ⊢
    simp only [Option.bind_eq_bind, Option.bind_some, dLen_desc s1 u, dLen_desc s1 tmp]
    cases hdu : desc s1 u with
    | none => simp
    | some du =>
    cases hdc : desc s1 tmp with
    | none => simp
    | some dc =>
      have e := detach_translated_eq (sane_of_inv E1.inv) v 0 (du.len + dc.len) (Or.inl (Nat.zero_le _))
      simp only [Option.map_some, Option.bind_some, e]
      cases h2 : detach s1 v 0 (du.len + dc.len) with
      | none => simp
      | some s2 =>
        obtain ⟨E2, b, blk, hv2, hb2, r1, hl, _⟩ := eff_detach E1.inv hv1 h2
        have htb := excl_other E2.inv hv2 hb2 r1 (fun x => hne x.symm)
        have hub := excl_other E2.inv hv2 hb2 r1 huv
        obtain ⟨dt, hdt⟩ := desc_some E2.inv tmp
        obtain ⟨du2, hdu2⟩ := desc_some E2.inv u
        have hlt : dt.len = dc.len := by
          rw [desc_len E2.inv hdt, desc_len E1.inv hdc, E2.other tmp (fun x => hne x.symm)]
        have hlu : du2.len = du.len := by
          rw [desc_len E2.inv hdu2, desc_len E1.inv hdu, E2.other u huv]
        have hbt := desc_base_ne htb hdt
        have hLt : dLen s2 (s2.vars tmp) = some dt.len := by rw [dLen_desc, hdt]; rfl
        have hSt : dStr s2 (s2.vars tmp) = some ⟨dt.base, dt.off⟩ := by rw [dStr_desc, hdt]; rfl
        have hLu : dLen s2 (s2.vars u) = some du2.len := by rw [dLen_desc, hdu2]; rfl
        have hSu : dStr s2 (s2.vars u) = some ⟨du2.base, du2.off⟩ := by rw [dStr_desc, hdu2]; rfl
        have hSv : dStr s2 (s2.vars v) = some ⟨.blk b, 0⟩ := by simp [dStr, hv2, hb2]
        simp only [Option.bind_some, hSv, hSu, hLu, content, hdt, hdu2, Nat.mul_one]
        cases ha : rdRange s2 du2.base du2.off du2.len with
        | none => simp [memCopy, ha]
        | some a =>
          have hla := rdRange_length ha
          cases hc : rdRange s2 dt.base dt.off dt.len with
          | none =>
            simp only [memCopy, ha, Option.bind_eq_bind, Option.bind_some, hb2]
            cases hw : wr blk.bytes 0 a with
            | none => simp [hc]
            | some m =>
              simp [dStr_upd_other _ _ htb, dLen_upd_other _ _ htb, dLen_upd_other _ _ hub, hSt, hLt, hLu, hv2, dStr_upd_same,
                rdRange_upd_other _ hbt, hc, padd]
          | some c =>
            have hlc := rdRange_length hc
            simp only [memCopy, ha, Option.bind_eq_bind, Option.bind_some, hb2, desc, hv2, memOf, Option.map_some]
            cases hw : wr blk.bytes 0 a with
            | none => simp
            | some m =>
              simp only [Option.bind_some, dStr_upd_other _ _ htb, dLen_upd_other _ _ htb, dLen_upd_other _ _ hub, hSt, hLt, hLu,
                hv2, dStr_upd_same, upd_same, Option.map_some, rdRange_upd_other _ hbt, hc, padd, Nat.zero_add, hla]
              cases hw2 : wr m du2.len c with
              | none => simp
              | some m2 =>
                simp only [Option.bind_some, hv2, dStr_upd_same, setLen, updBlk, upd_same, storeChar, upd_upd_same, Nat.zero_add]
                cases hw3 : wr m2 (du.len + dc.len) [some 0] with
                | none => simp
                | some m3 =>
                  simp only [Option.bind_some, writeOwn, hv2, hb2, r1, if_true, Option.pure_def, upd_upd_same]
                  have S := sane_upd_live (blk' := { bytes := m3, len := du.len + dc.len, cap := blk.cap, ref := 1 })
                    (sane_of_inv E2.inv) hb2 r1.symm
                  simp only [Option.bind_eq_bind, Option.bind_some, dtor_translated S tmp]
                  rfl

/-- **`String::printf` (String.cpp)**: the retry logic around `vsnprintf` — `detach(0, 200)`, first attempt with the size
    `capacity`, success test `result >= 0 && (usize)result < capacity`, `data->len = result`; else the length query
    `vsnprintf(0, 0, …)`, `detach(0, result)`, second attempt with `result + 1`, `data->len = result` — as translated from the
    current String.cpp is the model's `printfOut` (state and return value); `out` is the text the libc formatter produces for
    the format and its arguments (`Mach.vsnprintf`: at most `size - 1` chars and a NUL are stored, the value is `out.length`). -/
theorem printf_translated {s : St} (h : Inv s) {v : Nat} (hv : v < s.n) (out : List Nat) :
    Body.printf s v out = (printfOut s v out).map (fun r => (r.1, (r.2 : Int))) := by
  unfold Body.printf printfOut
  have e0 := fun n => detach_translated_eq (sane_of_inv h) v 0 n (Or.inl (Nat.zero_le _))
  simp only [e0, Generated.printfBuf]
  generalize h1 : detach s v 0 _ = r1
  cases r1 with
  | none => simp
  | some s1 =>
    obtain ⟨E1, b, blk, hv1, hb1, r1, hl, hcap⟩ := eff_detach h hv h1
    have hv1n : v < s1.n := by rw [E1.n]; exact hv
    simp only [Option.bind_eq_bind, Option.bind_some, printfTail, desc, hv1, hb1, memOf, Option.map_some, dStr, dCap,
      Mach.vsnprintf, vsnStore, Nat.zero_add]
    by_cases c0 : blk.cap = 0
    · omega
    · simp only [c0, if_false]
      cases hw : wr blk.bytes 0 (List.map some (List.take (blk.cap - 1) out) ++ [some 0]) with
      | none => simp
      | some m =>
        simp only [Option.bind_some, upd_same, Option.map_some]
        by_cases fit : out.length < blk.cap
        · simp [fit, setLen, updBlk, upd_upd_same, writeOwn, hv1, hb1, r1]
        · have S := sane_upd_live (blk' := { bytes := m, len := blk.len, cap := blk.cap, ref := 1 })
            (sane_of_inv E1.inv) hb1 r1.symm
          have e2 := fun n => detach_translated_eq S v 0 n (Or.inl (Nat.zero_le _))
          have nf : ¬ ((out.length : Int) < 0) := by omega
          simp only [Int.ofNat_eq_natCast, Int.natCast_nonneg, ge_iff_le, if_true, Int.toNat_natCast, fit, if_false,
            Option.bind_some, Option.pure_def, writeOwn, hv1, hb1, r1, nf, e2]
          generalize h3 : detach _ v 0 out.length = r3
          cases r3 with
          | none => simp [fit]
          | some s3 =>
            obtain ⟨b3, blk3, hv3, hb3, r3, hl3⟩ := detach_excl h3
            have : ((out.length : Int) + 1).toNat = out.length + 1 := by omega
            simp [desc, hv3, hb3, dStr, memOf, Mach.vsnprintf, vsnStore, setLen, updBlk, upd_upd_same, writeOwn, r3,
              Option.bind_assoc, this, fit]
            cases wr blk3.bytes 0 (List.map some out ++ [some 0]) <;> simp

/-- `clear()` is the model's `clear` -/
theorem clear_translated {s : St} (h : Sane s) (v : Nat) : Body.clear s v = clear s v := by
  have hd := h.desc v
  unfold Body.clear clear
  cases hloc : s.vars v with
  | empty => simp [desc, hloc, dRef, setData, setEmpty, release, setVar]
  | foreign r off len => simp [desc, hloc, dRef, setData, setEmpty, release, setVar]
  | blk b =>
    cases hb : s.heap b with
    | none => simp [desc, hloc, hb] at hd
    | some blk =>
      have r0 := h.pos b blk hb
      by_cases r1 : blk.ref = 1
      · simp [desc, hloc, hb, dRef, r1, setLen, updBlk, dStr, storeChar, memOf, writeOwn, upd_upd_same, Option.bind_assoc]
      · have : blk.ref - 1 ≠ 0 := by omega
        simp [desc, hloc, hb, dRef, r1, r0, atomicDec, deleteData, setData, setEmpty, release, setVar, this, upd_upd_same]

/-- `capacity()` and `isEmpty()` are the model's (on every state) -/
theorem capacity_isEmpty_translated (s : St) (v : Nat) :
    Body.capacity s v = capacity s v ∧ Body.isEmpty s v = isEmpty s v := by
  unfold Body.capacity Body.isEmpty capacity isEmpty
  cases hloc : s.vars v with
  | empty => simp [desc, hloc, dRef, dLen]
  | foreign r off len => simp [desc, hloc, dRef, dLen, dec_beq0]
  | blk b =>
    cases hb : s.heap b with
    | none => simp [desc, hloc, hb, dRef, dLen]
    | some blk => by_cases r1 : blk.ref = 1 <;> simp [desc, hloc, hb, dRef, dLen, dCap, r1, dec_beq0]

/-- **`find(char c)`** (the first translated loop): on every state where the value `a` of the String is specified, the
    translated loop — with any `fuel > length()` — returns the pointer to the first `c`, resp. null, and the model's `findC`
    returns the index of that pointer. -/
theorem findC_translated {s : St} {v : Nat} {d : Desc} {a : List Nat} (hd : desc s v = some d)
    (ha : contentVal s v = some a) (c fuel : Nat) (hf : a.length < fuel) :
    Body.findC fuel s v c = some ((a.findIdx? (· == c)).map (fun i => (⟨d.base, d.off + i⟩ : CPtr))) ∧
    findC s v c = some (a.findIdx? (· == c)) := by
  refine ⟨?_, by simp [findC, ha]⟩
  simp only [contentVal, content, hd, Option.bind_eq_bind, Option.bind_some] at ha
  cases hr : rdRange s d.base d.off d.len with
  | none => simp [hr] at ha
  | some bytes =>
    simp only [hr, Option.bind_some] at ha
    have hb := allSome_eq ha
    have hlen : a.length = d.len := by
      have := rdRange_length hr
      rw [hb, List.length_map] at this; exact this
    have hread : ∀ i, i < a.length → rdVal s d.base (d.off + i) = some (a.getD i 0) := by
      intro i hi
      unfold rdRange at hr
      cases hm : memOf s d.base with
      | none => simp [hm] at hr
      | some m =>
        simp only [hm, Option.bind_eq_bind, Option.bind_some, rdList] at hr
        split at hr
        · injection hr with hr
          have : m[d.off + i]? = bytes[i]? := by
            rw [← hr, List.getElem?_take_of_lt (by omega), List.getElem?_drop]
          simp [rdVal, hm, this, hb, List.getElem?_map, List.getElem?_eq_getElem hi, List.getD]
        · cases hr
    have hS : dStr s (s.vars v) = some ⟨d.base, d.off⟩ := by rw [dStr_desc, hd]; rfl
    have hL : dLen s (s.vars v) = some d.len := by rw [dLen_desc, hd]; rfl
    unfold Body.findC
    simp only [hS, hL, Option.bind_eq_bind, Option.bind_some, padd, ← hlen]
    have := findC_loop_spec s v c d.base d.off a hread a.length 0 fuel (by omega) hf
    simpa using this

/-- non-vacuity: `String("abcab", 5).find('b')` through the translated loop is the pointer to index 1, `find('x')` is null,
    too little fuel is a fault -/
example :
    let s0 := (ctorPtr (init 4 (fun _ => [])) 0 [some 97, some 98, some 99, some 97, some 98]).getD (init 4 (fun _ => []))
    (Body.findC 6 s0 0 98).map (·.map (·.off)) = some (some 1) ∧ (Body.findC 6 s0 0 120).map (·.map (·.off)) = some none ∧
    (Body.findC 3 s0 0 120).isNone = true ∧ findC s0 0 98 = some (some 1) := by
  decide

/-- `operator==` / `operator!=` (lengths, then `Memory::compare` over the first String's length; `&&` / `||` short circuit) are the
    model's `equalS` / `notEqualS`, on every state -/
theorem equalS_translated (s : St) (v w : Nat) :
    Body.equalS s v w = equalS s v w ∧ Body.notEqualS s v w = notEqualS s v w := by
  unfold Body.equalS Body.notEqualS equalS notEqualS
  simp only [dLen_desc, dStr_desc]
  cases hdv : desc s v with
  | none => simp
  | some dv =>
    cases hdw : desc s w with
    | none => simp
    | some dw =>
      by_cases e : dv.len = dw.len
      · have E1 := memCompare_eq id s ⟨dv.base, dv.off⟩ ⟨dw.base, dw.off⟩ dv.len
        have E2 := memCompare_eq not s ⟨dv.base, dv.off⟩ ⟨dw.base, dw.off⟩ dv.len
        simp only [contentVal, content, hdv, hdw, Option.bind_eq_bind, Option.bind_some, ← e, Option.map_some, Nat.mul_one,
          if_true, ne_eq, not_true_eq_false, if_false, Option.pure_def, Option.bind_assoc, id, decide_not, bne] at E1 E2 ⊢
        exact ⟨E1, E2⟩
      · simp [e]

/-- `startsWith(const String&)` / `endsWith(const String&)` are the model's, on every state -/
theorem startsWith_translated (s : St) (v w : Nat) :
    Body.startsWith s v w = startsWith s v w ∧ Body.endsWith s v w = endsWith s v w := by
  unfold Body.startsWith Body.endsWith startsWith endsWith
  simp only [dLen_desc, dStr_desc]
  cases hdv : desc s v with
  | none => simp
  | some dv =>
    cases hdw : desc s w with
    | none => simp
    | some dw =>
      by_cases e : dv.len < dw.len
      · have : ¬ dv.len ≥ dw.len := by omega
        simp [e, this]
      · have e' : dv.len ≥ dw.len := by omega
        have E1 := memCompare_eq id s ⟨dv.base, dv.off⟩ ⟨dw.base, dw.off⟩ dw.len
        have E2 := memCompare_eq id s ⟨dv.base, dv.off + dv.len - dw.len⟩ ⟨dw.base, dw.off⟩ dw.len
        simp only [contentVal, content, hdv, hdw, Option.bind_eq_bind, Option.bind_some, Option.map_some, e, e',
          if_true, if_false, Option.pure_def, Option.bind_assoc, id, padd, psub] at E1 E2 ⊢
        exact ⟨E1, E2⟩

/-- `explicit String(usize capacity)` into a slot that holds no object is the model's `ctorCap` -/
theorem ctorCap_translated (s : St) (v cap : Nat) (hv : s.vars v = .empty) : Body.ctorCap s v cap = ctorCap s v cap := by
  unfold Body.ctorCap ctorCap
  mach_simp [hv, fresh]

/-- **`String::fromPrintf` (String.cpp)**, the second site of the retry logic: the translated body — `String s(200)` in the
    temporary slot through the translated constructor, first attempt, success test, length query, `s.detach(0, result)`, second
    attempt, `return s` (the local is the return value) — is the model's `ctorCap` followed by `printfTail` on that slot. -/
theorem fromPrintf_translated {s : St} (h : Inv s) {tmp : Nat} (ht : tmp < s.n) (h0 : s.vars tmp = .empty) (this : Nat)
    (out : List Nat) :
    Body.fromPrintf s this out tmp =
      (ctorCap s tmp Generated.fromPrintfBuf).bind (fun s1 => (printfTail s1 tmp out).map (·.1)) := by
  unfold Body.fromPrintf
  simp only [ctorCap_translated s tmp _ h0, Generated.fromPrintfBuf]
  generalize h1 : ctorCap s tmp _ = r1
  cases r1 with
  | none => simp
  | some s1 =>
    have E1 := eff_ctorCap h ht h1
    have ht1 : tmp < s1.n := by rw [E1.n]; exact ht
    obtain ⟨b, blk, hv1, hb1, r1, hl, hcap⟩ : ∃ b blk, s1.vars tmp = .blk b ∧ s1.heap b = some blk ∧ blk.ref = 1 ∧ blk.len = 0 ∧
        0 < blk.cap := by
      unfold ctorCap at h1
      simp only [Option.bind_eq_bind, Option.bind_eq_some_iff, Option.pure_def, Option.some.injEq] at h1
      obtain ⟨m, _, rfl⟩ := h1
      exact ⟨(setEmpty s tmp).next, ⟨m, 0, Generated.fromPrintfBuf, 1⟩, by simp [allocSet],
        by simp [allocSet, Generated.fromPrintfBuf], rfl, rfl, (by show 0 < Generated.fromPrintfBuf; decide)⟩
    simp only [Option.bind_eq_bind, Option.bind_some, printfTail, desc, hv1, hb1, memOf, Option.map_some, dStr, dCap,
      Mach.vsnprintf, vsnStore, Nat.zero_add]
    by_cases c0 : blk.cap = 0
    · omega
    · simp only [c0, if_false]
      cases hw : wr blk.bytes 0 (List.map some (List.take (blk.cap - 1) out) ++ [some 0]) with
      | none => simp
      | some m =>
        simp only [Option.bind_some, upd_same, Option.map_some]
        by_cases fit : out.length < blk.cap
        · simp [fit, setLen, updBlk, upd_upd_same, writeOwn, hv1, hb1, r1]
        · have S := sane_upd_live (blk' := { bytes := m, len := blk.len, cap := blk.cap, ref := 1 })
            (sane_of_inv E1.inv) hb1 r1.symm
          have e2 := fun n => detach_translated_eq S tmp 0 n (Or.inl (Nat.zero_le _))
          have nf : ¬ ((out.length : Int) < 0) := by omega
          simp only [Int.ofNat_eq_natCast, Int.natCast_nonneg, ge_iff_le, if_true, Int.toNat_natCast, fit, if_false,
            Option.bind_some, Option.pure_def, writeOwn, hv1, hb1, r1, nf, e2]
          generalize h3 : detach _ tmp 0 out.length = r3
          cases r3 with
          | none => simp [fit]
          | some s3 =>
            obtain ⟨b3, blk3, hv3, hb3, r3, hl3⟩ := detach_excl h3
            have : ((out.length : Int) + 1).toNat = out.length + 1 := by omega
            simp [desc, hv3, hb3, dStr, memOf, Mach.vsnprintf, vsnStore, setLen, updBlk, upd_upd_same, writeOwn, r3,
              Option.bind_assoc, this, fit]
            cases wr blk3.bytes 0 (List.map some out ++ [some 0]) <;> simp

/-- `String()` into a slot that holds no object is the model's `ctorEmpty` -/
theorem ctorEmpty_translated (s : St) (v : Nat) (hv : s.vars v = .empty) : Body.ctorEmpty s v = some (ctorEmpty s v) := by
  simp [Body.ctorEmpty, ctorEmpty, setData, setEmpty, release, hv, setVar]

/-- `String(const char* str, usize length)` into a slot that holds no object: the `length` chars at `str` are read (any pointer
    that does not point into unallocated heap) and the model's `ctorPtr` builds the block -/
theorem ctorPtr_translated (s : St) (v : Nat) (p : CPtr) (len : Nat) (hv : s.vars v = .empty)
    (hp : p.base ≠ .blk s.next) :
    Body.ctorPtr s v p len = (rdRange s p.base p.off len).bind (ctorPtr s v) := by
  unfold Body.ctorPtr
  obtain ⟨base, off⟩ := p
  cases base with
  | nul =>
    cases hs : rdList [some 0] off len with
    | none => mach_simp [hv, hs]
    | some src => mach_simp [hv, hs, rdList_length hs]
  | reg r =>
    cases hs : rdList (List.map some (s.regs r)) off len with
    | none => mach_simp [hv, hs]
    | some src => mach_simp [hv, hs, rdList_length hs]
  | blk b =>
    have hne : b ≠ s.next := by intro e; subst e; exact hp rfl
    cases hb : s.heap b with
    | none => mach_simp [hv, hb, hne]
    | some blk =>
      cases hs : rdList blk.bytes off len with
      | none => mach_simp [hv, hb, hne, hs]
      | some src => mach_simp [hv, hb, hne, hs, rdList_length hs]

end Nstd.Str
