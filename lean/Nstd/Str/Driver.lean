import Nstd.Common.Basic
import Nstd.Str.Model
/-
  Line protocol of the Str area (property C06).  One op per line.  After every op the driver
  prints   `<result> ; <v0> | <v1> | <v2> | <v3> # <reg0> <reg1> <reg2> <reg3>`
  with `<v> = length bytes term owned`: bytes in hex (`??` = unspecified, `-` = empty), `term` =
  the stored char `data->str[length]` (for attached memory: the byte behind the attached range),
  `owned` = 1 iff `data` is a heap block.  `<result>` = `-` or the value(s) the call returned.
  Operands written `x<hex>` are temporaries `String(ptr, len)`.  `plus/plusLit/plusEqS/plusEqC/fromCStr/fromCStrN/
  fromBool/fromInt…/fromPrintf` are the operators and static factories (through `step`), `trimD/substr1/splitD` the
  calls with their default arguments (taken from String.hpp by the translator), `s…`/`isSpace`/`ctype`/`toLowerC`/
  `toUpperC` the static helpers on C strings and chars, `attachA/printfA` own-pointer arguments of attach/printf.  `split`/`join` share one token list and,
  like `appendX`/`prependX` with an `x<hex>` operand, run through `xstep` (the extended operations of the
  theorems `xrefines`); `appendA`/`prependA v off len` = `s.append/prepend((const char*)s + off, len)`.
  A fault prints `FAULT` and resets the state.
-/
open Nstd.Common
namespace Nstd.Str

def NU : Nat := 4
def T0 : Nat := NU

def regionInit : Nat → List Nat
  | 0 => [97, 98, 0]                    -- literal "ab"
  | 1 => [32, 97, 47, 66, 32, 0]        -- literal " a/B "
  | 2 => [97, 98, 47, 32, 48, 0xEE]     -- attached "ab/ 0" + guard (not NUL)
  | 3 => [98, 32, 97, 0]                -- attached "b a" + guard NUL
  | _ => []

def NR : Nat := 4
def regLen (r : Nat) : Nat := (regionInit r).length - 1

structure DState where
  st : St
  toks : List (List Byte)

def init0 : DState := { st := init (NU + 3) regionInit, toks := [] }

def byteStr : Byte → String
  | some b => byteHex b
  | none => "??"

def bytesStr (bs : List Byte) : String :=
  if bs.isEmpty then "-" else String.join (bs.map byteStr)

def obsVar (s : St) (v : Nat) : String :=
  match desc s v, content s v, termByte s v with
  | some d, some c, some t => s!"{d.len} {bytesStr c} {byteStr t} {if owned s v then 1 else 0}"
  | _, _, _ => "FAULT"

def obs (s : St) : String :=
  " | ".intercalate ((List.range NU).map (obsVar s)) ++ " # " ++
    " ".intercalate ((List.range NR).map (fun r => toHex (s.regs r)))

def var? (t : String) : Option Nat := do
  let v ← t.toNat?
  if v < NU then some v else none

def byte? (t : String) : Option Nat := do
  let v ← t.toNat?
  if v < 256 then some v else none

/-- an operand: a variable, or `x<hex>` = a temporary built in slot `slot` -/
def operand (s : St) (t : String) (slot : Nat) : Option (Option (St × Nat)) :=
  if t.startsWith "x" then
    match fromHex (t.drop 1).toString with
    | some bs => some ((ctorPtr s slot (bs.map some)).map (fun s => (s, slot)))
    | none => none
  else
    match var? t with
    | some v => some (some (s, v))
    | none => none

/-- a NUL-free C string argument -/
def cstr? (t : String) : Option (List Nat) := do
  let h ← fromHex t
  if h.contains 0 then none else some h

def optIdx : Option Nat → String
  | some i => toString i
  | none => "-1"

def parseFmt : List String → Option (List Fmt)
  | [] => some []
  | t :: r => do
    let rest ← parseFmt r
    let body := (t.drop 1).toString
    let item ←
      if t.startsWith "L" then (fromHex body).map Fmt.lit
      else if t.startsWith "D" then do
        let x ← body.toInt?
        if -2147483648 ≤ x ∧ x ≤ 2147483647 then some (Fmt.d x) else none
      else if t.startsWith "U" then do
        let x ← body.toNat?
        if x < 4294967296 then some (Fmt.u x) else none
      else if t.startsWith "Q" then do
        let x ← body.toInt?
        if -9223372036854775808 ≤ x ∧ x ≤ 9223372036854775807 then some (Fmt.d x) else none
      else if t.startsWith "W" then do
        let x ← body.toNat?
        if x < 18446744073709551616 then some (Fmt.u x) else none
      else if t.startsWith "S" then (fromHex body).map Fmt.s
      else if t.startsWith "C" then do
        let x ← byte? body
        if x ≠ 0 then some (Fmt.c x) else none
      else none
    pure (item :: rest)

/-- at most two directives (what the harness can pass through the C ellipsis) -/
def fmtOk (f : List Fmt) : Bool :=
  (f.filter (fun i => match i with | .lit _ => false | _ => true)).length ≤ 2

inductive R where
  | bad
  | fault
  | ok (d : DState) (res : String)

def mutSt (d : DState) (r : Option St) : R :=
  match r with
  | some s => .ok { d with st := s } "-"
  | none => .fault

def mutOp (d : DState) (op : Option Op) : R :=
  match op with
  | some op => mutSt d (step d.st op)
  | none => .bad

/-- a query with a String operand `x` (variable or temporary in slot T0+1) -/
def withOperand (d : DState) (x : String) (k : St → Nat → Option (St × String)) : R :=
  match operand d.st x (T0 + 1) with
  | none => .bad
  | some none => .fault
  | some (some (s, w)) =>
    match k s w with
    | none => .fault
    | some (s, res) => .ok { d with st := if w < NU then s else setEmpty s w } res

def b01 (b : Bool) : String := if b then "1" else "0"

def exec (d : DState) (ws : List String) : R :=
  let s := d.st
  match ws with
  | ["new", v] => mutOp d (do pure (.ctorEmpty (← var? v)))
  | ["lit", v, r] => mutOp d (do
      let r ← r.toNat?
      if r < 2 then pure (.attach (← var? v) r 0 (regLen r)) else none)
  | ["attach", v, r, o, l] => mutOp d (do
      let r ← r.toNat?
      let o ← o.toNat?
      let l ← l.toNat?
      if r < NR ∧ o + l ≤ regLen r then pure (.attach (← var? v) r o l) else none)
  | ["copy", v, w] => mutOp d (do
      let v ← var? v
      let w ← var? w
      if v = w then none else pure (.ctorCopy v w))
  | ["ptr", v, h] => mutOp d (do pure (.ctorPtr (← var? v) (← fromHex h)))
  | ["fill", v, n, c] => mutOp d (do pure (.ctorFill (← var? v) (← n.toNat?) (← byte? c)))
  | ["cap", v, n] => mutOp d (do pure (.ctorCap (← var? v) (← n.toNat?)))
  | ["assign", v, w] => mutOp d (do pure (.assign (← var? v) (← var? w)))
  | ["clear", v] => mutOp d (do pure (.clear (← var? v)))
  | ["detach", v] => mutOp d (do pure (.detach (← var? v)))
  | ["cstr", v] => mutOp d (do pure (.cview (← var? v)))
  | ["resize", v, n] => mutOp d (do pure (.resize (← var? v) (← n.toNat?)))
  | ["reserve", v, n] => mutOp d (do pure (.reserve (← var? v) (← n.toNat?)))
  | ["fillfrom", v, i, c] => mutOp d (do pure (.fillFrom (← var? v) (← i.toNat?) (← byte? c)))
  | ["appendS", v, w] => mutOp d (do pure (.appendS (← var? v) (← var? w)))
  | ["append", v, h] => mutOp d (do pure (.appendP (← var? v) (← fromHex h)))
  | ["appendC", v, c] => mutOp d (do pure (.appendC (← var? v) (← byte? c)))
  | ["prependS", v, w] => mutOp d (do pure (.prependS (← var? v) (← var? w)))
  | ["prepend", v, h] => mutOp d (do pure (.prependP (← var? v) (← fromHex h)))
  | ["replaceC", v, a, b] => mutOp d (do pure (.replaceC (← var? v) (← byte? a) (← byte? b)))
  | ["lower", v] => mutOp d (do pure (.lower (← var? v)))
  | ["upper", v] => mutOp d (do pure (.upper (← var? v)))
  | ["substr", v, w, a, b] => mutOp d (do pure (.substr (← var? v) (← var? w) (← a.toInt?) (← b.toInt?)))
  | ["trim", v, h] => mutOp d (do pure (.trim (← var? v) (← fromHex h)))
  | ["replaceS", v, a, b] => mutOp d (do pure (.replaceS (← var? v) (← var? a) (← var? b)))
  | ["replaceL", v, a, b] => mutOp d (do pure (.replaceL (← var? v) (← fromHex a) (← fromHex b)))
  | ["tokenC", v, w, c, st] =>
    match var? v, var? w, byte? c, st.toNat? with
    | some v, some w, some c, some st =>
      match tokenC s v w c st T0 with
      | some (s, st') => .ok { d with st := s } (toString st')
      | none => .fault
    | _, _, _, _ => .bad
  | ["tokenS", v, w, h, st] =>
    match var? v, var? w, fromHex h, st.toNat? with
    | some v, some w, some h, some st =>
      match tokenS s v w h st T0 with
      | some (s, st') => .ok { d with st := s } (toString st')
      | none => .fault
    | _, _, _, _ => .bad
  | ["split", v, h, sk] =>
    match var? v, fromHex h, sk.toNat? with
    | some v, some h, some sk =>
      match xstep { st := s, toks := d.toks } (.split v h (sk != 0)) with
      | some x => .ok { st := x.st, toks := x.toks } (" ".intercalate (toString x.toks.length :: x.toks.map bytesStr))
      | none => .fault
    | _, _, _ => .bad
  | ["join", v, c] =>
    match var? v, byte? c with
    | some v, some c =>
      match xstep { st := s, toks := d.toks } (.joinT v c) with
      | some x => .ok { st := x.st, toks := x.toks } "-"
      | none => .fault
    | _, _ => .bad
  | ["appendA", v, o, l] =>
    match var? v, o.toNat?, l.toNat? with
    | some v, some o, some l =>
      match desc s v with
      | some dv => if o + l ≤ dv.len then mutSt d (appendAlias s v o l) else .bad
      | none => .fault
    | _, _, _ => .bad
  | ["prependA", v, o, l] =>
    match var? v, o.toNat?, l.toNat? with
    | some v, some o, some l =>
      match desc s v with
      | some dv => if o + l ≤ dv.len then mutSt d (prependAlias s v o l T0) else .bad
      | none => .fault
    | _, _, _ => .bad
  | "printf" :: v :: items =>
    match var? v, parseFmt items with
    | some v, some f =>
      if fmtOk f then
        match printf s v f with
        | some (s, n) => .ok { d with st := s } (toString n)
        | none => .fault
      else .bad
    | _, _ => .bad
  -- queries with a String operand
  | ["compare", v, x] =>
    match var? v with
    | some v => withOperand d x (fun s w => (compareS s v w).map (fun (s, r) => (s, toString r)))
    | none => .bad
  | ["compareN", v, x, n] =>
    match var? v, n.toNat? with
    | some v, some n => withOperand d x (fun s w => (compareN s v w n).map (fun (s, r) => (s, toString r)))
    | _, _ => .bad
  | ["compareIC", v, x] =>
    match var? v with
    | some v => withOperand d x (fun s w => (compareIC s v w).map (fun (s, r) => (s, toString r)))
    | none => .bad
  | ["compareICN", v, x, n] =>
    match var? v, n.toNat? with
    | some v, some n => withOperand d x (fun s w => (compareICN s v w n).map (fun (s, r) => (s, toString r)))
    | _, _ => .bad
  | ["eq", v, x] =>
    match var? v with
    | some v => withOperand d x (fun s w => (equalS s v w).map (fun r => (s, b01 r)))
    | none => .bad
  | ["eqIC", v, x] =>
    match var? v with
    | some v => withOperand d x (fun s w => (equalsIC s v w).map (fun (s, r) => (s, b01 r)))
    | none => .bad
  | ["startsWith", v, x] =>
    match var? v with
    | some v => withOperand d x (fun s w => (startsWith s v w).map (fun r => (s, b01 r)))
    | none => .bad
  | ["endsWith", v, x] =>
    match var? v with
    | some v => withOperand d x (fun s w => (endsWith s v w).map (fun r => (s, b01 r)))
    | none => .bad
  | ["prependX", v, x] =>
    match var? v with
    | some v =>
      if x.startsWith "x" then
        match fromHex (x.drop 1).toString with
        | some bs =>
          match xstep { st := s, toks := d.toks } (.prependL v bs) with
          | some x => .ok { st := x.st, toks := x.toks } "-"
          | none => .fault
        | none => .bad
      else mutOp d (do pure (.prependS v (← var? x)))
    | none => .bad
  | ["appendX", v, x] =>
    match var? v with
    | some v =>
      if x.startsWith "x" then
        match fromHex (x.drop 1).toString with
        | some bs =>
          match xstep { st := s, toks := d.toks } (.appendL v bs) with
          | some x => .ok { st := x.st, toks := x.toks } "-"
          | none => .fault
        | none => .bad
      else mutOp d (do pure (.appendS v (← var? x)))
    | none => .bad
  -- queries with C string / char arguments
  | ["findC", v, c] =>
    match var? v, byte? c with
    | some v, some c => match findC s v c with | some r => .ok d (optIdx r) | none => .fault
    | _, _ => .bad
  | ["findLastC", v, c] =>
    match var? v, byte? c with
    | some v, some c => match findLastC s v c with | some r => .ok d (optIdx r) | none => .fault
    | _, _ => .bad
  | ["findCFrom", v, c, st] =>
    match var? v, byte? c, st.toNat? with
    | some v, some c, some st => match findCFrom s v c st with | some (s, r) => .ok { d with st := s } (optIdx r) | none => .fault
    | _, _, _ => .bad
  | ["findS", v, h] =>
    match var? v, fromHex h with
    | some v, some h => match findS s v h with | some (s, r) => .ok { d with st := s } (optIdx r) | none => .fault
    | _, _ => .bad
  | ["findSFrom", v, h, st] =>
    match var? v, fromHex h, st.toNat? with
    | some v, some h, some st => match findSFrom s v h st with | some (s, r) => .ok { d with st := s } (optIdx r) | none => .fault
    | _, _, _ => .bad
  | ["findOneOf", v, h] =>
    match var? v, fromHex h with
    | some v, some h => match findOneOf s v h with | some (s, r) => .ok { d with st := s } (optIdx r) | none => .fault
    | _, _ => .bad
  | ["findOneOfFrom", v, h, st] =>
    match var? v, fromHex h, st.toNat? with
    | some v, some h, some st => match findOneOfFrom s v h st with | some (s, r) => .ok { d with st := s } (optIdx r) | none => .fault
    | _, _, _ => .bad
  | ["findLastS", v, h] =>
    match var? v, fromHex h with
    | some v, some h => match findLastS s v h with | some (s, r) => .ok { d with st := s } (optIdx r) | none => .fault
    | _, _ => .bad
  | ["findLastOf", v, h] =>
    match var? v, fromHex h with
    | some v, some h => match findLastOf s v h with | some (s, r) => .ok { d with st := s } (optIdx r) | none => .fault
    | _, _ => .bad
  | ["toBool", v] =>
    match var? v with
    | some v => match toBool s v with | some (s, r) => .ok { d with st := s } (b01 r) | none => .fault
    | none => .bad
  | ["hash", v] =>
    match var? v with
    | some v => match hash s v with | some (s, r) => .ok { d with st := s } (toString r) | none => .fault
    | none => .bad
  | ["plusEqS", v, w] => mutOp d (do pure (.plusEqS (← var? v) (← var? w)))
  | ["plusEqC", v, c] => mutOp d (do pure (.plusEqC (← var? v) (← byte? c)))
  | ["plus", v, a, b] => mutOp d (do pure (.plus (← var? v) (← var? a) (← var? b)))
  | ["plusLit", v, a, r] => mutOp d (do
      let r ← r.toNat?
      if r < 2 then pure (.plusLit (← var? v) (← var? a) r (regLen r)) else none)
  | ["fromCStr", v, h] => mutOp d (do
      let h ← fromHex h
      if h.contains 0 then none else pure (.fromCStr (← var? v) h))
  | ["fromCStrN", v, h] => mutOp d (do pure (.fromCStrN (← var? v) (← fromHex h)))
  | ["fromBool", v, b] => mutOp d (do
      let b ← b.toNat?
      if b < 2 then pure (.fromBool (← var? v) (b == 1)) else none)
  | ["fromInt", v, x] => mutOp d (do
      let x ← x.toInt?
      if -2147483648 ≤ x ∧ x ≤ 2147483647 then pure (.fromD (← var? v) x) else none)
  | ["fromInt64", v, x] => mutOp d (do
      let x ← x.toInt?
      if -9223372036854775808 ≤ x ∧ x ≤ 9223372036854775807 then pure (.fromD (← var? v) x) else none)
  | ["fromUInt", v, x] => mutOp d (do
      let x ← x.toNat?
      if x < 4294967296 then pure (.fromU (← var? v) x) else none)
  | ["fromUInt64", v, x] => mutOp d (do
      let x ← x.toNat?
      if x < 18446744073709551616 then pure (.fromU (← var? v) x) else none)
  | "fromPrintf" :: v :: items =>
    match var? v, parseFmt items with
    | some v, some f => if fmtOk f then mutOp d (some (.fromPrintf v f)) else .bad
    | _, _ => .bad
  -- printf / fromDouble relative to the libc formatter: the line carries the format and argument for the real code
  -- and `out`, the formatter's output, for the model (`printfOut`); the reference recomputes `out` independently
  | ["printfX", v, _fmt, _arg, out] =>
    match var? v, cstr? out with
    | some v, some out =>
      match printfOut s v out with
      | some (s, n) => .ok { d with st := s } (toString n)
      | none => .fault
    | _, _ => .bad
  | ["fromDouble", v, _x, out] => mutOp d (do pure (.fromOut (← var? v) (← cstr? out)))
  -- `scanf("%d", &x)`: the C string view is taken, the libc parses the NUL-terminated view (result and value are the
  -- libc's: carried by the line, recomputed by the reference)
  | ["scanfD", v, n, x] =>
    match var? v, n.toInt?, x.toInt? with
    | some v, some n, some x =>
      match step s (.cview v) with
      | some s => .ok { d with st := s } s!"{n} {x}"
      | none => .fault
    | _, _, _ => .bad
  | ["trimD", v] => mutOp d (do pure (.trim (← var? v) Generated.trimDefault))
  | ["substr1", v, w, a] => mutOp d (do pure (.substr (← var? v) (← var? w) (← a.toInt?) Generated.substrDefaultLen))
  | ["splitD", v, h] =>
    match var? v, fromHex h with
    | some v, some h =>
      match xstep { st := s, toks := d.toks } (.split v h Generated.splitDefaultSkip) with
      | some x => .ok { st := x.st, toks := x.toks } (" ".intercalate (toString x.toks.length :: x.toks.map bytesStr))
      | none => .fault
    | _, _ => .bad
  | ["splitSet", v, h, sk] =>
    match var? v, fromHex h, sk.toNat? with
    | some v, some h, some sk =>
      match splitSet s v h (sk != 0) with
      | some (s, ts) => .ok { d with st := s } (" ".intercalate (toString ts.length :: ts.map bytesStr))
      | none => .fault
    | _, _, _ => .bad
  | ["attachA", v, o, l] =>
    match var? v, o.toNat?, l.toNat? with
    | some v, some o, some l =>
      match desc s v with
      | some dv => if o + l ≤ dv.len then mutSt d (attachAlias s v o l) else .bad
      | none => .fault
    | _, _, _ => .bad
  | ["printfA", v, pre, post] =>
    match var? v, fromHex pre, fromHex post with
    | some v, some pre, some post =>
      if pre.contains 0 || pre.contains 37 || post.contains 0 || post.contains 37 then .bad
      else
        match printfAlias s v pre post with
        | some (s, n) => .ok { d with st := s } (toString n)
        | none => .fault
    | _, _, _ => .bad
  | ["capacity", v] =>
    match var? v with
    | some v => match capacity s v with | some r => .ok d (toString r) | none => .fault
    | none => .bad
  | ["isEmpty", v] =>
    match var? v with
    | some v => match isEmpty s v with | some r => .ok d (b01 r) | none => .fault
    | none => .bad
  | ["ne", v, x] =>
    match var? v with
    | some v => withOperand d x (fun s w => (notEqualS s v w).map (fun r => (s, b01 r)))
    | none => .bad
  | ["eqLit", v, r] =>
    match var? v, r.toNat? with
    | some v, some r => if r < 2 then (match equalLit s v r with | some b => .ok d (b01 b) | none => .fault) else .bad
    | _, _ => .bad
  | ["neLit", v, r] =>
    match var? v, r.toNat? with
    | some v, some r => if r < 2 then (match notEqualLit s v r with | some b => .ok d (b01 b) | none => .fault) else .bad
    | _, _ => .bad
  | ["lt", v, x] =>
    match var? v with
    | some v => withOperand d x (fun s w => (relS s v w .lt).map (fun (s, r) => (s, b01 r)))
    | none => .bad
  | ["le", v, x] =>
    match var? v with
    | some v => withOperand d x (fun s w => (relS s v w .le).map (fun (s, r) => (s, b01 r)))
    | none => .bad
  | ["gt", v, x] =>
    match var? v with
    | some v => withOperand d x (fun s w => (relS s v w .gt).map (fun (s, r) => (s, b01 r)))
    | none => .bad
  | ["ge", v, x] =>
    match var? v with
    | some v => withOperand d x (fun s w => (relS s v w .ge).map (fun (s, r) => (s, b01 r)))
    | none => .bad
  | ["eqICN", v, x, n] =>
    match var? v, n.toNat? with
    | some v, some n => withOperand d x (fun s w => (equalsICN s v w n).map (fun (s, r) => (s, b01 r)))
    | _, _ => .bad
  -- static helpers (C string arguments are NUL-free)
  | ["sCompare", a, b] =>
    match cstr? a, cstr? b with
    | some a, some b => .ok d (toString (sCompare a b))
    | _, _ => .bad
  | ["sCompareN", a, b, n] =>
    match cstr? a, cstr? b, n.toNat? with
    | some a, some b, some n => .ok d (toString (sCompareN a b n))
    | _, _, _ => .bad
  | ["sCompareIC", a, b] =>
    match cstr? a, cstr? b with
    | some a, some b => .ok d (toString (sCompareIC a b))
    | _, _ => .bad
  | ["sCompareICN", a, b, n] =>
    match cstr? a, cstr? b, n.toNat? with
    | some a, some b, some n => .ok d (toString (sCompareICN a b n))
    | _, _, _ => .bad
  | ["sLength", a] =>
    match cstr? a with
    | some a => .ok d (toString (cstrLen a))
    | none => .bad
  | ["sFindC", a, c] =>
    match cstr? a, byte? c with
    | some a, some c => .ok d (optIdx (sFindC a c))
    | _, _ => .bad
  | ["sFindLastC", a, c] =>
    match cstr? a, byte? c with
    | some a, some c => .ok d (optIdx (sFindLastC a c))
    | _, _ => .bad
  | ["sFind", a, b] =>
    match cstr? a, cstr? b with
    | some a, some b => .ok d (optIdx (sFind a b))
    | _, _ => .bad
  | ["sFindOneOf", a, b] =>
    match cstr? a, cstr? b with
    | some a, some b => .ok d (optIdx (sFindOneOf a b))
    | _, _ => .bad
  | ["sFindLast", a, b] =>
    match cstr? a, cstr? b with
    | some a, some b => .ok d (optIdx (sFindLast a b))
    | _, _ => .bad
  | ["sFindLastOf", a, b] =>
    match cstr? a, cstr? b with
    | some a, some b => .ok d (optIdx (sFindLastOf a b))
    | _, _ => .bad
  | ["sStartsWith", a, x] =>
    match cstr? a with
    | some a => withOperand d x (fun s w => (sStartsWith s a w).map (fun r => (s, b01 r)))
    | none => .bad
  | ["isSpace", c] =>
    match byte? c with
    | some c => .ok d (b01 (isSpaceC c))
    | none => .bad
  | ["toLowerC", c] =>
    match byte? c with
    | some c => .ok d (toString (toLower c))
    | none => .bad
  | ["toUpperC", c] =>
    match byte? c with
    | some c => .ok d (toString (toUpper c))
    | none => .bad
  | ["ctype", k, c] =>
    match byte? c with
    | some c =>
      (match k with
       | "alnum" => .ok d (b01 (isAlnumC c))
       | "alpha" => .ok d (b01 (isAlphaC c))
       | "digit" => .ok d (b01 (isDigitC c))
       | "lower" => .ok d (b01 (isLowerC c))
       | "print" => .ok d (b01 (isPrintC c))
       | "punct" => .ok d (b01 (isPunctC c))
       | "upper" => .ok d (b01 (isUpperC c))
       | "xdigit" => .ok d (b01 (isXDigitC c))
       | _ => .bad)
    | none => .bad
  | _ => .bad

/-- C string arguments must be NUL-free (they are passed as `const char*`) -/
def stepLine (d : DState) (ws : List String) : DState × String :=
  match ws with
  | ["reset"] => (init0, "- ; " ++ obs init0.st)
  | _ =>
    match exec d ws with
    | .bad => (d, "bad-op")
    | .fault => (init0, "FAULT")
    | .ok d res => (d, res ++ " ; " ++ obs d.st)

end Nstd.Str

def main : IO Unit := Nstd.Common.ioLoop Nstd.Str.init0 Nstd.Str.stepLine
