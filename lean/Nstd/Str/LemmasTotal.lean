import Nstd.Str.LemmasStep
/-!
  Absence of faults: under the heap invariant the memory accesses of the calls below are all in
  range, read initialised chars where they branch, and store only into exclusively owned blocks.
-/
namespace Nstd.Str

theorem ctorPtr_some (s : St) (v : Nat) (src : List Byte) : ∃ s', ctorPtr s v src = some s' := by
  obtain ⟨m, hm, _⟩ := mkBlock_spec src
  simp only [ctorPtr, hm, Option.bind_eq_bind, Option.bind_some, Option.pure_def]
  exact ⟨_, rfl⟩

theorem ctorCap_some (s : St) (v : Nat) (cap : Nat) : ∃ s', ctorCap s v cap = some s' := by
  obtain ⟨m, hm⟩ := wr_some (m := fresh (cap + 1)) (off := 0) (d := [some 0]) (by simp [length_fresh])
  simp only [ctorCap, hm, Option.bind_eq_bind, Option.bind_some, Option.pure_def]
  exact ⟨_, rfl⟩

theorem share_some {s : St} {b : Nat} {blk : Block} (hb : s.heap b = some blk) (v : Nat) :
    ∃ s', share s v b = some s' := by
  simp only [share, hb]; exact ⟨_, rfl⟩

theorem assign_some {s : St} (h : Inv s) (v w : Nat) : ∃ s', assign s v w = some s' := by
  obtain ⟨d, hd⟩ := desc_some h w
  simp only [assign, hd, Option.bind_eq_bind, Option.bind_some]
  cases hloc : s.vars w with
  | blk b => obtain ⟨blk, hb⟩ := h.live w b hloc; exact share_some hb v
  | empty => simp only [rd_all h hd, Option.bind_some]; exact ctorPtr_some s v _
  | foreign r off len => simp only [rd_all h hd, Option.bind_some]; exact ctorPtr_some s v _

theorem ctorCopy_some {s : St} (h : Inv s) (v w : Nat) : ∃ s', ctorCopy s v w = some s' := by
  obtain ⟨d, hd⟩ := desc_some h w
  simp only [ctorCopy, hd, Option.bind_eq_bind, Option.bind_some]
  cases hloc : s.vars w with
  | blk b => obtain ⟨blk, hb⟩ := h.live w b hloc; exact share_some hb v
  | empty => exact ⟨_, rfl⟩
  | foreign r off len => simp only [rd_all h hd, Option.bind_some]; exact ctorPtr_some s v _

theorem writeOwn_some {s : St} {v b : Nat} {blk : Block} (hv : s.vars v = .blk b) (hb : s.heap b = some blk)
    (r1 : blk.ref = 1) (bytes : List Byte) (len : Nat) : ∃ s', writeOwn s v bytes len = some s' := by
  simp only [writeOwn, hv, hb, r1, if_true]; exact ⟨_, rfl⟩

theorem detach_some {s : St} (h : Inv s) (v : Nat) {c m : Nat} (hcm : c ≤ m) : ∃ s', detach s v c m = some s' := by
  obtain ⟨d, hd⟩ := desc_some h v
  simp only [detach, hd, Option.bind_eq_bind, Option.bind_some]
  by_cases fast : d.ref = 1 ∧ m ≤ d.cap
  · simp only [fast, and_self, if_true]
    cases hloc : s.vars v with
    | empty => rw [desc_empty hloc] at hd; injection hd with hd; subst hd; simp at fast
    | foreign r off len => rw [desc_foreign hloc] at hd; injection hd with hd; subst hd; simp at fast
    | blk b =>
      obtain ⟨blk, hb⟩ := h.live v b hloc
      rw [desc_blk hloc hb] at hd; injection hd with hd; subst hd
      simp only at fast
      have W := h.wf b blk hb
      simp only [memOf, hb, Option.map_some, Option.bind_some]
      obtain ⟨m1, hm1⟩ := wr_some (m := poison blk.bytes blk.len c) (off := c) (d := [some 0])
        (by simp only [List.length_cons, List.length_nil, poison_length]; omega)
      simp only [hm1, Option.bind_some]
      exact writeOwn_some hloc hb fast.1 _ _
  · simp only [fast, if_false]
    have hk : (if d.len < c then d.len else c) ≤ d.len := by split <;> omega
    rw [rd_prefix h hd hk]
    simp only [Option.bind_some]
    have hcap := le_capRule m
    obtain ⟨m1, hm1⟩ := wr_some (m := fresh (capRule m + 1)) (off := 0)
      (d := (absVar s v).take (if d.len < c then d.len else c))
      (by simp only [List.length_take, length_fresh]; split <;> omega)
    simp only [hm1, Option.bind_some]
    obtain ⟨m2, hm2⟩ := wr_some (m := m1) (off := c) (d := [some 0])
      (by simp only [List.length_cons, List.length_nil, wr_length hm1, length_fresh]; omega)
    simp only [hm2, Option.bind_some, Option.pure_def]
    exact ⟨_, rfl⟩

theorem mview_some {s : St} (h : Inv s) (v : Nat) : ∃ s', mview s v = some s' := by
  obtain ⟨d, hd⟩ := desc_some h v
  simp only [mview, hd, Option.bind_eq_bind, Option.bind_some]
  exact detach_some h v (Nat.le_refl _)

theorem reserve_some {s : St} (h : Inv s) (v n : Nat) : ∃ s', reserve s v n = some s' := by
  obtain ⟨d, hd⟩ := desc_some h v
  simp only [reserve, hd, Option.bind_eq_bind, Option.bind_some]
  exact detach_some h v (by split <;> omega)

/-- `data->str[data->len]` is always a readable, initialised char -/
theorem term_readable {s : St} (h : Inv s) (v : Nat) {d : Desc} (hd : desc s v = some d) :
    ∃ t, rdVal s d.base (d.off + d.len) = some t := by
  cases hloc : s.vars v with
  | empty =>
    rw [desc_empty hloc] at hd; injection hd with hd; subst hd
    exact ⟨0, by simp [rdVal, memOf]⟩
  | foreign r off len =>
    rw [desc_foreign hloc] at hd; injection hd with hd; subst hd
    have := h.frg v r off len hloc
    have hx : ((s.regs r).map some)[off + len]? = some (some ((s.regs r)[off + len]'this)) := by
      simp [List.getElem?_map, List.getElem?_eq_getElem this]
    simp only [rdVal, memOf, Option.bind_eq_bind, Option.bind_some, hx]
    exact ⟨_, rfl⟩
  | blk b =>
    obtain ⟨blk, hb⟩ := h.live v b hloc
    rw [desc_blk hloc hb] at hd; injection hd with hd; subst hd
    have W := h.wf b blk hb
    exact ⟨0, by simp only [rdVal, memOf, hb, Option.map_some, Option.bind_eq_bind, Option.bind_some, Nat.zero_add, W.2.2]⟩

theorem cview_some {s : St} (h : Inv s) (v : Nat) : ∃ s', cview s v = some s' := by
  obtain ⟨d, hd⟩ := desc_some h v
  obtain ⟨t, ht⟩ := term_readable h v hd
  simp only [cview, hd, ht, Option.bind_eq_bind, Option.bind_some]
  by_cases t0 : t = 0
  · simp only [t0, ne_eq, not_true_eq_false, if_false, Option.pure_def]; exact ⟨_, rfl⟩
  · simp only [ne_eq, t0, not_false_eq_true, if_true]; exact detach_some h v (Nat.le_refl _)

theorem clear_some {s : St} (h : Inv s) (v : Nat) : ∃ s', clear s v = some s' := by
  obtain ⟨d, hd⟩ := desc_some h v
  simp only [clear, hd, Option.bind_eq_bind, Option.bind_some]
  by_cases r1 : d.ref = 1
  · simp only [r1, if_true]
    cases hloc : s.vars v with
    | empty => rw [desc_empty hloc] at hd; injection hd with hd; subst hd; simp at r1
    | foreign r off len => rw [desc_foreign hloc] at hd; injection hd with hd; subst hd; simp at r1
    | blk b =>
      obtain ⟨blk, hb⟩ := h.live v b hloc
      rw [desc_blk hloc hb] at hd; injection hd with hd; subst hd
      have W := h.wf b blk hb
      simp only [memOf, hb, Option.map_some, Option.bind_some]
      obtain ⟨m1, hm1⟩ := wr_some (m := blk.bytes) (off := 0) (d := [some 0])
        (by simp only [List.length_cons, List.length_nil]; omega)
      simp only [hm1, Option.bind_some]
      exact writeOwn_some hloc hb r1 _ _
  · simp only [r1, if_false, Option.pure_def]; exact ⟨_, rfl⟩

theorem putTail_some {s : St} (h : Inv s) {v L C : Nat} (X : Excl s v L C) {src : List Byte}
    (hC : L + src.length ≤ C) : ∃ s', putTail s v L src (L + src.length) = some s' := by
  obtain ⟨b, blk, hloc, hb, r1, hl, hcap⟩ := X
  have W := h.wf b blk hb
  simp only [putTail, desc_blk hloc hb, memOf, hb, Option.bind_eq_bind, Option.bind_some, Option.map_some,
    Nat.zero_add]
  obtain ⟨m1, hm1⟩ := wr_some (m := blk.bytes) (off := L) (d := src) (by omega)
  simp only [hm1, Option.bind_some]
  obtain ⟨m2, hm2⟩ := wr_some (m := m1) (off := L + src.length) (d := [some 0])
    (by simp only [List.length_cons, List.length_nil, wr_length hm1]; omega)
  simp only [hm2, Option.bind_some]
  exact writeOwn_some hloc hb r1 _ _

theorem appendP_some {s : St} (h : Inv s) {v : Nat} (hv : v < s.n) (src : List Byte) :
    ∃ s', appendP s v src = some s' := by
  obtain ⟨d, hd⟩ := desc_some h v
  simp only [appendP, hd, Option.bind_eq_bind, Option.bind_some]
  obtain ⟨s1, h1⟩ := detach_some h v (c := d.len) (m := d.len + src.length) (by omega)
  simp only [h1, Option.bind_some]
  obtain ⟨E1, X⟩ := eff_detach h hv h1
  obtain ⟨d1, hd1, hl1⟩ := X.desc
  simp only [hd1, Option.bind_some, hl1]
  exact putTail_some E1.inv X (Nat.le_refl _)

theorem appendS_some {s : St} (h : Inv s) {v : Nat} (hv : v < s.n) (w : Nat) :
    ∃ s', appendS s v w = some s' := by
  obtain ⟨d, hd⟩ := desc_some h v
  obtain ⟨dw, hdw⟩ := desc_some h w
  have hlen := desc_len h hd
  have hlenw := desc_len h hdw
  simp only [appendS, hd, hdw, Option.bind_eq_bind, Option.bind_some]
  obtain ⟨s1, h1⟩ := detach_some h v (c := d.len) (m := d.len + dw.len) (by omega)
  simp only [h1, Option.bind_some]
  obtain ⟨E1, X⟩ := eff_detach h hv h1
  rw [hlen, resizeL_self] at E1
  obtain ⟨d1, hd1, hl1⟩ := X.desc
  have hw1 : absVar s1 w = absVar s w := by
    by_cases ew : w = v
    · subst ew; exact E1.self
    · exact E1.other w ew
  simp only [hd1, Option.bind_some, hl1, content_eq E1.inv w, hw1]
  rw [hlenw] at X ⊢
  exact putTail_some E1.inv X (Nat.le_refl _)

/-- the calls for which absence of faults is proved, with what the real code requires of the caller -/
def NoFaultOp (s : St) : Op → Prop
  | .ctorEmpty v => validVar s v = true
  | .attach v r off len => validVar s v = true ∧ off + len < (s.regs r).length
  | .ctorCopy v w => validVar s v = true ∧ validVar s w = true ∧ v ≠ w
  | .ctorPtr v _ => validVar s v = true
  | .ctorFill v _ _ => validVar s v = true
  | .ctorCap v _ => validVar s v = true
  | .assign v w => validVar s v = true ∧ validVar s w = true
  | .clear v => validVar s v = true
  | .detach v => validVar s v = true
  | .cview v => validVar s v = true
  | .resize v _ => validVar s v = true
  | .reserve v _ => validVar s v = true
  | .appendS v w => validVar s v = true ∧ validVar s w = true
  | .appendP v _ => validVar s v = true
  | .appendC v _ => validVar s v = true
  | _ => False

theorem step_total {s : St} (g : Good s) {op : Op} (ok : NoFaultOp s op) : ∃ s', step s op = some s' := by
  have h := g.inv
  cases op <;> simp only [NoFaultOp] at ok <;> simp only [step]
  case ctorEmpty v => simp only [ok, if_true]; exact ⟨_, rfl⟩
  case attach v r off len => simp only [ok, and_self, if_true]; exact ⟨_, rfl⟩
  case ctorCopy v w =>
    have V := valid_facts ok.1
    simp only [ok.1, ok.2.1, ne_eq, ok.2.2, not_false_eq_true, and_self, if_true]
    exact ctorCopy_some (inv_setEmpty h V.1) v w
  case ctorPtr v src => simp only [ok, if_true]; exact ctorPtr_some _ v _
  case ctorFill v n c => simp only [ok, if_true]; exact ctorPtr_some _ v _
  case ctorCap v cap => simp only [ok, if_true]; exact ctorCap_some _ v _
  case assign v w => simp only [ok, and_self, if_true]; exact assign_some h v w
  case clear v => simp only [ok, if_true]; exact clear_some h v
  case detach v => simp only [ok, if_true]; exact mview_some h v
  case cview v => simp only [ok, if_true]; exact cview_some h v
  case resize v n => simp only [ok, if_true]; exact detach_some h v (Nat.le_refl _)
  case reserve v n => simp only [ok, if_true]; exact reserve_some h v n
  case appendS v w => simp only [ok, and_self, if_true]; exact appendS_some h (valid_facts ok.1).1 w
  case appendP v src => simp only [ok, if_true]; exact appendP_some h (valid_facts ok).1 _
  case appendC v c => simp only [ok, if_true]; exact appendP_some h (valid_facts ok).1 _

end Nstd.Str
