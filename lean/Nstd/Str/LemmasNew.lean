import Nstd.Str.LemmasOps
/-!
  Effects of the calls that return a String by value (`operator+`, `fromCString`, `fromBool`, `fromInt…`,
  `fromPrintf`): the result is built in temporaries, assigned to the target, the temporaries are destroyed.
-/
namespace Nstd.Str

/-- a result built in an (empty) temporary, assigned to `v`, the temporary destroyed -/
theorem eff_viaTemp {s s1 s2 : St} {v tmp : Nat} {val : List Byte} (hv : v < s.n) (ht : tmp < s.n)
    (hne : v ≠ tmp) (h0 : absVar s tmp = []) (E1 : Eff s s1 tmp val) (e : assign s1 v tmp = some s2) :
    Eff s (setEmpty s2 tmp) v val := by
  have E2 := eff_assign E1.inv (by rw [E1.n]; exact hv) e
  have E3 := eff_setEmpty E2.inv (v := tmp) (by rw [E2.n, E1.n]; exact ht)
  refine ⟨E3.inv, by rw [E3.n, E2.n, E1.n], by rw [E3.regs, E2.regs, E1.regs], ?_, ?_⟩
  · rw [E3.other v hne, E2.self, E1.self]
  · intro w hw
    by_cases hwt : w = tmp
    · subst hwt; rw [E3.self, h0]
    · rw [E3.other w hwt, E2.other w hw, E1.other w hwt]

theorem excl_ctorCap {s s' : St} {v cap : Nat} (e : ctorCap s v cap = some s') : Excl s' v 0 cap := by
  simp only [ctorCap, Option.bind_eq_bind, Option.bind_eq_some_iff, Option.pure_def, Option.some.injEq] at e
  obtain ⟨m, _, rfl⟩ := e
  exact ⟨(setEmpty s v).next, ⟨m, 0, cap, 1⟩, by simp [allocSet], by simp [allocSet], rfl, rfl, Nat.le_refl _⟩

theorem eff_fromFmt {s s' : St} (h : Inv s) {v tmp : Nat} (hv : v < s.n) (ht : tmp < s.n) (hne : v ≠ tmp)
    (h0 : absVar s tmp = []) {f : List Fmt} (e : fromFmt s v f tmp = some s') :
    Eff s s' v ((render f).map some) := by
  simp only [fromFmt, Option.bind_eq_bind, Option.bind_eq_some_iff, Option.pure_def, Option.some.injEq] at e
  obtain ⟨⟨s1, r⟩, h1, s2, h2, rfl⟩ := e
  exact eff_viaTemp hv ht hne h0 (eff_printf h ht h1) h2

theorem eff_fromOut {s s' : St} (h : Inv s) {v tmp : Nat} (hv : v < s.n) (ht : tmp < s.n) (hne : v ≠ tmp)
    (h0 : absVar s tmp = []) {out : List Nat} (e : fromOut s v out tmp = some s') :
    Eff s s' v (out.map some) := by
  simp only [fromOut, Option.bind_eq_bind, Option.bind_eq_some_iff, Option.pure_def, Option.some.injEq] at e
  obtain ⟨⟨s1, r⟩, h1, s2, h2, rfl⟩ := e
  exact eff_viaTemp hv ht hne h0 (eff_printfOut h ht h1).1 h2

theorem eff_fromPrintf {s s' : St} (h : Inv s) {v tmp : Nat} (hv : v < s.n) (ht : tmp < s.n) (hne : v ≠ tmp)
    (h0 : absVar s tmp = []) {f : List Fmt} (e : fromPrintf s v f tmp = some s') :
    Eff s s' v ((render f).map some) := by
  simp only [fromPrintf, Option.bind_eq_bind, Option.bind_eq_some_iff, Option.pure_def, Option.some.injEq] at e
  obtain ⟨s0, h0', ⟨s1, r⟩, h1, s2, h2, rfl⟩ := e
  have E0 := eff_ctorCap h ht h0'
  have E1 := (eff_printfTail E0.inv (by rw [E0.n]; exact ht) (excl_ctorCap h0') h1).1
  exact eff_viaTemp hv ht hne h0 (E0.trans E1) h2

theorem take_takeWhile_length (p : Nat → Bool) : ∀ l : List Nat, l.take (l.takeWhile p).length = l.takeWhile p
  | [] => rfl
  | x :: t => by
    cases hp : p x with
    | true => simp only [List.takeWhile_cons, hp, if_true, List.length_cons, List.take_succ_cons, take_takeWhile_length p t]
    | false => simp [List.takeWhile_cons, hp]

theorem takeWhile_all (p : Nat → Bool) : ∀ l : List Nat, (∀ x ∈ l, p x = true) → l.takeWhile p = l
  | [], _ => rfl
  | x :: t, h => by
    rw [List.takeWhile_cons, h x (by simp), if_pos rfl, takeWhile_all p t (fun y hy => h y (by simp [hy]))]

theorem eff_fromCStr {s s' : St} (h : Inv s) {v tmp : Nat} (hv : v < s.n) (ht : tmp < s.n) (hne : v ≠ tmp)
    (h0 : absVar s tmp = []) {src : List Nat} (e : fromCStr s v src tmp = some s') :
    Eff s s' v ((src.takeWhile (· ≠ 0)).map some) := by
  have E := eff_assignTemp h hv ht hne h0 e
  simp only [cstrLen, take_takeWhile_length] at E
  exact E

theorem eff_fromBool {s s' : St} (h : Inv s) {v : Nat} (hv : v < s.n) {b : Bool} (e : fromBool s v b = some s') :
    Eff s s' v ((if b then [116, 114, 117, 101] else [102, 97, 108, 115, 101]).map some) := by
  have E := eff_ctorPtr h hv e
  cases b <;> exact E

/-- `v = a + b` -/
theorem eff_plusS {s s' : St} (h : Inv s) {v a b t0 t1 : Nat} (hv : v < s.n) (h0n : t0 < s.n) (h1n : t1 < s.n)
    (hv0 : v ≠ t0) (hv1 : v ≠ t1) (h01 : t0 ≠ t1) (hb0 : b ≠ t0)
    (z0 : absVar s t0 = []) (z1 : absVar s t1 = []) (e : plusS s v a b t0 t1 = some s') :
    Eff s s' v (absVar s a ++ absVar s b) := by
  simp only [plusS, Option.bind_eq_bind, Option.bind_eq_some_iff, Option.pure_def, Option.some.injEq] at e
  obtain ⟨s1, e1, s2, e2, s3, e3, s5, e5, rfl⟩ := e
  have E1 := eff_ctorCopy h h0n e1
  have E2 := eff_appendS E1.inv (by rw [E1.n]; exact h0n) e2
  have E3 := eff_ctorCopy E2.inv (v := t1) (by rw [E2.n, E1.n]; exact h1n) e3
  have E4 := eff_setEmpty E3.inv (v := t0) (by rw [E3.n, E2.n, E1.n]; exact h0n)
  have E5 := eff_assign E4.inv (v := v) (by rw [E4.n, E3.n, E2.n, E1.n]; exact hv) e5
  have E6 := eff_setEmpty E5.inv (v := t1) (by rw [E5.n, E4.n, E3.n, E2.n, E1.n]; exact h1n)
  refine ⟨E6.inv, by rw [E6.n, E5.n, E4.n, E3.n, E2.n, E1.n], by rw [E6.regs, E5.regs, E4.regs, E3.regs, E2.regs, E1.regs],
    ?_, ?_⟩
  · rw [E6.other v hv1, E5.self, E4.other t1 (fun x => h01 x.symm), E3.self, E2.self, E1.self, E1.other b hb0]
  · intro u hu
    by_cases u1 : u = t1
    · subst u1; rw [E6.self, z1]
    · by_cases u0 : u = t0
      · subst u0; rw [E6.other _ u1, E5.other _ hu, E4.self, z0]
      · rw [E6.other u u1, E5.other u hu, E4.other u u0, E3.other u u1, E2.other u u0, E1.other u u0]

/-- `v = a + "literal"` -/
theorem eff_plusLit {s s' : St} (h : Inv s) {v a r len t0 t1 t2 : Nat} (hv : v < s.n) (h0n : t0 < s.n)
    (h1n : t1 < s.n) (h2n : t2 < s.n) (hv0 : v ≠ t0) (hv1 : v ≠ t1) (hv2 : v ≠ t2) (h01 : t0 ≠ t1) (h20 : t2 ≠ t0)
    (h21 : t2 ≠ t1) (ha2 : a ≠ t2) (z0 : absVar s t0 = []) (z1 : absVar s t1 = []) (z2 : absVar s t2 = [])
    (hr : len < (s.regs r).length) (e : plusLit s v a r len t0 t1 t2 = some s') :
    Eff s s' v (absVar s a ++ ((s.regs r).map some).take len) := by
  simp only [plusLit, Option.bind_eq_bind, Option.bind_eq_some_iff, Option.pure_def, Option.some.injEq] at e
  obtain ⟨s1, e1, rfl⟩ := e
  have E0 := eff_attach h h2n (r := r) (off := 0) (len := len) (by omega)
  have E1 := eff_plusS E0.inv (v := v) (a := a) (b := t2) (t0 := t0) (t1 := t1) (by rw [E0.n]; exact hv)
    (by rw [E0.n]; exact h0n) (by rw [E0.n]; exact h1n) hv0 hv1 h01 h20
    (by rw [E0.other _ (fun x => h20 x.symm)]; exact z0) (by rw [E0.other _ (fun x => h21 x.symm)]; exact z1) e1
  rw [E0.self, E0.other a ha2, List.drop_zero] at E1
  have E2 := eff_setEmpty E1.inv (v := t2) (by rw [E1.n, E0.n]; exact h2n)
  refine ⟨E2.inv, by rw [E2.n, E1.n, E0.n], by rw [E2.regs, E1.regs, E0.regs], ?_, ?_⟩
  · rw [E2.other v hv2, E1.self]
  · intro u hu
    by_cases u2 : u = t2
    · subst u2; rw [E2.self, z2]
    · rw [E2.other u u2, E1.other u hu, E0.other u u2]

end Nstd.Str
