import Nstd.Str.LemmasTotal2
import Nstd.Str.LemmasQuery
/-!
  The C string a query sees (`cstrVar` after the view was taken) is the abstract value of the
  variable, provided that value is initialised and NUL-free; hence the query results are the libc
  reference functions applied to the abstract values.
-/
namespace Nstd.Str
open Spec (splitRef splitOut)

/-- `find(const char* str)` is `strstr` on the value of the variable -/
theorem findS_eq {s s' : St} (h : Inv s) {v : Nat} (hv : v < s.n) {needle : List Nat} {r : Option Nat}
    (e : findS s v needle = some (s', r)) {c : List Nat} (hc : allSome (absVar s v) = some c)
    (hz : ∀ x ∈ c, x ≠ 0) : r = strstrL c needle ∧ ∀ w, absVar s' w = absVar s w := by
  simp only [findS, Option.bind_eq_bind, Option.bind_eq_some_iff, Option.pure_def, Option.some.injEq,
    Prod.mk.injEq] at e
  obtain ⟨s1, h1, hh, h2, rfl, rfl⟩ := e
  obtain ⟨E, t⟩ := eff_cview h hv h1
  have := cstrVar_eq E.inv t (by rw [E.self]; exact hc) hz
  rw [this] at h2
  injection h2 with h2
  subst h2
  exact ⟨rfl, E.silent.abs⟩

theorem findLastS_eq {s s' : St} (h : Inv s) {v : Nat} (hv : v < s.n) {needle : List Nat} {r : Option Nat}
    (e : findLastS s v needle = some (s', r)) {c : List Nat} (hc : allSome (absVar s v) = some c)
    (hz : ∀ x ∈ c, x ≠ 0) : LastMatch c needle r ∧ ∀ w, absVar s' w = absVar s w := by
  simp only [findLastS, Option.bind_eq_bind, Option.bind_eq_some_iff, Option.pure_def, Option.some.injEq,
    Prod.mk.injEq] at e
  obtain ⟨s1, h1, hh, h2, rfl, rfl⟩ := e
  obtain ⟨E, t⟩ := eff_cview h hv h1
  have := cstrVar_eq E.inv t (by rw [E.self]; exact hc) hz
  rw [this] at h2
  injection h2 with h2
  subst h2
  exact ⟨findLast_spec _ _, E.silent.abs⟩

theorem findOneOf_eq {s s' : St} (h : Inv s) {v : Nat} (hv : v < s.n) {chars : List Nat} {r : Option Nat}
    (e : findOneOf s v chars = some (s', r)) {c : List Nat} (hc : allSome (absVar s v) = some c)
    (hz : ∀ x ∈ c, x ≠ 0) : r = strpbrkL c chars ∧ ∀ w, absVar s' w = absVar s w := by
  simp only [findOneOf, Option.bind_eq_bind, Option.bind_eq_some_iff, Option.pure_def, Option.some.injEq,
    Prod.mk.injEq] at e
  obtain ⟨s1, h1, hh, h2, rfl, rfl⟩ := e
  obtain ⟨E, t⟩ := eff_cview h hv h1
  have := cstrVar_eq E.inv t (by rw [E.self]; exact hc) hz
  rw [this] at h2
  injection h2 with h2
  subst h2
  exact ⟨rfl, E.silent.abs⟩

/-- both C string views taken (`*this` first, then `other`, which may be the same object): the two
    strings the comparison loops walk over are the two values -/
theorem views2 {s s1 s2 : St} (h : Inv s) {v w : Nat} (hv : v < s.n) (hw : w < s.n)
    (h1 : cview s v = some s1) (h2 : cview s1 w = some s2) {a b : List Nat}
    (ha : allSome (absVar s v) = some a) (hb : allSome (absVar s w) = some b)
    (hza : ∀ x ∈ a, x ≠ 0) (hzb : ∀ x ∈ b, x ≠ 0) :
    cstrVar s2 v 0 = some a ∧ cstrVar s2 w 0 = some b ∧ ∀ u, absVar s2 u = absVar s u := by
  obtain ⟨E1, t1⟩ := eff_cview h hv h1
  have S1 := E1.silent
  have hw1 : w < s1.n := by rw [S1.n]; exact hw
  obtain ⟨E2, t2⟩ := eff_cview S1.inv hw1 h2
  have S := S1.trans E2.silent
  have tv := term_after_cview S1.inv hw1 t1 h2
  exact ⟨cstrVar_eq S.inv tv (by rw [S.abs]; exact ha) hza, cstrVar_eq S.inv t2 (by rw [S.abs]; exact hb) hzb, S.abs⟩

/-- `compare(other)` is the C comparison of the two values (`other` may be the same variable) -/
theorem compareS_eq {s s' : St} (h : Inv s) {v w : Nat} (hv : v < s.n) (hw : w < s.n) {r : Int}
    (e : compareS s v w = some (s', r)) {a b : List Nat} (ha : allSome (absVar s v) = some a)
    (hb : allSome (absVar s w) = some b) (hza : ∀ x ∈ a, x ≠ 0) (hzb : ∀ x ∈ b, x ≠ 0) :
    r = strcmpL a b ∧ ∀ u, absVar s' u = absVar s u := by
  simp only [compareS, Option.bind_eq_bind, Option.bind_eq_some_iff, Option.pure_def, Option.some.injEq,
    Prod.mk.injEq] at e
  obtain ⟨s1, h1, s2, h2, ca, h3, cb, h4, rfl, rfl⟩ := e
  obtain ⟨ea, eb, ab⟩ := views2 h hv hw h1 h2 ha hb hza hzb
  rw [ea] at h3; rw [eb] at h4
  injection h3 with h3; injection h4 with h4
  subst h3; subst h4
  exact ⟨rfl, ab⟩

theorem compareN_eq {s s' : St} (h : Inv s) {v w : Nat} (hv : v < s.n) (hw : w < s.n) {r : Int} {n : Nat}
    (e : compareN s v w n = some (s', r)) {a b : List Nat} (ha : allSome (absVar s v) = some a)
    (hb : allSome (absVar s w) = some b) (hza : ∀ x ∈ a, x ≠ 0) (hzb : ∀ x ∈ b, x ≠ 0) :
    r = strcmpL (a.take n) (b.take n) ∧ ∀ u, absVar s' u = absVar s u := by
  simp only [compareN, Option.bind_eq_bind, Option.bind_eq_some_iff, Option.pure_def, Option.some.injEq,
    Prod.mk.injEq] at e
  obtain ⟨s1, h1, s2, h2, ca, h3, cb, h4, rfl, rfl⟩ := e
  obtain ⟨ea, eb, ab⟩ := views2 h hv hw h1 h2 ha hb hza hzb
  rw [ea] at h3; rw [eb] at h4
  injection h3 with h3; injection h4 with h4
  subst h3; subst h4
  exact ⟨strncmp_take n _ _ hza, ab⟩

theorem compareIC_eq {s s' : St} (h : Inv s) {v w : Nat} (hv : v < s.n) (hw : w < s.n) {r : Int}
    (e : compareIC s v w = some (s', r)) {a b : List Nat} (ha : allSome (absVar s v) = some a)
    (hb : allSome (absVar s w) = some b) (hza : ∀ x ∈ a, x ≠ 0) (hzb : ∀ x ∈ b, x ≠ 0) :
    r = strcmpL (a.map toLower) (b.map toLower) ∧ ∀ u, absVar s' u = absVar s u := by
  simp only [compareIC, Option.bind_eq_bind, Option.bind_eq_some_iff, Option.pure_def, Option.some.injEq,
    Prod.mk.injEq] at e
  obtain ⟨s1, h1, s2, h2, ca, h3, cb, h4, rfl, rfl⟩ := e
  obtain ⟨ea, eb, ab⟩ := views2 h hv hw h1 h2 ha hb hza hzb
  rw [ea] at h3; rw [eb] at h4
  injection h3 with h3; injection h4 with h4
  subst h3; subst h4
  exact ⟨rfl, ab⟩

/-- `split`: the token list is the reference split of the value -/
theorem split_eq {s s' : St} (h : Inv s) {v : Nat} (hv : v < s.n) {seps : List Nat} {skip : Bool}
    {toks : List (List Byte)} (e : split s v seps skip = some (s', toks)) {c : List Nat}
    (hc : allSome (absVar s v) = some c) (hz : ∀ x ∈ c, x ≠ 0) :
    toks = splitOut skip (splitRef seps c) ∧ ∀ w, absVar s' w = absVar s w := by
  simp only [split, Option.bind_eq_bind, Option.bind_eq_some_iff, Option.pure_def, Option.some.injEq,
    Prod.mk.injEq] at e
  obtain ⟨s1, h1, hh, h2, cc, h3, rfl, rfl⟩ := e
  obtain ⟨E, t⟩ := eff_cview h hv h1
  have := cstrVar_eq E.inv t (by rw [E.self]; exact hc) hz
  rw [this] at h2; injection h2 with h2; subst h2
  rw [content_eq E.inv v, E.self] at h3
  injection h3 with h3
  rw [← h3, allSome_eq hc]
  exact ⟨split_loop_spec _ _ _, E.silent.abs⟩

/-- `find(char)`: the first index holding the char -/
theorem findC_eq {s : St} (h : Inv s) {v c : Nat} {r : Option Nat} (e : findC s v c = some r) {a : List Nat}
    (ha : allSome (absVar s v) = some a) : r = a.findIdx? (· == c) := by
  simp only [findC, contentVal_eq h v, ha, Option.bind_eq_bind, Option.bind_some, Option.pure_def,
    Option.some.injEq] at e
  exact e.symm

theorem findLastC_eq {s : St} (h : Inv s) {v c : Nat} {r : Option Nat} (e : findLastC s v c = some r) {a : List Nat}
    (ha : allSome (absVar s v) = some a) : r = findLastIdx a c := by
  simp only [findLastC, contentVal_eq h v, ha, Option.bind_eq_bind, Option.bind_some, Option.pure_def,
    Option.some.injEq] at e
  exact e.symm

/-- `operator==` decides equality of the values (the variables may share a block or be the same) -/
theorem equalS_eq {s : St} (h : Inv s) {v w : Nat} {r : Bool} (e : equalS s v w = some r) {a b : List Nat}
    (ha : allSome (absVar s v) = some a) (hb : allSome (absVar s w) = some b) : (r = true ↔ a = b) := by
  obtain ⟨dv, hdv⟩ := desc_some h v
  obtain ⟨dw, hdw⟩ := desc_some h w
  have lv : dv.len = a.length := by rw [desc_len h hdv, allSome_eq ha, List.length_map]
  have lw : dw.len = b.length := by rw [desc_len h hdw, allSome_eq hb, List.length_map]
  simp only [equalS, hdv, hdw, Option.bind_eq_bind, Option.bind_some] at e
  by_cases c : dv.len = dw.len
  · have c' : ¬ dv.len ≠ dw.len := fun x => x c
    rw [if_neg c'] at e
    simp only [contentVal_eq h, ha, hb, Option.bind_some, Option.pure_def, Option.some.injEq] at e
    subst e
    simp
  · have c' : dv.len ≠ dw.len := c
    rw [if_pos c'] at e
    simp only [Option.pure_def, Option.some.injEq] at e
    subst e
    constructor
    · intro x; cases x
    · intro x; subst x; omega

/-- `startsWith` decides whether the argument's value is a prefix of the value -/
theorem startsWith_eq {s : St} (h : Inv s) {v w : Nat} {r : Bool} (e : startsWith s v w = some r) {a b : List Nat}
    (ha : allSome (absVar s v) = some a) (hb : allSome (absVar s w) = some b) : (r = true ↔ b <+: a) := by
  obtain ⟨dv, hdv⟩ := desc_some h v
  obtain ⟨dw, hdw⟩ := desc_some h w
  have lv : dv.len = a.length := by rw [desc_len h hdv, allSome_eq ha, List.length_map]
  have lw : dw.len = b.length := by rw [desc_len h hdw, allSome_eq hb, List.length_map]
  simp only [startsWith, hdv, hdw, Option.bind_eq_bind, Option.bind_some] at e
  by_cases c : dv.len < dw.len
  · simp only [c, if_true, Option.pure_def, Option.some.injEq] at e
    subst e
    constructor
    · intro x; cases x
    · intro x; have := x.length_le; omega
  · simp only [c, if_false] at e
    rw [rd_prefix h hdv (by omega), allSome_eq ha, ← List.map_take] at e
    simp only [Option.bind_some, allSome_map, contentVal_eq h, hb, Option.pure_def, Option.some.injEq] at e
    subst e
    rw [List.prefix_iff_eq_take, lw]
    simp only [beq_iff_eq]
    exact eq_comm

theorem rd_mid {s : St} (h : Inv s) {w : Nat} {d : Desc} (hd : desc s w = some d) {a k : Nat}
    (hk : a + k ≤ d.len) : rdRange s d.base (d.off + a) k = some (((absVar s w).drop a).take k) := by
  have hall := rd_all h hd
  simp only [rdRange, Option.bind_eq_bind] at hall ⊢
  cases hm : memOf s d.base with
  | none => simp [hm] at hall
  | some mm =>
    simp only [hm, Option.bind_some, rdList] at hall ⊢
    split at hall
    · rename_i c
      injection hall with hall
      have : d.off + a + k ≤ mm.length := by omega
      simp only [this, if_true]
      rw [← hall]
      simp only [List.drop_take, List.drop_drop, List.take_take]
      congr 2
      omega
    · cases hall

/-- `endsWith` decides whether the argument's value is a suffix of the value -/
theorem endsWith_eq {s : St} (h : Inv s) {v w : Nat} {r : Bool} (e : endsWith s v w = some r) {a b : List Nat}
    (ha : allSome (absVar s v) = some a) (hb : allSome (absVar s w) = some b) : (r = true ↔ b <:+ a) := by
  obtain ⟨dv, hdv⟩ := desc_some h v
  obtain ⟨dw, hdw⟩ := desc_some h w
  have lv : dv.len = a.length := by rw [desc_len h hdv, allSome_eq ha, List.length_map]
  have lw : dw.len = b.length := by rw [desc_len h hdw, allSome_eq hb, List.length_map]
  simp only [endsWith, hdv, hdw, Option.bind_eq_bind, Option.bind_some] at e
  by_cases c : dv.len < dw.len
  · simp only [c, if_true, Option.pure_def, Option.some.injEq] at e
    subst e
    constructor
    · intro x; cases x
    · intro x; have := x.length_le; omega
  · simp only [c, if_false] at e
    have eo : dv.off + dv.len - dw.len = dv.off + (dv.len - dw.len) := by omega
    rw [eo, rd_mid h hdv (by omega), allSome_eq ha, ← List.map_drop, ← List.map_take] at e
    simp only [Option.bind_some, allSome_map, contentVal_eq h, hb, Option.pure_def, Option.some.injEq] at e
    subst e
    rw [List.suffix_iff_eq_drop, lv, lw]
    simp only [beq_iff_eq]
    have : List.take b.length (List.drop (a.length - b.length) a) = List.drop (a.length - b.length) a := by
      apply List.take_of_length_le
      simp only [List.length_drop]; omega
    rw [this]
    exact eq_comm

theorem findLastOf_eq {s s' : St} (h : Inv s) {v : Nat} (hv : v < s.n) {chars : List Nat} {r : Option Nat}
    (e : findLastOf s v chars = some (s', r)) {c : List Nat} (hc : allSome (absVar s v) = some c)
    (hz : ∀ x ∈ c, x ≠ 0) : LastOf c chars r ∧ ∀ w, absVar s' w = absVar s w := by
  simp only [findLastOf, Option.bind_eq_bind, Option.bind_eq_some_iff, Option.pure_def, Option.some.injEq,
    Prod.mk.injEq] at e
  obtain ⟨s1, h1, hh, h2, rfl, rfl⟩ := e
  obtain ⟨E, t⟩ := eff_cview h hv h1
  have := cstrVar_eq E.inv t (by rw [E.self]; exact hc) hz
  rw [this] at h2
  injection h2 with h2
  subst h2
  exact ⟨findLastOf_spec _ _, E.silent.abs⟩

/-- the searches with a start index look at the rest of the value from `start` -/
theorem findFrom_eq {s : St} (h : Inv s) {v : Nat} (hv : v < s.n) {c : List Nat}
    (hc : allSome (absVar s v) = some c) (hz : 0 ∉ c) (needle : List Nat) (st : Nat) :
    (∀ s' r, findSFrom s v needle st = some (s', r) →
      r = (if st ≥ c.length then none else (strstrL (c.drop st) needle).map (· + st)) ∧ ∀ w, absVar s' w = absVar s w) ∧
    (∀ s' r, findOneOfFrom s v needle st = some (s', r) →
      r = (if st ≥ c.length then none else (strpbrkL (c.drop st) needle).map (· + st)) ∧ ∀ w, absVar s' w = absVar s w) := by
  obtain ⟨d, hd⟩ := desc_some h v
  have hlen := desc_len h hd
  have hcl : c.length = d.len := by rw [hlen, allSome_eq hc, List.length_map]
  constructor
  · intro s' r e
    simp only [findSFrom, hd, Option.bind_eq_bind, Option.bind_some] at e
    by_cases c1 : st ≥ d.len
    · simp only [c1, if_true, Option.pure_def, Option.some.injEq, Prod.mk.injEq] at e
      rw [← e.1, ← e.2]
      have : st ≥ c.length := by omega
      exact ⟨by simp only [this, if_true], fun _ => rfl⟩
    · simp only [c1, if_false, Option.bind_eq_some_iff, Option.pure_def, Option.some.injEq, Prod.mk.injEq] at e
      obtain ⟨s2, h2, hh, h3, e⟩ := e
      obtain ⟨E, t⟩ := eff_cview h hv h2
      have := cstrVar_from E.inv t (by rw [E.self]; exact hc) (nulFree_of hz) (start := st) (by omega)
      rw [this] at h3; injection h3 with h3; subst h3
      rw [← e.1, ← e.2]
      have : ¬ st ≥ c.length := by omega
      exact ⟨by simp only [this, if_false], E.silent.abs⟩
  · intro s' r e
    simp only [findOneOfFrom, hd, Option.bind_eq_bind, Option.bind_some] at e
    by_cases c1 : st ≥ d.len
    · simp only [c1, if_true, Option.pure_def, Option.some.injEq, Prod.mk.injEq] at e
      rw [← e.1, ← e.2]
      have : st ≥ c.length := by omega
      exact ⟨by simp only [this, if_true], fun _ => rfl⟩
    · simp only [c1, if_false, Option.bind_eq_some_iff, Option.pure_def, Option.some.injEq, Prod.mk.injEq] at e
      obtain ⟨s2, h2, hh, h3, e⟩ := e
      obtain ⟨E, t⟩ := eff_cview h hv h2
      have := cstrVar_from E.inv t (by rw [E.self]; exact hc) (nulFree_of hz) (start := st) (by omega)
      rw [this] at h3; injection h3 with h3; subst h3
      rw [← e.1, ← e.2]
      have : ¬ st ≥ c.length := by omega
      exact ⟨by simp only [this, if_false], E.silent.abs⟩

/-! ### the queries do not fault on specified, NUL-free values -/

theorem views2_some {s : St} (h : Inv s) {v w : Nat} (hv : v < s.n) (hw : w < s.n) {a b : List Nat}
    (ha : allSome (absVar s v) = some a) (hb : allSome (absVar s w) = some b)
    (hza : ∀ x ∈ a, x ≠ 0) (hzb : ∀ x ∈ b, x ≠ 0) :
    ∃ s1 s2, cview s v = some s1 ∧ cview s1 w = some s2 ∧ cstrVar s2 v 0 = some a ∧ cstrVar s2 w 0 = some b := by
  obtain ⟨s1, h1⟩ := cview_some h v
  have S1 := silent_cview h hv h1
  obtain ⟨s2, h2⟩ := cview_some S1.inv w
  obtain ⟨ea, eb, _⟩ := views2 h hv hw h1 h2 ha hb hza hzb
  exact ⟨s1, s2, h1, h2, ea, eb⟩

theorem view1_some {s : St} (h : Inv s) {v : Nat} (hv : v < s.n) {a : List Nat}
    (ha : allSome (absVar s v) = some a) (hza : ∀ x ∈ a, x ≠ 0) :
    ∃ s1, cview s v = some s1 ∧ cstrVar s1 v 0 = some a ∧ content s1 v = some (a.map some) := by
  obtain ⟨s1, h1⟩ := cview_some h v
  obtain ⟨E, t⟩ := eff_cview h hv h1
  refine ⟨s1, h1, cstrVar_eq E.inv t (by rw [E.self]; exact ha) hza, ?_⟩
  rw [content_eq E.inv v, E.self, allSome_eq ha]

theorem queries_total {s : St} (h : Inv s) {v w : Nat} (hv : v < s.n) (hw : w < s.n) {a b : List Nat}
    (ha : allSome (absVar s v) = some a) (hb : allSome (absVar s w) = some b)
    (hza : ∀ x ∈ a, x ≠ 0) (hzb : ∀ x ∈ b, x ≠ 0) (n : Nat) (needle : List Nat) (skip : Bool) (c : Nat) :
    (compareS s v w).isSome ∧ (compareN s v w n).isSome ∧ (compareIC s v w).isSome ∧ (compareICN s v w n).isSome ∧
    (findS s v needle).isSome ∧ (findLastS s v needle).isSome ∧ (findOneOf s v needle).isSome ∧
    (findLastOf s v needle).isSome ∧ (split s v needle skip).isSome ∧
    (findC s v c).isSome ∧ (findLastC s v c).isSome ∧ (equalS s v w).isSome := by
  obtain ⟨s1, s2, h1, h2, ea, eb⟩ := views2_some h hv hw ha hb hza hzb
  obtain ⟨t1, g1, ca, cc⟩ := view1_some h hv ha hza
  obtain ⟨dv, hdv⟩ := desc_some h v
  obtain ⟨dw, hdw⟩ := desc_some h w
  refine ⟨?_, ?_, ?_, ?_, ?_, ?_, ?_, ?_, ?_, ?_, ?_, ?_⟩
  · simp [compareS, h1, h2, ea, eb]
  · simp [compareN, h1, h2, ea, eb]
  · simp [compareIC, h1, h2, ea, eb]
  · simp [compareICN, h1, h2, ea, eb]
  · simp [findS, g1, ca]
  · simp [findLastS, g1, ca]
  · simp [findOneOf, g1, ca]
  · simp [findLastOf, g1, ca]
  · simp [split, g1, ca, cc]
  · simp [findC, contentVal_eq h, ha]
  · simp [findLastC, contentVal_eq h, ha]
  · simp only [equalS, hdv, hdw, Option.bind_eq_bind, Option.bind_some, contentVal_eq h, ha, hb, Option.pure_def]
    split <;> rfl

/-- `equalsIgnoreCase`: equal lengths and equal ASCII-lowered chars -/
theorem equalsIC_eq {s s' : St} (h : Inv s) {v w : Nat} (hv : v < s.n) (hw : w < s.n) {r : Bool}
    (e : equalsIC s v w = some (s', r)) {a b : List Nat} (ha : allSome (absVar s v) = some a)
    (hb : allSome (absVar s w) = some b) (hza : ∀ x ∈ a, x ≠ 0) (hzb : ∀ x ∈ b, x ≠ 0) :
    (r = true ↔ a.map toLower = b.map toLower) ∧ ∀ u, absVar s' u = absVar s u := by
  obtain ⟨dv, hdv⟩ := desc_some h v
  obtain ⟨dw, hdw⟩ := desc_some h w
  have lv : dv.len = a.length := by rw [desc_len h hdv, allSome_eq ha, List.length_map]
  have lw : dw.len = b.length := by rw [desc_len h hdw, allSome_eq hb, List.length_map]
  simp only [equalsIC, hdv, hdw, Option.bind_eq_bind, Option.bind_some] at e
  by_cases c : dv.len = dw.len
  · have c' : ¬ dv.len ≠ dw.len := fun x => x c
    rw [if_neg c'] at e
    simp only [Option.bind_eq_some_iff, Option.pure_def, Option.some.injEq, Prod.mk.injEq] at e
    obtain ⟨⟨s2, k⟩, h2, rfl, rfl⟩ := e
    obtain ⟨rfl, ab⟩ := compareIC_eq h hv hw h2 ha hb hza hzb
    refine ⟨?_, ab⟩
    have h1 : ∀ x ∈ a.map toLower, x ≠ 0 := by
      intro x hx; obtain ⟨y, hy, rfl⟩ := List.mem_map.mp hx; exact toLower_ne_zero (hza y hy)
    have h2' : ∀ x ∈ b.map toLower, x ≠ 0 := by
      intro x hx; obtain ⟨y, hy, rfl⟩ := List.mem_map.mp hx; exact toLower_ne_zero (hzb y hy)
    rw [← strcmp_eq_zero h1 h2']
    simp
  · have c' : dv.len ≠ dw.len := c
    rw [if_pos c'] at e
    simp only [Option.pure_def, Option.some.injEq, Prod.mk.injEq] at e
    obtain ⟨rfl, rfl⟩ := e
    refine ⟨?_, fun _ => rfl⟩
    constructor
    · intro x; cases x
    · intro x
      have := congrArg List.length x
      simp only [List.length_map] at this
      omega

/-- `toBool()` against its reference -/
theorem toBool_eq {s s' : St} (h : Inv s) {v : Nat} (hv : v < s.n) {r : Bool}
    (e : toBool s v = some (s', r)) {c : List Nat} (hc : allSome (absVar s v) = some c)
    (hz : ∀ x ∈ c, x ≠ 0) : (r = false ↔ toBoolFalse c) ∧ ∀ u, absVar s' u = absVar s u := by
  obtain ⟨d, hd⟩ := desc_some h v
  have hcl : c.length = d.len := by rw [desc_len h hd, allSome_eq hc, List.length_map]
  simp only [toBool, hd, Option.bind_eq_bind, Option.bind_some, show Generated.toBoolZeroLit = [48] from rfl,
    List.length_singleton] at e
  by_cases l0 : d.len = 0
  · simp only [l0, if_true, Option.pure_def, Option.some.injEq, Prod.mk.injEq] at e
    obtain ⟨rfl, rfl⟩ := e
    have : c = [] := List.eq_nil_of_length_eq_zero (by omega)
    exact ⟨by simp [toBoolFalse, this], fun _ => rfl⟩
  · simp only [l0, if_false, contentVal_eq h, hc, Option.map_some, Option.bind_eq_some_iff] at e
    obtain ⟨z, hz1, e⟩ := e
    by_cases cz : z = true
    · subst cz
      simp only [if_true, Option.pure_def, Option.some.injEq, Prod.mk.injEq] at e
      obtain ⟨rfl, rfl⟩ := e
      have c48 : c = [48] := by
        by_cases l1 : d.len = 1
        · simp only [l1, if_true, Option.some.injEq, beq_iff_eq] at hz1; exact hz1
        · simp [l1] at hz1
      exact ⟨by simp [toBoolFalse, c48], fun _ => rfl⟩
    · have cz' : z = false := by simpa using cz
      subst cz'
      simp only [Bool.false_eq_true, if_false, Option.bind_eq_some_iff, Option.pure_def, Option.some.injEq,
        Prod.mk.injEq] at e
      obtain ⟨s1, h1, cc, h2, a, h3, rfl, rfl⟩ := e
      obtain ⟨E, t⟩ := eff_cview h hv h1
      have ea := cstrVar_eq E.inv t (by rw [E.self]; exact hc) hz
      rw [ea] at h3; injection h3 with h3; subst h3
      rw [contentVal_eq E.inv, E.self, hc] at h2
      injection h2 with h2; subst h2
      exact ⟨toBool_spec c hz, E.silent.abs⟩

theorem queries_total2 {s : St} (h : Inv s) {v w : Nat} (hv : v < s.n) {a b : List Nat}
    (ha : allSome (absVar s v) = some a) (hb : allSome (absVar s w) = some b) (hza : 0 ∉ a)
    (needle : List Nat) (c st : Nat) :
    (startsWith s v w).isSome ∧ (endsWith s v w).isSome ∧ (findSFrom s v needle st).isSome ∧
    (findOneOfFrom s v needle st).isSome ∧ (findCFrom s v c st).isSome := by
  obtain ⟨dv, hdv⟩ := desc_some h v
  obtain ⟨dw, hdw⟩ := desc_some h w
  have lv : dv.len = a.length := by rw [desc_len h hdv, allSome_eq ha, List.length_map]
  have lw : dw.len = b.length := by rw [desc_len h hdw, allSome_eq hb, List.length_map]
  have fromCase : st < dv.len → ∃ s1, cview s v = some s1 ∧ cstrVar s1 v st = some (a.drop st) := by
    intro hlt
    obtain ⟨s1, h1⟩ := cview_some h v
    obtain ⟨E, t⟩ := eff_cview h hv h1
    exact ⟨s1, h1, cstrVar_from E.inv t (by rw [E.self]; exact ha) (nulFree_of hza) (by omega)⟩
  refine ⟨?_, ?_, ?_, ?_, ?_⟩
  · simp only [startsWith, hdv, hdw, Option.bind_eq_bind, Option.bind_some]
    by_cases c1 : dv.len < dw.len
    · simp [c1]
    · simp only [c1, if_false]
      rw [rd_prefix h hdv (by omega), allSome_eq ha, ← List.map_take]
      simp only [Option.bind_some, allSome_map, contentVal_eq h, hb, Option.pure_def, Option.isSome_some]
  · simp only [endsWith, hdv, hdw, Option.bind_eq_bind, Option.bind_some]
    by_cases c1 : dv.len < dw.len
    · simp [c1]
    · simp only [c1, if_false]
      have eo : dv.off + dv.len - dw.len = dv.off + (dv.len - dw.len) := by omega
      rw [eo, rd_mid h hdv (by omega), allSome_eq ha, ← List.map_drop, ← List.map_take]
      simp only [Option.bind_some, allSome_map, contentVal_eq h, hb, Option.pure_def, Option.isSome_some]
  · simp only [findSFrom, hdv, Option.bind_eq_bind, Option.bind_some]
    by_cases c1 : st ≥ dv.len
    · simp [c1]
    · obtain ⟨s1, h1, h2⟩ := fromCase (by omega)
      simp [c1, h1, h2]
  · simp only [findOneOfFrom, hdv, Option.bind_eq_bind, Option.bind_some]
    by_cases c1 : st ≥ dv.len
    · simp [c1]
    · obtain ⟨s1, h1, h2⟩ := fromCase (by omega)
      simp [c1, h1, h2]
  · simp only [findCFrom, hdv, Option.bind_eq_bind, Option.bind_some]
    by_cases c1 : st ≥ dv.len
    · simp [c1]
    · obtain ⟨s1, h1, h2⟩ := fromCase (by omega)
      simp [c1, h1, h2]

/-! ### the last queries: compareIgnoreCase(n), hash, faults of toBool / equalsIgnoreCase -/

theorem compareICN_eq {s s' : St} (h : Inv s) {v w : Nat} (hv : v < s.n) (hw : w < s.n) {r : Int} {n : Nat}
    (e : compareICN s v w n = some (s', r)) {a b : List Nat} (ha : allSome (absVar s v) = some a)
    (hb : allSome (absVar s w) = some b) (hza : ∀ x ∈ a, x ≠ 0) (hzb : ∀ x ∈ b, x ≠ 0) :
    r = strcmpL ((a.map toLower).take n) ((b.map toLower).take n) ∧ ∀ u, absVar s' u = absVar s u := by
  simp only [compareICN, Option.bind_eq_bind, Option.bind_eq_some_iff, Option.pure_def, Option.some.injEq,
    Prod.mk.injEq] at e
  obtain ⟨s1, h1, s2, h2, ca, h3, cb, h4, rfl, rfl⟩ := e
  obtain ⟨ea, eb, ab⟩ := views2 h hv hw h1 h2 ha hb hza hzb
  rw [ea] at h3; rw [eb] at h4
  injection h3 with h3; injection h4 with h4
  subst h3; subst h4
  refine ⟨strncmp_take n _ _ ?_, ab⟩
  intro x hx; obtain ⟨y, hy, rfl⟩ := List.mem_map.mp hx; exact toLower_ne_zero (hza y hy)

/-- the chars `hash` reads: the value followed by its terminator -/
theorem rd_with_term {s : St} (h : Inv s) {v : Nat} (ht : termByte s v = some (some 0)) {d : Desc}
    (hd : desc s v = some d) : rdRange s d.base d.off (d.len + 1) = some (absVar s v ++ [some 0]) := by
  have hall := rd_all h hd
  have hlen := desc_len h hd
  simp only [termByte, hd, Option.bind_eq_bind, Option.bind_some] at ht
  simp only [rdRange, Option.bind_eq_bind] at hall ⊢
  cases hm : memOf s d.base with
  | none => simp [hm] at ht
  | some mm =>
    simp only [hm, Option.bind_some, rdList] at ht hall ⊢
    split at hall
    · injection hall with hall
      have hlt : d.off + d.len < mm.length := by
        by_cases c : d.off + d.len < mm.length
        · exact c
        · rw [List.getElem?_eq_none (by omega)] at ht; cases ht
      have : d.off + (d.len + 1) ≤ mm.length := by omega
      simp only [this, if_true]
      rw [drop_split ht, hall, List.take_append, List.take_of_length_le (by omega)]
      have : d.len + 1 - (absVar s v).length = 1 := by omega
      rw [this]; rfl
    · cases hall

theorem hash_eq {s s' : St} (h : Inv s) {v : Nat} (hv : v < s.n) {r : Nat} (e : hash s v = some (s', r))
    {a : List Nat} (ha : allSome (absVar s v) = some a) :
    r = hashL a.length (a ++ [0]) ∧ ∀ u, absVar s' u = absVar s u := by
  simp only [hash, Option.bind_eq_bind, Option.bind_eq_some_iff, Option.pure_def, Option.some.injEq,
    Prod.mk.injEq] at e
  obtain ⟨s1, h1, d, hd, c, h2, cc, h3, rfl, rfl⟩ := e
  obtain ⟨E, t⟩ := eff_cview h hv h1
  rw [rd_with_term E.inv t hd, E.self, allSome_eq ha] at h2
  injection h2 with h2; subst h2
  have : List.map some a ++ [some 0] = List.map some (a ++ [0]) := by simp
  rw [this, allSome_map] at h3
  injection h3 with h3; subst h3
  have hl : d.len = a.length := by rw [desc_len E.inv hd, E.self, allSome_eq ha, List.length_map]
  rw [hl]
  exact ⟨rfl, E.silent.abs⟩

/-- the hash code depends only on the length and on the first, the middle and the last char -/
theorem hashL_depends (a b : List Nat) (hl : a.length = b.length)
    (h0 : a.getD 0 0 = b.getD 0 0) (hm : a.getD (a.length / 2) 0 = b.getD (a.length / 2) 0)
    (he : a.getD (a.length - 1) 0 = b.getD (a.length - 1) 0) :
    hashL a.length (a ++ [0]) = hashL b.length (b ++ [0]) := by
  have g : ∀ (l : List Nat) (i : Nat), i < l.length → (l ++ [0]).getD i 0 = l.getD i 0 := by
    intro l i hi
    simp only [List.getD_eq_getElem?_getD, List.getElem?_append_left hi]
  have g0 : ∀ (l : List Nat) (i : Nat), l.length = 0 → (l ++ [0]).getD i 0 = 0 := by
    intro l i hl0
    have : l = [] := List.eq_nil_of_length_eq_zero hl0
    subst this
    cases i <;> simp
  unfold hashL
  rw [← hl]
  by_cases c : a.length = 0
  · have cb : b.length = 0 := by omega
    simp only [c, ne_eq, not_true_eq_false, if_false, Nat.sub_zero, Nat.zero_div, g0 a _ c, g0 b _ cb]
  · have cb : b.length ≠ 0 := by omega
    have p0 : 0 < a.length := by omega
    have pm : a.length / 2 < a.length := Nat.div_lt_self p0 (by omega)
    have pe : a.length - 1 < a.length := by omega
    simp only [ne_eq, c, not_false_eq_true, if_true]
    rw [g a 0 p0, g b 0 (by omega), g a _ pm, g b _ (by omega), g a _ pe, g b _ (by omega), h0, hm, he]

theorem queries_total3 {s : St} (h : Inv s) {v w : Nat} (hv : v < s.n) (hw : w < s.n) {a b : List Nat}
    (ha : allSome (absVar s v) = some a) (hb : allSome (absVar s w) = some b)
    (hza : ∀ x ∈ a, x ≠ 0) (hzb : ∀ x ∈ b, x ≠ 0) :
    (toBool s v).isSome ∧ (equalsIC s v w).isSome ∧ (hash s v).isSome := by
  obtain ⟨s1, s2, h1, h2, ea, eb⟩ := views2_some h hv hw ha hb hza hzb
  obtain ⟨t1, g1, ca, cc⟩ := view1_some h hv ha hza
  obtain ⟨dv, hdv⟩ := desc_some h v
  obtain ⟨dw, hdw⟩ := desc_some h w
  obtain ⟨E, t⟩ := eff_cview h hv g1
  refine ⟨?_, ?_, ?_⟩
  · simp only [toBool, hdv, Option.bind_eq_bind, Option.bind_some, show Generated.toBoolZeroLit = [48] from rfl,
      List.length_singleton]
    by_cases l0 : dv.len = 0
    · simp [l0]
    · simp only [l0, if_false, contentVal_eq h, ha, Option.map_some]
      by_cases l1 : dv.len = 1
      · simp only [l1, if_true, Option.bind_some]
        by_cases c48 : (a == [48]) = true
        · simp [c48]
        · simp only [c48, Bool.false_eq_true, if_false, g1, Option.bind_some, contentVal_eq E.inv, E.self, ha, ca,
            Option.pure_def, Option.isSome_some]
      · simp only [l1, if_false, Option.bind_some, Bool.false_eq_true, g1, contentVal_eq E.inv, E.self, ha, ca,
          Option.pure_def, Option.isSome_some]
  · simp only [equalsIC, hdv, hdw, Option.bind_eq_bind, Option.bind_some]
    split
    · rfl
    · simp [compareIC, h1, h2, ea, eb]
  · obtain ⟨d1, hd1⟩ := desc_some E.inv v
    have : List.map some a ++ [some 0] = List.map some (a ++ [0]) := by simp
    simp only [hash, g1, hd1, Option.bind_eq_bind, Option.bind_some, rd_with_term E.inv t hd1, E.self,
      allSome_eq ha, this, allSome_map, Option.pure_def, Option.isSome_some]

end Nstd.Str
