import Nstd.Str.Model
/-!
  Heap-level lemmas of the String model: the reference-count invariant `Inv`, the uniform
  description `Rebound` of "slot `v` now points at `l`" (every reference count moves by the
  obvious ±1, a block disappears exactly with its last handle), and the invariant / frame
  lemmas of the primitives `setEmpty`, `setForeign`, `share`, `allocSet`, `writeOwn`.
-/
namespace Nstd.Str

@[simp] theorem upd_same {α} (f : Nat → α) (i x) : upd f i x i = x := by simp [upd]
@[simp] theorem upd_other {α} (f : Nat → α) (i j x) (h : j ≠ i) : upd f i x j = f j := by simp [upd, h]

/-- number of slots whose `data` is block `b` -/
def handlesOf (n : Nat) (vars : Nat → Loc) (b : Nat) : Nat :=
  (List.range n).countP (fun v => decide (vars v = .blk b))

theorem handlesOf_upd (n : Nat) (vars : Nat → Loc) (v : Nat) (x : Loc) (b : Nat) (hv : v < n) :
    handlesOf n (upd vars v x) b + (if vars v = .blk b then 1 else 0)
      = handlesOf n vars b + (if x = .blk b then 1 else 0) := by
  unfold handlesOf
  induction n with
  | zero => omega
  | succ n ih =>
    simp only [List.range_succ, List.countP_append, List.countP_cons, List.countP_nil]
    by_cases h : v < n
    · have := ih h
      have hne : n ≠ v := by omega
      simp only [upd_other _ _ _ _ hne]
      omega
    · have e : v = n := by omega
      subst e
      have same : List.countP (fun w => decide (upd vars v x w = .blk b)) (List.range v)
          = List.countP (fun w => decide (vars w = .blk b)) (List.range v) := by
        apply List.countP_congr
        intro w hw
        have : w ≠ v := by have := List.mem_range.mp hw; omega
        simp [upd_other _ _ _ _ this]
      rw [same]
      simp only [upd_same]
      by_cases h1 : vars v = .blk b <;> by_cases h2 : x = .blk b <;> simp [h1, h2]

theorem handlesOf_pos (n : Nat) (vars : Nat → Loc) (w b : Nat) (hw : w < n) (h : vars w = .blk b) :
    0 < handlesOf n vars b := by
  unfold handlesOf
  apply List.countP_pos_iff.mpr
  exact ⟨w, List.mem_range.mpr hw, by simp [h]⟩

/-- two different slots holding the same block: at least two handles -/
theorem handlesOf_two (n : Nat) (vars : Nat → Loc) (v w b : Nat) (hv : v < n) (hw : w < n) (hvw : w ≠ v)
    (h1 : vars v = .blk b) (h2 : vars w = .blk b) : 2 ≤ handlesOf n vars b := by
  have a := handlesOf_upd n vars v .empty b hv
  have : (upd vars v .empty) w = .blk b := by rw [upd_other _ _ _ _ hvw]; exact h2
  have c := handlesOf_pos n (upd vars v .empty) w b hw this
  simp only [h1, if_true, reduceCtorEq, if_false, Nat.add_zero] at a
  omega

structure Inv (s : St) : Prop where
  live : ∀ v b, s.vars v = .blk b → ∃ blk, s.heap b = some blk
  cnt : ∀ b blk, s.heap b = some blk → blk.ref = handlesOf s.n s.vars b ∧ 0 < blk.ref
  fresh : ∀ b, s.next ≤ b → s.heap b = none
  outside : ∀ v, s.n ≤ v → s.vars v = .empty
  wf : ∀ b blk, s.heap b = some blk →
    blk.bytes.length = blk.cap + 1 ∧ blk.len ≤ blk.cap ∧ blk.bytes[blk.len]? = some (some 0)
  frg : ∀ v r off len, s.vars v = .foreign r off len → off + len < (s.regs r).length

theorem Inv.lt_n {s : St} (h : Inv s) {v b : Nat} (hv : s.vars v = .blk b) : v < s.n := by
  by_cases c : v < s.n
  · exact c
  · have := h.outside v (by omega)
    rw [this] at hv; cases hv

theorem Inv.bound {s : St} (h : Inv s) {v b : Nat} (hv : s.vars v = .blk b) : b < s.next := by
  by_cases c : b < s.next
  · exact c
  · obtain ⟨blk, hb⟩ := h.live v b hv
    have := h.fresh b (by omega)
    rw [this] at hb; cases hb

theorem inv_init (n : Nat) (regs : Nat → List Nat) : Inv (init n regs) := by
  constructor <;> intros <;> simp_all [init]

/-! ### rebinding a slot -/

def refAfter (s : St) (v : Nat) (l : Loc) (c r : Nat) : Nat :=
  r + (if l = .blk c then 1 else 0) - (if s.vars v = .blk c then 1 else 0)

def rebindHeap (s : St) (v : Nat) (l : Loc) (c : Nat) : Option Block :=
  match s.heap c with
  | none => none
  | some blk =>
    if refAfter s v l c blk.ref = 0 then none else some { blk with ref := refAfter s v l c blk.ref }

/-- `s'` is `s` with slot `v` pointing at `l` and all reference counts adjusted -/
structure Rebound (s s' : St) (v : Nat) (l : Loc) : Prop where
  n : s'.n = s.n
  next : s'.next = s.next
  regs : s'.regs = s.regs
  vars : s'.vars = upd s.vars v l
  heap : ∀ c, s'.heap c = rebindHeap s v l c

theorem refAfter_eq {s : St} (h : Inv s) {v : Nat} (hv : v < s.n) (l : Loc) {c : Nat} {blk : Block}
    (hb : s.heap c = some blk) : refAfter s v l c blk.ref = handlesOf s.n (upd s.vars v l) c := by
  have a := handlesOf_upd s.n s.vars v l c hv
  have b := (h.cnt c blk hb).1
  unfold refAfter
  omega

theorem Rebound.inv {s s' : St} {v : Nat} {l : Loc} (h : Inv s) (hv : v < s.n) (R : Rebound s s' v l)
    (hl : ∀ c, l = .blk c → ∃ blk, s.heap c = some blk)
    (hf : ∀ r off len, l = .foreign r off len → off + len < (s.regs r).length) : Inv s' := by
  constructor
  · intro w c hw
    rw [R.vars] at hw
    have hwn : w < s.n := by
      by_cases e : w = v
      · subst e; exact hv
      · rw [upd_other _ _ _ _ e] at hw; exact h.lt_n hw
    have hblk : ∃ blk, s.heap c = some blk := by
      by_cases e : w = v
      · subst e; rw [upd_same] at hw; exact hl c hw
      · rw [upd_other _ _ _ _ e] at hw; exact h.live w c hw
    obtain ⟨blk, hb⟩ := hblk
    have pos := handlesOf_pos s.n (upd s.vars v l) w c hwn hw
    have := refAfter_eq h hv l hb
    rw [R.heap c]
    simp only [rebindHeap, hb]
    have hne : ¬ refAfter s v l c blk.ref = 0 := by omega
    simp only [hne, if_false]
    exact ⟨_, rfl⟩
  · intro c blk' hc
    rw [R.heap c] at hc
    simp only [rebindHeap] at hc
    cases hb : s.heap c with
    | none => simp [hb] at hc
    | some blk =>
      simp only [hb] at hc
      by_cases hz : refAfter s v l c blk.ref = 0
      · simp [hz] at hc
      · simp only [hz, if_false, Option.some.injEq] at hc
        subst hc
        have := refAfter_eq h hv l hb
        simp only [R.n, R.vars]
        omega
  · intro c hc
    rw [R.heap c, rebindHeap, h.fresh c (by rw [R.next] at hc; exact hc)]
  · intro w hw
    rw [R.n] at hw
    have e : w ≠ v := by omega
    rw [R.vars, upd_other _ _ _ _ e]
    exact h.outside w hw
  · intro c blk' hc
    rw [R.heap c] at hc
    simp only [rebindHeap] at hc
    cases hb : s.heap c with
    | none => simp [hb] at hc
    | some blk =>
      simp only [hb] at hc
      by_cases hz : refAfter s v l c blk.ref = 0
      · simp [hz] at hc
      · simp only [hz, if_false, Option.some.injEq] at hc
        subst hc
        exact h.wf c blk hb
  · intro w r off len hw
    rw [R.vars] at hw
    rw [R.regs]
    by_cases e : w = v
    · subst e; rw [upd_same] at hw; exact hf r off len hw
    · rw [upd_other _ _ _ _ e] at hw; exact h.frg w r off len hw

/-- the chars other slots see do not change -/
theorem Rebound.abs_other {s s' : St} {v : Nat} {l : Loc} (h : Inv s) (hv : v < s.n) (R : Rebound s s' v l)
    {w : Nat} (hw : w ≠ v) : absVar s' w = absVar s w := by
  unfold absVar
  rw [R.vars, upd_other _ _ _ _ hw, R.regs]
  cases hloc : s.vars w with
  | empty => rfl
  | foreign r off len => rfl
  | blk c =>
    simp only
    obtain ⟨blk, hb⟩ := h.live w c hloc
    have hwn := h.lt_n hloc
    have hw' : upd s.vars v l w = .blk c := by rw [upd_other _ _ _ _ hw]; exact hloc
    have pos := handlesOf_pos s.n (upd s.vars v l) w c hwn hw'
    have := refAfter_eq h hv l hb
    rw [R.heap c]
    simp only [rebindHeap, hb]
    have hne : ¬ refAfter s v l c blk.ref = 0 := by omega
    simp only [hne, if_false]

/-! ### the primitives are rebindings -/

theorem rebindHeap_id {s : St} (h : Inv s) {v : Nat} {l : Loc} {c : Nat}
    (h1 : l ≠ .blk c) (h2 : s.vars v ≠ .blk c) : rebindHeap s v l c = s.heap c := by
  unfold rebindHeap
  cases hb : s.heap c with
  | none => rfl
  | some blk =>
    have := (h.cnt c blk hb).2
    have e : refAfter s v l c blk.ref = blk.ref := by simp [refAfter, h1, h2]
    simp only [e]
    have : ¬ blk.ref = 0 := by omega
    simp only [this, if_false]

theorem release_heap {s : St} (h : Inv s) (v : Nat) (l : Loc) (hl : ∀ c, l ≠ .blk c) (c : Nat) :
    (release s v).heap c = rebindHeap s v l c := by
  unfold release
  cases hloc : s.vars v with
  | empty => simp only; rw [rebindHeap_id h (hl c) (by rw [hloc]; simp)]
  | foreign r off len => simp only; rw [rebindHeap_id h (hl c) (by rw [hloc]; simp)]
  | blk b =>
    simp only
    obtain ⟨blk0, hb0⟩ := h.live v b hloc
    have pos := (h.cnt b blk0 hb0).2
    simp only [hb0]
    by_cases e : c = b
    · subst e
      have hr : refAfter s v l c blk0.ref = blk0.ref - 1 := by simp [refAfter, hl c, hloc]
      by_cases r1 : blk0.ref = 1
      · simp only [r1, if_true, upd_same, rebindHeap, hb0, refAfter, hl c, hloc, if_false]
      · simp only [r1, if_false, upd_same, rebindHeap, hb0, hr]
        have : ¬ blk0.ref - 1 = 0 := by omega
        simp only [this, if_false]
    · have h2 : s.vars v ≠ .blk c := by rw [hloc]; intro x; injection x with x; exact e x.symm
      rw [rebindHeap_id h (hl c) h2]
      by_cases r1 : blk0.ref = 1
      · simp only [r1, if_true, upd_other _ _ _ _ e]
      · simp only [r1, if_false, upd_other _ _ _ _ e]

theorem release_fields (s : St) (v : Nat) :
    (release s v).n = s.n ∧ (release s v).next = s.next ∧ (release s v).regs = s.regs ∧ (release s v).vars = s.vars := by
  unfold release
  cases s.vars v with
  | empty => simp
  | foreign r off len => simp
  | blk b =>
    simp only
    cases s.heap b with
    | none => simp
    | some blk => by_cases r1 : blk.ref = 1 <;> simp [r1]

/-- `setEmpty` / `setForeign`: release and point at something that is not a block -/
theorem rebound_setVar_release {s : St} (h : Inv s) (v : Nat) (l : Loc) (hl : ∀ c, l ≠ .blk c) :
    Rebound s (setVar (release s v) v l) v l := by
  obtain ⟨a, b, c, d⟩ := release_fields s v
  exact ⟨a, b, c, by simp [setVar, d], fun c => by simp only [setVar]; exact release_heap h v l hl c⟩

theorem rebound_setEmpty {s : St} (h : Inv s) (v : Nat) : Rebound s (setEmpty s v) v .empty :=
  rebound_setVar_release h v .empty (by intro c; simp)

theorem rebound_setForeign {s : St} (h : Inv s) (v r off len : Nat) :
    Rebound s (setForeign s v r off len) v (.foreign r off len) :=
  rebound_setVar_release h v _ (by intro c; simp)

theorem rebound_share {s s' : St} (h : Inv s) {v b : Nat} (e : share s v b = some s') :
    Rebound s s' v (.blk b) := by
  unfold share at e
  cases hb : s.heap b with
  | none => simp [hb] at e
  | some blk =>
    simp only [hb, Option.some.injEq] at e
    subst e
    have pos := (h.cnt b blk hb).2
    -- fields
    refine ⟨?_, ?_, ?_, ?_, ?_⟩
    · simp [setVar, (release_fields _ v).1]
    · simp [setVar, (release_fields _ v).2.1]
    · simp [setVar, (release_fields _ v).2.2.1]
    · simp [setVar, (release_fields _ v).2.2.2]
    · intro c
      simp only [setVar]
      unfold release
      simp only
      cases hloc : s.vars v with
      | empty =>
        simp only
        by_cases ec : c = b
        · subst ec; simp [rebindHeap, hb, refAfter, hloc]
        · rw [upd_other _ _ _ _ ec, rebindHeap_id h (by intro x; injection x with x; exact ec x.symm) (by rw [hloc]; simp)]
      | foreign r off len =>
        simp only
        by_cases ec : c = b
        · subst ec; simp [rebindHeap, hb, refAfter, hloc]
        · rw [upd_other _ _ _ _ ec, rebindHeap_id h (by intro x; injection x with x; exact ec x.symm) (by rw [hloc]; simp)]
      | blk b0 =>
        simp only
        by_cases eb : b0 = b
        · subst eb
          simp only [upd_same]
          have : ¬ blk.ref + 1 = 1 := by omega
          simp only [this, if_false]
          by_cases ec : c = b0
          · subst ec
            simp only [upd_same, rebindHeap, hb, refAfter, hloc, if_true]
            have e2 : blk.ref + 1 - 1 = blk.ref := by omega
            have : ¬ blk.ref = 0 := by omega
            simp [e2, this]
          · rw [upd_other _ _ _ _ ec, upd_other _ _ _ _ ec,
              rebindHeap_id h (by intro x; injection x with x; exact ec x.symm)
                (by rw [hloc]; intro x; injection x with x; exact ec x.symm)]
        · obtain ⟨blk0, hb0⟩ := h.live v b0 hloc
          have pos0 := (h.cnt b0 blk0 hb0).2
          simp only [upd_other _ _ _ _ eb, hb0]
          by_cases ec : c = b
          · subst ec
            have ne : c ≠ b0 := fun x => eb x.symm
            have hv2 : ¬ (Loc.blk b0 = Loc.blk c) := by intro x; injection x with x; exact eb x
            by_cases r1 : blk0.ref = 1
            · simp only [r1, if_true, upd_other _ _ _ _ ne, upd_same, rebindHeap, hb, refAfter, hloc, hv2, if_false]
              simp
            · simp only [r1, if_false, upd_other _ _ _ _ ne, upd_same, rebindHeap, hb, refAfter, hloc, hv2]
              simp
          · by_cases ec0 : c = b0
            · subst ec0
              have hl2 : ¬ (Loc.blk b = Loc.blk c) := by intro x; injection x with x; exact ec x.symm
              by_cases r1 : blk0.ref = 1
              · simp only [r1, if_true, upd_same, rebindHeap, hb0, refAfter, hloc, hl2, if_false]
              · simp only [r1, if_false, upd_same, rebindHeap, hb0, refAfter, hloc, hl2, if_true]
                have : ¬ blk0.ref + 0 - 1 = 0 := by omega
                simp only [this, if_false]
                simp
            · have h1 : Loc.blk b ≠ Loc.blk c := by intro x; injection x with x; exact ec x.symm
              have h2 : s.vars v ≠ Loc.blk c := by rw [hloc]; intro x; injection x with x; exact ec0 x.symm
              rw [rebindHeap_id h h1 h2]
              by_cases r1 : blk0.ref = 1
              · simp only [r1, if_true, upd_other _ _ _ _ ec0, upd_other _ _ _ _ ec]
              · simp only [r1, if_false, upd_other _ _ _ _ ec0, upd_other _ _ _ _ ec]

end Nstd.Str
