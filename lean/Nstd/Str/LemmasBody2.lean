import Nstd.Str.PropsBody
import Nstd.Str.LemmasOps
/-! Helper lemmas for `PropsBody2.lean` (translated `prepend`, … against the model; these need the full heap invariant). -/
set_option linter.unusedSimpArgs false
namespace Nstd.Str
open Mach Generated

/-- an exclusively owned block is held by one slot only -/
theorem excl_other {s : St} (h : Inv s) {v u b : Nat} {blk : Block} (hv : s.vars v = .blk b) (hb : s.heap b = some blk)
    (r1 : blk.ref = 1) (hu : u ≠ v) : s.vars u ≠ .blk b := by
  intro hub
  have := (h.cnt b blk hb).1
  have two := handlesOf_two s.n s.vars v u b (h.lt_n hv) (h.lt_n hub) hu hv hub
  omega

theorem desc_base_ne {s : St} {u b : Nat} {d : Desc} (hu : s.vars u ≠ .blk b) (hd : desc s u = some d) : d.base ≠ .blk b := by
  unfold desc at hd
  cases hloc : s.vars u with
  | empty => simp [hloc] at hd; subst hd; simp
  | foreign r off len => simp [hloc] at hd; subst hd; simp
  | blk b2 =>
    cases hb2 : s.heap b2 with
    | none => simp [hloc, hb2] at hd
    | some k => simp [hloc, hb2] at hd; subst hd; simp; intro e; subst e; exact hu hloc

theorem desc_upd_other {s : St} {u b : Nat} (x : Option Block) (hu : s.vars u ≠ .blk b) :
    desc { s with heap := upd s.heap b x } u = desc s u := by
  unfold desc
  cases hloc : s.vars u with
  | empty => rfl
  | foreign r off len => rfl
  | blk b2 =>
    have : b2 ≠ b := by intro e; subst e; exact hu hloc
    simp [upd, this]

theorem rdRange_upd_other {s : St} {b : Nat} (x : Option Block) {base : Base} (hb : base ≠ .blk b) (off n : Nat) :
    rdRange { s with heap := upd s.heap b x } base off n = rdRange s base off n := by
  unfold rdRange memOf
  cases base with
  | nul => rfl
  | reg r => rfl
  | blk b2 =>
    have : b2 ≠ b := by intro e; subst e; exact hb rfl
    simp [upd, this]

theorem rdRange_length {s : St} {base : Base} {off n : Nat} {a : List Byte} (h : rdRange s base off n = some a) : a.length = n := by
  unfold rdRange at h
  cases hm : memOf s base with
  | none => simp [hm] at h
  | some m => simp [hm] at h; exact rdList_length h

theorem dLen_upd_other (s : St) {b : Nat} (x : Option Block) {l : Loc} (hl : l ≠ .blk b) :
    dLen { s with heap := upd s.heap b x } l = dLen s l := by
  cases l with
  | empty => rfl
  | foreign r off len => rfl
  | blk b2 => have : b2 ≠ b := by intro e; subst e; exact hl rfl
              simp [dLen, upd, this]

theorem dStr_upd_other (s : St) {b : Nat} (x : Option Block) {l : Loc} (hl : l ≠ .blk b) :
    dStr { s with heap := upd s.heap b x } l = dStr s l := by
  cases l with
  | empty => rfl
  | foreign r off len => rfl
  | blk b2 => have : b2 ≠ b := by intro e; subst e; exact hl rfl
              simp [dStr, upd, this]

theorem dStr_upd_same (s : St) (b : Nat) (x : Block) :
    dStr { s with heap := upd s.heap b (some x) } (.blk b) = some ⟨.blk b, 0⟩ := by
  simp [dStr, upd]

theorem sane_upd_live {s : St} (h : Sane s) {b : Nat} {blk blk' : Block} (hb : s.heap b = some blk) (hr : blk'.ref = blk.ref) :
    Sane { s with heap := upd s.heap b (some blk') } := by
  have hne : s.next ≠ b := by intro e; rw [← e, h.fresh] at hb; cases hb
  refine ⟨by simp [upd, hne, h.fresh], ?_, ?_⟩
  · intro c k hk
    by_cases e : c = b
    · subst e; simp [upd] at hk; subst hk; rw [hr]; exact h.pos _ _ hb
    · simp [upd, e] at hk; exact h.pos _ _ hk
  · intro v c hv
    by_cases e : c = b
    · subst e; simp [upd]
    · simp [upd, e]; exact h.live v c hv

open Lean.Parser.Tactic in
macro "pre_simp" "[" ts:simpLemma,* "]" : tactic =>
  `(tactic| simp [desc, rdRange, memOf, padd, setLen, updBlk, storeChar, upd_upd_same, Option.bind_assoc, writeOwn, Body.dtor,
      dRef, dLen, dStr, memCopy, endLife, setEmpty, release, setVar, atomicDec, deleteData, content, putFront, $ts,*])


theorem dec_beq0 (n : Nat) : decide (n = 0) = (n == 0) := by cases n <;> simp

theorem findIdx?_cons_shift (p : Nat → Bool) (x : Nat) (l : List Nat) :
    (x :: l).findIdx? p = if p x then some 0 else (l.findIdx? p).map (· + 1) := by
  simp [List.findIdx?_cons]

/-- the loop of `find(char)` from index `k` on -/
theorem findC_loop_spec (s : St) (v c : Nat) (base : Base) (off : Nat) (a : List Nat)
    (hread : ∀ i, i < a.length → rdVal s base (off + i) = some (a.getD i 0)) :
    ∀ (n k fuel : Nat), k + n = a.length → n < fuel →
      Body.findC_loop1 fuel s v c ⟨base, off + k⟩ ⟨base, off + a.length⟩
        = some (((a.drop k).findIdx? (· == c)).map (fun i => (⟨base, off + k + i⟩ : CPtr))) := by
  intro n
  induction n with
  | zero =>
    intro k fuel hk hf
    cases fuel with
    | zero => omega
    | succ fuel =>
      have : k = a.length := by omega
      subst this
      simp [Body.findC_loop1]
  | succ n ih =>
    intro k fuel hk hf
    cases fuel with
    | zero => omega
    | succ fuel =>
      have hlt : k < a.length := by omega
      have hr := hread k hlt
      have hd : a.drop k = a.getD k 0 :: a.drop (k + 1) := by
        rw [List.drop_eq_getElem_cons hlt]; simp [List.getD, List.getElem?_eq_getElem hlt]
      obtain ⟨x, hx⟩ : ∃ x, a.getD k 0 = x := ⟨_, rfl⟩
      rw [hx] at hr hd
      rw [hd, findIdx?_cons_shift]
      have ih' := ih (k + 1) fuel (by omega) (by omega)
      unfold Body.findC_loop1
      simp only [show off + k < off + a.length by omega, if_true, loadChar, Nat.add_zero, hr, Option.bind_eq_bind,
        Option.bind_some, Option.pure_def, padd]
      by_cases e : x = c
      · simp [e]
      · have e' : (x == c) = false := by simp [e]
        simp only [e, if_false, e', Bool.false_eq_true]
        rw [show off + k + 1 = off + (k + 1) by omega, ih']
        cases (a.drop (k + 1)).findIdx? (· == c) with
        | none => simp
        | some i => simp; omega


theorem memcmpL_eq_zero : ∀ (a b : List Nat), a.length = b.length → (memcmpL a b = 0 ↔ a = b)
  | [], [], _ => by simp [memcmpL]
  | [], _ :: _, h => by simp at h
  | _ :: _, [], h => by simp at h
  | x :: xs, y :: ys, h => by
    have ih := memcmpL_eq_zero xs ys (by simpa using h)
    by_cases e : x = y
    · simp [memcmpL, e, ih]
    · simp [memcmpL, e]; omega

theorem allSome_length {a : List Byte} {c : List Nat} (h : allSome a = some c) : c.length = a.length := by
  rw [allSome_eq h, List.length_map]

/-- `Memory::compare(p, q, n) == 0` decides the equality of the two ranges -/
theorem memCompare_eq {α : Type} (g : Bool → α) (s : St) (p q : CPtr) (n : Nat) :
    (memCompare s p q n).bind (fun r => some (g (decide (r = 0)))) = (do
      let a ← rdRange s p.base p.off n
      let a ← allSome a
      let b ← rdRange s q.base q.off n
      let b ← allSome b
      pure (g (a == b))) := by
  unfold memCompare
  cases ha : rdRange s p.base p.off n with
  | none => simp
  | some a0 =>
    cases ha' : allSome a0 with
    | none => simp [ha']
    | some a =>
      cases hb : rdRange s q.base q.off n with
      | none => simp [ha']
      | some b0 =>
        cases hb' : allSome b0 with
        | none => simp [ha', hb']
        | some b =>
          have hl : a.length = b.length := by
            rw [allSome_length ha', allSome_length hb', rdRange_length ha, rdRange_length hb]
          simp only [ha', hb', Option.bind_eq_bind, Option.bind_some, Option.pure_def, memcmpL_eq_zero a b hl]
          congr 2
          by_cases e : a = b <;> simp [e]


end Nstd.Str
