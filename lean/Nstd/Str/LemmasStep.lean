import Nstd.Str.LemmasNew
/-!
  One step of the line protocol (`step`): for every operation the effect is confined to the
  target variable, and for the operations `Spec.newVal` specifies the new value is the specified one.
-/
namespace Nstd.Str

/-- the invariant of the reachable states: heap invariant + the temporaries are empty between calls -/
structure Good (s : St) : Prop where
  inv : Inv s
  temps : ∀ u, userVars s ≤ u → absVar s u = []

theorem valid_facts {s : St} {v : Nat} (hv : validVar s v = true) :
    v < s.n ∧ v ≠ userVars s ∧ v ≠ userVars s + 1 ∧ v ≠ userVars s + 2 ∧
      userVars s < s.n ∧ userVars s + 1 < s.n ∧ userVars s + 2 < s.n := by
  have : v < s.n - 3 := by
    unfold validVar userVars at hv
    exact of_decide_eq_true hv
  simp only [userVars]
  omega

theorem good_init (n : Nat) (regs : Nat → List Nat) : Good (init n regs) :=
  ⟨inv_init n regs, fun _ _ => by simp [absVar, init]⟩

/-- what one call does: an effect on the target, with the specified value where there is a specification -/
def StepOk (s s' : St) (op : Op) : Prop :=
  ∃ val, Eff s s' op.target val ∧ ∀ x, Spec.newVal s.regs (absVar s) op = some x → val = x

theorem ok_of {s s' : St} {op : Op} {val : List Byte} (E : Eff s s' op.target val)
    (hx : ∀ x, Spec.newVal s.regs (absVar s) op = some x → val = x) : StepOk s s' op := ⟨val, E, hx⟩

theorem ok_unspec {s s' : St} {op : Op} (E : ∃ val, Eff s s' op.target val)
    (hx : Spec.newVal s.regs (absVar s) op = none) : StepOk s s' op := by
  obtain ⟨val, E⟩ := E
  exact ⟨val, E, fun x h => by rw [hx] at h; cases h⟩

theorem allSome_map : ∀ (c : List Nat), allSome (c.map some) = some c
  | [] => rfl
  | x :: t => by simp only [List.map_cons, allSome, allSome_map t, Option.map_some]

theorem step_ok {s s' : St} (g : Good s) {op : Op} (e : step s op = some s') : StepOk s s' op := by
  have h := g.inv
  have T := g.temps
  cases op with
  | ctorEmpty v =>
    simp only [step] at e
    split at e
    · rename_i c; have V := valid_facts c
      injection e with e; subst e
      exact ok_of (eff_setEmpty h V.1) (by intro x hx; simp only [Spec.newVal, Option.some.injEq] at hx; exact hx)
    · cases e
  | attach v r off len =>
    simp only [step] at e
    split at e
    · rename_i c; have V := valid_facts c.1
      injection e with e; subst e
      exact ok_of (eff_attach h V.1 c.2) (by intro x hx; simp only [Spec.newVal, Option.some.injEq] at hx; exact hx)
    · cases e
  | ctorCopy v w =>
    simp only [step] at e
    split at e
    · rename_i c; have V := valid_facts c.1
      have E0 := eff_setEmpty h V.1
      have E1 := eff_ctorCopy E0.inv (by rw [E0.n]; exact V.1) e
      rw [E0.other w (fun x => c.2.2 x.symm)] at E1
      exact ok_of (E0.trans E1) (by intro x hx; simp only [Spec.newVal, Option.some.injEq] at hx; exact hx)
    · cases e
  | ctorPtr v src =>
    simp only [step] at e
    split at e
    · rename_i c; have V := valid_facts c
      have E0 := eff_setEmpty h V.1
      have E1 := eff_ctorPtr E0.inv (by rw [E0.n]; exact V.1) e
      exact ok_of (E0.trans E1) (by intro x hx; simp only [Spec.newVal, Option.some.injEq] at hx; exact hx)
    · cases e
  | ctorFill v n c =>
    simp only [step] at e
    split at e
    · rename_i c; have V := valid_facts c
      have E0 := eff_setEmpty h V.1
      have E1 := eff_ctorFill E0.inv (by rw [E0.n]; exact V.1) e
      exact ok_of (E0.trans E1) (by intro x hx; simp only [Spec.newVal, Option.some.injEq] at hx; exact hx)
    · cases e
  | ctorCap v cap =>
    simp only [step] at e
    split at e
    · rename_i c; have V := valid_facts c
      have E0 := eff_setEmpty h V.1
      have E1 := eff_ctorCap E0.inv (by rw [E0.n]; exact V.1) e
      exact ok_of (E0.trans E1) (by intro x hx; simp only [Spec.newVal, Option.some.injEq] at hx; exact hx)
    · cases e
  | assign v w =>
    simp only [step] at e
    split at e
    · rename_i c; have V := valid_facts c.1
      exact ok_of (eff_assign h V.1 e) (by intro x hx; simp only [Spec.newVal, Option.some.injEq] at hx; exact hx)
    · cases e
  | clear v =>
    simp only [step] at e
    split at e
    · rename_i c; have V := valid_facts c
      exact ok_of (eff_clear h V.1 e) (by intro x hx; simp only [Spec.newVal, Option.some.injEq] at hx; exact hx)
    · cases e
  | detach v =>
    simp only [step] at e
    split at e
    · rename_i c; have V := valid_facts c
      exact ok_of (eff_mview h V.1 e).1 (by intro x hx; simp only [Spec.newVal, Option.some.injEq] at hx; exact hx)
    · cases e
  | cview v =>
    simp only [step] at e
    split at e
    · rename_i c; have V := valid_facts c
      exact ok_of (eff_cview h V.1 e).1 (by intro x hx; simp only [Spec.newVal, Option.some.injEq] at hx; exact hx)
    · cases e
  | resize v n =>
    simp only [step] at e
    split at e
    · rename_i c; have V := valid_facts c
      exact ok_of (eff_resize h V.1 e) (by intro x hx; simp only [Spec.newVal, Option.some.injEq] at hx; exact hx)
    · cases e
  | reserve v n =>
    simp only [step] at e
    split at e
    · rename_i c; have V := valid_facts c
      exact ok_of (eff_reserve h V.1 e) (by intro x hx; simp only [Spec.newVal, Option.some.injEq] at hx; exact hx)
    · cases e
  | fillFrom v f c =>
    simp only [step] at e
    split at e
    · rename_i c; have V := valid_facts c
      exact ok_of (eff_fillFrom h V.1 e) (by intro x hx; simp only [Spec.newVal, Option.some.injEq] at hx; exact hx)
    · cases e
  | appendS v w =>
    simp only [step] at e
    split at e
    · rename_i c; have V := valid_facts c.1
      exact ok_of (eff_appendS h V.1 e) (by intro x hx; simp only [Spec.newVal, Option.some.injEq] at hx; exact hx)
    · cases e
  | appendP v src =>
    simp only [step] at e
    split at e
    · rename_i c; have V := valid_facts c
      exact ok_of (eff_appendP h V.1 e) (by intro x hx; simp only [Spec.newVal, Option.some.injEq] at hx; exact hx)
    · cases e
  | appendC v ch =>
    simp only [step] at e
    split at e
    · rename_i c; have V := valid_facts c
      exact ok_of (eff_appendC h V.1 e) (by intro x hx; simp only [Spec.newVal, Option.some.injEq] at hx; exact hx)
    · cases e
  | prependS v w =>
    simp only [step] at e
    split at e
    · rename_i c; have V := valid_facts c.1; have Vw := valid_facts c.2
      exact ok_of (eff_prependS h V.1 V.2.2.2.2.1 V.2.1 Vw.2.1 (T _ (Nat.le_refl _)) e)
        (by intro x hx; simp only [Spec.newVal, Option.some.injEq] at hx; exact hx)
    · cases e
  | prependP v src =>
    simp only [step] at e
    split at e
    · rename_i c; have V := valid_facts c
      exact ok_of (eff_prependP h V.1 V.2.2.2.2.1 V.2.1 (T _ (Nat.le_refl _)) e)
        (by intro x hx; simp only [Spec.newVal, Option.some.injEq] at hx; exact hx)
    · cases e
  | replaceC v a b =>
    simp only [step] at e
    split at e
    · rename_i c; have V := valid_facts c
      exact ok_of (eff_mapChars h V.1 e) (by
        intro x hx
        simp only [Spec.newVal] at hx
        cases ha : allSome (absVar s v) with
        | none => rw [ha] at hx; cases hx
        | some cc => rw [ha] at hx; simp only [Option.map_some, Option.some.injEq] at hx; exact hx)
    · cases e
  | lower v =>
    simp only [step] at e
    split at e
    · rename_i c; have V := valid_facts c
      exact ok_of (eff_mapChars h V.1 e) (by
        intro x hx
        simp only [Spec.newVal] at hx
        cases ha : allSome (absVar s v) with
        | none => rw [ha] at hx; cases hx
        | some cc => rw [ha] at hx; simp only [Option.map_some, Option.some.injEq] at hx; exact hx)
    · cases e
  | upper v =>
    simp only [step] at e
    split at e
    · rename_i c; have V := valid_facts c
      exact ok_of (eff_mapChars h V.1 e) (by
        intro x hx
        simp only [Spec.newVal] at hx
        cases ha : allSome (absVar s v) with
        | none => rw [ha] at hx; cases hx
        | some cc => rw [ha] at hx; simp only [Option.map_some, Option.some.injEq] at hx; exact hx)
    · cases e
  | substr v w st ln =>
    simp only [step] at e
    split at e
    · rename_i c; have V := valid_facts c.1
      exact ok_of (eff_substr h V.1 V.2.2.2.2.1 V.2.1 (T _ (Nat.le_refl _)) e)
        (by intro x hx; simp only [Spec.newVal, Option.some.injEq] at hx; exact hx)
    · cases e
  | trim v chars =>
    simp only [step] at e
    split at e
    · rename_i c; have V := valid_facts c
      obtain ⟨c', hc', E⟩ := eff_trim h V.1 V.2.2.2.2.1 V.2.1 (T _ (Nat.le_refl _)) e
      exact ok_of E (by
        intro x hx
        simp only [Spec.newVal, Op.target, hc', Option.map_some, Option.some.injEq] at hx
        exact hx)
    · cases e
  | tokenC v w sep st =>
    simp only [step] at e
    split at e
    · rename_i c; have V := valid_facts c.1; have Vw := valid_facts c.2
      simp only [Option.map_eq_some_iff] at e
      obtain ⟨⟨s2, r⟩, e, rfl⟩ := e
      cases hc : allSome (absVar s w) with
      | none =>
        -- outside the specification; the call is still confined to its target
        simp only [tokenC, Option.bind_eq_bind, Option.bind_eq_some_iff] at e
        obtain ⟨⟨s1, f⟩, h1, d, hd, e⟩ := e
        have S := silent_findCFrom h Vw.1 h1
        have e2 : ∃ src, assignTemp s1 v src (userVars s) = some s2 := by
          cases f with
          | none =>
            simp only [Option.bind_eq_some_iff, Option.pure_def, Option.some.injEq, Prod.mk.injEq] at e
            obtain ⟨src, _, s3, h3, rfl, _⟩ := e; exact ⟨src, h3⟩
          | some f =>
            simp only [Option.bind_eq_some_iff, Option.pure_def, Option.some.injEq, Prod.mk.injEq] at e
            obtain ⟨src, _, s3, h3, rfl, _⟩ := e; exact ⟨src, h3⟩
        obtain ⟨src, e2⟩ := e2
        exact ok_unspec ⟨_, S.andThen (eff_assignTemp S.inv (by rw [S.n]; exact V.1) (by rw [S.n]; exact V.2.2.2.2.1) V.2.1
          (by rw [S.abs]; exact T _ (Nat.le_refl _)) e2)⟩ (by simp [Spec.newVal, hc])
      | some cc =>
        by_cases hz : 0 ∉ cc
        · exact ok_of (eff_tokenC h V.1 Vw.1 V.2.2.2.2.1 V.2.1 (T _ (Nat.le_refl _)) hc hz e) (by
            intro x hx
            simp only [Spec.newVal, hc, Option.bind_some, hz, not_false_eq_true, if_true, Option.some.injEq] at hx
            exact hx)
        · simp only [tokenC, Option.bind_eq_bind, Option.bind_eq_some_iff] at e
          obtain ⟨⟨s1, f⟩, h1, d, hd, e⟩ := e
          have S := silent_findCFrom h Vw.1 h1
          have e2 : ∃ src, assignTemp s1 v src (userVars s) = some s2 := by
            cases f with
            | none =>
              simp only [Option.bind_eq_some_iff, Option.pure_def, Option.some.injEq, Prod.mk.injEq] at e
              obtain ⟨src, _, s3, h3, rfl, _⟩ := e; exact ⟨src, h3⟩
            | some f =>
              simp only [Option.bind_eq_some_iff, Option.pure_def, Option.some.injEq, Prod.mk.injEq] at e
              obtain ⟨src, _, s3, h3, rfl, _⟩ := e; exact ⟨src, h3⟩
          obtain ⟨src, e2⟩ := e2
          exact ok_unspec ⟨_, S.andThen (eff_assignTemp S.inv (by rw [S.n]; exact V.1) (by rw [S.n]; exact V.2.2.2.2.1) V.2.1
            (by rw [S.abs]; exact T _ (Nat.le_refl _)) e2)⟩ (by simp [Spec.newVal, hc, hz])
    · cases e
  | tokenS v w seps st =>
    simp only [step] at e
    split at e
    · rename_i c; have V := valid_facts c.1; have Vw := valid_facts c.2
      simp only [Option.map_eq_some_iff] at e
      obtain ⟨⟨s2, r⟩, e, rfl⟩ := e
      have generic : ∃ val, Eff s s2 v val := by
        simp only [tokenS, Option.bind_eq_bind, Option.bind_eq_some_iff] at e
        obtain ⟨s1, h1, hh, _, d, hd, e⟩ := e
        have S := silent_cview h Vw.1 h1
        have e2 : ∃ src, assignTemp s1 v src (userVars s) = some s2 := by
          cases hf : strpbrkL hh seps with
          | none =>
            simp only [hf, Option.bind_eq_some_iff, Option.pure_def, Option.some.injEq, Prod.mk.injEq] at e
            obtain ⟨src, _, s3, h3, rfl, _⟩ := e; exact ⟨src, h3⟩
          | some f =>
            simp only [hf, Option.bind_eq_some_iff, Option.pure_def, Option.some.injEq, Prod.mk.injEq] at e
            obtain ⟨src, _, s3, h3, rfl, _⟩ := e; exact ⟨src, h3⟩
        obtain ⟨src, e2⟩ := e2
        exact ⟨_, S.andThen (eff_assignTemp S.inv (by rw [S.n]; exact V.1) (by rw [S.n]; exact V.2.2.2.2.1) V.2.1
          (by rw [S.abs]; exact T _ (Nat.le_refl _)) e2)⟩
      cases hc : allSome (absVar s w) with
      | none => exact ok_unspec generic (by simp [Spec.newVal, hc])
      | some cc =>
        by_cases hz : 0 ∉ cc ∧ st ≤ cc.length
        · exact ok_of (eff_tokenS h V.1 Vw.1 V.2.2.2.2.1 V.2.1 (T _ (Nat.le_refl _)) hc hz.1 hz.2 e) (by
            intro x hx
            simp only [Spec.newVal, hc, Option.bind_some, hz, not_false_eq_true, and_self, if_true,
              Option.some.injEq] at hx
            exact hx)
        · exact ok_unspec generic (by simp only [Spec.newVal, hc, Option.bind_some, hz, if_false])
    · cases e
  | join v toks sep =>
    simp only [step] at e
    split at e
    · rename_i c; have V := valid_facts c
      exact ok_of (eff_join h V.1 e) (by intro x hx; simp only [Spec.newVal, Option.some.injEq] at hx; exact hx)
    · cases e
  | replaceS v wn wr_ =>
    simp only [step] at e
    split at e
    · rename_i c; have V := valid_facts c.1; have Vn := valid_facts c.2.1; have Vr := valid_facts c.2.2
      have generic := eff_replaceS h V.1 Vn.1 V.2.2.2.2.1 V.2.1 (T _ (Nat.le_refl _)) e
      cases hc : allSome (absVar s v) with
      | none => exact ok_unspec generic (by simp [Spec.newVal, hc])
      | some cc =>
        cases hn : allSome (absVar s wn) with
        | none => exact ok_unspec generic (by simp [Spec.newVal, hc, hn])
        | some nd =>
          by_cases hz : 0 ∉ cc ∧ 0 ∉ nd
          · exact ok_of (eff_replaceS_val h V.1 Vn.1 V.2.2.2.2.1 V.2.1 Vr.2.1 (T _ (Nat.le_refl _)) hc hn hz.1 hz.2 e) (by
              intro x hx
              simp only [Spec.newVal, hc, hn, Option.bind_some, hz, not_false_eq_true, and_self, if_true,
                Option.some.injEq] at hx
              exact hx)
          · exact ok_unspec generic (by simp only [Spec.newVal, hc, hn, Option.bind_some, hz, if_false])
    · cases e
  | replaceL v nd rp =>
    simp only [step] at e
    split at e
    · rename_i c; have V := valid_facts c
      obtain ⟨hv, n0, n1, n2, t0, t1, t2⟩ := V
      simp only [Option.bind_eq_bind, Option.bind_eq_some_iff, Option.pure_def, Option.some.injEq] at e
      obtain ⟨s1, h1, s2, h2, s3, h3, e⟩ := e
      subst e
      have E1 := eff_ctorPtr h t1 h1
      have E2 := eff_ctorPtr E1.inv (by rw [E1.n]; exact t2) h2
      have a0 : absVar s2 (userVars s) = [] := by
        rw [E2.other _ (by omega), E1.other _ (by omega)]; exact T _ (Nat.le_refl _)
      have av : absVar s2 v = absVar s v := by rw [E2.other v n2, E1.other v n1]
      have an : absVar s2 (userVars s + 1) = nd.map some := by rw [E2.other _ (by omega), E1.self]
      have ar : absVar s2 (userVars s + 2) = rp.map some := E2.self
      have hv2 : v < s2.n := by rw [E2.n, E1.n]; exact hv
      have ht1 : userVars s + 1 < s2.n := by rw [E2.n, E1.n]; exact t1
      have ht0 : userVars s < s2.n := by rw [E2.n, E1.n]; exact t0
      obtain ⟨val, E3, hval⟩ : ∃ val, Eff s2 s3 v val ∧
          (∀ cc, allSome (absVar s v) = some cc → 0 ∉ cc → 0 ∉ nd → val = Spec.replaceAll nd (rp.map some) cc) := by
        by_cases dom : ∃ cc, allSome (absVar s v) = some cc ∧ 0 ∉ cc ∧ 0 ∉ nd
        · obtain ⟨cc, hc, hz1, hz2⟩ := dom
          have E := eff_replaceS_val E2.inv (v := v) (wn := userVars s + 1) (wr_ := userVars s + 2) (tmp := userVars s)
            hv2 ht1 ht0 n0 (by omega) a0 (c := cc) (nd := nd) (by rw [av]; exact hc) (by rw [an]; exact allSome_map nd)
            hz1 hz2 h3
          refine ⟨_, E, ?_⟩
          intro cc' hc' _ _
          rw [hc] at hc'; injection hc' with hc'; subst hc'
          rw [ar]
        · obtain ⟨val, E⟩ := eff_replaceS E2.inv (v := v) (wn := userVars s + 1) (wr_ := userVars s + 2)
            (tmp := userVars s) hv2 ht1 ht0 n0 a0 h3
          exact ⟨val, E, fun cc hc h1 h2 => absurd ⟨cc, hc, h1, h2⟩ dom⟩
      have E4 := eff_setEmpty E3.inv (v := userVars s + 1) (by rw [E3.n, E2.n, E1.n]; exact t1)
      have E5 := eff_setEmpty E4.inv (v := userVars s + 2) (by rw [E4.n, E3.n, E2.n, E1.n]; exact t2)
      refine ⟨val, ⟨E5.inv, by rw [E5.n, E4.n, E3.n, E2.n, E1.n], by rw [E5.regs, E4.regs, E3.regs, E2.regs, E1.regs], ?_, ?_⟩, ?_⟩
      · show absVar _ v = val
        rw [E5.other v n2, E4.other v n1, E3.self]
      · intro u hu
        have hu' : u ≠ v := hu
        by_cases u2 : u = userVars s + 2
        · subst u2; rw [E5.self]; exact (T _ (by omega)).symm
        · by_cases u1 : u = userVars s + 1
          · subst u1; rw [E5.other _ u2, E4.self]; exact (T _ (by omega)).symm
          · rw [E5.other u u2, E4.other u u1, E3.other u hu', E2.other u u2, E1.other u u1]
      · intro x hx
        simp only [Spec.newVal, Option.bind_eq_some_iff] at hx
        obtain ⟨cc, hc, hx⟩ := hx
        split at hx
        · rename_i hz
          injection hx with hx
          rw [← hx]; exact hval cc hc hz.1 hz.2
        · cases hx
    · cases e
  | printf v f =>
    simp only [step] at e
    split at e
    · rename_i c; have V := valid_facts c
      simp only [Option.map_eq_some_iff] at e
      obtain ⟨⟨s2, r⟩, e, rfl⟩ := e
      exact ok_of (eff_printf h V.1 e) (by intro x hx; simp only [Spec.newVal, Option.some.injEq] at hx; exact hx)
    · cases e
  | plusEqS v w =>
    simp only [step] at e
    split at e
    · rename_i c; have V := valid_facts c.1
      exact ok_of (eff_appendS h V.1 e) (by intro x hx; simp only [Spec.newVal, Option.some.injEq] at hx; exact hx)
    · cases e
  | plusEqC v ch =>
    simp only [step] at e
    split at e
    · rename_i c; have V := valid_facts c
      exact ok_of (eff_appendC h V.1 e) (by intro x hx; simp only [Spec.newVal, Option.some.injEq] at hx; exact hx)
    · cases e
  | plus v a b =>
    simp only [step] at e
    split at e
    · rename_i c; have V := valid_facts c.1; have Vb := valid_facts c.2.2
      exact ok_of (eff_plusS h V.1 V.2.2.2.2.1 V.2.2.2.2.2.1 V.2.1 V.2.2.1 (by omega) Vb.2.1
          (T _ (Nat.le_refl _)) (T _ (by omega)) e)
        (by intro x hx; simp only [Spec.newVal, Option.some.injEq] at hx; exact hx)
    · cases e
  | plusLit v a r len =>
    simp only [step] at e
    split at e
    · rename_i c; have V := valid_facts c.1; have Va := valid_facts c.2.1
      exact ok_of (eff_plusLit h V.1 V.2.2.2.2.1 V.2.2.2.2.2.1 V.2.2.2.2.2.2 V.2.1 V.2.2.1 V.2.2.2.1 (by omega) (by omega)
          (by omega) Va.2.2.2.1 (T _ (Nat.le_refl _)) (T _ (by omega)) (T _ (by omega)) c.2.2 e)
        (by intro x hx; simp only [Spec.newVal, Option.some.injEq] at hx; exact hx)
    · cases e
  | fromCStr v src =>
    simp only [step] at e
    split at e
    · rename_i c; have V := valid_facts c
      exact ok_of (eff_fromCStr h V.1 V.2.2.2.2.1 V.2.1 (T _ (Nat.le_refl _)) e)
        (by intro x hx; simp only [Spec.newVal, Option.some.injEq] at hx; exact hx)
    · cases e
  | fromCStrN v src =>
    simp only [step] at e
    split at e
    · rename_i c; have V := valid_facts c
      exact ok_of (eff_assignTemp h V.1 V.2.2.2.2.1 V.2.1 (T _ (Nat.le_refl _)) e)
        (by intro x hx; simp only [Spec.newVal, Option.some.injEq] at hx; exact hx)
    · cases e
  | fromBool v b =>
    simp only [step] at e
    split at e
    · rename_i c; have V := valid_facts c
      exact ok_of (eff_fromBool h V.1 e)
        (by intro x hx; simp only [Spec.newVal, Option.some.injEq] at hx; exact hx)
    · cases e
  | fromD v x =>
    simp only [step] at e
    split at e
    · rename_i c; have V := valid_facts c
      exact ok_of (eff_fromFmt h V.1 V.2.2.2.2.1 V.2.1 (T _ (Nat.le_refl _)) e)
        (by intro x hx; simp only [Spec.newVal, Option.some.injEq] at hx; exact hx)
    · cases e
  | fromU v x =>
    simp only [step] at e
    split at e
    · rename_i c; have V := valid_facts c
      exact ok_of (eff_fromFmt h V.1 V.2.2.2.2.1 V.2.1 (T _ (Nat.le_refl _)) e)
        (by intro x hx; simp only [Spec.newVal, Option.some.injEq] at hx; exact hx)
    · cases e
  | fromPrintf v f =>
    simp only [step] at e
    split at e
    · rename_i c; have V := valid_facts c
      exact ok_of (eff_fromPrintf h V.1 V.2.2.2.2.1 V.2.1 (T _ (Nat.le_refl _)) e)
        (by intro x hx; simp only [Spec.newVal, Option.some.injEq] at hx; exact hx)
    · cases e
  | printfO v out =>
    simp only [step] at e
    split at e
    · rename_i c; have V := valid_facts c
      simp only [Option.map_eq_some_iff] at e
      obtain ⟨⟨s2, r⟩, e, rfl⟩ := e
      exact ok_of (eff_printfOut h V.1 e).1 (by intro x hx; simp only [Spec.newVal, Option.some.injEq] at hx; exact hx)
    · cases e
  | fromOut v out =>
    simp only [step] at e
    split at e
    · rename_i c; have V := valid_facts c
      exact ok_of (eff_fromOut h V.1 V.2.2.2.2.1 V.2.1 (T _ (Nat.le_refl _)) e)
        (by intro x hx; simp only [Spec.newVal, Option.some.injEq] at hx; exact hx)
    · cases e

end Nstd.Str
