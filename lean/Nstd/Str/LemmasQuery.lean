import Nstd.Str.Spec
/-!
  The libc-style search / comparison functions of the model against declarative references.
-/
namespace Nstd.Str

/-! ### strstr -/

/-- `strstr` returns the first offset at which the needle is a prefix of the rest -/
theorem strstr_some : ∀ {h n : List Nat} {i : Nat}, strstrL h n = some i →
    i ≤ h.length ∧ n.isPrefixOf (h.drop i) = true ∧ ∀ j, j < i → n.isPrefixOf (h.drop j) = false
  | [], n, i, e => by
    simp only [strstrL] at e
    by_cases c : n.isEmpty
    · simp only [c, if_true, Option.some.injEq] at e; subst e
      have : n = [] := by simpa using c
      subst this
      exact ⟨Nat.le_refl _, by simp [List.isPrefixOf], fun j hj => by omega⟩
    · simp [c] at e
  | x :: t, n, i, e => by
    simp only [strstrL] at e
    by_cases c : n.isPrefixOf (x :: t) = true
    · simp only [c, if_true, Option.some.injEq] at e; subst e
      exact ⟨Nat.zero_le _, by simpa using c, fun j hj => by omega⟩
    · simp only [c, Bool.false_eq_true, if_false, Option.map_eq_some_iff] at e
      obtain ⟨k, hk, rfl⟩ := e
      obtain ⟨a, b, d⟩ := strstr_some hk
      refine ⟨by simp only [List.length_cons]; omega, by simpa using b, ?_⟩
      intro j hj
      cases j with
      | zero => simp only [List.drop_zero]; exact Bool.eq_false_iff.mpr c
      | succ j => simp only [List.drop_succ_cons]; exact d j (by omega)

theorem strstr_none : ∀ {h n : List Nat}, strstrL h n = none →
    ∀ j, j ≤ h.length → n.isPrefixOf (h.drop j) = false
  | [], n, e, j, hj => by
    simp only [strstrL] at e
    by_cases c : n.isEmpty
    · simp [c] at e
    · have : j = 0 := by simpa using hj
      subst this
      cases n with
      | nil => simp at c
      | cons a r => simp [List.isPrefixOf]
  | x :: t, n, e, j, hj => by
    simp only [strstrL] at e
    by_cases c : n.isPrefixOf (x :: t) = true
    · simp [c] at e
    · simp only [c, Bool.false_eq_true, if_false, Option.map_eq_none_iff] at e
      cases j with
      | zero => simp only [List.drop_zero]; exact Bool.eq_false_iff.mpr c
      | succ j =>
        simp only [List.drop_succ_cons]
        exact strstr_none e j (by simp only [List.length_cons] at hj; omega)

/-- `r` is the first offset at which `n` is a prefix of the rest of `h` (`none`: there is none) -/
def FirstMatch (h n : List Nat) : Option Nat → Prop
  | none => ∀ j, j ≤ h.length → n.isPrefixOf (h.drop j) = false
  | some i => i ≤ h.length ∧ n.isPrefixOf (h.drop i) = true ∧ ∀ j, j < i → n.isPrefixOf (h.drop j) = false

theorem strstr_first (h n : List Nat) : FirstMatch h n (strstrL h n) := by
  cases hs : strstrL h n with
  | none => exact strstr_none hs
  | some i => exact strstr_some hs

/-! ### strpbrk, strchr, find -/

/-- `strpbrk` returns the first offset whose char is one of `cs` -/
theorem strpbrk_some {h cs : List Nat} {i : Nat} (e : strpbrkL h cs = some i) :
    ∃ hi : i < h.length, h[i] ∈ cs ∧ ∀ j (hj : j < i), h[j] ∉ cs := by
  unfold strpbrkL at e
  obtain ⟨hi, a, b⟩ := List.findIdx?_eq_some_iff_getElem.mp e
  refine ⟨hi, by simpa using a, ?_⟩
  intro j hj
  have := b j hj
  simpa using this

theorem strpbrk_none {h cs : List Nat} (e : strpbrkL h cs = none) : ∀ x ∈ h, x ∉ cs := by
  unfold strpbrkL at e
  intro x hx
  have := List.findIdx?_eq_none_iff.mp e x hx
  simpa using this

/-- `r` is the first offset whose char is in `cs` -/
def FirstOf (h cs : List Nat) : Option Nat → Prop
  | none => ∀ x ∈ h, x ∉ cs
  | some i => ∃ hi : i < h.length, h[i] ∈ cs ∧ ∀ j (hj : j < i), h[j] ∉ cs

theorem strpbrk_first (h cs : List Nat) : FirstOf h cs (strpbrkL h cs) := by
  cases hs : strpbrkL h cs with
  | none => exact strpbrk_none hs
  | some i => exact strpbrk_some hs

/-- `strchr(h, c)` for `c ≠ 0`: the first offset holding `c` -/
theorem strchr_some {h : List Nat} {c i : Nat} (hc : c ≠ 0) (e : strchrL h c = some i) :
    ∃ hi : i < h.length, h[i] = c ∧ ∀ j (hj : j < i), h[j] ≠ c := by
  simp only [strchrL, hc, if_false] at e
  obtain ⟨hi, a, b⟩ := List.findIdx?_eq_some_iff_getElem.mp e
  refine ⟨hi, by simpa using a, ?_⟩
  intro j hj
  have := b j hj
  simpa using this

/-- `strchr(h, 0)` finds the terminator -/
theorem strchr_nul (h : List Nat) : strchrL h 0 = some h.length := by simp [strchrL]

/-- `findLast(char)`: the last offset holding `c` -/
theorem findLastIdx_some {a : List Nat} {c i : Nat} (e : findLastIdx a c = some i) :
    ∃ hi : i < a.length, a[i] = c ∧ ∀ j (hj : j < a.length), i < j → a[j] ≠ c := by
  unfold findLastIdx at e
  cases hf : a.reverse.findIdx? (· == c) with
  | none => simp [hf] at e
  | some k =>
    simp only [hf, Option.some.injEq] at e
    obtain ⟨hk, p, q⟩ := List.findIdx?_eq_some_iff_getElem.mp hf
    simp only [List.length_reverse] at hk
    have hi : i < a.length := by omega
    refine ⟨hi, ?_, ?_⟩
    · have : a.reverse[k] = a[i] := by
        rw [List.getElem_reverse]; congr 1
      rw [← this]; simpa using p
    · intro j hj hij
      have hk' : a.length - 1 - j < k := by omega
      have := q (a.length - 1 - j) hk'
      have e2 : a.reverse[a.length - 1 - j]'(by simp only [List.length_reverse]; omega) = a[j] := by
        rw [List.getElem_reverse]; congr 1; omega
      rw [e2] at this
      simpa using this

theorem findLastIdx_none {a : List Nat} {c : Nat} (e : findLastIdx a c = none) : c ∉ a := by
  unfold findLastIdx at e
  cases hf : a.reverse.findIdx? (· == c) with
  | some k => simp [hf] at e
  | none =>
    intro hc
    have := List.findIdx?_eq_none_iff.mp hf c (by simpa using hc)
    simp at this

/-- `substr(start, length)` without reference to the model's arithmetic: a negative `start` counts from the
    end (clamped to 0), a `start` behind the end is the end; a negative `length` means "to the end", otherwise
    the end is `start + length` clamped to the length -/
theorem subList_spec (c : List Byte) (st ln : Int) :
    subList c st ln =
      (c.drop (if st < 0 then max 0 ((c.length : Int) + st) else min st c.length).toNat).take
        ((if ln < 0 then (c.length : Int)
          else min (c.length : Int) ((if st < 0 then max 0 ((c.length : Int) + st) else min st c.length) + ln)).toNat
         - (if st < 0 then max 0 ((c.length : Int) + st) else min st c.length).toNat) := by
  unfold subList substrRange
  simp only
  have ea : (if st < 0 then (if (c.length : Int) + st < 0 then 0 else ((c.length : Int) + st).toNat)
      else if st.toNat > c.length then c.length else st.toNat)
      = (if st < 0 then max 0 ((c.length : Int) + st) else min st c.length).toNat := by
    split <;> split <;> omega
  rw [ea]
  have hA0 : 0 ≤ (if st < 0 then max 0 ((c.length : Int) + st) else min st (c.length : Int)) := by
    split <;> omega
  have hAl : (if st < 0 then max 0 ((c.length : Int) + st) else min st (c.length : Int)) ≤ c.length := by
    split <;> omega
  generalize (if st < 0 then max 0 ((c.length : Int) + st) else min st (c.length : Int)) = A at hA0 hAl
  have eb : (if ln ≥ 0 then (if A.toNat + ln.toNat > c.length then c.length else A.toNat + ln.toNat) else c.length)
      = (if ln < 0 then (c.length : Int) else min (c.length : Int) (A + ln)).toNat := by
    by_cases h1 : ln < 0
    · have h2 : ¬ ln ≥ 0 := by omega
      simp only [h1, h2, if_true, if_false, Int.toNat_natCast]
    · have h2 : ln ≥ 0 := by omega
      simp only [h1, h2, if_true, if_false]
      by_cases h3 : A.toNat + ln.toNat > c.length
      · simp only [h3, if_true]; omega
      · simp only [h3, if_false]; omega
  rw [eb]

/-! ### findLast(const char*) — the loop repaired by fixes/str/0002 -/

/-- `r` is the last offset `≤ length` at which `n` is a prefix of the rest of `h` (`none`: no such offset) -/
def LastMatch (h n : List Nat) : Option Nat → Prop
  | none => ∀ j, j ≤ h.length → n.isPrefixOf (h.drop j) = false
  | some i => i ≤ h.length ∧ n.isPrefixOf (h.drop i) = true ∧
      ∀ j, i < j → j ≤ h.length → n.isPrefixOf (h.drop j) = false

/-- what the loop knows before the search that starts at `pos` -/
def LastBelow (h n : List Nat) (pos : Nat) : Option Nat → Prop
  | none => ∀ j, j < pos → n.isPrefixOf (h.drop j) = false
  | some i => i < pos ∧ n.isPrefixOf (h.drop i) = true ∧ ∀ j, i < j → j < pos → n.isPrefixOf (h.drop j) = false

theorem findLastLoop_spec (h n : List Nat) : ∀ (fuel pos : Nat) (res : Option Nat),
    pos ≤ h.length → h.length + 1 ≤ fuel + pos → LastBelow h n pos res →
    LastMatch h n (findLastLoop h n fuel pos res)
  | 0, pos, res, hp, hf, _ => by omega
  | fuel + 1, pos, res, hp, hf, inv => by
    simp only [findLastLoop]
    cases hs : strstrL (h.drop pos) n with
    | none =>
      simp only
      have nn := strstr_none hs
      simp only [List.length_drop, List.drop_drop] at nn
      cases res with
      | none =>
        intro j hj
        by_cases c : j < pos
        · exact inv j c
        · have := nn (j - pos) (by omega)
          have e : pos + (j - pos) = j := by omega
          rw [e] at this; exact this
      | some i =>
        obtain ⟨a, b, d⟩ := inv
        refine ⟨by omega, b, ?_⟩
        intro j hij hj
        by_cases c : j < pos
        · exact d j hij c
        · have := nn (j - pos) (by omega)
          have e : pos + (j - pos) = j := by omega
          rw [e] at this; exact this
    | some k =>
      simp only
      obtain ⟨a, b, d⟩ := strstr_some hs
      simp only [List.length_drop, List.drop_drop] at a b d
      by_cases c : pos + k ≥ h.length
      · simp only [c, if_true]
        refine ⟨by omega, b, ?_⟩
        intro j hj hj2; omega
      · simp only [c, if_false]
        apply findLastLoop_spec h n fuel (pos + k + 1) (some (pos + k)) (by omega) (by omega)
        refine ⟨by omega, b, ?_⟩
        intro j hj hj2; omega

/-- `findLast(str)` returns the last occurrence (for the empty needle: the offset of the terminator) -/
theorem findLast_spec (h n : List Nat) : LastMatch h n (findLastLoop h n (h.length + 1) 0 none) :=
  findLastLoop_spec h n (h.length + 1) 0 none (Nat.zero_le _) (by omega) (by intro j hj; omega)

theorem findLast_empty_needle (h : List Nat) : findLastLoop h [] (h.length + 1) 0 none = some h.length := by
  have := findLast_spec h []
  cases hr : findLastLoop h [] (h.length + 1) 0 none with
  | none =>
    rw [hr] at this
    have := this 0 (Nat.zero_le _)
    simp [List.isPrefixOf] at this
  | some i =>
    rw [hr] at this
    obtain ⟨a, _, d⟩ := this
    by_cases c : i = h.length
    · rw [c]
    · have := d h.length (by omega) (Nat.le_refl _)
      simp [List.isPrefixOf] at this

/-! ### findLastOf -/

/-- `r` is the last offset whose char is in `cs` -/
def LastOf (h cs : List Nat) : Option Nat → Prop
  | none => ∀ x ∈ h, x ∉ cs
  | some i => ∃ hi : i < h.length, h[i] ∈ cs ∧ ∀ j (hj : j < h.length), i < j → h[j] ∉ cs

def LastOfBelow (h cs : List Nat) (pos : Nat) : Option Nat → Prop
  | none => ∀ j (hj : j < h.length), j < pos → h[j] ∉ cs
  | some i => ∃ hi : i < h.length, i < pos ∧ h[i] ∈ cs ∧ ∀ j (hj : j < h.length), i < j → j < pos → h[j] ∉ cs

theorem findLastOfLoop_spec (h cs : List Nat) : ∀ (fuel pos : Nat) (res : Option Nat),
    pos ≤ h.length → h.length + 1 ≤ fuel + pos → LastOfBelow h cs pos res →
    LastOf h cs (findLastOfLoop h cs fuel pos res)
  | 0, pos, res, hp, hf, _ => by omega
  | fuel + 1, pos, res, hp, hf, inv => by
    simp only [findLastOfLoop]
    cases hs : strpbrkL (h.drop pos) cs with
    | none =>
      simp only
      have nn := strpbrk_none hs
      have tail : ∀ j (hj : j < h.length), pos ≤ j → h[j] ∉ cs := by
        intro j hj hpj
        apply nn
        have : h[j] = (h.drop pos)[j - pos]'(by simp only [List.length_drop]; omega) := by
          rw [List.getElem_drop]; congr 1; omega
        rw [this]; exact List.getElem_mem _
      cases res with
      | none =>
        intro x hx
        obtain ⟨j, hj, rfl⟩ := List.getElem_of_mem hx
        by_cases c : j < pos
        · exact inv j hj c
        · exact tail j hj (by omega)
      | some i =>
        obtain ⟨hi, a, b, d⟩ := inv
        refine ⟨hi, b, ?_⟩
        intro j hj hij
        by_cases c : j < pos
        · exact d j hj hij c
        · exact tail j hj (by omega)
    | some k =>
      simp only
      obtain ⟨hk, a, b⟩ := strpbrk_some hs
      simp only [List.length_drop] at hk
      have hidx : pos + k < h.length := by omega
      have ea : (h.drop pos)[k]'(by simp only [List.length_drop]; omega) = h[pos + k] := by
        rw [List.getElem_drop]
      apply findLastOfLoop_spec h cs fuel (pos + k + 1) (some (pos + k)) (by omega) (by omega)
      refine ⟨hidx, by omega, by rw [← ea]; exact a, ?_⟩
      intro j hj hj1 hj2
      omega

theorem findLastOf_spec (h cs : List Nat) : LastOf h cs (findLastOfLoop h cs (h.length + 1) 0 none) :=
  findLastOfLoop_spec h cs (h.length + 1) 0 none (Nat.zero_le _) (by omega) (by intro j hj hj2; omega)

/-! ### compare -/

/-- on NUL-free strings `compare` is zero exactly for equal strings … -/
theorem strcmp_eq_zero : ∀ {a b : List Nat}, (∀ x ∈ a, x ≠ 0) → (∀ x ∈ b, x ≠ 0) →
    (strcmpL a b = 0 ↔ a = b)
  | [], [], _, _ => by simp [strcmpL]
  | [], y :: t, _, hb => by
    have : y ≠ 0 := hb y (by simp)
    simp only [strcmpL, reduceCtorEq, iff_false]
    omega
  | x :: t, [], ha, _ => by
    have : x ≠ 0 := ha x (by simp)
    simp only [strcmpL, reduceCtorEq, iff_false]
    omega
  | x :: xs, y :: ys, ha, hb => by
    simp only [strcmpL]
    by_cases c : x = y
    · subst c
      simp only [if_true, List.cons.injEq, true_and]
      exact strcmp_eq_zero (fun z hz => ha z (by simp [hz])) (fun z hz => hb z (by simp [hz]))
    · simp only [c, if_false, List.cons.injEq, false_and, iff_false]
      omega

/-- … and negative exactly when the first string is lexicographically smaller (unsigned chars) -/
theorem strcmp_neg : ∀ {a b : List Nat}, (∀ x ∈ a, x ≠ 0) → (∀ x ∈ b, x ≠ 0) →
    (strcmpL a b < 0 ↔ a < b)
  | [], [], _, _ => by simp [strcmpL]
  | [], y :: t, _, hb => by
    have : y ≠ 0 := hb y (by simp)
    simp only [strcmpL, List.nil_lt_cons, iff_true]
    omega
  | x :: t, [], ha, _ => by
    simp only [strcmpL, List.not_lt_nil, iff_false]
    omega
  | x :: xs, y :: ys, ha, hb => by
    simp only [strcmpL, List.cons_lt_cons_iff]
    by_cases c : x = y
    · subst c
      simp only [if_true, Nat.lt_irrefl, true_and, false_or]
      exact strcmp_neg (fun z hz => ha z (by simp [hz])) (fun z hz => hb z (by simp [hz]))
    · simp only [c, if_false, false_and, or_false]
      omega

/-- the n-limited comparison compares the first `n` chars -/
theorem strncmp_take : ∀ (n : Nat) (a b : List Nat), (∀ x ∈ a, x ≠ 0) →
    strncmpL a b n = strcmpL (a.take n) (b.take n)
  | 0, a, b, _ => by simp [strncmpL, strcmpL]
  | n + 1, [], [], _ => by simp [strncmpL, strcmpL]
  | n + 1, [], y :: t, _ => by simp [strncmpL, strcmpL]
  | n + 1, x :: xs, [], ha => by
    have : x ≠ 0 := ha x (by simp)
    simp [strncmpL, strcmpL, this]
  | n + 1, x :: xs, y :: ys, ha => by
    simp only [strncmpL, List.headD_cons, List.tail_cons, List.take_succ_cons, strcmpL]
    by_cases c : x = y
    · simp only [c, if_true]
      exact strncmp_take n xs ys (fun z hz => ha z (by simp [hz]))
    · simp only [c, if_false]

/-! ### the case maps (tables regenerated from String.cpp by tools/gen_str.py) -/

/-- `lowerCaseMap` maps 'A'..'Z' to 'a'..'z' and every other char to itself -/
theorem lower_map : ∀ c, c < 256 → toLower c = if 65 ≤ c ∧ c ≤ 90 then c + 32 else c := by
  unfold toLower; decide +kernel

/-- `upperCaseMap` maps 'a'..'z' to 'A'..'Z' and every other char to itself -/
theorem upper_map : ∀ c, c < 256 → toUpper c = if 97 ≤ c ∧ c ≤ 122 then c - 32 else c := by
  unfold toUpper; decide +kernel

theorem caseMaps_length : Generated.lowerCaseMap.length = 256 ∧ Generated.upperCaseMap.length = 256 := by
  decide +kernel

theorem toLower_ne_zero {x : Nat} (h : x ≠ 0) : toLower x ≠ 0 := by
  by_cases c : x < 256
  · rw [lower_map x c]; split <;> omega
  · unfold toLower
    rw [List.getD_eq_getElem?_getD, List.getElem?_eq_none (by rw [caseMaps_length.1]; omega)]
    exact h

/-! ### toBool -/

theorem dropWhile_zeros (l : List Nat) :
    ∃ k, l = List.replicate k 48 ++ l.dropWhile (· == 48) ∧ (l.dropWhile (· == 48)).head? ≠ some 48 := by
  induction l with
  | nil => exact ⟨0, by simp, by simp⟩
  | cons x t ih =>
    by_cases c : x = 48
    · subst c
      obtain ⟨k, hk, hh⟩ := ih
      refine ⟨k + 1, ?_, ?_⟩
      · simp only [List.dropWhile_cons, beq_self_eq_true, if_true, List.replicate_succ, List.cons_append]
        rw [← hk]
      · simpa using hh
    · refine ⟨0, by simp [c], ?_⟩
      simp [List.dropWhile_cons, c]

/-- reference: `toBool()` is false exactly for "", "0", "false" in any case, and for zeros around one
    decimal point with at least one zero ("0.", ".0", "00.000", but not ".") -/
def toBoolFalse (c : List Nat) : Prop :=
  c = [] ∨ c.map toLower = [102, 97, 108, 115, 101] ∨ c = [48] ∨
    ∃ k m, c = List.replicate k 48 ++ 46 :: List.replicate m 48 ∧ (0 < m ∨ 0 < k)

theorem replicate_of_dropWhile_nil {q : List Nat} (h : (q.dropWhile (· == 48)).isEmpty = true) :
    q = List.replicate q.length 48 := by
  induction q with
  | nil => rfl
  | cons x t ih =>
    by_cases c : x = 48
    · subst c
      simp only [List.dropWhile_cons, beq_self_eq_true, if_true] at h
      simp only [List.length_cons, List.replicate_succ]
      rw [← ih h]
    · simp [List.dropWhile_cons, c] at h

theorem dropWhile_replicate_nil (m : Nat) : ((List.replicate m 48).dropWhile (· == 48)) = [] := by
  induction m with
  | zero => rfl
  | succ m ih => simp [List.replicate_succ, List.dropWhile_cons, ih]

theorem dropWhile_zeros_dot (k : Nat) (q : List Nat) :
    (List.replicate k 48 ++ 46 :: q).dropWhile (· == 48) = 46 :: q := by
  induction k with
  | zero => simp [List.dropWhile_cons]
  | succ k ih => simp [List.replicate_succ, List.dropWhile_cons, ih]

theorem toBool_spec (c : List Nat) (hz : ∀ x ∈ c, x ≠ 0) : toBoolL c c = false ↔ toBoolFalse c := by
  have hlow : ∀ x ∈ c.map toLower, x ≠ 0 := by
    intro x hx; obtain ⟨y, hy, rfl⟩ := List.mem_map.mp hx; exact toLower_ne_zero (hz y hy)
  have hfalse : (c.length = 5 ∧ strcmpL (c.map toLower) [102, 97, 108, 115, 101] = 0)
      ↔ c.map toLower = [102, 97, 108, 115, 101] := by
    rw [strcmp_eq_zero hlow (by decide)]
    constructor
    · exact fun x => x.2
    · intro x; refine ⟨?_, x⟩
      have := congrArg List.length x
      simpa using this
  have lits : Generated.toBoolFalseLit = [102, 97, 108, 115, 101] ∧ Generated.toBoolZeroLit = [48] := ⟨rfl, rfl⟩
  unfold toBoolL toBoolFalse
  rw [lits.1, lits.2]
  simp only [List.length_cons, List.length_nil, Nat.zero_add, Nat.reduceAdd]
  by_cases c1 : c.length = 0 ∨ (c.length = 5 ∧ strcmpL (c.map toLower) [102, 97, 108, 115, 101] = 0) ∨ c = [48]
  · simp only [c1, if_true, true_iff]
    rcases c1 with a | a | a
    · exact Or.inl (List.eq_nil_of_length_eq_zero a)
    · exact Or.inr (Or.inl (hfalse.mp a))
    · exact Or.inr (Or.inr (Or.inl a))
  · simp only [c1, if_false]
    have n1 : c ≠ [] := fun x => c1 (Or.inl (by rw [x]; rfl))
    have n2 : c.map toLower ≠ [102, 97, 108, 115, 101] := fun x => c1 (Or.inr (Or.inl (hfalse.mpr x)))
    have n3 : c ≠ [48] := fun x => c1 (Or.inr (Or.inr x))
    obtain ⟨k, hk, hh⟩ := dropWhile_zeros c
    cases hd : c.dropWhile (· == 48) with
    | nil =>
      simp only
      constructor
      · intro x; cases x
      · rintro (a | a | a | ⟨k', m, a, _⟩)
        · exact absurd a n1
        · exact absurd a n2
        · exact absurd a n3
        · rw [a, dropWhile_zeros_dot] at hd; cases hd
    | cons y q =>
      by_cases cy : y = 46
      · subst cy
        simp only
        rw [hd] at hk
        have hhead : c.head? = some 48 ↔ 0 < k := by
          rw [hk]
          cases k with
          | zero => simp
          | succ k => simp [List.replicate_succ]
        by_cases cq : (q.dropWhile (· == 48)).isEmpty = true ∧ (¬ q.isEmpty = true ∨ c.head? = some 48)
        · simp only [cq, and_self, if_true, true_iff]
          refine Or.inr (Or.inr (Or.inr ⟨k, q.length, ?_, ?_⟩))
          · rw [← replicate_of_dropWhile_nil cq.1]; exact hk
          · rcases cq.2 with a | a
            · left
              cases q with
              | nil => simp at a
              | cons _ _ => simp
            · right; exact hhead.mp a
        · simp only [cq, if_false, Bool.true_eq_false, false_iff]
          rintro (a | a | a | ⟨k', m, a, hm⟩)
          · exact absurd a n1
          · exact absurd a n2
          · exact absurd a n3
          · apply cq
            have e1 : c.dropWhile (· == 48) = 46 :: List.replicate m 48 := by rw [a, dropWhile_zeros_dot]
            rw [hd] at e1
            injection e1 with _ e1
            subst e1
            refine ⟨by rw [dropWhile_replicate_nil]; rfl, ?_⟩
            rcases hm with hm | hm
            · left
              cases m with
              | zero => omega
              | succ m => simp [List.replicate_succ]
            · right
              rw [a]
              cases k' with
              | zero => omega
              | succ k' => simp [List.replicate_succ]
      · split
        · rename_i q' heq; injection heq with h1 _; exact absurd h1 cy
        · simp only [Bool.true_eq_false, false_iff]
          rintro (a | a | a | ⟨k', m, a, _⟩)
          · exact absurd a n1
          · exact absurd a n2
          · exact absurd a n3
          · rw [a, dropWhile_zeros_dot] at hd
            injection hd with h1 _
            exact cy h1.symm

/-! ### trim -/

/-- the range `trim` keeps is the string without its leading and trailing chars of the set -/
theorem trim_range (p : Nat → Bool) (c : List Nat) :
    (c.drop (c.takeWhile p).length).take
        (c.length - ((c.drop (c.takeWhile p).length).reverse.takeWhile p).length - (c.takeWhile p).length)
      = ((c.dropWhile p).reverse.dropWhile p).reverse := by
  have hd : c.drop (c.takeWhile p).length = c.dropWhile p := by
    conv => lhs; arg 2; rw [← List.takeWhile_append_dropWhile (p := p) (l := c)]
    rw [List.drop_left]
  have hl : c.length = (c.takeWhile p).length + (c.dropWhile p).length := by
    conv => lhs; rw [← List.takeWhile_append_dropWhile (p := p) (l := c)]
    rw [List.length_append]
  rw [hd]
  generalize c.dropWhile p = d at *
  have hk : (d.reverse.takeWhile p).length ≤ d.length := by
    have := List.takeWhile_append_dropWhile (p := p) (l := d.reverse)
    have h2 := congrArg List.length this
    simp only [List.length_append, List.length_reverse] at h2
    omega
  have e1 : c.length - (d.reverse.takeWhile p).length - (c.takeWhile p).length
      = d.length - (d.reverse.takeWhile p).length := by omega
  rw [e1]
  have hd2 : d.reverse.dropWhile p = d.reverse.drop (d.reverse.takeWhile p).length := by
    conv => rhs; arg 2; rw [← List.takeWhile_append_dropWhile (p := p) (l := d.reverse)]
    rw [List.drop_left]
  rw [hd2, List.reverse_drop, List.reverse_reverse, List.length_reverse]

/-! ### split -/

open Spec (splitRef splitOut)

theorem splitRef_ne_nil (seps : List Nat) : ∀ l, splitRef seps l ≠ []
  | [] => by simp [splitRef]
  | x :: t => by
    simp only [splitRef]
    split
    · simp
    · split <;> simp

theorem splitRef_none {seps : List Nat} : ∀ {l : List Nat}, strpbrkL l seps = none → splitRef seps l = [l]
  | [], _ => rfl
  | x :: t, e => by
    have hx : seps.contains x = false := by
      have := strpbrk_none e x (by simp)
      simpa using this
    have ht : strpbrkL t seps = none := by
      unfold strpbrkL
      apply List.findIdx?_eq_none_iff.mpr
      intro y hy
      have := strpbrk_none e y (by simp [hy])
      simpa using this
    simp only [splitRef, hx, Bool.false_eq_true, if_false, splitRef_none ht]

theorem splitRef_some {seps : List Nat} : ∀ {l : List Nat} {k : Nat}, strpbrkL l seps = some k →
    splitRef seps l = l.take k :: splitRef seps (l.drop (k + 1))
  | [], k, e => by simp [strpbrkL] at e
  | x :: t, k, e => by
    unfold strpbrkL at e
    simp only [List.findIdx?_cons] at e
    by_cases hx : seps.contains x = true
    · simp only [hx, if_true, Option.some.injEq] at e
      subst e
      simp only [splitRef, hx, if_true, List.take_zero, Nat.zero_add, List.drop_succ_cons, List.drop_zero]
    · have hx' : seps.contains x = false := by simpa using hx
      simp only [hx', Bool.false_eq_true, if_false, Option.map_eq_some_iff] at e
      obtain ⟨j, hj, rfl⟩ := e
      have ih := splitRef_some (seps := seps) (l := t) (k := j) hj
      simp only [splitRef, hx', Bool.false_eq_true, if_false, ih, List.take_succ_cons, List.drop_succ_cons]

theorem subList_drop_take (c : List Byte) (p len : Nat) (h : p + len ≤ c.length) :
    subList c (p : Int) (len : Int) = (c.drop p).take len := by
  unfold subList substrRange
  have h1 : ¬ ((p : Int) < 0) := by omega
  have h2 : ¬ (p > c.length) := by omega
  have h3 : (len : Int) ≥ 0 := by omega
  have h4 : ¬ (p + len > c.length) := by omega
  simp only [h1, if_false, h3, if_true, Int.toNat_natCast, h2, h4]
  simp

theorem subList_rest (c : List Byte) (p : Nat) (h : p ≤ c.length) : subList c (p : Int) (-1) = c.drop p := by
  unfold subList substrRange
  have h1 : ¬ ((p : Int) < 0) := by omega
  have h2 : ¬ (p > c.length) := by omega
  have h3 : ¬ ((-1 : Int) ≥ 0) := by omega
  simp only [h1, if_false, h3, Int.toNat_natCast, h2]
  rw [List.take_of_length_le (by simp only [List.length_drop]; omega)]

theorem splitLoop_spec (h seps : List Nat) (skip : Bool) : ∀ (fuel p : Nat) (acc : List (List Byte)),
    p ≤ h.length → h.length + 1 ≤ fuel + p →
    splitLoop h (h.map some) seps skip fuel p acc = acc ++ splitOut skip (splitRef seps (h.drop p))
  | 0, p, acc, hp, hf => by omega
  | fuel + 1, p, acc, hp, hf => by
    simp only [splitLoop]
    cases hs : strpbrkL (h.drop p) seps with
    | none =>
      simp only [List.length_map]
      rw [splitRef_none hs]
      by_cases c : p < h.length
      · simp only [c, if_true]
        have hne : (h.drop p).isEmpty = false := by
          cases hd : h.drop p with
          | nil => have := congrArg List.length hd; simp at this; omega
          | cons a r => rfl
        rw [subList_rest _ _ (by rw [List.length_map]; omega)]
        unfold splitOut
        cases skip <;> simp [hne, List.map_drop]
      · simp only [c, if_false]
        have hd : h.drop p = [] := List.drop_of_length_le (by omega)
        rw [hd]
        unfold splitOut
        cases skip <;> simp
    | some len =>
      simp only
      obtain ⟨hlen, _, _⟩ := strpbrk_some hs
      simp only [List.length_drop] at hlen
      rw [splitRef_some hs, List.drop_drop]
      by_cases c : len = 0
      · subst c
        simp only [ne_eq, not_true_eq_false, if_false]
        rw [splitLoop_spec h seps skip fuel (p + 1) _ (by omega) (by omega)]
        unfold splitOut
        cases skip <;> simp [Nat.add_comm]
      · simp only [ne_eq, c, not_false_eq_true, if_true]
        rw [splitLoop_spec h seps skip fuel (p + len + 1) _ (by omega) (by omega)]
        rw [subList_drop_take _ _ _ (by rw [List.length_map]; omega)]
        have hne : ((h.drop p).take len).isEmpty = false := by
          cases hd : (h.drop p).take len with
          | nil => have := congrArg List.length hd; simp at this; omega
          | cons a r => rfl
        have e1 : p + (len + 1) = p + len + 1 := by omega
        unfold splitOut
        cases skip <;> simp [hne, List.map_drop, List.map_take, e1]

/-- `split`: with `skipEmpty = false` all pieces between separators, otherwise the non-empty ones -/
theorem split_loop_spec (h seps : List Nat) (skip : Bool) :
    splitLoop h (h.map some) seps skip (h.length + 2) 0 [] = splitOut skip (splitRef seps h) := by
  have := splitLoop_spec h seps skip (h.length + 2) 0 [] (Nat.zero_le _) (by omega)
  simpa using this

/-! ### iterating `token` gives the pieces of `split` -/

/-- the pieces without a final empty one (the loop `while(start < length()) token(seps, start)` does not
    deliver the empty piece behind a trailing separator, nor the single empty piece of the empty string) -/
def dropLastEmpty : List (List Nat) → List (List Nat)
  | [] => []
  | [t] => if t.isEmpty then [] else [t]
  | t :: rest => t :: dropLastEmpty rest

theorem dropLastEmpty_cons (t : List Nat) {rest : List (List Nat)} (h : rest ≠ []) :
    dropLastEmpty (t :: rest) = t :: dropLastEmpty rest := by
  cases rest with
  | nil => exact absurd rfl h
  | cons a r => rfl

theorem tokenIter_spec (seps c : List Nat) : ∀ (fuel start : Nat), start ≤ c.length →
    c.length + 1 ≤ fuel + start →
    Spec.tokenIter seps c fuel start = dropLastEmpty (splitRef seps (c.drop start))
  | 0, start, hs, hf => by omega
  | fuel + 1, start, hs, hf => by
    simp only [Spec.tokenIter]
    by_cases c1 : start ≥ c.length
    · simp only [c1, if_true]
      rw [List.drop_of_length_le c1]
      simp [splitRef, dropLastEmpty]
    · simp only [c1, if_false]
      cases hp : strpbrkL (c.drop start) seps with
      | none =>
        simp only [Spec.tokenL, Spec.tokenNext]
        rw [splitRef_none hp]
        have hne : (c.drop start).isEmpty = false := by
          cases hd : c.drop start with
          | nil => have := congrArg List.length hd; simp at this; omega
          | cons a r => rfl
        simp only [dropLastEmpty, hne, Bool.false_eq_true, if_false]
        cases fuel with
        | zero => rfl
        | succ f => simp [Spec.tokenIter]
      | some k =>
        obtain ⟨hk, _, _⟩ := strpbrk_some hp
        simp only [List.length_drop] at hk
        simp only [Spec.tokenL, Spec.tokenNext]
        rw [splitRef_some hp, dropLastEmpty_cons _ (splitRef_ne_nil _ _), List.drop_drop,
          tokenIter_spec seps c fuel (start + k + 1) (by omega) (by omega)]
        congr 3

/-- iterating `token(separators, start)` from 0 while `start < length()` yields the pieces of `split`
    (all pieces between separators), except a final empty piece -/
theorem token_iteration (seps c : List Nat) :
    Spec.tokenIter seps c (c.length + 1) 0 = dropLastEmpty (splitRef seps c) := by
  have := tokenIter_spec seps c (c.length + 1) 0 (Nat.zero_le _) (by omega)
  simpa using this

end Nstd.Str
