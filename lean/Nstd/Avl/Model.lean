import Nstd.Generated.AvlConst
/-
  Executable model of `nstd::Map<K,V>` / `nstd::MultiMap<K,V>` (include/nstd/Map.hpp, MultiMap.hpp).

  The tree is an inductive value whose nodes carry the *stored* `height` / `slope` fields of
  `Item`; every function below follows the control flow of the C++ code:

    upd            Item::updateHeightAndSlope                      Map.hpp:365
    rotr/rotl      rotr / rotl                                     Map.hpp:497 / 512
    shiftr/shiftl  shiftr / shiftl                                 Map.hpp:527 / 535
    rebal          rebal                                           Map.hpp:471
    fixup          one turn of an upward loop: `oldHeight = parent->height; parent->update...;
                   parent = rebal(parent); if(oldHeight == parent->height) break;`
    goL / goR      what the upward loop does when it comes back from the left / right child:
                   run `fixup` while the "continue" flag of the level below is set, else stop
    ins / insM     private `insert(cell, parent, key, value)` of Map / MultiMap (descent + upward loop)
    land / landM   the same descent, returning where the new item is linked (parent, side) — this
                   is what the code uses to thread the item into the prev/next list
    insAt          the descent of a *hinted* insert: the code starts at `&insertPos->left/right`
                   with `parent = insertPos`; the model walks to the hint by in-order position,
                   runs the private insert in that cell and lets the upward loop continue to the root
    popMin/popMax  unlinking `item->next` / `item->prev` in the two-child case of `remove`, with
                   the early exit of the `rebalParent` loop
    removeRoot     `remove(it)` seen from the cell of the item (three trivial cases, successor iff
                   `left->height < right->height`); the replacement is always re-updated/rebalanced
                   and the first ancestor is always examined (both `goto` paths end there)
    delIdx         `remove(it)` for the item at an in-order position + `rebalParentUpwards`
    find*          `find` with the comparisons counted as the code makes them (`>` first)
    findM*         `MultiMap::find` as repaired by fixes/avl/01 (first of the equal keys)

  Keys and values are `Int`.  Pointers are ids (`Nat`); `order` is the prev/next list threaded
  through the items (what iterators walk), `free` the LIFO free list fed by blocks of `ipbOf` items (4 in the pinned sources).
  Core Lean only.
-/
namespace Nstd.Avl

inductive Tree where
  | nil : Tree
  | node (id : Nat) (k : Int) (v : Int) (h : Nat) (s : Int) (l r : Tree) : Tree
deriving Repr, DecidableEq

namespace Tree

/-- stored height field (`item ? item->height : 0`) -/
def ht : Tree → Nat
  | nil => 0
  | node _ _ _ h _ _ _ => h

/-- stored slope field -/
def slope : Tree → Int
  | nil => 0
  | node _ _ _ _ s _ _ => s

/-- real height -/
def height : Tree → Nat
  | nil => 0
  | node _ _ _ _ _ l r => max (height l) (height r) + 1

def size : Tree → Nat
  | nil => 0
  | node _ _ _ _ _ l r => size l + 1 + size r

/-- in-order sequence of `(id, key, value)` -/
def inorder : Tree → List (Nat × Int × Int)
  | nil => []
  | node i k v _ _ l r => inorder l ++ (i, k, v) :: inorder r

/-- `Item::updateHeightAndSlope` -/
def upd : Tree → Tree
  | nil => nil
  | node i k v _ _ l r =>
    node i k v (max l.ht r.ht + 1) ((l.ht : Int) - (r.ht : Int)) l r

/-- `rotr(cell)` -/
def rotr : Tree → Tree
  | node i k v h s (node li lk lv lh ls ll lr) r =>
    let oldTop := upd (node i k v h s lr r)
    upd (node li lk lv lh ls ll oldTop)
  | t => t

/-- `rotl(cell)` -/
def rotl : Tree → Tree
  | node i k v h s l (node ri rk rv rh rs rl rr) =>
    let oldTop := upd (node i k v h s l rl)
    upd (node ri rk rv rh rs oldTop rr)
  | t => t

/-- `shiftr(cell)` -/
def shiftr : Tree → Tree
  | node i k v h s l r =>
    if l.slope = -1 then rotr (node i k v h s (rotl l) r) else rotr (node i k v h s l r)
  | t => t

/-- `shiftl(cell)` -/
def shiftl : Tree → Tree
  | node i k v h s l r =>
    if r.slope = 1 then rotl (node i k v h s l (rotr r)) else rotl (node i k v h s l r)
  | t => t

/-- `rebal(item)` -/
def rebal (t : Tree) : Tree :=
  if t.slope > 1 then shiftr t
  else if t.slope < -1 then shiftl t
  else t

/-- one turn of an upward loop; returns the new subtree and whether the loop continues -/
def fixup (oldH : Nat) (t : Tree) : Tree × Bool :=
  let t' := rebal (upd t)
  (t', t'.ht != oldH)

/-- coming back from the left child with result `p = (new left subtree, loop still running)` -/
def goL (i : Nat) (k v : Int) (h : Nat) (s : Int) (r : Tree) (p : Tree × Bool) : Tree × Bool :=
  if p.2 then fixup h (node i k v h s p.1 r) else (node i k v h s p.1 r, false)

/-- coming back from the right child -/
def goR (i : Nat) (k v : Int) (h : Nat) (s : Int) (l : Tree) (p : Tree × Bool) : Tree × Bool :=
  if p.2 then fixup h (node i k v h s l p.1) else (node i k v h s l p.1, false)

/-! ### insert -/

/-- private `Map::insert(cell, parent, key, value)` -/
def ins (newId : Nat) (k v : Int) : Tree → Tree × Bool
  | nil => (node newId k v 1 0 nil nil, true)
  | node i k' v' h s l r =>
    if k > k' then goR i k' v' h s l (ins newId k v r)
    else if k < k' then goL i k' v' h s r (ins newId k v l)
    else (node i k' v h s l r, false)

/-- private `MultiMap::insert(cell, parent, key, value)`: `key < position->key` left, else right -/
def insM (newId : Nat) (k v : Int) : Tree → Tree × Bool
  | nil => (node newId k v 1 0 nil nil, true)
  | node i k' v' h s l r =>
    if k < k' then goL i k' v' h s r (insM newId k v l)
    else goR i k' v' h s l (insM newId k v r)

/-- where a descent ends: at an existing item with the key, or in an empty cell `(parent, right?)`
    (`none` = the root cell of an empty map) -/
inductive Landing where
  | found (id : Nat) : Landing
  | leaf (cell : Option (Nat × Bool)) : Landing
deriving Repr, DecidableEq

def land (k : Int) : Option (Nat × Bool) → Tree → Landing
  | c, nil => .leaf c
  | _, node i k' _ _ _ l r =>
    if k > k' then land k (some (i, true)) r
    else if k < k' then land k (some (i, false)) l
    else .found i

def landM (k : Int) : Option (Nat × Bool) → Tree → Landing
  | c, nil => .leaf c
  | _, node i k' _ _ _ l r =>
    if k < k' then landM k (some (i, false)) l
    else landM k (some (i, true)) r

/-- comparisons of the Map descent (`>` first, then `<`) -/
def insCmps (k : Int) : Tree → Nat
  | nil => 0
  | node _ k' _ _ _ l r =>
    if k > k' then 1 + insCmps k r
    else if k < k' then 2 + insCmps k l
    else 2

/-- comparisons of the MultiMap descent (one `<` per level) -/
def insMCmps (k : Int) : Tree → Nat
  | nil => 0
  | node _ k' _ _ _ l r => if k < k' then 1 + insMCmps k l else 1 + insMCmps k r

/-- hinted insert: go to the item at in-order position `idx` (the hint), run the private insert
    `f` in its left / right cell, and let the upward loop run on towards the root -/
def insAt (f : Tree → Tree × Bool) (right : Bool) (idx : Nat) : Tree → Tree × Bool
  | nil => (nil, false)
  | node i k v h s l r =>
    if idx < l.size then goL i k v h s r (insAt f right idx l)
    else if idx = l.size then
      (if right then goR i k v h s l (f r) else goL i k v h s r (f l))
    else goR i k v h s l (insAt f right (idx - l.size - 1) r)

/-- the subtree hanging in the left / right cell of the item at in-order position `idx` -/
def subAt (right : Bool) (idx : Nat) : Tree → Tree
  | nil => nil
  | node _ _ _ _ _ l r =>
    if idx < l.size then subAt right idx l
    else if idx = l.size then (if right then r else l)
    else subAt right (idx - l.size - 1) r

/-- `insertPos->value = value` for the item at in-order position `idx` -/
def setAt (v : Int) (idx : Nat) : Tree → Tree
  | nil => nil
  | node i k v' h s l r =>
    if idx < l.size then node i k v' h s (setAt v idx l) r
    else if idx = l.size then node i k v h s l r
    else node i k v' h s l (setAt v (idx - l.size - 1) r)

/-! ### remove -/

/-- unlink the in-order first item of a subtree (`next` of the removed item) and rebalance
    upwards with the early exit of the `rebalParent` loop -/
def popMin : Tree → Option ((Nat × Int × Int) × Tree × Bool)
  | nil => none
  | node i k v h s l r =>
    match popMin l with
    | none => some ((i, k, v), r, true)
    | some (m, p) => some (m, goL i k v h s r p)

def popMax : Tree → Option ((Nat × Int × Int) × Tree × Bool)
  | nil => none
  | node i k v h s l r =>
    match popMax r with
    | none => some ((i, k, v), l, true)
    | some (m, p) => some (m, goR i k v h s l p)

/-- `remove(it)` at the cell of the item -/
def removeRoot : Tree → Tree
  | nil => nil
  | node _ _ _ _ _ nil nil => nil
  | node _ _ _ _ _ nil r => r
  | node _ _ _ _ _ l nil => l
  | node _ _ _ h s l r =>
    if l.ht < r.ht then
      match popMin r with
      | some ((mi, mk, mv), r', _) => rebal (upd (node mi mk mv h s l r'))
      | none => nil
    else
      match popMax l with
      | some ((mi, mk, mv), l', _) => rebal (upd (node mi mk mv h s l' r))
      | none => nil

/-- `remove(it)` for the item at in-order position `idx` -/
def delIdx (idx : Nat) : Tree → Tree × Bool
  | nil => (nil, false)
  | node i k v h s l r =>
    if idx < l.size then goL i k v h s r (delIdx idx l)
    else if idx = l.size then (removeRoot (node i k v h s l r), true)
    else goR i k v h s l (delIdx (idx - l.size - 1) r)

/-! ### find -/

/-- `Map::find`: in-order position of the item found -/
def findIdx (k : Int) : Tree → Option Nat
  | nil => none
  | node _ k' _ _ _ l r =>
    if k > k' then (findIdx k r).map (fun j => l.size + 1 + j)
    else if k < k' then findIdx k l
    else some l.size

/-- comparisons made by `Map::find` -/
def findCmps (k : Int) : Tree → Nat
  | nil => 0
  | node _ k' _ _ _ l r =>
    if k > k' then 1 + findCmps k r
    else if k < k' then 2 + findCmps k l
    else 2

/-- `MultiMap::find` (repaired): `res` is the `result` variable, `off` the number of items to
    the left of the current subtree -/
def findMLoop (k : Int) (res : Option Nat) (off : Nat) : Tree → Option Nat
  | nil => res
  | node _ k' _ _ _ l r =>
    if k > k' then findMLoop k res (off + l.size + 1) r
    else findMLoop k (if k < k' then res else some (off + l.size)) off l

def findMIdx (k : Int) (t : Tree) : Option Nat := findMLoop k none 0 t

def findMCmps (k : Int) : Tree → Nat
  | nil => 0
  | node _ k' _ _ _ l r =>
    if k > k' then 1 + findMCmps k r else 2 + findMCmps k l

end Tree

open Tree

/-! ### the container -/

def insertBefore (p x : Nat) : List Nat → List Nat
  | [] => [x]
  | a :: as => if a = p then x :: a :: as else a :: insertBefore p x as

def insertAfter (p x : Nat) : List Nat → List Nat
  | [] => [x]
  | a :: as => if a = p then a :: x :: as else a :: insertAfter p x as

/-- linking a fresh item into the prev/next list (Map.hpp:423-440) -/
def threadIn (order : List Nat) (x : Nat) : Option (Nat × Bool) → List Nat
  | none => x :: order
  | some (p, true) => insertAfter p x order
  | some (p, false) => insertBefore p x order

/-- items per heap block of the node pool (translated from the current headers) -/
def ipbOf (multi : Bool) : Nat :=
  if multi then Nstd.Generated.Avl.itemsPerBlockMulti else Nstd.Generated.Avl.itemsPerBlockMap

/-- the items `b .. b+n-1` of a fresh block in the order the fill loop leaves them on the free
    list: the last slot on top -/
def blockItems (b : Nat) : Nat → List Nat
  | 0 => []
  | n + 1 => (b + n) :: blockItems b n

def idxOf (x : Nat) : List Nat → Nat
  | [] => 0
  | a :: as => if a = x then 0 else idxOf x as + 1

structure St where
  multi : Bool
  t : Tree := .nil
  order : List Nat := []
  size : Nat := 0
  free : List Nat := []
  blocks : Nat := 0
deriving Repr

def St.init (multi : Bool) : St := { multi := multi }

/-- take an item from the free list, allocating a block when it is empty -/
def St.alloc (s : St) : Nat × St :=
  match s.free with
  | i :: rest => (i, { s with free := rest })
  | [] =>
    match blockItems (ipbOf s.multi * s.blocks) (ipbOf s.multi) with
    | i :: rest => (i, { s with free := rest, blocks := s.blocks + 1 })
    | [] => (0, { s with blocks := s.blocks + 1 })   -- a block of zero items: the translator refuses that

inductive Ret where
  | none : Ret
  | it (pos : Nat) : Ret          -- an iterator, as position in the iteration (size = end)
  | bool (b : Bool) : Ret
  | num (n : Nat) : Ret
  | val (v : Option Int) : Ret
deriving Repr, DecidableEq

structure Out where
  ret : Ret
  cmps : Nat
deriving Repr, DecidableEq

inductive Op where
  | insert (k v : Int)
  | insertAt (p : Nat) (k v : Int)
  | removeKey (k : Int)
  | removeAt (p : Nat)
  | removeFront
  | removeBack
  | clear
  | find (k : Int)
  | contains (k : Int)
  | count (k : Int)
  | front
  | back
deriving Repr, DecidableEq

/-- the private insert started in cell `cell` whose content is `sub`; `mk` builds the new tree
    from the id of the new item -/
def St.insertIn (s : St) (k : Int) (cell : Option (Nat × Bool)) (sub : Tree)
    (mk : Nat → Tree) (c0 : Nat) : St × Out :=
  let ld := if s.multi then landM k cell sub else land k cell sub
  let c := c0 + (if s.multi then insMCmps k sub else insCmps k sub)
  match ld with
  | .found id =>
    let t' := mk 0
    ({ s with t := t' }, ⟨.it (idxOf id s.order), c⟩)
  | .leaf p =>
    let (id, s1) := s.alloc
    let order' := threadIn s.order id p
    ({ s1 with t := mk id, order := order', size := s.size + 1 }, ⟨.it (idxOf id order'), c⟩)

def St.insSub (s : St) (id : Nat) (k v : Int) : Tree → Tree × Bool :=
  if s.multi then insM id k v else ins id k v

/-- `insert(key, value)` = `insert(&root, 0, key, value)` -/
def St.insertRoot (s : St) (k v : Int) (c0 : Nat) : St × Out :=
  s.insertIn k none s.t (fun id => (s.insSub id k v s.t).1) c0

/-- `insert(&hint->left/right, hint, key, value)` for the hint at position `idx` -/
def St.insertUnder (s : St) (right : Bool) (idx : Nat) (hintId : Nat) (k v : Int) (c0 : Nat) : St × Out :=
  s.insertIn k (some (hintId, right)) (subAt right idx s.t)
    (fun id => (insAt (s.insSub id k v) right idx s.t).1) c0

/-- `insert(position, key, value)`; `p = size` is `end()` (Map.hpp:123-153, MultiMap.hpp:117-140) -/
def St.insertAt (s : St) (p : Nat) (k v : Int) : Option (St × Out) :=
  let es := s.t.inorder
  if p = s.size then
    match es.getLast? with
    | some (pi, pk, _) =>
      if k > pk then some (s.insertUnder true (s.size - 1) pi k v 1) else some (s.insertRoot k v 1)
    | none => some (s.insertRoot k v 0)
  else
    match es[p]? with
    | none => none
    | some (hi, hk, _) =>
      let prev := if p = 0 then none else es[p - 1]?
      let next := es[p + 1]?
      if s.multi then
        if k < hk then
          match prev with
          | none => some (s.insertUnder false p hi k v 1)
          | some (_, pk, _) =>
            if k ≥ pk then some (s.insertUnder false p hi k v 2) else some (s.insertRoot k v 2)
        else
          match next with
          | none => some (s.insertUnder true p hi k v 1)
          | some (_, nk, _) =>
            if k ≤ nk then some (s.insertUnder true p hi k v 2) else some (s.insertRoot k v 2)
      else
        if k < hk then
          match prev with
          | none => some (s.insertUnder false p hi k v 1)
          | some (_, pk, _) =>
            if k > pk then some (s.insertUnder false p hi k v 2) else some (s.insertRoot k v 2)
        else if k > hk then
          match next with
          | none => some (s.insertUnder true p hi k v 2)
          | some (_, nk, _) =>
            if k < nk then some (s.insertUnder true p hi k v 3) else some (s.insertRoot k v 3)
        else
          some ({ s with t := setAt v p s.t }, ⟨.it p, 2⟩)

/-- `remove(it)` for the iterator at position `p < size` -/
def St.removeAt (s : St) (p : Nat) (c0 : Nat) : Option (St × Out) :=
  match s.order[p]? with
  | none => none
  | some id =>
    some ({ s with t := (delIdx p s.t).1, order := s.order.eraseIdx p, size := s.size - 1,
                   free := id :: s.free }, ⟨.it p, c0⟩)

def St.findIdx (s : St) (k : Int) : Option Nat :=
  if s.multi then Tree.findMIdx k s.t else Tree.findIdx k s.t

def St.findCmps (s : St) (k : Int) : Nat :=
  if s.multi then Tree.findMCmps k s.t else Tree.findCmps k s.t

/-- the `==` walk of `MultiMap::count` (repaired) over the items after the one found:
    returns (equal keys seen, comparisons made) -/
def countWalk (k : Int) : List (Nat × Int × Int) → Nat × Nat
  | [] => (0, 0)
  | (_, k', _) :: rest =>
    if k' = k then let (n, c) := countWalk k rest; (n + 1, c + 1) else (0, 1)

def St.valueOf (s : St) (id : Nat) : Option Int :=
  (s.t.inorder.find? (fun e => e.1 == id)).map (fun e => e.2.2)

def step (s : St) : Op → Option (St × Out)
  | .insert k v => some (s.insertRoot k v 0)
  | .insertAt p k v => if p ≤ s.size then s.insertAt p k v else none
  | .removeKey k =>
    match s.findIdx k with
    | some p => (s.removeAt p (s.findCmps k)).map (fun r => (r.1, ⟨.none, r.2.cmps⟩))
    | none => some (s, ⟨.none, s.findCmps k⟩)
  | .removeAt p => s.removeAt p 0
  | .removeFront => s.removeAt 0 0
  | .removeBack => if s.size = 0 then none else s.removeAt (s.size - 1) 0
  | .clear =>
    some ({ s with t := .nil, order := [], size := 0, free := s.order.reverse ++ s.free }, ⟨.none, 0⟩)
  | .find k =>
    some (s, ⟨.it ((s.findIdx k).getD s.size), s.findCmps k⟩)
  | .contains k => some (s, ⟨.bool (s.findIdx k).isSome, s.findCmps k⟩)
  | .count k =>
    if s.multi then
      match s.findIdx k with
      | none => some (s, ⟨.num 0, s.findCmps k⟩)
      | some p =>
        let (n, c) := countWalk k (s.t.inorder.drop (p + 1))
        some (s, ⟨.num (n + 1), s.findCmps k + c⟩)
    else none
  | .front =>
    match s.order.head? with
    | some id => some (s, ⟨.val (s.valueOf id), 0⟩)
    | none => none
  | .back =>
    match s.order.getLast? with
    | some id => some (s, ⟨.val (s.valueOf id), 0⟩)
    | none => none

/-- iteration `begin() .. end()`: walks the prev/next list -/
def St.iter (s : St) : List (Int × Int) :=
  s.order.filterMap (fun id => (s.t.inorder.find? (fun e => e.1 == id)).map (fun e => e.2))

/-- an op the container rejects leaves the state unchanged -/
def step' (s : St) (op : Op) : St :=
  match step s op with
  | some r => r.1
  | none => s

def run (multi : Bool) (ops : List Op) : St := ops.foldl step' (St.init multi)

/-! ### several containers: copy and bulk insert (Map only) -/

/-- `Map::operator=(other)` for `this != &other`: `clear()` + plain inserts in iteration order;
    also returns the number of key comparisons -/
def St.assignFrom (dst src : St) : St × Nat :=
  let d0 := match step dst .clear with | some r => r.1 | none => dst
  src.iter.foldl (fun (d : St × Nat) e =>
    let r := d.1.insertRoot e.1 e.2 0
    (r.1, d.2 + r.2.cmps)) (d0, 0)

def Out.pos (o : Out) : Nat := match o.ret with | .it p => p | _ => 0

/-- `Map::insert(const Map& other)`: first item plainly, every further item with the iterator
    returned for the previous one as hint -/
def St.insertAll (dst src : St) : St × Nat :=
  match src.iter with
  | [] => (dst, 0)
  | e :: rest =>
    let r0 := dst.insertRoot e.1 e.2 0
    let r := rest.foldl (fun (acc : St × Nat × Nat) e =>
        match acc.1.insertAt acc.2.1 e.1 e.2 with
        | some r => (r.1, r.2.pos, acc.2.2 + r.2.cmps)
        | none => acc) (r0.1, r0.2.pos, r0.2.cmps)
    (r.1, r.2.2)

end Nstd.Avl
