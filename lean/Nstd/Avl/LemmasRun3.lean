import Nstd.Avl.LemmasHintM
/-
  MultiMap hinted insert at state level; removal; every step keeps `InvT`.
-/
namespace Nstd.Avl
open Tree

theorem insertUnder_multi_fields (s : St) (hm : s.multi = true) (right : Bool) (idx hid : Nat) (k v : Int) (c0 : Nat) :
    (s.insertUnder right idx hid k v c0).1.t = (insAt (insM s.alloc.1 k v) right idx s.t).1 ∧
    (s.insertUnder right idx hid k v c0).1.multi = true ∧
    (s.insertUnder right idx hid k v c0).1.size = s.size + 1 ∧
    (s.insertUnder right idx hid k v c0).1.order.length = s.order.length + 1 := by
  unfold St.insertUnder St.insertIn
  obtain ⟨a1, a2, a3, a4⟩ := alloc_fields s
  simp only [hm, if_true]
  obtain ⟨p, hp⟩ := landM_leaf k (some (hid, right)) (subAt right idx s.t)
  rw [hp]
  refine ⟨?_, ?_, rfl, threadIn_length _ _ _⟩
  · simp only [St.insSub, hm, if_true]
  · simp only; rw [a1, hm]

theorem insertUnder_invT_W (s : St) (hI : InvT s) (hm : s.multi = true) (right : Bool) (idx hid : Nat)
    (k v : Int) (c0 : Nat) (hidx : idx < s.t.size)
    (hlo : ∀ e ∈ s.t.inorder.take (if right then idx + 1 else idx), e.2.1 ≤ k)
    (hhi : ∀ e ∈ s.t.inorder.drop (if right then idx + 1 else idx), k ≤ e.2.1) :
    InvT (s.insertUnder right idx hid k v c0).1 := by
  obtain ⟨f1, f2, f3, f4⟩ := insertUnder_multi_fields s hm right idx hid k v c0
  have hf := fitsW_of_cut k right idx s.t hidx hlo hhi
  refine ⟨?_, ?_, ?_, ?_, ?_⟩
  · rw [f1]; exact (insAt_ok _ (insM_ok _ k v) right idx s.t hidx hI.avl).1
  · rw [f1]; exact sortedW_insAtM _ k v right idx s.t hI.sortedW hf
  · intro h; rw [f2] at h; exact absurd h (by simp)
  · rw [f3, f1, size_eq_length, insAtM_length _ k v right idx s.t hidx, hI.size, size_eq_length]
  · rw [f4, f3, hI.olen]

/-- MultiMap: a hinted insert is the plain insert, except when the key equals the key behind the
    hint: then the entry lands behind the hint somewhere inside the run of equal keys -/
theorem insertAt_multi_cases (s : St) (hI : InvT s) (hm : s.multi = true) (p : Nat) (k v : Int)
    (hp : p ≤ s.size) :
    ∃ r, s.insertAt p k v = some r ∧
      ((∃ c, r.1 = (s.insertRoot k v c).1 ∧ r.2.ret = (s.insertRoot k v c).2.ret) ∨
       (∃ hi hk hv ni nv c, s.t.inorder[p]? = some (hi, hk, hv) ∧ s.t.inorder[p + 1]? = some (ni, k, nv) ∧
          hk ≤ k ∧ r = s.insertUnder true p hi k v c)) := by
  have hW := hI.sortedW
  have hlen : s.t.inorder.length = s.size := by rw [hI.size, size_eq_length]
  have hfits : ∀ (right : Bool) (idx : Nat), idx < s.t.size →
      (∀ e ∈ s.t.inorder.take (if right then idx + 1 else idx), e.2.1 ≤ k) →
      (∀ e ∈ s.t.inorder.drop (if right then idx + 1 else idx), k < e.2.1) →
      (if s.multi then FitsM k right idx s.t else Fits k right idx s.t) := by
    intro right idx h1 h2 h3
    rw [hm]; simp only [if_true]
    exact fitsM_of_cut k right idx s.t h1 h2 h3
  unfold St.insertAt
  simp only [hm, if_true]
  by_cases hend : p = s.size
  · rw [if_pos hend]
    cases hlast : s.t.inorder.getLast? with
    | none => exact ⟨_, rfl, Or.inl ⟨0, rfl, rfl⟩⟩
    | some e =>
      obtain ⟨pi, pk, pv⟩ := e
      simp only
      by_cases hk : k > pk
      · rw [if_pos hk]
        have hne : s.size ≠ 0 := by
          intro h0; rw [h0] at hlen
          have : s.t.inorder = [] := List.eq_nil_of_length_eq_zero hlen
          rw [this] at hlast; simp at hlast
        have hh : s.t.inorder[s.size - 1]? = some (pi, pk, pv) := by
          rw [List.getLast?_eq_getElem?] at hlast; rw [← hlen]; exact hlast
        have hf := hfits true (s.size - 1) (by rw [← hI.size]; omega)
          (by
            intro e he
            simp only [if_true] at he
            have := prefix_bound hW hh e he
            simp only at this; omega)
          (by
            intro e he
            simp only [if_true] at he
            rw [List.drop_eq_nil_of_le (by omega)] at he
            simp at he)
        exact ⟨_, rfl, Or.inl ⟨1, insertUnder_eq s true (s.size - 1) pi k v pk pv 1 1 hh hf⟩⟩
      · rw [if_neg hk]; exact ⟨_, rfl, Or.inl ⟨1, rfl, rfl⟩⟩
  · rw [if_neg hend]
    have hplt : p < s.t.inorder.length := by omega
    cases hhint : s.t.inorder[p]? with
    | none => rw [List.getElem?_eq_none_iff] at hhint; omega
    | some e =>
      obtain ⟨hi, hk', hv⟩ := e
      simp only
      have hidx : p < s.t.size := by rw [size_eq_length]; exact hplt
      by_cases h1 : k < hk'
      · rw [if_pos h1]
        have hdrop : ∀ e ∈ s.t.inorder.drop p, k < e.2.1 := by
          intro e he
          have := suffix_bound hW hhint e he
          simp only at this; omega
        cases hprev : (if p = 0 then none else s.t.inorder[p - 1]?) with
        | none =>
          simp only
          have ht : ∀ e ∈ s.t.inorder.take p, e.2.1 ≤ k := by
            by_cases h0 : p = 0
            · subst h0; simp
            · rw [if_neg h0, List.getElem?_eq_none_iff] at hprev; omega
          have hf := hfits false p hidx (by simpa using ht) (by simpa using hdrop)
          exact ⟨_, rfl, Or.inl ⟨1, insertUnder_eq s false p hi k v hk' hv 1 1 hhint hf⟩⟩
        | some pe =>
          obtain ⟨ppi, ppk, ppv⟩ := pe
          simp only
          by_cases h2 : k ≥ ppk
          · rw [if_pos h2]
            have h0 : p ≠ 0 := by intro h0; rw [if_pos h0] at hprev; simp at hprev
            rw [if_neg h0] at hprev
            have ht : ∀ e ∈ s.t.inorder.take p, e.2.1 ≤ k := by
              intro e he
              have := take_le hW (b := ppk) (Or.inr ⟨_, hprev, Int.le_refl _⟩) e he
              omega
            have hf := hfits false p hidx (by simpa using ht) (by simpa using hdrop)
            exact ⟨_, rfl, Or.inl ⟨2, insertUnder_eq s false p hi k v hk' hv 2 2 hhint hf⟩⟩
          · rw [if_neg h2]; exact ⟨_, rfl, Or.inl ⟨2, rfl, rfl⟩⟩
      · rw [if_neg h1]
        have htake : ∀ e ∈ s.t.inorder.take (p + 1), e.2.1 ≤ k := by
          intro e he
          have := prefix_bound hW hhint e he
          simp only at this; omega
        cases hnext : s.t.inorder[p + 1]? with
        | none =>
          simp only
          have hf := hfits true p hidx (by simpa using htake)
            (by simp only [if_true]; rw [drop_eq_nil_of_none hnext]; simp)
          exact ⟨_, rfl, Or.inl ⟨1, insertUnder_eq s true p hi k v hk' hv 1 1 hhint hf⟩⟩
        | some ne =>
          obtain ⟨ni, nk, nv⟩ := ne
          simp only
          by_cases h3 : k ≤ nk
          · rw [if_pos h3]
            by_cases h4 : k < nk
            · have hf := hfits true p hidx (by simpa using htake)
                (by
                  intro e he
                  simp only [if_true] at he
                  have := suffix_bound hW hnext e he
                  simp only at this; omega)
              exact ⟨_, rfl, Or.inl ⟨2, insertUnder_eq s true p hi k v hk' hv 2 2 hhint hf⟩⟩
            · have e : nk = k := by omega
              subst e
              exact ⟨_, rfl, Or.inr ⟨hi, hk', hv, ni, nv, 2, rfl, rfl, by omega, rfl⟩⟩
          · rw [if_neg h3]; exact ⟨_, rfl, Or.inl ⟨2, rfl, rfl⟩⟩

theorem insertAt_invT (s : St) (hI : InvT s) (p : Nat) (k v : Int) (hp : p ≤ s.size) :
    ∃ r, s.insertAt p k v = some r ∧ InvT r.1 ∧ r.1.multi = s.multi := by
  cases hm : s.multi with
  | false =>
    obtain ⟨r, c, h1, h2, _⟩ := insertAt_map_state s hI hm p k v hp
    refine ⟨r, h1, ?_, ?_⟩
    · rw [h2]; exact insertRoot_invT s hI k v c
    · rw [h2]; obtain ⟨_, _, h, _⟩ := insertRoot_t s k v c; rw [h, hm]
  | true =>
    obtain ⟨r, h1, h2⟩ := insertAt_multi_cases s hI hm p k v hp
    refine ⟨r, h1, ?_⟩
    rcases h2 with ⟨c, h2, _⟩ | ⟨hi, hk, hv, ni, nv, c, g1, g2, g3, g4⟩
    · rw [h2]
      refine ⟨insertRoot_invT s hI k v c, ?_⟩
      obtain ⟨_, _, h, _⟩ := insertRoot_t s k v c; rw [h, hm]
    · have hidx : p < s.t.size := by
        rw [size_eq_length]
        have := List.getElem?_eq_some_iff.mp g1
        exact this.1
      rw [g4]
      refine ⟨insertUnder_invT_W s hI hm true p hi k v c hidx ?_ ?_, (insertUnder_multi_fields s hm true p hi k v c).2.1⟩
      · intro e he
        simp only [if_true] at he
        have := prefix_bound hI.sortedW g1 e he
        simp only at this; omega
      · intro e he
        simp only [if_true] at he
        have := suffix_bound hI.sortedW g2 e he
        simpa using this

theorem removeAt_invT (s : St) (hI : InvT s) (p c0 : Nat) :
    (p < s.size → ∃ r, s.removeAt p c0 = some r ∧ InvT r.1 ∧ r.1.multi = s.multi ∧
        abs r.1 = (abs s).eraseIdx p ∧ r.2 = ⟨.it p, c0⟩) ∧
    (¬ p < s.size → s.removeAt p c0 = none) := by
  unfold St.removeAt
  constructor
  · intro hp
    have hp' : p < s.order.length := by rw [hI.olen]; exact hp
    have hidx : p < s.t.size := by rw [← hI.size]; exact hp
    obtain ⟨d1, d2, d3, d4⟩ := delIdx_spec s.t hI.avl p hidx
    rw [List.getElem?_eq_getElem hp']
    refine ⟨_, rfl, ⟨?_, ?_, ?_, ?_, ?_⟩, rfl, ?_, rfl⟩
    · exact d1
    · simp only; rw [d2]; exact List.Pairwise.sublist (List.eraseIdx_sublist _ _) hI.sortedW
    · intro h; simp only; rw [d2]; exact List.Pairwise.sublist (List.eraseIdx_sublist _ _) (hI.sortedS h)
    · simp only
      rw [size_eq_length (delIdx p s.t).1, d2, List.length_eraseIdx, hI.size, size_eq_length]
      have : p < s.t.inorder.length := by rw [← size_eq_length]; exact hidx
      simp [this]
    · simp only
      rw [List.length_eraseIdx, hI.olen]
      simp [hp]
    · simp only [abs]; rw [d2, kv_eraseIdx]
  · intro hp
    have : s.order.length ≤ p := by rw [hI.olen]; omega
    rw [List.getElem?_eq_none this]

theorem findIdx_abs (s : St) (hI : InvT s) (k : Int) : s.findIdx k = Spec.find k (abs s) := by
  unfold St.findIdx abs
  cases hm : s.multi with
  | false => simp only [Bool.false_eq_true, if_false]; rw [findIdx_spec k s.t (hI.sortedS hm), firstIdx_kv]
  | true => simp only [if_true]; rw [findMIdx_spec k s.t hI.sortedW, firstIdx_kv]

theorem find_lt (k : Int) (xs : List Spec.KV) (i : Nat) (h : Spec.find k xs = some i) : i < xs.length := by
  unfold Spec.find at h
  exact (List.findIdx?_eq_some_iff_getElem.mp h).1

theorem abs_length (s : St) (hI : InvT s) : (abs s).length = s.size := by
  simp [abs, kv, hI.size, size_eq_length]

/-- every operation keeps the tree invariant (and the container kind) -/
theorem step_invT (s : St) (hI : InvT s) (op : Op) (r : St × Out) (h : step s op = some r) :
    InvT r.1 ∧ r.1.multi = s.multi := by
  cases op with
  | insert k v =>
    simp only [step, Option.some.injEq] at h; subst h
    refine ⟨insertRoot_invT s hI k v 0, ?_⟩
    obtain ⟨_, _, h, _⟩ := insertRoot_t s k v 0; exact h
  | insertAt p k v =>
    simp only [step] at h
    by_cases hp : p ≤ s.size
    · rw [if_pos hp] at h
      obtain ⟨r', h1, h2, h3⟩ := insertAt_invT s hI p k v hp
      rw [h1] at h; simp only [Option.some.injEq] at h; subst h; exact ⟨h2, h3⟩
    · rw [if_neg hp] at h; simp at h
  | removeKey k =>
    simp only [step] at h
    cases hf : s.findIdx k with
    | none => rw [hf] at h; simp only [Option.some.injEq] at h; subst h; exact ⟨hI, rfl⟩
    | some p =>
      rw [hf] at h
      have hp : p < s.size := by
        rw [findIdx_abs s hI] at hf; rw [← abs_length s hI]; exact find_lt k _ p hf
      obtain ⟨r', h1, h2, h3, _⟩ := (removeAt_invT s hI p (s.findCmps k)).1 hp
      simp only at h
      rw [h1] at h; simp only [Option.map_some, Option.some.injEq] at h; subst h; exact ⟨h2, h3⟩
  | removeAt p =>
    simp only [step] at h
    by_cases hp : p < s.size
    · obtain ⟨r', h1, h2, h3, _⟩ := (removeAt_invT s hI p 0).1 hp
      rw [h1] at h; simp only [Option.some.injEq] at h; subst h; exact ⟨h2, h3⟩
    · rw [(removeAt_invT s hI p 0).2 hp] at h; simp at h
  | removeFront =>
    simp only [step] at h
    by_cases hp : 0 < s.size
    · obtain ⟨r', h1, h2, h3, _⟩ := (removeAt_invT s hI 0 0).1 hp
      rw [h1] at h; simp only [Option.some.injEq] at h; subst h; exact ⟨h2, h3⟩
    · rw [(removeAt_invT s hI 0 0).2 hp] at h; simp at h
  | removeBack =>
    simp only [step] at h
    by_cases h0 : s.size = 0
    · rw [if_pos h0] at h; simp at h
    · rw [if_neg h0] at h
      obtain ⟨r', h1, h2, h3, _⟩ := (removeAt_invT s hI (s.size - 1) 0).1 (by omega)
      rw [h1] at h; simp only [Option.some.injEq] at h; subst h; exact ⟨h2, h3⟩
  | clear =>
    simp only [step, Option.some.injEq] at h; subst h
    exact ⟨⟨trivial, List.Pairwise.nil, fun _ => List.Pairwise.nil, rfl, rfl⟩, rfl⟩
  | find k => simp only [step, Option.some.injEq] at h; subst h; exact ⟨hI, rfl⟩
  | contains k => simp only [step, Option.some.injEq] at h; subst h; exact ⟨hI, rfl⟩
  | count k =>
    simp only [step] at h
    split at h
    · split at h
      · simp only [Option.some.injEq] at h; subst h; exact ⟨hI, rfl⟩
      · simp only [Option.some.injEq] at h; subst h; exact ⟨hI, rfl⟩
    · simp at h
  | front =>
    simp only [step] at h
    split at h
    · simp only [Option.some.injEq] at h; subst h; exact ⟨hI, rfl⟩
    · simp at h
  | back =>
    simp only [step] at h
    split at h
    · simp only [Option.some.injEq] at h; subst h; exact ⟨hI, rfl⟩
    · simp at h

end Nstd.Avl
