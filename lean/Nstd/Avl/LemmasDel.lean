import Nstd.Avl.LemmasBal
/-
  Removal keeps the balance invariant; in-order sequence of the result = `eraseIdx`.
-/
namespace Nstd.Avl
namespace Tree

/-- removal step through `goL`: the left subtree kept its height or lost one level -/
theorem goL_del (i k v h s) (l r : Tree) (p : Tree × Bool)
    (hA : Avl (node i k v h s l r)) (hp : Avl p.1)
    (hd : p.1.height = l.height ∨ p.1.height + 1 = l.height)
    (hc : p.2 = false → p.1.height = l.height) :
    Avl (goL i k v h s r p).1 ∧
    (goL i k v h s r p).1.inorder = p.1.inorder ++ (i, k, v) :: r.inorder ∧
    ((goL i k v h s r p).1.height = (node i k v h s l r).height ∨
      (goL i k v h s r p).1.height + 1 = (node i k v h s l r).height) ∧
    ((goL i k v h s r p).2 = false → (goL i k v h s r p).1.height = (node i k v h s l r).height) := by
  obtain ⟨g1, g2, g3, g4, g5⟩ := goL_spec i k v h s l r p hA hp (by omega) hc
  rw [avl_node] at hA
  obtain ⟨_, _, e, e2, _, _⟩ := hA
  refine ⟨g1, g2, ?_, ?_⟩
  · simp only [height_node]; omega
  · intro hf; have := g3 hf; simp only [height_node]; omega

theorem goR_del (i k v h s) (l r : Tree) (p : Tree × Bool)
    (hA : Avl (node i k v h s l r)) (hp : Avl p.1)
    (hd : p.1.height = r.height ∨ p.1.height + 1 = r.height)
    (hc : p.2 = false → p.1.height = r.height) :
    Avl (goR i k v h s l p).1 ∧
    (goR i k v h s l p).1.inorder = l.inorder ++ (i, k, v) :: p.1.inorder ∧
    ((goR i k v h s l p).1.height = (node i k v h s l r).height ∨
      (goR i k v h s l p).1.height + 1 = (node i k v h s l r).height) ∧
    ((goR i k v h s l p).2 = false → (goR i k v h s l p).1.height = (node i k v h s l r).height) := by
  obtain ⟨g1, g2, g3, g4, g5⟩ := goR_spec i k v h s l r p hA hp (by omega) hc
  rw [avl_node] at hA
  obtain ⟨_, _, e, e2, _, _⟩ := hA
  refine ⟨g1, g2, ?_, ?_⟩
  · simp only [height_node]; omega
  · intro hf; have := g3 hf; simp only [height_node]; omega

/-- `popMin` on a non-empty AVL tree -/
theorem popMin_spec (t : Tree) (hA : Avl t) (hne : t ≠ nil) :
    ∃ m p, popMin t = some (m, p) ∧ Avl p.1 ∧ t.inorder = m :: p.1.inorder ∧
      (p.1.height = t.height ∨ p.1.height + 1 = t.height) ∧ (p.2 = false → p.1.height = t.height) := by
  induction t with
  | nil => exact absurd rfl hne
  | node i k v h s l r ihl _ =>
    have hA' := hA
    rw [avl_node] at hA
    obtain ⟨hl, hr, hh, hs, hs1, hs2⟩ := hA
    by_cases hl0 : l = nil
    · subst hl0
      refine ⟨(i, k, v), (r, true), ?_, hr, by simp, ?_, by simp⟩
      · simp [popMin]
      · simp only [height_node, height_nil]; omega
    · obtain ⟨m, p, hp, hl', hin, hht, hc⟩ := ihl hl hl0
      obtain ⟨g1, g2, g3, g4⟩ := goL_del i k v h s l r p hA' hl' hht hc
      refine ⟨m, goL i k v h s r p, ?_, g1, ?_, g3, g4⟩
      · simp [popMin, hp]
      · simp [g2, hin]

/-- `popMax` on a non-empty AVL tree -/
theorem popMax_spec (t : Tree) (hA : Avl t) (hne : t ≠ nil) :
    ∃ m p, popMax t = some (m, p) ∧ Avl p.1 ∧ t.inorder = p.1.inorder ++ [m] ∧
      (p.1.height = t.height ∨ p.1.height + 1 = t.height) ∧ (p.2 = false → p.1.height = t.height) := by
  induction t with
  | nil => exact absurd rfl hne
  | node i k v h s l r _ ihr =>
    have hA' := hA
    rw [avl_node] at hA
    obtain ⟨hl, hr, hh, hs, hs1, hs2⟩ := hA
    by_cases hr0 : r = nil
    · subst hr0
      refine ⟨(i, k, v), (l, true), ?_, hl, by simp, ?_, by simp⟩
      · simp [popMax]
      · simp only [height_node, height_nil]; omega
    · obtain ⟨m, p, hp, hr', hin, hht, hc⟩ := ihr hr hr0
      obtain ⟨g1, g2, g3, g4⟩ := goR_del i k v h s l r p hA' hr' hht hc
      refine ⟨m, goR i k v h s l p, ?_, g1, ?_, g3, g4⟩
      · simp [popMax, hp]
      · simp [g2, hin]

/-- removing the item stored at the root of an AVL subtree -/
theorem removeRoot_spec (i k v h s) (l r : Tree) (hA : Avl (node i k v h s l r)) :
    Avl (removeRoot (node i k v h s l r)) ∧
    (removeRoot (node i k v h s l r)).inorder = l.inorder ++ r.inorder ∧
    ((removeRoot (node i k v h s l r)).height = h ∨ (removeRoot (node i k v h s l r)).height + 1 = h) := by
  rw [avl_node] at hA
  obtain ⟨hl, hr, hh, hs, hs1, hs2⟩ := hA
  cases hl0 : l with
  | nil =>
    cases hr0 : r with
    | nil => subst hl0 hr0; simp [removeRoot] at *; omega
    | node ri rk rv rh rs rl rr =>
      subst hl0; rw [hr0] at hr hh hs
      simp only [removeRoot]
      refine ⟨hr, by simp, ?_⟩
      simp only [height_node, height_nil] at *; omega
  | node li lk lv lh ls ll lr =>
    cases hr0 : r with
    | nil =>
      subst hr0; rw [hl0] at hl hh hs
      simp only [removeRoot]
      refine ⟨hl, by simp, ?_⟩
      simp only [height_node, height_nil] at *; omega
    | node ri rk rv rh rs rl rr =>
      rw [← hl0, ← hr0]
      have hlne : l ≠ nil := by rw [hl0]; simp
      have hrne : r ≠ nil := by rw [hr0]; simp
      have e : removeRoot (node i k v h s l r) =
          (if l.ht < r.ht then
            match popMin r with
            | some ((mi, mk, mv), r', _) => rebal (upd (node mi mk mv h s l r'))
            | none => nil
          else
            match popMax l with
            | some ((mi, mk, mv), l', _) => rebal (upd (node mi mk mv h s l' r))
            | none => nil) := by
        rw [hl0, hr0]; rfl
      rw [e]
      by_cases hlt : l.ht < r.ht
      · simp only [hlt, if_true]
        obtain ⟨m, p, hp, hr', hin, hht, _⟩ := popMin_spec r hr hrne
        obtain ⟨mi, mk, mv⟩ := m
        obtain ⟨r', c⟩ := p
        simp only at hr' hin hht
        simp only [hp]
        have g := rebal_spec mi mk mv h s l r' hl hr' (by omega)
        obtain ⟨g1, g2, g3⟩ := g
        refine ⟨g1, ?_, ?_⟩
        · simp [g2, hin]
        · rw [ht_eq_height hl, ht_eq_height hr] at hlt
          omega
      · simp only [hlt, if_false]
        obtain ⟨m, p, hp, hl', hin, hht, _⟩ := popMax_spec l hl hlne
        obtain ⟨mi, mk, mv⟩ := m
        obtain ⟨l', c⟩ := p
        simp only at hl' hin hht
        simp only [hp]
        have g := rebal_spec mi mk mv h s l' r hl' hr (by omega)
        obtain ⟨g1, g2, g3⟩ := g
        refine ⟨g1, ?_, ?_⟩
        · simp [g2, hin]
        · rw [ht_eq_height hl, ht_eq_height hr] at hlt
          omega

/-- `Map::remove(iterator)` for the item at in-order position `idx`: the tree stays AVL with correct
    stored fields, the in-order sequence loses exactly that entry, the height shrinks by at most one and
    a `false` flag means ancestors need no update. -/
theorem delIdx_spec (t : Tree) (hA : Avl t) (idx : Nat) (hidx : idx < t.size) :
    Avl (delIdx idx t).1 ∧ (delIdx idx t).1.inorder = t.inorder.eraseIdx idx ∧
    ((delIdx idx t).1.height = t.height ∨ (delIdx idx t).1.height + 1 = t.height) ∧
    ((delIdx idx t).2 = false → (delIdx idx t).1.height = t.height) := by
  induction t generalizing idx with
  | nil => simp at hidx
  | node i k v h s l r ihl ihr =>
    have hA' := hA
    rw [avl_node] at hA
    obtain ⟨hl, hr, hh, hs, hs1, hs2⟩ := hA
    simp only [delIdx]
    by_cases h1 : idx < l.size
    · simp only [h1, if_true]
      obtain ⟨a1, a2, a3, a4⟩ := ihl hl idx h1
      have hlen : idx < l.inorder.length := by rw [← size_eq_length]; exact h1
      obtain ⟨g1, g2, g3, g4⟩ := goL_del i k v h s l r _ hA' a1 a3 a4
      refine ⟨g1, ?_, g3, g4⟩
      simp [g2, a2, List.eraseIdx_append_of_lt_length hlen]
    · simp only [h1, if_false]
      by_cases h2 : idx = l.size
      · simp only [h2, if_true]
        obtain ⟨r1, r2, r3⟩ := removeRoot_spec i k v h s l r hA'
        refine ⟨r1, ?_, ?_, by simp⟩
        · rw [r2, size_eq_length]; simp [List.eraseIdx_append_of_length_le]
        · simp only [height_node]; omega
      · simp only [h2, if_false]
        have hidx' : idx - l.size - 1 < r.size := by simp only [size_node] at hidx; omega
        obtain ⟨a1, a2, a3, a4⟩ := ihr hr (idx - l.size - 1) hidx'
        have hge : l.inorder.length ≤ idx := by rw [← size_eq_length]; omega
        have herase : (l.inorder ++ (i, k, v) :: r.inorder).eraseIdx idx
            = l.inorder ++ (i, k, v) :: r.inorder.eraseIdx (idx - l.size - 1) := by
          rw [List.eraseIdx_append_of_length_le hge]
          have : idx - l.inorder.length = (idx - l.size - 1) + 1 := by rw [← size_eq_length]; omega
          rw [this]; rfl
        obtain ⟨g1, g2, g3, g4⟩ := goR_del i k v h s l r _ hA' a1 a3 a4
        refine ⟨g1, ?_, g3, g4⟩
        simp only [inorder_node, g2, a2, herase]

end Tree
end Nstd.Avl
