import Nstd.Avl.LemmasHeapRemove
/-
  The descent of the private insert (translated into Generated/AvlRot.lean as `insertDescend_loop`: the `begin:` / `goto
  begin` loop — or the `for` loop of a restructured header — with the part that links the new item cut off) against the
  model's `land` / `landM` and `insCmps` / `insMCmps`.
-/
namespace Nstd.Avl
open Tree
open Nstd.Avl.Heap
open Nstd.Generated.AvlRot

/-- the model's cell `(parent id, right?)` (`none` = the root cell) as an `Item**` -/
def cellOf : Option (Nat × Bool) → Cell
  | none => .root
  | some (i, true) => .right (i + 1)
  | some (i, false) => .left (i + 1)

/-- … and the `parent` that goes with it -/
def parOf : Option (Nat × Bool) → Nat
  | none => 0
  | some (i, _) => i + 1

/-- the cell in which the Map descent for `k` stops (an empty cell, or the cell of the item with the key) -/
def landCell (k : Int) : Option (Nat × Bool) → Tree → Option (Nat × Bool)
  | c, .nil => c
  | c, .node i k' _ _ _ l r =>
    if k > k' then landCell k (some (i, true)) r
    else if k < k' then landCell k (some (i, false)) l
    else c

theorem landCell_leaf (k : Int) : ∀ (t : Tree) (c c' : Option (Nat × Bool)), Tree.land k c t = .leaf c' → landCell k c t = c' := by
  intro t
  induction t with
  | nil => intro c c' h; simpa [Tree.land, landCell] using h
  | node i k' v hh s l r ihl ihr =>
    intro c c' h
    simp only [Tree.land, landCell] at h ⊢
    by_cases h1 : k > k'
    · simp only [h1, if_true] at h ⊢; exact ihr _ _ h
    · simp only [h1, if_false] at h ⊢
      by_cases h2 : k < k'
      · simp only [h2, if_true] at h ⊢; exact ihl _ _ h
      · simp only [h2, if_false] at h; cases h

/-- **The descent of `Map::insert(cell, parent, key, value)`** (the `begin:` … `goto begin` loop, or the `for` loop of a
    restructured header — both shapes translate to the same function): started in the cell `mc`, it stops where the
    model's `land` stops, after `insCmps` comparisons: at the item with the key (its value is overwritten), or in an
    empty cell with the `parent` the new item will get. -/
theorem map_descend_loop (h : Heap) (k v : Int) : ∀ (t : Tree) (mc : Option (Nat × Bool)) (c fuel pos0 : Nat),
    Repr h (h.get (cellOf mc)) (parOf mc) t → t.height < fuel →
    Map.insertDescend_loop fuel h c (cellOf mc) (parOf mc) k v pos0 =
      some (match Tree.land k mc t with
        | .found id => (h.setValue (id + 1) v, 0, id + 1, cellOf (landCell k mc t), c + Tree.insCmps k t)
        | .leaf mc' => (h, 1, parOf mc', cellOf mc', c + Tree.insCmps k t)) := by
  intro t
  induction t with
  | nil =>
    intro mc c fuel pos0 hr hf
    have : h.get (cellOf mc) = 0 := hr
    cases fuel with
    | zero => simp [Tree.height] at hf
    | succ f => rw [Map.insertDescend_loop]; simp [this, Tree.land, Tree.insCmps]
  | node i k' v' hh s l r ihl ihr =>
    intro mc c fuel pos0 hr hf
    rw [repr_node_iff] at hr
    obtain ⟨eP, kP, _, _, _, _, rL, rR⟩ := hr
    cases fuel with
    | zero => simp at hf
    | succ f =>
      simp only [Tree.height] at hf
      rw [Map.insertDescend_loop]
      generalize h.get (cellOf mc) = P at *
      subst eP
      simp only [ne_eq, Nat.add_eq_zero_iff, Nat.succ_ne_self, and_false, not_false_eq_true, if_true, kP, Tree.land,
        Tree.insCmps, landCell]
      by_cases h1 : k > k'
      · simp only [h1, if_true]
        have := ihr (some (i, true)) (c + 1) f (i + 1) rR (by omega)
        refine this.trans ?_
        simp only [Nat.add_assoc]
      · simp only [h1, if_false]
        by_cases h2 : k < k'
        · simp only [h2, if_true]
          have := ihl (some (i, false)) (c + 1 + 1) f (i + 1) rL (by omega)
          refine this.trans ?_
          have e : c + 1 + 1 + insCmps k l = c + (2 + insCmps k l) := by omega
          rw [e]
        · simp only [h2, if_false]

/-- **The descent of `MultiMap::insert(cell, parent, key, value)`**: one `<` per level, always ends in an empty cell —
    the one the model's `landM` names — after `insMCmps` comparisons. -/
theorem multi_descend_loop (h : Heap) (k v : Int) : ∀ (t : Tree) (mc : Option (Nat × Bool)) (c fuel pos0 : Nat),
    Repr h (h.get (cellOf mc)) (parOf mc) t → t.height < fuel →
    ∃ mc', Tree.landM k mc t = .leaf mc' ∧
      Multi.insertDescend_loop fuel h c (cellOf mc) (parOf mc) k v pos0 =
        some (1, parOf mc', cellOf mc', c + Tree.insMCmps k t) := by
  intro t
  induction t with
  | nil =>
    intro mc c fuel pos0 hr hf
    have : h.get (cellOf mc) = 0 := hr
    cases fuel with
    | zero => simp [Tree.height] at hf
    | succ f => exact ⟨mc, rfl, by rw [Multi.insertDescend_loop]; simp [this, Tree.insMCmps]⟩
  | node i k' v' hh s l r ihl ihr =>
    intro mc c fuel pos0 hr hf
    rw [repr_node_iff] at hr
    obtain ⟨eP, kP, _, _, _, _, rL, rR⟩ := hr
    cases fuel with
    | zero => simp at hf
    | succ f =>
      simp only [Tree.height] at hf
      rw [Multi.insertDescend_loop]
      generalize h.get (cellOf mc) = P at *
      subst eP
      simp only [ne_eq, Nat.add_eq_zero_iff, Nat.succ_ne_self, and_false, not_false_eq_true, if_true, kP, Tree.landM,
        Tree.insMCmps]
      by_cases h1 : k < k'
      · simp only [h1, if_true]
        obtain ⟨mc', e1, e2⟩ := ihl (some (i, false)) (c + 1) f (i + 1) rL (by omega)
        refine ⟨mc', e1, e2.trans ?_⟩
        simp only [Nat.add_assoc]
      · simp only [h1, if_false]
        obtain ⟨mc', e1, e2⟩ := ihr (some (i, true)) (c + 1) f (i + 1) rR (by omega)
        refine ⟨mc', e1, e2.trans ?_⟩
        simp only [Nat.add_assoc]

/-- the model's cell a context's hole is -/
def Ctx.mcell : Ctx → Option (Nat × Bool)
  | .top => none
  | .left i _ _ _ _ _ _ => some (i, false)
  | .right i _ _ _ _ _ _ => some (i, true)

theorem cellOf_mcell (ctx : Ctx) : cellOf ctx.mcell = ctx.cell ∧ parOf ctx.mcell = ctx.par := by
  cases ctx <;> exact ⟨rfl, rfl⟩


end Nstd.Avl
