import Nstd.Avl.LemmasRun4
/-
  The prev/next list: after every operation it is the in-order sequence of the item ids of
  the tree; ids are pairwise distinct and disjoint from the free list.
-/
namespace Nstd.Avl
open Tree

def ids (t : Tree) : List Nat := t.inorder.map (fun e => e.1)

@[simp] theorem ids_nil : ids .nil = [] := rfl
@[simp] theorem ids_node (i k v h s l r) : ids (.node i k v h s l r) = ids l ++ i :: ids r := by
  simp [ids]

theorem ids_goL (i k v h s r) (p : Tree × Bool) : ids (goL i k v h s r p).1 = ids p.1 ++ i :: ids r := by
  simp [ids]

theorem ids_goR (i k v h s l) (p : Tree × Bool) : ids (goR i k v h s l p).1 = ids l ++ i :: ids p.1 := by
  simp [ids]

/-! ### list surgery -/

theorem insertAfter_append_mem (p x : Nat) (xs ys : List Nat) (h : p ∈ xs) :
    insertAfter p x (xs ++ ys) = insertAfter p x xs ++ ys := by
  induction xs with
  | nil => simp at h
  | cons a as ih =>
    simp only [List.cons_append, insertAfter]
    by_cases ha : a = p
    · simp [ha]
    · have : p ∈ as := by
        rcases List.mem_cons.mp h with h | h
        · exact absurd h.symm ha
        · exact h
      simp [ha, ih this]

theorem insertBefore_append_mem (p x : Nat) (xs ys : List Nat) (h : p ∈ xs) :
    insertBefore p x (xs ++ ys) = insertBefore p x xs ++ ys := by
  induction xs with
  | nil => simp at h
  | cons a as ih =>
    simp only [List.cons_append, insertBefore]
    by_cases ha : a = p
    · simp [ha]
    · have : p ∈ as := by
        rcases List.mem_cons.mp h with h | h
        · exact absurd h.symm ha
        · exact h
      simp [ha, ih this]

theorem insertAfter_append_not_mem (p x : Nat) (xs ys : List Nat) (h : p ∉ xs) :
    insertAfter p x (xs ++ ys) = xs ++ insertAfter p x ys := by
  induction xs with
  | nil => rfl
  | cons a as ih =>
    simp only [List.mem_cons, not_or] at h
    simp only [List.cons_append, insertAfter]
    rw [if_neg (fun e => h.1 e.symm), ih h.2]

theorem insertBefore_append_not_mem (p x : Nat) (xs ys : List Nat) (h : p ∉ xs) :
    insertBefore p x (xs ++ ys) = xs ++ insertBefore p x ys := by
  induction xs with
  | nil => rfl
  | cons a as ih =>
    simp only [List.mem_cons, not_or] at h
    simp only [List.cons_append, insertBefore]
    rw [if_neg (fun e => h.1 e.symm), ih h.2]

/-- linking next to `pid` -/
def linkAt (right : Bool) (pid x : Nat) (l : List Nat) : List Nat :=
  if right then insertAfter pid x l else insertBefore pid x l

theorem linkAt_append_mem (right : Bool) (p x : Nat) (xs ys : List Nat) (h : p ∈ xs) :
    linkAt right p x (xs ++ ys) = linkAt right p x xs ++ ys := by
  unfold linkAt; split
  · exact insertAfter_append_mem p x xs ys h
  · exact insertBefore_append_mem p x xs ys h

theorem linkAt_append_not_mem (right : Bool) (p x : Nat) (xs ys : List Nat) (h : p ∉ xs) :
    linkAt right p x (xs ++ ys) = xs ++ linkAt right p x ys := by
  unfold linkAt; split
  · exact insertAfter_append_not_mem p x xs ys h
  · exact insertBefore_append_not_mem p x xs ys h

theorem threadIn_some (l : List Nat) (x pid : Nat) (right : Bool) :
    threadIn l x (some (pid, right)) = linkAt right pid x l := by
  cases right <;> rfl

theorem linkAt_perm (right : Bool) (p x : Nat) (l : List Nat) : (linkAt right p x l).Perm (x :: l) := by
  unfold linkAt
  induction l with
  | nil => split <;> exact List.Perm.refl _
  | cons a as ih =>
    split
    · rename_i hr
      simp only [hr, if_true] at ih
      simp only [insertAfter]
      split
      · exact List.Perm.swap _ _ _
      · exact (List.Perm.cons a ih).trans (List.Perm.swap _ _ _)
    · rename_i hr
      simp only [hr, if_false] at ih
      simp only [insertBefore]
      split
      · exact List.Perm.refl _
      · exact (List.Perm.cons a ih).trans (List.Perm.swap _ _ _)

theorem threadIn_perm (l : List Nat) (x : Nat) (c : Option (Nat × Bool)) : (threadIn l x c).Perm (x :: l) := by
  cases c with
  | none => exact List.Perm.refl _
  | some pr => obtain ⟨p, r⟩ := pr; rw [threadIn_some]; exact linkAt_perm r p x l

/-! ### the in-order ids after an insert = the ids before, with the new id linked next to its parent -/

/-- what the landing of a descent says about the ids of the result -/
def LinkOk (t : Tree) (c : Option (Nat × Bool)) (ld : Landing) (newId : Nat) (res : List Nat) : Prop :=
  match ld with
  | .found _ => res = ids t
  | .leaf p =>
    (t = .nil ∧ p = c ∧ res = [newId]) ∨
    (∃ pid right, p = some (pid, right) ∧ pid ∈ ids t ∧ res = linkAt right pid newId (ids t))

theorem linkOk_step_right (i : Nat) (L : List Nat) (r : Tree) (c : Option (Nat × Bool)) (ld : Landing)
    (newId : Nat) (res : List Nat) (hnd : (L ++ i :: ids r).Nodup)
    (h : LinkOk r (some (i, true)) ld newId res) (t : Tree) (ht : ids t = L ++ i :: ids r) (hne : t ≠ .nil) :
    LinkOk t c ld newId (L ++ i :: res) := by
  have hiL : i ∉ L := by
    rw [List.nodup_append] at hnd
    intro hi; exact hnd.2.2 i hi i (by simp) rfl
  cases ld with
  | found fid => simp only [LinkOk] at h ⊢; rw [h, ht]
  | leaf p =>
    simp only [LinkOk] at h ⊢
    right
    rcases h with ⟨h1, h2, h3⟩ | ⟨pid, right, h1, h2, h3⟩
    · refine ⟨i, true, h2, by rw [ht]; simp, ?_⟩
      rw [h3, ht, h1]
      simp only [ids_nil]
      rw [linkAt_append_not_mem true i newId L _ hiL]
      simp [linkAt, insertAfter]
    · refine ⟨pid, right, h1, by rw [ht]; simp [h2], ?_⟩
      rw [h3, ht]
      have hp : pid ∉ L ++ [i] := by
        rw [List.nodup_append] at hnd
        intro hp
        rcases List.mem_append.mp hp with hp | hp
        · exact hnd.2.2 pid hp pid (by simp [h2]) rfl
        · simp at hp; subst hp
          have := (List.nodup_cons.mp hnd.2.1).1
          exact this h2
      have := linkAt_append_not_mem right pid newId (L ++ [i]) (ids r) hp
      simpa using this.symm

theorem linkOk_step_left (i : Nat) (l : Tree) (R : List Nat) (c : Option (Nat × Bool)) (ld : Landing)
    (newId : Nat) (res : List Nat) (hnd : (ids l ++ i :: R).Nodup)
    (h : LinkOk l (some (i, false)) ld newId res) (t : Tree) (ht : ids t = ids l ++ i :: R) (hne : t ≠ .nil) :
    LinkOk t c ld newId (res ++ i :: R) := by
  cases ld with
  | found fid => simp only [LinkOk] at h ⊢; rw [h, ht]
  | leaf p =>
    simp only [LinkOk] at h ⊢
    right
    rcases h with ⟨h1, h2, h3⟩ | ⟨pid, right, h1, h2, h3⟩
    · refine ⟨i, false, h2, by rw [ht]; simp, ?_⟩
      rw [h3, ht, h1]
      simp [linkAt, insertBefore]
    · refine ⟨pid, right, h1, by rw [ht]; simp [h2], ?_⟩
      rw [h3, ht]
      exact (linkAt_append_mem right pid newId (ids l) _ h2).symm

theorem ids_ins (id : Nat) (k v : Int) (t : Tree) (c : Option (Nat × Bool)) (hnd : (ids t).Nodup) :
    LinkOk t c (land k c t) id (ids (ins id k v t).1) := by
  induction t generalizing c with
  | nil => simp [LinkOk, land, ins, ids]
  | node i k' v' h s l r ihl ihr =>
    rw [ids_node] at hnd
    have hl : (ids l).Nodup := (List.nodup_append.mp hnd).1
    have hr : (ids r).Nodup := (List.nodup_cons.mp (List.nodup_append.mp hnd).2.1).2
    simp only [land, ins]
    by_cases h1 : k > k'
    · rw [if_pos h1, if_pos h1, ids_goR]
      exact linkOk_step_right i (ids l) r c _ id _ hnd (ihr _ hr) _ (ids_node ..) (by simp)
    · by_cases h2 : k < k'
      · rw [if_neg h1, if_pos h2, if_neg h1, if_pos h2, ids_goL]
        exact linkOk_step_left i l (ids r) c _ id _ hnd (ihl _ hl) _ (ids_node ..) (by simp)
      · rw [if_neg h1, if_neg h2, if_neg h1, if_neg h2]
        simp [LinkOk]

theorem ids_insM (id : Nat) (k v : Int) (t : Tree) (c : Option (Nat × Bool)) (hnd : (ids t).Nodup) :
    LinkOk t c (landM k c t) id (ids (insM id k v t).1) := by
  induction t generalizing c with
  | nil => simp [LinkOk, landM, insM, ids]
  | node i k' v' h s l r ihl ihr =>
    rw [ids_node] at hnd
    have hl : (ids l).Nodup := (List.nodup_append.mp hnd).1
    have hr : (ids r).Nodup := (List.nodup_cons.mp (List.nodup_append.mp hnd).2.1).2
    simp only [landM, insM]
    by_cases h2 : k < k'
    · rw [if_pos h2, if_pos h2, ids_goL]
      exact linkOk_step_left i l (ids r) c _ id _ hnd (ihl _ hl) _ (ids_node ..) (by simp)
    · rw [if_neg h2, if_neg h2, ids_goR]
      exact linkOk_step_right i (ids l) r c _ id _ hnd (ihr _ hr) _ (ids_node ..) (by simp)

/-- the hinted descent: the landing is taken in the cell below the hint, the ids of the whole
    tree get the new id linked next to the landing's parent -/
theorem ids_insAtM (id : Nat) (k v : Int) (right : Bool) (idx : Nat) (t : Tree) (c : Option (Nat × Bool))
    (hnd : (ids t).Nodup) (hidx : idx < t.size) (hid : Nat) (kk vv : Int)
    (hh : t.inorder[idx]? = some (hid, kk, vv)) :
    LinkOk t c (landM k (some (hid, right)) (subAt right idx t)) id (ids (insAt (insM id k v) right idx t).1) := by
  induction t generalizing idx c with
  | nil => simp at hidx
  | node i k' v' h s l r ihl ihr =>
    rw [ids_node] at hnd
    have hl : (ids l).Nodup := (List.nodup_append.mp hnd).1
    have hr : (ids r).Nodup := (List.nodup_cons.mp (List.nodup_append.mp hnd).2.1).2
    have hL := size_eq_length l
    simp only [inorder_node] at hh
    simp only [subAt, insAt]
    by_cases h1 : idx < l.size
    · rw [if_pos h1, if_pos h1, ids_goL]
      rw [List.getElem?_append_left (by omega)] at hh
      have := ihl idx (some (i, false)) hl h1 hh
      cases hld : landM k (some (hid, right)) (subAt right idx l) with
      | found fid => rw [hld] at this; simp only [LinkOk] at this ⊢; rw [this, ids_node]
      | leaf p =>
        rw [hld] at this
        have hlne : l ≠ .nil := by intro e; rw [e] at h1; simp at h1
        simp only [LinkOk] at this ⊢
        rcases this with ⟨e, _⟩ | ⟨pid, rt, g1, g2, g3⟩
        · exact absurd e hlne
        · right
          refine ⟨pid, rt, g1, by simp [g2], ?_⟩
          rw [g3, ids_node]
          exact (linkAt_append_mem rt pid id (ids l) _ g2).symm
    · rw [List.getElem?_append_right (by omega)] at hh
      by_cases h2 : idx = l.size
      · rw [if_neg h1, if_pos h2, if_neg h1, if_pos h2]
        have e0 : idx - l.inorder.length = 0 := by omega
        rw [e0] at hh
        simp at hh
        obtain ⟨rfl, _, _⟩ := hh
        cases right with
        | true =>
          simp only [if_true, ids_goR]
          exact linkOk_step_right i (ids l) r c _ id _ hnd (ids_insM id k v r _ hr) _ (ids_node ..) (by simp)
        | false =>
          simp only [Bool.false_eq_true, if_false, ids_goL]
          exact linkOk_step_left i l (ids r) c _ id _ hnd (ids_insM id k v l _ hl) _ (ids_node ..) (by simp)
      · rw [if_neg h1, if_neg h2, if_neg h1, if_neg h2, ids_goR]
        have e0 : idx - l.inorder.length = (idx - l.size - 1) + 1 := by omega
        rw [e0] at hh
        simp only [List.getElem?_cons_succ] at hh
        have hidx' : idx - l.size - 1 < r.size := by simp only [size_node] at hidx; omega
        have := ihr (idx - l.size - 1) (some (i, true)) hr hidx' hh
        cases hld : landM k (some (hid, right)) (subAt right (idx - l.size - 1) r) with
        | found fid => rw [hld] at this; simp only [LinkOk] at this ⊢; rw [this, ids_node]
        | leaf p =>
          rw [hld] at this
          have hrne : r ≠ .nil := by intro e; rw [e] at hidx'; simp at hidx'
          simp only [LinkOk] at this ⊢
          rcases this with ⟨e, _⟩ | ⟨pid, rt, g1, g2, g3⟩
          · exact absurd e hrne
          · right
            refine ⟨pid, rt, g1, by simp [g2], ?_⟩
            rw [g3, ids_node]
            have hp : pid ∉ ids l ++ [i] := by
              have hnd' := List.nodup_append.mp hnd
              intro hp
              rcases List.mem_append.mp hp with hp | hp
              · exact hnd'.2.2 pid hp pid (by simp [g2]) rfl
              · simp at hp; subst hp
                exact (List.nodup_cons.mp hnd'.2.1).1 g2
            have := linkAt_append_not_mem rt pid id (ids l ++ [i]) (ids r) hp
            simpa using this.symm

end Nstd.Avl
