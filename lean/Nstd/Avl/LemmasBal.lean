import Nstd.Avl.Model
/-
  Balance part of the invariant: stored height/slope fields are correct and the tree is AVL
  balanced; every tree function of the model keeps that, preserves / edits the in-order
  sequence as expected, and its "continue" flag tells exactly whether the height changed.
-/
namespace Nstd.Avl
namespace Tree

macro "avl_close" : tactic => `(tactic| (and_intros <;> first | assumption | trivial | omega))

@[simp] theorem ht_nil : (nil : Tree).ht = 0 := rfl
@[simp] theorem height_nil : (nil : Tree).height = 0 := rfl
@[simp] theorem slope_nil : (nil : Tree).slope = 0 := rfl
@[simp] theorem size_nil : (nil : Tree).size = 0 := rfl
@[simp] theorem inorder_nil : (nil : Tree).inorder = [] := rfl
@[simp] theorem ht_node (i k v h s l r) : (node i k v h s l r).ht = h := rfl
@[simp] theorem slope_node (i k v h s l r) : (node i k v h s l r).slope = s := rfl
@[simp] theorem height_node (i k v h s l r) : (node i k v h s l r).height = max l.height r.height + 1 := rfl
@[simp] theorem size_node (i k v h s l r) : (node i k v h s l r).size = l.size + 1 + r.size := rfl
@[simp] theorem inorder_node (i k v h s l r) :
    (node i k v h s l r).inorder = l.inorder ++ (i, k, v) :: r.inorder := rfl

/-- stored fields are correct and the tree is AVL balanced -/
def Avl : Tree → Prop
  | nil => True
  | node _ _ _ h s l r =>
    Avl l ∧ Avl r ∧ h = max (height l) (height r) + 1 ∧ s = (height l : Int) - (height r : Int)
      ∧ -1 ≤ s ∧ s ≤ 1

@[simp] theorem avl_nil : Avl nil := trivial
theorem avl_node (i k v h s l r) : Avl (node i k v h s l r) ↔
   (Avl l ∧ Avl r ∧ h = max (height l) (height r) + 1 ∧ s = (height l : Int) - (height r : Int) ∧ -1 ≤ s ∧ s ≤ 1) := Iff.rfl

theorem ht_eq_height {t : Tree} (h : Avl t) : t.ht = t.height := by
  cases t with
  | nil => rfl
  | node i k v h s l r => simp only [Avl] at h; simp [ht, height, h.2.2.1]

theorem size_eq_length (t : Tree) : t.size = t.inorder.length := by
  induction t with
  | nil => rfl
  | node i k v h s l r ihl ihr => simp [ihl, ihr]; omega

theorem upd_node (i k v h s) (l r : Tree) (hl : Avl l) (hr : Avl r) :
    upd (node i k v h s l r) = node i k v (max l.height r.height + 1) ((l.height : Int) - r.height) l r := by
  simp [upd, ht_eq_height hl, ht_eq_height hr]

/-- what a rebalancing step guarantees -/
def Good (t' : Tree) (e : Nat × Int × Int) (l r : Tree) : Prop :=
  Avl t' ∧ t'.inorder = l.inorder ++ e :: r.inorder ∧
    (t'.height = max l.height r.height + 1 ∨
      (t'.height = max l.height r.height ∧ ((l.height : Int) - r.height = 2 ∨ (l.height : Int) - r.height = -2)))

theorem shiftr_spec (i k v h s) (l r : Tree) (hl : Avl l) (hr : Avl r)
    (e : (l.height : Int) - r.height = 2) : Good (shiftr (node i k v h s l r)) (i, k, v) l r := by
  unfold Good
  cases l with
  | nil => simp at e <;> omega
  | node li lk lv lh ls ll lr =>
    rw [avl_node] at hl
    obtain ⟨hll, hlr, hlh, hls, hls1, hls2⟩ := hl
    simp only [shiftr, slope_node]
    by_cases hs : ls = -1
    · simp only [hs, if_true]
      cases lr with
      | nil => simp at hls; omega
      | node ri rk rv rh rs rl rr =>
        rw [avl_node] at hlr
        obtain ⟨hrl, hrr, hrh, hrs, hrs1, hrs2⟩ := hlr
        simp only [rotl, rotr, upd, ht_node, ht_eq_height hll, ht_eq_height hrl, ht_eq_height hrr, ht_eq_height hr]
        simp only [height_node] at *
        refine ⟨?_, by simp, ?_⟩
        · simp only [avl_node, height_node]
          avl_close
        · omega
    · simp only [hs, if_false]
      simp only [rotr, upd, ht_node, ht_eq_height hll, ht_eq_height hlr, ht_eq_height hr]
      simp only [height_node] at *
      refine ⟨?_, by simp, ?_⟩
      · simp only [avl_node, height_node]
        avl_close
      · omega

theorem shiftl_spec (i k v h s) (l r : Tree) (hl : Avl l) (hr : Avl r)
    (e : (l.height : Int) - r.height = -2) : Good (shiftl (node i k v h s l r)) (i, k, v) l r := by
  unfold Good
  cases r with
  | nil => simp at e <;> omega
  | node ri rk rv rh rs rl rr =>
    rw [avl_node] at hr
    obtain ⟨hrl, hrr, hrh, hrs, hrs1, hrs2⟩ := hr
    simp only [shiftl, slope_node]
    by_cases hs : rs = 1
    · simp only [hs, if_true]
      cases rl with
      | nil => simp at hrs; omega
      | node ci ck cv ch cs cl cr =>
        rw [avl_node] at hrl
        obtain ⟨hcl, hcr, hch, hcs, hcs1, hcs2⟩ := hrl
        simp only [rotl, rotr, upd, ht_node, ht_eq_height hl, ht_eq_height hcl, ht_eq_height hcr, ht_eq_height hrr]
        simp only [height_node] at *
        refine ⟨?_, by simp, ?_⟩
        · simp only [avl_node, height_node]
          avl_close
        · omega
    · simp only [hs, if_false]
      simp only [rotl, upd, ht_node, ht_eq_height hl, ht_eq_height hrl, ht_eq_height hrr]
      simp only [height_node] at *
      refine ⟨?_, by simp, ?_⟩
      · simp only [avl_node, height_node]
        avl_close
      · omega

/-- the general rebalancing lemma, used by both insert and remove -/
theorem rebal_spec (i k v h s) (l r : Tree) (hl : Avl l) (hr : Avl r)
    (hb : (l.height : Int) - r.height ≤ 2 ∧ -2 ≤ (l.height : Int) - r.height) :
    Good (rebal (upd (node i k v h s l r))) (i, k, v) l r := by
  rw [upd_node _ _ _ _ _ _ _ hl hr]
  by_cases h1 : (l.height : Int) - r.height > 1
  · have e : (l.height : Int) - r.height = 2 := by omega
    simp only [rebal, slope_node, h1, if_true]
    exact shiftr_spec _ _ _ _ _ _ _ hl hr e
  · by_cases h2 : (l.height : Int) - r.height < -1
    · have e : (l.height : Int) - r.height = -2 := by omega
      simp only [rebal, slope_node, h1, h2, if_true, if_false]
      exact shiftl_spec _ _ _ _ _ _ _ hl hr e
    · simp only [rebal, slope_node, h1, h2, if_false]
      refine ⟨?_, by simp, ?_⟩
      · rw [avl_node]; avl_close
      · left; simp

theorem fixup_spec (i k v h s) (l r : Tree) (hl : Avl l) (hr : Avl r)
    (hb : (l.height : Int) - r.height ≤ 2 ∧ -2 ≤ (l.height : Int) - r.height) :
    Good (fixup h (node i k v h s l r)).1 (i, k, v) l r ∧
    ((fixup h (node i k v h s l r)).2 = true ↔ (fixup h (node i k v h s l r)).1.height ≠ h) := by
  have g := rebal_spec i k v h s l r hl hr hb
  refine ⟨g, ?_⟩
  simp only [fixup, bne_iff_ne, ne_eq]
  rw [ht_eq_height g.1]

/-- the upward loop coming back from the left child: `p` is the new left subtree and its flag.
    `h` must be the real height of the node before the change. -/
theorem goL_spec (i k v h s) (l r : Tree) (p : Tree × Bool)
    (hA : Avl (node i k v h s l r)) (hp : Avl p.1)
    (hd : (p.1.height : Int) - l.height ≤ 1 ∧ -1 ≤ (p.1.height : Int) - l.height)
    (hc : p.2 = false → p.1.height = l.height) :
    Avl (goL i k v h s r p).1 ∧
    (goL i k v h s r p).1.inorder = p.1.inorder ++ (i, k, v) :: r.inorder ∧
    ((goL i k v h s r p).2 = false → (goL i k v h s r p).1.height = h) ∧
    ((goL i k v h s r p).2 = true → (goL i k v h s r p).1.height ≠ h) ∧
    ((goL i k v h s r p).1.height = max p.1.height r.height + 1 ∨
      ((goL i k v h s r p).1.height = max p.1.height r.height ∧
        ((p.1.height : Int) - r.height = 2 ∨ (p.1.height : Int) - r.height = -2))) := by
  rw [avl_node] at hA
  obtain ⟨hl, hr, hh, hs, hs1, hs2⟩ := hA
  obtain ⟨l', c⟩ := p
  simp only at hp hd hc ⊢
  cases c with
  | false =>
    have e := hc rfl
    simp only [goL, Bool.false_eq_true, if_false]
    refine ⟨?_, by simp, ?_, by simp, ?_⟩
    · rw [avl_node]; refine ⟨hp, hr, ?_, ?_, hs1, hs2⟩ <;> rw [e] <;> assumption
    · intro _; simp only [height_node]; omega
    · left; simp
  | true =>
    simp only [goL, if_true]
    obtain ⟨⟨g1, g2, g3⟩, g4⟩ := fixup_spec i k v h s l' r hp hr (by omega)
    refine ⟨g1, g2, ?_, ?_, g3⟩
    · intro hf
      have : ¬ (fixup h (node i k v h s l' r)).1.height ≠ h := fun hn => by
        have := g4.2 hn; rw [hf] at this; simp at this
      omega
    · intro ht; exact g4.1 ht

theorem goR_spec (i k v h s) (l r : Tree) (p : Tree × Bool)
    (hA : Avl (node i k v h s l r)) (hp : Avl p.1)
    (hd : (p.1.height : Int) - r.height ≤ 1 ∧ -1 ≤ (p.1.height : Int) - r.height)
    (hc : p.2 = false → p.1.height = r.height) :
    Avl (goR i k v h s l p).1 ∧
    (goR i k v h s l p).1.inorder = l.inorder ++ (i, k, v) :: p.1.inorder ∧
    ((goR i k v h s l p).2 = false → (goR i k v h s l p).1.height = h) ∧
    ((goR i k v h s l p).2 = true → (goR i k v h s l p).1.height ≠ h) ∧
    ((goR i k v h s l p).1.height = max l.height p.1.height + 1 ∨
      ((goR i k v h s l p).1.height = max l.height p.1.height ∧
        ((l.height : Int) - p.1.height = 2 ∨ (l.height : Int) - p.1.height = -2))) := by
  rw [avl_node] at hA
  obtain ⟨hl, hr, hh, hs, hs1, hs2⟩ := hA
  obtain ⟨r', c⟩ := p
  simp only at hp hd hc ⊢
  cases c with
  | false =>
    have e := hc rfl
    simp only [goR, Bool.false_eq_true, if_false]
    refine ⟨?_, by simp, ?_, by simp, ?_⟩
    · rw [avl_node]; refine ⟨hl, hp, ?_, ?_, hs1, hs2⟩ <;> rw [e] <;> assumption
    · intro _; simp only [height_node]; omega
    · left; simp
  | true =>
    simp only [goR, if_true]
    obtain ⟨⟨g1, g2, g3⟩, g4⟩ := fixup_spec i k v h s l r' hl hp (by omega)
    refine ⟨g1, g2, ?_, ?_, g3⟩
    · intro hf
      have : ¬ (fixup h (node i k v h s l r')).1.height ≠ h := fun hn => by
        have := g4.2 hn; rw [hf] at this; simp at this
      omega
    · intro ht; exact g4.1 ht

/-- specification of a private insert on a subtree: AVL kept, the flag tells whether it grew -/
def InsOk (f : Tree → Tree × Bool) : Prop :=
  ∀ t, Avl t → Avl (f t).1 ∧ (f t).1.height = t.height + (if (f t).2 then 1 else 0)

/-- insertion step through `goL` -/
theorem goL_ins (i k v h s) (l r : Tree) (p : Tree × Bool)
    (hA : Avl (node i k v h s l r)) (hp : Avl p.1)
    (hh : p.1.height = l.height + (if p.2 then 1 else 0)) :
    Avl (goL i k v h s r p).1 ∧
    (goL i k v h s r p).1.height = (node i k v h s l r).height + (if (goL i k v h s r p).2 then 1 else 0) := by
  have g := goL_spec i k v h s l r p hA hp (by split at hh <;> omega) (by intro hf; simp [hf] at hh; exact hh)
  obtain ⟨g1, _, g3, g4, g5⟩ := g
  rw [avl_node] at hA
  obtain ⟨_, _, e, e2, _, _⟩ := hA
  refine ⟨g1, ?_⟩
  simp only [height_node]
  cases hq : (goL i k v h s r p).2 with
  | false => have := g3 hq; simp; omega
  | true =>
    have := g4 hq
    simp only [if_true]
    split at hh <;> omega

theorem goR_ins (i k v h s) (l r : Tree) (p : Tree × Bool)
    (hA : Avl (node i k v h s l r)) (hp : Avl p.1)
    (hh : p.1.height = r.height + (if p.2 then 1 else 0)) :
    Avl (goR i k v h s l p).1 ∧
    (goR i k v h s l p).1.height = (node i k v h s l r).height + (if (goR i k v h s l p).2 then 1 else 0) := by
  have g := goR_spec i k v h s l r p hA hp (by split at hh <;> omega) (by intro hf; simp [hf] at hh; exact hh)
  obtain ⟨g1, _, g3, g4, g5⟩ := g
  rw [avl_node] at hA
  obtain ⟨_, _, e, e2, _, _⟩ := hA
  refine ⟨g1, ?_⟩
  simp only [height_node]
  cases hq : (goR i k v h s l p).2 with
  | false => have := g3 hq; simp; omega
  | true =>
    have := g4 hq
    simp only [if_true]
    split at hh <;> omega

theorem ins_ok (newId : Nat) (k v : Int) : InsOk (ins newId k v) := by
  intro t
  induction t with
  | nil => intro _; simp [ins, avl_node]
  | node i k' v' h s l r ihl ihr =>
    intro hA
    have hA' := hA
    rw [avl_node] at hA
    obtain ⟨hl, hr, hh, hs, hs1, hs2⟩ := hA
    simp only [ins]
    by_cases h1 : k > k'
    · simp only [h1, if_true]
      exact goR_ins _ _ _ _ _ _ _ _ hA' (ihr hr).1 (ihr hr).2
    · simp only [h1, if_false]
      by_cases h2 : k < k'
      · simp only [h2, if_true]
        exact goL_ins _ _ _ _ _ _ _ _ hA' (ihl hl).1 (ihl hl).2
      · simp only [h2, if_false, Bool.false_eq_true, Nat.add_zero, height_node, and_true]
        rw [avl_node]; exact ⟨hl, hr, hh, hs, hs1, hs2⟩

theorem insM_ok (newId : Nat) (k v : Int) : InsOk (insM newId k v) := by
  intro t
  induction t with
  | nil => intro _; simp [insM, avl_node]
  | node i k' v' h s l r ihl ihr =>
    intro hA
    have hA' := hA
    rw [avl_node] at hA
    obtain ⟨hl, hr, hh, hs, hs1, hs2⟩ := hA
    simp only [insM]
    by_cases h2 : k < k'
    · simp only [h2, if_true]
      exact goL_ins _ _ _ _ _ _ _ _ hA' (ihl hl).1 (ihl hl).2
    · simp only [h2, if_false]
      exact goR_ins _ _ _ _ _ _ _ _ hA' (ihr hr).1 (ihr hr).2

/-- the hinted descent keeps the tree AVL whatever private insert runs in the cell -/
theorem insAt_ok (f : Tree → Tree × Bool) (hf : InsOk f) (right : Bool) (idx : Nat) :
    ∀ t, idx < t.size → Avl t → Avl (insAt f right idx t).1 ∧
      (insAt f right idx t).1.height = t.height + (if (insAt f right idx t).2 then 1 else 0) := by
  intro t
  induction t generalizing idx with
  | nil => intro h; simp at h
  | node i k v h s l r ihl ihr =>
    intro hidx hA
    have hA' := hA
    rw [avl_node] at hA
    obtain ⟨hl, hr, hh, hs, hs1, hs2⟩ := hA
    simp only [insAt]
    by_cases h1 : idx < l.size
    · simp only [h1, if_true]
      exact goL_ins _ _ _ _ _ _ _ _ hA' (ihl idx h1 hl).1 (ihl idx h1 hl).2
    · simp only [h1, if_false]
      by_cases h2 : idx = l.size
      · simp only [h2, if_true]
        cases right with
        | true => simp only [if_true]; exact goR_ins _ _ _ _ _ _ _ _ hA' (hf r hr).1 (hf r hr).2
        | false =>
          simp only [Bool.false_eq_true, if_false]
          exact goL_ins _ _ _ _ _ _ _ _ hA' (hf l hl).1 (hf l hl).2
      · simp only [h2, if_false]
        have hidx' : idx - l.size - 1 < r.size := by simp only [size_node] at hidx; omega
        exact goR_ins _ _ _ _ _ _ _ _ hA' (ihr _ hidx' hr).1 (ihr _ hidx' hr).2

theorem setAt_avl (v : Int) (idx : Nat) (t : Tree) (hA : Avl t) :
    Avl (setAt v idx t) ∧ (setAt v idx t).height = t.height := by
  induction t generalizing idx with
  | nil => simp [setAt]
  | node i k v' h s l r ihl ihr =>
    rw [avl_node] at hA
    obtain ⟨hl, hr, hh, hs, hs1, hs2⟩ := hA
    simp only [setAt]
    by_cases h1 : idx < l.size
    · simp only [h1, if_true, height_node, (ihl idx hl).2, and_true]
      rw [avl_node, (ihl idx hl).2]; exact ⟨(ihl idx hl).1, hr, hh, hs, hs1, hs2⟩
    · by_cases h2 : idx = l.size
      · subst h2
        simp only [Nat.lt_irrefl, if_true, if_false, height_node, and_true]
        rw [avl_node]; exact ⟨hl, hr, hh, hs, hs1, hs2⟩
      · simp only [h1, h2, if_false, height_node, (ihr _ hr).2, and_true]
        rw [avl_node, (ihr _ hr).2]; exact ⟨hl, (ihr _ hr).1, hh, hs, hs1, hs2⟩

end Tree
end Nstd.Avl
