import Nstd.Avl.LemmasHeapRemove3
/-
  Two-children removal: contexts on top of contexts (`Ctx.append`), one turn of an upward loop on the heap (`climb_step`),
  the context of a subtree's hole inside a bigger context (`unplug`).
-/
namespace Nstd.Avl
open Tree
open Nstd.Avl.Heap
open Nstd.Generated.AvlRot

namespace Ctx

/-- `a` with its `top` replaced by `b`: the path `a` below the hole of `b` -/
def append : Ctx → Ctx → Ctx
  | top, b => b
  | left i k v h s r up, b => left i k v h s r (up.append b)
  | right i k v h s l up, b => right i k v h s l (up.append b)

/-- the context of the item the hole hangs under -/
def up : Ctx → Ctx
  | top => top
  | left _ _ _ _ _ _ u => u
  | right _ _ _ _ _ _ u => u

/-- the item the hole hangs under, with `t` in the hole -/
def node1 : Ctx → Tree → Tree
  | top, t => t
  | left i k v h s r _, t => node i k v h s t r
  | right i k v h s l _, t => node i k v h s l t

/-- stored height of the item the hole hangs under -/
def oldH : Ctx → Nat
  | top => 0
  | left _ _ _ h _ _ _ => h
  | right _ _ _ h _ _ _ => h

end Ctx

theorem plug_append : ∀ (a b : Ctx) (t : Tree), (a.append b).plug t = b.plug (a.plug t) := by
  intro a
  induction a with
  | top => intro b t; rfl
  | left i k v h s r up ih => intro b t; simp only [Ctx.append, Ctx.plug]; exact ih b _
  | right i k v h s l up ih => intro b t; simp only [Ctx.append, Ctx.plug]; exact ih b _

theorem climb_append : ∀ (a b : Ctx) (p : Tree × Bool), (a.append b).climb p = b.climb (a.climb p) := by
  intro a
  induction a with
  | top => intro b p; rfl
  | left i k v h s r up ih => intro b p; simp only [Ctx.append, Ctx.climb]; exact ih b _
  | right i k v h s l up ih => intro b p; simp only [Ctx.append, Ctx.climb]; exact ih b _

theorem ids_append : ∀ (a b : Ctx), (a.append b).ids = a.ids ++ b.ids := by
  intro a
  induction a with
  | top => intro b; simp [Ctx.append, Ctx.ids]
  | left i k v h s r up ih => intro b; simp only [Ctx.append, Ctx.ids, ih b, List.cons_append, List.append_assoc]
  | right i k v h s l up ih => intro b; simp only [Ctx.append, Ctx.ids, ih b, List.cons_append, List.append_assoc]

theorem depth_append : ∀ (a b : Ctx), (a.append b).depth = a.depth + b.depth := by
  intro a
  induction a with
  | top => intro b; simp [Ctx.append, Ctx.depth]
  | left i k v h s r up ih => intro b; simp only [Ctx.append, Ctx.depth, ih b]; omega
  | right i k v h s l up ih => intro b; simp only [Ctx.append, Ctx.depth, ih b]; omega

theorem plug_node1 (cx : Ctx) (t : Tree) : cx.plug t = cx.up.plug (cx.node1 t) := by
  cases cx <;> rfl

/-- **one turn of an upward loop on the heap**: `parent->updateHeightAndSlope(); parent = rebal(parent);` at the item the hole of
    `cx` hangs under leaves the rebalanced item in its cell, returns the pointer to it, and keeps the rest of the context -/
theorem climb_step (cx : Ctx) (hn : cx ≠ .top) (h : Heap) (sub : Tree)
    (hc : ReprCtx h cx) (hs : Repr h (h.get cx.cell) cx.par sub) (hnd : (ids sub ++ cx.ids).Nodup)
    (hok : RebalOk (Tree.upd (cx.node1 sub))) :
    ReprCtx (Map.rebal (Map.updateHeightAndSlope h cx.par) cx.par).1 cx.up ∧
    Repr (Map.rebal (Map.updateHeightAndSlope h cx.par) cx.par).1
      ((Map.rebal (Map.updateHeightAndSlope h cx.par) cx.par).1.get cx.up.cell) cx.up.par (Tree.rebal (Tree.upd (cx.node1 sub))) ∧
    (Map.rebal (Map.updateHeightAndSlope h cx.par) cx.par).2 = (Map.rebal (Map.updateHeightAndSlope h cx.par) cx.par).1.get cx.up.cell ∧
    (Map.rebal (Map.updateHeightAndSlope h cx.par) cx.par).1.height (Map.rebal (Map.updateHeightAndSlope h cx.par) cx.par).2 =
      (Tree.rebal (Tree.upd (cx.node1 sub))).ht ∧
    (Map.rebal (Map.updateHeightAndSlope h cx.par) cx.par).1.parent (Map.rebal (Map.updateHeightAndSlope h cx.par) cx.par).2 = cx.up.par ∧
    h.height cx.par = cx.oldH ∧
    (Map.rebal (Map.updateHeightAndSlope h cx.par) cx.par).1.key = h.key ∧
    (Map.rebal (Map.updateHeightAndSlope h cx.par) cx.par).1.value = h.value ∧
    ListSame h (Map.rebal (Map.updateHeightAndSlope h cx.par) cx.par).1 := by
  have hLS : ListSame h (Map.rebal (Map.updateHeightAndSlope h cx.par) cx.par).1 :=
    listSame_trans (listSame_upd h cx.par) (listSame_rebal _ _)
  cases cx with
  | top => exact absurd rfl hn
  | left i k v hh s r up =>
    obtain ⟨a1, a2, a3, a4, a5, a6, a7, a8⟩ := hc
    simp only [Ctx.cell, Ctx.par, Heap.get] at hs
    simp only [Ctx.up, Ctx.node1, Ctx.par, Ctx.oldH] at hok hLS ⊢
    have ht : Repr h (h.get up.cell) up.par (node i k v hh s sub r) := by
      rw [a6, repr_node_iff]; exact ⟨rfl, a1, a2, a5, a3, a4, hs, a7⟩
    have hndt : (ids (node i k v hh s sub r)).Nodup ∧ (∀ j ∈ up.ids, j ∉ ids (node i k v hh s sub r)) ∧ up.ids.Nodup := by
      simp only [Ctx.ids, ids_node] at hnd ⊢
      simp only [List.nodup_append, List.nodup_cons, List.mem_append, List.mem_cons] at hnd ⊢
      grind
    obtain ⟨nd1, nd2, nd3⟩ := hndt
    have hpar : ∀ j, Mem j (node i k v hh s sub r) → up.par ≠ j + 1 := by
      intro j hj e
      have hj' := (mem_iff_ids' _ _).mp hj
      cases up with
      | top => simp [Ctx.par] at e
      | left q _ _ _ _ _ _ =>
        simp only [Ctx.par] at e
        have : q = j := by omega
        subst this; exact nd2 q (by simp [Ctx.ids]) hj'
      | right q _ _ _ _ _ _ =>
        simp only [Ctx.par] at e
        have : q = j := by omega
        subst this; exact nd2 q (by simp [Ctx.ids]) hj'
    obtain ⟨u1, u2⟩ := upd_repr_frame h up.cell (h.get up.cell) up.par i k v hh s sub r ht nd1
    have g1 := get_upd h (h.get up.cell) up.cell
    rw [a6] at u1 u2 g1
    obtain ⟨h1, eh1⟩ : ∃ x, x = Map.updateHeightAndSlope h (i + 1) := ⟨_, rfl⟩
    rw [← eh1] at u1 u2 g1 hLS ⊢
    clear eh1
    have hcell : up.cell = .right up.par → h1.left up.par ≠ h1.get up.cell := by
      intro e
      cases up with
      | top => simp [Ctx.cell] at e
      | left q _ _ _ _ _ _ => simp [Ctx.cell, Ctx.par] at e
      | right q qk qv qh qs ql upup =>
        simp only [Ctx.par]
        have hl : Repr h (h.left (q + 1)) (q + 1) ql := a8.2.2.2.2.2.2.1
        have hq : ∀ j', Mem j' (node i k v hh s sub r) → q + 1 ≠ j' + 1 := by
          intro j' hj' e2; have : q = j' := by omega
          subst this; exact nd2 q (by simp [Ctx.ids]) ((mem_iff_ids' _ _).mp hj')
        rw [u2.left (q + 1) hq (by simp [Ctx.cell]), g1]
        rcases repr_root hl with e0 | ⟨j, hj, e0⟩
        · omega
        · rw [e0]; intro e3
          have : j = i := by omega
          subst this
          exact nd2 j (by simp [Ctx.ids, (mem_iff_ids' _ _).mp hj]) (by simp [ids_node])
    have hd1 : Distinct (Tree.upd (node i k v hh s sub r)) := by
      rw [distinct_iff_nodup']; simp only [ids, inorder_upd]; exact nd1
    have hpar1 : ∀ j, Mem j (Tree.upd (node i k v hh s sub r)) → up.par ≠ j + 1 := by
      intro j hj
      apply hpar j
      rw [mem_iff_ids'] at hj ⊢
      simpa only [ids, inorder_upd] using hj
    rw [← g1] at u1
    obtain ⟨b1, b2, b3⟩ := rebal_repr h1 up.cell up.par _ (cellAt_ctx up) hcell hpar1 hd1 u1 hok
    rw [g1] at b1 b2 b3
    obtain ⟨hp, ehp⟩ : ∃ x, x = Map.rebal h1 (i + 1) := ⟨_, rfl⟩
    rw [← ehp] at b1 b2 b3 hLS ⊢
    clear ehp
    obtain ⟨h2, p'⟩ := hp
    simp only at b1 b2 b3 hLS ⊢
    have hn2 := rebal_upd_ne_nil i k v hh s sub r
    obtain ⟨f1, f2⟩ := repr_node_fields b1 hn2
    have memeq : ∀ j, Mem j (Tree.upd (node i k v hh s sub r)) ↔ Mem j (node i k v hh s sub r) := by
      intro j; rw [mem_iff_ids', mem_iff_ids']; simp only [ids, inorder_upd]
    have c1 : ReprCtx h1 up := reprCtx_frame_hole up a8 u2 (fun j hj hm => nd2 j hj ((mem_iff_ids' _ _).mp hm)) nd3
    have c2 : ReprCtx h2 up := reprCtx_frame_hole up c1 b3
      (fun j hj hm => nd2 j hj ((mem_iff_ids' _ _).mp ((memeq j).mp hm))) nd3
    exact ⟨c2, by rw [← b2]; exact b1, b2, f1, f2, a3, by rw [b3.key, u2.key], by rw [b3.value, u2.value], hLS⟩
  | right i k v hh s l up =>
    obtain ⟨a1, a2, a3, a4, a5, a6, a7, a8⟩ := hc
    simp only [Ctx.cell, Ctx.par, Heap.get] at hs
    simp only [Ctx.up, Ctx.node1, Ctx.par, Ctx.oldH] at hok hLS ⊢
    have ht : Repr h (h.get up.cell) up.par (node i k v hh s l sub) := by
      rw [a6, repr_node_iff]; exact ⟨rfl, a1, a2, a5, a3, a4, a7, hs⟩
    have hndt : (ids (node i k v hh s l sub)).Nodup ∧ (∀ j ∈ up.ids, j ∉ ids (node i k v hh s l sub)) ∧ up.ids.Nodup := by
      simp only [Ctx.ids, ids_node] at hnd ⊢
      simp only [List.nodup_append, List.nodup_cons, List.mem_append, List.mem_cons] at hnd ⊢
      grind
    obtain ⟨nd1, nd2, nd3⟩ := hndt
    have hpar : ∀ j, Mem j (node i k v hh s l sub) → up.par ≠ j + 1 := by
      intro j hj e
      have hj' := (mem_iff_ids' _ _).mp hj
      cases up with
      | top => simp [Ctx.par] at e
      | left q _ _ _ _ _ _ =>
        simp only [Ctx.par] at e
        have : q = j := by omega
        subst this; exact nd2 q (by simp [Ctx.ids]) hj'
      | right q _ _ _ _ _ _ =>
        simp only [Ctx.par] at e
        have : q = j := by omega
        subst this; exact nd2 q (by simp [Ctx.ids]) hj'
    obtain ⟨u1, u2⟩ := upd_repr_frame h up.cell (h.get up.cell) up.par i k v hh s l sub ht nd1
    have g1 := get_upd h (h.get up.cell) up.cell
    rw [a6] at u1 u2 g1
    obtain ⟨h1, eh1⟩ : ∃ x, x = Map.updateHeightAndSlope h (i + 1) := ⟨_, rfl⟩
    rw [← eh1] at u1 u2 g1 hLS ⊢
    clear eh1
    have hcell : up.cell = .right up.par → h1.left up.par ≠ h1.get up.cell := by
      intro e
      cases up with
      | top => simp [Ctx.cell] at e
      | left q _ _ _ _ _ _ => simp [Ctx.cell, Ctx.par] at e
      | right q qk qv qh qs ql upup =>
        simp only [Ctx.par]
        have hl : Repr h (h.left (q + 1)) (q + 1) ql := a8.2.2.2.2.2.2.1
        have hq : ∀ j', Mem j' (node i k v hh s l sub) → q + 1 ≠ j' + 1 := by
          intro j' hj' e2; have : q = j' := by omega
          subst this; exact nd2 q (by simp [Ctx.ids]) ((mem_iff_ids' _ _).mp hj')
        rw [u2.left (q + 1) hq (by simp [Ctx.cell]), g1]
        rcases repr_root hl with e0 | ⟨j, hj, e0⟩
        · omega
        · rw [e0]; intro e3
          have : j = i := by omega
          subst this
          exact nd2 j (by simp [Ctx.ids, (mem_iff_ids' _ _).mp hj]) (by simp [ids_node])
    have hd1 : Distinct (Tree.upd (node i k v hh s l sub)) := by
      rw [distinct_iff_nodup']; simp only [ids, inorder_upd]; exact nd1
    have hpar1 : ∀ j, Mem j (Tree.upd (node i k v hh s l sub)) → up.par ≠ j + 1 := by
      intro j hj
      apply hpar j
      rw [mem_iff_ids'] at hj ⊢
      simpa only [ids, inorder_upd] using hj
    rw [← g1] at u1
    obtain ⟨b1, b2, b3⟩ := rebal_repr h1 up.cell up.par _ (cellAt_ctx up) hcell hpar1 hd1 u1 hok
    rw [g1] at b1 b2 b3
    obtain ⟨hp, ehp⟩ : ∃ x, x = Map.rebal h1 (i + 1) := ⟨_, rfl⟩
    rw [← ehp] at b1 b2 b3 hLS ⊢
    clear ehp
    obtain ⟨h2, p'⟩ := hp
    simp only at b1 b2 b3 hLS ⊢
    have hn2 := rebal_upd_ne_nil i k v hh s l sub
    obtain ⟨f1, f2⟩ := repr_node_fields b1 hn2
    have memeq : ∀ j, Mem j (Tree.upd (node i k v hh s l sub)) ↔ Mem j (node i k v hh s l sub) := by
      intro j; rw [mem_iff_ids', mem_iff_ids']; simp only [ids, inorder_upd]
    have c1 : ReprCtx h1 up := reprCtx_frame_hole up a8 u2 (fun j hj hm => nd2 j hj ((mem_iff_ids' _ _).mp hm)) nd3
    have c2 : ReprCtx h2 up := reprCtx_frame_hole up c1 b3
      (fun j hj hm => nd2 j hj ((mem_iff_ids' _ _).mp ((memeq j).mp hm))) nd3
    exact ⟨c2, by rw [← b2]; exact b1, b2, f1, f2, a3, by rw [b3.key, u2.key], by rw [b3.value, u2.value], hLS⟩

/-- the context of a hole inside the subtree that hangs in the hole of `b` -/
theorem unplug {h : Heap} : ∀ (a b : Ctx) (t : Tree), ReprCtx h b → Repr h (h.get b.cell) b.par (a.plug t) →
    ReprCtx h (a.append b) ∧ Repr h (h.get (a.append b).cell) (a.append b).par t := by
  intro a
  induction a with
  | top => intro b t hb ht; exact ⟨hb, ht⟩
  | left i k v hh s r up ih =>
    intro b t hb ht
    simp only [Ctx.plug] at ht
    obtain ⟨c1, c2⟩ := ih b _ hb ht
    rw [repr_node_iff] at c2
    obtain ⟨eP, kP, vP, pP, hP, sP, rL, rR⟩ := c2
    rw [eP] at kP vP pP hP sP rL rR
    exact ⟨⟨kP, vP, hP, sP, pP, eP, rR, c1⟩, rL⟩
  | right i k v hh s l up ih =>
    intro b t hb ht
    simp only [Ctx.plug] at ht
    obtain ⟨c1, c2⟩ := ih b _ hb ht
    rw [repr_node_iff] at c2
    obtain ⟨eP, kP, vP, pP, hP, sP, rL, rR⟩ := c2
    rw [eP] at kP vP pP hP sP rL rR
    exact ⟨⟨kP, vP, hP, sP, pP, eP, rL, c1⟩, rR⟩

end Nstd.Avl
