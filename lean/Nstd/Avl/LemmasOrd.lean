import Nstd.Avl.LemmasDel
/-
  Order part: the in-order sequence is preserved by rotations unconditionally; insertion into a
  search tree edits the in-order sequence like insertion into a sorted list; `find` agrees with
  the first index of the key in the in-order sequence and costs at most two comparisons per level.
-/
namespace Nstd.Avl
namespace Tree

abbrev E := Nat × Int × Int

/-! ### in-order sequence through rotations (no hypotheses) -/

@[simp] theorem inorder_upd (t : Tree) : (upd t).inorder = t.inorder := by
  cases t <;> simp [upd]

@[simp] theorem inorder_rotr (t : Tree) : (rotr t).inorder = t.inorder := by
  cases t with
  | nil => rfl
  | node i k v h s l r =>
    cases l with
    | nil => rfl
    | node li lk lv lh ls ll lr => simp [rotr]

@[simp] theorem inorder_rotl (t : Tree) : (rotl t).inorder = t.inorder := by
  cases t with
  | nil => rfl
  | node i k v h s l r =>
    cases r with
    | nil => rfl
    | node ri rk rv rh rs rl rr => simp [rotl]

@[simp] theorem inorder_shiftr (t : Tree) : (shiftr t).inorder = t.inorder := by
  cases t with
  | nil => rfl
  | node i k v h s l r =>
    simp only [shiftr]
    split <;> simp

@[simp] theorem inorder_shiftl (t : Tree) : (shiftl t).inorder = t.inorder := by
  cases t with
  | nil => rfl
  | node i k v h s l r =>
    simp only [shiftl]
    split <;> simp

@[simp] theorem inorder_rebal (t : Tree) : (rebal t).inorder = t.inorder := by
  simp only [rebal]
  split
  · simp
  · split <;> simp

@[simp] theorem inorder_fixup (h : Nat) (t : Tree) : (fixup h t).1.inorder = t.inorder := by
  simp [fixup]

@[simp] theorem inorder_goL (i k v h s r) (p : Tree × Bool) :
    (goL i k v h s r p).1.inorder = p.1.inorder ++ (i, k, v) :: r.inorder := by
  simp only [goL]; split <;> simp

@[simp] theorem inorder_goR (i k v h s l) (p : Tree × Bool) :
    (goR i k v h s l p).1.inorder = l.inorder ++ (i, k, v) :: p.1.inorder := by
  simp only [goR]; split <;> simp

/-! ### sorted lists of entries -/

/-- strictly ascending keys (Map) -/
def SortedS (es : List E) : Prop := es.Pairwise (fun a b => a.2.1 < b.2.1)
/-- ascending keys (MultiMap) -/
def SortedW (es : List E) : Prop := es.Pairwise (fun a b => a.2.1 ≤ b.2.1)

theorem SortedS.toW {es : List E} (h : SortedS es) : SortedW es :=
  List.Pairwise.imp (fun h => Int.le_of_lt h) h

/-- `Map` insertion on the in-order sequence -/
def insList (id : Nat) (k v : Int) : List E → List E
  | [] => [(id, k, v)]
  | e :: es =>
    if k < e.2.1 then (id, k, v) :: e :: es
    else if k = e.2.1 then (e.1, e.2.1, v) :: es
    else e :: insList id k v es

/-- `MultiMap` insertion on the in-order sequence: behind the last key `≤ k` -/
def insListM (id : Nat) (k v : Int) : List E → List E
  | [] => [(id, k, v)]
  | e :: es =>
    if k < e.2.1 then (id, k, v) :: e :: es
    else e :: insListM id k v es

theorem insList_append_right (id k v) (xs ys : List E) (h : ∀ e ∈ xs, e.2.1 < k) :
    insList id k v (xs ++ ys) = xs ++ insList id k v ys := by
  induction xs with
  | nil => rfl
  | cons e xs ih =>
    have he := h e (by simp)
    have h1 : ¬ k < e.2.1 := by omega
    have h2 : ¬ k = e.2.1 := by omega
    simp only [List.cons_append, insList, h1, h2, if_false]
    rw [ih (fun x hx => h x (by simp [hx]))]

theorem insList_append_left (id k v) (xs : List E) (y : E) (ys : List E) (h : k < y.2.1) :
    insList id k v (xs ++ y :: ys) = insList id k v xs ++ y :: ys := by
  induction xs with
  | nil => simp [insList, h]
  | cons e xs ih =>
    simp only [List.cons_append, insList]
    by_cases h1 : k < e.2.1
    · simp [h1]
    · by_cases h2 : k = e.2.1
      · simp [h1, h2]
      · simp [h1, h2, ih]

theorem insListM_append_right (id k v) (xs ys : List E) (h : ∀ e ∈ xs, e.2.1 ≤ k) :
    insListM id k v (xs ++ ys) = xs ++ insListM id k v ys := by
  induction xs with
  | nil => rfl
  | cons e xs ih =>
    have he := h e (by simp)
    have h1 : ¬ k < e.2.1 := by omega
    simp only [List.cons_append, insListM, h1, if_false]
    rw [ih (fun x hx => h x (by simp [hx]))]

theorem insListM_append_left (id k v) (xs : List E) (y : E) (ys : List E) (h : k < y.2.1) :
    insListM id k v (xs ++ y :: ys) = insListM id k v xs ++ y :: ys := by
  induction xs with
  | nil => simp [insListM, h]
  | cons e xs ih =>
    simp only [List.cons_append, insListM]
    by_cases h1 : k < e.2.1
    · simp [h1]
    · simp [h1, ih]

theorem mem_insList {id k v} {es : List E} {x : E} (hx : x ∈ insList id k v es) :
    x.2.1 = k ∨ ∃ y ∈ es, x.2.1 = y.2.1 := by
  induction es with
  | nil => simp [insList] at hx; left; rw [hx]
  | cons e es ih =>
    simp only [insList] at hx
    by_cases h1 : k < e.2.1
    · simp only [h1, if_true, List.mem_cons] at hx
      rcases hx with hx | hx | hx
      · left; rw [hx]
      · right; exact ⟨e, by simp, by rw [hx]⟩
      · right; exact ⟨x, by simp [hx], rfl⟩
    · by_cases h2 : k = e.2.1
      · rw [if_neg h1, if_pos h2] at hx
        simp only [List.mem_cons] at hx
        rcases hx with hx | hx
        · right; exact ⟨e, by simp, by rw [hx]⟩
        · right; exact ⟨x, by simp [hx], rfl⟩
      · simp only [h1, h2, if_false, List.mem_cons] at hx
        rcases hx with hx | hx
        · right; exact ⟨e, by simp, by rw [hx]⟩
        · rcases ih hx with h | ⟨y, hy, h⟩
          · left; exact h
          · right; exact ⟨y, by simp [hy], h⟩

theorem mem_insListM {id k v} {es : List E} {x : E} (hx : x ∈ insListM id k v es) :
    x.2.1 = k ∨ ∃ y ∈ es, x.2.1 = y.2.1 := by
  induction es with
  | nil => simp [insListM] at hx; left; rw [hx]
  | cons e es ih =>
    simp only [insListM] at hx
    by_cases h1 : k < e.2.1
    · simp only [h1, if_true, List.mem_cons] at hx
      rcases hx with hx | hx | hx
      · left; rw [hx]
      · right; exact ⟨e, by simp, by rw [hx]⟩
      · right; exact ⟨x, by simp [hx], rfl⟩
    · simp only [h1, if_false, List.mem_cons] at hx
      rcases hx with hx | hx
      · right; exact ⟨e, by simp, by rw [hx]⟩
      · rcases ih hx with h | ⟨y, hy, h⟩
        · left; exact h
        · right; exact ⟨y, by simp [hy], h⟩

theorem insList_sorted (id k v) (es : List E) (h : SortedS es) : SortedS (insList id k v es) := by
  induction es with
  | nil => simp [insList, SortedS]
  | cons e es ih =>
    unfold SortedS at h ih ⊢
    rw [List.pairwise_cons] at h
    simp only [insList]
    by_cases h1 : k < e.2.1
    · simp only [h1, if_true]
      rw [List.pairwise_cons]
      refine ⟨?_, List.pairwise_cons.mpr h⟩
      intro a ha
      rcases List.mem_cons.mp ha with ha | ha
      · rw [ha]; exact h1
      · have := h.1 a ha; simp only at this ⊢; omega
    · by_cases h2 : k = e.2.1
      · rw [if_neg h1, if_pos h2]
        rw [List.pairwise_cons]
        exact ⟨fun a ha => h.1 a ha, h.2⟩
      · simp only [h1, h2, if_false]
        rw [List.pairwise_cons]
        refine ⟨?_, ih h.2⟩
        intro a ha
        rcases mem_insList ha with hk | ⟨y, hy, hk⟩
        · rw [hk]; omega
        · rw [hk]; exact h.1 y hy

theorem insListM_sorted (id k v) (es : List E) (h : SortedW es) : SortedW (insListM id k v es) := by
  induction es with
  | nil => simp [insListM, SortedW]
  | cons e es ih =>
    unfold SortedW at h ih ⊢
    rw [List.pairwise_cons] at h
    simp only [insListM]
    by_cases h1 : k < e.2.1
    · simp only [h1, if_true]
      rw [List.pairwise_cons]
      refine ⟨?_, List.pairwise_cons.mpr h⟩
      intro a ha
      rcases List.mem_cons.mp ha with ha | ha
      · rw [ha]; exact Int.le_of_lt h1
      · have := h.1 a ha; simp only at this ⊢; omega
    · simp only [h1, if_false]
      rw [List.pairwise_cons]
      refine ⟨?_, ih h.2⟩
      intro a ha
      rcases mem_insListM ha with hk | ⟨y, hy, hk⟩
      · rw [hk]; omega
      · rw [hk]; exact h.1 y hy

/-! ### insertion on trees = insertion on the in-order sequence -/

theorem sortedS_node {l r : Tree} {e : E} (h : SortedS (l.inorder ++ e :: r.inorder)) :
    SortedS l.inorder ∧ SortedS r.inorder ∧ (∀ a ∈ l.inorder, a.2.1 < e.2.1) ∧ (∀ b ∈ r.inorder, e.2.1 < b.2.1) := by
  unfold SortedS at *
  rw [List.pairwise_append, List.pairwise_cons] at h
  exact ⟨h.1, h.2.1.2, fun a ha => h.2.2 a ha e (by simp), h.2.1.1⟩

theorem sortedW_node {l r : Tree} {e : E} (h : SortedW (l.inorder ++ e :: r.inorder)) :
    SortedW l.inorder ∧ SortedW r.inorder ∧ (∀ a ∈ l.inorder, a.2.1 ≤ e.2.1) ∧ (∀ b ∈ r.inorder, e.2.1 ≤ b.2.1) := by
  unfold SortedW at *
  rw [List.pairwise_append, List.pairwise_cons] at h
  exact ⟨h.1, h.2.1.2, fun a ha => h.2.2 a ha e (by simp), h.2.1.1⟩

theorem ins_inorder (id : Nat) (k v : Int) (t : Tree) (hs : SortedS t.inorder) :
    (ins id k v t).1.inorder = insList id k v t.inorder := by
  induction t with
  | nil => rfl
  | node i k' v' h s l r ihl ihr =>
    simp only [inorder_node] at hs
    obtain ⟨sl, sr, hl, hr⟩ := sortedS_node hs
    simp only [ins]
    by_cases h1 : k > k'
    · simp only [h1, if_true, inorder_goR, ihr sr, inorder_node]
      have : ∀ e ∈ l.inorder ++ [(i, k', v')], e.2.1 < k := by
        intro e he
        rcases List.mem_append.mp he with he | he
        · have := hl e he; simp only at this; omega
        · simp at he; rw [he]; exact h1
      have e1 := insList_append_right id k v (l.inorder ++ [(i, k', v')]) r.inorder this
      simpa using e1.symm
    · by_cases h2 : k < k'
      · simp only [h1, h2, if_true, if_false, inorder_goL, ihl sl, inorder_node]
        exact (insList_append_left id k v l.inorder (i, k', v') r.inorder h2).symm
      · have e : k = k' := by omega
        simp only [h1, h2, if_false, inorder_node]
        have hl' : ∀ a ∈ l.inorder, a.2.1 < k := by intro a ha; have := hl a ha; simp only at this; omega
        rw [insList_append_right id k v l.inorder _ hl']
        simp [insList, e]

theorem insM_inorder (id : Nat) (k v : Int) (t : Tree) (hs : SortedW t.inorder) :
    (insM id k v t).1.inorder = insListM id k v t.inorder := by
  induction t with
  | nil => rfl
  | node i k' v' h s l r ihl ihr =>
    simp only [inorder_node] at hs
    obtain ⟨sl, sr, hl, hr⟩ := sortedW_node hs
    simp only [insM]
    by_cases h2 : k < k'
    · simp only [h2, if_true, inorder_goL, ihl sl, inorder_node]
      exact (insListM_append_left id k v l.inorder (i, k', v') r.inorder h2).symm
    · simp only [h2, if_false, inorder_goR, ihr sr, inorder_node]
      have : ∀ e ∈ l.inorder ++ [(i, k', v')], e.2.1 ≤ k := by
        intro e he
        rcases List.mem_append.mp he with he | he
        · have := hl e he; simp only at this; omega
        · simp at he; rw [he]; simp only; omega
      have e1 := insListM_append_right id k v (l.inorder ++ [(i, k', v')]) r.inorder this
      simpa using e1.symm

/-! ### find -/

theorem findCmps_le (k : Int) (t : Tree) : findCmps k t ≤ 2 * t.height := by
  induction t with
  | nil => simp [findCmps]
  | node i k' v' h s l r ihl ihr =>
    simp only [findCmps, height_node]
    split
    · omega
    · split <;> omega

theorem findMCmps_le (k : Int) (t : Tree) : findMCmps k t ≤ 2 * t.height := by
  induction t with
  | nil => simp [findMCmps]
  | node i k' v' h s l r ihl ihr =>
    simp only [findMCmps, height_node]
    split <;> omega

/-- first in-order position carrying key `k` -/
def firstIdx (k : Int) (es : List E) : Option Nat := es.findIdx? (fun e => e.2.1 == k)

theorem firstIdx_none {k : Int} {es : List E} (h : ∀ e ∈ es, e.2.1 ≠ k) : firstIdx k es = none := by
  unfold firstIdx
  rw [List.findIdx?_eq_none_iff]
  intro x hx; simpa using h x hx

theorem firstIdx_node (k : Int) (L R : List E) (e : E) :
    firstIdx k (L ++ e :: R) =
      (firstIdx k L).or (if e.2.1 = k then some L.length else (firstIdx k R).map (fun j => L.length + 1 + j)) := by
  unfold firstIdx
  rw [List.findIdx?_append, List.findIdx?_cons]
  by_cases h : e.2.1 = k
  · simp [h]
  · simp only [beq_iff_eq, h, if_false, Option.map_map]
    congr 1; congr 1; funext j; simp only [Function.comp]; omega

theorem findIdx_spec (k : Int) (t : Tree) (hs : SortedS t.inorder) :
    findIdx k t = firstIdx k t.inorder := by
  induction t with
  | nil => rfl
  | node i k' v' h s l r ihl ihr =>
    simp only [inorder_node] at hs
    obtain ⟨sl, sr, hl, hr⟩ := sortedS_node hs
    simp only [findIdx, inorder_node, firstIdx_node]
    by_cases h1 : k > k'
    · have hn : firstIdx k l.inorder = none :=
        firstIdx_none (fun e he => by have := hl e he; simp only at this; omega)
      have h3 : ¬ k' = k := by omega
      simp only [h1, if_true, hn, Option.none_or, h3, if_false, ihr sr, size_eq_length]
    · by_cases h2 : k < k'
      · have hn : firstIdx k r.inorder = none :=
          firstIdx_none (fun e he => by have := hr e he; simp only at this; omega)
        have h3 : ¬ k' = k := by omega
        simp only [h1, h2, if_true, if_false, h3, hn, Option.map_none, Option.or_none, ihl sl]
      · have e : k' = k := by omega
        have hn : firstIdx k l.inorder = none :=
          firstIdx_none (fun e' he => by have := hl e' he; simp only at this; omega)
        rw [if_neg h1, if_neg h2, if_pos e, hn]
        simp only [Option.none_or, size_eq_length]

theorem findMLoop_spec (k : Int) (t : Tree) (hs : SortedW t.inorder) (res : Option Nat) (off : Nat) :
    findMLoop k res off t = ((firstIdx k t.inorder).map (fun j => off + j)).or res := by
  induction t generalizing res off with
  | nil => simp [findMLoop, firstIdx]
  | node i k' v' h s l r ihl ihr =>
    simp only [inorder_node] at hs
    obtain ⟨sl, sr, hl, hr⟩ := sortedW_node hs
    simp only [findMLoop, inorder_node, firstIdx_node]
    by_cases h1 : k > k'
    · have hn : firstIdx k l.inorder = none :=
        firstIdx_none (fun e he => by have := hl e he; simp only at this; omega)
      have h3 : ¬ k' = k := by omega
      simp only [h1, if_true, hn, Option.none_or, h3, if_false, ihr sr, size_eq_length, Option.map_map]
      congr 2; funext j; simp only [Function.comp]; omega
    · by_cases h2 : k < k'
      · have hn : firstIdx k r.inorder = none :=
          firstIdx_none (fun e he => by have := hr e he; simp only at this; omega)
        have h3 : ¬ k' = k := by omega
        simp only [h1, h2, if_true, if_false, h3, hn, Option.map_none, Option.or_none, ihl sl]
      · have e : k' = k := by omega
        rw [if_neg h1, if_neg h2, if_pos e, ihl sl]
        simp only [size_eq_length]
        cases firstIdx k l.inorder <;> simp

theorem findMIdx_spec (k : Int) (t : Tree) (hs : SortedW t.inorder) :
    findMIdx k t = firstIdx k t.inorder := by
  simp [findMIdx, findMLoop_spec k t hs]

end Tree
end Nstd.Avl
