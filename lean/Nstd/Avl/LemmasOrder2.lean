import Nstd.Avl.LemmasOrder
/-
  `InvO`: prev/next list = in-order ids, ids distinct and disjoint from the free list; kept by
  every operation.
-/
namespace Nstd.Avl
open Tree

structure InvO (s : St) : Prop where
  order : s.order = ids s.t
  nodup : (ids s.t ++ s.free).Nodup
  bound : ∀ i ∈ ids s.t ++ s.free, i < ipbOf s.multi * s.blocks

theorem invO_init (m : Bool) : InvO (St.init m) :=
  ⟨rfl, by simp [St.init], by simp [St.init]⟩

theorem mem_blockItems (b n x : Nat) : x ∈ blockItems b n ↔ b ≤ x ∧ x < b + n := by
  induction n with
  | zero => simp [blockItems]
  | succ n ih => simp only [blockItems, List.mem_cons, ih]; omega

theorem nodup_blockItems (b n : Nat) : (blockItems b n).Nodup := by
  induction n with
  | zero => simp [blockItems]
  | succ n ih =>
    simp only [blockItems, List.nodup_cons]
    refine ⟨?_, ih⟩
    rw [mem_blockItems]; omega

/-- the translated block sizes are positive (re-checked whenever the constants are regenerated) -/
theorem ipb_pos (m : Bool) : 0 < ipbOf m := by cases m <;> decide

theorem alloc_spec (s : St) (hO : InvO s) :
    (s.alloc.1 :: (ids s.t ++ s.alloc.2.free)).Nodup ∧
    (∀ i ∈ s.alloc.1 :: (ids s.t ++ s.alloc.2.free), i < ipbOf s.alloc.2.multi * s.alloc.2.blocks) := by
  have hn := hO.nodup
  have hb := hO.bound
  unfold St.alloc
  cases hf : s.free with
  | cons i rest =>
    rw [hf] at hn hb
    simp only
    constructor
    · exact (List.perm_middle.nodup_iff).mp hn
    · intro j hj
      exact hb j ((List.perm_middle (a := i) (l₁ := ids s.t) (l₂ := rest)).symm.subset hj)
  | nil =>
    rw [hf] at hn hb
    simp only [List.append_nil] at hn hb
    simp only
    have hlt : ∀ j ∈ ids s.t, j < ipbOf s.multi * s.blocks := hb
    have hpos := ipb_pos s.multi
    have hmem := mem_blockItems (ipbOf s.multi * s.blocks) (ipbOf s.multi)
    have hnd := nodup_blockItems (ipbOf s.multi * s.blocks) (ipbOf s.multi)
    have hmul : ipbOf s.multi * (s.blocks + 1) = ipbOf s.multi * s.blocks + ipbOf s.multi := Nat.mul_succ _ _
    cases hbi : blockItems (ipbOf s.multi * s.blocks) (ipbOf s.multi) with
    | nil =>
      exfalso
      have := (hmem (ipbOf s.multi * s.blocks)).mpr ⟨Nat.le_refl _, by omega⟩
      rw [hbi] at this; simp at this
    | cons i rest =>
      rw [hbi] at hmem hnd
      simp only
      rw [List.nodup_cons] at hnd
      constructor
      · rw [List.nodup_cons]
        constructor
        · intro hm
          rcases List.mem_append.mp hm with hm | hm
          · have := hlt _ hm; have := (hmem i).mp (by simp); omega
          · exact hnd.1 hm
        · rw [List.nodup_append]
          refine ⟨hn, hnd.2, ?_⟩
          intro a ha b hb'
          have := hlt a ha
          have := (hmem b).mp (by simp [hb'])
          omega
      · intro j hj
        rw [hmul]
        rcases List.mem_cons.mp hj with hj | hj
        · have := (hmem j).mp (by simp [hj]); omega
        · rcases List.mem_append.mp hj with hj | hj
          · have := hlt j hj; omega
          · have := (hmem j).mp (by simp [hj]); omega

/-- the generic insert: if the ids of the new tree are the old ids with the new id linked at the
    landing, the list invariant is kept -/
theorem insertIn_invO (s : St) (hO : InvO s) (k : Int) (cell : Option (Nat × Bool)) (sub : Tree)
    (mk : Nat → Tree) (c0 : Nat)
    (hlink : ∀ id, LinkOk s.t none (if s.multi then landM k cell sub else land k cell sub) id (ids (mk id))) :
    InvO (s.insertIn k cell sub mk c0).1 := by
  unfold St.insertIn
  obtain ⟨a1, a2, a3, a4⟩ := alloc_fields s
  obtain ⟨n1, n2⟩ := alloc_spec s hO
  generalize (if s.multi then landM k cell sub else land k cell sub) = ld at hlink
  cases ld with
  | found fid =>
    have := hlink 0
    simp only [LinkOk] at this
    exact ⟨by simp only; rw [this]; exact hO.order, by simp only; rw [this]; exact hO.nodup,
      by simp only; rw [this]; exact hO.bound⟩
  | leaf p =>
    have hl := hlink s.alloc.1
    simp only [LinkOk] at hl
    have key : s.order = ids s.t := hO.order
    have hperm : (ids (mk s.alloc.1)).Perm (s.alloc.1 :: ids s.t) ∧
        threadIn s.order s.alloc.1 p = ids (mk s.alloc.1) := by
      rcases hl with ⟨h1, h2, h3⟩ | ⟨pid, right, h1, h2, h3⟩
      · rw [h3, h2, key, h1]; exact ⟨List.Perm.refl _, rfl⟩
      · rw [h3, h1, threadIn_some, key]; exact ⟨linkAt_perm _ _ _ _, rfl⟩
    refine ⟨hperm.2, ?_, ?_⟩
    · simp only
      have : (ids (mk s.alloc.1) ++ s.alloc.2.free).Perm (s.alloc.1 :: (ids s.t ++ s.alloc.2.free)) :=
        hperm.1.append_right _
      exact (this.nodup_iff).mpr n1
    · simp only
      intro i hi
      have : (ids (mk s.alloc.1) ++ s.alloc.2.free).Perm (s.alloc.1 :: (ids s.t ++ s.alloc.2.free)) :=
        hperm.1.append_right _
      exact n2 i (this.subset hi)

theorem insertRoot_invO (s : St) (hO : InvO s) (k v : Int) (c0 : Nat) : InvO (s.insertRoot k v c0).1 := by
  unfold St.insertRoot
  apply insertIn_invO s hO
  intro id
  have hnd : (ids s.t).Nodup := (List.nodup_append.mp hO.nodup).1
  cases hm : s.multi with
  | false => simp only [St.insSub, hm, Bool.false_eq_true, if_false]; exact ids_ins id k v s.t none hnd
  | true => simp only [St.insSub, hm, if_true]; exact ids_insM id k v s.t none hnd

theorem insertUnder_invO_multi (s : St) (hO : InvO s) (hm : s.multi = true) (right : Bool) (idx hid : Nat)
    (k v : Int) (c0 : Nat) (hidx : idx < s.t.size) (kk vv : Int) (hh : s.t.inorder[idx]? = some (hid, kk, vv)) :
    InvO (s.insertUnder right idx hid k v c0).1 := by
  unfold St.insertUnder
  apply insertIn_invO s hO
  intro id
  have hnd : (ids s.t).Nodup := (List.nodup_append.mp hO.nodup).1
  simp only [St.insSub, hm, if_true]
  exact ids_insAtM id k v right idx s.t none hnd hidx hid kk vv hh

theorem map_eraseIdx_fst (es : List E) (i : Nat) :
    (es.eraseIdx i).map (fun e => e.1) = (es.map (fun e => e.1)).eraseIdx i := by
  induction es generalizing i with
  | nil => rfl
  | cons e es ih =>
    cases i with
    | zero => rfl
    | succ i => simp only [List.eraseIdx_cons_succ, List.map_cons, ih]

theorem removeAt_invO (s : St) (hI : InvT s) (hO : InvO s) (p c0 : Nat) (r : St × Out)
    (h : s.removeAt p c0 = some r) : InvO r.1 := by
  unfold St.removeAt at h
  cases ho : s.order[p]? with
  | none => rw [ho] at h; simp at h
  | some id =>
    rw [ho] at h
    simp only [Option.some.injEq] at h
    subst h
    have hp : p < s.order.length := (List.getElem?_eq_some_iff.mp ho).1
    have hidx : p < s.t.size := by rw [← hI.size, ← hI.olen]; exact hp
    obtain ⟨_, d2, _, _⟩ := delIdx_spec s.t hI.avl p hidx
    have hids : ids (delIdx p s.t).1 = (ids s.t).eraseIdx p := by
      unfold ids; rw [d2, map_eraseIdx_fst]
    have hpi : p < (ids s.t).length := by rw [← hO.order]; exact hp
    have hid : (ids s.t)[p] = id := by
      have := (List.getElem?_eq_some_iff.mp ho).2
      simp only [hO.order] at this ⊢
      exact this
    have hsplit : ids s.t = (ids s.t).take p ++ id :: (ids s.t).drop (p + 1) := by
      rw [← hid, ← List.drop_eq_getElem_cons hpi, List.take_append_drop]
    have hperm : ((ids s.t).eraseIdx p ++ id :: s.free).Perm (ids s.t ++ s.free) := by
      rw [List.eraseIdx_eq_take_drop_succ]
      conv => rhs; rw [hsplit]
      refine List.perm_middle.trans ?_
      refine List.Perm.trans ?_ (List.perm_middle.symm.append_right _)
      exact List.Perm.refl _
    refine ⟨?_, ?_, ?_⟩
    · simp only; rw [hids, hO.order]
    · simp only; rw [hids]; exact (hperm.nodup_iff).mpr hO.nodup
    · simp only; rw [hids]; intro i hi; exact hO.bound i (hperm.subset hi)

end Nstd.Avl
