import Nstd.Avl.Model
/-
  Order invariance: the model only ever looks at the outcome of key comparisons.  For every
  order embedding `f : Int → Int` (strictly monotone), running a history on the `f`-images of the
  keys gives the `f`-image of the run — same tree shape, same stored fields, same ids, same
  returned values and the same comparison counts.
-/
namespace Nstd.Avl

/-- order embedding -/
def Mono (f : Int → Int) : Prop := ∀ a b, a < b ↔ f a < f b

namespace Mono
variable {f : Int → Int} (hf : Mono f)
include hf

theorem lt_eq (a b : Int) : (f a < f b) = (a < b) := propext (hf a b).symm
theorem gt_eq (a b : Int) : (f a > f b) = (a > b) := propext (hf b a).symm
theorem eq_eq (a b : Int) : (f a = f b) = (a = b) := by
  apply propext
  constructor
  · intro h
    rcases Int.lt_trichotomy a b with h1 | h1 | h1
    · have := (hf a b).mp h1; omega
    · exact h1
    · have := (hf b a).mp h1; omega
  · intro h; rw [h]
theorem le_eq (a b : Int) : (f a ≤ f b) = (a ≤ b) := by
  apply propext
  constructor
  · intro h
    rcases Int.lt_trichotomy a b with h1 | h1 | h1
    · omega
    · omega
    · have := (hf b a).mp h1; omega
  · intro h
    rcases Int.lt_or_eq_of_le h with h1 | h1
    · have := (hf a b).mp h1; omega
    · rw [h1]; exact Int.le_refl _
theorem ge_eq (a b : Int) : (f a ≥ f b) = (a ≥ b) := hf.le_eq b a
end Mono

open Tree

/-- relabel the keys of a tree -/
def mapT (f : Int → Int) : Tree → Tree
  | .nil => .nil
  | .node i k v h s l r => .node i (f k) v h s (mapT f l) (mapT f r)

def mapE (f : Int → Int) (e : Nat × Int × Int) : Nat × Int × Int := (e.1, f e.2.1, e.2.2)
def mapP (f : Int → Int) (p : Tree × Bool) : Tree × Bool := (mapT f p.1, p.2)

variable {f : Int → Int}

theorem ht_nd (i k v h s l r) : (Tree.node i k v h s l r).ht = h := rfl
@[simp] theorem mapT_ht (t : Tree) : (mapT f t).ht = t.ht := by cases t <;> rfl
@[simp] theorem mapT_slope (t : Tree) : (mapT f t).slope = t.slope := by cases t <;> rfl
@[simp] theorem mapT_size (t : Tree) : (mapT f t).size = t.size := by
  induction t with
  | nil => rfl
  | node i k v h s l r ihl ihr => simp [mapT, Tree.size, ihl, ihr]
@[simp] theorem mapT_height (t : Tree) : (mapT f t).height = t.height := by
  induction t with
  | nil => rfl
  | node i k v h s l r ihl ihr => simp [mapT, Tree.height, ihl, ihr]
theorem mapT_inorder (t : Tree) : (mapT f t).inorder = t.inorder.map (mapE f) := by
  induction t with
  | nil => rfl
  | node i k v h s l r ihl ihr => simp [mapT, Tree.inorder, ihl, ihr, mapE]

theorem mapT_upd (t : Tree) : mapT f (upd t) = upd (mapT f t) := by
  cases t <;> simp [upd, mapT]

theorem mapT_rotr (t : Tree) : mapT f (rotr t) = rotr (mapT f t) := by
  cases t with
  | nil => rfl
  | node i k v h s l r =>
    cases l with
    | nil => rfl
    | node li lk lv lh ls ll lr => simp [rotr, mapT, upd, ht_nd]

theorem mapT_rotl (t : Tree) : mapT f (rotl t) = rotl (mapT f t) := by
  cases t with
  | nil => rfl
  | node i k v h s l r =>
    cases r with
    | nil => rfl
    | node ri rk rv rh rs rl rr => simp [rotl, mapT, upd, ht_nd]

theorem mapT_shiftr (t : Tree) : mapT f (shiftr t) = shiftr (mapT f t) := by
  cases t with
  | nil => rfl
  | node i k v h s l r =>
    simp only [shiftr, mapT, mapT_slope]
    split
    · rw [mapT_rotr]; simp only [mapT, mapT_rotl]
    · rw [mapT_rotr]; simp only [mapT]

theorem mapT_shiftl (t : Tree) : mapT f (shiftl t) = shiftl (mapT f t) := by
  cases t with
  | nil => rfl
  | node i k v h s l r =>
    simp only [shiftl, mapT, mapT_slope]
    split
    · rw [mapT_rotl]; simp only [mapT, mapT_rotr]
    · rw [mapT_rotl]; simp only [mapT]

theorem mapT_rebal (t : Tree) : mapT f (rebal t) = rebal (mapT f t) := by
  simp only [rebal, mapT_slope]
  split
  · exact mapT_shiftr t
  · split
    · exact mapT_shiftl t
    · rfl

theorem mapP_fixup (h : Nat) (t : Tree) : mapP f (fixup h t) = fixup h (mapT f t) := by
  simp only [fixup, mapP]
  rw [← mapT_upd, ← mapT_rebal, mapT_ht]

theorem mapP_goL (i k v h s r) (p : Tree × Bool) :
    mapP f (goL i k v h s r p) = goL i (f k) v h s (mapT f r) (mapP f p) := by
  simp only [goL]
  cases hp : p.2 with
  | true => simp only [mapP, hp, if_true]; exact mapP_fixup h _
  | false => simp [mapP, hp, mapT]

theorem mapP_goR (i k v h s l) (p : Tree × Bool) :
    mapP f (goR i k v h s l p) = goR i (f k) v h s (mapT f l) (mapP f p) := by
  simp only [goR]
  cases hp : p.2 with
  | true => simp only [mapP, hp, if_true]; exact mapP_fixup h _
  | false => simp [mapP, hp, mapT]

section
variable (hf : Mono f)
include hf

theorem mapP_ins (id : Nat) (k v : Int) (t : Tree) : mapP f (ins id k v t) = ins id (f k) v (mapT f t) := by
  induction t with
  | nil => rfl
  | node i k' v' h s l r ihl ihr =>
    simp only [ins, mapT, hf.gt_eq, hf.lt_eq]
    split
    · rw [mapP_goR, ihr]
    · split
      · rw [mapP_goL, ihl]
      · rfl

theorem mapP_insM (id : Nat) (k v : Int) (t : Tree) : mapP f (insM id k v t) = insM id (f k) v (mapT f t) := by
  induction t with
  | nil => rfl
  | node i k' v' h s l r ihl ihr =>
    simp only [insM, mapT, hf.lt_eq]
    split
    · rw [mapP_goL, ihl]
    · rw [mapP_goR, ihr]

theorem land_map (k : Int) (c : Option (Nat × Bool)) (t : Tree) : land (f k) c (mapT f t) = land k c t := by
  induction t generalizing c with
  | nil => rfl
  | node i k' v' h s l r ihl ihr => simp only [land, mapT, hf.gt_eq, hf.lt_eq, ihl, ihr]

theorem landM_map (k : Int) (c : Option (Nat × Bool)) (t : Tree) : landM (f k) c (mapT f t) = landM k c t := by
  induction t generalizing c with
  | nil => rfl
  | node i k' v' h s l r ihl ihr => simp only [landM, mapT, hf.lt_eq, ihl, ihr]

theorem insCmps_map (k : Int) (t : Tree) : insCmps (f k) (mapT f t) = insCmps k t := by
  induction t with
  | nil => rfl
  | node i k' v' h s l r ihl ihr => simp only [insCmps, mapT, hf.gt_eq, hf.lt_eq, ihl, ihr]

theorem insMCmps_map (k : Int) (t : Tree) : insMCmps (f k) (mapT f t) = insMCmps k t := by
  induction t with
  | nil => rfl
  | node i k' v' h s l r ihl ihr => simp only [insMCmps, mapT, hf.lt_eq, ihl, ihr]

theorem findIdx_map (k : Int) (t : Tree) : findIdx (f k) (mapT f t) = findIdx k t := by
  induction t with
  | nil => rfl
  | node i k' v' h s l r ihl ihr => simp only [findIdx, mapT, hf.gt_eq, hf.lt_eq, ihl, ihr, mapT_size]

theorem findCmps_map (k : Int) (t : Tree) : findCmps (f k) (mapT f t) = findCmps k t := by
  induction t with
  | nil => rfl
  | node i k' v' h s l r ihl ihr => simp only [findCmps, mapT, hf.gt_eq, hf.lt_eq, ihl, ihr]

theorem findMLoop_map (k : Int) (res : Option Nat) (off : Nat) (t : Tree) :
    findMLoop (f k) res off (mapT f t) = findMLoop k res off t := by
  induction t generalizing res off with
  | nil => rfl
  | node i k' v' h s l r ihl ihr => simp only [findMLoop, mapT, hf.gt_eq, hf.lt_eq, ihl, ihr, mapT_size]

theorem findMCmps_map (k : Int) (t : Tree) : findMCmps (f k) (mapT f t) = findMCmps k t := by
  induction t with
  | nil => rfl
  | node i k' v' h s l r ihl ihr => simp only [findMCmps, mapT, hf.gt_eq, ihl, ihr]

theorem countWalk_map (k : Int) (es : List (Nat × Int × Int)) :
    countWalk (f k) (es.map (mapE f)) = countWalk k es := by
  induction es with
  | nil => rfl
  | cons e es ih =>
    obtain ⟨i, k', v'⟩ := e
    simp only [List.map_cons, mapE, countWalk, hf.eq_eq, ih]
end

theorem mapP_insAt (g g' : Tree → Tree × Bool) (hg : ∀ t, mapP f (g t) = g' (mapT f t)) (right : Bool)
    (idx : Nat) (t : Tree) : mapP f (insAt g right idx t) = insAt g' right idx (mapT f t) := by
  induction t generalizing idx with
  | nil => rfl
  | node i k v h s l r ihl ihr =>
    simp only [insAt, mapT, mapT_size]
    split
    · rw [mapP_goL, ihl]
    · split
      · cases right with
        | true => simp only [if_true]; rw [mapP_goR, hg]
        | false => simp only [Bool.false_eq_true, if_false]; rw [mapP_goL, hg]
      · rw [mapP_goR, ihr]

theorem mapT_subAt (right : Bool) (idx : Nat) (t : Tree) : mapT f (subAt right idx t) = subAt right idx (mapT f t) := by
  induction t generalizing idx with
  | nil => rfl
  | node i k v h s l r ihl ihr =>
    simp only [subAt, mapT, mapT_size]
    split
    · exact ihl idx
    · split
      · cases right <;> rfl
      · exact ihr _

theorem mapT_setAt (v : Int) (idx : Nat) (t : Tree) : mapT f (setAt v idx t) = setAt v idx (mapT f t) := by
  induction t generalizing idx with
  | nil => rfl
  | node i k v' h s l r ihl ihr =>
    simp only [setAt, mapT, mapT_size]
    split
    · simp only [mapT, ihl]
    · split
      · rfl
      · simp only [mapT, ihr]

def mapPop (f : Int → Int) (x : Option ((Nat × Int × Int) × Tree × Bool)) : Option ((Nat × Int × Int) × Tree × Bool) :=
  x.map (fun y => (mapE f y.1, mapP f y.2))

theorem popMin_map (t : Tree) : popMin (mapT f t) = mapPop f (popMin t) := by
  induction t with
  | nil => rfl
  | node i k v h s l r ihl ihr =>
    simp only [popMin, mapT, ihl]
    cases popMin l with
    | none => rfl
    | some y => simp only [mapPop, Option.map_some, mapP_goL]

theorem popMax_map (t : Tree) : popMax (mapT f t) = mapPop f (popMax t) := by
  induction t with
  | nil => rfl
  | node i k v h s l r ihl ihr =>
    simp only [popMax, mapT, ihr]
    cases popMax r with
    | none => rfl
    | some y => simp only [mapPop, Option.map_some, mapP_goR]

theorem mapT_removeRoot (t : Tree) : mapT f (removeRoot t) = removeRoot (mapT f t) := by
  cases t with
  | nil => rfl
  | node i k v h s l r =>
    cases l with
    | nil => cases r <;> rfl
    | node li lk lv lh ls ll lr =>
      cases r with
      | nil => rfl
      | node ri rk rv rh rs rl rr =>
        have e1 := popMin_map (f := f) (.node ri rk rv rh rs rl rr)
        have e2 := popMax_map (f := f) (.node li lk lv lh ls ll lr)
        simp only [mapT] at e1 e2
        simp only [removeRoot, mapT, ht_nd]
        rw [e1, e2]
        by_cases hlt : lh < rh
        · simp only [hlt, if_true]
          cases popMin (.node ri rk rv rh rs rl rr) with
          | none => rfl
          | some y =>
            obtain ⟨⟨mi, mk, mv⟩, r', c⟩ := y
            simp only [mapPop, Option.map_some, mapE, mapP, mapT_rebal, mapT_upd, mapT]
        · simp only [hlt, if_false]
          cases popMax (.node li lk lv lh ls ll lr) with
          | none => rfl
          | some y =>
            obtain ⟨⟨mi, mk, mv⟩, l', c⟩ := y
            simp only [mapPop, Option.map_some, mapE, mapP, mapT_rebal, mapT_upd, mapT]

theorem mapP_delIdx (idx : Nat) (t : Tree) : mapP f (delIdx idx t) = delIdx idx (mapT f t) := by
  induction t generalizing idx with
  | nil => rfl
  | node i k v h s l r ihl ihr =>
    simp only [delIdx, mapT, mapT_size]
    split
    · rw [mapP_goL, ihl]
    · split
      · have := mapT_removeRoot (f := f) (.node i k v h s l r)
        simp only [mapT] at this
        simp only [mapP, this]
      · rw [mapP_goR, ihr]

/-! ### the container -/

def mapSt (f : Int → Int) (s : St) : St := { s with t := mapT f s.t }

def mapOp (f : Int → Int) : Op → Op
  | .insert k v => .insert (f k) v
  | .insertAt p k v => .insertAt p (f k) v
  | .removeKey k => .removeKey (f k)
  | .find k => .find (f k)
  | .contains k => .contains (f k)
  | .count k => .count (f k)
  | op => op

def mapR (f : Int → Int) (x : Option (St × Out)) : Option (St × Out) := x.map (fun r => (mapSt f r.1, r.2))

theorem alloc_map (s : St) : (mapSt f s).alloc = (s.alloc.1, mapSt f s.alloc.2) := by
  unfold St.alloc mapSt
  cases s.free with
  | cons i rest => rfl
  | nil => simp only; cases blockItems (ipbOf s.multi * s.blocks) (ipbOf s.multi) <;> rfl

section
variable (hf : Mono f)
include hf

theorem insertIn_map (s : St) (k : Int) (cell : Option (Nat × Bool)) (sub : Tree) (mk mk' : Nat → Tree)
    (hmk : ∀ id, mapT f (mk id) = mk' id) (c0 : Nat) :
    (mapSt f s).insertIn (f k) cell (mapT f sub) mk' c0 =
      (mapSt f (s.insertIn k cell sub mk c0).1, (s.insertIn k cell sub mk c0).2) := by
  unfold St.insertIn
  rw [alloc_map]
  simp only [mapSt, land_map hf, landM_map hf, insCmps_map hf, insMCmps_map hf]
  cases (if s.multi then landM k cell sub else land k cell sub) with
  | found id => simp only [← hmk]
  | leaf p => simp only [← hmk]

theorem insSub_map (s : St) (id : Nat) (k v : Int) (t : Tree) :
    mapP f (s.insSub id k v t) = (mapSt f s).insSub id (f k) v (mapT f t) := by
  obtain ⟨multi, t0, order, size, free, blocks⟩ := s
  cases multi with
  | true => exact mapP_insM hf id k v t
  | false => exact mapP_ins hf id k v t

theorem insertRoot_map (s : St) (k v : Int) (c0 : Nat) :
    (mapSt f s).insertRoot (f k) v c0 = (mapSt f (s.insertRoot k v c0).1, (s.insertRoot k v c0).2) := by
  unfold St.insertRoot
  have := insertIn_map hf s k none s.t (fun id => (s.insSub id k v s.t).1)
    (fun id => ((mapSt f s).insSub id (f k) v (mapSt f s).t).1)
    (fun id => by have := insSub_map hf s id k v s.t; simp only [mapP] at this; simp only [mapSt] at this ⊢; rw [← this]) c0
  simpa [mapSt] using this

theorem insertUnder_map (s : St) (right : Bool) (idx hid : Nat) (k v : Int) (c0 : Nat) :
    (mapSt f s).insertUnder right idx hid (f k) v c0 =
      (mapSt f (s.insertUnder right idx hid k v c0).1, (s.insertUnder right idx hid k v c0).2) := by
  unfold St.insertUnder
  have := insertIn_map hf s k (some (hid, right)) (subAt right idx s.t)
    (fun id => (insAt (s.insSub id k v) right idx s.t).1)
    (fun id => (insAt ((mapSt f s).insSub id (f k) v) right idx (mapSt f s).t).1)
    (fun id => by
      have := mapP_insAt (f := f) (s.insSub id k v) ((mapSt f s).insSub id (f k) v)
        (fun t => insSub_map hf s id k v t) right idx s.t
      simp only [mapP] at this
      simp only [mapSt] at this ⊢
      rw [← this]) c0
  rw [mapT_subAt] at this
  simpa [mapSt] using this

theorem insertAt_map (s : St) (p : Nat) (k v : Int) :
    (mapSt f s).insertAt p (f k) v = mapR f (s.insertAt p k v) := by
  unfold St.insertAt
  have e1 : (mapSt f s).t.inorder = s.t.inorder.map (mapE f) := mapT_inorder _
  have e2 : (mapSt f s).size = s.size := rfl
  have e3 : (mapSt f s).multi = s.multi := rfl
  have hsetAt : ({ mapSt f s with t := setAt v p (mapSt f s).t } : St) = mapSt f { s with t := setAt v p s.t } := by
    simp only [mapSt, mapT_setAt]
  simp only [e1, e2, e3, List.getLast?_map, List.getElem?_map]
  by_cases hend : p = s.size
  · simp only [hend, if_true]
    cases s.t.inorder.getLast? with
    | none => simp only [Option.map_none, mapR, Option.map_some, insertRoot_map hf]
    | some e =>
      obtain ⟨pi, pk, pv⟩ := e
      simp only [Option.map_some, mapE, hf.gt_eq]
      split
      · simp only [mapR, Option.map_some, insertUnder_map hf]
      · simp only [mapR, Option.map_some, insertRoot_map hf]
  · simp only [hend, if_false]
    cases s.t.inorder[p]? with
    | none => rfl
    | some e =>
      obtain ⟨hi, hk, hv⟩ := e
      simp only [Option.map_some, mapE, hf.gt_eq, hf.lt_eq, hf.ge_eq, hf.le_eq]
      have hprev : (if p = 0 then none else Option.map (mapE f) s.t.inorder[p - 1]?) =
          Option.map (mapE f) (if p = 0 then none else s.t.inorder[p - 1]?) := by
        split <;> rfl
      rw [hprev]
      cases (if p = 0 then none else s.t.inorder[p - 1]?) with
      | none =>
        cases s.t.inorder[p + 1]? with
        | none =>
          simp only [Option.map_none]
          repeat' split
          all_goals first
            | (simp only [mapR, Option.map_some, insertUnder_map hf, insertRoot_map hf]; done)
            | (simp only [mapR, Option.map_some, mapSt, mapT_setAt])
        | some ne =>
          obtain ⟨ni, nk, nv⟩ := ne
          simp only [Option.map_none, Option.map_some, mapE, hf.lt_eq, hf.le_eq]
          repeat' split
          all_goals first
            | (simp only [mapR, Option.map_some, insertUnder_map hf, insertRoot_map hf]; done)
            | (simp only [mapR, Option.map_some, mapSt, mapT_setAt])
      | some pe =>
        obtain ⟨ppi, ppk, ppv⟩ := pe
        cases s.t.inorder[p + 1]? with
        | none =>
          simp only [Option.map_none, Option.map_some, mapE, hf.gt_eq, hf.ge_eq]
          repeat' split
          all_goals first
            | (simp only [mapR, Option.map_some, insertUnder_map hf, insertRoot_map hf]; done)
            | (simp only [mapR, Option.map_some, mapSt, mapT_setAt])
        | some ne =>
          obtain ⟨ni, nk, nv⟩ := ne
          simp only [Option.map_none, Option.map_some, mapE, hf.lt_eq, hf.le_eq, hf.gt_eq, hf.ge_eq]
          repeat' split
          all_goals first
            | (simp only [mapR, Option.map_some, insertUnder_map hf, insertRoot_map hf]; done)
            | (simp only [mapR, Option.map_some, mapSt, mapT_setAt])

theorem removeAt_map (s : St) (p c0 : Nat) : (mapSt f s).removeAt p c0 = mapR f (s.removeAt p c0) := by
  unfold St.removeAt
  have e : (mapSt f s).order = s.order := rfl
  rw [e]
  cases s.order[p]? with
  | none => rfl
  | some id =>
    simp only [mapR, Option.map_some, mapSt]
    have := mapP_delIdx (f := f) p s.t
    simp only [mapP] at this
    rw [← this]

theorem step_map (s : St) (op : Op) : step (mapSt f s) (mapOp f op) = mapR f (step s op) := by
  have e2 : (mapSt f s).size = s.size := rfl
  have e3 : (mapSt f s).multi = s.multi := rfl
  have e4 : (mapSt f s).order = s.order := rfl
  have hfi : ∀ k, (mapSt f s).findIdx (f k) = s.findIdx k := by
    intro k
    unfold St.findIdx Tree.findMIdx
    simp only [e3, mapSt, findIdx_map hf, findMLoop_map hf]
  have hfc : ∀ k, (mapSt f s).findCmps (f k) = s.findCmps k := by
    intro k
    unfold St.findCmps
    simp only [e3, mapSt, findCmps_map hf, findMCmps_map hf]
  have hval : ∀ id, (mapSt f s).valueOf id = s.valueOf id := by
    intro id
    unfold St.valueOf
    have : (mapSt f s).t.inorder = s.t.inorder.map (mapE f) := mapT_inorder _
    rw [this, List.find?_map]
    have hc : ((fun e : Nat × Int × Int => e.1 == id) ∘ mapE f) = (fun e : Nat × Int × Int => e.1 == id) := rfl
    rw [hc]
    cases s.t.inorder.find? (fun e => e.1 == id) <;> rfl
  cases op with
  | insert k v => simp only [step, mapOp, mapR, Option.map_some, insertRoot_map hf]
  | insertAt p k v =>
    simp only [step, mapOp, e2]
    split
    · exact insertAt_map hf s p k v
    · rfl
  | removeKey k =>
    simp only [step, mapOp, hfi, hfc]
    cases s.findIdx k with
    | none => simp only [mapR, Option.map_some]
    | some p =>
      simp only [removeAt_map hf]
      cases s.removeAt p (s.findCmps k) <;> rfl
  | removeAt p => simp only [step, mapOp]; exact removeAt_map hf s p 0
  | removeFront => simp only [step, mapOp]; exact removeAt_map hf s 0 0
  | removeBack =>
    simp only [step, mapOp, e2]
    split
    · rfl
    · exact removeAt_map hf s _ 0
  | clear => simp only [step, mapOp, mapR, Option.map_some, mapSt, mapT]
  | find k => simp only [step, mapOp, hfi, hfc, e2, mapR, Option.map_some]
  | contains k => simp only [step, mapOp, hfi, hfc, mapR, Option.map_some]
  | count k =>
    simp only [step, mapOp, hfi, hfc, e3]
    split
    · cases s.findIdx k with
      | none => simp only [mapR, Option.map_some]
      | some p =>
        simp only
        have : (mapSt f s).t.inorder = s.t.inorder.map (mapE f) := mapT_inorder _
        rw [this, ← List.map_drop, countWalk_map hf]
        simp only [mapR, Option.map_some]
    · rfl
  | front =>
    simp only [step, mapOp, e4, hval]
    cases s.order.head? <;> rfl
  | back =>
    simp only [step, mapOp, e4, hval]
    cases s.order.getLast? <;> rfl
end

end Nstd.Avl
