import Nstd.Avl.LemmasHeapClimb
/-
  The head of `remove(it)` (translated into Generated/AvlRot.lean as `removeHead`: everything in front of the label
  `rebalParent:` with the two-children branches cut off) against the model's `removeRoot`.
-/
namespace Nstd.Avl
open Tree
open Nstd.Avl.Heap
open Nstd.Generated.AvlRot

theorem frame_set (h : Heap) (c : Cell) (v : Nat) (t : Tree) : Frame h (h.set c v) c t := by
  refine ⟨set_key _ _ _, set_value _ _ _, fun q _ => by rw [set_parent], fun q _ => by rw [set_height],
    fun q _ => by rw [set_slope], fun q _ hc => by rw [set_left, if_neg hc], fun q _ hc => by rw [set_right, if_neg hc],
    fun hc => by rw [set_root, if_neg hc]⟩

theorem get_setParent (h : Heap) (c : Cell) (p v : Nat) : (h.setParent p v).get c = h.get c := by
  cases c <;> rfl

theorem removeHead_cell (h : Heap) (c : Cell) (par : Nat) (hc : CellAt c par)
    (hcell : c = .right par → h.left par ≠ h.get c) :
    (if par ≠ 0 then (if h.left par = h.get c then Cell.left par else Cell.right par) else Cell.root) = c := by
  cases c with
  | root => simp only [CellAt] at hc; simp [hc]
  | left p =>
    simp only [CellAt] at hc
    obtain ⟨e1, e2⟩ := hc
    subst e1
    simp [e2, Heap.get]
  | right p =>
    simp only [CellAt] at hc
    obtain ⟨e1, e2⟩ := hc
    subst e1
    have := hcell rfl
    simp [e2, this]

/-- **the head of `remove(it)`** (Map.hpp:199-226): the cell computation, the three trivial cases and the choice of the
    neighbour.  Trivial cases: the item's cell receives its only child (or null), the child's parent link is
    redirected, nothing else changes, control goes to `rebalParentUpwards` (tag 0) with `parent` = the item's parent —
    the heap holds the model's `removeRoot t` in the cell.  Two children: nothing is stored yet, tag 1 (successor,
    `next`) iff `left->height < right->height`, else tag 2 (predecessor) — the model's test `l.ht < r.ht`. -/
theorem removeHead_repr (h : Heap) (c : Cell) (par i : Nat) (k v : Int) (hh : Nat) (s : Int) (l r : Tree)
    (hc : CellAt c par) (hcell : c = .right par → h.left par ≠ h.get c)
    (hpar : ∀ j, Mem j (node i k v hh s l r) → par ≠ j + 1) (hd : Distinct (node i k v hh s l r))
    (hr : Repr h (h.get c) par (node i k v hh s l r)) :
    (Map.removeHead h (h.get c)).2.1 = par ∧
    ((l = .nil ∨ r = .nil) → (Map.removeHead h (h.get c)).2.2 = 0 ∧
      Repr (Map.removeHead h (h.get c)).1 ((Map.removeHead h (h.get c)).1.get c) par (Tree.removeRoot (node i k v hh s l r)) ∧
      Frame h (Map.removeHead h (h.get c)).1 c (node i k v hh s l r)) ∧
    (l ≠ .nil → r ≠ .nil → (Map.removeHead h (h.get c)).1 = h ∧
      (Map.removeHead h (h.get c)).2.2 = if l.ht < r.ht then 1 else 2) := by
  rw [repr_node_iff] at hr
  obtain ⟨eP, kP, vP, pP, hP, sP, rL, rR⟩ := hr
  have hce := removeHead_cell h c par hc hcell
  unfold Map.removeHead
  simp only [pP, hce]
  simp only [Distinct, Mem] at hd hpar
  cases l with
  | nil =>
    have eL : h.left (h.get c) = 0 := rL
    cases r with
    | nil =>
      have eR : h.right (h.get c) = 0 := rR
      simp only [eL, eR, ne_eq, not_true_eq_false, if_false, Tree.removeRoot]
      refine ⟨trivial, fun _ => ⟨trivial, ?_, frame_set _ _ _ _⟩, fun x => False.elim x⟩
      rw [get_set_self]; rfl
    | node ri rk rv rh rs rl rr =>
      have hR0 : h.right (h.get c) ≠ 0 := (repr_ptr rR).mpr (by simp)
      simp only [eL, hR0, ne_eq, not_true_eq_false, not_false_eq_true, if_false, if_true, Tree.removeRoot]
      refine ⟨trivial, fun _ => ⟨trivial, ?_, ?_⟩, fun x => False.elim x⟩
      · rw [get_setParent, get_set_self]
        refine repr_reparent rR (by grind) ?_ ?_ ?_
        · intro j hj
          have : par ≠ j + 1 := hpar j (by grind)
          have c1 := cell_ne_left hc this.symm
          have c2 := cell_ne_right hc this.symm
          simp only [Heap.setParent, set_key, set_value, set_left, set_right, set_height, set_slope, c1, c2, if_false, and_self]
        · intro j hj hne
          simp only [Heap.setParent, set_parent, upd1_apply, hne, if_false]
        · intro _; simp only [Heap.setParent, upd1_same]
      · have hRm : ∀ q, (∀ j, Mem j (node i k v hh s nil (node ri rk rv rh rs rl rr)) → q ≠ j + 1) → q ≠ h.right (h.get c) := by
          intro q hq
          have := (repr_node_iff h _ _ ri rk rv rh rs rl rr).mp rR
          rw [this.1]; exact hq ri (by simp [Mem])
        have f0 := frame_set h c (h.right (h.get c)) (node i k v hh s nil (node ri rk rv rh rs rl rr))
        refine ⟨f0.key, f0.value, ?_, f0.height, f0.slope, f0.left, f0.right, f0.root⟩
        intro q hq
        simp only [Heap.setParent, upd1_apply, hRm q hq, if_false]
        exact f0.parent q hq
  | node li lk lv lh ls ll lr =>
    have hL0 : h.left (h.get c) ≠ 0 := (repr_ptr rL).mpr (by simp)
    cases r with
    | nil =>
      have eR : h.right (h.get c) = 0 := rR
      simp only [eR, hL0, ne_eq, not_true_eq_false, not_false_eq_true, if_false, if_true, Tree.removeRoot]
      refine ⟨trivial, fun _ => ⟨trivial, ?_, ?_⟩, fun _ x => False.elim x⟩
      · rw [get_setParent, get_set_self]
        refine repr_reparent rL (by grind) ?_ ?_ ?_
        · intro j hj
          have : par ≠ j + 1 := hpar j (by grind)
          have c1 := cell_ne_left hc this.symm
          have c2 := cell_ne_right hc this.symm
          simp only [Heap.setParent, set_key, set_value, set_left, set_right, set_height, set_slope, c1, c2, if_false, and_self]
        · intro j hj hne
          simp only [Heap.setParent, set_parent, upd1_apply, hne, if_false]
        · intro _; simp only [Heap.setParent, upd1_same]
      · have hLm : ∀ q, (∀ j, Mem j (node i k v hh s (node li lk lv lh ls ll lr) nil) → q ≠ j + 1) → q ≠ h.left (h.get c) := by
          intro q hq
          have := (repr_node_iff h _ _ li lk lv lh ls ll lr).mp rL
          rw [this.1]; exact hq li (by simp [Mem])
        have f0 := frame_set h c (h.left (h.get c)) (node i k v hh s (node li lk lv lh ls ll lr) nil)
        refine ⟨f0.key, f0.value, ?_, f0.height, f0.slope, f0.left, f0.right, f0.root⟩
        intro q hq
        simp only [Heap.setParent, upd1_apply, hLm q hq, if_false]
        exact f0.parent q hq
    | node ri rk rv rh rs rl rr =>
      have hR0 : h.right (h.get c) ≠ 0 := (repr_ptr rR).mpr (by simp)
      have e1 := (repr_node_fields rL (by simp)).1
      have e2 := (repr_node_fields rR (by simp)).1
      simp only [hL0, hR0, ne_eq, not_false_eq_true, if_true, e1, e2]
      refine ⟨?_, fun x => by rcases x with x | x <;> simp at x, fun _ _ => ?_⟩
      · split <;> rfl
      · constructor
        · split <;> rfl
        · split <;> first | rfl | (simp only []; done) | (simp only []; first | rw [if_pos (by omega)] | rw [if_neg (by omega)])

theorem multi_removeHead : Multi.removeHead = Map.removeHead := by
  first
  | rfl
  | (funext h p; simp only [Multi.removeHead, Map.removeHead]; done)
  | (funext h p; simp only [Multi.removeHead, Map.removeHead]; grind)

/-- the `while(parent)` loop behind `rebalParentUpwards:` does what the `do … while(parent)` loop of the private insert
    does when it is entered with a non-null parent (one more unit of fuel for the final test) -/
theorem removeUp_of_insertLoop : ∀ (f : Nat) (h : Heap) (p old old' : Nat) (x : Heap), p ≠ 0 →
    Map.insertRebalance_loop f h p old = some x → Map.removeUpwards_loop (f + 1) h p old' = some x := by
  intro f
  induction f with
  | zero => intro h p old old' x _ e; rw [Map.insertRebalance_loop] at e; simp at e
  | succ f ih =>
    intro h p old old' x hp e
    rw [Map.insertRebalance_loop] at e
    rw [Map.removeUpwards_loop]
    simp only [hp, ne_eq, not_false_eq_true, if_true] at e ⊢
    split at e
    · rename_i hc; rw [if_pos hc]; exact e
    · rename_i hc
      rw [if_neg hc]
      split at e
      · rename_i hp'
        exact ih _ _ _ _ _ hp' e
      · rename_i hp'
        have : (Map.rebal (Map.updateHeightAndSlope h p) p).1.parent (Map.rebal (Map.updateHeightAndSlope h p) p).2 = 0 := by
          simpa using hp'
        rw [Map.removeUpwards_loop]
        simp only [this, ne_eq, not_true_eq_false, if_false]
        exact e

theorem removeUpwards_loop_eq (ctx : Ctx) (h : Heap) (sub : Tree) (fuel old : Nat)
    (hc : ReprCtx h ctx) (hs : Repr h (h.get ctx.cell) ctx.par sub) (hnd : (ids sub ++ ctx.ids).Nodup)
    (hok : ClimbOk ctx (sub, true)) (hf : ctx.depth < fuel) :
    ∃ h', Map.removeUpwards_loop fuel h ctx.par old = some h' ∧ Repr h' h'.root 0 (ctx.climb (sub, true)).1 ∧
      h'.key = h.key ∧ h'.value = h.value := by
  cases fuel with
  | zero => omega
  | succ f =>
    by_cases ht : ctx = .top
    · subst ht
      refine ⟨h, ?_, hs, rfl, rfl⟩
      rw [Map.removeUpwards_loop]; simp [Ctx.par]
    · obtain ⟨h', e1, e2, e3, e4⟩ := insertRebalance_loop_eq ctx h sub f old ht hc hs hnd hok (by omega)
      exact ⟨h', removeUp_of_insertLoop f h ctx.par old old h' (fun e => ht ((par_eq_zero ctx).mp e)) e1, e2, e3, e4⟩

/-- in-order position, in the whole tree, of position `j` of the subtree in the hole -/
def Ctx.pos : Ctx → Nat → Nat
  | .top, j => j
  | .left _ _ _ _ _ _ up, j => up.pos j
  | .right _ _ _ _ _ l up, j => up.pos (l.size + 1 + j)

theorem delIdx_plug : ∀ (ctx : Ctx) (sub : Tree) (j : Nat), j < sub.size →
    Tree.delIdx (ctx.pos j) (ctx.plug sub) = ctx.climb (Tree.delIdx j sub) := by
  intro ctx
  induction ctx with
  | top => intro sub j _; rfl
  | left i k v hh s r up ih =>
    intro sub j hj
    simp only [Ctx.pos, Ctx.plug, Ctx.climb]
    rw [ih _ j (by simp only [Tree.size]; omega)]
    congr 1
    simp only [Tree.delIdx, hj, if_true]
  | right i k v hh s l up ih =>
    intro sub j hj
    simp only [Ctx.pos, Ctx.plug, Ctx.climb]
    rw [ih _ _ (by simp only [Tree.size]; omega)]
    congr 1
    have h1 : ¬ (l.size + 1 + j < l.size) := by omega
    have h2 : ¬ (l.size + 1 + j = l.size) := by omega
    have h3 : l.size + 1 + j - l.size - 1 = j := by omega
    simp only [Tree.delIdx, h1, h2, h3, if_false]

theorem multi_removeUp : ∀ (fuel : Nat) (h : Heap) (p old : Nat),
    Multi.removeUpwards_loop fuel h p old = Map.removeUpwards_loop fuel h p old := by
  intro fuel
  induction fuel with
  | zero => intro h p old; rw [Multi.removeUpwards_loop, Map.removeUpwards_loop]
  | succ f ih =>
    intro h p old
    rw [Multi.removeUpwards_loop, Map.removeUpwards_loop]
    simp only [multi_upd, multi_rebal, ih]

end Nstd.Avl
