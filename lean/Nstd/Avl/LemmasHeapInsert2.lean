import Nstd.Avl.LemmasHeapInsert
/-
  Contexts and trees under stores at other addresses (`reprCtx_agree`), the free list (`FreeRepr`), the ids of a
  plugged context (`ids_plug_perm`).
-/
namespace Nstd.Avl
open Tree
open Nstd.Avl.Heap
open Nstd.Generated.AvlRot

/-- all tree fields of the item at pointer `q` agree in the two heaps -/
def AgreeAt (h h' : Heap) (q : Nat) : Prop :=
  h'.key q = h.key q ∧ h'.value q = h.value q ∧ h'.parent q = h.parent q ∧ h'.height q = h.height q ∧
  h'.slope q = h.slope q ∧ h'.left q = h.left q ∧ h'.right q = h.right q

theorem repr_agree {h h' : Heap} {t : Tree} {p par : Nat} (hr : Repr h p par t)
    (ha : ∀ j ∈ ids t, AgreeAt h h' (j + 1)) : Repr h' p par t := by
  refine repr_frame hr ?_ ?_
  · intro j hj
    obtain ⟨a1, a2, a3, a4, a5, a6, a7⟩ := ha j ((mem_iff_ids' j t).mp hj)
    exact ⟨a1, a2, a6, a7, a4, a5⟩
  · intro j hj
    exact (ha j ((mem_iff_ids' j t).mp hj)).2.2.1

/-- a context survives stores that leave its items alone — except for the link of its hole -/
theorem reprCtx_agree {h h' : Heap} : ∀ (ctx : Ctx), ReprCtx h ctx →
    (∀ j ∈ ctx.ids, h'.key (j + 1) = h.key (j + 1) ∧ h'.value (j + 1) = h.value (j + 1) ∧ h'.parent (j + 1) = h.parent (j + 1) ∧
      h'.height (j + 1) = h.height (j + 1) ∧ h'.slope (j + 1) = h.slope (j + 1)) →
    (∀ j ∈ ctx.ids, ctx.cell ≠ .left (j + 1) → h'.left (j + 1) = h.left (j + 1)) →
    (∀ j ∈ ctx.ids, ctx.cell ≠ .right (j + 1) → h'.right (j + 1) = h.right (j + 1)) →
    (ctx.cell ≠ .root → h'.root = h.root) → ctx.ids.Nodup → ReprCtx h' ctx := by
  intro ctx
  induction ctx with
  | top => intro _ _ _ _ _ _; trivial
  | left i k v hh s r up ih =>
    intro hc hf hl hr hroot hnd
    obtain ⟨a1, a2, a3, a4, a5, a6, a7, a8⟩ := hc
    have n1 : ¬ (i ∈ Avl.ids r ∨ i ∈ up.ids) := by
      simp only [Ctx.ids, List.cons_append, List.nodup_cons, List.mem_append] at hnd; exact hnd.1
    have n3 : up.ids.Nodup := by
      simp only [Ctx.ids, List.cons_append, List.nodup_cons, List.nodup_append] at hnd; exact hnd.2.2.1
    have mi : i ∈ (Ctx.left i k v hh s r up).ids := by simp [Ctx.ids]
    have mr : ∀ j, j ∈ Avl.ids r → j ∈ (Ctx.left i k v hh s r up).ids := by intro j hj; simp [Ctx.ids, hj]
    have mu : ∀ j, j ∈ up.ids → j ∈ (Ctx.left i k v hh s r up).ids := by intro j hj; simp [Ctx.ids, hj]
    have ne : ∀ j, j ∈ Avl.ids r ∨ j ∈ up.ids → j ≠ i := fun j hj e => n1 (e ▸ hj)
    obtain ⟨f1, f2, f3, f4, f5⟩ := hf i mi
    have hcl : ∀ j, j ≠ i → (Ctx.left i k v hh s r up).cell ≠ .left (j + 1) := by
      intro j hj; simp only [Ctx.cell, ne_eq, Cell.left.injEq]; omega
    have hcr : ∀ j, (Ctx.left i k v hh s r up).cell ≠ .right (j + 1) := by intro j; simp [Ctx.cell]
    have hg : h'.get up.cell = h.get up.cell := by
      cases up with
      | top => exact hroot (by simp [Ctx.cell])
      | left q _ _ _ _ _ _ => exact hl q (mu q (by simp [Ctx.ids])) (hcl q (ne q (Or.inr (by simp [Ctx.ids]))))
      | right q _ _ _ _ _ _ => exact hr q (mu q (by simp [Ctx.ids])) (hcr q)
    refine ⟨by rw [f1]; exact a1, by rw [f2]; exact a2, by rw [f4]; exact a3, by rw [f5]; exact a4, by rw [f3]; exact a5,
      by rw [hg]; exact a6, ?_, ?_⟩
    · rw [hr i mi (hcr i)]
      refine repr_agree a7 ?_
      intro j hj
      obtain ⟨g1, g2, g3, g4, g5⟩ := hf j (mr j hj)
      exact ⟨g1, g2, g3, g4, g5, hl j (mr j hj) (hcl j (ne j (Or.inl hj))), hr j (mr j hj) (hcr j)⟩
    · refine ih a8 (fun j hj => hf j (mu j hj)) ?_ ?_ ?_ n3
      · intro j hj _; exact hl j (mu j hj) (hcl j (ne j (Or.inr hj)))
      · intro j hj _; exact hr j (mu j hj) (hcr j)
      · intro _; exact hroot (by simp [Ctx.cell])
  | right i k v hh s l up ih =>
    intro hc hf hl hr hroot hnd
    obtain ⟨a1, a2, a3, a4, a5, a6, a7, a8⟩ := hc
    have n1 : ¬ (i ∈ Avl.ids l ∨ i ∈ up.ids) := by
      simp only [Ctx.ids, List.cons_append, List.nodup_cons, List.mem_append] at hnd; exact hnd.1
    have n3 : up.ids.Nodup := by
      simp only [Ctx.ids, List.cons_append, List.nodup_cons, List.nodup_append] at hnd; exact hnd.2.2.1
    have mi : i ∈ (Ctx.right i k v hh s l up).ids := by simp [Ctx.ids]
    have mr : ∀ j, j ∈ Avl.ids l → j ∈ (Ctx.right i k v hh s l up).ids := by intro j hj; simp [Ctx.ids, hj]
    have mu : ∀ j, j ∈ up.ids → j ∈ (Ctx.right i k v hh s l up).ids := by intro j hj; simp [Ctx.ids, hj]
    have ne : ∀ j, j ∈ Avl.ids l ∨ j ∈ up.ids → j ≠ i := fun j hj e => n1 (e ▸ hj)
    obtain ⟨f1, f2, f3, f4, f5⟩ := hf i mi
    have hcr : ∀ j, j ≠ i → (Ctx.right i k v hh s l up).cell ≠ .right (j + 1) := by
      intro j hj; simp only [Ctx.cell, ne_eq, Cell.right.injEq]; omega
    have hcl : ∀ j, (Ctx.right i k v hh s l up).cell ≠ .left (j + 1) := by intro j; simp [Ctx.cell]
    have hg : h'.get up.cell = h.get up.cell := by
      cases up with
      | top => exact hroot (by simp [Ctx.cell])
      | left q _ _ _ _ _ _ => exact hl q (mu q (by simp [Ctx.ids])) (hcl q)
      | right q _ _ _ _ _ _ => exact hr q (mu q (by simp [Ctx.ids])) (hcr q (ne q (Or.inr (by simp [Ctx.ids]))))
    refine ⟨by rw [f1]; exact a1, by rw [f2]; exact a2, by rw [f4]; exact a3, by rw [f5]; exact a4, by rw [f3]; exact a5,
      by rw [hg]; exact a6, ?_, ?_⟩
    · rw [hl i mi (hcl i)]
      refine repr_agree a7 ?_
      intro j hj
      obtain ⟨g1, g2, g3, g4, g5⟩ := hf j (mr j hj)
      exact ⟨g1, g2, g3, g4, g5, hl j (mr j hj) (hcl j), hr j (mr j hj) (hcr j (ne j (Or.inl hj)))⟩
    · refine ih a8 (fun j hj => hf j (mu j hj)) ?_ ?_ ?_ n3
      · intro j hj _; exact hl j (mu j hj) (hcl j)
      · intro j hj _; exact hr j (mu j hj) (hcr j (ne j (Or.inr hj)))
      · intro _; exact hroot (by simp [Ctx.cell])

/-- the LIFO free list: items chained through `prev`, ending in null -/
def FreeRepr (h : Heap) : Nat → List Nat → Prop
  | p, [] => p = 0
  | p, i :: is => p = i + 1 ∧ FreeRepr h (h.prev p) is

theorem freeRepr_frame {h h' : Heap} : ∀ (is : List Nat) (p : Nat), FreeRepr h p is →
    (∀ j ∈ is, h'.prev (j + 1) = h.prev (j + 1)) → FreeRepr h' p is := by
  intro is
  induction is with
  | nil => intro p hf _; exact hf
  | cons i is ih =>
    intro p hf hp
    obtain ⟨e1, e2⟩ := hf
    refine ⟨e1, ?_⟩
    rw [e1, hp i (by simp), ← e1]
    exact ih _ e2 (fun j hj => hp j (by simp [hj]))

/-- the ids of a plugged context: those of the subtree and those of the context -/
theorem ids_plug_perm : ∀ (ctx : Ctx) (t : Tree), (ids (ctx.plug t)).Perm (ids t ++ ctx.ids) := by
  intro ctx
  induction ctx with
  | top => intro t; simp [Ctx.plug, Ctx.ids]
  | left i k v hh s r up ih =>
    intro t
    simp only [Ctx.plug, Ctx.ids]
    refine (ih _).trans ?_
    simp only [ids_node, List.append_assoc, List.cons_append]
    exact List.Perm.refl _
  | right i k v hh s l up ih =>
    intro t
    simp only [Ctx.plug, Ctx.ids]
    refine (ih _).trans ?_
    simp only [ids_node, List.append_assoc, List.cons_append]
    rw [List.perm_iff_count]
    intro a
    simp only [List.count_append, List.count_cons]
    omega

end Nstd.Avl
