import Nstd.Avl.LemmasRun
/-
  Hinted insert at state level (Map: always the plain insert), removal, lookups.
-/
namespace Nstd.Avl
open Tree

theorem land_found (k : Int) (idx : Nat) (t : Tree) (c : Option (Nat × Bool)) (hs : SortedS t.inorder)
    (hid : Nat) (vv : Int) (hh : t.inorder[idx]? = some (hid, k, vv)) : land k c t = .found hid := by
  induction t generalizing idx c with
  | nil => simp at hh
  | node i k' v' h s l r ihl ihr =>
    simp only [inorder_node] at hs hh
    obtain ⟨sl, sr, hl, hr⟩ := sortedS_node hs
    have hL := size_eq_length l
    simp only [land]
    by_cases h1 : idx < l.size
    · rw [List.getElem?_append_left (by omega)] at hh
      have := hl _ (List.mem_of_getElem? hh)
      simp only at this
      have n1 : ¬ k > k' := by omega
      rw [if_neg n1, if_pos this]
      exact ihl idx _ sl hh
    · rw [List.getElem?_append_right (by omega)] at hh
      by_cases h2 : idx = l.size
      · have e0 : idx - l.inorder.length = 0 := by omega
        rw [e0] at hh
        simp at hh
        have n1 : ¬ k > k' := by omega
        have n2 : ¬ k < k' := by omega
        rw [if_neg n1, if_neg n2, hh.1]
      · have e0 : idx - l.inorder.length = (idx - l.size - 1) + 1 := by omega
        rw [e0] at hh
        simp only [List.getElem?_cons_succ] at hh
        have := hr _ (List.mem_of_getElem? hh)
        simp only at this
        have p1 : k > k' := by omega
        rw [if_pos p1]
        exact ihr _ _ sr hh

theorem take_le {es : List E} (hs : SortedW es) {p : Nat} {b : Int}
    (hp : p = 0 ∨ ∃ pe, es[p - 1]? = some pe ∧ pe.2.1 ≤ b) : ∀ e ∈ es.take p, e.2.1 ≤ b := by
  rcases hp with hp | ⟨pe, h1, h2⟩
  · subst hp; simp
  · intro e he
    by_cases h0 : p = 0
    · subst h0; simp at he
    · have : p = (p - 1) + 1 := by omega
      rw [this] at he
      have := prefix_bound hs h1 e he
      omega

theorem drop_eq_nil_of_none {es : List E} {p : Nat} (h : es[p]? = none) : es.drop p = [] := by
  rw [List.getElem?_eq_none_iff] at h
  exact List.drop_eq_nil_of_le h

/-- Map: every hinted insert produces the state of the plain insert -/
theorem insertAt_map_state (s : St) (hI : InvT s) (hm : s.multi = false) (p : Nat) (k v : Int)
    (hp : p ≤ s.size) :
    ∃ r c, s.insertAt p k v = some r ∧ r.1 = (s.insertRoot k v c).1 ∧
      (r.2.ret = (s.insertRoot k v c).2.ret ∨
        (r.2.ret = .it p ∧ ∃ hi hv, s.t.inorder[p]? = some (hi, k, hv))) := by
  have hS := hI.sortedS hm
  have hW := hI.sortedW
  have hlen : s.t.inorder.length = s.size := by rw [hI.size, size_eq_length]
  have hfits : ∀ (right : Bool) (idx : Nat), idx < s.t.size →
      (∀ e ∈ s.t.inorder.take (if right then idx + 1 else idx), e.2.1 < k) →
      (∀ e ∈ s.t.inorder.drop (if right then idx + 1 else idx), k < e.2.1) →
      (if s.multi then FitsM k right idx s.t else Fits k right idx s.t) := by
    intro right idx h1 h2 h3
    rw [hm]; simp only [Bool.false_eq_true, if_false]
    exact fits_of_cut k right idx s.t h1 h2 h3
  unfold St.insertAt
  simp only [hm, Bool.false_eq_true, if_false]
  by_cases hend : p = s.size
  · rw [if_pos hend]
    cases hlast : s.t.inorder.getLast? with
    | none => exact ⟨_, 0, rfl, rfl, Or.inl rfl⟩
    | some e =>
      obtain ⟨pi, pk, pv⟩ := e
      simp only
      by_cases hk : k > pk
      · rw [if_pos hk]
        have hne : s.size ≠ 0 := by
          intro h0; rw [h0] at hlen
          have : s.t.inorder = [] := List.eq_nil_of_length_eq_zero hlen
          rw [this] at hlast; simp at hlast
        have hh : s.t.inorder[s.size - 1]? = some (pi, pk, pv) := by
          rw [List.getLast?_eq_getElem?] at hlast; rw [← hlen]; exact hlast
        have hf := hfits true (s.size - 1) (by rw [← hI.size]; omega)
          (by
            intro e he
            simp only [if_true] at he
            have := prefix_bound hW hh e he
            simp only at this; omega)
          (by
            intro e he
            simp only [if_true] at he
            rw [List.drop_eq_nil_of_le (by omega)] at he
            simp at he)
        exact ⟨_, 1, rfl, (insertUnder_eq s true (s.size - 1) pi k v pk pv 1 1 hh hf).1,
          Or.inl (insertUnder_eq s true (s.size - 1) pi k v pk pv 1 1 hh hf).2⟩
      · rw [if_neg hk]; exact ⟨_, 1, rfl, rfl, Or.inl rfl⟩
  · rw [if_neg hend]
    have hplt : p < s.t.inorder.length := by omega
    cases hhint : s.t.inorder[p]? with
    | none => rw [List.getElem?_eq_none_iff] at hhint; omega
    | some e =>
      obtain ⟨hi, hk', hv⟩ := e
      simp only
      have hidx : p < s.t.size := by rw [size_eq_length]; exact hplt
      by_cases h1 : k < hk'
      · rw [if_pos h1]
        have hdrop : ∀ e ∈ s.t.inorder.drop p, k < e.2.1 := by
          intro e he
          have := suffix_bound hW hhint e he
          simp only at this; omega
        cases hprev : (if p = 0 then none else s.t.inorder[p - 1]?) with
        | none =>
          simp only
          have ht : ∀ e ∈ s.t.inorder.take p, e.2.1 < k := by
            by_cases h0 : p = 0
            · subst h0; simp
            · rw [if_neg h0, List.getElem?_eq_none_iff] at hprev; omega
          have hf := hfits false p hidx (by simpa using ht) (by simpa using hdrop)
          exact ⟨_, 1, rfl, (insertUnder_eq s false p hi k v hk' hv 1 1 hhint hf).1, Or.inl (insertUnder_eq s false p hi k v hk' hv 1 1 hhint hf).2⟩
        | some pe =>
          obtain ⟨ppi, ppk, ppv⟩ := pe
          simp only
          by_cases h2 : k > ppk
          · rw [if_pos h2]
            have h0 : p ≠ 0 := by intro h0; rw [if_pos h0] at hprev; simp at hprev
            rw [if_neg h0] at hprev
            have ht : ∀ e ∈ s.t.inorder.take p, e.2.1 < k := by
              intro e he
              have := take_le hW (b := ppk) (Or.inr ⟨_, hprev, Int.le_refl _⟩) e he
              omega
            have hf := hfits false p hidx (by simpa using ht) (by simpa using hdrop)
            exact ⟨_, 2, rfl, (insertUnder_eq s false p hi k v hk' hv 2 2 hhint hf).1, Or.inl (insertUnder_eq s false p hi k v hk' hv 2 2 hhint hf).2⟩
          · rw [if_neg h2]; exact ⟨_, 2, rfl, rfl, Or.inl rfl⟩
      · rw [if_neg h1]
        by_cases h2 : k > hk'
        · rw [if_pos h2]
          have htake : ∀ e ∈ s.t.inorder.take (p + 1), e.2.1 < k := by
            intro e he
            have := prefix_bound hW hhint e he
            simp only at this; omega
          cases hnext : s.t.inorder[p + 1]? with
          | none =>
            simp only
            have hf := hfits true p hidx (by simpa using htake)
              (by simp only [if_true]; rw [drop_eq_nil_of_none hnext]; simp)
            exact ⟨_, 2, rfl, (insertUnder_eq s true p hi k v hk' hv 2 2 hhint hf).1, Or.inl (insertUnder_eq s true p hi k v hk' hv 2 2 hhint hf).2⟩
          | some ne =>
            obtain ⟨ni, nk, nv⟩ := ne
            simp only
            by_cases h3 : k < nk
            · rw [if_pos h3]
              have hf := hfits true p hidx (by simpa using htake)
                (by
                  intro e he
                  simp only [if_true] at he
                  have := suffix_bound hW hnext e he
                  simp only at this; omega)
              exact ⟨_, 3, rfl, (insertUnder_eq s true p hi k v hk' hv 3 3 hhint hf).1, Or.inl (insertUnder_eq s true p hi k v hk' hv 3 3 hhint hf).2⟩
            · rw [if_neg h3]; exact ⟨_, 3, rfl, rfl, Or.inl rfl⟩
        · rw [if_neg h2]
          have e : hk' = k := by omega
          subst e
          refine ⟨_, 0, rfl, ?_, Or.inr ⟨rfl, hi, hv, rfl⟩⟩
          unfold St.insertRoot St.insertIn
          simp only [hm, Bool.false_eq_true, if_false]
          rw [land_found hk' p s.t none hS hi hv hhint]
          simp only [St.insSub, hm, Bool.false_eq_true, if_false]
          rw [ins_eq_setAt 0 hk' v p s.t hS hi hv hhint]

end Nstd.Avl
