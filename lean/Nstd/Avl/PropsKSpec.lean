import Nstd.Avl.SpecK
/-
  Property C01 — the refinement stated directly against a specification typed over the key type `K`
  (SpecK.lean = Spec.lean with `Int` replaced by any `K` with a lawful strict total order `KeyOrder K`).
  Closes the OPEN item "a specification typed over `K`": `G.refines_rel` (PropsK.lean) spoke about the contents
  relabelled by an order embedding into `Int`; `G.refines_relK` speaks about the contents over `K` themselves.
-/

namespace Nstd.Avl.G
open SpecK
variable {K : Type} [KeyOrder K]

/-- **Refinement stated directly over the key type `K`**: after any history over any strictly totally ordered key
    type, every op takes a step of the sorted-(multi)map specification `SpecK.Step` typed over `K` — acceptance,
    contents after the op (`absK` = in-order `(key, value)` pairs over `K`, no relabelling) and returned value. -/
theorem refines_relK (multi : Bool) (ops : List (Op K)) (op : Op K) :
    SpecK.Step multi (absK (run multi ops)) op
      ((step (run multi ops) op).map (fun r => (absK r.1, r.2.ret))) := by
  obtain ⟨hL, h1, h2⟩ := transfer multi ops (keysOf [op])
  have S := refines_rel multi ops op
  generalize hLd : keysOf [op] ++ keysOf ops = L at hL h1 h2 S
  generalize hfd : rank L = f at hL h1 h2 S
  generalize hsd : run multi ops = s at h1 h2 S ⊢
  have hopk : ∀ k, opKey op = some k → k ∈ L := by
    intro k hk
    rw [← hLd]
    apply List.mem_append_left
    unfold keysOf; rw [List.mem_filterMap]; exact ⟨op, by simp, hk⟩
  have hxs : ∀ e ∈ absK s, e.1 ∈ L := by
    intro e he
    simp only [absK, List.mem_map] at he
    obtain ⟨x, hx, rfl⟩ := he
    exact all_inorder h2 x hx
  have hp : ∀ k, opKey op = some k → ∀ e ∈ absK s, Pres f k e.1 :=
    fun k hk e he => hL k (hopk k hk) e.1 (hxs e he)
  have hout : ∀ r, step s op = some r → ∀ e ∈ absK r.1, e.1 ∈ L := by
    intro r hr e he
    have h2' : All (fun k => k ∈ L) r.1.t := step_all s op r hr hopk h2
    simp only [absK, List.mem_map] at he
    obtain ⟨x, hx, rfl⟩ := he
    exact all_inorder h2' x hx
  rw [absF_ml] at S
  have eo : (step s op).map (fun r => (absF f r.1, r.2.ret)) =
      ((step s op).map (fun r => (absK r.1, r.2.ret))).map (mr f) := by
    cases step s op with
    | none => rfl
    | some r => simp [mr, absF_ml]
  rw [eo] at S
  rcases spec_step_inv S with ⟨e1, hdet⟩ | ⟨p, k', v, hm, e1, hlen, e2⟩ | ⟨p, k', v, q, hm, e1, hlen, hq, e2⟩
  · -- deterministic op
    rw [stepF_map multi (absK s) op hp] at e1
    have hdetK : ∀ p k v, ¬ (multi = true ∧ op = .insertAt p k v) := by
      intro p k v ⟨a, b⟩
      exact hdet p (f k) v ⟨a, by rw [b]; rfl⟩
    have : (step s op).map (fun r => (absK r.1, r.2.ret)) = stepF multi (absK s) op := by
      cases hs : step s op with
      | none =>
        rw [hs] at e1
        cases hF : stepF multi (absK s) op with
        | none => rfl
        | some b => rw [hF] at e1; simp at e1
      | some r =>
        rw [hs] at e1
        cases hF : stepF multi (absK s) op with
        | none => rw [hF] at e1; simp at e1
        | some b =>
          rw [hF] at e1
          simp only [Option.map_some, Option.some.injEq, mr, Prod.mk.injEq] at e1
          have := ml_inj hL _ _ (hout r hs) (stepF_keys multi (absK s) op b hxs hopk hF) e1.1
          simp only [Option.map_some, Option.some.injEq]
          exact Prod.ext this e1.2
    rw [this]
    exact Step.det op hdetK
  · -- rejected hinted MultiMap insert
    obtain ⟨k, e3, _⟩ := toOp_insertAt e1
    subst e3
    rw [ml_length] at hlen
    have : (step s (.insertAt p k v)).map (fun r => (absK r.1, r.2.ret)) = none := by
      cases hs : step s (.insertAt p k v) with
      | none => rfl
      | some r => rw [hs] at e2; simp at e2
    rw [this]
    exact Step.hintReject p k v hm hlen
  · -- accepted hinted MultiMap insert
    obtain ⟨k, e3, e4⟩ := toOp_insertAt e1
    subst e3; subst e4
    rw [ml_length] at hlen
    have hqK := (hintPos_map k (absK s) p q (hp k rfl)).mp hq
    have : (step s (.insertAt p k v)).map (fun r => (absK r.1, r.2.ret)) =
        some ((absK s).take q ++ (k, v) :: (absK s).drop q, .it q) := by
      cases hs : step s (.insertAt p k v) with
      | none => rw [hs] at e2; simp at e2
      | some r =>
        rw [hs] at e2
        simp only [Option.map_some, Option.some.injEq, mr, Prod.mk.injEq] at e2
        have e5 : ml f (absK r.1) = ml f ((absK s).take q ++ (k, v) :: (absK s).drop q) := by
          rw [e2.1]; simp [ml, m, List.map_take, List.map_drop]
        have hk : ∀ e ∈ (absK s).take q ++ (k, v) :: (absK s).drop q, e.1 ∈ L := by
          intro e he
          rcases List.mem_append.mp he with he | he
          · exact hxs e (List.mem_of_mem_take he)
          · rcases List.mem_cons.mp he with he | he
            · rw [he]; exact hopk k rfl
            · exact hxs e (List.mem_of_mem_drop he)
        have := ml_inj hL _ _ (hout r hs) hk e5
        simp only [Option.map_some, Option.some.injEq]
        exact Prod.ext this e2.2
    rw [this]
    exact Step.hint p k v q hm hlen hqK


/-- whole histories over `K`: the contents after a history are contents the `K`-typed specification reaches -/
inductive SpecK.RunsFrom (multi : Bool) : List (SpecK.KV K) → List (Op K) → List (SpecK.KV K) → Prop
  | nil (xs : List (SpecK.KV K)) : SpecK.RunsFrom multi xs [] xs
  | cons {xs ys : List (SpecK.KV K)} {ops : List (Op K)} (op : Op K) (res : Option (List (SpecK.KV K) × Ret)) :
      SpecK.Step multi xs op res →
      SpecK.RunsFrom multi (match res with | some r => r.1 | none => xs) ops ys →
      SpecK.RunsFrom multi xs (op :: ops) ys

theorem run_snoc (multi : Bool) (ops : List (Op K)) (op : Op K) : run multi (ops ++ [op]) = step' (run multi ops) op := by
  simp [run, List.foldl_append]

/-- **Refinement of whole histories over `K`**: from the state after any history `pre`, running `ops` on the model
    leads to contents the `K`-typed specification reaches by the same ops. -/
theorem refines_run_relK (multi : Bool) (pre ops : List (Op K)) :
    SpecK.RunsFrom multi (absK (run multi pre)) ops (absK (run multi (pre ++ ops))) := by
  induction ops generalizing pre with
  | nil => rw [List.append_nil]; exact SpecK.RunsFrom.nil _
  | cons op ops ih =>
    have hstep := refines_relK multi pre op
    have e : absK (run multi (pre ++ [op])) =
        (match (step (run multi pre) op).map (fun r => (absK r.1, r.2.ret)) with | some r => r.1 | none => absK (run multi pre)) := by
      rw [run_snoc]; unfold step'
      cases step (run multi pre) op <;> rfl
    have := ih (pre ++ [op])
    rw [e, List.append_assoc] at this
    exact SpecK.RunsFrom.cons op _ hstep this

/-! ### non-vacuity: pairs under the lexicographic order (instance in PropsK.lean) -/

example : SpecK.stepF false [(((1, 2) : Nat × Nat), 30), ((1, 5), 20)] (.insert (1, 3) 7) =
    some ([((1, 2), 30), ((1, 3), 7), ((1, 5), 20)], .it 1) := by decide
example : absK (run false [Op.insert ((2, 1) : Nat × Nat) 10, .insert (1, 5) 20, .insert (1, 2) 30, .removeKey (2, 1)]) =
    [((1, 2), 30), ((1, 5), 20)] := by decide +kernel
example : SpecK.HintPos [(((5, 0) : Nat × Nat), 1), ((5, 0), 2), ((5, 0), 3)] 1 (5, 0) 3 := by
  simp [SpecK.HintPos, SpecK.upper]; decide

end Nstd.Avl.G
