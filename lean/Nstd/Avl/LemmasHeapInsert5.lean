import Nstd.Avl.LemmasHeapInsert4
import Nstd.Avl.PropsRot
/-
  `leafTail` (the linking part of the private insert behind the allocation) on a heap that holds a context with an
  empty hole, the prev/next list of the tree's items and the rest of the free list.
-/
namespace Nstd.Avl
open Tree
open Nstd.Avl.Heap
open Nstd.Generated.AvlRot

theorem ctx_bottom (ctx : Ctx) (hn : ctx ≠ .top) : ∃ pid right, ctx.par = pid + 1 ∧ ctx.mcell = some (pid, right) ∧
    ctx.cell = cellOf (some (pid, right)) ∧ pid ∈ ctx.ids := by
  cases ctx with
  | top => exact absurd rfl hn
  | left i k v hh s r up => exact ⟨i, false, rfl, rfl, rfl, by simp [Ctx.ids]⟩
  | right i k v hh s l up => exact ⟨i, true, rfl, rfl, rfl, by simp [Ctx.ids]⟩

theorem thread_q_mem (h : Heap) (order : List Nat) (pid : Nat) (right : Bool)
    (hd : DList h h.beginItem 0 order) (hpid : pid ∈ order) :
    (if cellOf (some (pid, right)) = Cell.right (pid + 1) then h.next (pid + 1) else pid + 1) = h.endItem ∨
    ∃ j ∈ order, (if cellOf (some (pid, right)) = Cell.right (pid + 1) then h.next (pid + 1) else pid + 1) = j + 1 := by
  obtain ⟨pre, post, e⟩ := List.append_of_mem hpid
  subst e
  obtain ⟨pvp, dp⟩ := dlist_at (pid :: post) pre _ _ hd
  have hnext : h.next (pid + 1) = headPtr h post := (dlist_head dp.2.2).1
  cases right
  · right; exact ⟨pid, hpid, by simp [cellOf]⟩
  · simp only [cellOf, if_true, hnext]
    cases post with
    | nil => left; rfl
    | cons j js => right; exact ⟨j, by simp, rfl⟩

theorem insertThread_misc (h : Heap) (c : Cell) (par X : Nat) :
    (Map.insertThread h c par X).size = h.size ∧ (Map.insertThread h c par X).freeItem = h.freeItem ∧
    (Map.insertThread h c par X).nblocks = h.nblocks := by
  unfold Map.insertThread
  simp only []
  refine ⟨?_, ?_, ?_⟩ <;> (split <;> split <;> rfl)

theorem leafTail_spec (ctx : Ctx) (h : Heap) (x : Nat) (k v : Int) (c fuel : Nat) (rest : List Nat)
    (hc : ReprCtx h ctx) (he : h.get ctx.cell = 0)
    (hd : DList h h.beginItem 0 (ids (ctx.plug .nil)))
    (hnd : (x :: ids (ctx.plug .nil)).Nodup)
    (hend : ∀ j, j = x ∨ j ∈ ids (ctx.plug .nil) ∨ j ∈ rest → j + 1 ≠ h.endItem)
    (hfr : FreeRepr h (h.prev (x + 1)) rest) (hrest : ∀ j ∈ rest, j ≠ x ∧ j ∉ ids (ctx.plug .nil))
    (hA : Avl (ctx.plug .nil)) (hf : ctx.depth ≤ fuel) :
    ∃ h', leafTail fuel h c ctx.cell ctx.par (x + 1) k v = some (h', x + 1, c) ∧
      Repr h' h'.root 0 (ctx.climb (node x k v 1 0 nil nil, true)).1 ∧
      DList h' h'.beginItem 0 (threadIn (ids (ctx.plug .nil)) x ctx.mcell) ∧
      h'.size = h.size + 1 ∧ FreeRepr h' h'.freeItem rest ∧ h'.nblocks = h.nblocks ∧ h'.endItem = h.endItem ∧
      h'.key (x + 1) = k ∧ (∀ q, q ≠ x + 1 → h'.key q = h.key q) := by
  have hperm := ids_plug_perm ctx .nil
  have hmem : ∀ j, j ∈ ctx.ids ↔ j ∈ ids (ctx.plug .nil) := by
    intro j; rw [hperm.mem_iff]; simp [ids, Tree.inorder]
  obtain ⟨hx, hndo⟩ := List.nodup_cons.mp hnd
  have hndc : ctx.ids.Nodup := by
    have := hperm.nodup_iff.mp hndo
    simpa [ids, Tree.inorder] using this
  have hxc : x ∉ ctx.ids := fun m => hx ((hmem x).mp m)
  have hne : ∀ j ∈ ctx.ids, j + 1 ≠ x + 1 := by
    intro j hj e; have : j = x := by omega
    exact hxc (this ▸ hj)
  have hcl : ctx.cell ≠ .left (x + 1) ∧ ctx.cell ≠ .right (x + 1) := by
    cases ctx with
    | top => simp [Ctx.cell]
    | left i _ _ _ _ _ _ =>
      have := hne i (by simp [Ctx.ids])
      simp only [Ctx.cell, ne_eq, Cell.left.injEq, reduceCtorEq, not_false_eq_true, and_true]; omega
    | right i _ _ _ _ _ _ =>
      have := hne i (by simp [Ctx.ids])
      simp only [Ctx.cell, ne_eq, Cell.right.injEq, reduceCtorEq, not_false_eq_true, true_and]; omega
  -- the heap after construction, `*cell = item`, `++_size`
  obtain ⟨h2, eh2⟩ : ∃ y, y = linkNew h ctx.cell ctx.par (x + 1) k v := ⟨_, rfl⟩
  obtain ⟨L1, L2, L3, L4, L5, L6, L7⟩ := linkNew_list h ctx.cell ctx.par (x + 1) k v
  obtain ⟨S1, S2, S3, S4, S5, S6, S7⟩ := linkNew_self h ctx.cell ctx.par (x + 1) k v hcl.1 hcl.2
  obtain ⟨G1, G2⟩ := linkNew_root h ctx.cell ctx.par (x + 1) k v
  have O := linkNew_other h ctx.cell ctx.par (x + 1) k v
  rw [← eh2] at L1 L2 L3 L4 L5 L6 L7 S1 S2 S3 S4 S5 S6 S7 G1 G2 O
  have hs2 : Repr h2 (h2.get ctx.cell) ctx.par (node x k v 1 0 nil nil) := by
    rw [G1, repr_node_iff]
    exact ⟨rfl, S1, S2, S3, S4, S5, by rw [S6]; rfl, by rw [S7]; rfl⟩
  have hc2 : ReprCtx h2 ctx := by
    refine reprCtx_agree ctx hc ?_ ?_ ?_ G2 hndc
    · intro j hj
      obtain ⟨o1, o2, o3, o4, o5, _, _⟩ := O (j + 1) (hne j hj)
      exact ⟨o1, o2, o3, o4, o5⟩
    · intro j hj hn; exact (O (j + 1) (hne j hj)).2.2.2.2.2.1 hn
    · intro j hj hn; exact (O (j + 1) (hne j hj)).2.2.2.2.2.2 hn
  have hd2 : DList h2 h2.beginItem 0 (ids (ctx.plug .nil)) := by
    rw [L3]
    exact dlist_frame _ _ _ hd L4 (fun j _ => ⟨by rw [L1], by rw [L2]⟩) (by rw [L2])
  have hkey2 : ∀ q, q ≠ x + 1 → h2.key q = h.key q := fun q hq => (O q hq).1
  unfold leafTail
  rw [← eh2]
  by_cases hn : ctx = .top
  · subst hn
    have hid : ids (Ctx.top.plug Tree.nil) = [] := rfl
    rw [hid] at hd hd2 ⊢
    rw [if_neg (by simp [Ctx.par])]
    simp only [Ctx.climb, Ctx.mcell, threadIn]
    simp only [Ctx.cell, Ctx.par] at hs2
    obtain ⟨d1, d2⟩ := hd
    have hxe : x + 1 ≠ h.endItem := hend x (Or.inl rfl)
    refine ⟨_, rfl, ?_, ?_, ?_, ?_, ?_, ?_, ?_, ?_⟩
    · exact repr_agree hs2 (fun j _ => ⟨rfl, rfl, rfl, rfl, rfl, rfl, rfl⟩)
    · refine ⟨rfl, ?_, ?_, ?_⟩
      · simp only [linkFirst, Heap.setPrev, Heap.setNext, Heap.setBegin, upd1_apply, L4, hxe, if_false, if_true]
      · simp only [linkFirst, Heap.setPrev, Heap.setNext, Heap.setBegin, upd1_apply, if_true, L3, d1, L4]
      · simp only [linkFirst, Heap.setPrev, Heap.setNext, Heap.setBegin, upd1_apply, if_true]
    · exact L5
    · show FreeRepr (linkFirst h2 (x + 1)) h2.freeItem rest
      rw [L6]
      refine freeRepr_frame rest _ hfr ?_
      intro j hj
      have a1 : j + 1 ≠ x + 1 := by have := (hrest j hj).1; omega
      have a2 : j + 1 ≠ h.endItem := hend j (Or.inr (Or.inr hj))
      simp only [linkFirst, Heap.setPrev, Heap.setNext, Heap.setBegin, upd1_apply, L4, a1, a2, if_false, L2]
    · exact L7
    · exact L4
    · exact S1
    · exact hkey2
  · obtain ⟨pid, right, e1, e2, e3, e4⟩ := ctx_bottom ctx hn
    have hp0 : ctx.par ≠ 0 := by rw [e1]; omega
    rw [if_pos hp0]
    have hpo : pid ∈ ids (ctx.plug .nil) := (hmem pid).mp e4
    have he2 : ∀ j ∈ ids (ctx.plug .nil), j + 1 ≠ h2.endItem := by
      intro j hj; rw [L4]; exact hend j (Or.inr (Or.inl hj))
    have hxe2 : x + 1 ≠ h2.endItem := by rw [L4]; exact hend x (Or.inl rfl)
    have T := gen_insert_thread_eq_model false h2 (ids (ctx.plug .nil)) pid x right hd2 hpo hndo hx he2 hxe2
    simp only [Bool.false_eq_true, if_false] at T
    rw [← e3, ← e1, ← e2] at T
    obtain ⟨h3, eh3⟩ : ∃ y, y = Map.insertThread h2 ctx.cell ctx.par (x + 1) := ⟨_, rfl⟩
    rw [← eh3] at T ⊢
    obtain ⟨T0, T1, T2, T3, T4, T5, T6, T7, T8⟩ := T
    obtain ⟨M1, M2, M3⟩ := insertThread_misc h2 ctx.cell ctx.par (x + 1)
    rw [← eh3] at M1 M2 M3
    -- prev links of the free items
    have hq := thread_q_mem h2 (ids (ctx.plug .nil)) pid right hd2 hpo
    rw [← e3, ← e1] at hq
    have hXq : x + 1 ≠ (if ctx.cell = Cell.right ctx.par then h2.next ctx.par else ctx.par) := by
      rcases hq with e | ⟨j, hj, e⟩
      · rw [e]; exact hxe2
      · rw [e]; intro e'; have : x = j := by omega
        exact hx (this ▸ hj)
    obtain ⟨SP, _⟩ := insertThread_spliced h2 ctx.cell ctx.par (x + 1) hXq
    rw [← eh3] at SP
    have hprev3 : ∀ j ∈ rest, h3.prev (j + 1) = h.prev (j + 1) := by
      intro j hj
      obtain ⟨r1, r2⟩ := hrest j hj
      have a1 : j + 1 ≠ x + 1 := by omega
      have a2 : j + 1 ≠ (if ctx.cell = Cell.right ctx.par then h2.next ctx.par else ctx.par) := by
        rcases hq with e | ⟨j', hj', e⟩
        · rw [e, L4]; exact hend j (Or.inr (Or.inr hj))
        · rw [e]; intro e'; have : j = j' := by omega
          exact r2 (this ▸ hj')
      rw [SP.prev, if_neg a2, if_neg a1, L2]
    -- the tree is untouched by the threading
    have hag : ∀ q, AgreeAt h2 h3 q := fun q => ⟨by rw [T1], by rw [T2], by rw [T3], by rw [T6], by rw [T7], by rw [T4], by rw [T5]⟩
    have hget3 : h3.get ctx.cell = h2.get ctx.cell := by
      cases hcc : ctx.cell <;> simp only [Heap.get, T4, T5, T8]
    have hs3 : Repr h3 (h3.get ctx.cell) ctx.par (node x k v 1 0 nil nil) := by
      rw [hget3]; exact repr_agree hs2 (fun j _ => hag _)
    have hc3 : ReprCtx h3 ctx := by
      refine reprCtx_agree ctx hc2 ?_ ?_ ?_ (fun _ => T8) hndc
      · intro j _; exact ⟨by rw [T1], by rw [T2], by rw [T3], by rw [T6], by rw [T7]⟩
      · intro j _ _; rw [T4]
      · intro j _ _; rw [T5]
    have hok : ClimbOk ctx (node x k v 1 0 nil nil, true) :=
      climbOk_of_avl ctx nil _ hA (by rw [avl_node]; simp [Tree.height]) (by simp [Tree.height]) (by simp)
    have hnd3 : (ids (node x k v 1 0 nil nil) ++ ctx.ids).Nodup := by
      simp only [ids_node]
      have : ids Tree.nil = [] := rfl
      rw [this]
      simpa using ⟨hxc, hndc⟩
    obtain ⟨h', r1, r2, r3, r4⟩ := insertRebalance_loop_eq ctx h3 _ fuel 0 hn hc3 hs3 hnd3 hok hf
    have LS := listSame_insertLoop _ _ _ _ _ r1
    have r1' : Map.insertRebalance fuel h3 ctx.par = some h' := r1
    rw [r1']
    refine ⟨h', rfl, r2, ?_, ?_, ?_, ?_, ?_, ?_, ?_⟩
    · rw [LS.beginItem]
      exact dlist_frame _ _ _ T0 LS.endItem (fun j _ => ⟨by rw [LS.next], by rw [LS.prev]⟩) (by rw [LS.prev])
    · rw [LS.size, M1, L5]
    · rw [LS.freeItem, M2, L6]
      refine freeRepr_frame rest _ hfr ?_
      intro j hj; rw [LS.prev]; exact hprev3 j hj
    · rw [LS.nblocks, M3, L7]
    · rw [LS.endItem, SP.endI, L4]
    · rw [r3, T1]; exact S1
    · intro q hq; rw [r3, T1]; exact hkey2 q hq

end Nstd.Avl
