import Nstd.Avl.LemmasTransfer3
/-
  Part 4: whole runs, and an order embedding of any finite list of keys into `Int`.
-/
namespace Nstd.Avl.G
variable {K : Type} [KeyOrder K]

theorem all_imp {P Q : K → Prop} (h : ∀ x, P x → Q x) (t : Tree K) (ht : All P t) : All Q t := by
  induction t with
  | nil => trivial
  | node i k v hh s l r ihl ihr =>
    simp only [All] at ht ⊢
    exact ⟨h k ht.1, ihl ht.2.1, ihr ht.2.2⟩

theorem insertIn_t (s : St K) (k : K) (cell : Option (Nat × Bool)) (sub : Tree K) (mk : Nat → Tree K) (c0 : Nat) :
    ∃ id, (s.insertIn k cell sub mk c0).1.t = mk id := by
  unfold St.insertIn
  cases (if s.multi then Tree.landM k cell sub else Tree.land k cell sub) with
  | found i => exact ⟨0, rfl⟩
  | leaf p => exact ⟨s.alloc.1, rfl⟩

theorem all_insSub {P : K → Prop} (s : St K) (id : Nat) (k : K) (v : Int) (t : Tree K) (hk : P k) (h : All P t) :
    All P (s.insSub id k v t).1 := by
  unfold St.insSub
  split
  · exact all_insM id k v t hk h
  · exact all_ins id k v t hk h

theorem insertRoot_all {P : K → Prop} (s : St K) (k : K) (v : Int) (c0 : Nat) (hk : P k) (h : All P s.t) :
    All P (s.insertRoot k v c0).1.t := by
  unfold St.insertRoot
  obtain ⟨id, e⟩ := insertIn_t s k none s.t (fun id => (s.insSub id k v s.t).1) c0
  rw [e]; exact all_insSub s id k v s.t hk h

theorem insertUnder_all {P : K → Prop} (s : St K) (right : Bool) (idx hid : Nat) (k : K) (v : Int) (c0 : Nat)
    (hk : P k) (h : All P s.t) : All P (s.insertUnder right idx hid k v c0).1.t := by
  unfold St.insertUnder
  obtain ⟨id, e⟩ := insertIn_t s k (some (hid, right)) (Tree.subAt right idx s.t)
    (fun id => (Tree.insAt (s.insSub id k v) right idx s.t).1) c0
  rw [e]
  exact all_insAt _ (fun t ht => all_insSub s id k v t hk ht) right idx s.t h

theorem insertAt_all {P : K → Prop} (s : St K) (p : Nat) (k : K) (v : Int) (r : St K × Out)
    (hr : s.insertAt p k v = some r) (hk : P k) (h : All P s.t) : All P r.1.t := by
  have hu := fun right idx hid c0 => insertUnder_all s right idx hid k v c0 hk h
  have hro := fun c0 => insertRoot_all s k v c0 hk h
  unfold St.insertAt at hr
  simp only at hr
  repeat' split at hr
  all_goals first
    | (simp at hr; done)
    | (simp only [Option.some.injEq] at hr; subst hr
       first
         | exact hu _ _ _ _
         | exact hro _
         | exact all_setAt v p s.t h)

theorem removeAt_all {P : K → Prop} (s : St K) (p c0 : Nat) (r : St K × Out) (hr : s.removeAt p c0 = some r)
    (h : All P s.t) : All P r.1.t := by
  unfold St.removeAt at hr
  split at hr
  · simp at hr
  · simp only [Option.some.injEq] at hr; subst hr; exact all_delIdx p s.t h

/-- the keys in the tree after a step are keys that were there or the key of the op -/
theorem step_all {P : K → Prop} (s : St K) (op : Op K) (r : St K × Out) (hr : step s op = some r)
    (hk : ∀ k, opKey op = some k → P k) (h : All P s.t) : All P r.1.t := by
  cases op with
  | insert k v => simp only [step, Option.some.injEq] at hr; subst hr; exact insertRoot_all s k v 0 (hk k rfl) h
  | insertAt p k v =>
    simp only [step] at hr
    split at hr
    · exact insertAt_all s p k v r hr (hk k rfl) h
    · simp at hr
  | removeKey k =>
    simp only [step] at hr
    split at hr
    · cases h2 : s.removeAt _ (s.findCmps k) with
      | none => rw [h2] at hr; simp at hr
      | some r' =>
        rw [h2] at hr; simp only [Option.map_some, Option.some.injEq] at hr; subst hr
        exact removeAt_all s _ _ r' h2 h
    · simp only [Option.some.injEq] at hr; subst hr; exact h
  | removeAt p => simp only [step] at hr; exact removeAt_all s _ _ r hr h
  | removeFront => simp only [step] at hr; exact removeAt_all s _ _ r hr h
  | removeBack =>
    simp only [step] at hr
    split at hr
    · simp at hr
    · exact removeAt_all s _ _ r hr h
  | clear => simp only [step, Option.some.injEq] at hr; subst hr; trivial
  | find k => simp only [step, Option.some.injEq] at hr; subst hr; exact h
  | contains k => simp only [step, Option.some.injEq] at hr; subst hr; exact h
  | count k =>
    simp only [step] at hr
    split at hr
    · split at hr <;> (simp only [Option.some.injEq] at hr; subst hr; exact h)
    · simp at hr
  | front =>
    simp only [step] at hr
    split at hr
    · simp only [Option.some.injEq] at hr; subst hr; exact h
    · simp at hr
  | back =>
    simp only [step] at hr
    split at hr
    · simp only [Option.some.injEq] at hr; subst hr; exact h
    · simp at hr

/-- `f` preserves the comparisons between all members of `L` -/
def PresL (f : K → Int) (L : List K) : Prop := ∀ a ∈ L, ∀ b ∈ L, Pres f a b

/-- all keys the ops carry are in `L` -/
def KeysIn (L : List K) (ops : List (Op K)) : Prop := ∀ op ∈ ops, ∀ k, opKey op = some k → k ∈ L

theorem foldl_toSt (f : K → Int) (L : List K) (hL : PresL f L) (ops : List (Op K)) (hops : KeysIn L ops)
    (s : St K) (hs : All (fun k => k ∈ L) s.t) :
    toSt f (ops.foldl step' s) = (ops.map (toOp f)).foldl Avl.step' (toSt f s) ∧
      All (fun k => k ∈ L) (ops.foldl step' s).t := by
  induction ops generalizing s with
  | nil => exact ⟨rfl, hs⟩
  | cons op ops ih =>
    simp only [List.foldl_cons, List.map_cons]
    have hop : ∀ k, opKey op = some k → k ∈ L := hops op (by simp)
    have hk : ∀ k, opKey op = some k → All (Pres f k) s.t :=
      fun k hk => all_imp (fun x hx => hL k (hop k hk) x hx) s.t hs
    have hst := step_toSt (f := f) s op hk
    have e : Avl.step' (toSt f s) (toOp f op) = toSt f (step' s op) := by
      unfold step' Avl.step'
      rw [hst]
      cases step s op <;> rfl
    have hs' : All (fun k => k ∈ L) (step' s op).t := by
      unfold step'
      cases h : step s op with
      | none => exact hs
      | some r => exact step_all s op r h hop hs
    rw [e]
    exact ih (fun o ho => hops o (by simp [ho])) _ hs'

/-! ### every finite list of keys embeds into `Int` -/

/-- number of members of `L` below `k` -/
def rank (L : List K) (k : K) : Int := ((L.countP (fun x => decide (x < k)) : Nat) : Int)

theorem countP_lt {α : Type} (p q : α → Bool) (L : List α) (h : ∀ x ∈ L, p x = true → q x = true)
    (hw : ∃ a ∈ L, q a = true ∧ p a = false) : L.countP p < L.countP q := by
  induction L with
  | nil => obtain ⟨a, ha, _⟩ := hw; simp at ha
  | cons x xs ih =>
    have hmono : xs.countP p ≤ xs.countP q := by
      apply List.countP_mono_left
      intro y hy hp; exact h y (by simp [hy]) hp
    obtain ⟨a, ha, hqa, hpa⟩ := hw
    simp only [List.countP_cons]
    rcases List.mem_cons.mp ha with rfl | ha
    · simp [hqa, hpa]; omega
    · have := ih (fun y hy => h y (by simp [hy])) ⟨a, ha, hqa, hpa⟩
      have hx := h x (by simp)
      cases hpx : p x with
      | false => simp; omega
      | true => simp [hx hpx]; omega

theorem rank_lt (L : List K) (a b : K) (ha : a ∈ L) (h : a < b) : rank L a < rank L b := by
  unfold rank
  have := countP_lt (fun x => decide (x < a)) (fun x => decide (x < b)) L
    (by intro x _ hx; simp only [decide_eq_true_eq] at hx ⊢; exact KeyOrder.lt_trans x a b hx h)
    ⟨a, ha, by simp [h], by simp [KeyOrder.lt_irrefl a]⟩
  omega

theorem rank_pres (L : List K) : PresL (rank L) L := by
  intro a ha b hb
  have hab : a < b → rank L a < rank L b := rank_lt L a b ha
  have hba : b < a → rank L b < rank L a := rank_lt L b a hb
  have tri := KeyOrder.lt_trichotomy a b
  have hnab : a < b → ¬ b < a := fun h1 h2 => KeyOrder.lt_irrefl a (KeyOrder.lt_trans a b a h1 h2)
  refine ⟨⟨hab, ?_⟩, ⟨hba, ?_⟩, ?_, ?_, ?_⟩
  · intro h
    rcases tri with t | t | t
    · exact t
    · subst t; omega
    · have := hba t; omega
  · intro h
    rcases tri with t | t | t
    · have := hab t; omega
    · subst t; omega
    · exact t
  · rw [KeyOrder.le_iff]
    constructor
    · intro h
      rcases tri with t | t | t
      · have := hab t; omega
      · subst t; omega
      · exact absurd t h
    · intro h t; have := hba t; omega
  · rw [KeyOrder.le_iff]
    constructor
    · intro h
      rcases tri with t | t | t
      · exact absurd t h
      · subst t; omega
      · have := hba t; omega
    · intro h t; have := hab t; omega
  · constructor
    · intro h; rw [h]
    · intro h
      rcases tri with t | t | t
      · have := hab t; omega
      · exact t
      · have := hba t; omega

end Nstd.Avl.G
