import Nstd.Avl.LemmasHeapDescend
/-
  The threading of a new item into the prev/next list (translated into Generated/AvlRot.lean as `insertThread`: the
  statements between the first-item block and the upward loop of the private insert) against the model's `threadIn`.
  `DList h p pv is`: the heap threads the items `is` from pointer `p` (whose `prev` is `pv`) to the sentinel, every
  `next` and every `prev` link.
-/
namespace Nstd.Avl
open Tree
open Nstd.Avl.Heap
open Nstd.Generated.AvlRot

/-- the items `is` (ids) are threaded by `next` / `prev` from pointer `p`, whose `prev` is `pv`, to the sentinel -/
def DList (h : Heap) : Nat → Nat → List Nat → Prop
  | p, pv, [] => p = h.endItem ∧ h.prev h.endItem = pv
  | p, pv, i :: is => p = i + 1 ∧ h.prev p = pv ∧ DList h (h.next p) p is

/-- pointer of the head of a list segment (the sentinel for the empty one) -/
def headPtr (h : Heap) : List Nat → Nat
  | [] => h.endItem
  | j :: _ => j + 1

theorem dlist_head {h : Heap} {p pv : Nat} {is : List Nat} (hd : DList h p pv is) : p = headPtr h is ∧ h.prev p = pv := by
  cases is with
  | nil => exact ⟨hd.1, hd.1 ▸ hd.2⟩
  | cons i is => exact ⟨hd.1, hd.2.1⟩

/-- a heap that agrees with `h` on the links of the items of `is` and of the sentinel holds the same segment -/
theorem dlist_frame {h h' : Heap} : ∀ (is : List Nat) (p pv : Nat), DList h p pv is → h'.endItem = h.endItem →
    (∀ j ∈ is, h'.next (j + 1) = h.next (j + 1) ∧ h'.prev (j + 1) = h.prev (j + 1)) →
    h'.prev h.endItem = h.prev h.endItem → DList h' p pv is := by
  intro is
  induction is with
  | nil => intro p pv hd he _ hpe; exact ⟨by rw [he]; exact hd.1, by rw [he, hpe]; exact hd.2⟩
  | cons i is ih =>
    intro p pv hd he hj hpe
    obtain ⟨e1, e2, e3⟩ := hd
    subst e1
    have := hj i (by simp)
    refine ⟨rfl, by rw [this.2]; exact e2, ?_⟩
    rw [this.1]
    exact ih _ _ e3 he (fun j hj' => hj j (by simp [hj'])) hpe

theorem dlist_prevq {h : Heap} (post : List Nat) : ∀ (pre : List Nat) (p pv : Nat), DList h p pv (pre ++ post) →
    h.prev (headPtr h post) = (match pre.getLast? with | none => pv | some l => l + 1) := by
  intro pre
  induction pre with
  | nil => intro p pv hd; have := dlist_head hd; simp only [List.nil_append] at this; rw [← this.1]; exact this.2
  | cons a pre' ih =>
    intro p pv hd
    obtain ⟨e1, _, e3⟩ := hd
    have := ih _ _ e3
    rw [this]
    cases pre' with
    | nil => simp [e1]
    | cons b bs =>
      have hl : (b :: bs).getLast? = some ((b :: bs).getLast (by simp)) := List.getLast?_eq_some_getLast (by simp)
      rw [List.getLast?_cons_cons, hl]

/-- `h'` is `h` with the new item at pointer `X` linked in front of pointer `q` (an item of the list or the sentinel) -/
structure Spliced (h h' : Heap) (X q : Nat) : Prop where
  endI : h'.endItem = h.endItem
  next : ∀ a, h'.next a = if a = X then q else if (h.prev q ≠ 0 ∧ a = h.prev q) then X else h.next a
  prev : ∀ a, h'.prev a = if a = q then X else if a = X then h.prev q else h.prev a

theorem dlist_splice {h h' : Heap} {x : Nat} (post : List Nat) (hs : Spliced h h' (x + 1) (headPtr h post))
    (hxe : x + 1 ≠ h.endItem) :
    ∀ (pre : List Nat) (p pv : Nat), DList h p pv (pre ++ post) → (pre ++ post).Nodup → x ∉ pre ++ post →
      (∀ j ∈ pre ++ post, j + 1 ≠ h.endItem) → (∀ j ∈ pre ++ post, j + 1 ≠ pv) →
      DList h' (if pre = [] then x + 1 else p) pv (pre ++ x :: post) := by
  intro pre
  induction pre with
  | nil =>
    intro p pv hd hnd hx he hpv
    simp only [List.nil_append, if_true] at *
    obtain ⟨e1, e2⟩ := dlist_head hd
    subst e1
    have hXq : x + 1 ≠ headPtr h post := by
      cases post with
      | nil => exact hxe
      | cons j js => simp only [headPtr]; intro e; exact hx (by simp; omega)
    refine ⟨rfl, ?_, ?_⟩
    · rw [hs.prev]; simp only [hXq, if_false, if_true]; exact e2
    · rw [hs.next]; simp only [if_true]
      cases post with
      | nil =>
        simp only [headPtr] at *
        exact ⟨hs.endI.symm, by rw [hs.endI, hs.prev]; simp⟩
      | cons j js =>
        simp only [headPtr] at *
        obtain ⟨_, d2, d3⟩ := hd
        have hjpv : j + 1 ≠ pv := hpv j (by simp)
        have hjx : j + 1 ≠ x + 1 := fun e => hXq e.symm
        refine ⟨rfl, by rw [hs.prev]; simp, ?_⟩
        have hn : h'.next (j + 1) = h.next (j + 1) := by
          rw [hs.next]; simp only [hjx, if_false, e2]
          have : ¬ (pv ≠ 0 ∧ j + 1 = pv) := fun c => hjpv c.2
          simp only [this, if_false]
        rw [hn]
        refine dlist_frame js _ _ d3 hs.endI ?_ ?_
        · intro j' hj'
          have n1 : j' + 1 ≠ x + 1 := by
            intro e
            have e' : j' = x := by omega
            exact hx (by rw [← e']; simp [hj'])
          have n2 : j' + 1 ≠ j + 1 := by
            intro e; have : j' = j := by omega
            subst this; exact (List.nodup_cons.mp hnd).1 hj'
          have n3 : j' + 1 ≠ pv := hpv j' (by simp [hj'])
          constructor
          · rw [hs.next]; simp only [n1, if_false, e2]
            have : ¬ (pv ≠ 0 ∧ j' + 1 = pv) := fun c => n3 c.2
            simp only [this, if_false]
          · rw [hs.prev]; simp only [n2, n1, if_false]
        · rw [hs.prev]
          have n1 : h.endItem ≠ j + 1 := fun e => he j (by simp) e.symm
          simp only [n1, hxe.symm, if_false]
  | cons a pre' ih =>
    intro p pv hd hnd hx he hpv
    simp only [List.cons_append] at hd hnd hx he hpv ⊢
    obtain ⟨e1, e2, e3⟩ := hd
    subst e1
    have hq := dlist_prevq post pre' _ _ e3
    have hnd' := (List.nodup_cons.mp hnd).2
    have ha := (List.nodup_cons.mp hnd).1
    have hax : a + 1 ≠ x + 1 := by intro e; exact hx (by simp; omega)
    have haq : a + 1 ≠ headPtr h post := by
      cases post with
      | nil => exact he a (by simp)
      | cons j js =>
        simp only [headPtr]; intro e
        have e' : a = j := by omega
        exact ha (by rw [e']; simp)
    have := ih (h.next (a + 1)) (a + 1) e3 hnd' (fun hm => hx (by simp [hm])) (fun j hj => he j (by simp [hj]))
      (fun j hj e => ha (by
        have e' : j = a := by omega
        rw [← e']; exact hj))
    simp only [List.cons_ne_nil, if_false]
    refine ⟨rfl, by rw [hs.prev]; simp only [haq, hax, if_false]; exact e2, ?_⟩
    have hn : h'.next (a + 1) = (if pre' = [] then x + 1 else h.next (a + 1)) := by
      rw [hs.next]; simp only [hax, if_false, hq]
      cases pre' with
      | nil => simp
      | cons b bs =>
        simp only [List.cons_ne_nil, if_false]
        have hl : ∃ l, (b :: bs).getLast? = some l ∧ l ∈ b :: bs := by
          refine ⟨(b :: bs).getLast (by simp), List.getLast?_eq_some_getLast (by simp), List.getLast_mem _⟩
        obtain ⟨l, hl1, hl2⟩ := hl
        simp only [hl1]
        have : a + 1 ≠ l + 1 := by
          intro e
          have e' : a = l := by omega
          exact ha (by rw [e']; exact List.mem_append_left _ hl2)
        have hne : a ≠ l := fun e => this (by rw [e])
        simp [hne]
    rw [hn]
    exact this

/-- the translated threading code links the new item (pointer `X`) in front of `q` = `parent->next` (new item in the right
    cell of its parent) or `parent` (left cell) -/
theorem insertThread_spliced (h : Heap) (c : Cell) (par X : Nat)
    (hX : X ≠ (if c = Cell.right par then h.next par else par)) :
    Spliced h (Map.insertThread h c par X) X (if c = Cell.right par then h.next par else par) ∧
    (Map.insertThread h c par X).beginItem =
      (if h.prev (if c = Cell.right par then h.next par else par) = 0 then X else h.beginItem) ∧
    (Map.insertThread h c par X).key = h.key ∧ (Map.insertThread h c par X).value = h.value ∧
    (Map.insertThread h c par X).parent = h.parent ∧ (Map.insertThread h c par X).left = h.left ∧
    (Map.insertThread h c par X).right = h.right ∧ (Map.insertThread h c par X).height = h.height ∧
    (Map.insertThread h c par X).slope = h.slope ∧ (Map.insertThread h c par X).root = h.root := by
  generalize hq : (if c = Cell.right par then h.next par else par) = q at hX
  unfold Map.insertThread
  simp only [hq]
  have e1 : (h.setPrev X (h.prev q)).prev q = h.prev q := by simp [Heap.setPrev, upd1_apply, hX.symm]
  by_cases h0 : h.prev q = 0
  · simp only [h0, ne_eq, not_true_eq_false, if_false, if_true]
    refine ⟨⟨rfl, ?_, ?_⟩, rfl, rfl, rfl, rfl, rfl, rfl, rfl, rfl, rfl⟩
    · intro a; simp only [Heap.setPrev, Heap.setNext, Heap.setBegin, upd1_apply, h0] <;> grind
    · intro a; simp only [Heap.setPrev, Heap.setNext, Heap.setBegin, upd1_apply, h0] <;> grind
  · simp only [h0, ne_eq, not_false_eq_true, if_true, if_false, e1]
    refine ⟨⟨rfl, ?_, ?_⟩, rfl, rfl, rfl, rfl, rfl, rfl, rfl, rfl, rfl⟩
    · intro a; simp only [Heap.setPrev, Heap.setNext, upd1_apply] <;> grind
    · intro a; simp only [Heap.setPrev, Heap.setNext, upd1_apply] <;> grind

theorem dlist_at {h : Heap} (rest : List Nat) : ∀ (pre : List Nat) (p pv : Nat), DList h p pv (pre ++ rest) →
    ∃ pv', DList h (headPtr h rest) pv' rest := by
  intro pre
  induction pre with
  | nil =>
    intro p pv hd
    simp only [List.nil_append] at hd
    have := (dlist_head hd).1
    subst this
    exact ⟨pv, hd⟩
  | cons a pre' ih => intro p pv hd; exact ih _ _ hd.2.2

theorem insertBefore_split (pid x : Nat) : ∀ (pre post : List Nat), pid ∉ pre →
    insertBefore pid x (pre ++ pid :: post) = pre ++ x :: pid :: post := by
  intro pre
  induction pre with
  | nil => intro post _; simp [insertBefore]
  | cons a pre' ih =>
    intro post hp
    have : a ≠ pid := fun e => hp (by simp [e])
    simp only [List.cons_append, insertBefore, this, if_false]
    rw [ih post (fun hm => hp (by simp [hm]))]

theorem insertAfter_split (pid x : Nat) : ∀ (pre post : List Nat), pid ∉ pre →
    insertAfter pid x (pre ++ pid :: post) = pre ++ pid :: x :: post := by
  intro pre
  induction pre with
  | nil => intro post _; simp [insertAfter]
  | cons a pre' ih =>
    intro post hp
    have : a ≠ pid := fun e => hp (by simp [e])
    simp only [List.cons_append, insertAfter, this, if_false]
    rw [ih post (fun hm => hp (by simp [hm]))]

/-- **the threading of the new item into the prev/next list** (Map.hpp:427-435), translated, is the model's `threadIn`:
    if the heap threads `order` from `_begin.item` to the sentinel, then after the code it threads
    `threadIn order x (some (pid, right))` — the new item directly behind its parent (right cell) or directly in front of
    it (left cell) — with `_begin.item` moved when the new item is the first. -/
theorem insertThread_eq (h : Heap) (order : List Nat) (pid x : Nat) (right : Bool)
    (hd : DList h h.beginItem 0 order) (hpid : pid ∈ order) (hnd : order.Nodup) (hx : x ∉ order)
    (he : ∀ j ∈ order, j + 1 ≠ h.endItem) (hxe : x + 1 ≠ h.endItem) :
    DList (Map.insertThread h (cellOf (some (pid, right))) (pid + 1) (x + 1))
      (Map.insertThread h (cellOf (some (pid, right))) (pid + 1) (x + 1)).beginItem 0
      (threadIn order x (some (pid, right))) := by
  obtain ⟨pre, post, e⟩ := List.append_of_mem hpid
  subst e
  have hpre : pid ∉ pre := by
    intro hm
    have := (List.nodup_append.mp hnd).2.2 pid hm pid (by simp)
    exact this rfl
  obtain ⟨pvp, dp⟩ := dlist_at (pid :: post) pre _ _ hd
  obtain ⟨_, _, dpost⟩ := dp
  have hnext : h.next (pid + 1) = headPtr h post := (dlist_head dpost).1
  cases right with
  | false =>
    have hq : (if cellOf (some (pid, false)) = Cell.right (pid + 1) then h.next (pid + 1) else pid + 1) = headPtr h (pid :: post) := by
      simp [cellOf, headPtr]
    have hX : x + 1 ≠ headPtr h (pid :: post) := by
      simp only [headPtr]; intro e; exact hx (by simp; omega)
    obtain ⟨sp, bg, _⟩ := insertThread_spliced h (cellOf (some (pid, false))) (pid + 1) (x + 1) (by rw [hq]; exact hX)
    rw [hq] at sp bg
    have := dlist_splice (pid :: post) sp hxe pre _ _ hd hnd hx he (fun j _ => by omega)
    have hpq := dlist_prevq (pid :: post) pre _ _ hd
    simp only [threadIn, insertBefore_split pid x pre post hpre]
    rw [bg, hpq]
    cases pre with
    | nil => simpa using this
    | cons a as =>
      have hl : (a :: as).getLast? = some ((a :: as).getLast (by simp)) := List.getLast?_eq_some_getLast (by simp)
      simp only [hl, List.cons_ne_nil, if_false] at this ⊢
      simpa using this
  | true =>
    have hq : (if cellOf (some (pid, true)) = Cell.right (pid + 1) then h.next (pid + 1) else pid + 1) = headPtr h post := by
      simp [cellOf, hnext]
    have hX : x + 1 ≠ headPtr h post := by
      cases post with
      | nil => exact hxe
      | cons j js => simp only [headPtr]; intro e; exact hx (by simp; omega)
    obtain ⟨sp, bg, _⟩ := insertThread_spliced h (cellOf (some (pid, true))) (pid + 1) (x + 1) (by rw [hq]; exact hX)
    rw [hq] at sp bg
    have hd' : DList h h.beginItem 0 ((pre ++ [pid]) ++ post) := by simpa using hd
    have := dlist_splice post sp hxe (pre ++ [pid]) _ _ hd' (by simpa using hnd) (by simpa using hx)
      (fun j hj => he j (by simpa using hj)) (fun j _ => by omega)
    have hpq := dlist_prevq post (pre ++ [pid]) _ _ hd'
    simp only [threadIn, insertAfter_split pid x pre post hpre]
    rw [bg, hpq]
    simp only [List.getLast?_append, List.getLast?_singleton, Option.or_some, List.append_eq_nil_iff, List.cons_ne_nil,
      and_false, if_false] at this ⊢
    simpa using this

theorem multi_insertThread : Multi.insertThread = Map.insertThread := by
  first
  | rfl
  | (funext h c p x; simp only [Multi.insertThread, Map.insertThread]; done)
  | (funext h c p x; simp only [Multi.insertThread, Map.insertThread]; grind)

end Nstd.Avl
