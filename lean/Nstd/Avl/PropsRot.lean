import Nstd.Avl.Props
import Nstd.Avl.LemmasHeap
/-
  Property C01 — the tie of the rotation code, by translation instead of by test.

  tools/gen_avl.py extracts the bodies of `Item::updateHeightAndSlope`, `rotr`, `rotl`, `shiftr`, `shiftl` and `rebal`
  from the CURRENT Map.hpp and MultiMap.hpp and writes them, assignment by assignment, as Lean functions over a
  record-of-nodes heap (Heap.lean: one function per field of `Item`, pointers are `Nat`, `0` = null, an `Item*&`
  is a `Cell`) into Nstd/Generated/AvlRot.lean.  The theorems below say that this pointer code IS the model's
  `upd / rotr / rotl / shiftr / shiftl / rebal` (Model.lean) on the abstraction `Repr h p par t` ("heap `h` holds the
  tree `t` at pointer `p` with parent link `par`": every stored field, every child link and every parent link):
  run on a heap that holds `t` in the cell `c`, the code leaves a heap that holds `Tree.f t` in the same cell, and
  changes nothing outside the items of `t` and that cell (`Frame`).  `code multi` selects the functions translated
  from Map.hpp (`false`) or MultiMap.hpp (`true`).
-/
namespace Nstd.Avl
open Tree
open Nstd.Avl.Heap
open Nstd.Generated.AvlRot

/-- the translated functions of one header -/
structure Code where
  upd : Heap → Nat → Heap
  rotr : Heap → Cell → Heap
  rotl : Heap → Cell → Heap
  shiftr : Heap → Cell → Heap
  shiftl : Heap → Cell → Heap
  rebal : Heap → Nat → Heap × Nat

def code (multi : Bool) : Code :=
  if multi then ⟨Multi.updateHeightAndSlope, Multi.rotr, Multi.rotl, Multi.shiftr, Multi.shiftl, Multi.rebal⟩
  else ⟨Map.updateHeightAndSlope, Map.rotr, Map.rotl, Map.shiftr, Map.shiftl, Map.rebal⟩

theorem code_eq (multi : Bool) :
    code multi = ⟨Map.updateHeightAndSlope, Map.rotr, Map.rotl, Map.shiftr, Map.shiftl, Map.rebal⟩ := by
  cases multi with
  | false => rfl
  | true => simp only [code, if_true, multi_upd, multi_rotr, multi_rotl, multi_shiftr, multi_shiftl, multi_rebal]

theorem mem_iff_ids (j : Nat) (t : Tree) : Mem j t ↔ j ∈ ids t := by
  induction t with
  | nil => simp [Mem]
  | node i k v h s l r ihl ihr => simp only [Mem, ids_node, List.mem_append, List.mem_cons, ihl, ihr]; grind

theorem distinct_iff_nodup (t : Tree) : Distinct t ↔ (ids t).Nodup := by
  induction t with
  | nil => simp [Distinct]
  | node i k v h s l r ihl ihr =>
    simp only [Distinct, ids_node, List.nodup_append, List.nodup_cons, List.mem_cons, ihl, ihr, mem_iff_ids]
    grind

/-- the item ids of `t` are pairwise different and none of them is the parent `par` (pointer `id + 1`) -/
def Sep (par : Nat) (t : Tree) : Prop := (ids t).Nodup ∧ ∀ j ∈ ids t, par ≠ j + 1

theorem sep_split {par : Nat} {t : Tree} (h : Sep par t) : (∀ j, Mem j t → par ≠ j + 1) ∧ Distinct t :=
  ⟨fun j hj => h.2 j ((mem_iff_ids j t).mp hj), (distinct_iff_nodup t).mpr h.1⟩

/-- **`Item::updateHeightAndSlope`** of the current headers is the model's `upd`: it stores
    `max(left.height, right.height) + 1` and `left.height - right.height` (0 for a missing child) into the item and
    touches nothing else. -/
theorem gen_upd_eq_model (multi : Bool) (h : Heap) (p par i : Nat) (k v : Int) (hh : Nat) (s : Int) (l r : Tree)
    (hr : Repr h p par (node i k v hh s l r)) :
    (code multi).upd h p = (h.setSlope p ((l.ht : Int) - (r.ht : Int))).setHeight p (max l.ht r.ht + 1) ∧
    ((ids (node i k v hh s l r)).Nodup → Repr ((code multi).upd h p) p par (Tree.upd (node i k v hh s l r))) := by
  rw [code_eq]
  rw [repr_node_iff] at hr
  obtain ⟨eP, kP, vP, pP, hP, sP, rL, rR⟩ := hr
  have e : Map.updateHeightAndSlope h p = (h.setSlope p ((l.ht : Int) - (r.ht : Int))).setHeight p (max l.ht r.ht + 1) := by
    rw [upd_fields]
    have hl := repr_ht rL
    have hr' := repr_ht rR
    simp only [lhOf, rhOf, hl, hr', Heap.setHeight, Heap.setSlope]
  refine ⟨e, ?_⟩
  intro hnd
  have hd := (distinct_iff_nodup _).mpr hnd
  simp only [Distinct] at hd
  simp only [e, Tree.upd]
  rw [repr_node_iff]
  simp only [Heap.setHeight, Heap.setSlope, upd1_same]
  refine ⟨eP, kP, vP, pP, trivial, trivial, ?_, ?_⟩
  · refine repr_frame rL ?_ (fun j hj => rfl)
    intro j hj
    have : j + 1 ≠ p := by grind
    simp only [upd1_apply, this, if_false, and_self]
  · refine repr_frame rR ?_ (fun j hj => rfl)
    intro j hj
    have : j + 1 ≠ p := by grind
    simp only [upd1_apply, this, if_false, and_self]

/-- **`rotr(cell)`** of the current headers is the model's `rotr` (a left child exists — the code dereferences it). -/
theorem gen_rotr_eq_model (multi : Bool) (h : Heap) (c : Cell) (par i : Nat) (k v : Int) (hh : Nat) (s : Int)
    (li : Nat) (lk lv : Int) (lh : Nat) (ls : Int) (ll lr r : Tree) (hc : CellAt c par)
    (hsep : Sep par (node i k v hh s (node li lk lv lh ls ll lr) r))
    (hr : Repr h (h.get c) par (node i k v hh s (node li lk lv lh ls ll lr) r)) :
    Repr ((code multi).rotr h c) (((code multi).rotr h c).get c) par (Tree.rotr (node i k v hh s (node li lk lv lh ls ll lr) r)) ∧
    Frame h ((code multi).rotr h c) c (node i k v hh s (node li lk lv lh ls ll lr) r) := by
  rw [code_eq]
  exact rotr_repr h c par i k v hh s li lk lv lh ls ll lr r hc (sep_split hsep).1 (sep_split hsep).2 hr

/-- **`rotl(cell)`** of the current headers is the model's `rotl`. -/
theorem gen_rotl_eq_model (multi : Bool) (h : Heap) (c : Cell) (par i : Nat) (k v : Int) (hh : Nat) (s : Int)
    (ri : Nat) (rk rv : Int) (rh : Nat) (rs : Int) (l rl rr : Tree) (hc : CellAt c par)
    (hsep : Sep par (node i k v hh s l (node ri rk rv rh rs rl rr)))
    (hr : Repr h (h.get c) par (node i k v hh s l (node ri rk rv rh rs rl rr))) :
    Repr ((code multi).rotl h c) (((code multi).rotl h c).get c) par (Tree.rotl (node i k v hh s l (node ri rk rv rh rs rl rr))) ∧
    Frame h ((code multi).rotl h c) c (node i k v hh s l (node ri rk rv rh rs rl rr)) := by
  rw [code_eq]
  exact rotl_repr h c par i k v hh s ri rk rv rh rs rr rl l hc (sep_split hsep).1 (sep_split hsep).2 hr

/-- **`shiftr(cell)`** (single or double rotation to the right) is the model's `shiftr`; `hok`: if the stored slope of
    the left child says it leans right, it has a right child (true whenever the stored fields are correct). -/
theorem gen_shiftr_eq_model (multi : Bool) (h : Heap) (c : Cell) (par i : Nat) (k v : Int) (hh : Nat) (s : Int)
    (li : Nat) (lk lv : Int) (lh : Nat) (ls : Int) (ll lr r : Tree) (hc : CellAt c par)
    (hsep : Sep par (node i k v hh s (node li lk lv lh ls ll lr) r))
    (hr : Repr h (h.get c) par (node i k v hh s (node li lk lv lh ls ll lr) r)) (hok : ls = -1 → lr ≠ nil) :
    Repr ((code multi).shiftr h c) (((code multi).shiftr h c).get c) par (Tree.shiftr (node i k v hh s (node li lk lv lh ls ll lr) r)) ∧
    Frame h ((code multi).shiftr h c) c (node i k v hh s (node li lk lv lh ls ll lr) r) := by
  rw [code_eq]
  exact shiftr_repr h c par i k v hh s li lk lv lh ls ll lr r hc (sep_split hsep).1 (sep_split hsep).2 hr hok

/-- **`shiftl(cell)`** is the model's `shiftl`. -/
theorem gen_shiftl_eq_model (multi : Bool) (h : Heap) (c : Cell) (par i : Nat) (k v : Int) (hh : Nat) (s : Int)
    (ri : Nat) (rk rv : Int) (rh : Nat) (rs : Int) (l rl rr : Tree) (hc : CellAt c par)
    (hsep : Sep par (node i k v hh s l (node ri rk rv rh rs rl rr)))
    (hr : Repr h (h.get c) par (node i k v hh s l (node ri rk rv rh rs rl rr))) (hok : rs = 1 → rl ≠ nil) :
    Repr ((code multi).shiftl h c) (((code multi).shiftl h c).get c) par (Tree.shiftl (node i k v hh s l (node ri rk rv rh rs rl rr))) ∧
    Frame h ((code multi).shiftl h c) c (node i k v hh s l (node ri rk rv rh rs rl rr)) := by
  rw [code_eq]
  exact shiftl_repr h c par i k v hh s ri rk rv rh rs rr rl l hc (sep_split hsep).1 (sep_split hsep).2 hr hok

/-- **`rebal(item)`** of the current headers is the model's `rebal`: called on the item in cell `c` (`hcell`: the two
    child links of its parent differ, so that the code's search for the cell finds `c`) it leaves the rebalanced
    tree in the same cell, returns the pointer to its new root, and changes nothing else. -/
theorem gen_rebal_eq_model (multi : Bool) (h : Heap) (c : Cell) (par : Nat) (t : Tree) (hc : CellAt c par)
    (hcell : c = .right par → h.left par ≠ h.get c) (hsep : Sep par t)
    (hr : Repr h (h.get c) par t) (hok : RebalOk t) :
    Repr ((code multi).rebal h (h.get c)).1 ((code multi).rebal h (h.get c)).2 par (Tree.rebal t) ∧
    ((code multi).rebal h (h.get c)).2 = ((code multi).rebal h (h.get c)).1.get c ∧
    Frame h ((code multi).rebal h (h.get c)).1 c t := by
  rw [code_eq]
  exact rebal_repr h c par t hc hcell (sep_split hsep).1 (sep_split hsep).2 hr hok

/-- `RebalOk` holds wherever the model calls `rebal`: on `upd` of a node whose subtrees have correct stored fields
    (`fixup`, `removeRoot`; the subtrees are AVL by `inv_reach`). -/
theorem rebalOk_upd (i : Nat) (k v : Int) (hh : Nat) (s : Int) (l r : Tree) (hl : Avl l) (hr : Avl r) :
    RebalOk (Tree.upd (node i k v hh s l r)) := by
  simp only [Tree.upd, RebalOk]
  constructor
  · intro h1
    cases l with
    | nil => simp only [Tree.ht] at h1; omega
    | node li lk lv lh ls ll lr =>
      refine ⟨li, lk, lv, lh, ls, ll, lr, rfl, ?_⟩
      intro e1 e2; subst e2
      rw [avl_node] at hl
      simp only [Tree.height] at hl; omega
  · intro h1
    cases r with
    | nil => simp only [Tree.ht] at h1; omega
    | node ri rk rv rh rs rl rr =>
      refine ⟨ri, rk, rv, rh, rs, rl, rr, rfl, ?_⟩
      intro e1 e2; subst e2
      rw [avl_node] at hr
      simp only [Tree.height] at hr; omega

/-! ### non-vacuity: a concrete heap -/

/-- items 0,1,2 (pointers 1,2,3) form the left-leaning chain 5 ← 3 ← 1 hanging in `root` -/
def sampleHeap : Heap where
  key := fun p => if p = 1 then 5 else if p = 2 then 3 else 1
  value := fun p => if p = 1 then 50 else if p = 2 then 30 else 10
  parent := fun p => if p = 1 then 0 else if p = 2 then 1 else 2
  left := fun p => if p = 1 then 2 else if p = 2 then 3 else 0
  right := fun _ => 0
  height := fun p => if p = 1 then 3 else if p = 2 then 2 else 1
  slope := fun p => if p = 1 then 2 else if p = 2 then 1 else 0
  root := 1
  next := fun p => if p = 3 then 2 else if p = 2 then 1 else 99
  prev := fun p => if p = 99 then 1 else if p = 1 then 2 else if p = 2 then 3 else 0
  endItem := 99

def sampleTree : Tree := node 0 5 50 3 2 (node 1 3 30 2 1 (node 2 1 10 1 0 nil nil) nil) nil

example : Repr sampleHeap (sampleHeap.get .root) 0 sampleTree := by
  simp [Repr, sampleTree, sampleHeap, Heap.get]
example : CellAt .root 0 ∧ Sep 0 sampleTree ∧ RebalOk sampleTree := by
  refine ⟨by simp [CellAt], by simp [Sep, sampleTree, ids], ?_⟩
  simp only [sampleTree, RebalOk]
  exact ⟨fun _ => ⟨1, 3, 30, 2, 1, _, _, rfl, by decide⟩, fun h => absurd h (by decide)⟩
/-- the translated `rebal` of both headers rotates the chain: new root is item 1 (pointer 2) with children 2 and 0 -/
example : ((code false).rebal sampleHeap 1).2 = 2 ∧ ((code true).rebal sampleHeap 1).1.root = 2 ∧
    ((code false).rebal sampleHeap 1).1.left 2 = 3 ∧ ((code false).rebal sampleHeap 1).1.right 2 = 1 ∧
    ((code false).rebal sampleHeap 1).1.parent 1 = 2 ∧ ((code false).rebal sampleHeap 1).1.height 1 = 1 ∧
    ((code false).rebal sampleHeap 1).1.height 2 = 2 ∧ ((code false).rebal sampleHeap 1).1.slope 2 = 0 := by
  decide
example : Tree.rebal sampleTree = node 1 3 30 2 0 (node 2 1 10 1 0 nil nil) (node 0 5 50 1 0 nil nil) := by decide

end Nstd.Avl
