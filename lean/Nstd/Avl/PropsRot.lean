import Nstd.Avl.Props
import Nstd.Avl.LemmasHeap
import Nstd.Avl.LemmasHeapClimb
import Nstd.Avl.LemmasHeapRemove
import Nstd.Avl.LemmasHeapDescend
import Nstd.Avl.LemmasHeapThread
import Nstd.Avl.LemmasHeapHint
/-
  Property C01 — the tie of the rotation code, by translation instead of by test.

  tools/gen_avl.py extracts the bodies of `Item::updateHeightAndSlope`, `rotr`, `rotl`, `shiftr`, `shiftl` and `rebal`
  from the CURRENT Map.hpp and MultiMap.hpp and writes them, assignment by assignment, as Lean functions over a
  record-of-nodes heap (Heap.lean: one function per field of `Item`, pointers are `Nat`, `0` = null, an `Item*&`
  is a `Cell`) into Nstd/Generated/AvlRot.lean.  The theorems below say that this pointer code IS the model's
  `upd / rotr / rotl / shiftr / shiftl / rebal` (Model.lean) on the abstraction `Repr h p par t` ("heap `h` holds the
  tree `t` at pointer `p` with parent link `par`": every stored field, every child link and every parent link):
  run on a heap that holds `t` in the cell `c`, the code leaves a heap that holds `Tree.f t` in the same cell, and
  changes nothing outside the items of `t` and that cell (`Frame`).  `code multi` selects the functions translated
  from Map.hpp (`false`) or MultiMap.hpp (`true`).
-/
namespace Nstd.Avl
open Tree
open Nstd.Avl.Heap
open Nstd.Generated.AvlRot

/-- the translated functions of one header -/
structure Code where
  upd : Heap → Nat → Heap
  rotr : Heap → Cell → Heap
  rotl : Heap → Cell → Heap
  shiftr : Heap → Cell → Heap
  shiftl : Heap → Cell → Heap
  rebal : Heap → Nat → Heap × Nat

def code (multi : Bool) : Code :=
  if multi then ⟨Multi.updateHeightAndSlope, Multi.rotr, Multi.rotl, Multi.shiftr, Multi.shiftl, Multi.rebal⟩
  else ⟨Map.updateHeightAndSlope, Map.rotr, Map.rotl, Map.shiftr, Map.shiftl, Map.rebal⟩

theorem code_eq (multi : Bool) :
    code multi = ⟨Map.updateHeightAndSlope, Map.rotr, Map.rotl, Map.shiftr, Map.shiftl, Map.rebal⟩ := by
  cases multi with
  | false => rfl
  | true => simp only [code, if_true, multi_upd, multi_rotr, multi_rotl, multi_shiftr, multi_shiftl, multi_rebal]

theorem mem_iff_ids (j : Nat) (t : Tree) : Mem j t ↔ j ∈ ids t := by
  induction t with
  | nil => simp [Mem]
  | node i k v h s l r ihl ihr => simp only [Mem, ids_node, List.mem_append, List.mem_cons, ihl, ihr]; grind

theorem distinct_iff_nodup (t : Tree) : Distinct t ↔ (ids t).Nodup := by
  induction t with
  | nil => simp [Distinct]
  | node i k v h s l r ihl ihr =>
    simp only [Distinct, ids_node, List.nodup_append, List.nodup_cons, List.mem_cons, ihl, ihr, mem_iff_ids]
    grind

/-- the item ids of `t` are pairwise different and none of them is the parent `par` (pointer `id + 1`) -/
def Sep (par : Nat) (t : Tree) : Prop := (ids t).Nodup ∧ ∀ j ∈ ids t, par ≠ j + 1

theorem sep_split {par : Nat} {t : Tree} (h : Sep par t) : (∀ j, Mem j t → par ≠ j + 1) ∧ Distinct t :=
  ⟨fun j hj => h.2 j ((mem_iff_ids j t).mp hj), (distinct_iff_nodup t).mpr h.1⟩

/-- **`Item::updateHeightAndSlope`** of the current headers is the model's `upd`: it stores
    `max(left.height, right.height) + 1` and `left.height - right.height` (0 for a missing child) into the item and
    touches nothing else. -/
theorem gen_upd_eq_model (multi : Bool) (h : Heap) (p par i : Nat) (k v : Int) (hh : Nat) (s : Int) (l r : Tree)
    (hr : Repr h p par (node i k v hh s l r)) :
    (code multi).upd h p = (h.setSlope p ((l.ht : Int) - (r.ht : Int))).setHeight p (max l.ht r.ht + 1) ∧
    ((ids (node i k v hh s l r)).Nodup → Repr ((code multi).upd h p) p par (Tree.upd (node i k v hh s l r))) := by
  rw [code_eq]
  rw [repr_node_iff] at hr
  obtain ⟨eP, kP, vP, pP, hP, sP, rL, rR⟩ := hr
  have e : Map.updateHeightAndSlope h p = (h.setSlope p ((l.ht : Int) - (r.ht : Int))).setHeight p (max l.ht r.ht + 1) := by
    rw [upd_fields]
    have hl := repr_ht rL
    have hr' := repr_ht rR
    simp only [lhOf, rhOf, hl, hr', Heap.setHeight, Heap.setSlope]
  refine ⟨e, ?_⟩
  intro hnd
  have hd := (distinct_iff_nodup _).mpr hnd
  simp only [Distinct] at hd
  simp only [e, Tree.upd]
  rw [repr_node_iff]
  simp only [Heap.setHeight, Heap.setSlope, upd1_same]
  refine ⟨eP, kP, vP, pP, trivial, trivial, ?_, ?_⟩
  · refine repr_frame rL ?_ (fun j hj => rfl)
    intro j hj
    have : j + 1 ≠ p := by grind
    simp only [upd1_apply, this, if_false, and_self]
  · refine repr_frame rR ?_ (fun j hj => rfl)
    intro j hj
    have : j + 1 ≠ p := by grind
    simp only [upd1_apply, this, if_false, and_self]

/-- **`rotr(cell)`** of the current headers is the model's `rotr` (a left child exists — the code dereferences it). -/
theorem gen_rotr_eq_model (multi : Bool) (h : Heap) (c : Cell) (par i : Nat) (k v : Int) (hh : Nat) (s : Int)
    (li : Nat) (lk lv : Int) (lh : Nat) (ls : Int) (ll lr r : Tree) (hc : CellAt c par)
    (hsep : Sep par (node i k v hh s (node li lk lv lh ls ll lr) r))
    (hr : Repr h (h.get c) par (node i k v hh s (node li lk lv lh ls ll lr) r)) :
    Repr ((code multi).rotr h c) (((code multi).rotr h c).get c) par (Tree.rotr (node i k v hh s (node li lk lv lh ls ll lr) r)) ∧
    Frame h ((code multi).rotr h c) c (node i k v hh s (node li lk lv lh ls ll lr) r) := by
  rw [code_eq]
  exact rotr_repr h c par i k v hh s li lk lv lh ls ll lr r hc (sep_split hsep).1 (sep_split hsep).2 hr

/-- **`rotl(cell)`** of the current headers is the model's `rotl`. -/
theorem gen_rotl_eq_model (multi : Bool) (h : Heap) (c : Cell) (par i : Nat) (k v : Int) (hh : Nat) (s : Int)
    (ri : Nat) (rk rv : Int) (rh : Nat) (rs : Int) (l rl rr : Tree) (hc : CellAt c par)
    (hsep : Sep par (node i k v hh s l (node ri rk rv rh rs rl rr)))
    (hr : Repr h (h.get c) par (node i k v hh s l (node ri rk rv rh rs rl rr))) :
    Repr ((code multi).rotl h c) (((code multi).rotl h c).get c) par (Tree.rotl (node i k v hh s l (node ri rk rv rh rs rl rr))) ∧
    Frame h ((code multi).rotl h c) c (node i k v hh s l (node ri rk rv rh rs rl rr)) := by
  rw [code_eq]
  exact rotl_repr h c par i k v hh s ri rk rv rh rs rr rl l hc (sep_split hsep).1 (sep_split hsep).2 hr

/-- **`shiftr(cell)`** (single or double rotation to the right) is the model's `shiftr`; `hok`: if the stored slope of
    the left child says it leans right, it has a right child (true whenever the stored fields are correct). -/
theorem gen_shiftr_eq_model (multi : Bool) (h : Heap) (c : Cell) (par i : Nat) (k v : Int) (hh : Nat) (s : Int)
    (li : Nat) (lk lv : Int) (lh : Nat) (ls : Int) (ll lr r : Tree) (hc : CellAt c par)
    (hsep : Sep par (node i k v hh s (node li lk lv lh ls ll lr) r))
    (hr : Repr h (h.get c) par (node i k v hh s (node li lk lv lh ls ll lr) r)) (hok : ls = -1 → lr ≠ nil) :
    Repr ((code multi).shiftr h c) (((code multi).shiftr h c).get c) par (Tree.shiftr (node i k v hh s (node li lk lv lh ls ll lr) r)) ∧
    Frame h ((code multi).shiftr h c) c (node i k v hh s (node li lk lv lh ls ll lr) r) := by
  rw [code_eq]
  exact shiftr_repr h c par i k v hh s li lk lv lh ls ll lr r hc (sep_split hsep).1 (sep_split hsep).2 hr hok

/-- **`shiftl(cell)`** is the model's `shiftl`. -/
theorem gen_shiftl_eq_model (multi : Bool) (h : Heap) (c : Cell) (par i : Nat) (k v : Int) (hh : Nat) (s : Int)
    (ri : Nat) (rk rv : Int) (rh : Nat) (rs : Int) (l rl rr : Tree) (hc : CellAt c par)
    (hsep : Sep par (node i k v hh s l (node ri rk rv rh rs rl rr)))
    (hr : Repr h (h.get c) par (node i k v hh s l (node ri rk rv rh rs rl rr))) (hok : rs = 1 → rl ≠ nil) :
    Repr ((code multi).shiftl h c) (((code multi).shiftl h c).get c) par (Tree.shiftl (node i k v hh s l (node ri rk rv rh rs rl rr))) ∧
    Frame h ((code multi).shiftl h c) c (node i k v hh s l (node ri rk rv rh rs rl rr)) := by
  rw [code_eq]
  exact shiftl_repr h c par i k v hh s ri rk rv rh rs rr rl l hc (sep_split hsep).1 (sep_split hsep).2 hr hok

/-- **`rebal(item)`** of the current headers is the model's `rebal`: called on the item in cell `c` (`hcell`: the two
    child links of its parent differ, so that the code's search for the cell finds `c`) it leaves the rebalanced
    tree in the same cell, returns the pointer to its new root, and changes nothing else. -/
theorem gen_rebal_eq_model (multi : Bool) (h : Heap) (c : Cell) (par : Nat) (t : Tree) (hc : CellAt c par)
    (hcell : c = .right par → h.left par ≠ h.get c) (hsep : Sep par t)
    (hr : Repr h (h.get c) par t) (hok : RebalOk t) :
    Repr ((code multi).rebal h (h.get c)).1 ((code multi).rebal h (h.get c)).2 par (Tree.rebal t) ∧
    ((code multi).rebal h (h.get c)).2 = ((code multi).rebal h (h.get c)).1.get c ∧
    Frame h ((code multi).rebal h (h.get c)).1 c t := by
  rw [code_eq]
  exact rebal_repr h c par t hc hcell (sep_split hsep).1 (sep_split hsep).2 hr hok

/-- `RebalOk` holds wherever the model calls `rebal`: on `upd` of a node whose subtrees have correct stored fields
    (`fixup`, `removeRoot`; the subtrees are AVL by `inv_reach`). -/
theorem rebalOk_upd (i : Nat) (k v : Int) (hh : Nat) (s : Int) (l r : Tree) (hl : Avl l) (hr : Avl r) :
    RebalOk (Tree.upd (node i k v hh s l r)) := by
  simp only [Tree.upd, RebalOk]
  constructor
  · intro h1
    cases l with
    | nil => simp only [Tree.ht] at h1; omega
    | node li lk lv lh ls ll lr =>
      refine ⟨li, lk, lv, lh, ls, ll, lr, rfl, ?_⟩
      intro e1 e2; subst e2
      rw [avl_node] at hl
      simp only [Tree.height] at hl; omega
  · intro h1
    cases r with
    | nil => simp only [Tree.ht] at h1; omega
    | node ri rk rv rh rs rl rr =>
      refine ⟨ri, rk, rv, rh, rs, rl, rr, rfl, ?_⟩
      intro e1 e2; subst e2
      rw [avl_node] at hr
      simp only [Tree.height] at hr; omega


/-! ### second layer: `find`, the upward loop of the private insert -/

/-- **`Map::find`** of the current Map.hpp (the `for(Item* item = root; item; )` loop with its `continue`s, translated
    with a counter of the key comparisons in evaluation order) returns the item at the in-order position the model's
    `Tree.findIdx` gives (or `_end`), after exactly `Tree.findCmps` comparisons; `height + 1` units of fuel suffice. -/
theorem gen_find_map_eq_model (h : Heap) (t : Tree) (k : Int) (c fuel : Nat) (hr : Repr h h.root 0 t)
    (hf : t.height < fuel) :
    Map.find fuel h c k =
      some ((match (Tree.findIdx k t).bind (fun j => (ids t)[j]?) with | some i => i + 1 | none => h.endItem),
        c + Tree.findCmps k t) := by
  unfold Map.find
  simp only []
  rw [map_find_loop h k t _ 0 c fuel hr hf, findPtr_spec]
  rfl

/-- **`MultiMap::find`** of the current MultiMap.hpp (the repaired lower-bound loop with its `result` variable) returns
    the item at the position the model's `Tree.findMIdx` gives — the FIRST of the equal keys — or `_end`, after exactly
    `Tree.findMCmps` comparisons.  (The seeded early exit C01-6 breaks this obligation.) -/
theorem gen_find_multi_eq_model (h : Heap) (t : Tree) (k : Int) (c fuel : Nat) (hr : Repr h h.root 0 t)
    (hf : t.height < fuel) :
    Multi.find fuel h c k =
      some ((match (Tree.findMIdx k t).bind (fun j => (ids t)[j]?) with | some i => i + 1 | none => h.endItem),
        c + Tree.findMCmps k t) := by
  unfold Multi.find
  simp only []
  have := multi_find_loop h k t _ 0 c fuel none hr hf
  simp only [encPtr] at this
  rw [this, findMPtr_spec]
  cases (Tree.findMIdx k t).bind (fun j => (ids t)[j]?) <;> simp [encPtr]

/-- **`MultiMap::count`** of the current MultiMap.hpp (`find`, then the walk over `next` while the keys are equal, with the
    sentinel test in front of the key comparison) returns what the model's `count` step returns — `countWalk` over the
    entries behind the one `find` returned — with exactly the model's number of key comparisons. -/
theorem gen_count_eq_model (h : Heap) (t : Tree) (k : Int) (c fuel first : Nat) (hr : Repr h h.root 0 t)
    (hl : NextRepr h first t.inorder) (hf : t.height < fuel) (hf2 : t.size < fuel) :
    Multi.count fuel h c k = some (match Tree.findMIdx k t with
      | none => (0, c + Tree.findMCmps k t)
      | some p => ((countWalk k (t.inorder.drop (p + 1))).1 + 1,
                   c + Tree.findMCmps k t + (countWalk k (t.inorder.drop (p + 1))).2)) := by
  unfold Multi.count
  rw [gen_find_multi_eq_model h t k c fuel hr hf]
  simp only []
  cases hfi : Tree.findMIdx k t with
  | none => simp
  | some p =>
    have hb : p < t.size := by
      rcases findMLoop_bound k t none 0 p hfi with e | e
      · simp at e
      · omega
    rw [size_eq_length] at hb
    have hi : (ids t)[p]? = some (t.inorder[p]).1 := by
      simp [ids, List.getElem?_map, List.getElem?_eq_getElem hb]
    obtain ⟨n1, n2⟩ := nextRepr_drop h t.inorder first p (t.inorder[p]) hl (List.getElem?_eq_getElem hb)
    simp only [Option.bind_some, hi, n1, if_false]
    rw [count_loop_eq h k _ _ _ 1 fuel _ n2 (by rw [List.length_drop, ← size_eq_length]; omega)]
    simp only [Option.some.injEq, Prod.mk.injEq]
    exact ⟨Nat.add_comm _ _, trivial⟩

/-- **The head of `remove(it)`** of the current headers (cell computation, the three trivial cases, the choice of the
    neighbour; `removeHead` = the statements in front of the label `rebalParent:` with the bodies of the two-children
    branches cut off).  Called with the item held in cell `c`:
    * `parent` is the item's parent;
    * no left or no right child: the cell receives the only child (or null), that child's parent link is redirected,
      nothing else changes, control goes to `rebalParentUpwards` (tag 0) — the heap holds the model's `removeRoot t`;
    * two children: nothing is stored, the successor branch (tag 1) is taken iff the model's test `l.ht < r.ht` holds,
      else the predecessor branch (tag 2). -/
theorem gen_remove_head_eq_model (multi : Bool) (h : Heap) (c : Cell) (par i : Nat) (k v : Int) (hh : Nat) (s : Int)
    (l r : Tree) (hc : CellAt c par) (hcell : c = .right par → h.left par ≠ h.get c)
    (hsep : Sep par (node i k v hh s l r)) (hr : Repr h (h.get c) par (node i k v hh s l r)) :
    let res := (if multi then Multi.removeHead else Map.removeHead) h (h.get c)
    res.2.1 = par ∧
    ((l = .nil ∨ r = .nil) → res.2.2 = 0 ∧
      Repr res.1 (res.1.get c) par (Tree.removeRoot (node i k v hh s l r)) ∧ Frame h res.1 c (node i k v hh s l r)) ∧
    (l ≠ .nil → r ≠ .nil → res.1 = h ∧ res.2.2 = if l.ht < r.ht then 1 else 2) := by
  have := removeHead_repr h c par i k v hh s l r hc hcell (sep_split hsep).1 (sep_split hsep).2 hr
  cases multi with
  | false => exact this
  | true => simp only [if_true, multi_removeHead]; exact this

theorem multi_insertLoop : ∀ (fuel : Nat) (h : Heap) (p old : Nat),
    Multi.insertRebalance_loop fuel h p old = Map.insertRebalance_loop fuel h p old := by
  intro fuel
  induction fuel with
  | zero => intro h p old; rw [Multi.insertRebalance_loop, Map.insertRebalance_loop]
  | succ f ih =>
    intro h p old
    rw [Multi.insertRebalance_loop, Map.insertRebalance_loop]
    simp only [multi_upd, multi_rebal, ih]

/-- the translated upward loop of the private insert of one header -/
def insertLoop (multi : Bool) : Nat → Heap → Nat → Nat → Option Heap :=
  if multi then Multi.insertRebalance_loop else Map.insertRebalance_loop

/-- the descent of `Map::insert` for key `k` ends in the hole of the context -/
def Ctx.PathMap (k : Int) : Ctx → Prop
  | .top => True
  | .left _ k' _ _ _ _ up => k < k' ∧ Ctx.PathMap k up
  | .right _ k' _ _ _ _ up => k > k' ∧ Ctx.PathMap k up

/-- the descent of `MultiMap::insert` -/
def Ctx.PathMulti (k : Int) : Ctx → Prop
  | .top => True
  | .left _ k' _ _ _ _ up => k < k' ∧ Ctx.PathMulti k up
  | .right _ k' _ _ _ _ up => ¬ k < k' ∧ Ctx.PathMulti k up

theorem ins_plug (id : Nat) (k v : Int) : ∀ (ctx : Ctx) (sub : Tree), ctx.PathMap k →
    Tree.ins id k v (ctx.plug sub) = ctx.climb (Tree.ins id k v sub) := by
  intro ctx
  induction ctx with
  | top => intro sub _; rfl
  | left i k' v' hh s r up ih =>
    intro sub hp
    simp only [Ctx.plug, Ctx.climb]
    rw [ih _ hp.2]
    congr 1
    have h1 : ¬ k > k' := by have := hp.1; omega
    simp only [Tree.ins, h1, hp.1, if_false, if_true]
  | right i k' v' hh s l up ih =>
    intro sub hp
    simp only [Ctx.plug, Ctx.climb]
    rw [ih _ hp.2]
    congr 1
    simp only [Tree.ins, hp.1, if_true]

theorem insM_plug (id : Nat) (k v : Int) : ∀ (ctx : Ctx) (sub : Tree), ctx.PathMulti k →
    Tree.insM id k v (ctx.plug sub) = ctx.climb (Tree.insM id k v sub) := by
  intro ctx
  induction ctx with
  | top => intro sub _; rfl
  | left i k' v' hh s r up ih =>
    intro sub hp
    simp only [Ctx.plug, Ctx.climb]
    rw [ih _ hp.2]
    congr 1
    simp only [Tree.insM, hp.1, if_true]
  | right i k' v' hh s l up ih =>
    intro sub hp
    simp only [Ctx.plug, Ctx.climb]
    rw [ih _ hp.2]
    congr 1
    simp only [Tree.insM, hp.1, if_false]

theorem avl_plug : ∀ (ctx : Ctx) (t : Tree), Avl (ctx.plug t) → Avl t := by
  intro ctx
  induction ctx with
  | top => intro t h; exact h
  | left i k v hh s r up ih => intro t h; have := ih _ h; rw [avl_node] at this; exact this.1
  | right i k v hh s l up ih => intro t h; have := ih _ h; rw [avl_node] at this; exact this.2.1

/-- `ClimbOk` holds on the way back from an insertion into (or a removal from) an AVL tree: the subtree that comes
    back is AVL and at most one level off the one it replaces -/
theorem climbOk_of_avl : ∀ (ctx : Ctx) (orig : Tree) (p : Tree × Bool), Avl (ctx.plug orig) → Avl p.1 →
    ((p.1.height : Int) - orig.height ≤ 1 ∧ -1 ≤ (p.1.height : Int) - orig.height) →
    (p.2 = false → p.1.height = orig.height) → ClimbOk ctx p := by
  intro ctx
  induction ctx with
  | top => intro _ _ _ _ _ _; trivial
  | left i k v hh s r up ih =>
    intro orig p hA hp hd hc
    have hN := avl_plug up _ hA
    have hN' := hN
    rw [avl_node] at hN'
    obtain ⟨g1, g2, g3, g4, g5⟩ := goL_spec i k v hh s orig r p hN hp hd hc
    refine ⟨fun _ => rebalOk_upd i k v hh s p.1 r hp hN'.2.1, ?_⟩
    refine ih (node i k v hh s orig r) _ hA g1 ?_ ?_
    · simp only [Tree.height]; omega
    · intro e; simp only [Tree.height]; have := g3 e; omega
  | right i k v hh s l up ih =>
    intro orig p hA hp hd hc
    have hN := avl_plug up _ hA
    have hN' := hN
    rw [avl_node] at hN'
    obtain ⟨g1, g2, g3, g4, g5⟩ := goR_spec i k v hh s l orig p hN hp hd hc
    refine ⟨fun _ => rebalOk_upd i k v hh s l p.1 hN'.1 hp, ?_⟩
    refine ih (node i k v hh s l orig) _ hA g1 ?_ ?_
    · simp only [Tree.height]; omega
    · intro e; simp only [Tree.height]; have := g3 e; omega

/-- **The upward loop of the private insert** of the current headers is the model's way back to the root: started at
    the item under which the subtree `sub` was just linked (`ctx` = the path to that cell, held by the heap), it leaves
    a heap that holds `(ctx.climb (sub, true)).1` — `goL` / `goR` / `fixup` applied along the path, including the early
    exit `oldHeight == parent->height` — and `ctx.depth` units of fuel suffice. -/
theorem gen_insert_loop_eq_climb (multi : Bool) (ctx : Ctx) (h : Heap) (sub : Tree) (fuel old : Nat)
    (hn : ctx ≠ .top) (hc : ReprCtx h ctx) (hs : Repr h (h.get ctx.cell) ctx.par sub)
    (hnd : (ids sub ++ ctx.ids).Nodup) (hok : ClimbOk ctx (sub, true)) (hf : ctx.depth ≤ fuel) :
    ∃ h', insertLoop multi fuel h ctx.par old = some h' ∧ Repr h' h'.root 0 (ctx.climb (sub, true)).1 ∧
      h'.key = h.key ∧ h'.value = h.value := by
  have := insertRebalance_loop_eq ctx h sub fuel old hn hc hs hnd hok hf
  cases multi with
  | false => exact this
  | true => simp only [insertLoop, if_true, multi_insertLoop]; exact this

/-- **`Map::insert`, after the new item is linked**: if the tree was AVL and the descent for `k` ended in the hole of
    `ctx`, the loop leaves exactly the tree of the model's `ins`. -/
theorem gen_insert_loop_map_eq_model (ctx : Ctx) (h : Heap) (id : Nat) (k v : Int) (fuel old : Nat)
    (hn : ctx ≠ .top) (hc : ReprCtx h ctx) (hs : Repr h (h.get ctx.cell) ctx.par (node id k v 1 0 nil nil))
    (hnd : (id :: ctx.ids).Nodup) (hA : Avl (ctx.plug nil)) (hp : ctx.PathMap k) (hf : ctx.depth ≤ fuel) :
    ∃ h', insertLoop false fuel h ctx.par old = some h' ∧ Repr h' h'.root 0 (Tree.ins id k v (ctx.plug nil)).1 ∧
      h'.key = h.key ∧ h'.value = h.value := by
  have hok : ClimbOk ctx (node id k v 1 0 nil nil, true) :=
    climbOk_of_avl ctx nil _ hA (by rw [avl_node]; simp [Tree.height]) (by simp [Tree.height]) (by simp)
  rw [ins_plug id k v ctx nil hp]
  exact gen_insert_loop_eq_climb false ctx h _ fuel old hn hc hs (by simpa [ids] using hnd) hok hf

/-- **`MultiMap::insert`, after the new item is linked** — the same for the MultiMap.hpp copy of the loop and `insM`. -/
theorem gen_insert_loop_multi_eq_model (ctx : Ctx) (h : Heap) (id : Nat) (k v : Int) (fuel old : Nat)
    (hn : ctx ≠ .top) (hc : ReprCtx h ctx) (hs : Repr h (h.get ctx.cell) ctx.par (node id k v 1 0 nil nil))
    (hnd : (id :: ctx.ids).Nodup) (hA : Avl (ctx.plug nil)) (hp : ctx.PathMulti k) (hf : ctx.depth ≤ fuel) :
    ∃ h', insertLoop true fuel h ctx.par old = some h' ∧ Repr h' h'.root 0 (Tree.insM id k v (ctx.plug nil)).1 ∧
      h'.key = h.key ∧ h'.value = h.value := by
  have hok : ClimbOk ctx (node id k v 1 0 nil nil, true) :=
    climbOk_of_avl ctx nil _ hA (by rw [avl_node]; simp [Tree.height]) (by simp [Tree.height]) (by simp)
  rw [insM_plug id k v ctx nil hp]
  exact gen_insert_loop_eq_climb true ctx h _ fuel old hn hc hs (by simpa [ids] using hnd) hok hf

/-- the translated `while(parent)` loop behind `rebalParentUpwards:` of one header -/
def removeUpLoop (multi : Bool) : Nat → Heap → Nat → Nat → Option Heap :=
  if multi then Multi.removeUpwards_loop else Map.removeUpwards_loop

/-- **The loop behind `rebalParentUpwards:`** of `remove(it)` is the model's way back to the root (`goL` / `goR` / `fixup`
    with the early exit), also when the removed item hung in the root cell (`ctx = top`: nothing to do);
    `ctx.depth + 1` units of fuel suffice. -/
theorem gen_remove_up_eq_climb (multi : Bool) (ctx : Ctx) (h : Heap) (sub : Tree) (fuel old : Nat)
    (hc : ReprCtx h ctx) (hs : Repr h (h.get ctx.cell) ctx.par sub) (hnd : (ids sub ++ ctx.ids).Nodup)
    (hok : ClimbOk ctx (sub, true)) (hf : ctx.depth < fuel) :
    ∃ h', removeUpLoop multi fuel h ctx.par old = some h' ∧ Repr h' h'.root 0 (ctx.climb (sub, true)).1 ∧
      h'.key = h.key ∧ h'.value = h.value := by
  have := removeUpwards_loop_eq ctx h sub fuel old hc hs hnd hok hf
  cases multi with
  | false => exact this
  | true => simp only [removeUpLoop, if_true, multi_removeUp]; exact this

/-- **`remove(it)` of an item without left or without right child, complete** (head + `rebalParentUpwards`): the heap that
    held the AVL tree `ctx.plug t` with the item `t`'s root in the hole of `ctx` holds the model's
    `delIdx (position of the item) (ctx.plug t)` afterwards. -/
theorem gen_remove_trivial_eq_model (multi : Bool) (ctx : Ctx) (h : Heap) (i : Nat) (k v : Int) (hh : Nat) (s : Int)
    (l r : Tree) (fuel old : Nat) (htriv : l = .nil ∨ r = .nil)
    (hc : ReprCtx h ctx) (hs : Repr h (h.get ctx.cell) ctx.par (node i k v hh s l r))
    (hcell : ctx.cell = .right ctx.par → h.left ctx.par ≠ h.get ctx.cell)
    (hnd : (ids (node i k v hh s l r) ++ ctx.ids).Nodup) (hA : Avl (ctx.plug (node i k v hh s l r)))
    (hf : ctx.depth < fuel) :
    let res := (if multi then Multi.removeHead else Map.removeHead) h (h.get ctx.cell)
    ∃ h', removeUpLoop multi fuel res.1 res.2.1 old = some h' ∧
      Repr h' h'.root 0 (Tree.delIdx (ctx.pos l.size) (ctx.plug (node i k v hh s l r))).1 := by
  have hnd' := hnd
  rw [List.nodup_append] at hnd'
  obtain ⟨n1, n2, n3⟩ := hnd'
  have hsep : Sep ctx.par (node i k v hh s l r) := by
    refine ⟨n1, ?_⟩
    intro j hj e
    cases ctx with
    | top => simp [Ctx.par] at e
    | left q _ _ _ _ _ _ =>
      simp only [Ctx.par] at e
      have : q = j := by omega
      subst this; exact n3 q hj q (by simp [Ctx.ids]) rfl
    | right q _ _ _ _ _ _ =>
      simp only [Ctx.par] at e
      have : q = j := by omega
      subst this; exact n3 q hj q (by simp [Ctx.ids]) rfl
  obtain ⟨g1, g2, _⟩ := gen_remove_head_eq_model multi h ctx.cell ctx.par i k v hh s l r (cellAt_ctx ctx) hcell hsep hs
  obtain ⟨_, g3, g4⟩ := g2 htriv
  intro res
  have hAt := avl_plug ctx _ hA
  have hAt' := hAt
  rw [avl_node] at hAt'
  -- the subtree that comes back: AVL, one level lower, its ids among the old ones
  have hsub : Avl (Tree.removeRoot (node i k v hh s l r)) ∧
      ((Tree.removeRoot (node i k v hh s l r)).height : Int) - (node i k v hh s l r).height ≤ 1 ∧
      -1 ≤ ((Tree.removeRoot (node i k v hh s l r)).height : Int) - (node i k v hh s l r).height ∧
      (∀ j ∈ ids (Tree.removeRoot (node i k v hh s l r)), j ∈ ids (node i k v hh s l r)) ∧
      (ids (Tree.removeRoot (node i k v hh s l r))).Nodup := by
    obtain ⟨a1, a2, a3, a4, a5, a6⟩ := hAt'
    rw [ids_node, List.nodup_append] at n1
    cases l with
    | nil =>
      cases r with
      | nil => simp [Tree.removeRoot, Tree.height, ids]
      | node ri rk rv rh rs rl rr =>
        simp only [Tree.removeRoot, Tree.height] at a4 ⊢
        refine ⟨a2, by omega, by omega, fun j hj => by simp [ids_node] at hj ⊢; grind, (List.nodup_cons.mp n1.2.1).2⟩
    | node li lk lv lh ls ll lr =>
      cases r with
      | nil =>
        simp only [Tree.removeRoot, Tree.height] at a4 ⊢
        refine ⟨a1, by omega, by omega, fun j hj => by simp [ids_node] at hj ⊢; grind, n1.1⟩
      | node ri rk rv rh rs rl rr => rcases htriv with e | e <;> simp at e
  obtain ⟨s1, s2, s3, s4, s5⟩ := hsub
  have hok : ClimbOk ctx (Tree.removeRoot (node i k v hh s l r), true) :=
    climbOk_of_avl ctx _ _ hA s1 ⟨s2, s3⟩ (by simp)
  have hc' : ReprCtx res.1 ctx := reprCtx_frame_hole ctx hc g4
    (fun j hj hm => n3 j ((mem_iff_ids' _ _).mp hm) j hj rfl) n2
  have hnd2 : (ids (Tree.removeRoot (node i k v hh s l r)) ++ ctx.ids).Nodup := by
    rw [List.nodup_append]
    exact ⟨s5, n2, fun a ha b hb => n3 a (s4 a ha) b hb⟩
  obtain ⟨h', e1, e2, _, _⟩ := gen_remove_up_eq_climb multi ctx res.1 _ fuel old hc' g3 hnd2 hok hf
  refine ⟨h', by rw [g1]; exact e1, ?_⟩
  have hd := delIdx_plug ctx (node i k v hh s l r) l.size (by simp only [Tree.size]; omega)
  rw [hd]
  simpa [Tree.delIdx] using e2

/-! ### the descent of the private insert -/

/-- **The descent of `Map::insert(cell, parent, key, value)`** of the current Map.hpp — the `begin:` … `goto begin` loop, or
    the `for` loop of a restructured header (both shapes translate to the same Lean function) — started in the cell
    `mc` that holds `t`: it stops where the model's `land` stops, after exactly `insCmps` key comparisons: at the item
    with the key (tag 0; its value is overwritten, nothing else changes), or in an empty cell (tag 1) with the `parent`
    the new item will get; `height + 1` units of fuel suffice. -/
theorem gen_insert_descend_map_eq_model (h : Heap) (k v : Int) (t : Tree) (mc : Option (Nat × Bool)) (c fuel : Nat)
    (hr : Repr h (h.get (cellOf mc)) (parOf mc) t) (hf : t.height < fuel) :
    Map.insertDescend fuel h c (cellOf mc) (parOf mc) k v =
      some (match Tree.land k mc t with
        | .found id => (h.setValue (id + 1) v, 0, id + 1, cellOf (landCell k mc t), c + Tree.insCmps k t)
        | .leaf mc' => (h, 1, parOf mc', cellOf mc', c + Tree.insCmps k t)) := by
  unfold Map.insertDescend
  exact map_descend_loop h k v t mc c fuel 0 hr hf

/-- **The descent of `MultiMap::insert(cell, parent, key, value)`**: one `<` per level, always ends in the empty cell the
    model's `landM` names (behind the last key `≤ k` of its path), after `insMCmps` comparisons, without storing. -/
theorem gen_insert_descend_multi_eq_model (h : Heap) (k v : Int) (t : Tree) (mc : Option (Nat × Bool)) (c fuel : Nat)
    (hr : Repr h (h.get (cellOf mc)) (parOf mc) t) (hf : t.height < fuel) :
    ∃ mc', Tree.landM k mc t = .leaf mc' ∧
      Multi.insertDescend fuel h c (cellOf mc) (parOf mc) k v = some (1, parOf mc', cellOf mc', c + Tree.insMCmps k t) := by
  unfold Multi.insertDescend
  exact multi_descend_loop h k v t mc c fuel 0 hr hf

/-- where the Map descent ends in an empty cell, that cell is the hole of a context `ctx` of the tree: the path the
    descent took (`PathMap`), held by the heap if the heap held the tree — this is the context the upward loop then
    climbs (`gen_insert_loop_map_eq_model`) -/
theorem land_ctx (h : Heap) (k : Int) : ∀ (t : Tree) (ctx0 : Ctx) (mc' : Option (Nat × Bool)),
    Tree.land k ctx0.mcell t = .leaf mc' → ctx0.PathMap k → ReprCtx h ctx0 → Repr h (h.get ctx0.cell) ctx0.par t →
    ∃ ctx : Ctx, ctx.plug .nil = ctx0.plug t ∧ ctx.PathMap k ∧ ctx.mcell = mc' ∧ ReprCtx h ctx ∧ h.get ctx.cell = 0 := by
  intro t
  induction t with
  | nil =>
    intro ctx0 mc' hl hp hc hr
    simp only [Tree.land, Landing.leaf.injEq] at hl
    exact ⟨ctx0, rfl, hp, hl, hc, hr⟩
  | node i k' v hh s l r ihl ihr =>
    intro ctx0 mc' hl hp hc hr
    rw [repr_node_iff] at hr
    obtain ⟨eP, kP, vP, pP, hP, sP, rL, rR⟩ := hr
    simp only [Tree.land] at hl
    by_cases h1 : k > k'
    · simp only [h1, if_true] at hl
      have := ihr (Ctx.right i k' v hh s l ctx0) mc' hl ⟨h1, hp⟩
        (by rw [eP] at kP vP pP hP sP rL; exact ⟨kP, vP, hP, sP, pP, eP, rL, hc⟩)
        (by rw [eP] at rR; exact rR)
      obtain ⟨ctx, a1, a2, a3, a4, a5⟩ := this
      exact ⟨ctx, a1, a2, a3, a4, a5⟩
    · simp only [h1, if_false] at hl
      by_cases h2 : k < k'
      · simp only [h2, if_true] at hl
        have := ihl (Ctx.left i k' v hh s r ctx0) mc' hl ⟨h2, hp⟩
          (by rw [eP] at kP vP pP hP sP rR; exact ⟨kP, vP, hP, sP, pP, eP, rR, hc⟩)
          (by rw [eP] at rL; exact rL)
        obtain ⟨ctx, a1, a2, a3, a4, a5⟩ := this
        exact ⟨ctx, a1, a2, a3, a4, a5⟩
      · simp only [h2, if_false] at hl; cases hl

/-! ### the prev/next threading of the private insert -/

/-- **The threading of the new item into the prev/next list** (`Item* insertPos = cell == &parent->right ? parent->next :
    parent; if((item->prev = insertPos->prev)) insertPos->prev->next = item; else _begin.item = item; item->next =
    insertPos; insertPos->prev = item;`) of the current headers is the model's `threadIn`: a heap that threads `order`
    from `_begin.item` to the sentinel (all `next` and `prev` links, `DList`) threads
    `threadIn order x (some (pid, right))` afterwards — the new item directly behind its parent (right cell) or directly
    in front of it (left cell), `_begin.item` moved when it becomes the first — and no tree field changes. -/
theorem gen_insert_thread_eq_model (multi : Bool) (h : Heap) (order : List Nat) (pid x : Nat) (right : Bool)
    (hd : DList h h.beginItem 0 order) (hpid : pid ∈ order) (hnd : order.Nodup) (hx : x ∉ order)
    (he : ∀ j ∈ order, j + 1 ≠ h.endItem) (hxe : x + 1 ≠ h.endItem) :
    let h' := (if multi then Multi.insertThread else Map.insertThread) h (cellOf (some (pid, right))) (pid + 1) (x + 1)
    DList h' h'.beginItem 0 (threadIn order x (some (pid, right))) ∧
    h'.key = h.key ∧ h'.value = h.value ∧ h'.parent = h.parent ∧ h'.left = h.left ∧ h'.right = h.right ∧
    h'.height = h.height ∧ h'.slope = h.slope ∧ h'.root = h.root := by
  have e : (if multi then Multi.insertThread else Map.insertThread) = Map.insertThread := by
    cases multi
    · rfl
    · simp only [if_true, multi_insertThread]
  rw [e]
  refine ⟨insertThread_eq h order pid x right hd hpid hnd hx he hxe, ?_⟩
  have hX : x + 1 ≠ (if cellOf (some (pid, right)) = Cell.right (pid + 1) then h.next (pid + 1) else pid + 1) := by
    obtain ⟨pre, post, e⟩ := List.append_of_mem hpid
    subst e
    obtain ⟨pvp, dp⟩ := dlist_at (pid :: post) pre _ _ hd
    have hnext : h.next (pid + 1) = headPtr h post := (dlist_head dp.2.2).1
    cases right
    · simp only [cellOf]; intro e2; exact hx (by simp at e2; simp; omega)
    · simp only [cellOf, if_true, hnext]
      cases post with
      | nil => exact hxe
      | cons j js => simp only [headPtr]; intro e2; exact hx (by simp; omega)
  exact (insertThread_spliced h _ _ _ hX).2.2

/-! ### the neighbour tests of the hinted insert -/

/-- the model's `St.insertAt` is the decision `hintGo` (which neighbour tests succeed, with how many comparisons)
    followed by the private insert in the chosen cell / the replacement of the hint's value -/
theorem insertAt_is_hintGo (s : St) (p : Nat) (k v : Int) :
    s.insertAt p k v = (hintGo s.multi s.t.inorder s.size p k).map (fun g =>
      match g with
      | .under right idx hid c0 => s.insertUnder right idx hid k v c0
      | .root c0 => s.insertRoot k v c0
      | .replace idx => ({ s with t := setAt v idx s.t }, ⟨.it idx, 2⟩)) :=
  insertAt_eq_hintGo s p k v

/-- **`Map::insert(position, key, value)`** of the current Map.hpp, up to the call of the private insert: with the
    entries `es` threaded in the heap (`DList`, keys) and the hint at in-order position `p` (`p = length`: `end()`),
    the code starts the private insert in exactly the cell the model's decision names — under the hint on the left /
    right, under the last item, or at the root — or replaces the hint's value, after exactly the model's number of
    key comparisons (all four neighbour cases of Map.hpp:125-155 and their fall-backs). -/
theorem gen_insert_hint_map_eq_model (h : Heap) (es : List (Nat × Int × Int)) (p : Nat) (k v : Int) (c : Nat)
    (hd : DList h h.beginItem 0 (es.map (fun e => e.1))) (hk : ∀ e ∈ es, h.key (e.1 + 1) = e.2.1)
    (he : ∀ e ∈ es, e.1 + 1 ≠ h.endItem) (hp : p ≤ es.length) :
    Map.insertHint h c (headPtr h ((es.drop p).map (fun e => e.1))) k v =
      (match hintGo false es es.length p k with
        | some (.under right _ hid c0) => (h, 1, hid + 1, cellOf (some (hid, right)), c + c0)
        | some (.root c0) => (h, 1, 0, Cell.root, c + c0)
        | some (.replace _) => (h.setValue (headPtr h ((es.drop p).map (fun e => e.1))) v, 0,
            headPtr h ((es.drop p).map (fun e => e.1)), Cell.root, c + 2)
        | none => (h, 1, 0, Cell.root, c)) :=
  map_insertHint_eq h es p k v c hd hk he hp

/-- **`MultiMap::insert(position, key, value)`** of the current MultiMap.hpp (`>=` / `<=` towards the neighbours). -/
theorem gen_insert_hint_multi_eq_model (h : Heap) (es : List (Nat × Int × Int)) (p : Nat) (k v : Int) (c : Nat)
    (hd : DList h h.beginItem 0 (es.map (fun e => e.1))) (hk : ∀ e ∈ es, h.key (e.1 + 1) = e.2.1)
    (he : ∀ e ∈ es, e.1 + 1 ≠ h.endItem) (hp : p ≤ es.length) :
    Multi.insertHint h c (headPtr h ((es.drop p).map (fun e => e.1))) k v =
      (match hintGo true es es.length p k with
        | some (.under right _ hid c0) => (1, hid + 1, cellOf (some (hid, right)), c + c0)
        | some (.root c0) => (1, 0, Cell.root, c + c0)
        | _ => (1, 0, Cell.root, c)) :=
  multi_insertHint_eq h es p k v c hd hk he hp

/-! ### non-vacuity: a concrete heap -/

/-- items 0,1,2 (pointers 1,2,3) form the left-leaning chain 5 ← 3 ← 1 hanging in `root` -/
def sampleHeap : Heap where
  key := fun p => if p = 1 then 5 else if p = 2 then 3 else 1
  value := fun p => if p = 1 then 50 else if p = 2 then 30 else 10
  parent := fun p => if p = 1 then 0 else if p = 2 then 1 else 2
  left := fun p => if p = 1 then 2 else if p = 2 then 3 else 0
  right := fun _ => 0
  height := fun p => if p = 1 then 3 else if p = 2 then 2 else 1
  slope := fun p => if p = 1 then 2 else if p = 2 then 1 else 0
  root := 1
  next := fun p => if p = 3 then 2 else if p = 2 then 1 else 99
  prev := fun p => if p = 99 then 1 else if p = 1 then 2 else if p = 2 then 3 else 0
  endItem := 99
  beginItem := 3

def sampleTree : Tree := node 0 5 50 3 2 (node 1 3 30 2 1 (node 2 1 10 1 0 nil nil) nil) nil

example : Repr sampleHeap (sampleHeap.get .root) 0 sampleTree := by
  simp [Repr, sampleTree, sampleHeap, Heap.get]
example : CellAt .root 0 ∧ Sep 0 sampleTree ∧ RebalOk sampleTree := by
  refine ⟨by simp [CellAt], by simp [Sep, sampleTree, ids], ?_⟩
  simp only [sampleTree, RebalOk]
  exact ⟨fun _ => ⟨1, 3, 30, 2, 1, _, _, rfl, by decide⟩, fun h => absurd h (by decide)⟩
/-- the translated `rebal` of both headers rotates the chain: new root is item 1 (pointer 2) with children 2 and 0 -/
example : ((code false).rebal sampleHeap 1).2 = 2 ∧ ((code true).rebal sampleHeap 1).1.root = 2 ∧
    ((code false).rebal sampleHeap 1).1.left 2 = 3 ∧ ((code false).rebal sampleHeap 1).1.right 2 = 1 ∧
    ((code false).rebal sampleHeap 1).1.parent 1 = 2 ∧ ((code false).rebal sampleHeap 1).1.height 1 = 1 ∧
    ((code false).rebal sampleHeap 1).1.height 2 = 2 ∧ ((code false).rebal sampleHeap 1).1.slope 2 = 0 := by
  decide
/-- the translated `find` of both headers on the sample heap: key 3 is item 1 (pointer 2) after `>`,`<` at the root and
    `>`,`<` at item 1 — 4 comparisons; key 4 is not there: `_end` (pointer 99) after 3 comparisons; two units of fuel are not enough -/
example : Map.find 4 sampleHeap 0 3 = some (2, 4) ∧ Map.find 4 sampleHeap 0 4 = some (99, 3) ∧
    Multi.find 4 sampleHeap 0 3 = some (2, 5) ∧ Map.find 2 sampleHeap 0 4 = none := by decide
example : Repr sampleHeap sampleHeap.root 0 sampleTree ∧ sampleTree.height < 4 ∧ Tree.findCmps 3 sampleTree = 4 := by
  refine ⟨by simp [Repr, sampleTree, sampleHeap], by decide, by decide⟩
/-- the sample heap threads its three items 1 → 3 → 5 to the sentinel; `count` of the translated MultiMap code -/
example : NextRepr sampleHeap 3 sampleTree.inorder := by simp [NextRepr, sampleTree, sampleHeap]
example : Multi.count 5 sampleHeap 0 3 = some (1, 6) := by decide
/-- the sample heap threads its items 2, 1, 0 (keys 1, 3, 5) in both directions; threading a new item 7 into the right
    cell of item 1 puts it between items 1 and 0 -/
example : DList sampleHeap sampleHeap.beginItem 0 [2, 1, 0] := by simp [DList, sampleHeap]
example : threadIn [2, 1, 0] 7 (some (1, true)) = [2, 1, 7, 0] := by decide
example : (Map.insertThread sampleHeap (Cell.right 2) 2 8).next 2 = 8 ∧ (Map.insertThread sampleHeap (Cell.right 2) 2 8).next 8 = 1 ∧
    (Map.insertThread sampleHeap (Cell.right 2) 2 8).prev 1 = 8 ∧ (Map.insertThread sampleHeap (Cell.right 2) 2 8).prev 8 = 2 := by
  decide
example : Tree.rebal sampleTree = node 1 3 30 2 0 (node 2 1 10 1 0 nil nil) (node 0 5 50 1 0 nil nil) := by decide

end Nstd.Avl
