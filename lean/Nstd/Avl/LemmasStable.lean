import Nstd.Avl.LemmasCost
/-
  Items never change identity while they live (the Map/MultiMap part of "elements never move"):
  after any op every item of the tree is still in the tree with the same id and key — its value
  changes only when a Map insert assigns to its key — or the op is a removal designating exactly
  this item (or `clear`) and its id has been released to the free list.
-/
namespace Nstd.Avl
open Tree

/-- `op`, executed in state `s`, is a removal that designates the item `e` -/
def Removes (s : St) (op : Op) (e : E) : Prop :=
  match op with
  | .removeAt p => s.t.inorder[p]? = some e
  | .removeFront => s.t.inorder[0]? = some e
  | .removeBack => s.t.inorder[s.size - 1]? = some e
  | .removeKey k => ∃ p, s.findIdx k = some p ∧ s.t.inorder[p]? = some e
  | .clear => True
  | _ => False

/-- what may happen to the item `e` of state `s` during `op` producing state `s'`: it stays as it is;
    or (Map only) it stays with the same id and key and gets the value a (hinted) insert of its key
    assigns; or `op` is a removal designating exactly this item (or `clear`) and its id goes to the
    free list.  In particular no insert, lookup or rebalancing ever releases or re-creates an item. -/
def Survives (s : St) (op : Op) (s' : St) (e : E) : Prop :=
  e ∈ s'.t.inorder ∨
  (s.multi = false ∧ ∃ v, (e.1, e.2.1, v) ∈ s'.t.inorder ∧
      (op = .insert e.2.1 v ∨ ∃ p, op = .insertAt p e.2.1 v)) ∨
  (e.1 ∈ s'.free ∧ Removes s op e)

theorem mem_insList_old (id : Nat) (k v : Int) (es : List E) (e : E) (he : e ∈ es) :
    e ∈ insList id k v es ∨ (e.2.1 = k ∧ (e.1, e.2.1, v) ∈ insList id k v es) := by
  induction es with
  | nil => simp at he
  | cons a as ih =>
    simp only [insList]
    by_cases h1 : k < a.2.1
    · rw [if_pos h1]; left; simp [he]
    · by_cases h2 : k = a.2.1
      · rw [if_neg h1, if_pos h2]
        rcases List.mem_cons.mp he with rfl | he
        · right; exact ⟨h2.symm, by simp⟩
        · left; simp [he]
      · rw [if_neg h1, if_neg h2]
        rcases List.mem_cons.mp he with rfl | he
        · left; simp
        · rcases ih he with h | ⟨h3, h4⟩
          · left; simp [h]
          · right; exact ⟨h3, by simp [h4]⟩

theorem mem_insListM_old (id : Nat) (k v : Int) (es : List E) (e : E) (he : e ∈ es) :
    e ∈ insListM id k v es := by
  induction es with
  | nil => simp at he
  | cons a as ih =>
    simp only [insListM]
    split
    · simp [he]
    · rcases List.mem_cons.mp he with rfl | he
      · simp
      · simp [ih he]

theorem insertRoot_survives (s : St) (hI : InvT s) (k v : Int) (c0 : Nat) (e : E) (he : e ∈ s.t.inorder) :
    e ∈ (s.insertRoot k v c0).1.t.inorder ∨
      (s.multi = false ∧ e.2.1 = k ∧ (e.1, e.2.1, v) ∈ (s.insertRoot k v c0).1.t.inorder) := by
  obtain ⟨id, ht, _, _, _⟩ := insertRoot_t s k v c0
  rw [ht]
  cases hm : s.multi with
  | false =>
    simp only [St.insSub, hm, Bool.false_eq_true, if_false]
    rw [ins_inorder id k v s.t (hI.sortedS hm)]
    rcases mem_insList_old id k v _ e he with h | ⟨h1, h2⟩
    · left; exact h
    · right; exact ⟨trivial, h1, h2⟩
  | true =>
    simp only [St.insSub, hm, if_true]
    rw [insM_inorder id k v s.t hI.sortedW]
    left; exact mem_insListM_old id k v _ e he

theorem removeAt_survives (s : St) (hI : InvT s) (hO : InvO s) (p c0 : Nat) (r : St × Out)
    (h : s.removeAt p c0 = some r) (e : E) (he : e ∈ s.t.inorder) :
    e ∈ r.1.t.inorder ∨ (e.1 ∈ r.1.free ∧ s.t.inorder[p]? = some e) := by
  unfold St.removeAt at h
  cases ho : s.order[p]? with
  | none => rw [ho] at h; simp at h
  | some id =>
    rw [ho] at h
    simp only [Option.some.injEq] at h
    subst h
    have hp : p < s.order.length := (List.getElem?_eq_some_iff.mp ho).1
    have hidx : p < s.t.size := by rw [← hI.size, ← hI.olen]; exact hp
    obtain ⟨_, d2, _, _⟩ := delIdx_spec s.t hI.avl p hidx
    simp only
    rw [d2]
    have hpl : p < s.t.inorder.length := by rw [← size_eq_length]; exact hidx
    obtain ⟨j, hj, rfl⟩ := List.getElem_of_mem he
    by_cases hjp : j = p
    · right
      subst hjp
      have : s.order[j]? = some (s.t.inorder[j]).1 := by
        rw [hO.order]; simp [ids, List.getElem?_eq_getElem hj]
      rw [this] at ho
      simp only [Option.some.injEq] at ho
      exact ⟨by simp [ho], List.getElem?_eq_getElem hj⟩
    · left
      rw [List.mem_iff_getElem]
      by_cases hlt : j < p
      · exact ⟨j, by rw [List.length_eraseIdx]; simp [hpl]; omega, by rw [List.getElem_eraseIdx_of_lt _ hlt]⟩
      · have hge : p ≤ j - 1 := by omega
        refine ⟨j - 1, by rw [List.length_eraseIdx]; simp [hpl]; omega, ?_⟩
        rw [List.getElem_eraseIdx_of_ge _ hge]
        congr 1; omega

theorem step_survives (s : St) (hI : InvT s) (hO : InvO s) (op : Op) (r : St × Out) (h : step s op = some r)
    (e : E) (he : e ∈ s.t.inorder) : Survives s op r.1 e := by
  unfold Survives
  cases op with
  | insert k v =>
    simp only [step, Option.some.injEq] at h; subst h
    rcases insertRoot_survives s hI k v 0 e he with h | ⟨h1, h2, h3⟩
    · left; exact h
    · right; left; exact ⟨h1, v, h3, Or.inl (by rw [h2])⟩
  | insertAt p k v =>
    simp only [step] at h
    split at h
    · rename_i hp
      cases hm : s.multi with
      | false =>
        obtain ⟨r', c, h1, h2, _⟩ := insertAt_map_state s hI hm p k v hp
        rw [h1] at h; simp only [Option.some.injEq] at h; subst h
        rw [h2]
        rcases insertRoot_survives s hI k v c e he with h | ⟨_, h2', h3⟩
        · left; exact h
        · right; left; exact ⟨rfl, v, h3, Or.inr ⟨p, by rw [h2']⟩⟩
      | true =>
        obtain ⟨r', h1, h2⟩ := insertAt_multi_cases s hI hm p k v hp
        rw [h1] at h; simp only [Option.some.injEq] at h; subst h
        rcases h2 with ⟨c, h2, _⟩ | ⟨hi, hk, hv, ni, nv, c, g1, g2, g3, g4⟩
        · rw [h2]
          rcases insertRoot_survives s hI k v c e he with h | ⟨h0, _, _⟩
          · left; exact h
          · rw [hm] at h0; simp at h0
        · subst g4
          left
          have hidx : p < s.t.size := by rw [size_eq_length]; exact (List.getElem?_eq_some_iff.mp g1).1
          obtain ⟨f1, _, _, _⟩ := insertUnder_multi_fields s hm true p hi k v c
          obtain ⟨A, B, e1, e2, e3⟩ := insAt_right_split (insM s.alloc.1 k v) p s.t hidx
          rw [f1, e3]
          rw [e1] at he
          simp only [List.mem_append] at he ⊢
          rcases he with (he | he) | he
          · left; left; exact he
          · left; right
            rcases List.mem_iff_append.mp he with ⟨_, _, _⟩
            have hs : SortedW (subAt true p s.t).inorder := by
              have : (subAt true p s.t).inorder.Sublist s.t.inorder := by
                rw [e1]; exact (List.sublist_append_right A _).trans (List.sublist_append_left _ B)
              exact List.Pairwise.sublist this hI.sortedW
            rw [insM_inorder _ k v _ hs]
            exact mem_insListM_old _ k v _ e he
          · right; exact he
    · simp at h
  | removeKey k =>
    simp only [step] at h
    cases hf : s.findIdx k with
    | none => rw [hf] at h; simp only [Option.some.injEq] at h; subst h; left; exact he
    | some p =>
      rw [hf] at h
      simp only at h
      cases hr : s.removeAt p (s.findCmps k) with
      | none => rw [hr] at h; simp at h
      | some r' =>
        rw [hr] at h; simp only [Option.map_some, Option.some.injEq] at h; subst h
        rcases removeAt_survives s hI hO _ _ r' hr e he with h | h
        · left; exact h
        · right; right; exact ⟨h.1, p, hf, h.2⟩
  | removeAt p =>
    simp only [step] at h
    rcases removeAt_survives s hI hO _ _ r h e he with h | h
    · left; exact h
    · right; right; exact h
  | removeFront =>
    simp only [step] at h
    rcases removeAt_survives s hI hO _ _ r h e he with h | h
    · left; exact h
    · right; right; exact h
  | removeBack =>
    simp only [step] at h
    split at h
    · simp at h
    · rcases removeAt_survives s hI hO _ _ r h e he with h | h
      · left; exact h
      · right; right; exact h
  | clear =>
    simp only [step, Option.some.injEq] at h; subst h
    right; right
    refine ⟨?_, trivial⟩
    simp only [List.mem_append, List.mem_reverse]
    left
    rw [hO.order]
    exact List.mem_map_of_mem he
  | find k => simp only [step, Option.some.injEq] at h; subst h; left; exact he
  | contains k => simp only [step, Option.some.injEq] at h; subst h; left; exact he
  | count k =>
    simp only [step] at h
    split at h
    · split at h <;> (simp only [Option.some.injEq] at h; subst h; left; exact he)
    · simp at h
  | front =>
    simp only [step] at h
    split at h
    · simp only [Option.some.injEq] at h; subst h; left; exact he
    · simp at h
  | back =>
    simp only [step] at h
    split at h
    · simp only [Option.some.injEq] at h; subst h; left; exact he
    · simp at h

end Nstd.Avl
