import Nstd.Avl.LemmasHeapRemove14
/-
  Property C01 — tie by translation, composed (continued): `remove(it)` for EVERY item, `remove(key)` without restriction.

  The two-children paths of the generated `remove` (successor iff `left->height < right->height`, neighbour adjacent or
  deeper, the relinking stores, the `rebalParent:` loop `removeRebal` with its `parent = *cell` exit, `rebalParentUpwards`, the
  tail) are the model's `removeRoot` / `popMin` / `popMax` / `delIdx`:
  * `spine_min` / `spine_max`: the in-order neighbour is the hole of a context `a` of left (right) frames inside the right (left)
    subtree, `popMin` (`popMax`) is the climb of `a`; by the list representation it is `item->next` (`item->prev`);
  * `unlink_left/right`, `swap_right/left`, `swap_adj_right/left`: after the relinking stores the heap holds the replacement
    as the frame `B` in the cell of the removed item and `a` below it;
  * `loop_spec` (`LoopSpec a B`): the `rebalParent` loop climbs `a` like the model (`goL`/`goR`/`fixup`, early exit) and ALWAYS
    re-updates and rebalances the replacement — in its last regular turn, or through the `parent = *cell` exit (where a second
    `update + rebal` of an item that is up to date changes nothing: `redo_step`) — exactly the model's unconditional
    `rebal (upd …)` in `removeRoot`;
  * `remove_finish_two`: `rebalParentUpwards` from the parent of the cell = the model's `ctx.climb (removeRoot …, true)`, then the tail.
-/
namespace Nstd.Avl
open Tree
open Nstd.Avl.Heap
open Nstd.Generated.AvlRot

/-- **`remove(it)`, complete, for every item, by translation** (Map.hpp): for every reachable state `s`, every heap that
    represents it and every position `p < size`, the translated `remove` of the current header, run with `height + 1` units
    of fuel, terminates and leaves a heap that represents the model's `step s (removeAt p)` — tree with every stored field
    and link, prev/next list, `_size`, free list — and returns the item now at position `p` (or the sentinel). -/
theorem gen_remove_map_eq_step (multi : Bool) (s : St) (h : Heap) (p fuel : Nat)
    (hreach : Reach multi s) (hr : ReprSt h s) (hp : p < s.size) (hf : s.t.height < fuel) :
    ∃ s' out, step s (.removeAt p) = some (s', out) ∧ out.ret = .it p ∧
    ∃ h' ptr, Map.remove fuel h (headPtr h (s.order.drop p)) = some (h', ptr) ∧ ReprSt h' s' ∧
      h'.endItem = h.endItem ∧ ptr = headPtr h' (s'.order.drop p) := by
  by_cases htriv : Tree.subAt false p s.t = .nil ∨ Tree.subAt true p s.t = .nil
  · exact gen_remove_trivial_map_eq_step multi s h p fuel hreach hr hp hf htriv
  · obtain ⟨hT, hO, hm⟩ := invs_reach hreach
    have hps : p < s.t.size := by rw [← hT.size]; exact hp
    obtain ⟨ctx, i, k, v, hh, sl, l, r, a1, a2, a3, a4, a5, a6, a7, a8⟩ := ctx_of_pos h s.t .top p hps trivial hr.tree
    simp only [Ctx.plug, Ctx.pos, Ctx.depth, Nat.zero_add] at a1 a5 a8
    rw [a6, a7] at htriv
    have hl : l ≠ .nil := fun e => htriv (Or.inl e)
    have hrn : r ≠ .nil := fun e => htriv (Or.inr e)
    have hpl : p < s.order.length := by rw [hT.olen]; exact hp
    have hoi : s.order[p]? = some i := by rw [hO.order]; exact a4
    have hdrop : headPtr h (s.order.drop p) = i + 1 := by
      have hgi : s.order[p] = i := by
        have := List.getElem?_eq_getElem hpl; rw [hoi] at this; exact (Option.some.inj this).symm
      rw [← List.getElem_cons_drop_succ_eq_drop hpl, hgi]; rfl
    rw [hdrop]
    by_cases hlt : l.ht < r.ht
    · exact gen_remove_succ_map multi s h p fuel hreach hr hp hf ctx i k v hh sl l r a1 a2 a3 a4 a5 a8 hl hrn hlt
    · exact gen_remove_pred_map multi s h p fuel hreach hr hp hf ctx i k v hh sl l r a1 a2 a3 a4 a5 a8 hl hrn hlt

/-- **`remove(it)` of both containers, for every item** (the MultiMap.hpp copy of `remove` equals the Map.hpp one: `multi_remove`). -/
theorem gen_remove_eq_step (multi : Bool) (s : St) (h : Heap) (p fuel : Nat)
    (hreach : Reach multi s) (hr : ReprSt h s) (hp : p < s.size) (hf : s.t.height < fuel) :
    ∃ s' out, step s (.removeAt p) = some (s', out) ∧ out.ret = .it p ∧
    ∃ h' ptr, removeCode multi fuel h (headPtr h (s.order.drop p)) = some (h', ptr) ∧ ReprSt h' s' ∧
      h'.endItem = h.endItem ∧ ptr = headPtr h' (s'.order.drop p) := by
  have := gen_remove_map_eq_step multi s h p fuel hreach hr hp hf
  cases multi with
  | false => exact this
  | true => simp only [removeCode, if_true, multi_remove]; exact this

/-- **`remove(key)`, complete, by translation**: `find` + `remove(it)` = the model's `step s (removeKey k)`, with `find`'s number
    of key comparisons, for every key. -/
theorem gen_remove_key_eq_step (multi : Bool) (s : St) (h : Heap) (k : Int) (c fuel : Nat)
    (hreach : Reach multi s) (hr : ReprSt h s) (hf : s.t.height < fuel) :
    ∃ s' out, step s (.removeKey k) = some (s', out) ∧
    ∃ h', removeKeyCode multi fuel h c k = some (h', c + out.cmps) ∧ ReprSt h' s' ∧ h'.endItem = h.endItem := by
  obtain ⟨hT, hO, hm⟩ := invs_reach hreach
  obtain ⟨out, q, e1, e2, e3⟩ := gen_find_eq_step multi s h k c fuel hreach hr hf
  simp only [step, Option.some.injEq, Prod.mk.injEq, true_and] at e1
  subst e1
  simp only [Ret.it.injEq] at e2
  have hcode : removeKeyCode multi fuel h c k = (match findCode multi fuel h c k with
      | none => none
      | some (it, c') => if it ≠ h.endItem then (match removeCode multi fuel h it with
          | none => none | some (h', _) => some (h', c')) else some (h, c')) := by
    cases multi <;> rfl
  rw [hcode, e3]
  simp only
  cases hfi : s.findIdx k with
  | none =>
    rw [hfi] at e2; simp only [Option.getD_none] at e2
    have : s.order[q]? = none := by rw [← e2, List.getElem?_eq_none_iff, hT.olen]; exact Nat.le_refl _
    rw [this]
    simp only [ne_eq, not_true_eq_false, if_false]
    refine ⟨s, ⟨.none, s.findCmps k⟩, by simp only [step, hfi], h, rfl, hr, rfl⟩
  | some p =>
    rw [hfi] at e2; simp only [Option.getD_some] at e2
    subst e2
    have hp : p < s.size := by rw [hT.size]; exact st_findIdx_lt s k p hfi
    have hlt : p < s.order.length := by rw [hT.olen]; exact hp
    obtain ⟨s', out', t1, t2, h', ptr, t3, t4, t5, _⟩ := gen_remove_eq_step multi s h p fuel hreach hr hp hf
    have hdrop : headPtr h (s.order.drop p) = s.order[p] + 1 := by
      rw [← List.getElem_cons_drop_succ_eq_drop hlt]; rfl
    rw [hdrop] at t3
    rw [List.getElem?_eq_getElem hlt]
    have hne := hr.endSep s.order[p] (Or.inl (List.getElem_mem hlt))
    simp only [ne_eq, hne, not_false_eq_true, if_true, t3]
    simp only [step, St.removeAt, List.getElem?_eq_getElem hlt, Option.some.injEq, Prod.mk.injEq] at t1
    refine ⟨s', ⟨.none, s.findCmps k⟩, ?_, h', rfl, t4, t5⟩
    simp only [step, hfi, St.removeAt, List.getElem?_eq_getElem hlt, Option.map_some, ← t1.1]

/-- non-vacuity: 5, 3, 8, 7 inserted with the translated code; removing the root 5 (two children, heights 1 < 2) takes the
    successor path with the successor deeper in the right subtree; removing 3 from 3-5-8 … -/
example : ∃ h1 p1 h2 p2 h3 p3 h4 p4 h5 q, Map.insertPlain 5 emptyHeap 0 5 50 = some (h1, p1, 0) ∧
    Map.insertPlain 5 h1 0 3 30 = some (h2, p2, 2) ∧ Map.insertPlain 5 h2 0 8 80 = some (h3, p3, 1) ∧
    Map.insertPlain 5 h3 0 7 70 = some (h4, p4, 3) ∧ Map.remove 5 h4 p1 = some (h5, q) ∧
    q = p4 ∧ h5.root = p4 ∧ h5.left p4 = p2 ∧ h5.right p4 = p3 ∧ h5.left p3 = 0 ∧ h5.height p4 = 2 ∧ h5.size = 3 ∧
    h5.freeItem = p1 ∧ h5.next p2 = p4 ∧ h5.parent p3 = p4 :=
  ⟨_, _, _, _, _, _, _, _, _, _, rfl, rfl, rfl, rfl, rfl, rfl, rfl, rfl, rfl, rfl, rfl, rfl, rfl, rfl, rfl⟩

end Nstd.Avl
