import Nstd.Avl.LemmasHeapRemove9
/-
  Two-children removal: the two-children paths of the generated `remove` in normal form (`map_remove_succ_*`,
  `map_remove_pred_*`), small facts about plugged contexts.
-/
namespace Nstd.Avl
open Tree
open Nstd.Avl.Heap
open Nstd.Generated.AvlRot

theorem plug_ne_nil : ∀ (ctx : Ctx) (t : Tree), t ≠ .nil → ctx.plug t ≠ .nil := by
  intro ctx
  induction ctx with
  | top => intro t h; exact h
  | left i k v hh s r up ih => intro t _; exact ih _ (by simp)
  | right i k v hh s l up ih => intro t _; exact ih _ (by simp)

theorem height_plug_le : ∀ (ctx : Ctx) (t : Tree), t.height ≤ (ctx.plug t).height := by
  intro ctx
  induction ctx with
  | top => intro t; exact Nat.le_refl _
  | left i k v hh s r up ih =>
    intro t; refine Nat.le_trans ?_ (ih _); simp only [Tree.height]; omega
  | right i k v hh s l up ih =>
    intro t; refine Nat.le_trans ?_ (ih _); simp only [Tree.height]; omega

/-- what follows the relinking in the two-children paths: `rebalParent` loop, `rebalParentUpwards` loop, the tail -/
def afterRebal (fuel : Nat) (hB : Heap) (cell : Cell) (orig par item : Nat) : Option (Heap × Nat) :=
  match Map.removeRebal fuel hB cell orig par with
  | none => none
  | some (h2, p2) =>
    match Map.removeUpwards fuel h2 p2 with
    | none => none
    | some h3 => some (Map.removeTail h3 item)

/-- the cell computation at the head of `remove(it)` -/
def cellExpr (h : Heap) (it : Nat) : Cell :=
  if h.parent it ≠ 0 then (if h.left (h.parent it) = it then Cell.left (h.parent it) else Cell.right (h.parent it)) else Cell.root

theorem map_remove_succ_adj (fuel : Nat) (h : Heap) (it : Nat) (hl : h.left it ≠ 0) (hr : h.right it ≠ 0)
    (hh : h.height (h.left it) < h.height (h.right it)) (hadj : h.parent (h.next it) = it) :
    Map.remove fuel h it = afterRebal fuel
      ((((h.set (cellExpr h it) (h.next it)).setParent (h.next it) (h.parent it)).setLeft (h.next it) (h.left it)).setParent
        (h.left it) (h.next it)) (cellExpr h it) (h.parent it) (h.next it) it := by
  unfold Map.remove afterRebal cellExpr
  simp only [if_pos hl, if_pos hr, if_pos hh, if_pos hadj]
  rfl

theorem map_remove_succ_deep (fuel : Nat) (h : Heap) (it : Nat) (hl : h.left it ≠ 0) (hr : h.right it ≠ 0)
    (hh : h.height (h.left it) < h.height (h.right it)) (hdeep : h.parent (h.next it) ≠ it) :
    Map.remove fuel h it = afterRebal fuel
      (((((((if h.right (h.next it) ≠ 0 then (h.setLeft (h.parent (h.next it)) (h.right (h.next it))).setParent (h.right (h.next it)) (h.parent (h.next it))
              else h.setLeft (h.parent (h.next it)) (h.right (h.next it))).set (cellExpr h it) (h.next it)).setParent (h.next it)
          (h.parent it)).setLeft (h.next it) (h.left it)).setParent (h.left it) (h.next it)).setRight (h.next it) (h.right it)).setParent
          (h.right it) (h.next it))
      (cellExpr h it) (h.parent it) (h.parent (h.next it)) it := by
  unfold Map.remove afterRebal cellExpr
  simp only [if_pos hl, if_pos hr, if_pos hh, if_neg hdeep]
  by_cases h0 : h.right (h.next it) ≠ 0
  · simp only [if_pos h0]; rfl
  · simp only [if_neg h0]; rfl

theorem map_remove_pred_adj (fuel : Nat) (h : Heap) (it : Nat) (hl : h.left it ≠ 0) (hr : h.right it ≠ 0)
    (hh : ¬ h.height (h.left it) < h.height (h.right it)) (hadj : h.parent (h.prev it) = it) :
    Map.remove fuel h it = afterRebal fuel
      ((((h.set (cellExpr h it) (h.prev it)).setParent (h.prev it) (h.parent it)).setRight (h.prev it) (h.right it)).setParent
        (h.right it) (h.prev it)) (cellExpr h it) (h.parent it) (h.prev it) it := by
  unfold Map.remove afterRebal cellExpr
  simp only [if_pos hl, if_pos hr, if_neg hh, if_pos hadj]
  rfl

theorem map_remove_pred_deep (fuel : Nat) (h : Heap) (it : Nat) (hl : h.left it ≠ 0) (hr : h.right it ≠ 0)
    (hh : ¬ h.height (h.left it) < h.height (h.right it)) (hdeep : h.parent (h.prev it) ≠ it) :
    Map.remove fuel h it = afterRebal fuel
      (((((((if h.left (h.prev it) ≠ 0 then (h.setRight (h.parent (h.prev it)) (h.left (h.prev it))).setParent (h.left (h.prev it)) (h.parent (h.prev it))
              else h.setRight (h.parent (h.prev it)) (h.left (h.prev it))).set (cellExpr h it) (h.prev it)).setParent (h.prev it)
          (h.parent it)).setRight (h.prev it) (h.right it)).setParent (h.right it) (h.prev it)).setLeft (h.prev it) (h.left it)).setParent
          (h.left it) (h.prev it))
      (cellExpr h it) (h.parent it) (h.parent (h.prev it)) it := by
  unfold Map.remove afterRebal cellExpr
  simp only [if_pos hl, if_pos hr, if_neg hh, if_neg hdeep]
  by_cases h0 : h.left (h.prev it) ≠ 0
  · simp only [if_pos h0]; rfl
  · simp only [if_neg h0]; rfl

end Nstd.Avl
