import Nstd.Avl.LemmasBulk
import Nstd.Avl.LemmasHeight
/-
  The property statements for an arbitrary state that satisfies the invariants (used by
  Props.lean for states reached by histories of one container and for states reached through
  copies / bulk inserts between containers).
-/
namespace Nstd.Avl
open Tree

/-- an op covered by the deterministic part of the specification: everything except the hinted
    insert of a MultiMap (whose position inside a run of equal keys the code leaves to the tree shape) -/
def Op.det (multi : Bool) : Op → Bool
  | .insertAt _ _ _ => !multi
  | _ => true

/-- the observable outcome of a step: `none` = rejected, else (contents after, returned value) -/
def outcome (s : St) (op : Op) : Option (List Spec.KV × Ret) :=
  (step s op).map (fun r => (abs r.1, r.2.ret))

/-- `H = ⌊1.4405·log2(n+2)⌋`, characterised without reals -/
def IsLogBound (n H : Nat) : Prop :=
  2 ^ (10000 * H) ≤ (n + 2) ^ 14405 ∧ (n + 2) ^ 14405 < 2 ^ (10000 * (H + 1))

theorem g_refines_step (multi : Bool) (s : St) (hI : InvT s) (hO : InvO s) (hm : s.multi = multi) (op : Op) (hd : op.det multi = true) :
    match step s op with
    | some r => ∃ xs' ret, Spec.stepF multi (abs s) op = some (xs', ret) ∧ abs r.1 = xs' ∧
                  r.2.ret = ret
    | none => Spec.stepF multi (abs s) op = none := by
  have h := hI
  have := step_full s h hO op (by
    intro p k v ⟨h1, h2⟩
    rw [hm] at h1; subst h1; subst h2
    simp [Op.det] at hd)
  rw [hm] at this
  exact this

theorem g_refines_hint_multi (s : St) (hI : InvT s) (hO : InvO s) (hm : s.multi = true) (p : Nat) (k v : Int) (hp : p ≤ s.size) :
    ∃ r q, step s (.insertAt p k v) = some r ∧
      abs r.1 = (abs s).take q ++ (k, v) :: (abs s).drop q ∧
      Spec.HintPos (abs s) p k q ∧ r.2.ret = .it q := by
  have h := hI
  obtain ⟨r, q, h1, h2, h3, h4⟩ := insertAt_multi_spec _ h hO hm p k v hp
  exact ⟨r, q, by simp only [step, hp, if_true]; exact h1, h2, h3, h4⟩

theorem g_refines_rel (multi : Bool) (s : St) (hI : InvT s) (hO : InvO s) (hm : s.multi = multi) (op : Op) :
    Spec.Step multi (abs s) op (outcome s op) := by
  have h := hI
  cases hd : op.det multi with
  | true =>
    have hdet : ∀ p k v, ¬ (multi = true ∧ op = .insertAt p k v) := by
      intro p k v ⟨h1, h2⟩; subst h1; subst h2; simp [Op.det] at hd
    have := g_refines_step multi s hI hO hm op hd
    have e : outcome s op = Spec.stepF multi (abs s) op := by
      unfold outcome
      cases hs : step s op with
      | none => rw [hs] at this; simp only at this; rw [this]; rfl
      | some r =>
        rw [hs] at this
        obtain ⟨xs', ret, h1, h2, h3⟩ := this
        rw [h1, ← h2, ← h3]; rfl
    rw [e]; exact Spec.Step.det op hdet
  | false =>
    cases op with
    | insertAt p k v =>
      have hmt : multi = true := by cases multi <;> simp [Op.det] at hd ⊢
      subst hmt
      have hlen := abs_length _ h
      by_cases hp : p ≤ s.size
      · obtain ⟨r, q, h1, h2, h3, h4⟩ := g_refines_hint_multi s hI hO hm p k v hp
        have e : outcome s (.insertAt p k v)
            = some ((abs s).take q ++ (k, v) :: (abs s).drop q, .it q) := by
          unfold outcome; rw [h1]; simp only [Option.map_some]; rw [h2, h4]
        rw [e]; exact Spec.Step.hint p k v q rfl (by omega) h3
      · have e : outcome s (.insertAt p k v) = none := by
          unfold outcome; simp only [step, hp, if_false, Option.map_none]
        rw [e]; exact Spec.Step.hintReject p k v rfl (by omega)
    | insert k v => simp [Op.det] at hd
    | removeKey k => simp [Op.det] at hd
    | removeAt p => simp [Op.det] at hd
    | removeFront => simp [Op.det] at hd
    | removeBack => simp [Op.det] at hd
    | clear => simp [Op.det] at hd
    | find k => simp [Op.det] at hd
    | contains k => simp [Op.det] at hd
    | count k => simp [Op.det] at hd
    | front => simp [Op.det] at hd
    | back => simp [Op.det] at hd

theorem g_find_cost (multi : Bool) (s : St) (hI : InvT s) (hO : InvO s) (hm : s.multi = multi) (k : Int) :
    s.findCmps k ≤ 2 * s.t.height := by
  unfold St.findCmps
  split
  · exact findMCmps_le k _
  · exact findCmps_le k _

theorem g_height_log (multi : Bool) (s : St) (hI : InvT s) (hO : InvO s) (hm : s.multi = multi) :
    2 ^ (10000 * s.t.height) ≤ (s.size + 2) ^ 14405 := by
  have h := hI
  rw [h.size]
  exact Tree.height_log _ h.avl

theorem g_find_cost_log (multi : Bool) (s : St) (hI : InvT s) (hO : InvO s) (hm : s.multi = multi) (k : Int) (H : Nat)
    (hH : IsLogBound s.size H) : s.findCmps k ≤ 2 * H := by
  have h1 := g_find_cost multi s hI hO hm k
  have h2 := g_height_log multi s hI hO hm
  have h3 : 2 ^ (10000 * s.t.height) < 2 ^ (10000 * (H + 1)) := Nat.lt_of_le_of_lt h2 hH.2
  have h4 := (Nat.pow_lt_pow_iff_right (by omega : 1 < 2)).mp h3
  omega

theorem g_count_correct (s : St) (hI : InvT s) (hO : InvO s) (hm : s.multi = true) (k : Int) :
    ∃ r, step s (.count k) = some r ∧ r.2.ret = .num (Spec.count k (abs s)) ∧
      r.1 = s := by
  have := g_refines_step true s hI hO hm (.count k) rfl
  cases h : step s (.count k) with
  | none => rw [h] at this; simp [Spec.stepF] at this
  | some r =>
    rw [h] at this
    obtain ⟨xs', ret, h1, h2, h3⟩ := this
    simp only [Spec.stepF, if_true, Option.some.injEq, Prod.mk.injEq] at h1
    refine ⟨r, rfl, ?_, ?_⟩
    · rw [h3, ← h1.2]
    · simp only [step, hm, if_true] at h
      split at h <;> (simp only [Option.some.injEq] at h; rw [← h])

theorem invT_run (multi : Bool) (ops : List Op) : InvT (run multi ops) ∧ (run multi ops).multi = multi := by
  unfold run
  suffices h : ∀ s, InvT s → InvT (ops.foldl step' s) ∧ (ops.foldl step' s).multi = s.multi from
    h _ (invT_init multi)
  induction ops with
  | nil => intro s hs; exact ⟨hs, rfl⟩
  | cons op ops ih =>
    intro s hs
    simp only [List.foldl_cons]
    have : InvT (step' s op) ∧ (step' s op).multi = s.multi := by
      unfold step'
      cases h : step s op with
      | none => exact ⟨hs, rfl⟩
      | some r => exact step_invT s hs op r h
    obtain ⟨h1, h2⟩ := ih _ this.1
    exact ⟨h1, by rw [h2, this.2]⟩

theorem invO_run (multi : Bool) (ops : List Op) : InvO (run multi ops) := by
  unfold run
  suffices h : ∀ s, InvT s → InvO s → InvO (ops.foldl step' s) from h _ (invT_init multi) (invO_init multi)
  induction ops with
  | nil => intro s _ hs; exact hs
  | cons op ops ih =>
    intro s hI hO
    simp only [List.foldl_cons]
    have : InvT (step' s op) ∧ InvO (step' s op) := by
      unfold step'
      cases h : step s op with
      | none => exact ⟨hI, hO⟩
      | some r => exact ⟨(step_invT s hI op r h).1, step_invO s hI hO op r h⟩
    exact ih _ this.1 this.2

end Nstd.Avl
