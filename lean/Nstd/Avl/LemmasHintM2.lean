import Nstd.Avl.LemmasRun5
/-
  MultiMap hinted insert refines the relational specification `Spec.HintPos`.
-/
namespace Nstd.Avl
open Tree

/-! ### positions in sorted key/value lists -/

def SortedKV (xs : List Spec.KV) : Prop := xs.Pairwise (fun a b => a.1 ≤ b.1)

theorem kv_sorted {es : List E} (h : SortedW es) : SortedKV (kv es) := by
  unfold SortedKV kv; rw [List.pairwise_map]; exact h

theorem kv_prefix {xs : List Spec.KV} (hs : SortedKV xs) {j : Nat} {x : Spec.KV} (hx : xs[j]? = some x) :
    ∀ e ∈ xs.take (j + 1), e.1 ≤ x.1 := by
  induction xs generalizing j with
  | nil => simp at hx
  | cons a as ih =>
    unfold SortedKV at hs ih
    rw [List.pairwise_cons] at hs
    cases j with
    | zero => simp at hx; subst hx; intro e he; simp at he; rw [he]; exact Int.le_refl _
    | succ j =>
      simp only [List.getElem?_cons_succ] at hx
      intro e he
      simp only [List.take_succ_cons, List.mem_cons] at he
      rcases he with he | he
      · rw [he]; exact hs.1 x (List.mem_of_getElem? hx)
      · exact ih hs.2 hx e he

theorem upper_ge (k : Int) (xs : List Spec.KV) (q : Nat) (hq : q ≤ xs.length)
    (h : ∀ e ∈ xs.take q, e.1 ≤ k) : q ≤ Spec.upper k xs := by
  induction xs generalizing q with
  | nil => simp at hq; omega
  | cons a as ih =>
    cases q with
    | zero => omega
    | succ q =>
      simp only [List.take_succ_cons, List.mem_cons] at h
      have ha := h a (Or.inl rfl)
      have n1 : ¬ k < a.1 := by omega
      simp only [Spec.upper, n1, if_false]
      have := ih q (by simpa using hq) (fun e he => h e (Or.inr he))
      omega

theorem upper_eq (k : Int) (xs : List Spec.KV) (q : Nat) (hq : q ≤ xs.length)
    (h : ∀ e ∈ xs.take q, e.1 ≤ k) (h2 : ∀ e, xs[q]? = some e → k < e.1) : Spec.upper k xs = q := by
  induction xs generalizing q with
  | nil => simp at hq; subst hq; rfl
  | cons a as ih =>
    cases q with
    | zero =>
      have := h2 a (by simp)
      simp [Spec.upper, this]
    | succ q =>
      simp only [List.take_succ_cons, List.mem_cons] at h
      have ha := h a (Or.inl rfl)
      have n1 : ¬ k < a.1 := by omega
      simp only [Spec.upper, n1, if_false]
      rw [ih q (by simpa using hq) (fun e he => h e (Or.inr he)) (fun e he => h2 e (by simpa using he))]

theorem upper_le_length (k : Int) (xs : List Spec.KV) : Spec.upper k xs ≤ xs.length := by
  induction xs with
  | nil => simp [Spec.upper]
  | cons a as ih => simp only [Spec.upper]; split <;> simp <;> omega

theorem upper_take_le (k : Int) (xs : List Spec.KV) : ∀ e ∈ xs.take (Spec.upper k xs), e.1 ≤ k := by
  induction xs with
  | nil => simp
  | cons a as ih =>
    simp only [Spec.upper]
    by_cases h : k < a.1
    · simp [h]
    · rw [if_neg h]
      intro e he
      simp only [List.take_succ_cons, List.mem_cons] at he
      rcases he with he | he
      · rw [he]; omega
      · exact ih e he

theorem insertMulti_split (k v : Int) (xs : List Spec.KV) :
    Spec.insertMulti k v xs = xs.take (Spec.upper k xs) ++ (k, v) :: xs.drop (Spec.upper k xs) := by
  induction xs with
  | nil => rfl
  | cons a as ih =>
    simp only [Spec.insertMulti, Spec.upper]
    by_cases h : k < a.1
    · simp [h]
    · rw [if_neg h, if_neg h, ih]; simp

/-- the position of a plain insert is always among the positions a hinted insert may take -/
theorem hintPos_upper (xs : List Spec.KV) (hs : SortedKV xs) (p : Nat) (hp : p ≤ xs.length) (k : Int) :
    Spec.HintPos xs p k (Spec.upper k xs) := by
  unfold Spec.HintPos
  by_cases hend : p = xs.length
  · rw [if_pos hend]
    cases hl : xs.getLast? with
    | none => rfl
    | some e =>
      simp only
      by_cases hk : k > e.1
      · rw [if_pos hk]
        apply upper_eq k xs xs.length (Nat.le_refl _)
        · intro x hx
          rw [List.getLast?_eq_getElem?] at hl
          have hne : xs.length ≠ 0 := by
            intro h0; rw [List.eq_nil_of_length_eq_zero h0] at hl; simp at hl
          have := kv_prefix hs hl x (by
            have : xs.length - 1 + 1 = xs.length := by omega
            rw [this]; exact hx)
          omega
        · intro x hx; rw [List.getElem?_eq_none (Nat.le_refl _)] at hx; simp at hx
      · rw [if_neg hk]; trivial
  · rw [if_neg hend]
    have hplt : p < xs.length := by omega
    rw [List.getElem?_eq_getElem hplt]
    simp only
    have hhx : xs[p]? = some xs[p] := List.getElem?_eq_getElem hplt
    by_cases h1 : k < xs[p].1
    · rw [if_pos h1]
      by_cases h0 : p = 0
      · rw [if_pos h0]
        apply upper_eq k xs p (by omega)
        · subst h0; simp
        · intro e he; rw [hhx] at he; simp only [Option.some.injEq] at he; rw [← he]; exact h1
      · rw [if_neg h0]
        have hp1 : p - 1 < xs.length := by omega
        rw [List.getElem?_eq_getElem hp1]
        simp only
        by_cases h2 : k ≥ xs[p - 1].1
        · rw [if_pos h2]
          apply upper_eq k xs p (by omega)
          · intro e he
            have := kv_prefix hs (List.getElem?_eq_getElem hp1) e (by
              have : p - 1 + 1 = p := by omega
              rw [this]; exact he)
            omega
          · intro e he; rw [hhx] at he; simp only [Option.some.injEq] at he; rw [← he]; exact h1
        · rw [if_neg h2]; trivial
    · rw [if_neg h1]
      have htake : ∀ e ∈ xs.take (p + 1), e.1 ≤ k := by
        intro e he
        have := kv_prefix hs hhx e he
        omega
      cases hn : xs[p + 1]? with
      | none =>
        simp only
        apply upper_eq k xs (p + 1) (by omega) htake
        intro e he; rw [hn] at he; simp at he
      | some ne =>
        simp only
        by_cases h3 : k < ne.1
        · rw [if_pos h3]
          apply upper_eq k xs (p + 1) (by omega) htake
          intro e he; rw [hn] at he; simp only [Option.some.injEq] at he; rw [← he]; exact h3
        · rw [if_neg h3]
          by_cases h4 : k = ne.1
          · rw [if_pos h4]
            exact ⟨upper_ge k xs (p + 1) (by omega) htake, Nat.le_refl _⟩
          · rw [if_neg h4]; trivial

/-! ### the case the code leaves to the tree shape -/

/-- the right cell of the item at `idx`: its content is a segment of the in-order sequence
    directly behind that item, and a hinted insert rewrites exactly that segment -/
theorem insAt_right_split (f : Tree → Tree × Bool) (idx : Nat) (t : Tree) (hidx : idx < t.size) :
    ∃ A B, t.inorder = A ++ (subAt true idx t).inorder ++ B ∧ A.length = idx + 1 ∧
      (insAt f true idx t).1.inorder = A ++ (f (subAt true idx t)).1.inorder ++ B := by
  induction t generalizing idx with
  | nil => simp at hidx
  | node i k v h s l r ihl ihr =>
    have hL := size_eq_length l
    simp only [subAt, insAt]
    by_cases h1 : idx < l.size
    · rw [if_pos h1, if_pos h1, inorder_goL]
      obtain ⟨A, B, e1, e2, e3⟩ := ihl idx h1
      refine ⟨A, B ++ (i, k, v) :: r.inorder, ?_, e2, ?_⟩
      · simp only [inorder_node]; rw [e1]; simp
      · rw [e3]; simp
    · by_cases h2 : idx = l.size
      · rw [if_neg h1, if_pos h2, if_neg h1, if_pos h2]
        simp only [if_true, inorder_goR]
        refine ⟨l.inorder ++ [(i, k, v)], [], ?_, by simp; omega, ?_⟩
        · simp
        · simp
      · rw [if_neg h1, if_neg h2, if_neg h1, if_neg h2, inorder_goR]
        have hidx' : idx - l.size - 1 < r.size := by simp only [size_node] at hidx; omega
        obtain ⟨A, B, e1, e2, e3⟩ := ihr _ hidx'
        refine ⟨l.inorder ++ (i, k, v) :: A, B, ?_, by simp; omega, ?_⟩
        · simp only [inorder_node]; rw [e1]; simp
        · rw [e3]; simp

theorem insListM_split (id : Nat) (k v : Int) (S : List E) :
    insListM id k v S = S.take (Spec.upper k (kv S)) ++ (id, k, v) :: S.drop (Spec.upper k (kv S)) := by
  induction S with
  | nil => rfl
  | cons a as ih =>
    simp only [insListM, kv, List.map_cons, Spec.upper]
    by_cases h : k < a.2.1
    · simp [h]
    · rw [if_neg h, if_neg h]
      simp only [kv] at ih
      rw [ih]; simp

theorem idxOf_fresh (x : Nat) (l1 l2 : List Nat) (h : x ∉ l1) : idxOf x (l1 ++ x :: l2) = l1.length := by
  induction l1 with
  | nil => simp [idxOf]
  | cons a as ih =>
    simp only [List.mem_cons, not_or] at h
    simp only [List.cons_append, idxOf]
    rw [if_neg (fun e => h.1 e.symm), ih h.2]; simp

theorem kv_take (es : List E) (n : Nat) : kv (es.take n) = (kv es).take n := by simp [kv, List.map_take]
theorem kv_drop (es : List E) (n : Nat) : kv (es.drop n) = (kv es).drop n := by simp [kv, List.map_drop]
theorem kv_append (a b : List E) : kv (a ++ b) = kv a ++ kv b := by simp [kv]

/-- MultiMap hinted insert, complete: it is accepted iff `p ≤ size`, the new entry `(k,v)` is
    inserted at a position `q` the specification allows, and the returned iterator is `q`. -/
theorem insertAt_multi_spec (s : St) (hI : InvT s) (hO : InvO s) (hm : s.multi = true) (p : Nat) (k v : Int)
    (hp : p ≤ s.size) :
    ∃ r q, s.insertAt p k v = some r ∧
      abs r.1 = (abs s).take q ++ (k, v) :: (abs s).drop q ∧ Spec.HintPos (abs s) p k q ∧ r.2.ret = .it q := by
  have hlen := abs_length s hI
  have hsk : SortedKV (abs s) := kv_sorted hI.sortedW
  obtain ⟨r, h1, h2⟩ := insertAt_multi_cases s hI hm p k v hp
  rcases h2 with ⟨c, g1, g2⟩ | ⟨hi, hk, hv, ni, nv, c, g1, g2, g3, g4⟩
  · refine ⟨r, Spec.upper k (abs s), h1, ?_, hintPos_upper _ hsk p (by omega) k, ?_⟩
    · rw [g1, insertRoot_abs s hI k v c, hm]; simp only [if_true]; exact insertMulti_split k v _
    · rw [g2, insertRoot_ret s hI hO k v c, hm]; simp
  · -- the key equals the key behind the hint
    subst g4
    have hidx : p < s.t.size := by rw [size_eq_length]; exact (List.getElem?_eq_some_iff.mp g1).1
    obtain ⟨f1, f2, f3, f4⟩ := insertUnder_multi_fields s hm true p hi k v c
    obtain ⟨A, B, e1, e2, e3⟩ := insAt_right_split (insM s.alloc.1 k v) p s.t hidx
    have hOn := insertUnder_invO_multi s hO hm true p hi k v c hidx hk hv g1
    generalize hS : (subAt true p s.t).inorder = S at e1 e3
    have hSs : SortedW S := by
      have : S.Sublist s.t.inorder := by
        rw [e1]; exact (List.sublist_append_right A S).trans (List.sublist_append_left _ B)
      exact List.Pairwise.sublist this hI.sortedW
    have hsub : (insM s.alloc.1 k v (subAt true p s.t)).1.inorder = insListM s.alloc.1 k v S := by
      rw [insM_inorder _ k v _ (by rw [hS]; exact hSs), hS]
    rw [hsub, insListM_split] at e3
    generalize hj : Spec.upper k (kv S) = j at e3
    have hjS : j ≤ S.length := by rw [← hj, ← kv_length S]; exact upper_le_length k _
    have hA : A = s.t.inorder.take (p + 1) := by
      rw [e1, List.append_assoc, List.take_append_of_le_length (by omega), ← e2, List.take_length]
    have hnew : (s.insertUnder true p hi k v c).1.t.inorder
        = (s.t.inorder.take (p + 1 + j)) ++ (s.alloc.1, k, v) :: s.t.inorder.drop (p + 1 + j) := by
      rw [f1, e3]
      have t1 : s.t.inorder.take (p + 1 + j) = A ++ S.take j := by
        rw [e1, List.append_assoc, ← e2, List.take_length_add_append, List.take_append_of_le_length hjS]
      have t2 : s.t.inorder.drop (p + 1 + j) = S.drop j ++ B := by
        rw [e1, List.append_assoc, ← e2, List.drop_length_add_append, List.drop_append_of_le_length hjS]
      rw [t1, t2]; simp
    have htakeA : ∀ e ∈ (abs s).take (p + 1), e.1 ≤ k := by
      intro e he
      have hx : (abs s)[p]? = some (hk, hv) := by simp [abs, kv, g1]
      have := kv_prefix hsk hx e he
      simp only at this; omega
    have hq1 : ∀ e ∈ (abs s).take (p + 1 + j), e.1 ≤ k := by
      intro e he
      have t1 : (abs s).take (p + 1 + j) = kv A ++ (kv S).take j := by
        simp only [abs]
        rw [e1, kv_append, kv_append, List.append_assoc, ← e2, ← kv_length A,
          List.take_length_add_append, List.take_append_of_le_length (by rw [kv_length]; exact hjS)]
      rw [t1] at he
      rcases List.mem_append.mp he with he | he
      · apply htakeA e
        simp only [abs]; rw [← kv_take, ← hA]; exact he
      · rw [← hj] at he; exact upper_take_le k _ e he
    have hqlen : p + 1 + j ≤ (abs s).length := by
      rw [hlen, hI.size, size_eq_length, e1]; simp; omega
    refine ⟨_, p + 1 + j, h1, ?_, ?_, ?_⟩
    · simp only [abs]
      rw [hnew, kv_append, kv_take]
      simp only [kv, List.map_cons, List.map_drop]
    · -- the position is allowed
      unfold Spec.HintPos
      have hx : (abs s)[p]? = some (hk, hv) := by simp [abs, kv, g1]
      have hx1 : (abs s)[p + 1]? = some (k, nv) := by simp [abs, kv, g2]
      have hne : p ≠ (abs s).length := by rw [hlen, hI.size]; omega
      rw [if_neg hne, hx]
      simp only
      have n1 : ¬ k < hk := by omega
      rw [if_neg n1, hx1]
      simp only
      rw [if_neg (by omega), if_pos trivial]
      exact ⟨by omega, upper_ge k _ _ hqlen hq1⟩
    · -- the returned iterator
      unfold St.insertUnder St.insertIn at hOn ⊢
      simp only [hm, if_true] at hOn ⊢
      obtain ⟨pp, hl⟩ := landM_leaf k (some (hi, true)) (subAt true p s.t)
      rw [hl] at hOn ⊢
      simp only at hOn ⊢
      have ho := hOn.order
      simp only at ho
      rw [ho]
      have hmk : (insAt (s.insSub s.alloc.1 k v) true p s.t).1.inorder
          = (s.t.inorder.take (p + 1 + j)) ++ (s.alloc.1, k, v) :: s.t.inorder.drop (p + 1 + j) := by
        rw [← hnew, f1]; simp only [St.insSub, hm, if_true]
      unfold ids
      rw [hmk]
      simp only [List.map_append, List.map_cons]
      obtain ⟨n1, _⟩ := alloc_spec s hO
      have hfresh : s.alloc.1 ∉ (s.t.inorder.take (p + 1 + j)).map (fun e => e.1) := by
        rw [List.nodup_cons] at n1
        intro h
        apply n1.1
        apply List.mem_append_left
        unfold ids
        rw [List.map_take] at h
        exact List.mem_of_mem_take h
      rw [idxOf_fresh _ _ _ hfresh]
      simp only [List.length_map, List.length_take]
      have : p + 1 + j ≤ s.t.inorder.length := by rw [← size_eq_length, ← hI.size, ← hlen]; exact hqlen
      congr 1; omega

end Nstd.Avl
