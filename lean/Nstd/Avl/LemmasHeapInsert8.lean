import Nstd.Avl.LemmasHeapInsert7
/-
  The hinted insert: what the decision `hintGo` names, the context of the hint's left / right cell, `setAt`.
-/
namespace Nstd.Avl
open Tree
open Nstd.Avl.Heap
open Nstd.Generated.AvlRot

theorem hintGo_under (multi : Bool) (es : List (Nat × Int × Int)) (p : Nat) (k : Int) (right : Bool) (idx hid c0 : Nat)
    (h : hintGo multi es es.length p k = some (.under right idx hid c0)) : ∃ e, es[idx]? = some e ∧ e.1 = hid := by
  unfold hintGo at h
  simp only [] at h
  repeat' split at h
  all_goals first
    | (cases h; done)
    | (simp only [Option.some.injEq, HintGo.under.injEq] at h
       obtain ⟨_, e2, e3, _⟩ := h
       subst e2; subst e3
       try simp only [List.getLast?_eq_getElem?] at *
       exact ⟨_, ‹_›, rfl⟩)

theorem hintGo_replace (multi : Bool) (es : List (Nat × Int × Int)) (p : Nat) (k : Int) (idx : Nat)
    (h : hintGo multi es es.length p k = some (.replace idx)) :
    multi = false ∧ idx = p ∧ ∃ e, es[p]? = some e ∧ e.2.1 = k := by
  unfold hintGo at h
  simp only [] at h
  repeat' split at h
  all_goals first
    | (cases h; done)
    | (simp only [Option.some.injEq, HintGo.replace.injEq] at h
       subst h
       refine ⟨by simp_all, rfl, _, ‹_›, ?_⟩
       simp only; omega)

theorem hintGo_some (multi : Bool) (es : List (Nat × Int × Int)) (p : Nat) (k : Int) (hp : p ≤ es.length) :
    hintGo multi es es.length p k ≠ none := by
  unfold hintGo
  simp only []
  by_cases h1 : p = es.length
  · rw [if_pos h1]
    repeat' split
    all_goals simp
  · rw [if_neg h1]
    have hlt : p < es.length := by omega
    rw [List.getElem?_eq_getElem hlt]
    simp only []
    repeat' split
    all_goals simp

theorem repr_keys {h : Heap} : ∀ {t : Tree} {p par : Nat}, Repr h p par t → ∀ e ∈ t.inorder, h.key (e.1 + 1) = e.2.1 := by
  intro t
  induction t with
  | nil => intro p par _ e he; simp [Tree.inorder] at he
  | node i k v hh s l r ihl ihr =>
    intro p par hr e he
    rw [repr_node_iff] at hr
    obtain ⟨eP, kP, _, _, _, _, rL, rR⟩ := hr
    simp only [Tree.inorder, List.mem_append, List.mem_cons] at he
    rcases he with m | m | m
    · exact ihl rL e m
    · subst m; simp only; rw [← eP]; exact kP
    · exact ihr rR e m

/-- the left / right cell of the item at in-order position `idx`, as a context: what hangs there (`subAt`), and the
    model's `insAt` as a climb from there -/
theorem ctx_of_idx (h : Heap) (right : Bool) : ∀ (t : Tree) (up : Ctx) (idx : Nat), idx < t.size →
    ReprCtx h up → Repr h (h.get up.cell) up.par t →
    ∃ (ctx0 : Ctx) (hid : Nat), ctx0.plug (Tree.subAt right idx t) = up.plug t ∧ ReprCtx h ctx0 ∧
      Repr h (h.get ctx0.cell) ctx0.par (Tree.subAt right idx t) ∧ ctx0.mcell = some (hid, right) ∧ (ids t)[idx]? = some hid ∧
      (∀ f, ctx0.climb (f (Tree.subAt right idx t)) = up.climb (Tree.insAt f right idx t)) ∧
      ctx0.depth + (Tree.subAt right idx t).height ≤ up.depth + t.height := by
  intro t
  induction t with
  | nil => intro up idx hi; simp [Tree.size] at hi
  | node i k v hh s l r ihl ihr =>
    intro up idx hi hc hr
    have hr0 := hr
    rw [repr_node_iff] at hr
    obtain ⟨eP, kP, vP, pP, hP, sP, rL, rR⟩ := hr
    rw [eP] at kP vP pP hP sP rL rR
    have hll := ids_len l
    by_cases h1 : idx < l.size
    · obtain ⟨ctx0, hid, a1, a2, a3, a4, a5, a6, a7⟩ := ihl (Ctx.left i k v hh s r up) idx h1 ⟨kP, vP, hP, sP, pP, eP, rR, hc⟩ rL
      refine ⟨ctx0, hid, ?_, a2, ?_, a4, ?_, ?_, ?_⟩
      · simp only [Tree.subAt, h1, if_true]; exact a1
      · simp only [Tree.subAt, h1, if_true]; exact a3
      · rw [ids_node, List.getElem?_append_left (by omega)]; exact a5
      · intro f; simp only [Tree.subAt, Tree.insAt, h1, if_true]; exact a6 f
      · simp only [Tree.subAt, h1, if_true, Ctx.depth, Tree.height] at a7 ⊢; omega
    · by_cases h2 : idx = l.size
      · subst h2
        cases right with
        | true =>
          refine ⟨Ctx.right i k v hh s l up, i, ?_, ⟨kP, vP, hP, sP, pP, eP, rL, hc⟩, ?_, rfl, ?_, ?_, ?_⟩
          · simp [Tree.subAt, Ctx.plug]
          · simp only [Tree.subAt, Nat.lt_irrefl, if_false, if_true]; exact rR
          · rw [ids_node, List.getElem?_append_right (by omega)]; simp [hll]
          · intro f; simp [Tree.subAt, Tree.insAt, Ctx.climb]
          · simp only [Tree.subAt, Nat.lt_irrefl, if_false, if_true, Ctx.depth, Tree.height]; omega
        | false =>
          refine ⟨Ctx.left i k v hh s r up, i, ?_, ⟨kP, vP, hP, sP, pP, eP, rR, hc⟩, ?_, rfl, ?_, ?_, ?_⟩
          · simp [Tree.subAt, Ctx.plug]
          · simp only [Tree.subAt, Nat.lt_irrefl, if_false, if_true, Bool.false_eq_true]; exact rL
          · rw [ids_node, List.getElem?_append_right (by omega)]; simp [hll]
          · intro f; simp [Tree.subAt, Tree.insAt, Ctx.climb]
          · simp only [Tree.subAt, Nat.lt_irrefl, if_false, if_true, Bool.false_eq_true, Ctx.depth, Tree.height]; omega
      · simp only [Tree.size] at hi
        obtain ⟨ctx0, hid, a1, a2, a3, a4, a5, a6, a7⟩ := ihr (Ctx.right i k v hh s l up) (idx - l.size - 1) (by omega)
          ⟨kP, vP, hP, sP, pP, eP, rL, hc⟩ rR
        refine ⟨ctx0, hid, ?_, a2, ?_, a4, ?_, ?_, ?_⟩
        · simp only [Tree.subAt, h1, h2, if_false]; exact a1
        · simp only [Tree.subAt, h1, h2, if_false]; exact a3
        · rw [ids_node, List.getElem?_append_right (by omega), hll]
          have : idx - l.size = (idx - l.size - 1) + 1 := by omega
          rw [this, List.getElem?_cons_succ]; exact a5
        · intro f; simp only [Tree.subAt, Tree.insAt, h1, h2, if_false]; exact a6 f
        · simp only [Tree.subAt, h1, h2, if_false, Ctx.depth, Tree.height] at a7 ⊢; omega

/-- `insertPos->value = value` at the item at in-order position `idx` -/
theorem setAt_repr (h : Heap) (v : Int) (hid : Nat) : ∀ (t : Tree) (p par idx : Nat), Repr h p par t → (ids t).Nodup →
    (ids t)[idx]? = some hid → Repr (h.setValue (hid + 1) v) p par (Tree.setAt v idx t) := by
  intro t
  induction t with
  | nil => intro p par idx _ _ hi; simp [ids, Tree.inorder] at hi
  | node i k v' hh s l r ihl ihr =>
    intro p par idx hr hnd hi
    rw [repr_node_iff] at hr
    obtain ⟨eP, kP, vP, pP, hP, sP, rL, rR⟩ := hr
    rw [ids_node, List.nodup_append] at hnd
    obtain ⟨n1, n2, n3⟩ := hnd
    obtain ⟨n4, n5⟩ := List.nodup_cons.mp n2
    have hll := ids_len l
    rw [ids_node] at hi
    by_cases h1 : idx < l.size
    · rw [List.getElem?_append_left (by omega)] at hi
      have hm : hid ∈ ids l := List.mem_of_getElem? hi
      have hne : p ≠ hid + 1 := by intro e; have : i = hid := by omega
                                   exact n3 hid hm i (by simp) this.symm
      simp only [Tree.setAt, h1, if_true]
      rw [repr_node_iff]
      refine ⟨eP, kP, by simp [Heap.setValue, upd1_apply, hne]; exact vP, pP, hP, sP, ihl _ _ _ rL n1 hi,
        repr_setValue_other hid v rR (fun m => n3 hid hm hid (by simp [m]) rfl)⟩
    · by_cases h2 : idx = l.size
      · subst h2
        rw [List.getElem?_append_right (by omega)] at hi
        simp [hll] at hi
        subst hi
        simp only [Tree.setAt, Nat.lt_irrefl, if_false, if_true]
        rw [repr_node_iff]
        refine ⟨eP, kP, by simp [Heap.setValue, upd1_apply, eP], pP, hP, sP,
          repr_setValue_other i v rL (fun m => n3 i m i (by simp) rfl), repr_setValue_other i v rR n4⟩
      · rw [List.getElem?_append_right (by omega), hll] at hi
        have e : idx - l.size = (idx - l.size - 1) + 1 := by omega
        rw [e, List.getElem?_cons_succ] at hi
        have hm : hid ∈ ids r := List.mem_of_getElem? hi
        have hne : p ≠ hid + 1 := by intro e; have : i = hid := by omega
                                     exact n4 (this ▸ hm)
        simp only [Tree.setAt, h1, h2, if_false]
        rw [repr_node_iff]
        refine ⟨eP, kP, by simp [Heap.setValue, upd1_apply, hne]; exact vP, pP, hP, sP,
          repr_setValue_other hid v rL (fun m => n3 hid m hid (by simp [hm]) rfl), ihr _ _ _ rR n5 hi⟩

end Nstd.Avl
