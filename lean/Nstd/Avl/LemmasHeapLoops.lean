import Nstd.Avl.LemmasOrder
import Nstd.Avl.LemmasHeap
/-
  The loops of the second translated layer (Generated/AvlRot.lean: `find`, `count`, the upward loop of the private
  insert) against the model.  A translated loop is a function recursive in a fuel argument (`none` = out of fuel);
  the theorems give the fuel that suffices in terms of the height of the tree.
-/
namespace Nstd.Avl
open Tree
open Nstd.Avl.Heap
open Nstd.Generated.AvlRot

/-- id of the item `Map::find` returns (the same descent as `Tree.findIdx`) -/
def findPtr (k : Int) : Tree → Option Nat
  | .nil => none
  | .node i k' _ _ _ l r => if k > k' then findPtr k r else if k < k' then findPtr k l else some i

/-- id of the item `MultiMap::find` returns; `res` is the `result` variable (the same descent as `Tree.findMLoop`) -/
def findMPtr (k : Int) (res : Option Nat) : Tree → Option Nat
  | .nil => res
  | .node i k' _ _ _ l r => if k > k' then findMPtr k res r else findMPtr k (if k < k' then res else some i) l

/-- an optional item id as `Item*` (null = none) -/
def encPtr : Option Nat → Nat
  | none => 0
  | some i => i + 1

theorem map_find_loop (h : Heap) (k : Int) : ∀ (t : Tree) (p par c fuel : Nat), Repr h p par t → t.height < fuel →
    Map.find_loop fuel h c k p =
      some ((match findPtr k t with | some i => i + 1 | none => h.endItem), c + Tree.findCmps k t) := by
  intro t
  induction t with
  | nil =>
    intro p par c fuel hr hf
    have : p = 0 := hr
    subst this
    cases fuel with
    | zero => simp [Tree.height] at hf
    | succ f => simp [Map.find_loop, findPtr, Tree.findCmps]
  | node i k' v hh s l r ihl ihr =>
    intro p par c fuel hr hf
    rw [repr_node_iff] at hr
    obtain ⟨eP, kP, _, _, _, _, rL, rR⟩ := hr
    cases fuel with
    | zero => simp at hf
    | succ f =>
      simp only [Tree.height] at hf
      have hp : p ≠ 0 := by omega
      rw [Map.find_loop]
      simp only [hp, ne_eq, not_false_eq_true, if_true, kP, findPtr, Tree.findCmps]
      by_cases h1 : k > k'
      · simp only [h1, if_true]
        rw [ihr _ _ _ _ rR (by omega)]
        simp only [Nat.add_assoc]
      · simp only [h1, if_false]
        by_cases h2 : k < k'
        · simp only [h2, if_true]
          rw [ihl _ _ _ _ rL (by omega)]
          simp only [Nat.add_assoc]
          congr 3; omega
        · simp only [h2, if_false]
          rw [eP]

theorem multi_find_loop (h : Heap) (k : Int) : ∀ (t : Tree) (p par c fuel : Nat) (res : Option Nat), Repr h p par t → t.height < fuel →
    Multi.find_loop fuel h c k (encPtr res) p =
      some ((if encPtr (findMPtr k res t) ≠ 0 then encPtr (findMPtr k res t) else h.endItem), c + Tree.findMCmps k t) := by
  intro t
  induction t with
  | nil =>
    intro p par c fuel res hr hf
    have : p = 0 := hr
    subst this
    cases fuel with
    | zero => simp [Tree.height] at hf
    | succ f => by_cases e : encPtr res = 0 <;> simp [Multi.find_loop, findMPtr, Tree.findMCmps, e]
  | node i k' v hh s l r ihl ihr =>
    intro p par c fuel res hr hf
    rw [repr_node_iff] at hr
    obtain ⟨eP, kP, _, _, _, _, rL, rR⟩ := hr
    cases fuel with
    | zero => simp at hf
    | succ f =>
      simp only [Tree.height] at hf
      have hp : p ≠ 0 := by omega
      rw [Multi.find_loop]
      simp only [hp, ne_eq, not_false_eq_true, if_true, kP, findMPtr, Tree.findMCmps]
      by_cases h1 : k > k'
      · simp only [h1, if_true]
        rw [ihr _ _ _ _ res rR (by omega)]
        simp only [Nat.add_assoc]
      · simp only [h1, if_false]
        by_cases h2 : k < k'
        · simp only [h2, if_true]
          rw [ihl _ _ _ _ res rL (by omega)]
          simp only [Nat.add_assoc]
          congr 3; omega
        · simp only [h2, if_false]
          have := ihl _ _ (c + 1 + 1) f (some i) rL (by omega)
          have e2 : encPtr (some i) = p := eP.symm
          rw [e2] at this
          rw [this]
          simp only [Nat.add_assoc]
          congr 3; omega

theorem ids_len (t : Tree) : (ids t).length = t.size := by
  induction t with
  | nil => rfl
  | node i k v h s l r ihl ihr => simp [ids_node, Tree.size, ihl, ihr]; omega

/-- the item `findPtr` names is the one at the in-order position `Tree.findIdx` returns -/
theorem findPtr_eq (k : Int) (t : Tree) : ∀ pre post : List Nat,
    findPtr k t = ((Tree.findIdx k t).map (fun j => pre.length + j)).bind (fun j => (pre ++ ids t ++ post)[j]?) := by
  induction t with
  | nil => intro pre post; rfl
  | node i k' v h s l r ihl ihr =>
    intro pre post
    simp only [findPtr, Tree.findIdx, ids_node]
    by_cases h1 : k > k'
    · simp only [h1, if_true]
      rw [ihr (pre ++ ids l ++ [i]) post]
      cases findIdx k r with
      | none => rfl
      | some j =>
        simp only [Option.map_some, Option.bind_some, List.length_append, List.length_cons, List.length_nil, ids_len]
        congr 1
        · simp [List.append_assoc]
        · omega
    · simp only [h1, if_false]
      by_cases h2 : k < k'
      · simp only [h2, if_true]
        rw [ihl pre (i :: ids r ++ post)]
        cases findIdx k l with
        | none => rfl
        | some j =>
          simp only [Option.map_some, Option.bind_some]
          congr 1
          simp [List.append_assoc]
      · simp only [h2, if_false, Option.map_some, Option.bind_some]
        have : (pre ++ (ids l ++ i :: ids r) ++ post)[pre.length + l.size]? = some i := by
          rw [List.append_assoc, List.getElem?_append_right (by omega)]
          simp only [Nat.add_sub_cancel_left, List.append_assoc]
          rw [List.getElem?_append_right (by rw [ids_len]; omega)]
          simp [ids_len]
        rw [this]

theorem findMPtr_eq (k : Int) (t : Tree) : ∀ (pre post : List Nat) (res resI : Option Nat),
    res = resI.bind (fun j => (pre ++ ids t ++ post)[j]?) →
    findMPtr k res t = (Tree.findMLoop k resI pre.length t).bind (fun j => (pre ++ ids t ++ post)[j]?) := by
  induction t with
  | nil => intro pre post res resI h; simpa [findMPtr, Tree.findMLoop] using h
  | node i k' v hh s l r ihl ihr =>
    intro pre post res resI h
    simp only [findMPtr, Tree.findMLoop, ids_node]
    by_cases h1 : k > k'
    · simp only [h1, if_true]
      have := ihr (pre ++ ids l ++ [i]) post res resI (by rw [h]; simp [ids_node, List.append_assoc])
      rw [this]
      simp only [List.length_append, List.length_cons, List.length_nil, ids_len]
      congr 1
      · simp [List.append_assoc]
    · simp only [h1, if_false]
      have hi : (pre ++ (ids l ++ i :: ids r) ++ post)[pre.length + l.size]? = some i := by
        rw [List.append_assoc, List.getElem?_append_right (by omega)]
        simp only [Nat.add_sub_cancel_left, List.append_assoc]
        rw [List.getElem?_append_right (by rw [ids_len]; omega)]
        simp [ids_len]
      have := ihl pre (i :: ids r ++ post) (if k < k' then res else some i) (if k < k' then resI else some (pre.length + l.size)) (by
        by_cases h2 : k < k'
        · simp only [h2, if_true]; rw [h]; simp [ids_node, List.append_assoc]
        · simp only [h2, if_false, Option.bind_some]
          rw [← hi]; simp [List.append_assoc])
      rw [this]
      congr 1
      simp [List.append_assoc]

theorem findPtr_spec (k : Int) (t : Tree) : findPtr k t = (Tree.findIdx k t).bind (fun j => (ids t)[j]?) := by
  have := findPtr_eq k t [] []
  simp only [List.nil_append, List.append_nil, List.length_nil, Nat.zero_add] at this
  rw [this]; cases Tree.findIdx k t <;> rfl

theorem findMPtr_spec (k : Int) (t : Tree) : findMPtr k none t = (Tree.findMIdx k t).bind (fun j => (ids t)[j]?) := by
  have := findMPtr_eq k t [] [] none none rfl
  simp only [List.nil_append, List.append_nil, List.length_nil] at this
  rw [this]; rfl

/-- the `next` links from pointer `p` spell out the entries `es` (ids and keys) and end in the sentinel `endItem` -/
def NextRepr (h : Heap) : Nat → List (Nat × Int × Int) → Prop
  | p, [] => p = h.endItem
  | p, e :: es => p = e.1 + 1 ∧ p ≠ h.endItem ∧ h.key p = e.2.1 ∧ NextRepr h (h.next p) es

theorem count_loop_eq (h : Heap) (k : Int) : ∀ (es : List (Nat × Int × Int)) (p c n fuel it : Nat),
    NextRepr h p es → es.length < fuel →
    Multi.count_loop fuel h c k it n p = some (n + (countWalk k es).1, c + (countWalk k es).2) := by
  intro es
  induction es with
  | nil =>
    intro p c n fuel it hr hf
    have : p = h.endItem := hr
    cases fuel with
    | zero => simp at hf
    | succ f => rw [Multi.count_loop]; simp [this, countWalk]
  | cons e es ih =>
    intro p c n fuel it hr hf
    obtain ⟨i, k', v'⟩ := e
    obtain ⟨e1, e2, e3, e4⟩ := hr
    cases fuel with
    | zero => simp at hf
    | succ f =>
      simp only [List.length_cons] at hf
      rw [Multi.count_loop]
      simp only [e2, ne_eq, not_false_eq_true, if_true, e3, countWalk]
      by_cases hk : k' = k
      · simp only [hk, if_true]
        rw [ih _ _ _ f it e4 (by omega)]
        simp only [Option.some.injEq, Prod.mk.injEq]
        constructor <;> omega
      · simp only [hk, if_false]
        rfl

theorem nextRepr_drop (h : Heap) : ∀ (es : List (Nat × Int × Int)) (first p : Nat) (e : Nat × Int × Int),
    NextRepr h first es → es[p]? = some e → e.1 + 1 ≠ h.endItem ∧ NextRepr h (h.next (e.1 + 1)) (es.drop (p + 1)) := by
  intro es
  induction es with
  | nil => intro first p e _ hp; simp at hp
  | cons x xs ih =>
    intro first p e hr hp
    obtain ⟨e1, e2, e3, e4⟩ := hr
    cases p with
    | zero =>
      simp only [List.getElem?_cons_zero, Option.some.injEq] at hp
      subst hp
      rw [← e1]
      exact ⟨e2, by simpa using e4⟩
    | succ q =>
      simp only [List.getElem?_cons_succ] at hp
      simpa using ih _ q e e4 hp

theorem findMLoop_bound (k : Int) : ∀ (t : Tree) (res : Option Nat) (off p : Nat),
    Tree.findMLoop k res off t = some p → res = some p ∨ (off ≤ p ∧ p < off + t.size) := by
  intro t
  induction t with
  | nil => intro res off p h; left; exact h
  | node i k' v hh s l r ihl ihr =>
    intro res off p h
    simp only [Tree.findMLoop] at h
    simp only [Tree.size]
    by_cases h1 : k > k'
    · simp only [h1, if_true] at h
      rcases ihr _ _ _ h with e | e
      · left; exact e
      · right; omega
    · simp only [h1, if_false] at h
      rcases ihl _ _ _ h with e | e
      · by_cases h2 : k < k'
        · simp only [h2, if_true] at e; left; exact e
        · simp only [h2, if_false, Option.some.injEq] at e; right; omega
      · right; omega


end Nstd.Avl
