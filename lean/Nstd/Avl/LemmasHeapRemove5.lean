import Nstd.Avl.LemmasHeapRemove4
import Nstd.Avl.PropsRot
/-
  Two-children removal: the loop behind `rebalParent:` (translated as `removeRebal_loop`) climbs the inner path `a` from
  the old place of the neighbour up to the replacement (the item of the base frame `B`), which is always re-updated and
  rebalanced — also through the `parent = *cell` exit.
-/
namespace Nstd.Avl
open Tree
open Nstd.Avl.Heap
open Nstd.Generated.AvlRot

theorem rebal_upd_avl (t : Tree) (hA : Avl t) : Tree.rebal (Tree.upd t) = t := by
  cases t with
  | nil => rfl
  | node i k v h s l r =>
    rw [avl_node] at hA
    obtain ⟨hl, hr, e1, e2, e3, e4⟩ := hA
    rw [upd_node _ _ _ _ _ _ _ hl hr, ← e1, ← e2]
    have h1 : ¬ s > 1 := by omega
    have h2 : ¬ s < -1 := by omega
    simp only [Tree.rebal, slope_node, h1, h2, if_false]

theorem reprCtx_get {h : Heap} (B : Ctx) (hB : ReprCtx h B) (hn : B ≠ .top) : h.get B.up.cell = B.par := by
  cases B with
  | top => exact absurd rfl hn
  | left i k v hh s r up => exact hB.2.2.2.2.2.1
  | right i k v hh s l up => exact hB.2.2.2.2.2.1

/-- from the context of an inner hole back to the context `b` with the plugged subtree in its hole -/
theorem replug {h : Heap} : ∀ (a b : Ctx) (t : Tree), ReprCtx h (a.append b) →
    Repr h (h.get (a.append b).cell) (a.append b).par t → ReprCtx h b ∧ Repr h (h.get b.cell) b.par (a.plug t) := by
  intro a
  induction a with
  | top => intro b t hb ht; exact ⟨hb, ht⟩
  | left i k v hh s r up ih =>
    intro b t hc ht
    obtain ⟨a1, a2, a3, a4, a5, a6, a7, a8⟩ := hc
    simp only [Ctx.append, Ctx.cell, Ctx.par, Heap.get] at ht
    simp only [Ctx.plug]
    apply ih b _ a8
    rw [a6, repr_node_iff]
    exact ⟨rfl, a1, a2, a5, a3, a4, ht, a7⟩
  | right i k v hh s l up ih =>
    intro b t hc ht
    obtain ⟨a1, a2, a3, a4, a5, a6, a7, a8⟩ := hc
    simp only [Ctx.append, Ctx.cell, Ctx.par, Heap.get] at ht
    simp only [Ctx.plug]
    apply ih b _ a8
    rw [a6, repr_node_iff]
    exact ⟨rfl, a1, a2, a5, a3, a4, a7, ht⟩

theorem ctx_par_head (cx : Ctx) (hn : cx ≠ .top) : ∃ j rest, cx.par = j + 1 ∧ cx.ids = j :: rest := by
  cases cx with
  | top => exact absurd rfl hn
  | left i k v hh s r up => exact ⟨i, _, rfl, rfl⟩
  | right i k v hh s l up => exact ⟨i, _, rfl, rfl⟩

theorem ctx_par_mem (cx : Ctx) : cx.par = 0 ∨ ∃ q ∈ cx.ids, cx.par = q + 1 := by
  cases cx with
  | top => left; rfl
  | left i k v hh s r up => right; exact ⟨i, by simp [Ctx.ids], rfl⟩
  | right i k v hh s l up => right; exact ⟨i, by simp [Ctx.ids], rfl⟩

theorem ids_node1 (cx : Ctx) (hn : cx ≠ .top) (t : Tree) : (ids (cx.node1 t) ++ cx.up.ids).Perm (ids t ++ cx.ids) := by
  cases cx with
  | top => exact absurd rfl hn
  | left i k v hh s r up =>
    simp only [Ctx.node1, Ctx.up, Ctx.ids, ids_node, List.append_assoc, List.cons_append]
    exact List.Perm.refl _
  | right i k v hh s l up =>
    simp only [Ctx.node1, Ctx.up, Ctx.ids, ids_node, List.append_assoc, List.cons_append]
    rw [List.perm_iff_count]
    intro x
    simp only [List.count_append, List.count_cons]
    omega

/-- the pointer of the item a non-empty context hangs its hole under is not the parent pointer of a context further up -/
theorem par_ne_of_nodup (cx ctx : Ctx) (hn : cx ≠ .top) (rest : List Nat) (hsub : ∀ q ∈ ctx.ids, q ∈ rest)
    (hids : ∃ j, cx.par = j + 1 ∧ j ∉ rest) : cx.par ≠ ctx.par := by
  obtain ⟨j, e1, e2⟩ := hids
  rcases ctx_par_mem ctx with e | ⟨q, hq, e⟩
  · rw [e1, e]; omega
  · rw [e1, e]; intro e3; have : j = q := by omega
    exact e2 (this ▸ hsub q hq)

end Nstd.Avl
