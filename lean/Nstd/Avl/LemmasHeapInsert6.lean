import Nstd.Avl.LemmasHeapInsert5
/-
  `ReprSt`: a heap represents a container state of the model (tree, prev/next list, `_size`, free list, block count).
  The allocation in front of `leafTail` (`leafOf`): the item taken is the model's `St.alloc`.
-/
namespace Nstd.Avl
open Tree
open Nstd.Avl.Heap
open Nstd.Generated.AvlRot

/-- heap `h` represents the container state `s` of the model -/
structure ReprSt (h : Heap) (s : St) : Prop where
  /-- `root` holds the tree: every stored field, every child and parent link -/
  tree : Repr h h.root 0 s.t
  /-- `_begin.item`, the `next` / `prev` links and the sentinel thread the list `order` -/
  list : DList h h.beginItem 0 s.order
  size : h.size = s.size
  /-- `freeItem` heads the free list, chained through `prev` -/
  free : FreeRepr h h.freeItem s.free
  blocks : h.nblocks = s.blocks
  /-- the sentinel `endItem` is not a pool item -/
  endSep : ∀ j, j ∈ s.order ∨ j ∈ s.free → j + 1 ≠ h.endItem

theorem fill_fields : ∀ (m : Nat) (h : Heap) (i item : Nat),
    (Heap.fill h i m item).1.key = h.key ∧ (Heap.fill h i m item).1.value = h.value ∧ (Heap.fill h i m item).1.parent = h.parent ∧
    (Heap.fill h i m item).1.left = h.left ∧ (Heap.fill h i m item).1.right = h.right ∧ (Heap.fill h i m item).1.height = h.height ∧
    (Heap.fill h i m item).1.slope = h.slope ∧ (Heap.fill h i m item).1.root = h.root ∧ (Heap.fill h i m item).1.next = h.next ∧
    (Heap.fill h i m item).1.beginItem = h.beginItem ∧ (Heap.fill h i m item).1.endItem = h.endItem ∧
    (Heap.fill h i m item).1.size = h.size ∧ (Heap.fill h i m item).1.freeItem = h.freeItem ∧ (Heap.fill h i m item).1.nblocks = h.nblocks ∧
    (∀ q, q < i ∨ i + m ≤ q → (Heap.fill h i m item).1.prev q = h.prev q) ∧
    (Heap.fill h i m item).2 = (if m = 0 then item else i + m - 1) := by
  intro m
  induction m with
  | zero => intro h i item; simp [Heap.fill]
  | succ m ih =>
    intro h i item
    obtain ⟨a1, a2, a3, a4, a5, a6, a7, a8, a9, a10, a11, a12, a13, a14, a15, a16⟩ := ih (h.setPrev i item) (i + 1) i
    simp only [Heap.fill]
    refine ⟨a1, a2, a3, a4, a5, a6, a7, a8, a9, a10, a11, a12, a13, a14, ?_, ?_⟩
    · intro q hq
      rw [a15 q (by omega)]
      have : q ≠ i := by omega
      simp [Heap.setPrev, upd1_apply, this]
    · rw [a16]; split <;> simp <;> omega

theorem blockItems_shift (b : Nat) : ∀ m, blockItems (b + 1) m ++ [b] = blockItems b (m + 1) := by
  intro m
  induction m with
  | zero => simp [blockItems]
  | succ m ih =>
    show (b + 1 + m) :: blockItems (b + 1) m ++ [b] = (b + (m + 1)) :: blockItems b (m + 1)
    rw [List.cons_append, ih]
    congr 1; omega

theorem fill_free : ∀ (m : Nat) (h : Heap) (b item : Nat) (L : List Nat), FreeRepr h item L → (∀ j ∈ L, j < b) →
    FreeRepr (Heap.fill h (b + 1) m item).1 (Heap.fill h (b + 1) m item).2 (blockItems b m ++ L) := by
  intro m
  induction m with
  | zero => intro h b item L hf _; simpa [Heap.fill, blockItems] using hf
  | succ m ih =>
    intro h b item L hf hL
    simp only [Heap.fill]
    have h1 : FreeRepr (h.setPrev (b + 1) item) (b + 1) (b :: L) := by
      refine ⟨rfl, ?_⟩
      have : (h.setPrev (b + 1) item).prev (b + 1) = item := by simp [Heap.setPrev]
      rw [this]
      refine freeRepr_frame L _ hf ?_
      intro j hj
      have : j ≠ b := by have := hL j hj; omega
      simp [Heap.setPrev, upd1_apply, this]
    have := ih (h.setPrev (b + 1) item) (b + 1) (b + 1) (b :: L) h1
      (by intro j hj; rcases List.mem_cons.mp hj with e | e
          · omega
          · have := hL j e; omega)
    rw [← blockItems_shift, List.append_assoc]
    exact this

/-- **the allocation of the private insert** (`Item* item = freeItem; if(!item) { <new block> }`): the item taken is the one
    the model's `St.alloc` names; the rest of the free list is `St.alloc`'s; nothing else the container can see changes -/
theorem alloc_heap (s : St) (h : Heap) (hr : ReprSt h s) (hO : InvO s)
    (hfresh : s.free = [] → ∀ j, ipbOf s.multi * s.blocks ≤ j → j < ipbOf s.multi * (s.blocks + 1) → j + 1 ≠ h.endItem) :
    ∃ h0, (∀ fuel c cell par k v, leafOf (ipbOf s.multi) fuel h c cell par k v = leafTail fuel h0 c cell par (s.alloc.1 + 1) k v) ∧
      h0.key = h.key ∧ h0.value = h.value ∧ h0.parent = h.parent ∧ h0.left = h.left ∧ h0.right = h.right ∧
      h0.height = h.height ∧ h0.slope = h.slope ∧ h0.root = h.root ∧ h0.next = h.next ∧ h0.beginItem = h.beginItem ∧
      h0.endItem = h.endItem ∧ h0.size = h.size ∧
      (∀ j ∈ s.order, h0.prev (j + 1) = h.prev (j + 1)) ∧ h0.prev h.endItem = h.prev h.endItem ∧
      FreeRepr h0 (h0.prev (s.alloc.1 + 1)) s.alloc.2.free ∧ h0.nblocks = s.alloc.2.blocks ∧
      (∀ j ∈ s.alloc.2.free, j + 1 ≠ h.endItem) ∧ s.alloc.1 + 1 ≠ h.endItem := by
  obtain ⟨al1, al2⟩ := alloc_lifo' s
  cases hfl : s.free with
  | cons i rest =>
    have ha := al1 i rest hfl
    have hfree := hr.free
    rw [hfl] at hfree
    obtain ⟨f1, f2⟩ := hfree
    refine ⟨h, ?_, rfl, rfl, rfl, rfl, rfl, rfl, rfl, rfl, rfl, rfl, rfl, rfl, fun _ _ => rfl, rfl, ?_, ?_, ?_, ?_⟩
    · intro fuel c cell par k v
      unfold leafOf
      rw [if_pos (by rw [f1]; omega), f1, ha]
    · rw [ha]; simp only; rw [← f1]; exact f2
    · rw [ha]; exact hr.blocks
    · rw [ha]; intro j hj; exact hr.endSep j (Or.inr (by rw [hfl]; simp [hj]))
    · rw [ha]; exact hr.endSep i (Or.inr (by rw [hfl]; simp))
  | nil =>
    have ha := al2 hfl
    have hfree := hr.free
    rw [hfl] at hfree
    have hf0 : h.freeItem = 0 := hfree
    have hpos := ipb_pos s.multi
    obtain ⟨n, en⟩ : ∃ n, n = ipbOf s.multi := ⟨_, rfl⟩
    rw [← en] at ha hpos hfresh
    obtain ⟨g, eg⟩ : ∃ g : Heap, g = { h with nblocks := h.nblocks + 1 } := ⟨_, rfl⟩
    obtain ⟨a1, a2, a3, a4, a5, a6, a7, a8, a9, a10, a11, a12, a13, a14, a15, a16⟩ := fill_fields n g (n * h.nblocks + 1) 0
    have hff := fill_free n g (n * h.nblocks) 0 [] rfl (by simp)
    have hab : h.allocBlock n 0 = Heap.fill g (n * h.nblocks + 1) n 0 := by rw [eg]; rfl
    have g1 : g.key = h.key ∧ g.value = h.value ∧ g.parent = h.parent ∧ g.left = h.left ∧ g.right = h.right ∧
        g.height = h.height ∧ g.slope = h.slope ∧ g.root = h.root ∧ g.next = h.next ∧ g.beginItem = h.beginItem ∧
        g.endItem = h.endItem ∧ g.size = h.size ∧ g.prev = h.prev ∧ g.nblocks = h.nblocks + 1 := by
      rw [eg]; exact ⟨rfl, rfl, rfl, rfl, rfl, rfl, rfl, rfl, rfl, rfl, rfl, rfl, rfl, rfl⟩
    obtain ⟨q1, q2, q3, q4, q5, q6, q7, q8, q9, q10, q11, q12, q13, q14⟩ := g1
    rw [if_neg (by omega)] at a16
    have hb := hr.blocks
    have hX : (Heap.fill g (n * h.nblocks + 1) n 0).2 = s.alloc.1 + 1 := by rw [a16, ha, hb]; simp only; omega
    have hbound : ∀ j ∈ s.order, j < n * h.nblocks := by
      intro j hj; rw [hb, en]; exact hO.bound j (by rw [← hO.order]; simp [hj])
    refine ⟨(Heap.fill g (n * h.nblocks + 1) n 0).1.setFree (Heap.fill g (n * h.nblocks + 1) n 0).2, ?_, a1.trans q1, a2.trans q2, a3.trans q3,
      a4.trans q4, a5.trans q5, a6.trans q6, a7.trans q7, a8.trans q8, a9.trans q9, a10.trans q10, a11.trans q11, a12.trans q12,
      ?_, ?_, ?_, ?_, ?_, ?_⟩
    · intro fuel c cell par k v
      unfold leafOf
      rw [if_neg (by omega), ← en, hab, hX]
    · intro j hj
      show (Heap.fill g (n * h.nblocks + 1) n 0).1.prev (j + 1) = h.prev (j + 1)
      rw [a15 (j + 1) (Or.inl (by have := hbound j hj; omega)), q13]
    · show (Heap.fill g (n * h.nblocks + 1) n 0).1.prev h.endItem = h.prev h.endItem
      have : h.endItem < n * h.nblocks + 1 ∨ n * h.nblocks + 1 + n ≤ h.endItem := by
        by_cases hlt : h.endItem < n * h.nblocks + 1
        · exact Or.inl hlt
        · right
          apply Classical.byContradiction
          intro hc
          have := hfresh hfl (h.endItem - 1) (by rw [← hb]; omega) (by rw [← hb, Nat.mul_succ]; omega)
          omega
      rw [a15 _ this, q13]
    · show FreeRepr _ ((Heap.fill g (n * h.nblocks + 1) n 0).1.prev (s.alloc.1 + 1)) s.alloc.2.free
      rw [List.append_nil, blockItems_pos _ _ hpos] at hff
      obtain ⟨e1, e2⟩ := hff
      rw [ha]; simp only
      rw [hb] at e2 ⊢
      have e3 : (Heap.fill g (n * s.blocks + 1) n 0).2 = n * s.blocks + (n - 1) + 1 := by rw [← hb]; rw [hX, ha]; simp only; rw [hb]
      rw [e3] at e2
      exact freeRepr_frame _ _ e2 (fun _ _ => rfl)
    · show (Heap.fill g (n * h.nblocks + 1) n 0).1.nblocks = s.alloc.2.blocks
      rw [a14, q14, ha, hb]
    · rw [ha]; simp only
      intro j hj
      rw [mem_blockItems] at hj
      exact hfresh hfl j hj.1 (by rw [Nat.mul_succ]; omega)
    · rw [ha]; simp only
      exact hfresh hfl _ (by omega) (by rw [Nat.mul_succ]; omega)

end Nstd.Avl
