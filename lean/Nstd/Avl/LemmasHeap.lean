import Nstd.Avl.Model
import Nstd.Avl.Heap
import Nstd.Generated.AvlRot
/-
  The pointer code of the rotations (translated from the current headers into Nstd/Generated/AvlRot.lean)
  against the model's `upd / rotr / rotl / shiftr / shiftl / rebal`.
  `Repr h p par t`: the heap `h` holds the tree `t` at pointer `p` whose parent link is `par`.
-/
namespace Nstd.Avl
open Tree
open Nstd.Avl.Heap

/-- `j` is the id of an item of the tree -/
def Mem (j : Nat) : Tree → Prop
  | .nil => False
  | .node i _ _ _ _ l r => j = i ∨ Mem j l ∨ Mem j r

/-- the item ids of the tree are pairwise different -/
def Distinct : Tree → Prop
  | .nil => True
  | .node i _ _ _ _ l r => ¬ Mem i l ∧ ¬ Mem i r ∧ (∀ j, Mem j l → ¬ Mem j r) ∧ Distinct l ∧ Distinct r

/-- heap `h` holds tree `t` at pointer `p` (item id `i` ↦ pointer `i + 1`, `nil` ↦ null) with parent link `par`:
    every field of every item, all child and parent links -/
def Repr (h : Heap) : Nat → Nat → Tree → Prop
  | p, _, .nil => p = 0
  | p, par, .node i k v ht s l r =>
    p = i + 1 ∧ h.key p = k ∧ h.value p = v ∧ h.parent p = par ∧ h.height p = ht ∧ h.slope p = s ∧
      Repr h (h.left p) p l ∧ Repr h (h.right p) p r

/-- the two heaps agree on every field except `parent` of every item of `t` -/
def SameOn (h h' : Heap) (t : Tree) : Prop :=
  ∀ j, Mem j t → h'.key (j + 1) = h.key (j + 1) ∧ h'.value (j + 1) = h.value (j + 1) ∧
    h'.left (j + 1) = h.left (j + 1) ∧ h'.right (j + 1) = h.right (j + 1) ∧
    h'.height (j + 1) = h.height (j + 1) ∧ h'.slope (j + 1) = h.slope (j + 1)

theorem repr_ptr {h : Heap} {p par : Nat} {t : Tree} (hr : Repr h p par t) : (p ≠ 0 ↔ t ≠ .nil) := by
  cases t with
  | nil => simp [Repr] at hr; simp [hr]
  | node i k v ht s l r => simp [Repr] at hr; simp [hr.1]

theorem repr_ht {h : Heap} {p par : Nat} {t : Tree} (hr : Repr h p par t) :
    (if p ≠ 0 then h.height p else 0) = t.ht := by
  cases t with
  | nil => simp [Repr] at hr; simp [hr, Tree.ht]
  | node i k v hh s l r => simp [Repr] at hr; simp [hr.1, Tree.ht]; rw [← hr.1]; exact hr.2.2.2.2.1

theorem repr_frame {h h' : Heap} {t : Tree} : ∀ {p par : Nat}, Repr h p par t → SameOn h h' t →
    (∀ j, Mem j t → h'.parent (j + 1) = h.parent (j + 1)) → Repr h' p par t := by
  induction t with
  | nil => intro p par hr _ _; exact hr
  | node i k v ht s l r ihl ihr =>
    intro p par hr hs hp
    simp only [Repr] at hr ⊢
    obtain ⟨e, h1, h2, h3, h4, h5, h6, h7⟩ := hr
    subst e
    have a := hs i (Or.inl rfl)
    have b := hp i (Or.inl rfl)
    refine ⟨rfl, by rw [a.1, h1], by rw [a.2.1, h2], by rw [b, h3], by rw [a.2.2.2.2.1, h4], by rw [a.2.2.2.2.2, h5], ?_, ?_⟩
    · rw [a.2.2.1]
      exact ihl h6 (fun j hj => hs j (Or.inr (Or.inl hj))) (fun j hj => hp j (Or.inr (Or.inl hj)))
    · rw [a.2.2.2.1]
      exact ihr h7 (fun j hj => hs j (Or.inr (Or.inr hj))) (fun j hj => hp j (Or.inr (Or.inr hj)))

/-- the same when the parent link of the root of `t` is redirected -/
theorem repr_reparent {h h' : Heap} {t : Tree} {p par par' : Nat} (hr : Repr h p par t) (hd : Distinct t)
    (hs : SameOn h h' t) (hp : ∀ j, Mem j t → j + 1 ≠ p → h'.parent (j + 1) = h.parent (j + 1))
    (hroot : p ≠ 0 → h'.parent p = par') : Repr h' p par' t := by
  cases t with
  | nil => exact hr
  | node i k v ht s l r =>
    simp only [Repr] at hr ⊢
    simp only [Distinct] at hd
    obtain ⟨e, h1, h2, h3, h4, h5, h6, h7⟩ := hr
    subst e
    have a := hs i (Or.inl rfl)
    refine ⟨rfl, by rw [a.1, h1], by rw [a.2.1, h2], hroot (by omega), by rw [a.2.2.2.2.1, h4], by rw [a.2.2.2.2.2, h5], ?_, ?_⟩
    · rw [a.2.2.1]
      refine repr_frame h6 (fun j hj => hs j (Or.inr (Or.inl hj))) (fun j hj => hp j (Or.inr (Or.inl hj)) ?_)
      intro e; have : j = i := by omega
      subst this; exact hd.1 hj
    · rw [a.2.2.2.1]
      refine repr_frame h7 (fun j hj => hs j (Or.inr (Or.inr hj))) (fun j hj => hp j (Or.inr (Or.inr hj)) ?_)
      intro e; have : j = i := by omega
      subst this; exact hd.2.1 hj

open Nstd.Generated.AvlRot

def CellAt (c : Cell) (par : Nat) : Prop :=
  match c with
  | .root => par = 0
  | .left p => p = par ∧ par ≠ 0
  | .right p => p = par ∧ par ≠ 0

structure Frame (h h' : Heap) (c : Cell) (t : Tree) : Prop where
  key : h'.key = h.key
  value : h'.value = h.value
  parent : ∀ q, (∀ j, Mem j t → q ≠ j + 1) → h'.parent q = h.parent q
  height : ∀ q, (∀ j, Mem j t → q ≠ j + 1) → h'.height q = h.height q
  slope : ∀ q, (∀ j, Mem j t → q ≠ j + 1) → h'.slope q = h.slope q
  left : ∀ q, (∀ j, Mem j t → q ≠ j + 1) → c ≠ .left q → h'.left q = h.left q
  right : ∀ q, (∀ j, Mem j t → q ≠ j + 1) → c ≠ .right q → h'.right q = h.right q
  root : c ≠ .root → h'.root = h.root

theorem repr_root {h : Heap} {p par : Nat} {t : Tree} (hr : Repr h p par t) : p = 0 ∨ ∃ j, Mem j t ∧ p = j + 1 := by
  cases t with
  | nil => left; exact hr
  | node i k v hh s l r => right; exact ⟨i, Or.inl rfl, hr.1⟩


/-- left-subtree height as `updateHeightAndSlope` reads it -/
def lhOf (h : Heap) (p : Nat) : Nat := if h.left p ≠ 0 then h.height (h.left p) else 0
def rhOf (h : Heap) (p : Nat) : Nat := if h.right p ≠ 0 then h.height (h.right p) else 0

theorem upd_fields (h : Heap) (p : Nat) :
    Map.updateHeightAndSlope h p =
      { h with height := upd1 h.height p (max (lhOf h p) (rhOf h p) + 1),
               slope := upd1 h.slope p ((lhOf h p : Int) - (rhOf h p : Int)) } := by
  unfold Map.updateHeightAndSlope lhOf rhOf
  simp only [Heap.setHeight, Heap.setSlope]
  congr 2
  grind

theorem set_left (h : Heap) (c : Cell) (v q : Nat) : (h.set c v).left q = if c = .left q then v else h.left q := by
  cases c <;> simp [Heap.set, Heap.setLeft, Heap.setRight, upd1_apply, eq_comm]
theorem set_right (h : Heap) (c : Cell) (v q : Nat) : (h.set c v).right q = if c = .right q then v else h.right q := by
  cases c <;> simp [Heap.set, Heap.setLeft, Heap.setRight, upd1_apply, eq_comm]
theorem set_root (h : Heap) (c : Cell) (v : Nat) : (h.set c v).root = if c = .root then v else h.root := by
  cases c <;> simp [Heap.set, Heap.setLeft, Heap.setRight]
theorem set_parent (h : Heap) (c : Cell) (v : Nat) : (h.set c v).parent = h.parent := by
  cases c <;> rfl
theorem set_height (h : Heap) (c : Cell) (v : Nat) : (h.set c v).height = h.height := by
  cases c <;> rfl
theorem set_slope (h : Heap) (c : Cell) (v : Nat) : (h.set c v).slope = h.slope := by
  cases c <;> rfl
theorem set_key (h : Heap) (c : Cell) (v : Nat) : (h.set c v).key = h.key := by
  cases c <;> rfl
theorem set_value (h : Heap) (c : Cell) (v : Nat) : (h.set c v).value = h.value := by
  cases c <;> rfl
theorem get_def (h : Heap) (c : Cell) : h.get c = match c with | .root => h.root | .left p => h.left p | .right p => h.right p := by
  cases c <;> rfl
theorem cell_ne_left {c : Cell} {par q : Nat} (hc : CellAt c par) (hq : q ≠ par) : c ≠ .left q := by
  cases c <;> simp_all [CellAt]
  omega
theorem cell_ne_right {c : Cell} {par q : Nat} (hc : CellAt c par) (hq : q ≠ par) : c ≠ .right q := by
  cases c <;> simp_all [CellAt]
  omega

theorem ht_node_h (i : Nat) (k v : Int) (hh : Nat) (s : Int) (l r : Tree) : (node i k v hh s l r).ht = hh := rfl
theorem get_upd (h : Heap) (p : Nat) (c : Cell) : (Map.updateHeightAndSlope h p).get c = h.get c := by
  rw [upd_fields]; cases c <;> rfl
theorem get_set_self (h : Heap) (c : Cell) (v : Nat) : (h.set c v).get c = v := by
  cases c <;> simp [Heap.set, Heap.get, Heap.setLeft, Heap.setRight]

theorem rotr_repr (h : Heap) (c : Cell) (par i : Nat) (k v : Int) (hh : Nat) (s : Int) (li : Nat) (lk lv : Int) (lh : Nat) (ls : Int)
    (ll lr r : Tree) (hc : CellAt c par)
    (hpar : ∀ j, Mem j (node i k v hh s (node li lk lv lh ls ll lr) r) → par ≠ j + 1)
    (hd : Distinct (node i k v hh s (node li lk lv lh ls ll lr) r))
    (hr : Repr h (h.get c) par (node i k v hh s (node li lk lv lh ls ll lr) r)) :
    Repr (Map.rotr h c) ((Map.rotr h c).get c) par (Tree.rotr (node i k v hh s (node li lk lv lh ls ll lr) r)) ∧
    Frame h (Map.rotr h c) c (node i k v hh s (node li lk lv lh ls ll lr) r) := by
  simp only [Repr] at hr
  obtain ⟨eP, kP, vP, pP, hP, sP, ⟨eQ, kQ, vQ, pQ, hQ, sQ, rLL, rLR⟩, rR⟩ := hr
  simp only [Distinct, Mem] at hd hpar
  have hLL := repr_ht rLL
  have hLR := repr_ht rLR
  have hR := repr_ht rR
  have nLL := repr_root rLL
  have nLR := repr_root rLR
  have nR := repr_root rR
  generalize hPd : h.get c = P at *
  generalize hQd : h.left P = Q at *
  generalize hTd : h.right Q = T at *
  generalize hLd : h.left Q = L at *
  generalize hRd : h.right P = R at *
  have hPQ : P ≠ Q := by grind
  have hPpar : P ≠ par := by have := hpar i (by grind); omega
  have hQpar : Q ≠ par := by have := hpar li (by grind); omega
  have c1 := cell_ne_left hc hPpar
  have c2 := cell_ne_right hc hPpar
  have c3 := cell_ne_left hc hQpar
  have c4 := cell_ne_right hc hQpar
  have hLP : L ≠ P := by grind
  have hP0 : P ≠ 0 := by omega
  have hQ0 : Q ≠ 0 := by omega
  have key : ∃ h', Map.rotr h c = h' ∧ h'.key = h.key ∧ h'.value = h.value ∧
      (∀ q, h'.parent q = if q = P then Q else if (T ≠ 0 ∧ q = T) then P else if q = Q then par else h.parent q) ∧
      (∀ q, h'.left q = if c = .left q then Q else if q = P then T else h.left q) ∧
      (∀ q, h'.right q = if c = .right q then Q else if q = Q then P else h.right q) ∧
      (h'.root = if c = .root then Q else h.root) ∧
      (∀ q, h'.height q = if q = Q then max ll.ht (max lr.ht r.ht + 1) + 1 else if q = P then max lr.ht r.ht + 1 else h.height q) ∧
      (∀ q, h'.slope q = if q = Q then (ll.ht : Int) - ((max lr.ht r.ht + 1 : Nat) : Int) else if q = P then (lr.ht : Int) - (r.ht : Int) else h.slope q) := by
    refine ⟨_, rfl, ?_⟩
    unfold Map.rotr
    simp only [hPd, hQd, hTd]
    by_cases hT : T = 0
    · simp only [hT, ne_eq, not_true_eq_false, if_false]
      simp only [upd_fields, set_left, set_right, set_root, set_parent, set_height, set_slope, set_key, set_value,
        Heap.setParent, Heap.setLeft, Heap.setRight, upd1_apply, lhOf, rhOf, c1, c2, c3, c4, if_false, if_true, hPQ, hPQ.symm]
      refine ⟨trivial, trivial, ?_, ?_, ?_, trivial, ?_, ?_⟩
      · intro q; grind
      · intro q; grind
      · intro q; grind
      · intro q; grind
      · intro q; grind
    · have hTP : T ≠ P := by grind
      have hTQ : T ≠ Q := by grind
      simp only [hT, ne_eq, not_false_eq_true, if_true]
      simp only [upd_fields, set_left, set_right, set_root, set_parent, set_height, set_slope, set_key, set_value,
        Heap.setParent, Heap.setLeft, Heap.setRight, upd1_apply, lhOf, rhOf, c1, c2, c3, c4, if_false, if_true, hPQ, hPQ.symm]
      refine ⟨trivial, trivial, ?_, ?_, ?_, trivial, ?_, ?_⟩
      · intro q; grind
      · intro q; grind
      · intro q; grind
      · intro q; grind
      · intro q; grind
  obtain ⟨h', e', fk, fv, fp, fl, fr, frt, fh, fs⟩ := key
  rw [e']
  clear e'
  have hg : h'.get c = Q := by
    rw [get_def]
    cases c with
    | root => simp only [frt, if_true]
    | left p => grind
    | right p => grind
  rw [hg]
  have sub : ∀ j, (Mem j ll ∨ Mem j lr ∨ Mem j r) → j + 1 ≠ P ∧ j + 1 ≠ Q ∧ j + 1 ≠ par := by
    intro j hj
    have h1 : j ≠ i := by grind
    have h2 : j ≠ li := by grind
    have h3 : par ≠ j + 1 := by apply hpar; grind
    omega
  have same : ∀ t', (∀ j, Mem j t' → (Mem j ll ∨ Mem j lr ∨ Mem j r)) → SameOn h h' t' := by
    intro t' ht' j hj
    obtain ⟨a1, a2, a3⟩ := sub j (ht' j hj)
    have b1 := cell_ne_left hc a3
    have b2 := cell_ne_right hc a3
    simp only [fk, fv, fl, fr, fh, fs, a1, a2, b1, b2, if_false, and_self]
  have samep : ∀ j, (Mem j ll ∨ Mem j lr ∨ Mem j r) → j + 1 ≠ T → h'.parent (j + 1) = h.parent (j + 1) := by
    intro j hj hjT
    obtain ⟨a1, a2, a3⟩ := sub j hj
    simp only [fp, a1, a2, hjT, and_false, if_false]
  have eQR : h'.right Q = P := by simp only [fr, c4, if_false, if_true]
  have eQL : h'.left Q = L := by simp only [fl, c3, hPQ.symm, if_false, hLd]
  have ePL : h'.left P = T := by simp only [fl, c1, if_false, if_true]
  have ePR : h'.right P = R := by simp only [fr, c2, hPQ, if_false, hRd]
  refine ⟨?_, ?_⟩
  · simp only [Tree.rotr, Tree.upd, Repr, ht_node_h, eQR, eQL, ePL, ePR]
    refine ⟨eQ, ?_, ?_, ?_, ?_, ?_, ?_, eP, ?_, ?_, ?_, ?_, ?_, ?_, ?_⟩
    · rw [fk]; exact kQ
    · rw [fv]; exact vQ
    · simp only [fp, hPQ.symm, if_false, if_true]; grind
    · simp only [fh, if_true]
    · simp only [fs, if_true]
    · refine repr_frame rLL (same ll (fun j hj => by grind)) (fun j hj => samep j (by grind) ?_)
      grind
    · rw [fk]; exact kP
    · rw [fv]; exact vP
    · simp only [fp, if_true]
    · simp only [fh, hPQ, if_false, if_true]
    · simp only [fs, hPQ, if_false, if_true]
    · refine repr_reparent rLR (by grind) (same lr (fun j hj => by grind)) (fun j hj hne => samep j (by grind) hne) ?_
      intro hT
      simp only [fp]; grind
    · refine repr_frame rR (same r (fun j hj => by grind)) (fun j hj => samep j (by grind) ?_)
      grind
  · have out : ∀ q, (∀ j, Mem j (node i k v hh s (node li lk lv lh ls ll lr) r) → q ≠ j + 1) → q ≠ P ∧ q ≠ Q ∧ ¬ (T ≠ 0 ∧ q = T) := by
      intro q hq
      simp only [Mem] at hq
      refine ⟨by have := hq i (by grind); omega, by have := hq li (by grind); omega, ?_⟩
      rintro ⟨hT, e⟩
      rcases nLR with e0 | ⟨j, hj, e1⟩
      · exact hT e0
      · exact hq j (by grind) (by omega)
    refine ⟨fk, fv, ?_, ?_, ?_, ?_, ?_, ?_⟩
    · intro q hq; obtain ⟨a1, a2, a3⟩ := out q hq; simp only [fp, a1, a2, a3, if_false]
    · intro q hq; obtain ⟨a1, a2, a3⟩ := out q hq; simp only [fh, a1, a2, if_false]
    · intro q hq; obtain ⟨a1, a2, a3⟩ := out q hq; simp only [fs, a1, a2, if_false]
    · intro q hq hcq; obtain ⟨a1, a2, a3⟩ := out q hq
      grind
    · intro q hq hcq; obtain ⟨a1, a2, a3⟩ := out q hq
      grind
    · intro hcr; simp only [frt, hcr, if_false]

theorem rotl_repr (h : Heap) (c : Cell) (par i : Nat) (k v : Int) (hh : Nat) (s : Int) (li : Nat) (lk lv : Int) (lh : Nat) (ls : Int)
    (ll lr r : Tree) (hc : CellAt c par)
    (hpar : ∀ j, Mem j (node i k v hh s r (node li lk lv lh ls lr ll)) → par ≠ j + 1)
    (hd : Distinct (node i k v hh s r (node li lk lv lh ls lr ll)))
    (hr : Repr h (h.get c) par (node i k v hh s r (node li lk lv lh ls lr ll))) :
    Repr (Map.rotl h c) ((Map.rotl h c).get c) par (Tree.rotl (node i k v hh s r (node li lk lv lh ls lr ll))) ∧
    Frame h (Map.rotl h c) c (node i k v hh s r (node li lk lv lh ls lr ll)) := by
  simp only [Repr] at hr
  obtain ⟨eP, kP, vP, pP, hP, sP, rR, ⟨eQ, kQ, vQ, pQ, hQ, sQ, rLR, rLL⟩⟩ := hr
  simp only [Distinct, Mem] at hd hpar
  have hLL := repr_ht rLL
  have hLR := repr_ht rLR
  have hR := repr_ht rR
  have nLL := repr_root rLL
  have nLR := repr_root rLR
  have nR := repr_root rR
  generalize hPd : h.get c = P at *
  generalize hQd : h.right P = Q at *
  generalize hTd : h.left Q = T at *
  generalize hLd : h.right Q = L at *
  generalize hRd : h.left P = R at *
  have hPQ : P ≠ Q := by grind
  have hPpar : P ≠ par := by have := hpar i (by grind); omega
  have hQpar : Q ≠ par := by have := hpar li (by grind); omega
  have c1 := cell_ne_right hc hPpar
  have c2 := cell_ne_left hc hPpar
  have c3 := cell_ne_right hc hQpar
  have c4 := cell_ne_left hc hQpar
  have hLP : L ≠ P := by grind
  have hP0 : P ≠ 0 := by omega
  have hQ0 : Q ≠ 0 := by omega
  have key : ∃ h', Map.rotl h c = h' ∧ h'.key = h.key ∧ h'.value = h.value ∧
      (∀ q, h'.parent q = if q = P then Q else if (T ≠ 0 ∧ q = T) then P else if q = Q then par else h.parent q) ∧
      (∀ q, h'.right q = if c = .right q then Q else if q = P then T else h.right q) ∧
      (∀ q, h'.left q = if c = .left q then Q else if q = Q then P else h.left q) ∧
      (h'.root = if c = .root then Q else h.root) ∧
      (∀ q, h'.height q = if q = Q then max (max r.ht lr.ht + 1) ll.ht + 1 else if q = P then max r.ht lr.ht + 1 else h.height q) ∧
      (∀ q, h'.slope q = if q = Q then ((max r.ht lr.ht + 1 : Nat) : Int) - (ll.ht : Int) else if q = P then (r.ht : Int) - (lr.ht : Int) else h.slope q) := by
    refine ⟨_, rfl, ?_⟩
    unfold Map.rotl
    simp only [hPd, hQd, hTd]
    by_cases hT : T = 0
    · simp only [hT, ne_eq, not_true_eq_false, if_false]
      simp only [upd_fields, set_right, set_left, set_root, set_parent, set_height, set_slope, set_key, set_value,
        Heap.setParent, Heap.setRight, Heap.setLeft, upd1_apply, lhOf, rhOf, c1, c2, c3, c4, if_false, if_true, hPQ, hPQ.symm]
      refine ⟨trivial, trivial, ?_, ?_, ?_, trivial, ?_, ?_⟩
      · intro q; grind
      · intro q; grind
      · intro q; grind
      · intro q; grind
      · intro q; grind
    · have hTP : T ≠ P := by grind
      have hTQ : T ≠ Q := by grind
      simp only [hT, ne_eq, not_false_eq_true, if_true]
      simp only [upd_fields, set_right, set_left, set_root, set_parent, set_height, set_slope, set_key, set_value,
        Heap.setParent, Heap.setRight, Heap.setLeft, upd1_apply, lhOf, rhOf, c1, c2, c3, c4, if_false, if_true, hPQ, hPQ.symm]
      refine ⟨trivial, trivial, ?_, ?_, ?_, trivial, ?_, ?_⟩
      · intro q; grind
      · intro q; grind
      · intro q; grind
      · intro q; grind
      · intro q; grind
  obtain ⟨h', e', fk, fv, fp, fl, fr, frt, fh, fs⟩ := key
  rw [e']
  clear e'
  have hg : h'.get c = Q := by
    rw [get_def]
    cases c with
    | root => simp only [frt, if_true]
    | left p => grind
    | right p => grind
  rw [hg]
  have sub : ∀ j, (Mem j ll ∨ Mem j lr ∨ Mem j r) → j + 1 ≠ P ∧ j + 1 ≠ Q ∧ j + 1 ≠ par := by
    intro j hj
    have h1 : j ≠ i := by grind
    have h2 : j ≠ li := by grind
    have h3 : par ≠ j + 1 := by apply hpar; grind
    omega
  have same : ∀ t', (∀ j, Mem j t' → (Mem j ll ∨ Mem j lr ∨ Mem j r)) → SameOn h h' t' := by
    intro t' ht' j hj
    obtain ⟨a1, a2, a3⟩ := sub j (ht' j hj)
    have b1 := cell_ne_right hc a3
    have b2 := cell_ne_left hc a3
    simp only [fk, fv, fl, fr, fh, fs, a1, a2, b1, b2, if_false, and_self]
  have samep : ∀ j, (Mem j ll ∨ Mem j lr ∨ Mem j r) → j + 1 ≠ T → h'.parent (j + 1) = h.parent (j + 1) := by
    intro j hj hjT
    obtain ⟨a1, a2, a3⟩ := sub j hj
    simp only [fp, a1, a2, hjT, and_false, if_false]
  have eQR : h'.left Q = P := by simp only [fr, c4, if_false, if_true]
  have eQL : h'.right Q = L := by simp only [fl, c3, hPQ.symm, if_false, hLd]
  have ePL : h'.right P = T := by simp only [fl, c1, if_false, if_true]
  have ePR : h'.left P = R := by simp only [fr, c2, hPQ, if_false, hRd]
  refine ⟨?_, ?_⟩
  · simp only [Tree.rotl, Tree.upd, Repr, ht_node_h, eQR, eQL, ePL, ePR]
    refine ⟨eQ, ?_, ?_, ?_, ?_, ?_, ⟨eP, ?_, ?_, ?_, ?_, ?_, ?_, ?_⟩, ?_⟩
    · rw [fk]; exact kQ
    · rw [fv]; exact vQ
    · simp only [fp, hPQ.symm, if_false, if_true]; grind
    · simp only [fh, if_true]
    · simp only [fs, if_true]
    · rw [fk]; exact kP
    · rw [fv]; exact vP
    · simp only [fp, if_true]
    · simp only [fh, hPQ, if_false, if_true]
    · simp only [fs, hPQ, if_false, if_true]
    · refine repr_frame rR (same r (fun j hj => by grind)) (fun j hj => samep j (by grind) ?_)
      grind
    · refine repr_reparent rLR (by grind) (same lr (fun j hj => by grind)) (fun j hj hne => samep j (by grind) hne) ?_
      intro hT
      simp only [fp]; grind
    · refine repr_frame rLL (same ll (fun j hj => by grind)) (fun j hj => samep j (by grind) ?_)
      grind
  · have out : ∀ q, (∀ j, Mem j (node i k v hh s r (node li lk lv lh ls lr ll)) → q ≠ j + 1) → q ≠ P ∧ q ≠ Q ∧ ¬ (T ≠ 0 ∧ q = T) := by
      intro q hq
      simp only [Mem] at hq
      refine ⟨by have := hq i (by grind); omega, by have := hq li (by grind); omega, ?_⟩
      rintro ⟨hT, e⟩
      rcases nLR with e0 | ⟨j, hj, e1⟩
      · exact hT e0
      · exact hq j (by grind) (by omega)
    refine ⟨fk, fv, ?_, ?_, ?_, ?_, ?_, ?_⟩
    · intro q hq; obtain ⟨a1, a2, a3⟩ := out q hq; simp only [fp, a1, a2, a3, if_false]
    · intro q hq; obtain ⟨a1, a2, a3⟩ := out q hq; simp only [fh, a1, a2, if_false]
    · intro q hq; obtain ⟨a1, a2, a3⟩ := out q hq; simp only [fs, a1, a2, if_false]
    · intro q hq hcq; obtain ⟨a1, a2, a3⟩ := out q hq
      grind
    · intro q hq hcq; obtain ⟨a1, a2, a3⟩ := out q hq
      grind
    · intro hcr; simp only [frt, hcr, if_false]

theorem repr_node_iff (h : Heap) (p par i : Nat) (k v : Int) (hh : Nat) (s : Int) (l r : Tree) :
    Repr h p par (node i k v hh s l r) ↔ (p = i + 1 ∧ h.key p = k ∧ h.value p = v ∧ h.parent p = par ∧ h.height p = hh ∧
      h.slope p = s ∧ Repr h (h.left p) p l ∧ Repr h (h.right p) p r) := Iff.rfl

theorem frame_comp {h h1 h2 : Heap} {c : Cell} {t t' l : Tree} {P : Nat} (side : Cell)
    (hside : side = .left P ∨ side = .right P)
    (f1 : Frame h h1 side l) (f2 : Frame h1 h2 c t')
    (hl : ∀ j, Mem j l → Mem j t) (ht' : ∀ j, Mem j t' → Mem j t) (hP : ∃ i, Mem i t ∧ P = i + 1) :
    Frame h h2 c t := by
  obtain ⟨i, hi, eP⟩ := hP
  have o1 : ∀ q, (∀ j, Mem j t → q ≠ j + 1) → (∀ j, Mem j l → q ≠ j + 1) := fun q hq j hj => hq j (hl j hj)
  have o2 : ∀ q, (∀ j, Mem j t → q ≠ j + 1) → (∀ j, Mem j t' → q ≠ j + 1) := fun q hq j hj => hq j (ht' j hj)
  refine ⟨by rw [f2.key, f1.key], by rw [f2.value, f1.value], ?_, ?_, ?_, ?_, ?_, ?_⟩
  · intro q hq; rw [f2.parent q (o2 q hq), f1.parent q (o1 q hq)]
  · intro q hq; rw [f2.height q (o2 q hq), f1.height q (o1 q hq)]
  · intro q hq; rw [f2.slope q (o2 q hq), f1.slope q (o1 q hq)]
  · intro q hq hc; rw [f2.left q (o2 q hq) hc, f1.left q (o1 q hq)]
    have := hq i hi
    rcases hside with e | e <;> subst e <;> simp <;> omega
  · intro q hq hc; rw [f2.right q (o2 q hq) hc, f1.right q (o1 q hq)]
    have := hq i hi
    rcases hside with e | e <;> subst e <;> simp <;> omega
  · intro hc; rw [f2.root hc, f1.root]
    rcases hside with e | e <;> subst e <;> simp

theorem shiftr_repr (h : Heap) (c : Cell) (par i : Nat) (k v : Int) (hh : Nat) (s : Int) (li : Nat) (lk lv : Int) (lh : Nat) (ls : Int)
    (ll lr r : Tree) (hc : CellAt c par)
    (hpar : ∀ j, Mem j (node i k v hh s (node li lk lv lh ls ll lr) r) → par ≠ j + 1)
    (hd : Distinct (node i k v hh s (node li lk lv lh ls ll lr) r))
    (hr : Repr h (h.get c) par (node i k v hh s (node li lk lv lh ls ll lr) r))
    (hok : ls = -1 → lr ≠ nil) :
    Repr (Map.shiftr h c) ((Map.shiftr h c).get c) par (Tree.shiftr (node i k v hh s (node li lk lv lh ls ll lr) r)) ∧
    Frame h (Map.shiftr h c) c (node i k v hh s (node li lk lv lh ls ll lr) r) := by
  have hr0 := hr
  rw [repr_node_iff] at hr
  obtain ⟨eP, kP, vP, pP, hP, sP, rL, rR⟩ := hr
  have rL0 := rL
  rw [repr_node_iff] at rL
  obtain ⟨eQ, kQ, vQ, pQ, hQ, sQ, rLL, rLR⟩ := rL
  unfold Map.shiftr
  simp only [Tree.shiftr, Tree.slope, sQ]
  by_cases hls : ls = -1
  · simp only [hls, if_true]
    cases lr with
    | nil => exact absurd rfl (hok hls)
    | node lri lrk lrv lrh lrs lrl lrr =>
      generalize hPd : h.get c = P at *
      simp only [Distinct, Mem] at hd hpar
      have hP0 : P ≠ 0 := by omega
      have hPpar : P ≠ par := by have := hpar i (by grind); omega
      obtain ⟨q1, q2⟩ := rotl_repr h (Cell.left P) P li lk lv lh ls lri lrk lrv lrh lrs lrr lrl ll ⟨rfl, hP0⟩
        (by simp only [Mem]; intro j hj; grind) (by simp only [Distinct, Mem]; grind) rL0
      generalize Map.rotl h (Cell.left P) = h1 at q1 q2
      simp only [Heap.get] at q1
      have hg1 : h1.get c = P := by
        rw [← hPd]
        cases c with
        | root => exact q2.root (by simp)
        | left p =>
          simp only [CellAt] at hc
          refine q2.left p ?_ ?_
          · simp only [Mem]; intro j hj; have := hpar j (by grind); omega
          · simp <;> omega
        | right p =>
          simp only [CellAt] at hc
          refine q2.right p ?_ ?_
          · simp only [Mem]; intro j hj; have := hpar j (by grind); omega
          · simp <;> omega
      have outP : ∀ j, Mem j (node li lk lv lh ls ll (node lri lrk lrv lrh lrs lrl lrr)) → P ≠ j + 1 := by
        simp only [Mem]; intro j hj; grind
      have hr1 : Repr h1 (h1.get c) par (node i k v hh s (Tree.rotl (node li lk lv lh ls ll (node lri lrk lrv lrh lrs lrl lrr))) r) := by
        rw [hg1]
        simp only [Repr]
        refine ⟨eP, by rw [q2.key]; exact kP, by rw [q2.value]; exact vP, by rw [q2.parent P outP]; exact pP,
          by rw [q2.height P outP]; exact hP, by rw [q2.slope P outP]; exact sP, q1, ?_⟩
        rw [q2.right P outP (by simp)]
        refine repr_frame rR ?_ ?_
        · intro j hj
          have o : ∀ j', Mem j' (node li lk lv lh ls ll (node lri lrk lrv lrh lrs lrl lrr)) → j + 1 ≠ j' + 1 := by
            simp only [Mem]; intro j' hj'; grind
          have n1 : j + 1 ≠ P := by grind
          refine ⟨by rw [q2.key], by rw [q2.value], q2.left _ o (by simp <;> omega), q2.right _ o (by simp <;> omega), q2.height _ o, q2.slope _ o⟩
        · intro j hj
          refine q2.parent _ ?_
          simp only [Mem]; intro j' hj'; grind
      simp only [Tree.rotl, Tree.upd] at hr1 ⊢
      obtain ⟨w1, w2⟩ := rotr_repr h1 c par i k v hh s lri lrk lrv _ _ _ lrr r hc
        (by simp only [Mem]; intro j hj; apply hpar; grind) (by simp only [Distinct, Mem]; grind) hr1
      refine ⟨w1, ?_⟩
      refine frame_comp (Cell.left P) (Or.inl rfl) q2 w2 ?_ ?_ ⟨i, by simp [Mem], eP⟩
      · simp only [Mem]; intro j hj; grind
      · simp only [Mem]; intro j hj; grind
  · simp only [hls, if_false]
    exact rotr_repr h c par i k v hh s li lk lv lh ls ll lr r hc hpar hd hr0
theorem shiftl_repr (h : Heap) (c : Cell) (par i : Nat) (k v : Int) (hh : Nat) (s : Int) (li : Nat) (lk lv : Int) (lh : Nat) (ls : Int)
    (ll lr r : Tree) (hc : CellAt c par)
    (hpar : ∀ j, Mem j (node i k v hh s r (node li lk lv lh ls lr ll)) → par ≠ j + 1)
    (hd : Distinct (node i k v hh s r (node li lk lv lh ls lr ll)))
    (hr : Repr h (h.get c) par (node i k v hh s r (node li lk lv lh ls lr ll)))
    (hok : ls = 1 → lr ≠ nil) :
    Repr (Map.shiftl h c) ((Map.shiftl h c).get c) par (Tree.shiftl (node i k v hh s r (node li lk lv lh ls lr ll))) ∧
    Frame h (Map.shiftl h c) c (node i k v hh s r (node li lk lv lh ls lr ll)) := by
  have hr0 := hr
  rw [repr_node_iff] at hr
  obtain ⟨eP, kP, vP, pP, hP, sP, rR, rL⟩ := hr
  have rL0 := rL
  rw [repr_node_iff] at rL
  obtain ⟨eQ, kQ, vQ, pQ, hQ, sQ, rLR, rLL⟩ := rL
  unfold Map.shiftl
  simp only [Tree.shiftl, Tree.slope, sQ]
  by_cases hls : ls = 1
  · simp only [hls, if_true]
    cases lr with
    | nil => exact absurd rfl (hok hls)
    | node lri lrk lrv lrh lrs lrl lrr =>
      generalize hPd : h.get c = P at *
      simp only [Distinct, Mem] at hd hpar
      have hP0 : P ≠ 0 := by omega
      have hPpar : P ≠ par := by have := hpar i (by grind); omega
      obtain ⟨q1, q2⟩ := rotr_repr h (Cell.right P) P li lk lv lh ls lri lrk lrv lrh lrs lrl lrr ll ⟨rfl, hP0⟩
        (by simp only [Mem]; intro j hj; grind) (by simp only [Distinct, Mem]; grind) rL0
      generalize Map.rotr h (Cell.right P) = h1 at q1 q2
      simp only [Heap.get] at q1
      have hg1 : h1.get c = P := by
        rw [← hPd]
        cases c with
        | root => exact q2.root (by simp)
        | left p =>
          simp only [CellAt] at hc
          refine q2.left p ?_ ?_
          · simp only [Mem]; intro j hj; have := hpar j (by grind); omega
          · simp <;> omega
        | right p =>
          simp only [CellAt] at hc
          refine q2.right p ?_ ?_
          · simp only [Mem]; intro j hj; have := hpar j (by grind); omega
          · simp <;> omega
      have outP : ∀ j, Mem j (node li lk lv lh ls (node lri lrk lrv lrh lrs lrl lrr) ll) → P ≠ j + 1 := by
        simp only [Mem]; intro j hj; grind
      have hr1 : Repr h1 (h1.get c) par (node i k v hh s r (Tree.rotr (node li lk lv lh ls (node lri lrk lrv lrh lrs lrl lrr) ll))) := by
        rw [hg1]
        simp only [Repr]
        refine ⟨eP, by rw [q2.key]; exact kP, by rw [q2.value]; exact vP, by rw [q2.parent P outP]; exact pP,
          by rw [q2.height P outP]; exact hP, by rw [q2.slope P outP]; exact sP, ?_, q1⟩
        rw [q2.left P outP (by simp)]
        refine repr_frame rR ?_ ?_
        · intro j hj
          have o : ∀ j', Mem j' (node li lk lv lh ls (node lri lrk lrv lrh lrs lrl lrr) ll) → j + 1 ≠ j' + 1 := by
            simp only [Mem]; intro j' hj'; grind
          have n1 : j + 1 ≠ P := by grind
          refine ⟨by rw [q2.key], by rw [q2.value], q2.left _ o (by simp <;> omega), q2.right _ o (by simp <;> omega), q2.height _ o, q2.slope _ o⟩
        · intro j hj
          refine q2.parent _ ?_
          simp only [Mem]; intro j' hj'; grind
      simp only [Tree.rotr, Tree.upd] at hr1 ⊢
      obtain ⟨w1, w2⟩ := rotl_repr h1 c par i k v hh s lri lrk lrv _ _ _ lrl r hc
        (by simp only [Mem]; intro j hj; apply hpar; grind) (by simp only [Distinct, Mem]; grind) hr1
      refine ⟨w1, ?_⟩
      refine frame_comp (Cell.right P) (Or.inr rfl) q2 w2 ?_ ?_ ⟨i, by simp [Mem], eP⟩
      · simp only [Mem]; intro j hj; grind
      · simp only [Mem]; intro j hj; grind
  · simp only [hls, if_false]
    exact rotl_repr h c par i k v hh s li lk lv lh ls ll lr r hc hpar hd hr0


/-- what `rebal` needs of the stored slope fields to dereference only items that exist: a left-heavy item has a
    left child, and if that child leans right it has a right child (and mirrored) -/
def RebalOk : Tree → Prop
  | .nil => False
  | .node _ _ _ _ s l r =>
    (s > 1 → ∃ li lk lv lh ls ll lr, l = .node li lk lv lh ls ll lr ∧ (ls = -1 → lr ≠ .nil)) ∧
    (s < -1 → ∃ ri rk rv rh rs rl rr, r = .node ri rk rv rh rs rl rr ∧ (rs = 1 → rl ≠ .nil))

theorem frame_refl (h : Heap) (c : Cell) (t : Tree) : Frame h h c t :=
  ⟨rfl, rfl, fun _ _ => rfl, fun _ _ => rfl, fun _ _ => rfl, fun _ _ _ => rfl, fun _ _ _ => rfl, fun _ => rfl⟩

theorem rebal_repr (h : Heap) (c : Cell) (par : Nat) (t : Tree) (hc : CellAt c par)
    (hcell : c = .right par → h.left par ≠ h.get c)
    (hpar : ∀ j, Mem j t → par ≠ j + 1) (hd : Distinct t) (hr : Repr h (h.get c) par t) (hok : RebalOk t) :
    Repr (Map.rebal h (h.get c)).1 (Map.rebal h (h.get c)).2 par (Tree.rebal t) ∧
    (Map.rebal h (h.get c)).2 = (Map.rebal h (h.get c)).1.get c ∧
    Frame h (Map.rebal h (h.get c)).1 c t := by
  cases t with
  | nil => exact absurd hok (by simp [RebalOk])
  | node i k v hh s l r =>
    have hr0 := hr
    rw [repr_node_iff] at hr
    obtain ⟨eP, kP, vP, pP, hP, sP, rL, rR⟩ := hr
    have hcellEq : (if h.parent (h.get c) ≠ 0 then (if h.left (h.parent (h.get c)) = h.get c then Cell.left (h.parent (h.get c))
        else Cell.right (h.parent (h.get c))) else Cell.root) = c := by
      rw [pP]
      cases c with
      | root => simp only [CellAt] at hc; simp [hc]
      | left p =>
        simp only [CellAt] at hc
        obtain ⟨e1, e2⟩ := hc
        subst e1
        simp [e2, Heap.get]
      | right p =>
        simp only [CellAt] at hc
        obtain ⟨e1, e2⟩ := hc
        subst e1
        have := hcell rfl
        simp [e2, this]
    unfold Map.rebal
    simp only [sP, hcellEq]
    simp only [RebalOk] at hok
    -- the comparisons of the code (`slope > 1` / `slope >= 2` ...) are decided by case analysis, not by their syntax
    by_cases h1 : s > 1
    · obtain ⟨li, lk, lv, lh, ls, ll, lr, e, hok1⟩ := hok.1 h1
      subst e
      obtain ⟨a, b⟩ := shiftr_repr h c par i k v hh s li lk lv lh ls ll lr r hc hpar hd hr0 hok1
      have hm : Tree.rebal (node i k v hh s (node li lk lv lh ls ll lr) r) = Tree.shiftr (node i k v hh s (node li lk lv lh ls ll lr) r) := by
        simp [Tree.rebal, Tree.slope, h1]
      rw [hm]
      repeat' split
      all_goals first | exact ⟨a, rfl, b⟩ | (exfalso; omega)
    · by_cases h2 : s < -1
      · obtain ⟨ri, rk, rv, rh, rs, rl, rr, e, hok2⟩ := hok.2 h2
        subst e
        obtain ⟨a, b⟩ := shiftl_repr h c par i k v hh s ri rk rv rh rs rr rl l hc hpar hd hr0 hok2
        have hm : Tree.rebal (node i k v hh s l (node ri rk rv rh rs rl rr)) = Tree.shiftl (node i k v hh s l (node ri rk rv rh rs rl rr)) := by
          simp [Tree.rebal, Tree.slope, h1, h2]
        rw [hm]
        repeat' split
        all_goals first | exact ⟨a, rfl, b⟩ | (exfalso; omega)
      · have hm : Tree.rebal (node i k v hh s l r) = node i k v hh s l r := by
          simp [Tree.rebal, Tree.slope, h1, h2]
        rw [hm]
        repeat' split
        all_goals first | exact ⟨hr0, rfl, frame_refl _ _ _⟩ | (exfalso; omega)

/-! ### the MultiMap.hpp copies of the six functions are the Map.hpp ones -/

theorem upd_fields_multi (h : Heap) (p : Nat) :
    Multi.updateHeightAndSlope h p =
      { h with height := upd1 h.height p (max (lhOf h p) (rhOf h p) + 1),
               slope := upd1 h.slope p ((lhOf h p : Int) - (rhOf h p : Int)) } := by
  unfold Multi.updateHeightAndSlope lhOf rhOf
  simp only [Heap.setHeight, Heap.setSlope]
  congr 2
  grind

theorem multi_upd : Multi.updateHeightAndSlope = Map.updateHeightAndSlope := by
  funext h p; rw [upd_fields_multi, upd_fields]

theorem multi_rotr : Multi.rotr = Map.rotr := by
  first
  | rfl
  | (funext h c; simp only [Multi.rotr, Map.rotr, multi_upd]; done)
  | (funext h c; simp only [Multi.rotr, Map.rotr, multi_upd]; grind)

theorem multi_rotl : Multi.rotl = Map.rotl := by
  first
  | rfl
  | (funext h c; simp only [Multi.rotl, Map.rotl, multi_upd]; done)
  | (funext h c; simp only [Multi.rotl, Map.rotl, multi_upd]; grind)

theorem multi_shiftr : Multi.shiftr = Map.shiftr := by
  first
  | rfl
  | (funext h c; simp only [Multi.shiftr, Map.shiftr, multi_rotr, multi_rotl]; done)
  | (funext h c; simp only [Multi.shiftr, Map.shiftr, multi_rotr, multi_rotl]; grind)

theorem multi_shiftl : Multi.shiftl = Map.shiftl := by
  first
  | rfl
  | (funext h c; simp only [Multi.shiftl, Map.shiftl, multi_rotr, multi_rotl]; done)
  | (funext h c; simp only [Multi.shiftl, Map.shiftl, multi_rotr, multi_rotl]; grind)

theorem multi_rebal : Multi.rebal = Map.rebal := by
  first
  | rfl
  | (funext h p; simp only [Multi.rebal, Map.rebal, multi_shiftr, multi_shiftl]; done)
  | (funext h p; simp only [Multi.rebal, Map.rebal, multi_shiftr, multi_shiftl]; grind)

end Nstd.Avl
