import Nstd.Avl.LemmasHeapRemove12
/-
  Two-children removal, predecessor side: the mirror images of `swap_right`, `swap_adj_right`, `unlink_left`.
-/
namespace Nstd.Avl
open Tree
open Nstd.Avl.Heap
open Nstd.Generated.AvlRot

theorem ctx_cell_owner' (ctx : Ctx) (q : Nat) : (ctx.cell = .right q ∨ ctx.cell = .left q) → ∃ j ∈ ctx.ids, q = j + 1 :=
  fun h => ctx_cell_owner ctx q h.symm

/-- **the neighbour takes the place of the removed item, neighbour deeper in the left subtree**:
    `*cell = next; next->parent = parent; next->right = right; right->parent = next; next->left = left; left->parent = next;` -/
theorem swap_left (ctx : Ctx) (h : Heap) (i mi : Nat) (k v mk mv : Int) (hh nh : Nat) (s ns : Int) (l R : Tree)
    (hc : ReprCtx h (Ctx.left i k v hh s l ctx)) (hR : Repr h (h.left (i + 1)) (i + 1) R) (hl : l ≠ .nil) (hRn : R ≠ .nil)
    (hX : h.key (mi + 1) = mk ∧ h.value (mi + 1) = mv ∧ h.height (mi + 1) = nh ∧ h.slope (mi + 1) = ns)
    (hnd : (mi :: (ids R ++ (Ctx.left i k v hh s l ctx).ids)).Nodup) :
    ReprCtx ((((((h.set ctx.cell (mi + 1)).setParent (mi + 1) ctx.par).setRight (mi + 1) (h.right (i + 1))).setParent
        (h.right (i + 1)) (mi + 1)).setLeft (mi + 1) (h.left (i + 1))).setParent (h.left (i + 1)) (mi + 1)) ctx ∧
    Repr ((((((h.set ctx.cell (mi + 1)).setParent (mi + 1) ctx.par).setRight (mi + 1) (h.right (i + 1))).setParent
        (h.right (i + 1)) (mi + 1)).setLeft (mi + 1) (h.left (i + 1))).setParent (h.left (i + 1)) (mi + 1))
      (((((((h.set ctx.cell (mi + 1)).setParent (mi + 1) ctx.par).setRight (mi + 1) (h.right (i + 1))).setParent
        (h.right (i + 1)) (mi + 1)).setLeft (mi + 1) (h.left (i + 1))).setParent (h.left (i + 1)) (mi + 1)).get ctx.cell)
      ctx.par (node mi mk mv nh ns R l) := by
  obtain ⟨a1, a2, a3, a4, a5, a6, a7, a8⟩ := hc
  obtain ⟨kX, vX, hXh, sX⟩ := hX
  simp only [Ctx.ids, List.nodup_cons, List.mem_append, List.mem_cons, List.nodup_append, List.cons_append] at hnd
  obtain ⟨N1, N2, ⟨N3, N4, N5, N6⟩, N7⟩ := hnd
  obtain ⟨lj, hlj, elp⟩ := repr_root_mem a7 hl
  obtain ⟨rj, hrj, erp⟩ := repr_root_mem hR hRn
  obtain ⟨h', eh'⟩ : ∃ y, y = (((((h.set ctx.cell (mi + 1)).setParent (mi + 1) ctx.par).setRight (mi + 1) (h.right (i + 1))).setParent
        (h.right (i + 1)) (mi + 1)).setLeft (mi + 1) (h.left (i + 1))).setParent (h.left (i + 1)) (mi + 1) := ⟨_, rfl⟩
  rw [← eh']
  -- the fields of h'
  have fkey : h'.key = h.key := by rw [eh']; simp only [Heap.setParent, Heap.setRight, Heap.setLeft, set_key]
  have fval : h'.value = h.value := by rw [eh']; simp only [Heap.setParent, Heap.setRight, Heap.setLeft, set_value]
  have fht : h'.height = h.height := by rw [eh']; simp only [Heap.setParent, Heap.setRight, Heap.setLeft, set_height]
  have fsl : h'.slope = h.slope := by rw [eh']; simp only [Heap.setParent, Heap.setRight, Heap.setLeft, set_slope]
  have fpar : ∀ q, h'.parent q = if q = h.left (i + 1) then mi + 1 else if q = h.right (i + 1) then mi + 1 else
      if q = mi + 1 then ctx.par else h.parent q := by
    intro q; rw [eh']; simp only [Heap.setParent, Heap.setRight, Heap.setLeft, set_parent, upd1_apply]
  have fright : ∀ q, h'.right q = if q = mi + 1 then h.right (i + 1) else if ctx.cell = .right q then mi + 1 else h.right q := by
    intro q; rw [eh']; simp only [Heap.setParent, Heap.setRight, Heap.setLeft, set_right, upd1_apply]
  have fleft : ∀ q, h'.left q = if q = mi + 1 then h.left (i + 1) else if ctx.cell = .left q then mi + 1 else h.left q := by
    intro q; rw [eh']; simp only [Heap.setParent, Heap.setRight, Heap.setLeft, set_left, upd1_apply]
  have froot : h'.root = if ctx.cell = .root then mi + 1 else h.root := by
    rw [eh']; simp only [Heap.setParent, Heap.setRight, Heap.setLeft, set_root]
  have fget : h'.get ctx.cell = mi + 1 := by
    cases hcc : ctx.cell with
    | root => simp only [Heap.get, froot, hcc, if_true]
    | right q =>
      obtain ⟨j, hj, e⟩ := ctx_cell_owner' ctx q (Or.inl hcc)
      have : q ≠ mi + 1 := by
        rw [e]; exact ne_succ (fun e' => N1 (Or.inr (Or.inr (Or.inr (e' ▸ hj)))))
      simp only [Heap.get, fright, this, hcc, if_false, if_true]
    | left q =>
      obtain ⟨j, hj, e⟩ := ctx_cell_owner' ctx q (Or.inr hcc)
      have : q ≠ mi + 1 := by
        rw [e]; exact ne_succ (fun e' => N1 (Or.inr (Or.inr (Or.inr (e' ▸ hj)))))
      simp only [Heap.get, fleft, this, hcc, if_false, if_true]
  -- who is who
  have own : ∀ q, (ctx.cell = .right q ∨ ctx.cell = .left q) → ∃ j ∈ ctx.ids, q = j + 1 := ctx_cell_owner' ctx
  have notctx : ∀ j, (j = mi ∨ j ∈ ids R ∨ j = i ∨ j ∈ ids l) → j ∉ ctx.ids := by
    intro j hj hm
    rcases hj with e | e | e | e
    · exact N1 (Or.inr (Or.inr (Or.inr (e ▸ hm))))
    · exact N7 j e j (Or.inr (Or.inr hm)) rfl
    · exact N3 (Or.inr (e ▸ hm))
    · exact N6 j e j hm rfl
  have cellfree : ∀ j, (j = mi ∨ j ∈ ids R ∨ j = i ∨ j ∈ ids l) → ctx.cell ≠ .right (j + 1) ∧ ctx.cell ≠ .left (j + 1) := by
    intro j hj
    constructor
    · intro e
      obtain ⟨j', hj', e'⟩ := own _ (Or.inl e)
      have : j = j' := by omega
      exact notctx j hj (this ▸ hj')
    · intro e
      obtain ⟨j', hj', e'⟩ := own _ (Or.inr e)
      have : j = j' := by omega
      exact notctx j hj (this ▸ hj')
  have hmiR : mi ∉ ids R := fun m => N1 (Or.inl m)
  have hmil : mi ∉ ids l := fun m => N1 (Or.inr (Or.inr (Or.inl m)))
  have hRl : ∀ j ∈ ids R, j ∉ ids l := fun j hj m => N7 j hj j (Or.inr (Or.inl m)) rfl
  refine ⟨?_, ?_⟩
  · refine reprCtx_agree ctx a8 ?_ ?_ ?_ ?_ N5
    · intro j hj
      have n1 : j + 1 ≠ h.left (i + 1) := by
        rw [erp]; exact ne_succ (fun e => notctx rj (Or.inr (Or.inl hrj)) (e ▸ hj))
      have n2 : j + 1 ≠ h.right (i + 1) := by
        rw [elp]; exact ne_succ (fun e => notctx lj (Or.inr (Or.inr (Or.inr hlj))) (e ▸ hj))
      have n3 : j + 1 ≠ mi + 1 := ne_succ (fun e => notctx mi (Or.inl rfl) (e ▸ hj))
      exact ⟨by rw [fkey], by rw [fval], by rw [fpar, if_neg n1, if_neg n2, if_neg n3], by rw [fht], by rw [fsl]⟩
    · intro j hj hne
      have n3 : j + 1 ≠ mi + 1 := ne_succ (fun e => notctx mi (Or.inl rfl) (e ▸ hj))
      rw [fleft, if_neg n3, if_neg hne]
    · intro j hj hne
      have n3 : j + 1 ≠ mi + 1 := ne_succ (fun e => notctx mi (Or.inl rfl) (e ▸ hj))
      rw [fright, if_neg n3, if_neg hne]
    · intro hne; rw [froot, if_neg hne]
  · rw [fget, repr_node_iff]
    have nlr : h.right (i + 1) ≠ h.left (i + 1) := by
      rw [elp, erp]; exact ne_succ (fun e => hRl rj hrj (e ▸ hlj))
    have nXr : mi + 1 ≠ h.left (i + 1) := by
      rw [erp]; exact ne_succ (fun e => hmiR (e ▸ hrj))
    have nXl : mi + 1 ≠ h.right (i + 1) := by
      rw [elp]; exact ne_succ (fun e => hmil (e ▸ hlj))
    refine ⟨rfl, by rw [fkey]; exact kX, by rw [fval]; exact vX, by rw [fpar, if_neg nXr, if_neg nXl, if_pos rfl],
      by rw [fht]; exact hXh, by rw [fsl]; exact sX, ?_, ?_⟩
    · rw [fleft, if_pos rfl]
      refine repr_move hR N2 ?_ ?_ ?_
      · intro j hj
        have n3 : j + 1 ≠ mi + 1 := ne_succ (fun e => hmiR (e ▸ hj))
        have cf := cellfree j (Or.inr (Or.inl hj))
        exact ⟨by rw [fkey], by rw [fval], by rw [fleft, if_neg n3, if_neg cf.2], by rw [fright, if_neg n3, if_neg cf.1],
          by rw [fht], by rw [fsl]⟩
      · intro j hj hne
        have n2 : j + 1 ≠ h.right (i + 1) := by
          rw [elp]; exact ne_succ (fun e => hRl j hj (e ▸ hlj))
        have n3 : j + 1 ≠ mi + 1 := ne_succ (fun e => hmiR (e ▸ hj))
        rw [fpar, if_neg hne, if_neg n2, if_neg n3]
      · intro _; rw [fpar, if_pos rfl]


    · rw [fright, if_pos rfl]
      refine repr_move a7 N4 ?_ ?_ ?_
      · intro j hj
        have n3 : j + 1 ≠ mi + 1 := ne_succ (fun e => hmil (e ▸ hj))
        have cf := cellfree j (Or.inr (Or.inr (Or.inr hj)))
        exact ⟨by rw [fkey], by rw [fval], by rw [fleft, if_neg n3, if_neg cf.2], by rw [fright, if_neg n3, if_neg cf.1],
          by rw [fht], by rw [fsl]⟩
      · intro j hj hne
        have n1 : j + 1 ≠ h.left (i + 1) := by
          rw [erp]; exact ne_succ (fun e => hRl rj hrj (e ▸ hj))
        have n3 : j + 1 ≠ mi + 1 := ne_succ (fun e => hmil (e ▸ hj))
        rw [fpar, if_neg n1, if_neg hne, if_neg n3]
      · intro _; rw [fpar, if_neg nlr, if_pos rfl]
/-- **the neighbour takes the place of the removed item, neighbour = left child**:
    `*cell = next; next->parent = parent; next->right = right; right->parent = next;` -/
theorem swap_adj_left (ctx : Ctx) (h : Heap) (i mi : Nat) (k v mk mv : Int) (hh nh : Nat) (s ns : Int) (l nr : Tree)
    (hc : ReprCtx h (Ctx.left i k v hh s l ctx)) (hR : Repr h (h.left (i + 1)) (i + 1) (node mi mk mv nh ns nr nil))
    (hl : l ≠ .nil) (hnd : (mi :: (ids nr ++ (Ctx.left i k v hh s l ctx).ids)).Nodup) :
    ReprCtx ((((h.set ctx.cell (mi + 1)).setParent (mi + 1) ctx.par).setRight (mi + 1) (h.right (i + 1))).setParent
        (h.right (i + 1)) (mi + 1)) ctx ∧
    Repr ((((h.set ctx.cell (mi + 1)).setParent (mi + 1) ctx.par).setRight (mi + 1) (h.right (i + 1))).setParent
        (h.right (i + 1)) (mi + 1))
      (((((h.set ctx.cell (mi + 1)).setParent (mi + 1) ctx.par).setRight (mi + 1) (h.right (i + 1))).setParent
        (h.right (i + 1)) (mi + 1)).get ctx.cell)
      ctx.par (node mi mk mv nh ns nr l) := by
  obtain ⟨a1, a2, a3, a4, a5, a6, a7, a8⟩ := hc
  rw [repr_node_iff] at hR
  obtain ⟨eX, kX, vX, _, hXh, sX, rNR, _⟩ := hR
  rw [eX] at kX vX hXh sX rNR
  simp only [Ctx.ids, List.nodup_cons, List.mem_append, List.mem_cons, List.nodup_append, List.cons_append] at hnd
  obtain ⟨N1, N2, ⟨N3, N4, N5, N6⟩, N7⟩ := hnd
  obtain ⟨lj, hlj, elp⟩ := repr_root_mem a7 hl
  obtain ⟨h', eh'⟩ : ∃ y, y = (((h.set ctx.cell (mi + 1)).setParent (mi + 1) ctx.par).setRight (mi + 1) (h.right (i + 1))).setParent
        (h.right (i + 1)) (mi + 1) := ⟨_, rfl⟩
  rw [← eh']
  have fkey : h'.key = h.key := by rw [eh']; simp only [Heap.setParent, Heap.setRight, Heap.setLeft, set_key]
  have fval : h'.value = h.value := by rw [eh']; simp only [Heap.setParent, Heap.setRight, Heap.setLeft, set_value]
  have fht : h'.height = h.height := by rw [eh']; simp only [Heap.setParent, Heap.setRight, Heap.setLeft, set_height]
  have fsl : h'.slope = h.slope := by rw [eh']; simp only [Heap.setParent, Heap.setRight, Heap.setLeft, set_slope]
  have fpar : ∀ q, h'.parent q = if q = h.right (i + 1) then mi + 1 else if q = mi + 1 then ctx.par else h.parent q := by
    intro q; rw [eh']; simp only [Heap.setParent, Heap.setRight, Heap.setLeft, set_parent, upd1_apply]
  have fright : ∀ q, h'.right q = if q = mi + 1 then h.right (i + 1) else if ctx.cell = .right q then mi + 1 else h.right q := by
    intro q; rw [eh']; simp only [Heap.setParent, Heap.setRight, Heap.setLeft, set_right, upd1_apply]
  have fleft : ∀ q, h'.left q = if ctx.cell = .left q then mi + 1 else h.left q := by
    intro q; rw [eh']; simp only [Heap.setParent, Heap.setRight, Heap.setLeft, set_left, upd1_apply]
  have froot : h'.root = if ctx.cell = .root then mi + 1 else h.root := by
    rw [eh']; simp only [Heap.setParent, Heap.setRight, Heap.setLeft, set_root]
  have own : ∀ q, (ctx.cell = .right q ∨ ctx.cell = .left q) → ∃ j ∈ ctx.ids, q = j + 1 := ctx_cell_owner' ctx
  have notctx : ∀ j, (j = mi ∨ j ∈ ids nr ∨ j = i ∨ j ∈ ids l) → j ∉ ctx.ids := by
    intro j hj hm
    rcases hj with e | e | e | e
    · exact N1 (Or.inr (Or.inr (Or.inr (e ▸ hm))))
    · exact N7 j e j (Or.inr (Or.inr hm)) rfl
    · exact N3 (Or.inr (e ▸ hm))
    · exact N6 j e j hm rfl
  have cellfree : ∀ j, (j = mi ∨ j ∈ ids nr ∨ j = i ∨ j ∈ ids l) → ctx.cell ≠ .right (j + 1) ∧ ctx.cell ≠ .left (j + 1) := by
    intro j hj
    constructor
    · intro e
      obtain ⟨j', hj', e'⟩ := own _ (Or.inl e)
      have : j = j' := by omega
      exact notctx j hj (this ▸ hj')
    · intro e
      obtain ⟨j', hj', e'⟩ := own _ (Or.inr e)
      have : j = j' := by omega
      exact notctx j hj (this ▸ hj')
  have hmiR : mi ∉ ids nr := fun m => N1 (Or.inl m)
  have hmil : mi ∉ ids l := fun m => N1 (Or.inr (Or.inr (Or.inl m)))
  have hRl : ∀ j ∈ ids nr, j ∉ ids l := fun j hj m => N7 j hj j (Or.inr (Or.inl m)) rfl
  have fget : h'.get ctx.cell = mi + 1 := by
    cases hcc : ctx.cell with
    | root => simp only [Heap.get, froot, hcc, if_true]
    | right q =>
      have := (cellfree mi (Or.inl rfl)).1
      have hq : q ≠ mi + 1 := fun e => this (by rw [hcc, e])
      simp only [Heap.get, fright, hq, hcc, if_false, if_true]
    | left q => simp only [Heap.get, fleft, hcc, if_true]
  have nXl : mi + 1 ≠ h.right (i + 1) := by
    rw [elp]; exact ne_succ (fun e => hmil (e ▸ hlj))
  refine ⟨?_, ?_⟩
  · refine reprCtx_agree ctx a8 ?_ ?_ ?_ ?_ N5
    · intro j hj
      have n2 : j + 1 ≠ h.right (i + 1) := by
        rw [elp]; exact ne_succ (fun e => notctx lj (Or.inr (Or.inr (Or.inr hlj))) (e ▸ hj))
      have n3 : j + 1 ≠ mi + 1 := ne_succ (fun e => notctx mi (Or.inl rfl) (e ▸ hj))
      exact ⟨by rw [fkey], by rw [fval], by rw [fpar, if_neg n2, if_neg n3], by rw [fht], by rw [fsl]⟩
    · intro j hj hne
      rw [fleft, if_neg hne]
    · intro j hj hne
      have n3 : j + 1 ≠ mi + 1 := ne_succ (fun e => notctx mi (Or.inl rfl) (e ▸ hj))
      rw [fright, if_neg n3, if_neg hne]
    · intro hne; rw [froot, if_neg hne]
  · rw [fget, repr_node_iff]
    refine ⟨rfl, by rw [fkey]; exact kX, by rw [fval]; exact vX, by rw [fpar, if_neg nXl, if_pos rfl],
      by rw [fht]; exact hXh, by rw [fsl]; exact sX, ?_, ?_⟩
    · rw [fleft, if_neg (cellfree mi (Or.inl rfl)).2]
      refine repr_agree rNR ?_
      intro j hj
      have n3 : j + 1 ≠ mi + 1 := ne_succ (fun e => hmiR (e ▸ hj))
      have n2 : j + 1 ≠ h.right (i + 1) := by
        rw [elp]; exact ne_succ (fun e => hRl j hj (e ▸ hlj))
      have cf := cellfree j (Or.inr (Or.inl hj))
      exact ⟨by rw [fkey], by rw [fval], by rw [fpar, if_neg n2, if_neg n3], by rw [fht], by rw [fsl],
        by rw [fleft, if_neg cf.2], by rw [fright, if_neg n3, if_neg cf.1]⟩


    · rw [fright, if_pos rfl]
      refine repr_move a7 N4 ?_ ?_ ?_
      · intro j hj
        have n3 : j + 1 ≠ mi + 1 := ne_succ (fun e => hmil (e ▸ hj))
        have cf := cellfree j (Or.inr (Or.inr (Or.inr hj)))
        exact ⟨by rw [fkey], by rw [fval], by rw [fleft, if_neg cf.2], by rw [fright, if_neg n3, if_neg cf.1],
          by rw [fht], by rw [fsl]⟩
      · intro j hj hne
        have n3 : j + 1 ≠ mi + 1 := ne_succ (fun e => hmil (e ▸ hj))
        rw [fpar, if_neg hne, if_neg n3]
      · intro _; rw [fpar, if_pos rfl]
/-- **the neighbour (no right child) is taken out of its old place**: `nextParent->right = nextLeft; if(nextLeft)
    nextLeft->parent = nextParent;` -/
theorem unlink_right (np : Nat) (nk nv : Int) (nhh : Nat) (nss : Int) (nrr : Tree) (up : Ctx) (h : Heap)
    (mi : Nat) (mk mv : Int) (nh : Nat) (ns : Int) (nr : Tree)
    (hc : ReprCtx h (Ctx.right np nk nv nhh nss nrr up))
    (hs : Repr h (h.right (np + 1)) (np + 1) (node mi mk mv nh ns nr nil))
    (hnd : (ids (node mi mk mv nh ns nr nil) ++ (Ctx.right np nk nv nhh nss nrr up).ids).Nodup) :
    let g := h.setRight (np + 1) (h.left (mi + 1))
    let h' := if h.left (mi + 1) ≠ 0 then g.setParent (h.left (mi + 1)) (np + 1) else g
    ReprCtx h' (Ctx.right np nk nv nhh nss nrr up) ∧ Repr h' (h'.right (np + 1)) (np + 1) nr ∧
    h'.key = h.key ∧ h'.value = h.value ∧ h'.height = h.height ∧ h'.slope = h.slope ∧ ListSame h h' ∧
    (∀ q, q ≠ np + 1 → h'.right q = h.right q) ∧ h'.left = h.left ∧ h'.root = h.root ∧
    (∀ q, (∀ j ∈ ids nr, q ≠ j + 1) → h'.parent q = h.parent q) := by
  intro g h'
  rw [repr_node_iff] at hs
  obtain ⟨eX, kX, vX, pX, hXh, sX, rNR, _⟩ := hs
  rw [eX] at rNR
  have hndnr : (ids nr).Nodup := by
    have := (List.nodup_append.mp hnd).1
    rw [ids_node] at this
    exact (List.nodup_append.mp this).1
  simp only [ids_node, Ctx.ids, List.nodup_append, List.nodup_cons, List.mem_append, List.mem_cons, List.cons_append] at hnd
  have hg : g = h.setRight (np + 1) (h.left (mi + 1)) := rfl
  have fkey : h'.key = h.key := by show (if _ then _ else _ : Heap).key = _; split <;> rfl
  have fval : h'.value = h.value := by show (if _ then _ else _ : Heap).value = _; split <;> rfl
  have fht : h'.height = h.height := by show (if _ then _ else _ : Heap).height = _; split <;> rfl
  have fsl : h'.slope = h.slope := by show (if _ then _ else _ : Heap).slope = _; split <;> rfl
  have fleft : h'.left = h.left := by show (if _ then _ else _ : Heap).left = _; split <;> rfl
  have froot : h'.root = h.root := by show (if _ then _ else _ : Heap).root = _; split <;> rfl
  have fLS : ListSame h h' := by
    show ListSame h (if _ then _ else _)
    split <;> exact ⟨rfl, rfl, rfl, rfl, rfl, rfl, rfl⟩
  have fright : ∀ q, h'.right q = if q = np + 1 then h.left (mi + 1) else h.right q := by
    intro q
    show (if _ then _ else _ : Heap).right q = _
    split <;> simp only [hg, Heap.setRight, Heap.setParent, upd1_apply]
  have fpar : ∀ q, h'.parent q = if (h.left (mi + 1) ≠ 0 ∧ q = h.left (mi + 1)) then np + 1 else h.parent q := by
    intro q
    show (if _ then _ else _ : Heap).parent q = _
    by_cases h0 : h.left (mi + 1) ≠ 0
    · rw [if_pos h0]; simp only [hg, Heap.setRight, Heap.setParent, upd1_apply, h0, ne_eq, not_false_eq_true, true_and]
    · rw [if_neg h0]; simp only [hg, Heap.setRight, h0, false_and, if_false]
  have hroot := repr_root rNR
  refine ⟨?_, ?_, fkey, fval, fht, fsl, fLS, fun q hq => by rw [fright, if_neg hq], fleft, froot, ?_⟩
  · refine reprCtx_agree _ hc ?_ ?_ ?_ (fun _ => froot) (by simp only [Ctx.ids, List.nodup_append, List.nodup_cons, List.mem_append, List.cons_append]; exact hnd.2.1)
    · intro j hj
      refine ⟨by rw [fkey], by rw [fval], ?_, by rw [fht], by rw [fsl]⟩
      rw [fpar, if_neg]
      intro ⟨h0, e⟩
      rcases hroot with e0 | ⟨j', hj', e0⟩
      · exact h0 e0
      · rw [e0] at e; have : j = j' := by omega
        subst this
        simp only [Ctx.ids, List.cons_append, List.mem_cons, List.mem_append] at hj
        exact hnd.2.2 j (by simp [(mem_iff_ids' _ _).mp hj']) j (by simpa using hj) rfl
    · intro j _ _; rw [fleft]
    · intro j hj hne
      have : j + 1 ≠ np + 1 := by
        intro e; apply hne; simp only [Ctx.cell]; rw [e]
      rw [fright, if_neg this]
  · rw [fright, if_pos rfl]
    refine repr_move rNR hndnr ?_ ?_ ?_
    · intro j hj
      have : j + 1 ≠ np + 1 := ne_succ (fun e => hnd.2.2 j (by simp [hj]) np (by simp) e)
      exact ⟨by rw [fkey], by rw [fval], by rw [fleft], by rw [fright, if_neg this], by rw [fht], by rw [fsl]⟩
    · intro j hj hne
      rw [fpar, if_neg]; intro ⟨_, e⟩; exact hne e
    · intro h0; rw [fpar, if_pos ⟨h0, rfl⟩]
  · intro q hq
    rw [fpar, if_neg]
    intro ⟨h0, e⟩
    rcases hroot with e0 | ⟨j', hj', e0⟩
    · exact h0 e0
    · exact hq j' ((mem_iff_ids' _ _).mp hj') (by rw [e, e0])


end Nstd.Avl
