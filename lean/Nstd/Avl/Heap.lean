/-
  The record-of-nodes heap over which tools/gen_avl.py translates the pointer code of
  `Item::updateHeightAndSlope`, `rotr`, `rotl`, `shiftr`, `shiftl`, `rebal` (Map.hpp / MultiMap.hpp).

  A pointer `Item*` is a `Nat`, `0` is the null pointer; the item with id `i` (Model.lean) lives at pointer `i + 1`.
  Every field of `Item` the rotations touch is a function from pointers to values; `root` is the `root` member of
  the container.  An lvalue of type `Item*` (what `Item*& cell` is bound to) is a `Cell`.
  `usize` is `Nat`, `ssize` is `Int` (no wrap-around: heights are far below 2^63).
  Core Lean only.
-/
namespace Nstd.Avl.Heap

structure Heap where
  key : Nat → Int
  value : Nat → Int
  parent : Nat → Nat
  left : Nat → Nat
  right : Nat → Nat
  height : Nat → Nat
  slope : Nat → Int
  root : Nat
  next : Nat → Nat
  prev : Nat → Nat
  /-- `&endItem`, the sentinel behind the last item (`_end.item`) -/
  endItem : Nat
  /-- `_begin.item` -/
  beginItem : Nat
  /-- `_size` -/
  size : Nat := 0
  /-- `freeItem`: head of the LIFO free list, which is chained through `prev` -/
  freeItem : Nat := 0
  /-- number of `ItemBlock`s allocated so far.  The allocator's addresses: the block allocated when `nblocks = b`
      holds the `n` items at the pointers `n * b + 1 … n * b + n` (item ids `n * b … n * b + n - 1`) -/
  nblocks : Nat := 0

inductive Cell where
  | root : Cell
  | left (p : Nat) : Cell
  | right (p : Nat) : Cell
deriving DecidableEq, Repr

/-- pointwise update -/
def upd1 {α : Type} (f : Nat → α) (p : Nat) (v : α) : Nat → α := fun q => if q = p then v else f q

@[simp] theorem upd1_same {α : Type} (f : Nat → α) (p : Nat) (v : α) : upd1 f p v p = v := by simp [upd1]
theorem upd1_ne {α : Type} (f : Nat → α) (p q : Nat) (v : α) (h : q ≠ p) : upd1 f p v q = f q := by simp [upd1, h]
theorem upd1_apply {α : Type} (f : Nat → α) (p q : Nat) (v : α) : upd1 f p v q = if q = p then v else f q := rfl

namespace Heap

def setParent (h : Heap) (p v : Nat) : Heap := { h with parent := upd1 h.parent p v }
def setLeft (h : Heap) (p v : Nat) : Heap := { h with left := upd1 h.left p v }
def setRight (h : Heap) (p v : Nat) : Heap := { h with right := upd1 h.right p v }
def setHeight (h : Heap) (p v : Nat) : Heap := { h with height := upd1 h.height p v }
def setSlope (h : Heap) (p : Nat) (v : Int) : Heap := { h with slope := upd1 h.slope p v }
def setValue (h : Heap) (p : Nat) (v : Int) : Heap := { h with value := upd1 h.value p v }
def setBegin (h : Heap) (v : Nat) : Heap := { h with beginItem := v }
def setNext (h : Heap) (p v : Nat) : Heap := { h with next := upd1 h.next p v }
def setPrev (h : Heap) (p v : Nat) : Heap := { h with prev := upd1 h.prev p v }
def setKey (h : Heap) (p : Nat) (v : Int) : Heap := { h with key := upd1 h.key p v }
def setSize (h : Heap) (v : Nat) : Heap := { h with size := v }
def setFree (h : Heap) (v : Nat) : Heap := { h with freeItem := v }

/-- the fill loop of a fresh block: `for(Item* i = first, * end = i + n; i < end; ++i) { i->prev = item; item = i; }` -/
def fill (h : Heap) : Nat → Nat → Nat → Heap × Nat
  | _, 0, item => (h, item)
  | i, m + 1, item => fill (h.setPrev i item) (i + 1) m i

/-- the block allocation of the private insert (recognised as a unit by tools/gen_avl.py):
    `ItemBlock* b = (ItemBlock*)new char[sizeof(ItemBlock) + sizeof(Item) * n]; b->next = blocks; blocks = b;` followed by
    the fill loop over the `n` items behind the block header, chaining them through `prev` onto `item`; returns the
    heap and the last item of the block (the new head of the chain).  Allocation never fails; the address of the
    block is the next one of the convention stated at `nblocks`. -/
def allocBlock (h : Heap) (n : Nat) (item : Nat) : Heap × Nat :=
  fill { h with nblocks := h.nblocks + 1 } (n * h.nblocks + 1) n item

/-- read an `Item*` lvalue -/
def get (h : Heap) : Cell → Nat
  | .root => h.root
  | .left p => h.left p
  | .right p => h.right p

/-- store through an `Item*` lvalue -/
def set (h : Heap) (c : Cell) (v : Nat) : Heap :=
  match c with
  | .root => { h with root := v }
  | .left p => h.setLeft p v
  | .right p => h.setRight p v

end Heap

end Nstd.Avl.Heap
