import Nstd.Avl.LemmasHeapRemove13
/-
  Two-children removal, predecessor side (`!(left->height < right->height)`): both sub-cases composed.
-/
namespace Nstd.Avl
open Tree
open Nstd.Avl.Heap
open Nstd.Generated.AvlRot

theorem removeRoot_pred (i : Nat) (k v : Int) (hh : Nat) (sl : Int) (l r : Tree) (hl : l ≠ .nil) (hr : r ≠ .nil)
    (hlt : ¬ l.ht < r.ht) (mi : Nat) (mk mv : Int) (R : Tree) (fl : Bool) (nh : Nat) (ns : Int)
    (e2 : Tree.popMax l = some ((mi, mk, mv), R, fl)) :
    Tree.removeRoot (node i k v hh sl l r) = Tree.rebal (Tree.upd (node mi mk mv nh ns R r)) := by
  cases l with
  | nil => exact absurd rfl hl
  | node li lk lv lh ls ll lr =>
    cases r with
    | nil => exact absurd rfl hr
    | node ri rk rv rh rs rl rr =>
      simp only [Tree.removeRoot, hlt, if_false, e2, Tree.upd]

theorem nodup_swapR (N A B : List Nat) (m i : Nat) (h : ((N ++ [m]) ++ (A ++ (i :: B))).Nodup) : (N ++ (A ++ (m :: B))).Nodup := by
  have hp : ((N ++ [m]) ++ (A ++ i :: B)).Perm (i :: (N ++ (A ++ m :: B))) := by
    rw [List.perm_iff_count]
    intro x
    simp only [List.count_append, List.count_cons, List.count_nil]
    omega
  exact (List.nodup_cons.mp (hp.nodup_iff.mp h)).2

theorem nodup_headR (N Z : List Nat) (m : Nat) (h : ((N ++ [m]) ++ Z).Nodup) : (m :: (N ++ Z)).Nodup := by
  have hp : ((N ++ [m]) ++ Z).Perm (m :: (N ++ Z)) := by
    rw [List.perm_iff_count]
    intro x
    simp only [List.count_append, List.count_cons, List.count_nil]
    omega
  exact hp.nodup_iff.mp h

theorem gen_remove_pred_map (multi : Bool) (s : St) (h : Heap) (p fuel : Nat)
    (hreach : Reach multi s) (hr : ReprSt h s) (hp : p < s.size) (hf : s.t.height < fuel)
    (ctx : Ctx) (i : Nat) (k v : Int) (hh : Nat) (sl : Int) (l r : Tree)
    (a1 : ctx.plug (node i k v hh sl l r) = s.t) (a2 : ReprCtx h ctx)
    (a3 : Repr h (h.get ctx.cell) ctx.par (node i k v hh sl l r)) (a4 : (ids s.t)[p]? = some i) (a5 : ctx.pos l.size = p)
    (a8 : ctx.depth < s.t.height) (hl : l ≠ .nil) (hrn : r ≠ .nil) (hlt : ¬ l.ht < r.ht) :
    ∃ s' out, step s (.removeAt p) = some (s', out) ∧ out.ret = .it p ∧
    ∃ h' ptr, Map.remove fuel h (i + 1) = some (h', ptr) ∧ ReprSt h' s' ∧
      h'.endItem = h.endItem ∧ ptr = headPtr h' (s'.order.drop p) := by
  obtain ⟨hT, hO, hm⟩ := invs_reach hreach
  have hA : Avl (ctx.plug (node i k v hh sl l r)) := by rw [a1]; exact hT.avl
  have hAN := avl_plug ctx _ hA
  have hAN' := hAN
  rw [avl_node] at hAN'
  obtain ⟨hAl, hAr, _, _, _, _⟩ := hAN'
  have a3' := a3
  rw [repr_node_iff] at a3'
  obtain ⟨eP, kP, vP, pP, hP, sP, rL, rR⟩ := a3'
  rw [eP] at kP vP pP hP sP rL rR
  have hB0 : ReprCtx h (Ctx.left i k v hh sl r ctx) := ⟨kP, vP, hP, sP, pP, eP, rR, a2⟩
  obtain ⟨a, mi, mk, mv, nh, ns, nr, e1, e2, e3, e4, e5⟩ := spine_max l hl
  obtain ⟨U1, U2⟩ := unplug a (Ctx.left i k v hh sl r ctx) (node mi mk mv nh ns nr nil) hB0 (by rw [← e1]; exact rL)
  -- ids
  have hndt : (ids s.t).Nodup := (List.nodup_append.mp hO.nodup).1
  have hperm := ids_plug_perm ctx (node i k v hh sl l r)
  rw [a1] at hperm
  have hnd : (ids (node i k v hh sl l r) ++ ctx.ids).Nodup := hperm.nodup_iff.mp hndt
  have hn0 : ids Tree.nil = [] := rfl
  have hidX : ids (node mi mk mv nh ns nr nil) = ids nr ++ [mi] := by rw [ids_node, hn0]
  have hP1 : (ids l).Perm ((ids nr ++ [mi]) ++ a.ids) := by
    have := ids_plug_perm a (node mi mk mv nh ns nr nil)
    rw [← e1, hidX] at this
    exact this
  have hndX : (ids (node mi mk mv nh ns nr nil) ++ (a.append (Ctx.left i k v hh sl r ctx)).ids).Nodup := by
    refine (List.Perm.nodup_iff ?_).mp hnd
    rw [ids_node, hidX, ids_append]
    have := List.Perm.append_right (i :: ids r ++ ctx.ids) hP1
    simpa only [Ctx.ids, List.append_assoc, List.cons_append] using this
  -- the predecessor is `item->prev`
  have hprev : h.prev (i + 1) = mi + 1 := by
    obtain ⟨pre, post, esp⟩ := ids_plug_split ctx
    have eo : s.order = (pre ++ ids l) ++ i :: (ids r ++ post) := by
      rw [hO.order, ← a1, esp, ids_node]; simp only [List.append_assoc, List.cons_append]
    have hd := hr.list
    rw [eo] at hd
    have hq := dlist_prevq (i :: (ids r ++ post)) (pre ++ ids l) _ _ hd
    simp only [headPtr] at hq
    have hgl : (pre ++ ids l).getLast? = some mi := by
      rw [List.getLast?_append, e3]; rfl
    rw [hgl] at hq
    exact hq
  have hl0 : h.left (i + 1) ≠ 0 := (repr_ptr rL).mpr hl
  have hr0 : h.right (i + 1) ≠ 0 := (repr_ptr rR).mpr hrn
  have hhc : ¬ h.height (h.left (i + 1)) < h.height (h.right (i + 1)) := by
    rw [(repr_node_fields rL hl).1, (repr_node_fields rR hrn).1]; exact hlt
  have hcell : ctx.cell = .right ctx.par → h.left ctx.par ≠ h.get ctx.cell := by
    intro e
    cases ctx with
    | top => simp [Ctx.cell] at e
    | left q _ _ _ _ _ _ => simp [Ctx.cell, Ctx.par] at e
    | right q qk qv qh qs ql upup =>
      simp only [Ctx.par]
      have hl' : Repr h (h.left (q + 1)) (q + 1) ql := a2.2.2.2.2.2.2.1
      rw [eP]
      rcases repr_root hl' with e0 | ⟨j, hj, e0⟩
      · omega
      · rw [e0]; intro e3'
        have : j = i := by omega
        subst this
        exact (List.nodup_append.mp hnd).2.2 j (by simp [ids_node]) j
          (by simp [Ctx.ids, (mem_iff_ids' _ _).mp hj]) rfl
  have hcellE : cellExpr h (i + 1) = ctx.cell := by
    have := removeHead_cell h ctx.cell ctx.par (cellAt_ctx ctx) hcell
    rw [eP] at this
    unfold cellExpr; rw [pP]; exact this
  -- the model
  obtain ⟨m0, p0, pm1, pm2, _, _, _⟩ := popMax_spec l hAl hl
  rw [e2] at pm1
  simp only [Option.some.injEq, Prod.mk.injEq] at pm1
  have hAR : Avl (a.climb (nr, true)).1 := by rw [pm1.2]; exact pm2
  have hAX : Avl (node mi mk mv nh ns nr nil) := avl_plug a _ (by rw [← e1]; exact hAl)
  have hAnr : Avl nr := by rw [avl_node] at hAX; exact hAX.1
  have hokB : ClimbOk a (nr, true) := by
    refine climbOk_of_avl a (node mi mk mv nh ns nr nil) _ (by rw [← e1]; exact hAl) hAnr ?_ (by simp)
    simp only [Tree.height]; omega
  have hmodel : Tree.removeRoot (node i k v hh sl l r) =
      Tree.rebal (Tree.upd ((Ctx.left mi mk mv nh ns r ctx).node1 (a.climb (nr, true)).1)) :=
    removeRoot_pred i k v hh sl l r hl hrn hlt mi mk mv _ (a.climb (nr, true)).2 nh ns e2
  have hRB : RebalOk (Tree.upd ((Ctx.left mi mk mv nh ns r ctx).node1 (a.climb (nr, true)).1)) :=
    rebalOk_upd _ _ _ _ _ _ _ hAR hAr
  have hfa : a.depth < fuel := by
    have := height_plug_le ctx (node i k v hh sl l r)
    rw [a1] at this; simp only [Tree.height] at this; omega
  rcases e4 with ea | ⟨np, nk, nv, nhh, nss, nrr, a'', ea⟩
  · -- the predecessor is the left child
    subst ea
    simp only [Ctx.append, Ctx.cell, Ctx.par, Heap.get] at U1 U2 hndX
    have hlp : h.left (i + 1) = mi + 1 := U2.1
    have hadj : h.parent (h.prev (i + 1)) = i + 1 := by
      rw [hprev, ← hlp]; exact ((repr_node_iff _ _ _ _ _ _ _ _ _ _).mp U2).2.2.2.1
    rw [map_remove_pred_adj fuel h (i + 1) hl0 hr0 hhc hadj, hcellE, hprev, pP]
    have hn2 : (mi :: (ids nr ++ (Ctx.left i k v hh sl r ctx).ids)).Nodup := by
      rw [hidX] at hndX; exact nodup_headR _ _ _ hndX
    obtain ⟨W1, W2⟩ := swap_adj_left ctx h i mi k v mk mv hh nh sl ns r nr hB0 U2 hrn hn2
    obtain ⟨hB, ehB⟩ : ∃ y, y = (((h.set ctx.cell (mi + 1)).setParent (mi + 1) ctx.par).setRight (mi + 1) (h.right (i + 1))).setParent
        (h.right (i + 1)) (mi + 1) := ⟨_, rfl⟩
    rw [← ehB] at W1 W2 ⊢
    have W2' := W2
    rw [repr_node_iff] at W2'
    obtain ⟨wP, wk, wv, wp, wh, ws, wL, wR⟩ := W2'
    rw [wP] at wk wv wp wh ws wL wR
    have hcB : ReprCtx hB (Ctx.left mi mk mv nh ns r ctx) := ⟨wk, wv, wh, ws, wp, wP, wR, W1⟩
    have hndB : (ids nr ++ (Ctx.left mi mk mv nh ns r ctx).ids).Nodup := by
      rw [hidX] at hndX
      have := nodup_swapR (ids nr) [] (ids r ++ ctx.ids) mi i (by simpa [Ctx.ids] using hndX)
      simpa [Ctx.ids] using this
    exact remove_finish_two multi s h p fuel hreach hr hp hf ctx i k v hh sl l r a1 a4 a5 a8 hl hrn
      (Ctx.left mi mk mv nh ns r ctx) .top rfl (by simp) hB nr hcB wL hndB trivial hmodel hRB (by omega)
      (by rw [ehB]; exact listSame_trans (listSame_set h _ _) ⟨rfl, rfl, rfl, rfl, rfl, rfl, rfl⟩)
  · -- the predecessor lies deeper in the left subtree
    subst ea
    have hU1 : ReprCtx h (Ctx.right np nk nv nhh nss nrr (a''.append (Ctx.left i k v hh sl r ctx))) := U1
    have hU2 : Repr h (h.right (np + 1)) (np + 1) (node mi mk mv nh ns nr nil) := U2
    have hX' := (repr_node_iff _ _ _ _ _ _ _ _ _ _).mp hU2
    obtain ⟨xP, xk, xv, xp, xh, xs, _, _⟩ := hX'
    rw [xP] at xk xv xp xh xs
    have hnp : h.parent (h.prev (i + 1)) = np + 1 := by rw [hprev]; exact xp
    have hidsA : ((Ctx.right np nk nv nhh nss nrr a'').append (Ctx.left i k v hh sl r ctx)).ids.Nodup :=
      (List.nodup_append.mp hndX).2.1
    have hnpi : np ≠ i := by
      rw [ids_append] at hidsA
      exact (List.nodup_append.mp hidsA).2.2 np (by simp [Ctx.ids]) i (by simp [Ctx.ids])
    have hdeep : h.parent (h.prev (i + 1)) ≠ i + 1 := by rw [hnp]; exact ne_succ hnpi
    rw [map_remove_pred_deep fuel h (i + 1) hl0 hr0 hhc hdeep, hcellE, hprev, pP, xp]
    -- the predecessor leaves its old place
    have UL := unlink_right np nk nv nhh nss nrr (a''.append (Ctx.left i k v hh sl r ctx)) h mi mk mv nh ns nr hU1 hU2 hndX
    dsimp only at UL
    obtain ⟨g, eg⟩ : ∃ y, y = (if h.left (mi + 1) ≠ 0 then (h.setRight (np + 1) (h.left (mi + 1))).setParent (h.left (mi + 1)) (np + 1)
        else h.setRight (np + 1) (h.left (mi + 1))) := ⟨_, rfl⟩
    rw [← eg] at UL ⊢
    obtain ⟨u1, u2, ukey, uval, uht, usl, uLS, uright, uleft, uroot, upar⟩ := UL
    obtain ⟨c0, c1⟩ := replug (Ctx.right np nk nv nhh nss nrr a'') (Ctx.left i k v hh sl r ctx) nr u1 u2
    obtain ⟨R', eR'⟩ : ∃ y, y = (Ctx.right np nk nv nhh nss nrr a'').plug nr := ⟨_, rfl⟩
    rw [← eR'] at c1
    have hR'n : R' ≠ .nil := by rw [eR']; exact plug_ne_nil a'' _ (by simp)
    have hP2 : (ids R').Perm (ids nr ++ (Ctx.right np nk nv nhh nss nrr a'').ids) := by rw [eR']; exact ids_plug_perm _ _
    have hndX' := hndX
    rw [hidX, ids_append] at hndX'
    have hn3 : (mi :: (ids R' ++ (Ctx.left i k v hh sl r ctx).ids)).Nodup := by
      have h1 := nodup_headR (ids nr) ((Ctx.right np nk nv nhh nss nrr a'').ids ++ (Ctx.left i k v hh sl r ctx).ids) mi hndX'
      refine (List.Perm.nodup_iff ?_).mpr h1
      refine List.Perm.cons _ ?_
      have := List.Perm.append_right (Ctx.left i k v hh sl r ctx).ids hP2
      simpa only [List.append_assoc] using this
    have hXg : g.key (mi + 1) = mk ∧ g.value (mi + 1) = mv ∧ g.height (mi + 1) = nh ∧ g.slope (mi + 1) = ns :=
      ⟨by rw [ukey]; exact xk, by rw [uval]; exact xv, by rw [uht]; exact xh, by rw [usl]; exact xs⟩
    obtain ⟨W1, W2⟩ := swap_left ctx g i mi k v mk mv hh nh sl ns r R' c0 c1 hrn hR'n hXg hn3
    have gr : g.right (i + 1) = h.right (i + 1) := uright (i + 1) (ne_succ (fun e => hnpi e.symm))
    have gl : g.left (i + 1) = h.left (i + 1) := by rw [uleft]
    rw [gl, gr] at W1 W2
    obtain ⟨hB, ehB⟩ : ∃ y, y = (((((g.set ctx.cell (mi + 1)).setParent (mi + 1) ctx.par).setRight (mi + 1) (h.right (i + 1))).setParent
        (h.right (i + 1)) (mi + 1)).setLeft (mi + 1) (h.left (i + 1))).setParent (h.left (i + 1)) (mi + 1) := ⟨_, rfl⟩
    rw [← ehB] at W1 W2 ⊢
    have W2' := W2
    rw [repr_node_iff] at W2'
    obtain ⟨wP, wk, wv, wp, wh, ws, wL, wR⟩ := W2'
    rw [wP] at wk wv wp wh ws wL wR
    have hcB0 : ReprCtx hB (Ctx.left mi mk mv nh ns r ctx) := ⟨wk, wv, wh, ws, wp, wP, wR, W1⟩
    obtain ⟨V1, V2⟩ := unplug (Ctx.right np nk nv nhh nss nrr a'') (Ctx.left mi mk mv nh ns r ctx) nr hcB0 (by rw [← eR']; exact wL)
    have hndB : (ids nr ++ ((Ctx.right np nk nv nhh nss nrr a'').append (Ctx.left mi mk mv nh ns r ctx)).ids).Nodup := by
      rw [ids_append]
      have := nodup_swapR (ids nr) (Ctx.right np nk nv nhh nss nrr a'').ids (ids r ++ ctx.ids) mi i (by simpa [Ctx.ids] using hndX')
      simpa [Ctx.ids] using this
    have LSB : ListSame h hB := by
      rw [ehB]
      exact listSame_trans uLS (listSame_trans (listSame_set g _ _) ⟨rfl, rfl, rfl, rfl, rfl, rfl, rfl⟩)
    exact remove_finish_two multi s h p fuel hreach hr hp hf ctx i k v hh sl l r a1 a4 a5 a8 hl hrn
      (Ctx.left mi mk mv nh ns r ctx) (Ctx.right np nk nv nhh nss nrr a'') rfl (by simp) hB nr V1 V2 hndB hokB hmodel hRB hfa LSB

end Nstd.Avl
