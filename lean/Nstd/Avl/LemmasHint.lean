import Nstd.Avl.LemmasOrd
/-
  Hinted insert.  When the neighbour tests of `insert(position, key, value)` succeed, the cell
  the code starts in lies on the path the plain descent from the root takes, so the hinted insert
  builds exactly the tree (and links exactly the cell) the plain insert builds.
-/
namespace Nstd.Avl
namespace Tree

/-- the Map descent for `k` from the root passes through the left/right cell of the item at `idx` -/
def Fits (k : Int) (right : Bool) (idx : Nat) : Tree → Prop
  | nil => False
  | node _ k' _ _ _ l r =>
    if idx < l.size then Fits k right idx l ∧ k < k'
    else if idx = l.size then (if right then k' < k else k < k')
    else k' < k ∧ Fits k right (idx - l.size - 1) r

/-- the same for the MultiMap descent (`<` goes left, everything else right) -/
def FitsM (k : Int) (right : Bool) (idx : Nat) : Tree → Prop
  | nil => False
  | node _ k' _ _ _ l r =>
    if idx < l.size then FitsM k right idx l ∧ k < k'
    else if idx = l.size then (if right then k' ≤ k else k < k')
    else k' ≤ k ∧ FitsM k right (idx - l.size - 1) r

theorem insAt_eq_ins (id : Nat) (k v : Int) (right : Bool) (idx : Nat) (t : Tree)
    (hf : Fits k right idx t) : insAt (ins id k v) right idx t = ins id k v t := by
  induction t generalizing idx with
  | nil => exact absurd hf (by simp [Fits])
  | node i k' v' h s l r ihl ihr =>
    simp only [Fits] at hf
    simp only [insAt, ins]
    by_cases h1 : idx < l.size
    · simp only [h1, if_true] at hf ⊢
      have n1 : ¬ k > k' := by omega
      rw [if_neg n1, if_pos hf.2, ihl idx hf.1]
    · by_cases h2 : idx = l.size
      · rw [if_neg h1, if_pos h2] at hf
        rw [if_neg h1, if_pos h2]
        cases right with
        | true =>
          simp only [if_true] at hf ⊢
          have : k > k' := hf
          rw [if_pos this]
        | false =>
          simp only [Bool.false_eq_true, if_false] at hf ⊢
          have n1 : ¬ k > k' := by omega
          rw [if_neg n1, if_pos hf]
      · simp only [h1, h2, if_false] at hf ⊢
        have : k > k' := hf.1
        rw [if_pos this, ihr _ hf.2]

theorem insAt_eq_insM (id : Nat) (k v : Int) (right : Bool) (idx : Nat) (t : Tree)
    (hf : FitsM k right idx t) : insAt (insM id k v) right idx t = insM id k v t := by
  induction t generalizing idx with
  | nil => exact absurd hf (by simp [FitsM])
  | node i k' v' h s l r ihl ihr =>
    simp only [FitsM] at hf
    simp only [insAt, insM]
    by_cases h1 : idx < l.size
    · simp only [h1, if_true] at hf ⊢
      rw [if_pos hf.2, ihl idx hf.1]
    · by_cases h2 : idx = l.size
      · rw [if_neg h1, if_pos h2] at hf
        rw [if_neg h1, if_pos h2]
        cases right with
        | true =>
          simp only [if_true] at hf ⊢
          have n1 : ¬ k < k' := by omega
          rw [if_neg n1]
        | false =>
          simp only [Bool.false_eq_true, if_false] at hf ⊢
          rw [if_pos hf]
      · simp only [h1, h2, if_false] at hf ⊢
        have n1 : ¬ k < k' := by omega
        rw [if_neg n1, ihr _ hf.2]

theorem land_eq (k : Int) (right : Bool) (idx : Nat) (t : Tree) (c : Option (Nat × Bool))
    (hid : Nat) (kk vv : Int) (hh : t.inorder[idx]? = some (hid, kk, vv))
    (hf : Fits k right idx t) : land k (some (hid, right)) (subAt right idx t) = land k c t := by
  induction t generalizing idx c with
  | nil => exact absurd hf (by simp [Fits])
  | node i k' v' h s l r ihl ihr =>
    simp only [Fits] at hf
    simp only [subAt, land]
    simp only [inorder_node] at hh
    by_cases h1 : idx < l.size
    · simp only [h1, if_true] at hf ⊢
      have n1 : ¬ k > k' := by omega
      rw [if_neg n1, if_pos hf.2]
      rw [List.getElem?_append_left (by rw [← size_eq_length]; exact h1)] at hh
      exact ihl idx _ hh hf.1
    · by_cases h2 : idx = l.size
      · rw [if_neg h1, if_pos h2] at hf
        rw [if_neg h1, if_pos h2]
        rw [List.getElem?_append_right (by rw [← size_eq_length]; omega)] at hh
        have e0 : idx - l.inorder.length = 0 := by rw [← size_eq_length]; omega
        rw [e0] at hh
        simp at hh
        cases right with
        | true =>
          simp only [if_true] at hf ⊢
          have : k > k' := hf
          rw [if_pos this, hh.1]
        | false =>
          simp only [Bool.false_eq_true, if_false] at hf ⊢
          have n1 : ¬ k > k' := by omega
          rw [if_neg n1, if_pos hf, hh.1]
      · simp only [h1, h2, if_false] at hf ⊢
        have : k > k' := hf.1
        rw [if_pos this]
        rw [List.getElem?_append_right (by rw [← size_eq_length]; omega)] at hh
        have e0 : idx - l.inorder.length = (idx - l.size - 1) + 1 := by rw [← size_eq_length]; omega
        rw [e0] at hh
        simp only [List.getElem?_cons_succ] at hh
        exact ihr _ _ hh hf.2

theorem landM_eq (k : Int) (right : Bool) (idx : Nat) (t : Tree) (c : Option (Nat × Bool))
    (hid : Nat) (kk vv : Int) (hh : t.inorder[idx]? = some (hid, kk, vv))
    (hf : FitsM k right idx t) : landM k (some (hid, right)) (subAt right idx t) = landM k c t := by
  induction t generalizing idx c with
  | nil => exact absurd hf (by simp [FitsM])
  | node i k' v' h s l r ihl ihr =>
    simp only [FitsM] at hf
    simp only [subAt, landM]
    simp only [inorder_node] at hh
    by_cases h1 : idx < l.size
    · simp only [h1, if_true] at hf ⊢
      rw [if_pos hf.2]
      rw [List.getElem?_append_left (by rw [← size_eq_length]; exact h1)] at hh
      exact ihl idx _ hh hf.1
    · by_cases h2 : idx = l.size
      · rw [if_neg h1, if_pos h2] at hf
        rw [if_neg h1, if_pos h2]
        rw [List.getElem?_append_right (by rw [← size_eq_length]; omega)] at hh
        have e0 : idx - l.inorder.length = 0 := by rw [← size_eq_length]; omega
        rw [e0] at hh
        simp at hh
        cases right with
        | true =>
          simp only [if_true] at hf ⊢
          have n1 : ¬ k < k' := by omega
          rw [if_neg n1, hh.1]
        | false =>
          simp only [Bool.false_eq_true, if_false] at hf ⊢
          rw [if_pos hf, hh.1]
      · simp only [h1, h2, if_false] at hf ⊢
        have n1 : ¬ k < k' := by omega
        rw [if_neg n1]
        rw [List.getElem?_append_right (by rw [← size_eq_length]; omega)] at hh
        have e0 : idx - l.inorder.length = (idx - l.size - 1) + 1 := by rw [← size_eq_length]; omega
        rw [e0] at hh
        simp only [List.getElem?_cons_succ] at hh
        exact ihr _ _ hh hf.2

/-- everything before the cut is smaller, everything behind it larger: the cell fits -/
theorem fits_of_cut (k : Int) (right : Bool) (idx : Nat) (t : Tree) (hidx : idx < t.size)
    (hlo : ∀ e ∈ t.inorder.take (if right then idx + 1 else idx), e.2.1 < k)
    (hhi : ∀ e ∈ t.inorder.drop (if right then idx + 1 else idx), k < e.2.1) :
    Fits k right idx t := by
  induction t generalizing idx with
  | nil => simp at hidx
  | node i k' v' h s l r ihl ihr =>
    simp only [Fits]
    simp only [inorder_node] at hlo hhi
    have hL := size_eq_length l
    by_cases h1 : idx < l.size
    · simp only [h1, if_true]
      have hc : (if right then idx + 1 else idx) ≤ l.inorder.length := by split <;> omega
      rw [List.take_append_of_le_length hc] at hlo
      rw [List.drop_append_of_le_length hc] at hhi
      refine ⟨ihl idx h1 hlo (fun e he => hhi e (by simp [he])), ?_⟩
      exact hhi (i, k', v') (by simp)
    · by_cases h2 : idx = l.size
      · rw [if_neg h1, if_pos h2]
        cases right with
        | true =>
          simp only [if_true] at hlo ⊢
          have : (i, k', v') ∈ (l.inorder ++ (i, k', v') :: r.inorder).take (idx + 1) := by
            rw [List.take_append]
            have : idx + 1 - l.inorder.length = 1 := by omega
            rw [this]; simp
          exact hlo _ this
        | false =>
          simp only [Bool.false_eq_true, if_false] at hhi ⊢
          have : (i, k', v') ∈ (l.inorder ++ (i, k', v') :: r.inorder).drop idx := by
            rw [List.drop_append]
            have : idx - l.inorder.length = 0 := by omega
            rw [this]; simp
          exact hhi _ this
      · simp only [h1, h2, if_false]
        have hidx' : idx - l.size - 1 < r.size := by simp only [size_node] at hidx; omega
        have hc : (if right then idx + 1 else idx) - l.inorder.length
            = (if right then (idx - l.size - 1) + 1 else (idx - l.size - 1)) + 1 := by split <;> omega
        rw [List.take_append, hc] at hlo
        rw [List.drop_append, hc] at hhi
        simp only [List.take_succ_cons, List.drop_succ_cons] at hlo hhi
        refine ⟨hlo (i, k', v') (by simp), ihr _ hidx' (fun e he => hlo e (by simp [he])) ?_⟩
        intro e he
        apply hhi e
        rw [List.drop_eq_nil_of_le (by split <;> omega)]
        simpa using he

theorem fitsM_of_cut (k : Int) (right : Bool) (idx : Nat) (t : Tree) (hidx : idx < t.size)
    (hlo : ∀ e ∈ t.inorder.take (if right then idx + 1 else idx), e.2.1 ≤ k)
    (hhi : ∀ e ∈ t.inorder.drop (if right then idx + 1 else idx), k < e.2.1) :
    FitsM k right idx t := by
  induction t generalizing idx with
  | nil => simp at hidx
  | node i k' v' h s l r ihl ihr =>
    simp only [FitsM]
    simp only [inorder_node] at hlo hhi
    have hL := size_eq_length l
    by_cases h1 : idx < l.size
    · simp only [h1, if_true]
      have hc : (if right then idx + 1 else idx) ≤ l.inorder.length := by split <;> omega
      rw [List.take_append_of_le_length hc] at hlo
      rw [List.drop_append_of_le_length hc] at hhi
      refine ⟨ihl idx h1 hlo (fun e he => hhi e (by simp [he])), ?_⟩
      exact hhi (i, k', v') (by simp)
    · by_cases h2 : idx = l.size
      · rw [if_neg h1, if_pos h2]
        cases right with
        | true =>
          simp only [if_true] at hlo ⊢
          have : (i, k', v') ∈ (l.inorder ++ (i, k', v') :: r.inorder).take (idx + 1) := by
            rw [List.take_append]
            have : idx + 1 - l.inorder.length = 1 := by omega
            rw [this]; simp
          exact hlo _ this
        | false =>
          simp only [Bool.false_eq_true, if_false] at hhi ⊢
          have : (i, k', v') ∈ (l.inorder ++ (i, k', v') :: r.inorder).drop idx := by
            rw [List.drop_append]
            have : idx - l.inorder.length = 0 := by omega
            rw [this]; simp
          exact hhi _ this
      · simp only [h1, h2, if_false]
        have hidx' : idx - l.size - 1 < r.size := by simp only [size_node] at hidx; omega
        have hc : (if right then idx + 1 else idx) - l.inorder.length
            = (if right then (idx - l.size - 1) + 1 else (idx - l.size - 1)) + 1 := by split <;> omega
        rw [List.take_append, hc] at hlo
        rw [List.drop_append, hc] at hhi
        simp only [List.take_succ_cons, List.drop_succ_cons] at hlo hhi
        refine ⟨hlo (i, k', v') (by simp), ihr _ hidx' (fun e he => hlo e (by simp [he])) ?_⟩
        intro e he
        apply hhi e
        rw [List.drop_eq_nil_of_le (by split <;> omega)]
        simpa using he

/-- `insertPos->value = value` on an item whose key equals `k` is what the plain insert does -/
theorem ins_eq_setAt (id : Nat) (k v : Int) (idx : Nat) (t : Tree) (hs : SortedS t.inorder)
    (hid : Nat) (vv : Int) (hh : t.inorder[idx]? = some (hid, k, vv)) :
    ins id k v t = (setAt v idx t, false) := by
  induction t generalizing idx with
  | nil => simp at hh
  | node i k' v' h s l r ihl ihr =>
    simp only [inorder_node] at hs hh
    obtain ⟨sl, sr, hl, hr⟩ := sortedS_node hs
    have hL := size_eq_length l
    simp only [ins, setAt]
    by_cases h1 : idx < l.size
    · rw [List.getElem?_append_left (by omega)] at hh
      have hm := List.mem_of_getElem? hh
      have := hl _ hm
      simp only at this
      have n1 : ¬ k > k' := by omega
      rw [if_neg n1, if_pos this, if_pos h1, ihl idx sl hh]
      simp [goL]
    · rw [List.getElem?_append_right (by omega)] at hh
      by_cases h2 : idx = l.size
      · have e0 : idx - l.inorder.length = 0 := by omega
        rw [e0] at hh
        simp at hh
        have n1 : ¬ k > k' := by omega
        have n2 : ¬ k < k' := by omega
        rw [if_neg n1, if_neg n2, if_neg h1, if_pos h2]
      · have e0 : idx - l.inorder.length = (idx - l.size - 1) + 1 := by omega
        rw [e0] at hh
        simp only [List.getElem?_cons_succ] at hh
        have hm := List.mem_of_getElem? hh
        have := hr _ hm
        simp only at this
        have p1 : k > k' := by omega
        rw [if_pos p1, if_neg h1, if_neg h2, ihr _ sr hh]
        simp [goR]

end Tree
end Nstd.Avl
