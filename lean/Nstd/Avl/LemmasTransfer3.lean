import Nstd.Avl.LemmasTransfer2
/-
  Part 3: container level.
-/
namespace Nstd.Avl.G
variable {K : Type} [KeyOrder K] {f : K → Int}

def toSt (f : K → Int) (s : St K) : Avl.St :=
  { multi := s.multi, t := toI f s.t, order := s.order, size := s.size, free := s.free, blocks := s.blocks }

def toOp (f : K → Int) : Op K → Avl.Op
  | .insert k v => .insert (f k) v
  | .insertAt p k v => .insertAt p (f k) v
  | .removeKey k => .removeKey (f k)
  | .removeAt p => .removeAt p
  | .removeFront => .removeFront
  | .removeBack => .removeBack
  | .clear => .clear
  | .find k => .find (f k)
  | .contains k => .contains (f k)
  | .count k => .count (f k)
  | .front => .front
  | .back => .back

/-- the key an op carries -/
def opKey : Op K → Option K
  | .insert k _ => some k
  | .insertAt _ k _ => some k
  | .removeKey k => some k
  | .find k => some k
  | .contains k => some k
  | .count k => some k
  | _ => none

def toR (f : K → Int) (x : Option (St K × Out)) : Option (Avl.St × Out) := x.map (fun r => (toSt f r.1, r.2))

theorem alloc_toSt (s : St K) : (toSt f s).alloc = (s.alloc.1, toSt f s.alloc.2) := by
  unfold St.alloc Avl.St.alloc toSt
  cases s.free with
  | cons i rest => rfl
  | nil => simp only; cases blockItems (ipbOf s.multi * s.blocks) (ipbOf s.multi) <;> rfl

theorem insertIn_toSt (s : St K) (k : K) (cell : Option (Nat × Bool)) (sub : Tree K) (mk : Nat → Tree K)
    (mk' : Nat → Avl.Tree) (hmk : ∀ id, toI f (mk id) = mk' id) (c0 : Nat) (hk : All (Pres f k) sub) :
    (toSt f s).insertIn (f k) cell (toI f sub) mk' c0 =
      (toSt f (s.insertIn k cell sub mk c0).1, (s.insertIn k cell sub mk c0).2) := by
  unfold St.insertIn Avl.St.insertIn
  rw [alloc_toSt]
  simp only [toSt, land_toI k _ sub hk, landM_toI k _ sub hk, insCmps_toI k sub hk, insMCmps_toI k sub hk]
  cases (if s.multi then Tree.landM k cell sub else Tree.land k cell sub) with
  | found id => simp only [← hmk]
  | leaf p => simp only [← hmk]

theorem insSub_toSt (s : St K) (id : Nat) (k : K) (v : Int) (t : Tree K) (hk : All (Pres f k) t) :
    toP f (s.insSub id k v t) = (toSt f s).insSub id (f k) v (toI f t) := by
  obtain ⟨multi, t0, order, size, free, blocks⟩ := s
  cases multi with
  | true => exact toP_insM id k v t hk
  | false => exact toP_ins id k v t hk

theorem insertRoot_toSt (s : St K) (k : K) (v : Int) (c0 : Nat) (hk : All (Pres f k) s.t) :
    (toSt f s).insertRoot (f k) v c0 = (toSt f (s.insertRoot k v c0).1, (s.insertRoot k v c0).2) := by
  unfold St.insertRoot Avl.St.insertRoot
  have := insertIn_toSt (f := f) s k none s.t (fun id => (s.insSub id k v s.t).1)
    (fun id => ((toSt f s).insSub id (f k) v (toSt f s).t).1)
    (fun id => by have := insSub_toSt s id k v s.t hk; simp only [toP] at this; simp only [toSt] at this ⊢; rw [← this]) c0 hk
  simpa [toSt] using this

theorem insertUnder_toSt (s : St K) (right : Bool) (idx hid : Nat) (k : K) (v : Int) (c0 : Nat)
    (hk : All (Pres f k) s.t) :
    (toSt f s).insertUnder right idx hid (f k) v c0 =
      (toSt f (s.insertUnder right idx hid k v c0).1, (s.insertUnder right idx hid k v c0).2) := by
  unfold St.insertUnder Avl.St.insertUnder
  have hsub := all_subAt right idx s.t hk
  have := insertIn_toSt (f := f) s k (some (hid, right)) (Tree.subAt right idx s.t)
    (fun id => (Tree.insAt (s.insSub id k v) right idx s.t).1)
    (fun id => (Avl.Tree.insAt ((toSt f s).insSub id (f k) v) right idx (toSt f s).t).1)
    (fun id => by
      have := toP_insAt (f := f) (s.insSub id k v) ((toSt f s).insSub id (f k) v) right idx s.t
        (insSub_toSt s id k v _ hsub)
      simp only [toP] at this
      simp only [toSt] at this ⊢
      rw [← this]) c0 hsub
  rw [toI_subAt] at this
  simpa [toSt] using this

theorem insertAt_toSt (s : St K) (p : Nat) (k : K) (v : Int) (hk : All (Pres f k) s.t) :
    (toSt f s).insertAt p (f k) v = toR f (s.insertAt p k v) := by
  unfold St.insertAt Avl.St.insertAt
  have e1 : (toSt f s).t.inorder = s.t.inorder.map (toE f) := toI_inorder _
  have e2 : (toSt f s).size = s.size := rfl
  have e3 : (toSt f s).multi = s.multi := rfl
  have hin := all_inorder hk
  simp only [e1, e2, e3, List.getLast?_map, List.getElem?_map]
  by_cases hend : p = s.size
  · simp only [hend, if_true]
    cases hl : s.t.inorder.getLast? with
    | none => simp only [Option.map_none, toR, Option.map_some, insertRoot_toSt s k v _ hk]
    | some e =>
      obtain ⟨pi, pk, pv⟩ := e
      have hp := hin _ (List.mem_of_getLast? hl)
      simp only at hp
      simp only [Option.map_some, toE, pres_gt hp]
      split
      · simp only [toR, Option.map_some, insertUnder_toSt s _ _ _ k v _ hk]
      · simp only [toR, Option.map_some, insertRoot_toSt s k v _ hk]
  · simp only [hend, if_false]
    cases hh : s.t.inorder[p]? with
    | none => rfl
    | some e =>
      obtain ⟨hi, hk', hv⟩ := e
      have hp := hin _ (List.mem_of_getElem? hh)
      simp only at hp
      simp only [Option.map_some, toE, pres_gt hp, pres_lt hp]
      have hprev : (if p = 0 then none else Option.map (toE f) s.t.inorder[p - 1]?) =
          Option.map (toE f) (if p = 0 then none else s.t.inorder[p - 1]?) := by
        split <;> rfl
      rw [hprev]
      cases hpv : (if p = 0 then none else s.t.inorder[p - 1]?) with
      | none =>
        cases hn : s.t.inorder[p + 1]? with
        | none =>
          simp only [Option.map_none]
          repeat' split
          all_goals first
            | (simp only [toR, Option.map_some, insertUnder_toSt s _ _ _ k v _ hk, insertRoot_toSt s k v _ hk]; done)
            | (simp only [toR, Option.map_some, toSt, toI_setAt])
        | some ne =>
          obtain ⟨ni, nk, nv⟩ := ne
          have hpn := hin _ (List.mem_of_getElem? hn)
          simp only at hpn
          simp only [Option.map_none, Option.map_some, toE, pres_lt hpn, pres_le hpn]
          repeat' split
          all_goals first
            | (simp only [toR, Option.map_some, insertUnder_toSt s _ _ _ k v _ hk, insertRoot_toSt s k v _ hk]; done)
            | (simp only [toR, Option.map_some, toSt, toI_setAt])
      | some pe =>
        obtain ⟨ppi, ppk, ppv⟩ := pe
        have hpp : Pres f k ppk := by
          by_cases h0 : p = 0
          · rw [if_pos h0] at hpv; simp at hpv
          · rw [if_neg h0] at hpv
            have := hin _ (List.mem_of_getElem? hpv)
            exact this
        cases hn : s.t.inorder[p + 1]? with
        | none =>
          simp only [Option.map_none, Option.map_some, toE, pres_gt hpp, pres_ge hpp]
          repeat' split
          all_goals first
            | (simp only [toR, Option.map_some, insertUnder_toSt s _ _ _ k v _ hk, insertRoot_toSt s k v _ hk]; done)
            | (simp only [toR, Option.map_some, toSt, toI_setAt])
        | some ne =>
          obtain ⟨ni, nk, nv⟩ := ne
          have hpn := hin _ (List.mem_of_getElem? hn)
          simp only at hpn
          simp only [Option.map_none, Option.map_some, toE, pres_lt hpn, pres_le hpn, pres_gt hpp, pres_ge hpp]
          repeat' split
          all_goals first
            | (simp only [toR, Option.map_some, insertUnder_toSt s _ _ _ k v _ hk, insertRoot_toSt s k v _ hk]; done)
            | (simp only [toR, Option.map_some, toSt, toI_setAt])

theorem removeAt_toSt (s : St K) (p c0 : Nat) : (toSt f s).removeAt p c0 = toR f (s.removeAt p c0) := by
  unfold St.removeAt Avl.St.removeAt
  have e : (toSt f s).order = s.order := rfl
  rw [e]
  cases s.order[p]? with
  | none => rfl
  | some id =>
    simp only [toR, Option.map_some, toSt]
    have := toP_delIdx (f := f) p s.t
    simp only [toP] at this
    rw [← this]

/-- one step of the generic model = one step of the `Int` model on the relabelled state and op,
    provided `f` preserves the comparisons of the op's key with the keys in the tree -/
theorem step_toSt (s : St K) (op : Op K) (hk : ∀ k, opKey op = some k → All (Pres f k) s.t) :
    Avl.step (toSt f s) (toOp f op) = toR f (step s op) := by
  have e2 : (toSt f s).size = s.size := rfl
  have e3 : (toSt f s).multi = s.multi := rfl
  have e4 : (toSt f s).order = s.order := rfl
  have hfi : ∀ k, All (Pres f k) s.t → (toSt f s).findIdx (f k) = s.findIdx k := by
    intro k hk
    unfold St.findIdx Avl.St.findIdx Tree.findMIdx Avl.Tree.findMIdx
    simp only [e3, toSt, findIdx_toI k s.t hk, findMLoop_toI k _ _ s.t hk]
  have hfc : ∀ k, All (Pres f k) s.t → (toSt f s).findCmps (f k) = s.findCmps k := by
    intro k hk
    unfold St.findCmps Avl.St.findCmps
    simp only [e3, toSt, findCmps_toI k s.t hk, findMCmps_toI k s.t hk]
  have hval : ∀ id, (toSt f s).valueOf id = s.valueOf id := by
    intro id
    unfold St.valueOf Avl.St.valueOf
    have : (toSt f s).t.inorder = s.t.inorder.map (toE f) := toI_inorder _
    rw [this, List.find?_map]
    have hc : ((fun e : Nat × Int × Int => e.1 == id) ∘ toE f) = (fun e : Nat × K × Int => e.1 == id) := rfl
    rw [hc]
    cases s.t.inorder.find? (fun e => e.1 == id) <;> rfl
  cases op with
  | insert k v =>
    simp only [step, Avl.step, toOp, toR, Option.map_some, insertRoot_toSt s k v 0 (hk k rfl)]
  | insertAt p k v =>
    simp only [step, Avl.step, toOp, e2]
    split
    · exact insertAt_toSt s p k v (hk k rfl)
    · rfl
  | removeKey k =>
    simp only [step, Avl.step, toOp, hfi k (hk k rfl), hfc k (hk k rfl)]
    cases s.findIdx k with
    | none => simp only [toR, Option.map_some]
    | some p =>
      simp only [removeAt_toSt]
      cases s.removeAt p (s.findCmps k) <;> rfl
  | removeAt p => simp only [step, Avl.step, toOp]; exact removeAt_toSt s p 0
  | removeFront => simp only [step, Avl.step, toOp]; exact removeAt_toSt s 0 0
  | removeBack =>
    simp only [step, Avl.step, toOp, e2]
    split
    · rfl
    · exact removeAt_toSt s _ 0
  | clear => simp only [step, Avl.step, toOp, toR, Option.map_some, toSt, toI]
  | find k => simp only [step, Avl.step, toOp, hfi k (hk k rfl), hfc k (hk k rfl), e2, toR, Option.map_some]
  | contains k => simp only [step, Avl.step, toOp, hfi k (hk k rfl), hfc k (hk k rfl), toR, Option.map_some]
  | count k =>
    simp only [step, Avl.step, toOp, hfi k (hk k rfl), hfc k (hk k rfl), e3]
    split
    · cases s.findIdx k with
      | none => simp only [toR, Option.map_some]
      | some p =>
        simp only
        have : (toSt f s).t.inorder = s.t.inorder.map (toE f) := toI_inorder _
        rw [this, ← List.map_drop,
          countWalk_toE k _ (fun e he => all_inorder (hk k rfl) e (List.mem_of_mem_drop he))]
        simp only [toR, Option.map_some]
    · rfl
  | front =>
    simp only [step, Avl.step, toOp, e4, hval]
    cases s.order.head? <;> rfl
  | back =>
    simp only [step, Avl.step, toOp, e4, hval]
    cases s.order.getLast? <;> rfl

end Nstd.Avl.G
