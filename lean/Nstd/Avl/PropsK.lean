import Nstd.Avl.Props
import Nstd.Avl.LemmasTransfer4
/-
  Property C01 for an arbitrary key type.

  `Nstd.Avl.G` (ModelK.lean) is the model of Map / MultiMap with the key type `K` abstract: any type
  with a lawful strict total order (`KeyOrder K`: irreflexive, transitive, total `<`, `≤` its
  negation, decidable) — what `Map<T,V>` assumes of `T`.  The theorems below show that a run of the
  generic model *is* a run of the `Int` model of Model.lean on a relabelled history (the finitely
  many keys of a history embed order-preservingly into `Int`), so every statement of Props.lean
  about shapes, returned values and comparison counts carries over; the headline statements are
  transferred explicitly.  At `K = Int` the generic model is the model the correspondence run ties
  to the C++ code (`int_instance`).
-/
namespace Nstd.Avl.G
variable {K : Type} [KeyOrder K]

/-- the keys a history mentions -/
def keysOf (ops : List (Op K)) : List K := ops.filterMap opKey

theorem keysIn_append (extra : List K) (ops : List (Op K)) : KeysIn (extra ++ keysOf ops) ops := by
  intro op hop k hk
  apply List.mem_append_right
  unfold keysOf
  rw [List.mem_filterMap]
  exact ⟨op, hop, hk⟩

/-- **Transfer.**  For every history `ops` over any key type and any further keys `extra`, the
    relabelling `f = rank (extra ++ keys of ops)` preserves all comparisons among those keys, and the
    generic run relabelled by `f` is the run of the `Int` model on the relabelled history (same
    shape, stored fields, ids, prev/next list, free list, size). -/
theorem transfer (multi : Bool) (ops : List (Op K)) (extra : List K) :
    PresL (rank (extra ++ keysOf ops)) (extra ++ keysOf ops) ∧
    toSt (rank (extra ++ keysOf ops)) (run multi ops) =
      Avl.run multi (ops.map (toOp (rank (extra ++ keysOf ops)))) ∧
    All (fun k => k ∈ extra ++ keysOf ops) (run multi ops).t := by
  have hL := rank_pres (extra ++ keysOf ops)
  have := foldl_toSt (rank (extra ++ keysOf ops)) _ hL ops (keysIn_append extra ops) (St.init multi) trivial
  exact ⟨hL, this.1, this.2⟩

/-- … and every further op returns the same value with the same number of key comparisons as the
    `Int` model does on the relabelled history. -/
theorem transfer_out (multi : Bool) (ops : List (Op K)) (op : Op K) :
    (step (run multi ops) op).map (fun r => r.2) =
      (Avl.step (Avl.run multi (ops.map (toOp (rank (keysOf [op] ++ keysOf ops)))))
        (toOp (rank (keysOf [op] ++ keysOf ops)) op)).map (fun r => r.2) := by
  obtain ⟨hL, h1, h2⟩ := transfer multi ops (keysOf [op])
  rw [← h1]
  have hk : ∀ k, opKey op = some k → All (Pres (rank (keysOf [op] ++ keysOf ops)) k) (run multi ops).t := by
    intro k hk
    have hkL : k ∈ keysOf [op] ++ keysOf ops := by
      apply List.mem_append_left
      unfold keysOf; rw [List.mem_filterMap]; exact ⟨op, by simp, hk⟩
    exact all_imp (fun x hx => hL k hkL x hx) _ h2
  rw [step_toSt _ op hk]
  cases step (run multi ops) op <;> rfl

/-- the contents of a generic container with the keys relabelled by `f` -/
def absF (f : K → Int) (s : St K) : List Spec.KV := Avl.abs (toSt f s)

theorem absF_eq (f : K → Int) (s : St K) : absF f s = s.t.inorder.map (fun e => (f e.2.1, e.2.2)) := by
  simp [absF, Avl.abs, Avl.kv, toSt, toI_inorder, toE]

/-- **Refinement for every key type** (`refines_rel` restated over `K`): from the state after any
    history over any strictly totally ordered key type, every op — relabelled by the order
    embedding `f = rank` of the finitely many keys involved — takes a step of the sorted-(multi)map
    specification: acceptance, contents after the op and returned value.  (`f` preserves and
    reflects `<`, `≤`, `=` among these keys (`transfer`), so the relabelled contents determine the
    contents over `K`.) -/
theorem refines_rel (multi : Bool) (ops : List (Op K)) (op : Op K) :
    Spec.Step multi (absF (rank (keysOf [op] ++ keysOf ops)) (run multi ops))
      (toOp (rank (keysOf [op] ++ keysOf ops)) op)
      ((step (run multi ops) op).map
        (fun r => (absF (rank (keysOf [op] ++ keysOf ops)) r.1, r.2.ret))) := by
  obtain ⟨hL, h1, h2⟩ := transfer multi ops (keysOf [op])
  have hk : ∀ k, opKey op = some k → All (Pres (rank (keysOf [op] ++ keysOf ops)) k) (run multi ops).t := by
    intro k hk
    have hkL : k ∈ keysOf [op] ++ keysOf ops := by
      apply List.mem_append_left
      unfold keysOf; rw [List.mem_filterMap]; exact ⟨op, by simp, hk⟩
    exact all_imp (fun x hx => hL k hkL x hx) _ h2
  have hreach : Avl.Reach multi (toSt (rank (keysOf [op] ++ keysOf ops)) (run multi ops)) := by
    rw [h1]; exact Avl.reach_run _ _
  have := Avl.refines_rel hreach (toOp (rank (keysOf [op] ++ keysOf ops)) op)
  have e : Avl.outcome (toSt (rank (keysOf [op] ++ keysOf ops)) (run multi ops))
      (toOp (rank (keysOf [op] ++ keysOf ops)) op) =
      (step (run multi ops) op).map (fun r => (absF (rank (keysOf [op] ++ keysOf ops)) r.1, r.2.ret)) := by
    unfold Avl.outcome
    rw [step_toSt _ op hk]
    cases step (run multi ops) op <;> rfl
  rw [e] at this
  exact this

theorem findCmps_toSt (f : K → Int) (s : St K) (k : K) (hk : All (Pres f k) s.t) :
    (toSt f s).findCmps (f k) = s.findCmps k := by
  unfold St.findCmps Avl.St.findCmps
  have e3 : (toSt f s).multi = s.multi := rfl
  simp only [e3, toSt, findCmps_toI k s.t hk, findMCmps_toI k s.t hk]

/-- **The property's sentence for every key type**: after any history over any strictly totally
    ordered key type, finding any key among `n` entries needs at most `2·⌊1.4405·log2(n+2)⌋`
    key comparisons. -/
theorem find_cost_log (multi : Bool) (ops : List (Op K)) (k : K) (H : Nat)
    (hH : IsLogBound (run multi ops).size H) : (run multi ops).findCmps k ≤ 2 * H := by
  obtain ⟨hL, h1, h2⟩ := transfer multi ops [k]
  have hk : All (Pres (rank ([k] ++ keysOf ops)) k) (run multi ops).t :=
    all_imp (fun x hx => hL k (by simp) x hx) _ h2
  rw [← findCmps_toSt _ _ k hk, h1]
  apply Avl.find_cost_log_run
  rw [← h1]; exact hH

/-- the height bound for every key type -/
theorem height_log (multi : Bool) (ops : List (Op K)) :
    2 ^ (10000 * (run multi ops).t.height) ≤ ((run multi ops).size + 2) ^ 14405 := by
  obtain ⟨_, h1, _⟩ := transfer multi ops []
  have := Avl.height_log (Avl.reach_run multi (ops.map (toOp (rank ([] ++ keysOf ops)))))
  rw [← h1] at this
  simpa [toSt] using this

/-- the tree of a generic `Map` is a search tree: keys strictly ascend in in-order sequence -/
theorem sorted_map (ops : List (Op K)) :
    (run false ops).t.inorder.Pairwise (fun a b => a.2.1 < b.2.1) := by
  obtain ⟨hL, h1, h2⟩ := transfer false ops []
  have := Avl.sorted_map (Avl.reach_run false (ops.map (toOp (rank ([] ++ keysOf ops)))))
  rw [← h1] at this
  simp only [Avl.abs, Avl.kv, toSt, toI_inorder, List.pairwise_map, toE] at this
  have hin := all_inorder h2
  refine List.Pairwise.imp_of_mem ?_ this
  intro a b ha hb hab
  exact (hL a.2.1 (hin a ha) b.2.1 (hin b hb)).1.mpr hab

/-- the tree of a generic `MultiMap`: keys never descend -/
theorem sorted_multi (ops : List (Op K)) :
    (run true ops).t.inorder.Pairwise (fun a b => a.2.1 ≤ b.2.1) := by
  obtain ⟨hL, h1, h2⟩ := transfer true ops []
  have := Avl.sorted_multi (Avl.reach_run true (ops.map (toOp (rank ([] ++ keysOf ops)))))
  rw [← h1] at this
  simp only [Avl.abs, Avl.kv, toSt, toI_inorder, List.pairwise_map, toE] at this
  have hin := all_inorder h2
  refine List.Pairwise.imp_of_mem ?_ this
  intro a b ha hb hab
  exact (hL a.2.1 (hin a ha) b.2.1 (hin b hb)).2.2.1.mpr hab

/-- **Tie to the checked model**: at `K = Int` the generic model is the model of Model.lean
    (relabelling by the identity), which the correspondence run ties to the C++ code. -/
theorem int_instance (multi : Bool) (ops : List (Op Int)) :
    toSt id (run multi ops) = Avl.run multi (ops.map (toOp id)) := by
  have hP : ∀ L : List Int, PresL id L := by
    intro L a _ b _
    exact ⟨Iff.rfl, Iff.rfl, Iff.rfl, Iff.rfl, Iff.rfl⟩
  exact (foldl_toSt id (keysOf ops) (hP _) ops (keysIn_append [] ops) (St.init multi) trivial).1

/-! ### non-vacuity: a key type that is not `Int` — pairs under the lexicographic order -/

instance : KeyOrder (Nat × Nat) where
  lt := fun a b => a.1 < b.1 ∨ (a.1 = b.1 ∧ a.2 < b.2)
  le := fun a b => ¬ (b.1 < a.1 ∨ (b.1 = a.1 ∧ b.2 < a.2))
  decLt := fun a b => inferInstanceAs (Decidable (a.1 < b.1 ∨ (a.1 = b.1 ∧ a.2 < b.2)))
  decLe := fun a b => inferInstanceAs (Decidable (¬ (b.1 < a.1 ∨ (b.1 = a.1 ∧ b.2 < a.2))))
  decEq := inferInstance
  lt_irrefl := by intro a h; rcases h with h | h <;> omega
  lt_trans := by
    intro a b c h1 h2
    show a.1 < c.1 ∨ (a.1 = c.1 ∧ a.2 < c.2)
    rcases h1 with h1 | h1 <;> rcases h2 with h2 | h2 <;> omega
  lt_trichotomy := by
    intro a b
    obtain ⟨a1, a2⟩ := a
    obtain ⟨b1, b2⟩ := b
    show (a1 < b1 ∨ (a1 = b1 ∧ a2 < b2)) ∨ (a1, a2) = (b1, b2) ∨ (b1 < a1 ∨ (b1 = a1 ∧ b2 < a2))
    simp only [Prod.mk.injEq]
    omega
  le_iff := fun a b => Iff.rfl

example : (run false [Op.insert ((2, 1) : Nat × Nat) 10, .insert (1, 5) 20, .insert (1, 2) 30, .insert (3, 0) 40,
    .removeKey (2, 1)]).t.inorder.map (fun e => e.2.1) = [(1, 2), (1, 5), (3, 0)] := by decide +kernel

end Nstd.Avl.G
