import Nstd.Avl.LemmasOrder2
/-
  Consequences of the list invariant: iteration = in-order sequence of the tree, front/back,
  and the iterator an insert returns.
-/
namespace Nstd.Avl
open Tree

theorem step_invO (s : St) (hI : InvT s) (hO : InvO s) (op : Op) (r : St × Out) (h : step s op = some r) :
    InvO r.1 := by
  cases op with
  | insert k v =>
    simp only [step, Option.some.injEq] at h; subst h
    exact insertRoot_invO s hO k v 0
  | insertAt p k v =>
    simp only [step] at h
    by_cases hp : p ≤ s.size
    · rw [if_pos hp] at h
      cases hm : s.multi with
      | false =>
        obtain ⟨r', c, h1, h2, _⟩ := insertAt_map_state s hI hm p k v hp
        rw [h1] at h; simp only [Option.some.injEq] at h; subst h
        rw [h2]; exact insertRoot_invO s hO k v c
      | true =>
        obtain ⟨r', h1, h2⟩ := insertAt_multi_cases s hI hm p k v hp
        rw [h1] at h; simp only [Option.some.injEq] at h; subst h
        rcases h2 with ⟨c, h2, _⟩ | ⟨hi, hk, hv, ni, nv, c, g1, g2, g3, g4⟩
        · rw [h2]; exact insertRoot_invO s hO k v c
        · have hidx : p < s.t.size := by
            rw [size_eq_length]; exact (List.getElem?_eq_some_iff.mp g1).1
          rw [g4]; exact insertUnder_invO_multi s hO hm true p hi k v c hidx hk hv g1
    · rw [if_neg hp] at h; simp at h
  | removeKey k =>
    simp only [step] at h
    cases hf : s.findIdx k with
    | none => rw [hf] at h; simp only [Option.some.injEq] at h; subst h; exact hO
    | some p =>
      rw [hf] at h
      simp only at h
      cases hr : s.removeAt p (s.findCmps k) with
      | none => rw [hr] at h; simp at h
      | some r' =>
        rw [hr] at h; simp only [Option.map_some, Option.some.injEq] at h; subst h
        exact removeAt_invO s hI hO p _ r' hr
  | removeAt p => simp only [step] at h; exact removeAt_invO s hI hO p 0 r h
  | removeFront => simp only [step] at h; exact removeAt_invO s hI hO 0 0 r h
  | removeBack =>
    simp only [step] at h
    by_cases h0 : s.size = 0
    · rw [if_pos h0] at h; simp at h
    · rw [if_neg h0] at h; exact removeAt_invO s hI hO _ 0 r h
  | clear =>
    simp only [step, Option.some.injEq] at h; subst h
    refine ⟨rfl, ?_, ?_⟩
    · simp only [ids_nil, List.nil_append]
      have : (s.order.reverse ++ s.free).Perm (ids s.t ++ s.free) := by
        rw [hO.order]; exact (List.reverse_perm _).append_right _
      exact (this.nodup_iff).mpr hO.nodup
    · simp only [ids_nil, List.nil_append]
      intro i hi
      have : (s.order.reverse ++ s.free).Perm (ids s.t ++ s.free) := by
        rw [hO.order]; exact (List.reverse_perm _).append_right _
      exact hO.bound i (this.subset hi)
  | find k => simp only [step, Option.some.injEq] at h; subst h; exact hO
  | contains k => simp only [step, Option.some.injEq] at h; subst h; exact hO
  | count k =>
    simp only [step] at h
    split at h
    · split at h
      · simp only [Option.some.injEq] at h; subst h; exact hO
      · simp only [Option.some.injEq] at h; subst h; exact hO
    · simp at h
  | front =>
    simp only [step] at h
    split at h
    · simp only [Option.some.injEq] at h; subst h; exact hO
    · simp at h
  | back =>
    simp only [step] at h
    split at h
    · simp only [Option.some.injEq] at h; subst h; exact hO
    · simp at h

/-! ### reading entries through ids -/

theorem find_self (es : List E) (hnd : (es.map (fun e => e.1)).Nodup) (e : E) (he : e ∈ es) :
    es.find? (fun x => x.1 == e.1) = some e := by
  induction es with
  | nil => simp at he
  | cons a as ih =>
    simp only [List.map_cons, List.nodup_cons] at hnd
    rcases List.mem_cons.mp he with rfl | he
    · simp
    · have hne : ¬ (a.1 == e.1) = true := by
        intro h
        simp only [beq_iff_eq] at h
        exact hnd.1 (by rw [h]; exact List.mem_map_of_mem he)
      have hf : (a.1 == e.1) = false := by simpa using hne
      rw [List.find?_cons]
      simp only [hf]
      exact ih hnd.2 he

/-- iteration over the prev/next list visits the in-order sequence of the tree -/
theorem iter_eq_abs (s : St) (hO : InvO s) : s.iter = abs s := by
  unfold St.iter abs kv
  rw [hO.order]
  unfold ids
  rw [List.filterMap_map]
  have hnd : (s.t.inorder.map (fun e => e.1)).Nodup := (List.nodup_append.mp hO.nodup).1
  have : ∀ l : List E, (∀ e ∈ l, e ∈ s.t.inorder) →
      l.filterMap ((fun id => (s.t.inorder.find? (fun e => e.1 == id)).map (fun e => e.2)) ∘ (fun e => e.1))
        = l.map (fun e => (e.2.1, e.2.2)) := by
    intro l
    induction l with
    | nil => intro _; rfl
    | cons a as ih =>
      intro hsub
      simp only [List.filterMap_cons, Function.comp, List.map_cons]
      rw [find_self _ hnd a (hsub a (by simp))]
      simp only [Option.map_some]
      rw [← ih (fun e he => hsub e (by simp [he]))]
  exact this _ (fun _ h => h)

theorem valueOf_spec (s : St) (hO : InvO s) (e : E) (he : e ∈ s.t.inorder) : s.valueOf e.1 = some e.2.2 := by
  unfold St.valueOf
  have hnd : (s.t.inorder.map (fun e => e.1)).Nodup := (List.nodup_append.mp hO.nodup).1
  rw [find_self _ hnd e he]; rfl

theorem idxOf_getElem (l : List Nat) (hnd : l.Nodup) (j x : Nat) (h : l[j]? = some x) : idxOf x l = j := by
  induction l generalizing j with
  | nil => simp at h
  | cons a as ih =>
    rw [List.nodup_cons] at hnd
    cases j with
    | zero => simp at h; subst h; simp [idxOf]
    | succ j =>
      simp only [List.getElem?_cons_succ] at h
      have : a ≠ x := by intro e; subst e; exact hnd.1 (List.mem_of_getElem? h)
      simp only [idxOf, this, if_false]
      rw [ih hnd.2 j h]

theorem lower_at (es : List E) (hs : SortedS es) (j : Nat) (e : E) (h : es[j]? = some e) :
    Spec.lower e.2.1 (kv es) = j := by
  induction es generalizing j with
  | nil => simp at h
  | cons a as ih =>
    unfold SortedS at hs ih
    rw [List.pairwise_cons] at hs
    cases j with
    | zero => simp at h; subst h; simp [kv, Spec.lower]
    | succ j =>
      simp only [List.getElem?_cons_succ] at h
      have := hs.1 e (List.mem_of_getElem? h)
      simp only [kv, List.map_cons, Spec.lower, this, if_true]
      have := ih hs.2 j h
      simp only [kv] at this
      rw [this]

theorem land_found_entry (k : Int) (c : Option (Nat × Bool)) (t : Tree) (fid : Nat) (h : land k c t = .found fid) :
    ∃ (j : Nat) (vv : Int), t.inorder[j]? = some (fid, k, vv) := by
  induction t generalizing c with
  | nil => simp [land] at h
  | node i k' v' hh s l r ihl ihr =>
    simp only [land] at h
    by_cases h1 : k > k'
    · rw [if_pos h1] at h
      obtain ⟨j, vv, hj⟩ := ihr _ h
      refine ⟨l.inorder.length + 1 + j, vv, ?_⟩
      simp only [inorder_node]
      rw [List.getElem?_append_right (by omega)]
      have : l.inorder.length + 1 + j - l.inorder.length = j + 1 := by omega
      rw [this]; simpa using hj
    · by_cases h2 : k < k'
      · rw [if_neg h1, if_pos h2] at h
        obtain ⟨j, vv, hj⟩ := ihl _ h
        refine ⟨j, vv, ?_⟩
        simp only [inorder_node]
        have hlt : j < l.inorder.length := (List.getElem?_eq_some_iff.mp hj).1
        rw [List.getElem?_append_left hlt]; exact hj
      · rw [if_neg h1, if_neg h2] at h
        simp only [Landing.found.injEq] at h
        have e : k = k' := by omega
        refine ⟨l.inorder.length, v', ?_⟩
        simp only [inorder_node]
        rw [List.getElem?_append_right (by omega)]
        simp [h, e]

theorem land_leaf_absent (k : Int) (c : Option (Nat × Bool)) (t : Tree) (hs : SortedS t.inorder)
    (p : Option (Nat × Bool)) (h : land k c t = .leaf p) : ∀ e ∈ t.inorder, e.2.1 ≠ k := by
  induction t generalizing c with
  | nil => simp
  | node i k' v' hh s l r ihl ihr =>
    simp only [inorder_node] at hs
    obtain ⟨sl, sr, hl, hr⟩ := sortedS_node hs
    simp only [land] at h
    intro e he
    simp only [inorder_node, List.mem_append, List.mem_cons] at he
    by_cases h1 : k > k'
    · rw [if_pos h1] at h
      rcases he with he | he | he
      · have := hl e he; simp only at this; omega
      · rw [he]; simp only; omega
      · exact ihr _ sr h e he
    · by_cases h2 : k < k'
      · rw [if_neg h1, if_pos h2] at h
        rcases he with he | he | he
        · exact ihl _ sl h e he
        · rw [he]; simp only; omega
        · have := hr e he; simp only at this; omega
      · rw [if_neg h1, if_neg h2] at h; simp at h

theorem idxOf_insList (id : Nat) (k v : Int) (es : List E) (hid : id ∉ es.map (fun e => e.1))
    (hk : ∀ e ∈ es, e.2.1 ≠ k) :
    idxOf id ((insList id k v es).map (fun e => e.1)) = Spec.lower k (kv es) := by
  induction es with
  | nil => simp [insList, idxOf, kv, Spec.lower]
  | cons a as ih =>
    simp only [List.map_cons, List.mem_cons, not_or] at hid
    have hka := hk a (by simp)
    simp only [insList, kv, List.map_cons, Spec.lower]
    by_cases h1 : k < a.2.1
    · have n1 : ¬ a.2.1 < k := by omega
      rw [if_pos h1, if_neg n1]; simp [idxOf]
    · have n2 : ¬ k = a.2.1 := fun e => hka e.symm
      have p1 : a.2.1 < k := by omega
      rw [if_neg h1, if_neg n2, if_pos p1]
      simp only [List.map_cons, idxOf]
      rw [if_neg (fun e => hid.1 e.symm)]
      have := ih hid.2 (fun e he => hk e (by simp [he]))
      simp only [kv] at this
      rw [this]

theorem idxOf_insListM (id : Nat) (k v : Int) (es : List E) (hid : id ∉ es.map (fun e => e.1)) :
    idxOf id ((insListM id k v es).map (fun e => e.1)) = Spec.upper k (kv es) := by
  induction es with
  | nil => simp [insListM, idxOf, kv, Spec.upper]
  | cons a as ih =>
    simp only [List.map_cons, List.mem_cons, not_or] at hid
    simp only [insListM, kv, List.map_cons, Spec.upper]
    by_cases h1 : k < a.2.1
    · rw [if_pos h1, if_pos h1]; simp [idxOf]
    · rw [if_neg h1, if_neg h1]
      simp only [List.map_cons, idxOf]
      rw [if_neg (fun e => hid.1 e.symm)]
      have := ih hid.2
      simp only [kv] at this
      rw [this]

/-- the iterator a plain insert returns -/
theorem insertRoot_ret (s : St) (hI : InvT s) (hO : InvO s) (k v : Int) (c0 : Nat) :
    (s.insertRoot k v c0).2.ret =
      .it (if s.multi then Spec.upper k (abs s) else Spec.lower k (abs s)) := by
  have hOn := insertRoot_invO s hO k v c0
  have hnd : (ids s.t).Nodup := (List.nodup_append.mp hO.nodup).1
  obtain ⟨n1, _⟩ := alloc_spec s hO
  have hfresh : s.alloc.1 ∉ ids s.t := by
    rw [List.nodup_cons] at n1
    intro h; exact n1.1 (List.mem_append_left _ h)
  unfold St.insertRoot St.insertIn at hOn ⊢
  cases hm : s.multi with
  | false =>
    have hS := hI.sortedS hm
    simp only [hm, Bool.false_eq_true, if_false] at hOn ⊢
    cases hl : land k none s.t with
    | found fid =>
      simp only
      obtain ⟨j, vv, hj⟩ := land_found_entry k none s.t fid hl
      have h1 : (ids s.t)[j]? = some fid := by simp [ids, hj]
      rw [hO.order, idxOf_getElem _ hnd j fid h1]
      have := lower_at _ hS j _ hj
      simp only at this
      simp only [abs]; rw [this]
    | leaf p =>
      rw [hl] at hOn
      simp only at hOn ⊢
      have ho := hOn.order
      simp only [St.insSub, hm, Bool.false_eq_true, if_false] at ho
      rw [ho]
      unfold ids
      rw [ins_inorder _ k v s.t hS, idxOf_insList _ k v _ hfresh (land_leaf_absent k none s.t hS p hl)]
      rfl
  | true =>
    simp only [hm, if_true] at hOn ⊢
    obtain ⟨p, hl⟩ := landM_leaf k none s.t
    rw [hl] at hOn ⊢
    simp only at hOn ⊢
    have ho := hOn.order
    simp only [St.insSub, hm, if_true] at ho
    rw [ho]
    unfold ids
    rw [insM_inorder _ k v s.t hI.sortedW, idxOf_insListM _ k v _ hfresh]
    rfl

end Nstd.Avl
