import Nstd.Avl.LemmasHeapRemove2
/-
  The tail of `remove(it)` (translated as `removeTail`): unlinking the item from the prev/next list.
-/
namespace Nstd.Avl
open Tree
open Nstd.Avl.Heap
open Nstd.Generated.AvlRot

theorem dlist_unlink {h h' : Heap} (i : Nat) (post : List Nat) (hE : h'.endItem = h.endItem)
    (hN : ∀ a, a ≠ i + 1 → h'.next a = if (h.prev (i + 1) ≠ 0 ∧ a = h.prev (i + 1)) then h.next (i + 1) else h.next a)
    (hP : ∀ a, a ≠ i + 1 → h'.prev a = if a = h.next (i + 1) then h.prev (i + 1) else h.prev a) :
    ∀ (pre : List Nat) (p pv : Nat), DList h p pv (pre ++ i :: post) → (pre ++ i :: post).Nodup →
      (∀ j ∈ pre ++ i :: post, j + 1 ≠ h.endItem) → (∀ j ∈ pre ++ i :: post, j + 1 ≠ pv) →
      DList h' (if pre = [] then headPtr h post else p) pv (pre ++ post) := by
  intro pre
  induction pre with
  | nil =>
    intro p pv hd hnd he hpv
    simp only [List.nil_append, if_true] at *
    obtain ⟨e1, e2, e3⟩ := hd
    subst e1
    obtain ⟨n1, n2⟩ := List.nodup_cons.mp hnd
    have hnx := (dlist_head e3).1
    have hiE : i + 1 ≠ h.endItem := he i (by simp)
    cases post with
    | nil =>
      obtain ⟨t1, t2⟩ := e3
      refine ⟨by simp [headPtr, hE], ?_⟩
      rw [hE, hP _ (Ne.symm hiE), if_pos t1.symm]; exact e2
    | cons j js =>
      obtain ⟨t1, t2, t3⟩ := e3
      have hji : j + 1 ≠ i + 1 := by intro e; have : j = i := by omega
                                     exact n1 (by simp [this])
      obtain ⟨m1, m2⟩ := List.nodup_cons.mp n2
      refine ⟨rfl, ?_, ?_⟩
      · show h'.prev (j + 1) = pv
        rw [hP _ hji, if_pos t1.symm]; exact e2
      · have hnj : h'.next (j + 1) = h.next (j + 1) := by
          rw [hN _ hji, if_neg]
          intro ⟨_, e⟩; rw [e2] at e; exact hpv j (by simp) e
        show DList h' (h'.next (j + 1)) (j + 1) js
        rw [hnj]
        rw [t1] at t3
        refine dlist_frame js _ _ t3 hE ?_ ?_
        · intro j' hj'
          have a1 : j' + 1 ≠ i + 1 := by intro e; have : j' = i := by omega
                                         exact n1 (by simp [this ▸ hj'])
          have a2 : j' + 1 ≠ j + 1 := by intro e; have : j' = j := by omega
                                         exact m1 (this ▸ hj')
          constructor
          · rw [hN _ a1, if_neg]; intro ⟨_, e⟩; rw [e2] at e; exact hpv j' (by simp [hj']) e
          · rw [hP _ a1, if_neg]; rw [t1]; exact a2
        · rw [hP _ (Ne.symm hiE), if_neg]
          rw [t1]; exact Ne.symm (he j (by simp))
  | cons a pre' ih =>
    intro p pv hd hnd he hpv
    obtain ⟨e1, e2, e3⟩ := hd
    simp only [List.cons_append] at hnd he hpv ⊢
    obtain ⟨n1, n2⟩ := List.nodup_cons.mp hnd
    have hai : a ≠ i := by intro e; exact n1 (by simp [e])
    have hpi : p ≠ i + 1 := by omega
    -- where `next` of the removed item points
    obtain ⟨pvx, dx⟩ := dlist_at (i :: post) pre' _ _ e3
    have hnxt : h.next (i + 1) = headPtr h post := (dlist_head dx.2.2).1
    have hpn : p ≠ h.next (i + 1) := by
      rw [hnxt]
      cases post with
      | nil => rw [e1]; exact he a (by simp)
      | cons j js => simp only [headPtr]; rw [e1]; intro e; have : a = j := by omega
                     exact n1 (by simp [this])
    simp only [reduceCtorEq, if_false]
    refine ⟨e1, by rw [hP _ hpi, if_neg hpn]; exact e2, ?_⟩
    have IH := ih (h.next p) p e3 n2 (fun j hj => he j (by simp [hj]))
      (fun j hj => by rw [e1]; intro e; have : j = a := by omega
                      exact n1 (this ▸ hj))
    have hq := dlist_prevq (i :: post) pre' _ _ e3
    simp only [headPtr] at hq
    cases pre' with
    | nil =>
      simp only [List.getLast?_nil] at hq
      simp only [List.nil_append, if_true] at IH ⊢
      have hx : h.next p = i + 1 := e3.1
      have : h'.next p = headPtr h post := by
        rw [hN _ hpi, if_pos ⟨by rw [hq, e1]; omega, hq.symm⟩, hnxt]
      rw [this]; exact IH
    | cons b bs =>
      simp only [reduceCtorEq, if_false] at IH
      have : h'.next p = h.next p := by
        rw [hN _ hpi, if_neg]
        intro ⟨_, e⟩
        obtain ⟨l, hl⟩ : ∃ l, (b :: bs).getLast? = some l := by
          cases hgl : (b :: bs).getLast? with
          | none => simp at hgl
          | some l => exact ⟨l, rfl⟩
        rw [hl] at hq
        simp only at hq
        have hlm : l ∈ b :: bs := List.mem_of_getLast? hl
        rw [hq, e1] at e
        have : a = l := by omega
        exact n1 (by rw [this]; exact List.mem_append_left _ hlm)
      rw [this]; exact IH

end Nstd.Avl

namespace Nstd.Avl
open Tree
open Nstd.Avl.Heap
open Nstd.Generated.AvlRot

/-- what `removeTail` stores -/
structure TailOf (h h' : Heap) (X : Nat) : Prop where
  endItem : h'.endItem = h.endItem
  next : ∀ a, a ≠ X → h'.next a = if (h.prev X ≠ 0 ∧ a = h.prev X) then h.next X else h.next a
  prev : ∀ a, a ≠ X → h'.prev a = if a = h.next X then h.prev X else h.prev a
  prevX : h'.prev X = h.freeItem
  freeItem : h'.freeItem = X
  size : h'.size = h.size - 1
  nblocks : h'.nblocks = h.nblocks
  beginItem : h'.beginItem = (if h.prev X ≠ 0 then h.beginItem else h.next X)
  key : h'.key = h.key
  value : h'.value = h.value
  parent : h'.parent = h.parent
  left : h'.left = h.left
  right : h'.right = h.right
  height : h'.height = h.height
  slope : h'.slope = h.slope
  root : h'.root = h.root

theorem removeTail_key (h : Heap) (X : Nat) : (Map.removeTail h X).1.key = h.key := by
  unfold Map.removeTail
  simp only []
  split <;> simp only [Heap.setFree, Heap.setPrev, Heap.setSize, Heap.setNext, Heap.setBegin]

theorem removeTail_value (h : Heap) (X : Nat) : (Map.removeTail h X).1.value = h.value := by
  unfold Map.removeTail
  simp only []
  split <;> simp only [Heap.setFree, Heap.setPrev, Heap.setSize, Heap.setNext, Heap.setBegin]

theorem removeTail_parent (h : Heap) (X : Nat) : (Map.removeTail h X).1.parent = h.parent := by
  unfold Map.removeTail
  simp only []
  split <;> simp only [Heap.setFree, Heap.setPrev, Heap.setSize, Heap.setNext, Heap.setBegin]

theorem removeTail_left (h : Heap) (X : Nat) : (Map.removeTail h X).1.left = h.left := by
  unfold Map.removeTail
  simp only []
  split <;> simp only [Heap.setFree, Heap.setPrev, Heap.setSize, Heap.setNext, Heap.setBegin]

theorem removeTail_right (h : Heap) (X : Nat) : (Map.removeTail h X).1.right = h.right := by
  unfold Map.removeTail
  simp only []
  split <;> simp only [Heap.setFree, Heap.setPrev, Heap.setSize, Heap.setNext, Heap.setBegin]

theorem removeTail_height (h : Heap) (X : Nat) : (Map.removeTail h X).1.height = h.height := by
  unfold Map.removeTail
  simp only []
  split <;> simp only [Heap.setFree, Heap.setPrev, Heap.setSize, Heap.setNext, Heap.setBegin]

theorem removeTail_slope (h : Heap) (X : Nat) : (Map.removeTail h X).1.slope = h.slope := by
  unfold Map.removeTail
  simp only []
  split <;> simp only [Heap.setFree, Heap.setPrev, Heap.setSize, Heap.setNext, Heap.setBegin]

theorem removeTail_root (h : Heap) (X : Nat) : (Map.removeTail h X).1.root = h.root := by
  unfold Map.removeTail
  simp only []
  split <;> simp only [Heap.setFree, Heap.setPrev, Heap.setSize, Heap.setNext, Heap.setBegin]

theorem removeTail_endItem (h : Heap) (X : Nat) : (Map.removeTail h X).1.endItem = h.endItem := by
  unfold Map.removeTail
  simp only []
  split <;> simp only [Heap.setFree, Heap.setPrev, Heap.setSize, Heap.setNext, Heap.setBegin]

theorem removeTail_nblocks (h : Heap) (X : Nat) : (Map.removeTail h X).1.nblocks = h.nblocks := by
  unfold Map.removeTail
  simp only []
  split <;> simp only [Heap.setFree, Heap.setPrev, Heap.setSize, Heap.setNext, Heap.setBegin]

theorem removeTail_freeItem (h : Heap) (X : Nat) : (Map.removeTail h X).1.freeItem = X := by
  unfold Map.removeTail
  simp only []
  split <;> simp only [Heap.setFree, Heap.setPrev, Heap.setSize, Heap.setNext, Heap.setBegin]

theorem removeTail_size (h : Heap) (X : Nat) : (Map.removeTail h X).1.size = h.size - 1 := by
  unfold Map.removeTail
  simp only []
  split <;> simp only [Heap.setFree, Heap.setPrev, Heap.setSize, Heap.setNext, Heap.setBegin]

theorem removeTail_prevX (h : Heap) (X : Nat) : (Map.removeTail h X).1.prev X = h.freeItem := by
  unfold Map.removeTail
  simp only []
  split <;> simp only [Heap.setFree, Heap.setPrev, Heap.setSize, Heap.setNext, Heap.setBegin, upd1_apply, if_true]

theorem removeTail_beginItem (h : Heap) (X : Nat) :
    (Map.removeTail h X).1.beginItem = (if h.prev X ≠ 0 then h.beginItem else h.next X) := by
  unfold Map.removeTail
  simp only []
  by_cases h0 : h.prev X ≠ 0
  · rw [if_pos h0, if_pos h0] <;>
    simp only [Heap.setFree, Heap.setPrev, Heap.setSize, Heap.setNext, Heap.setBegin]
  · rw [if_neg h0, if_neg h0] <;>
    simp only [Heap.setFree, Heap.setPrev, Heap.setSize, Heap.setNext, Heap.setBegin]

theorem removeTail_next (h : Heap) (X : Nat) : ∀ a, a ≠ X →
    (Map.removeTail h X).1.next a = if (h.prev X ≠ 0 ∧ a = h.prev X) then h.next X else h.next a := by
  intro a ha
  unfold Map.removeTail
  simp only []
  by_cases h0 : h.prev X ≠ 0
  · rw [if_pos h0] <;>
    simp only [Heap.setFree, Heap.setPrev, Heap.setSize, Heap.setNext, Heap.setBegin, upd1_apply, h0, ne_eq,
      not_false_eq_true, true_and]
  · rw [if_neg h0] <;>
    simp only [Heap.setFree, Heap.setPrev, Heap.setSize, Heap.setNext, Heap.setBegin, h0, false_and, if_false]

theorem removeTail_prev (h : Heap) (X : Nat) : ∀ a, a ≠ X →
    (Map.removeTail h X).1.prev a = if a = h.next X then h.prev X else h.prev a := by
  intro a ha
  unfold Map.removeTail
  simp only []
  by_cases h0 : h.prev X ≠ 0
  · rw [if_pos h0] <;>
    simp only [Heap.setFree, Heap.setPrev, Heap.setSize, Heap.setNext, Heap.setBegin, upd1_apply, ha, if_false]
  · have h0' : h.prev X = 0 := by omega
    rw [if_neg h0] <;>
    simp only [Heap.setFree, Heap.setPrev, Heap.setSize, Heap.setNext, Heap.setBegin, upd1_apply, ha, if_false, h0']

theorem removeTail_snd (h : Heap) (X : Nat) (hX : X ≠ h.prev X) : (Map.removeTail h X).2 = h.next X := by
  unfold Map.removeTail
  simp only []
  by_cases h0 : h.prev X ≠ 0
  · rw [if_pos h0] <;>
    simp only [Heap.setFree, Heap.setPrev, Heap.setSize, Heap.setNext, Heap.setBegin, upd1_apply, hX, if_false]
  · rw [if_neg h0] <;>
    simp only [Heap.setFree, Heap.setPrev, Heap.setSize, Heap.setNext, Heap.setBegin]

theorem removeTail_fields (h : Heap) (X : Nat) (hX : X ≠ h.prev X) :
    TailOf h (Map.removeTail h X).1 X ∧ (Map.removeTail h X).2 = h.next X :=
  ⟨⟨removeTail_endItem h X, removeTail_next h X, removeTail_prev h X, removeTail_prevX h X, removeTail_freeItem h X,
    removeTail_size h X, removeTail_nblocks h X, removeTail_beginItem h X, removeTail_key h X, removeTail_value h X,
    removeTail_parent h X, removeTail_left h X, removeTail_right h X, removeTail_height h X, removeTail_slope h X,
    removeTail_root h X⟩, removeTail_snd h X hX⟩

end Nstd.Avl
