import Nstd.Avl.LemmasHeapInsert3
import Nstd.Avl.LemmasBal
/-
  `leafTail` on a heap that holds a context with an empty hole, the prev/next list and the free list.
-/
namespace Nstd.Avl
open Tree
open Nstd.Avl.Heap
open Nstd.Generated.AvlRot

theorem linkNew_list (h : Heap) (cell : Cell) (par X : Nat) (k v : Int) :
    (linkNew h cell par X k v).next = h.next ∧ (linkNew h cell par X k v).prev = h.prev ∧
    (linkNew h cell par X k v).beginItem = h.beginItem ∧ (linkNew h cell par X k v).endItem = h.endItem ∧
    (linkNew h cell par X k v).size = h.size + 1 ∧ (linkNew h cell par X k v).freeItem = h.prev X ∧
    (linkNew h cell par X k v).nblocks = h.nblocks := by
  cases cell <;> exact ⟨rfl, rfl, rfl, rfl, rfl, rfl, rfl⟩

theorem linkNew_other (h : Heap) (cell : Cell) (par X : Nat) (k v : Int) (q : Nat) (hq : q ≠ X) :
    (linkNew h cell par X k v).key q = h.key q ∧ (linkNew h cell par X k v).value q = h.value q ∧
    (linkNew h cell par X k v).parent q = h.parent q ∧ (linkNew h cell par X k v).height q = h.height q ∧
    (linkNew h cell par X k v).slope q = h.slope q ∧
    (cell ≠ .left q → (linkNew h cell par X k v).left q = h.left q) ∧
    (cell ≠ .right q → (linkNew h cell par X k v).right q = h.right q) := by
  cases cell <;>
    simp [linkNew, Heap.setKey, Heap.setValue, Heap.setParent, Heap.setLeft, Heap.setRight, Heap.setHeight, Heap.setSlope,
      Heap.setFree, Heap.setSize, Heap.set, upd1_apply, hq] <;> (intro e; simp [Ne.symm e, hq])

theorem linkNew_root (h : Heap) (cell : Cell) (par X : Nat) (k v : Int) :
    (linkNew h cell par X k v).get cell = X ∧ (cell ≠ .root → (linkNew h cell par X k v).root = h.root) := by
  cases cell <;>
    simp [linkNew, Heap.setKey, Heap.setValue, Heap.setParent, Heap.setLeft, Heap.setRight, Heap.setHeight, Heap.setSlope,
      Heap.setFree, Heap.setSize, Heap.set, Heap.get, upd1_apply]

theorem linkNew_self (h : Heap) (cell : Cell) (par X : Nat) (k v : Int) (hl : cell ≠ .left X) (hr : cell ≠ .right X) :
    (linkNew h cell par X k v).key X = k ∧ (linkNew h cell par X k v).value X = v ∧
    (linkNew h cell par X k v).parent X = par ∧ (linkNew h cell par X k v).height X = 1 ∧
    (linkNew h cell par X k v).slope X = 0 ∧ (linkNew h cell par X k v).left X = 0 ∧
    (linkNew h cell par X k v).right X = 0 := by
  cases cell <;>
    simp_all [linkNew, Heap.setKey, Heap.setValue, Heap.setParent, Heap.setLeft, Heap.setRight, Heap.setHeight, Heap.setSlope,
      Heap.setFree, Heap.setSize, Heap.set, upd1_apply] <;> omega

end Nstd.Avl
