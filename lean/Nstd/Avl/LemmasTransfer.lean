import Nstd.Avl.ModelK
/-
  The key-generic model is the `Int` model up to any key map `f : K → Int` that preserves the
  comparisons between the keys involved.  Part 1: tree level.
-/
namespace Nstd.Avl.G
variable {K : Type} [KeyOrder K]

/-- `f` preserves every comparison between `a` and `b` -/
def Pres (f : K → Int) (a b : K) : Prop :=
  (a < b ↔ f a < f b) ∧ (b < a ↔ f b < f a) ∧ (a ≤ b ↔ f a ≤ f b) ∧ (b ≤ a ↔ f b ≤ f a) ∧ (a = b ↔ f a = f b)

/-- every key of the tree satisfies `P` -/
def All (P : K → Prop) : Tree K → Prop
  | .nil => True
  | .node _ k _ _ _ l r => P k ∧ All P l ∧ All P r

/-- relabel the keys: a tree of the generic model becomes a tree of the `Int` model -/
def toI (f : K → Int) : Tree K → Avl.Tree
  | .nil => .nil
  | .node i k v h s l r => .node i (f k) v h s (toI f l) (toI f r)

def toE (f : K → Int) (e : Nat × K × Int) : Nat × Int × Int := (e.1, f e.2.1, e.2.2)
def toP (f : K → Int) (p : Tree K × Bool) : Avl.Tree × Bool := (toI f p.1, p.2)

variable {f : K → Int}

theorem ht_nd (i) (k : K) (v h s l r) : (Tree.node i k v h s l r).ht = h := rfl
theorem ht_ndI (i k v h s l r) : (Avl.Tree.node i k v h s l r).ht = h := rfl
@[simp] theorem toI_ht (t : Tree K) : (toI f t).ht = t.ht := by cases t <;> rfl
@[simp] theorem toI_slope (t : Tree K) : (toI f t).slope = t.slope := by cases t <;> rfl
@[simp] theorem toI_size (t : Tree K) : (toI f t).size = t.size := by
  induction t with
  | nil => rfl
  | node i k v h s l r ihl ihr => simp [toI, Tree.size, Avl.Tree.size, ihl, ihr]
@[simp] theorem toI_height (t : Tree K) : (toI f t).height = t.height := by
  induction t with
  | nil => rfl
  | node i k v h s l r ihl ihr => simp [toI, Tree.height, Avl.Tree.height, ihl, ihr]
theorem toI_inorder (t : Tree K) : (toI f t).inorder = t.inorder.map (toE f) := by
  induction t with
  | nil => rfl
  | node i k v h s l r ihl ihr => simp [toI, Tree.inorder, Avl.Tree.inorder, ihl, ihr, toE]

theorem all_inorder {P : K → Prop} {t : Tree K} (h : All P t) : ∀ e ∈ t.inorder, P e.2.1 := by
  induction t with
  | nil => simp [Tree.inorder]
  | node i k v hh s l r ihl ihr =>
    simp only [All] at h
    intro e he
    simp only [Tree.inorder, List.mem_append, List.mem_cons] at he
    rcases he with he | he | he
    · exact ihl h.2.1 e he
    · rw [he]; exact h.1
    · exact ihr h.2.2 e he

theorem toI_upd (t : Tree K) : toI f (Tree.upd t) = Avl.Tree.upd (toI f t) := by
  cases t <;> simp [Tree.upd, Avl.Tree.upd, toI]

theorem toI_rotr (t : Tree K) : toI f (Tree.rotr t) = Avl.Tree.rotr (toI f t) := by
  cases t with
  | nil => rfl
  | node i k v h s l r =>
    cases l with
    | nil => rfl
    | node li lk lv lh ls ll lr => simp [Tree.rotr, Avl.Tree.rotr, toI, Tree.upd, Avl.Tree.upd, ht_nd, ht_ndI]

theorem toI_rotl (t : Tree K) : toI f (Tree.rotl t) = Avl.Tree.rotl (toI f t) := by
  cases t with
  | nil => rfl
  | node i k v h s l r =>
    cases r with
    | nil => rfl
    | node ri rk rv rh rs rl rr => simp [Tree.rotl, Avl.Tree.rotl, toI, Tree.upd, Avl.Tree.upd, ht_nd, ht_ndI]

theorem toI_shiftr (t : Tree K) : toI f (Tree.shiftr t) = Avl.Tree.shiftr (toI f t) := by
  cases t with
  | nil => rfl
  | node i k v h s l r =>
    simp only [Tree.shiftr, Avl.Tree.shiftr, toI, toI_slope]
    split
    · rw [toI_rotr]; simp only [toI, toI_rotl]
    · rw [toI_rotr]; simp only [toI]

theorem toI_shiftl (t : Tree K) : toI f (Tree.shiftl t) = Avl.Tree.shiftl (toI f t) := by
  cases t with
  | nil => rfl
  | node i k v h s l r =>
    simp only [Tree.shiftl, Avl.Tree.shiftl, toI, toI_slope]
    split
    · rw [toI_rotl]; simp only [toI, toI_rotr]
    · rw [toI_rotl]; simp only [toI]

theorem toI_rebal (t : Tree K) : toI f (Tree.rebal t) = Avl.Tree.rebal (toI f t) := by
  simp only [Tree.rebal, Avl.Tree.rebal, toI_slope]
  split
  · exact toI_shiftr t
  · split
    · exact toI_shiftl t
    · rfl

theorem toP_fixup (h : Nat) (t : Tree K) : toP f (Tree.fixup h t) = Avl.Tree.fixup h (toI f t) := by
  simp only [Tree.fixup, Avl.Tree.fixup, toP]
  rw [← toI_upd, ← toI_rebal, toI_ht]

theorem toP_goL (i) (k : K) (v h s r) (p : Tree K × Bool) :
    toP f (Tree.goL i k v h s r p) = Avl.Tree.goL i (f k) v h s (toI f r) (toP f p) := by
  simp only [Tree.goL, Avl.Tree.goL]
  cases hp : p.2 with
  | true => simp only [toP, hp, if_true]; exact toP_fixup h _
  | false => simp [toP, hp, toI]

theorem toP_goR (i) (k : K) (v h s l) (p : Tree K × Bool) :
    toP f (Tree.goR i k v h s l p) = Avl.Tree.goR i (f k) v h s (toI f l) (toP f p) := by
  simp only [Tree.goR, Avl.Tree.goR]
  cases hp : p.2 with
  | true => simp only [toP, hp, if_true]; exact toP_fixup h _
  | false => simp [toP, hp, toI]

/-! ### functions that compare the key `k` of the operation with the keys of the tree -/

theorem pres_lt {a b : K} (h : Pres f a b) : (f a < f b) = (a < b) := propext h.1.symm
theorem pres_gt {a b : K} (h : Pres f a b) : (f a > f b) = (a > b) := propext h.2.1.symm
theorem pres_le {a b : K} (h : Pres f a b) : (f a ≤ f b) = (a ≤ b) := propext h.2.2.1.symm
theorem pres_ge {a b : K} (h : Pres f a b) : (f a ≥ f b) = (a ≥ b) := propext h.2.2.2.1.symm
theorem pres_eq {a b : K} (h : Pres f a b) : (f a = f b) = (a = b) := propext h.2.2.2.2.symm
theorem pres_eq' {a b : K} (h : Pres f a b) : (f b = f a) = (b = a) := by
  apply propext; constructor
  · intro e; exact (h.2.2.2.2.mpr e.symm).symm
  · intro e; rw [e]

theorem toP_ins (id : Nat) (k : K) (v : Int) (t : Tree K) (hk : All (Pres f k) t) :
    toP f (Tree.ins id k v t) = Avl.Tree.ins id (f k) v (toI f t) := by
  induction t with
  | nil => rfl
  | node i k' v' h s l r ihl ihr =>
    simp only [All] at hk
    simp only [Tree.ins, Avl.Tree.ins, toI, pres_gt hk.1, pres_lt hk.1]
    split
    · rw [toP_goR, ihr hk.2.2]
    · split
      · rw [toP_goL, ihl hk.2.1]
      · rfl

theorem toP_insM (id : Nat) (k : K) (v : Int) (t : Tree K) (hk : All (Pres f k) t) :
    toP f (Tree.insM id k v t) = Avl.Tree.insM id (f k) v (toI f t) := by
  induction t with
  | nil => rfl
  | node i k' v' h s l r ihl ihr =>
    simp only [All] at hk
    simp only [Tree.insM, Avl.Tree.insM, toI, pres_lt hk.1]
    split
    · rw [toP_goL, ihl hk.2.1]
    · rw [toP_goR, ihr hk.2.2]

theorem land_toI (k : K) (c : Option (Nat × Bool)) (t : Tree K) (hk : All (Pres f k) t) :
    Avl.Tree.land (f k) c (toI f t) = Tree.land k c t := by
  induction t generalizing c with
  | nil => rfl
  | node i k' v' h s l r ihl ihr =>
    simp only [All] at hk
    have il := fun c => ihl c hk.2.1
    have ir := fun c => ihr c hk.2.2
    simp only [Tree.land, Avl.Tree.land, toI, pres_gt hk.1, pres_lt hk.1, il, ir]

theorem landM_toI (k : K) (c : Option (Nat × Bool)) (t : Tree K) (hk : All (Pres f k) t) :
    Avl.Tree.landM (f k) c (toI f t) = Tree.landM k c t := by
  induction t generalizing c with
  | nil => rfl
  | node i k' v' h s l r ihl ihr =>
    simp only [All] at hk
    have il := fun c => ihl c hk.2.1
    have ir := fun c => ihr c hk.2.2
    simp only [Tree.landM, Avl.Tree.landM, toI, pres_lt hk.1, il, ir]

theorem insCmps_toI (k : K) (t : Tree K) (hk : All (Pres f k) t) :
    Avl.Tree.insCmps (f k) (toI f t) = Tree.insCmps k t := by
  induction t with
  | nil => rfl
  | node i k' v' h s l r ihl ihr =>
    simp only [All] at hk
    simp only [Tree.insCmps, Avl.Tree.insCmps, toI, pres_gt hk.1, pres_lt hk.1, ihl hk.2.1, ihr hk.2.2]

theorem insMCmps_toI (k : K) (t : Tree K) (hk : All (Pres f k) t) :
    Avl.Tree.insMCmps (f k) (toI f t) = Tree.insMCmps k t := by
  induction t with
  | nil => rfl
  | node i k' v' h s l r ihl ihr =>
    simp only [All] at hk
    simp only [Tree.insMCmps, Avl.Tree.insMCmps, toI, pres_lt hk.1, ihl hk.2.1, ihr hk.2.2]

theorem findIdx_toI (k : K) (t : Tree K) (hk : All (Pres f k) t) :
    Avl.Tree.findIdx (f k) (toI f t) = Tree.findIdx k t := by
  induction t with
  | nil => rfl
  | node i k' v' h s l r ihl ihr =>
    simp only [All] at hk
    simp only [Tree.findIdx, Avl.Tree.findIdx, toI, pres_gt hk.1, pres_lt hk.1, ihl hk.2.1, ihr hk.2.2, toI_size]

theorem findCmps_toI (k : K) (t : Tree K) (hk : All (Pres f k) t) :
    Avl.Tree.findCmps (f k) (toI f t) = Tree.findCmps k t := by
  induction t with
  | nil => rfl
  | node i k' v' h s l r ihl ihr =>
    simp only [All] at hk
    simp only [Tree.findCmps, Avl.Tree.findCmps, toI, pres_gt hk.1, pres_lt hk.1, ihl hk.2.1, ihr hk.2.2]

theorem findMLoop_toI (k : K) (res : Option Nat) (off : Nat) (t : Tree K) (hk : All (Pres f k) t) :
    Avl.Tree.findMLoop (f k) res off (toI f t) = Tree.findMLoop k res off t := by
  induction t generalizing res off with
  | nil => rfl
  | node i k' v' h s l r ihl ihr =>
    simp only [All] at hk
    have il := fun a b => ihl a b hk.2.1
    have ir := fun a b => ihr a b hk.2.2
    simp only [Tree.findMLoop, Avl.Tree.findMLoop, toI, pres_gt hk.1, pres_lt hk.1, il, ir, toI_size]

theorem findMCmps_toI (k : K) (t : Tree K) (hk : All (Pres f k) t) :
    Avl.Tree.findMCmps (f k) (toI f t) = Tree.findMCmps k t := by
  induction t with
  | nil => rfl
  | node i k' v' h s l r ihl ihr =>
    simp only [All] at hk
    simp only [Tree.findMCmps, Avl.Tree.findMCmps, toI, pres_gt hk.1, ihl hk.2.1, ihr hk.2.2]

theorem countWalk_toE (k : K) (es : List (Nat × K × Int)) (hk : ∀ e ∈ es, Pres f k e.2.1) :
    Avl.countWalk (f k) (es.map (toE f)) = countWalk k es := by
  induction es with
  | nil => rfl
  | cons e es ih =>
    obtain ⟨i, k', v'⟩ := e
    have h1 := hk (i, k', v') (by simp)
    simp only at h1
    simp only [List.map_cons, toE, countWalk, Avl.countWalk, pres_eq' h1,
      ih (fun e he => hk e (by simp [he]))]

/-! ### functions that do not compare keys -/

theorem toP_insAt (g : Tree K → Tree K × Bool) (g' : Avl.Tree → Avl.Tree × Bool) (right : Bool)
    (idx : Nat) (t : Tree K) (hg : toP f (g (Tree.subAt right idx t)) = g' (toI f (Tree.subAt right idx t))) :
    toP f (Tree.insAt g right idx t) = Avl.Tree.insAt g' right idx (toI f t) := by
  induction t generalizing idx with
  | nil => rfl
  | node i k v h s l r ihl ihr =>
    simp only [Tree.subAt] at hg
    simp only [Tree.insAt, Avl.Tree.insAt, toI, toI_size]
    by_cases h1 : idx < l.size
    · rw [if_pos h1] at hg; rw [if_pos h1, if_pos h1, toP_goL, ihl idx hg]
    · by_cases h2 : idx = l.size
      · rw [if_neg h1, if_pos h2] at hg
        rw [if_neg h1, if_pos h2, if_neg h1, if_pos h2]
        cases right with
        | true => simp only [if_true] at hg ⊢; rw [toP_goR, hg]
        | false => simp only [Bool.false_eq_true, if_false] at hg ⊢; rw [toP_goL, hg]
      · rw [if_neg h1, if_neg h2] at hg
        rw [if_neg h1, if_neg h2, if_neg h1, if_neg h2, toP_goR, ihr _ hg]

theorem toI_subAt (right : Bool) (idx : Nat) (t : Tree K) :
    toI f (Tree.subAt right idx t) = Avl.Tree.subAt right idx (toI f t) := by
  induction t generalizing idx with
  | nil => rfl
  | node i k v h s l r ihl ihr =>
    simp only [Tree.subAt, Avl.Tree.subAt, toI, toI_size]
    split
    · exact ihl idx
    · split
      · cases right <;> rfl
      · exact ihr _

theorem all_subAt {P : K → Prop} (right : Bool) (idx : Nat) (t : Tree K) (h : All P t) :
    All P (Tree.subAt right idx t) := by
  induction t generalizing idx with
  | nil => exact h
  | node i k v hh s l r ihl ihr =>
    simp only [All] at h
    simp only [Tree.subAt]
    split
    · exact ihl idx h.2.1
    · split
      · cases right
        · exact h.2.1
        · exact h.2.2
      · exact ihr _ h.2.2

theorem toI_setAt (v : Int) (idx : Nat) (t : Tree K) :
    toI f (Tree.setAt v idx t) = Avl.Tree.setAt v idx (toI f t) := by
  induction t generalizing idx with
  | nil => rfl
  | node i k v' h s l r ihl ihr =>
    simp only [Tree.setAt, Avl.Tree.setAt, toI, toI_size]
    split
    · simp only [toI, ihl]
    · split
      · rfl
      · simp only [toI, ihr]

def toPop (f : K → Int) (x : Option ((Nat × K × Int) × Tree K × Bool)) :
    Option ((Nat × Int × Int) × Avl.Tree × Bool) :=
  x.map (fun y => (toE f y.1, toP f y.2))

theorem popMin_toI (t : Tree K) : Avl.Tree.popMin (toI f t) = toPop f (Tree.popMin t) := by
  induction t with
  | nil => rfl
  | node i k v h s l r ihl ihr =>
    simp only [Tree.popMin, Avl.Tree.popMin, toI, ihl]
    cases Tree.popMin l with
    | none => rfl
    | some y => simp only [toPop, Option.map_some, toP_goL]

theorem popMax_toI (t : Tree K) : Avl.Tree.popMax (toI f t) = toPop f (Tree.popMax t) := by
  induction t with
  | nil => rfl
  | node i k v h s l r ihl ihr =>
    simp only [Tree.popMax, Avl.Tree.popMax, toI, ihr]
    cases Tree.popMax r with
    | none => rfl
    | some y => simp only [toPop, Option.map_some, toP_goR]

theorem toI_removeRoot (t : Tree K) : toI f (Tree.removeRoot t) = Avl.Tree.removeRoot (toI f t) := by
  cases t with
  | nil => rfl
  | node i k v h s l r =>
    cases l with
    | nil => cases r <;> rfl
    | node li lk lv lh ls ll lr =>
      cases r with
      | nil => rfl
      | node ri rk rv rh rs rl rr =>
        have e1 := popMin_toI (f := f) (.node ri rk rv rh rs rl rr)
        have e2 := popMax_toI (f := f) (.node li lk lv lh ls ll lr)
        simp only [toI] at e1 e2
        simp only [Tree.removeRoot, Avl.Tree.removeRoot, toI, ht_nd, ht_ndI]
        rw [e1, e2]
        by_cases hlt : lh < rh
        · simp only [hlt, if_true]
          cases Tree.popMin (.node ri rk rv rh rs rl rr) with
          | none => rfl
          | some y =>
            obtain ⟨⟨mi, mk, mv⟩, r', c⟩ := y
            simp only [toPop, Option.map_some, toE, toP, toI_rebal, toI_upd, toI]
        · simp only [hlt, if_false]
          cases Tree.popMax (.node li lk lv lh ls ll lr) with
          | none => rfl
          | some y =>
            obtain ⟨⟨mi, mk, mv⟩, l', c⟩ := y
            simp only [toPop, Option.map_some, toE, toP, toI_rebal, toI_upd, toI]

theorem toP_delIdx (idx : Nat) (t : Tree K) : toP f (Tree.delIdx idx t) = Avl.Tree.delIdx idx (toI f t) := by
  induction t generalizing idx with
  | nil => rfl
  | node i k v h s l r ihl ihr =>
    simp only [Tree.delIdx, Avl.Tree.delIdx, toI, toI_size]
    split
    · rw [toP_goL, ihl]
    · split
      · have := toI_removeRoot (f := f) (.node i k v h s l r)
        simp only [toI] at this
        simp only [toP, this]
      · rw [toP_goR, ihr]

end Nstd.Avl.G
