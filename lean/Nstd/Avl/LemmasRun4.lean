import Nstd.Avl.LemmasRun3
/-
  Every step follows the specification on the abstraction (contents, domain of the operation,
  and those results that are read off the tree).
-/
namespace Nstd.Avl
open Tree

/-- ops whose result the model reads off the tree (the others go through the prev/next list) -/
def Op.retByTree : Op → Bool
  | .insert _ _ => false
  | .insertAt _ _ _ => false
  | .front => false
  | .back => false
  | _ => true

theorem countWalk_sorted (k : Int) (es : List E) (hs : SortedW es) (hge : ∀ e ∈ es, k ≤ e.2.1) :
    (countWalk k es).1 = (kv es).countP (fun e => e.1 == k) := by
  induction es with
  | nil => rfl
  | cons e es ih =>
    unfold SortedW at hs ih
    rw [List.pairwise_cons] at hs
    obtain ⟨i, k', v'⟩ := e
    simp only [countWalk, kv, List.map_cons, List.countP_cons]
    by_cases h : k' = k
    · rw [if_pos h]
      have := ih hs.2 (fun e he => hge e (by simp [he]))
      simp only [kv] at this
      simp [h, this]
    · rw [if_neg h]
      have hgt : k < k' := by have := hge (i, k', v') (by simp); simp only at this; omega
      have : (List.map (fun e : E => (e.2.1, e.2.2)) es).countP (fun e => e.1 == k) = 0 := by
        rw [List.countP_eq_zero]
        intro x hx
        simp only [List.mem_map] at hx
        obtain ⟨y, hy, rfl⟩ := hx
        have := hs.1 y hy
        simp only at this ⊢
        simp; omega
      simp [h, this]

theorem count_spec (k : Int) (es : List E) (hs : SortedW es) :
    (match firstIdx k es with
     | none => 0
     | some p => (countWalk k (es.drop (p + 1))).1 + 1) = Spec.count k (kv es) := by
  unfold Spec.count
  cases hf : firstIdx k es with
  | none =>
    simp only
    unfold firstIdx at hf
    rw [List.findIdx?_eq_none_iff] at hf
    symm
    rw [List.countP_eq_zero]
    intro x hx
    simp only [kv, List.mem_map] at hx
    obtain ⟨y, hy, rfl⟩ := hx
    simpa using hf y hy
  | some p =>
    simp only
    unfold firstIdx at hf
    rw [List.findIdx?_eq_some_iff_getElem] at hf
    obtain ⟨hp, hk, hbefore⟩ := hf
    have hsplit : es = es.take p ++ es[p] :: es.drop (p + 1) := by
      rw [← List.drop_eq_getElem_cons hp, List.take_append_drop]
    have hx : es[p]? = some es[p] := List.getElem?_eq_getElem hp
    have htail : SortedW (es.drop (p + 1)) :=
      List.Pairwise.sublist (List.drop_sublist _ _) hs
    have hge : ∀ e ∈ es.drop (p + 1), k ≤ e.2.1 := by
      intro e he
      have h1 := suffix_bound hs hx e (List.mem_of_mem_drop (by
        have : es.drop (p + 1) = (es.drop p).drop 1 := by rw [List.drop_drop]
        rw [this] at he; exact he))
      simp only [beq_iff_eq] at hk
      omega
    rw [countWalk_sorted k _ htail hge]
    conv => rhs; rw [hsplit]
    simp only [kv, List.map_append, List.map_cons, List.countP_append, List.countP_cons]
    have h0 : (List.map (fun e : E => (e.2.1, e.2.2)) (es.take p)).countP (fun e => e.1 == k) = 0 := by
      rw [List.countP_eq_zero]
      intro x hx
      simp only [List.mem_map] at hx
      obtain ⟨y, hy, rfl⟩ := hx
      obtain ⟨j, hj, rfl⟩ := List.getElem_of_mem hy
      simp only [List.length_take] at hj
      have := hbefore j (by omega)
      simp only [List.getElem_take]
      simpa using this
    simp only [beq_iff_eq] at hk
    rw [h0]
    simp [hk]

theorem step_spec (s : St) (hI : InvT s) (op : Op)
    (hop : ∀ p k v, ¬ (s.multi = true ∧ op = .insertAt p k v)) :
    match step s op with
    | some r => ∃ xs' ret, Spec.stepF s.multi (abs s) op = some (xs', ret) ∧ abs r.1 = xs' ∧
                  (op.retByTree = true → r.2.ret = ret)
    | none => Spec.stepF s.multi (abs s) op = none := by
  have hlen := abs_length s hI
  cases op with
  | insert k v =>
    simp only [step, Spec.stepF]
    have := insertRoot_abs s hI k v 0
    cases hm : s.multi with
    | false => rw [hm] at this; exact ⟨_, _, rfl, by simpa using this, by simp [Op.retByTree]⟩
    | true => rw [hm] at this; exact ⟨_, _, rfl, by simpa using this, by simp [Op.retByTree]⟩
  | insertAt p k v =>
    have hm : s.multi = false := by
      cases h : s.multi with
      | false => rfl
      | true => exact absurd ⟨h, rfl⟩ (hop p k v)
    simp only [step, Spec.stepF, hm, Bool.false_eq_true, if_false, hlen]
    by_cases hp : p ≤ s.size
    · rw [if_pos hp, if_pos hp]
      obtain ⟨r, c, h1, h2, _⟩ := insertAt_map_state s hI hm p k v hp
      rw [h1]
      refine ⟨_, _, rfl, ?_, by simp [Op.retByTree]⟩
      rw [h2, insertRoot_abs s hI k v c, hm]; simp
    · rw [if_neg hp, if_neg hp]
  | removeKey k =>
    simp only [step, Spec.stepF]
    rw [findIdx_abs s hI k]
    cases hf : Spec.find k (abs s) with
    | none => exact ⟨_, _, rfl, rfl, fun _ => rfl⟩
    | some p =>
      simp only
      have hp : p < s.size := by rw [← hlen]; exact find_lt k _ p hf
      obtain ⟨r', h1, _, _, h4, h5⟩ := (removeAt_invT s hI p (s.findCmps k)).1 hp
      rw [h1]
      exact ⟨_, _, rfl, h4, fun _ => rfl⟩
  | removeAt p =>
    simp only [step, Spec.stepF, hlen]
    by_cases hp : p < s.size
    · obtain ⟨r', h1, _, _, h4, h5⟩ := (removeAt_invT s hI p 0).1 hp
      rw [h1, if_pos hp]
      exact ⟨_, _, rfl, h4, fun _ => by rw [h5]⟩
    · rw [(removeAt_invT s hI p 0).2 hp, if_neg hp]
  | removeFront =>
    simp only [step, Spec.stepF, hlen]
    by_cases hp : 0 < s.size
    · obtain ⟨r', h1, _, _, h4, h5⟩ := (removeAt_invT s hI 0 0).1 hp
      rw [h1, if_pos hp]
      exact ⟨_, _, rfl, h4, fun _ => by rw [h5]⟩
    · rw [(removeAt_invT s hI 0 0).2 hp, if_neg hp]
  | removeBack =>
    simp only [step, Spec.stepF, hlen]
    by_cases h0 : s.size = 0
    · rw [if_pos h0, if_neg (by omega)]
    · rw [if_neg h0, if_pos (by omega)]
      obtain ⟨r', h1, _, _, h4, h5⟩ := (removeAt_invT s hI (s.size - 1) 0).1 (by omega)
      rw [h1]
      exact ⟨_, _, rfl, h4, fun _ => by rw [h5]⟩
  | clear =>
    simp only [step, Spec.stepF]
    exact ⟨_, _, rfl, rfl, fun _ => rfl⟩
  | find k =>
    simp only [step, Spec.stepF]
    refine ⟨_, _, rfl, rfl, fun _ => ?_⟩
    rw [findIdx_abs s hI k, hlen]
  | contains k =>
    simp only [step, Spec.stepF]
    refine ⟨_, _, rfl, rfl, fun _ => ?_⟩
    rw [findIdx_abs s hI k]
  | count k =>
    simp only [step, Spec.stepF]
    cases hm : s.multi with
    | false => simp
    | true =>
      simp only [if_true]
      have hc := count_spec k s.t.inorder hI.sortedW
      have hf : s.findIdx k = firstIdx k s.t.inorder := by
        simp only [St.findIdx, hm, if_true]; exact findMIdx_spec k s.t hI.sortedW
      rw [hf]
      cases hfi : firstIdx k s.t.inorder with
      | none =>
        rw [hfi] at hc
        exact ⟨_, _, rfl, rfl, fun _ => by simp only [abs]; rw [← hc]⟩
      | some p =>
        rw [hfi] at hc
        simp only at hc ⊢
        exact ⟨_, _, rfl, rfl, fun _ => by simp only [abs]; rw [← hc]⟩
  | front =>
    simp only [step, Spec.stepF]
    cases ho : s.order.head? with
    | none =>
      simp only
      have : s.order = [] := List.head?_eq_none_iff.mp ho
      have h0 : (abs s).length = 0 := by rw [hlen, ← hI.olen, this]; rfl
      rw [List.eq_nil_of_length_eq_zero h0]; rfl
    | some id =>
      simp only
      have hne : (abs s) ≠ [] := by
        intro h
        have : s.order.length = 0 := by rw [hI.olen, ← hlen, h]; rfl
        rw [List.eq_nil_of_length_eq_zero this] at ho; simp at ho
      cases hx : (abs s).head? with
      | none => exact absurd (List.head?_eq_none_iff.mp hx) hne
      | some e => exact ⟨_, _, rfl, rfl, by simp [Op.retByTree]⟩
  | back =>
    simp only [step, Spec.stepF]
    cases ho : s.order.getLast? with
    | none =>
      simp only
      have : s.order = [] := List.getLast?_eq_none_iff.mp ho
      have h0 : (abs s).length = 0 := by rw [hlen, ← hI.olen, this]; rfl
      rw [List.eq_nil_of_length_eq_zero h0]; rfl
    | some id =>
      simp only
      have hne : (abs s) ≠ [] := by
        intro h
        have : s.order.length = 0 := by rw [hI.olen, ← hlen, h]; rfl
        rw [List.eq_nil_of_length_eq_zero this] at ho; simp at ho
      cases hx : (abs s).getLast? with
      | none => exact absurd (List.getLast?_eq_none_iff.mp hx) hne
      | some e => exact ⟨_, _, rfl, rfl, by simp [Op.retByTree]⟩

end Nstd.Avl
