import Nstd.Avl.LemmasHeapRemove10
/-
  Two-children removal: from the relinked heap to the end of `remove(it)`.
-/
namespace Nstd.Avl
open Tree
open Nstd.Avl.Heap
open Nstd.Generated.AvlRot

theorem removeRebal_unfold (fuel : Nat) (h : Heap) (c : Cell) (o p : Nat) :
    Map.removeRebal fuel h c o p = Map.removeRebal_loop fuel h c o p 0 := rfl

theorem removeUpwards_unfold (fuel : Nat) (h : Heap) (p : Nat) :
    Map.removeUpwards fuel h p = Map.removeUpwards_loop fuel h p 0 := rfl

/-- after the relinking: the heap `hB` holds the replacement as the frame `B` in the cell of the removed item, the inner
    path `a` from the old place of the neighbour below it, `sub` in its hole; the rest of `remove(it)` yields the model's step -/
theorem remove_finish_two (multi : Bool) (s : St) (h : Heap) (p fuel : Nat)
    (hreach : Reach multi s) (hr : ReprSt h s) (hp : p < s.size) (hf : s.t.height < fuel)
    (ctx : Ctx) (i : Nat) (k v : Int) (hh : Nat) (sl : Int) (l r : Tree)
    (a1 : ctx.plug (node i k v hh sl l r) = s.t) (a4 : (ids s.t)[p]? = some i) (a5 : ctx.pos l.size = p)
    (a8 : ctx.depth < s.t.height) (hl : l ≠ .nil) (hrn : r ≠ .nil)
    (B a : Ctx) (hBup : B.up = ctx) (hBn : B ≠ .top) (hB : Heap) (sub : Tree)
    (hcB : ReprCtx hB (a.append B)) (hsB : Repr hB (hB.get (a.append B).cell) (a.append B).par sub)
    (hndB : (ids sub ++ (a.append B).ids).Nodup) (hokB : ClimbOk a (sub, true))
    (hmodel : Tree.removeRoot (node i k v hh sl l r) = Tree.rebal (Tree.upd (B.node1 (a.climb (sub, true)).1)))
    (hRB : RebalOk (Tree.upd (B.node1 (a.climb (sub, true)).1)))
    (hfa : a.depth < fuel) (LS : ListSame h hB) :
    ∃ s' out, step s (.removeAt p) = some (s', out) ∧ out.ret = .it p ∧
    ∃ h' ptr, afterRebal fuel hB ctx.cell ctx.par (a.append B).par (i + 1) = some (h', ptr) ∧ ReprSt h' s' ∧
      h'.endItem = h.endItem ∧ ptr = headPtr h' (s'.order.drop p) := by
  obtain ⟨hT, hO, hm⟩ := invs_reach hreach
  have hA : Avl (ctx.plug (node i k v hh sl l r)) := by rw [a1]; exact hT.avl
  have hAN := avl_plug ctx _ hA
  obtain ⟨q1, q2, q3⟩ := removeRoot_spec i k v hh sl l r hAN
  -- the rebalParent loop
  obtain ⟨h2, e1, c2, r2, _, _, LS2⟩ := loop_spec B hBn a hB sub fuel 0 hcB hsB hndB hokB hRB (by rw [← hmodel]; exact q1) hfa
  rw [hBup] at e1 c2 r2
  rw [← hmodel] at r2
  -- rebalParentUpwards
  have hndt : (ids s.t).Nodup := (List.nodup_append.mp hO.nodup).1
  have hperm := ids_plug_perm ctx (node i k v hh sl l r)
  rw [a1] at hperm
  have hnd : (ids (node i k v hh sl l r) ++ ctx.ids).Nodup := hperm.nodup_iff.mp hndt
  have hids : ids (Tree.removeRoot (node i k v hh sl l r)) = ids l ++ ids r := by
    simp only [ids, q2, List.map_append]
  have hnd2 : (ids (Tree.removeRoot (node i k v hh sl l r)) ++ ctx.ids).Nodup := by
    rw [hids]
    simp only [ids_node, List.nodup_append, List.nodup_cons, List.mem_append, List.mem_cons] at hnd ⊢
    grind
  have hok2 : ClimbOk ctx (Tree.removeRoot (node i k v hh sl l r), true) := by
    have hhN : (node i k v hh sl l r).height = hh := by
      rw [avl_node] at hAN; simp only [Tree.height]; omega
    refine climbOk_of_avl ctx _ _ hA q1 ?_ (by simp)
    simp only []
    rw [hhN]; omega
  obtain ⟨h3, u1, u2, _, _⟩ := gen_remove_up_eq_climb false ctx h2 _ fuel 0 c2 r2 hnd2 hok2 (by omega)
  have hd := delIdx_plug ctx (node i k v hh sl l r) l.size (by simp only [Tree.size]; omega)
  rw [a1, a5] at hd
  have u2' : Repr h3 h3.root 0 (Tree.delIdx p s.t).1 := by
    rw [hd]; simpa [Tree.delIdx] using u2
  have LS3 : ListSame h h3 := listSame_trans (listSame_trans LS LS2) (listSame_removeUp _ _ _ _ _ u1)
  have hoi : s.order[p]? = some i := by rw [hO.order]; exact a4
  obtain ⟨s', out, f1, f2, f3, f4, f5⟩ := remove_tail_finish multi s h h3 p i hreach hr hp hoi u2' LS3
  refine ⟨s', out, f1, f2, _, _, ?_, f3, f4, f5⟩
  unfold afterRebal
  rw [removeRebal_unfold, e1]
  simp only
  rw [removeUpwards_unfold]
  have u1' : Map.removeUpwards_loop fuel h2 ctx.par 0 = some h3 := u1
  rw [u1']

end Nstd.Avl
