import Nstd.Avl.LemmasRun2
/-
  MultiMap hinted insert in the case the code leaves to the tree shape (`key == next->key`):
  the result is still sorted, balanced and one entry longer.
-/
namespace Nstd.Avl
namespace Tree

/-- weak version of `FitsM`: the cell lies in a place where `k` keeps the sequence ascending -/
def FitsW (k : Int) (right : Bool) (idx : Nat) : Tree → Prop
  | nil => False
  | node _ k' _ _ _ l r =>
    if idx < l.size then FitsW k right idx l ∧ k ≤ k'
    else if idx = l.size then (if right then k' ≤ k else k ≤ k')
    else k' ≤ k ∧ FitsW k right (idx - l.size - 1) r

theorem mem_insM (id : Nat) (k v : Int) (t : Tree) (x : E) (hx : x ∈ (insM id k v t).1.inorder) :
    x = (id, k, v) ∨ x ∈ t.inorder := by
  induction t with
  | nil => simp [insM] at hx; left; exact hx
  | node i k' v' h s l r ihl ihr =>
    simp only [insM] at hx
    by_cases h2 : k < k'
    · rw [if_pos h2, inorder_goL] at hx
      simp only [List.mem_append, List.mem_cons, inorder_node] at hx ⊢
      rcases hx with hx | hx | hx
      · rcases ihl hx with h | h
        · left; exact h
        · right; left; exact h
      · right; right; left; exact hx
      · right; right; right; exact hx
    · rw [if_neg h2, inorder_goR] at hx
      simp only [List.mem_append, List.mem_cons, inorder_node] at hx ⊢
      rcases hx with hx | hx | hx
      · right; left; exact hx
      · right; right; left; exact hx
      · rcases ihr hx with h | h
        · left; exact h
        · right; right; right; exact h

theorem mem_insAtM (id : Nat) (k v : Int) (right : Bool) (idx : Nat) (t : Tree) (x : E)
    (hx : x ∈ (insAt (insM id k v) right idx t).1.inorder) : x = (id, k, v) ∨ x ∈ t.inorder := by
  induction t generalizing idx with
  | nil => simp [insAt] at hx
  | node i k' v' h s l r ihl ihr =>
    simp only [insAt] at hx
    by_cases h1 : idx < l.size
    · rw [if_pos h1, inorder_goL] at hx
      simp only [List.mem_append, List.mem_cons, inorder_node] at hx ⊢
      rcases hx with hx | hx | hx
      · rcases ihl idx hx with h | h
        · left; exact h
        · right; left; exact h
      · right; right; left; exact hx
      · right; right; right; exact hx
    · by_cases h2 : idx = l.size
      · rw [if_neg h1, if_pos h2] at hx
        cases right with
        | true =>
          simp only [if_true, inorder_goR] at hx
          simp only [List.mem_append, List.mem_cons, inorder_node] at hx ⊢
          rcases hx with hx | hx | hx
          · right; left; exact hx
          · right; right; left; exact hx
          · rcases mem_insM id k v r x hx with h | h
            · left; exact h
            · right; right; right; exact h
        | false =>
          simp only [Bool.false_eq_true, if_false, inorder_goL] at hx
          simp only [List.mem_append, List.mem_cons, inorder_node] at hx ⊢
          rcases hx with hx | hx | hx
          · rcases mem_insM id k v l x hx with h | h
            · left; exact h
            · right; left; exact h
          · right; right; left; exact hx
          · right; right; right; exact hx
      · rw [if_neg h1, if_neg h2, inorder_goR] at hx
        simp only [List.mem_append, List.mem_cons, inorder_node] at hx ⊢
        rcases hx with hx | hx | hx
        · right; left; exact hx
        · right; right; left; exact hx
        · rcases ihr _ hx with h | h
          · left; exact h
          · right; right; right; exact h

theorem sortedW_glue {X R : List E} {e : E} (hX : SortedW X) (hR : SortedW (e :: R))
    (h : ∀ a ∈ X, a.2.1 ≤ e.2.1) : SortedW (X ++ e :: R) := by
  unfold SortedW at *
  rw [List.pairwise_append]
  refine ⟨hX, hR, ?_⟩
  intro a ha b hb
  rw [List.pairwise_cons] at hR
  rcases List.mem_cons.mp hb with hb | hb
  · rw [hb]; exact h a ha
  · have := hR.1 b hb; have := h a ha; omega

theorem sortedW_glue2 {L Y : List E} {e : E} (hL : SortedW (L ++ [e])) (hY : SortedW Y)
    (h : ∀ b ∈ Y, e.2.1 ≤ b.2.1) : SortedW (L ++ e :: Y) := by
  unfold SortedW at *
  rw [List.pairwise_append] at hL ⊢
  refine ⟨hL.1, ?_, ?_⟩
  · rw [List.pairwise_cons]; exact ⟨h, hY⟩
  · intro a ha b hb
    have h1 := hL.2.2 a ha e (by simp)
    rcases List.mem_cons.mp hb with hb | hb
    · rw [hb]; exact h1
    · have := h b hb; omega

theorem sortedW_prefix {L R : List E} {e : E} (h : SortedW (L ++ e :: R)) : SortedW (L ++ [e]) := by
  unfold SortedW at *
  have : (L ++ [e]).Sublist (L ++ e :: R) :=
    List.Sublist.append (List.Sublist.refl L) (by simp)
  exact List.Pairwise.sublist this h

theorem sortedW_suffix {L R : List E} {e : E} (h : SortedW (L ++ e :: R)) : SortedW (e :: R) := by
  unfold SortedW at *
  rw [List.pairwise_append] at h; exact h.2.1

theorem sortedW_insAtM (id : Nat) (k v : Int) (right : Bool) (idx : Nat) (t : Tree)
    (hs : SortedW t.inorder) (hf : FitsW k right idx t) :
    SortedW (insAt (insM id k v) right idx t).1.inorder := by
  induction t generalizing idx with
  | nil => exact absurd hf (by simp [FitsW])
  | node i k' v' h s l r ihl ihr =>
    simp only [FitsW] at hf
    simp only [inorder_node] at hs
    obtain ⟨sl, sr, hl, hr⟩ := sortedW_node hs
    simp only [insAt]
    by_cases h1 : idx < l.size
    · rw [if_pos h1] at hf
      rw [if_pos h1, inorder_goL]
      refine sortedW_glue (ihl idx sl hf.1) (sortedW_suffix hs) ?_
      intro a ha
      rcases mem_insAtM id k v right idx l a ha with h | h
      · rw [h]; exact hf.2
      · exact hl a h
    · by_cases h2 : idx = l.size
      · rw [if_neg h1, if_pos h2] at hf
        rw [if_neg h1, if_pos h2]
        cases right with
        | true =>
          simp only [if_true] at hf
          simp only [if_true, inorder_goR]
          rw [insM_inorder id k v r sr]
          refine sortedW_glue2 (sortedW_prefix hs) (insListM_sorted id k v _ sr) ?_
          intro b hb
          rcases mem_insListM hb with h | ⟨y, hy, h⟩
          · rw [h]; exact hf
          · rw [h]; exact hr y hy
        | false =>
          simp only [Bool.false_eq_true, if_false] at hf
          simp only [Bool.false_eq_true, if_false, inorder_goL]
          rw [insM_inorder id k v l sl]
          refine sortedW_glue (insListM_sorted id k v _ sl) (sortedW_suffix hs) ?_
          intro a ha
          rcases mem_insListM ha with h | ⟨y, hy, h⟩
          · rw [h]; exact hf
          · rw [h]; exact hl y hy
      · rw [if_neg h1, if_neg h2] at hf
        rw [if_neg h1, if_neg h2, inorder_goR]
        refine sortedW_glue2 (sortedW_prefix hs) (ihr _ sr hf.2) ?_
        intro b hb
        rcases mem_insAtM id k v right _ r b hb with h | h
        · rw [h]; exact hf.1
        · exact hr b h

theorem insAtM_length (id : Nat) (k v : Int) (right : Bool) (idx : Nat) (t : Tree) (hidx : idx < t.size) :
    (insAt (insM id k v) right idx t).1.inorder.length = t.inorder.length + 1 := by
  induction t generalizing idx with
  | nil => simp at hidx
  | node i k' v' h s l r ihl ihr =>
    simp only [insAt]
    by_cases h1 : idx < l.size
    · rw [if_pos h1, inorder_goL]
      simp only [List.length_append, List.length_cons, inorder_node, ihl idx h1]; omega
    · by_cases h2 : idx = l.size
      · rw [if_neg h1, if_pos h2]
        cases right with
        | true =>
          simp only [if_true, inorder_goR, List.length_append, List.length_cons, inorder_node, insM_length]; omega
        | false =>
          simp only [Bool.false_eq_true, if_false, inorder_goL, List.length_append, List.length_cons,
            inorder_node, insM_length]; omega
      · rw [if_neg h1, if_neg h2, inorder_goR]
        have hidx' : idx - l.size - 1 < r.size := by simp only [size_node] at hidx; omega
        simp only [List.length_append, List.length_cons, inorder_node, ihr _ hidx']; omega

theorem fitsW_of_cut (k : Int) (right : Bool) (idx : Nat) (t : Tree) (hidx : idx < t.size)
    (hlo : ∀ e ∈ t.inorder.take (if right then idx + 1 else idx), e.2.1 ≤ k)
    (hhi : ∀ e ∈ t.inorder.drop (if right then idx + 1 else idx), k ≤ e.2.1) :
    FitsW k right idx t := by
  induction t generalizing idx with
  | nil => simp at hidx
  | node i k' v' h s l r ihl ihr =>
    simp only [FitsW]
    simp only [inorder_node] at hlo hhi
    have hL := size_eq_length l
    by_cases h1 : idx < l.size
    · simp only [h1, if_true]
      have hc : (if right then idx + 1 else idx) ≤ l.inorder.length := by split <;> omega
      rw [List.take_append_of_le_length hc] at hlo
      rw [List.drop_append_of_le_length hc] at hhi
      refine ⟨ihl idx h1 hlo (fun e he => hhi e (by simp [he])), ?_⟩
      exact hhi (i, k', v') (by simp)
    · by_cases h2 : idx = l.size
      · rw [if_neg h1, if_pos h2]
        cases right with
        | true =>
          simp only [if_true] at hlo ⊢
          have : (i, k', v') ∈ (l.inorder ++ (i, k', v') :: r.inorder).take (idx + 1) := by
            rw [List.take_append]
            have : idx + 1 - l.inorder.length = 1 := by omega
            rw [this]; simp
          exact hlo _ this
        | false =>
          simp only [Bool.false_eq_true, if_false] at hhi ⊢
          have : (i, k', v') ∈ (l.inorder ++ (i, k', v') :: r.inorder).drop idx := by
            rw [List.drop_append]
            have : idx - l.inorder.length = 0 := by omega
            rw [this]; simp
          exact hhi _ this
      · simp only [h1, h2, if_false]
        have hidx' : idx - l.size - 1 < r.size := by simp only [size_node] at hidx; omega
        have hc : (if right then idx + 1 else idx) - l.inorder.length
            = (if right then (idx - l.size - 1) + 1 else (idx - l.size - 1)) + 1 := by split <;> omega
        rw [List.take_append, hc] at hlo
        rw [List.drop_append, hc] at hhi
        simp only [List.take_succ_cons, List.drop_succ_cons] at hlo hhi
        refine ⟨hlo (i, k', v') (by simp), ihr _ hidx' (fun e he => hlo e (by simp [he])) ?_⟩
        intro e he
        apply hhi e
        rw [List.drop_eq_nil_of_le (by split <;> omega)]
        simpa using he

end Tree
end Nstd.Avl
