import Nstd.Avl.Model
/-
  The abstract specification of property C01: a sorted association list.
  `Map`: unique keys; `MultiMap`: a plain insert goes behind the last key `≤ k`.
  Iterators are positions in the list (`length` = `end()`).
-/
namespace Nstd.Avl.Spec

abbrev KV := Int × Int

def insertMap (k v : Int) : List KV → List KV
  | [] => [(k, v)]
  | e :: es =>
    if k < e.1 then (k, v) :: e :: es
    else if k = e.1 then (e.1, v) :: es
    else e :: insertMap k v es

def insertMulti (k v : Int) : List KV → List KV
  | [] => [(k, v)]
  | e :: es => if k < e.1 then (k, v) :: e :: es else e :: insertMulti k v es

/-- number of leading keys `< k`: the position of key `k` in a Map -/
def lower (k : Int) : List KV → Nat
  | [] => 0
  | e :: es => if e.1 < k then lower k es + 1 else 0

/-- number of leading keys `≤ k`: the position a plain MultiMap insert takes -/
def upper (k : Int) : List KV → Nat
  | [] => 0
  | e :: es => if k < e.1 then 0 else upper k es + 1

/-- first position carrying key `k` -/
def find (k : Int) (xs : List KV) : Option Nat := xs.findIdx? (fun e => e.1 == k)

def count (k : Int) (xs : List KV) : Nat := xs.countP (fun e => e.1 == k)

/-- where `MultiMap::insert(position p, k, v)` may put the new entry (MultiMap.hpp:117-140).
    In one case the code leaves the position inside a run of equal keys to the tree shape. -/
def HintPos (xs : List KV) (p : Nat) (k : Int) (q : Nat) : Prop :=
  if p = xs.length then
    match xs.getLast? with
    | some e => if k > e.1 then q = xs.length else q = upper k xs
    | none => q = upper k xs
  else
    match xs[p]? with
    | none => False
    | some h =>
      if k < h.1 then
        (if p = 0 then q = p else
          match xs[p - 1]? with
          | some pe => if k ≥ pe.1 then q = p else q = upper k xs
          | none => q = p)
      else
        match xs[p + 1]? with
        | none => q = p + 1
        | some ne =>
          if k < ne.1 then q = p + 1
          else if k = ne.1 then p + 1 ≤ q ∧ q ≤ upper k xs
          else q = upper k xs

/-- the deterministic part of the specification -/
def stepF (multi : Bool) (xs : List KV) : Op → Option (List KV × Ret)
  | .insert k v =>
    if multi then some (insertMulti k v xs, .it (upper k xs))
    else some (insertMap k v xs, .it (lower k xs))
  | .insertAt p k v =>
    if multi then none
    else if p ≤ xs.length then some (insertMap k v xs, .it (lower k xs)) else none
  | .removeKey k =>
    match find k xs with
    | some i => some (xs.eraseIdx i, .none)
    | none => some (xs, .none)
  | .removeAt p => if p < xs.length then some (xs.eraseIdx p, .it p) else none
  | .removeFront => if 0 < xs.length then some (xs.eraseIdx 0, .it 0) else none
  | .removeBack => if 0 < xs.length then some (xs.eraseIdx (xs.length - 1), .it (xs.length - 1)) else none
  | .clear => some ([], .none)
  | .find k => some (xs, .it ((find k xs).getD xs.length))
  | .contains k => some (xs, .bool (find k xs).isSome)
  | .count k => if multi then some (xs, .num (count k xs)) else none
  | .front => match xs.head? with | some e => some (xs, .val (some e.2)) | none => none
  | .back => match xs.getLast? with | some e => some (xs, .val (some e.2)) | none => none

/-- one step of the specification -/
inductive Step (multi : Bool) (xs : List KV) : Op → Option (List KV × Ret) → Prop
  | det (op : Op) (h : ∀ p k v, ¬ (multi = true ∧ op = .insertAt p k v)) : Step multi xs op (stepF multi xs op)
  | hintReject (p : Nat) (k v : Int) (hm : multi = true) (hp : xs.length < p) :
      Step multi xs (.insertAt p k v) none
  | hint (p : Nat) (k v : Int) (q : Nat) (hm : multi = true) (hp : p ≤ xs.length) (hq : HintPos xs p k q) :
      Step multi xs (.insertAt p k v) (some (xs.take q ++ (k, v) :: xs.drop q, .it q))

end Nstd.Avl.Spec
