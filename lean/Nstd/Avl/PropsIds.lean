import Nstd.Avl.PropsK
import Nstd.Avl.LemmasPool
/-
  Items of Map / MultiMap never change identity while they live — the mechanism-level statement
  behind property C05 ("elements never move while they live") for the two tree containers, for `Int`
  keys and for every strictly totally ordered key type.  An item's identity is its id = its address
  in the node pool (block number * items per block + slot; compared with the real addresses by the
  white-box dump of the C01 correspondence run).
-/
namespace Nstd.Avl
open Tree

/-- **Items never change identity while they live** (the mechanism-level C05 statement for Map and
    MultiMap; `Survives`/`Removes` are defined in LemmasStable.lean).  After any op from a reachable
    state every item `e = (id, key, value)` of the tree
    * is still in the tree, unchanged; or
    * (Map) is still in the tree with the same id and key, and `op` is an insert / hinted insert of
      exactly its key whose value it now carries; or
    * `op` is a removal that designates exactly this item — `removeAt p` / `removeFront` /
      `removeBack` with `e` at that position, `removeKey k` with `e` the item `find k` returns — or
      `clear`, and its id is on the free list.
    So inserts, lookups, rotations and the two-child removal never release, copy or re-create an item. -/
theorem ids_stable_step {multi : Bool} {s : St} (hr : Reach multi s) (op : Op) (r : St × Out)
    (h : step s op = some r) (e : Nat × Int × Int) (he : e ∈ s.t.inorder) : Survives s op r.1 e := by
  obtain ⟨hI, hO, _⟩ := invs_reach hr
  exact step_survives s hI hO op r h e he

/-- corollary: an op that is not a removal keeps the id of every item -/
theorem ids_kept_by_non_removal {multi : Bool} {s : St} (hr : Reach multi s) (op : Op) (r : St × Out)
    (h : step s op = some r) (hop : ∀ e, ¬ Removes s op e) (e : Nat × Int × Int) (he : e ∈ s.t.inorder) :
    e.1 ∈ ids r.1.t := by
  rcases ids_stable_step hr op r h e he with h1 | ⟨_, v, h2, _⟩ | ⟨_, h3⟩
  · exact List.mem_map_of_mem (f := fun e => e.1) h1
  · exact List.mem_map_of_mem (f := fun e => e.1) h2
  · exact absurd h3 (hop e)

/-- corollary: `remove(iterator)` removes exactly the designated item's id from the in-order ids -/
theorem ids_after_removeAt {multi : Bool} {s : St} (hr : Reach multi s) (p : Nat) (r : St × Out)
    (h : step s (.removeAt p) = some r) : ids r.1.t = (ids s.t).eraseIdx p := by
  obtain ⟨hI, hO, _⟩ := invs_reach hr
  simp only [step] at h
  unfold St.removeAt at h
  cases ho : s.order[p]? with
  | none => rw [ho] at h; simp at h
  | some id =>
    rw [ho] at h; simp only [Option.some.injEq] at h; subst h
    have hp : p < s.order.length := (List.getElem?_eq_some_iff.mp ho).1
    have hidx : p < s.t.size := by rw [← hI.size, ← hI.olen]; exact hp
    obtain ⟨_, d2, _, _⟩ := delIdx_spec s.t hI.avl p hidx
    simp only [ids]; rw [d2, map_eraseIdx_fst]


/-- **The allocation order of the node pool** (`Map::insert`, Map.hpp:398-413): a non-empty free list gives its head
    (the most recently released item) and keeps the rest; an empty one allocates a block of `ipbOf` items (the
    constant is translated from the current headers), hands out its LAST slot and leaves the other slots on the
    free list, highest on top. -/
theorem alloc_lifo (s : St) :
    (∀ i rest, s.free = i :: rest → s.alloc = (i, { s with free := rest })) ∧
    (s.free = [] → s.alloc = (ipbOf s.multi * s.blocks + (ipbOf s.multi - 1),
        { s with free := blockItems (ipbOf s.multi * s.blocks) (ipbOf s.multi - 1), blocks := s.blocks + 1 })) :=
  alloc_lifo' s

/-- **Which address an insert takes** (LIFO free list, blocks of `ipbOf` items, the constant translated from the
    headers).  If an op from a reachable state creates an item (`size` grows), then
    * the op is a plain or hinted insert;
    * the new item — the one the returned iterator points to — has the id `s.alloc.1`: the head of the free list,
      i.e. the most recently released item, or, when the free list is empty, the LAST slot of a freshly allocated
      block (`alloc_lifo`);
    * that id is not the id of any live item (an address is reused only after its item was removed, or never used before);
    * the free list loses exactly that id (a fresh block puts its other slots on the free list, highest on top). -/
theorem insert_takes_free_head {multi : Bool} {s : St} (hr : Reach multi s) (op : Op) (r : St × Out)
    (h : step s op = some r) (hc : r.1.size = s.size + 1) :
    ((∃ k v, op = .insert k v) ∨ (∃ p k v, op = .insertAt p k v)) ∧
    (∃ q, r.2.ret = .it q ∧ (ids r.1.t)[q]? = some s.alloc.1) ∧
    s.alloc.1 ∉ ids s.t ∧ r.1.free = s.alloc.2.free ∧ r.1.blocks = s.alloc.2.blocks := by
  obtain ⟨hI, hO, _⟩ := invs_reach hr
  have hreach' : Reach multi r.1 := by
    have := Reach.step op hr
    unfold step' at this; rw [h] at this; exact this
  obtain ⟨_, hO', _⟩ := invs_reach hreach'
  clear hreach'
  have fresh : s.alloc.1 ∉ ids s.t := by
    have := (alloc_spec s hO).1
    rw [List.nodup_cons] at this
    intro hm; exact this.1 (List.mem_append_left _ hm)
  have fin : PoolStep s r → (∃ q, r.2.ret = .it q ∧ (ids r.1.t)[q]? = some s.alloc.1) ∧
      s.alloc.1 ∉ ids s.t ∧ r.1.free = s.alloc.2.free ∧ r.1.blocks = s.alloc.2.blocks := by
    intro hp
    obtain ⟨f1, f2, q, f3, f4⟩ := hp.1 hc
    rw [hO'.order] at f4
    exact ⟨⟨q, f3, f4⟩, fresh, f1, f2⟩
  cases op with
  | insert k v =>
    simp only [step, Option.some.injEq] at h; subst h
    exact ⟨Or.inl ⟨k, v, rfl⟩, fin (insertRoot_pool s k v 0)⟩
  | insertAt p k v =>
    simp only [step] at h
    split at h
    · exact ⟨Or.inr ⟨p, k, v, rfl⟩, fin (insertAt_pool s p k v r h)⟩
    · simp at h
  | removeKey k =>
    exfalso
    simp only [step] at h
    split at h
    · cases hr' : s.removeAt _ (s.findCmps k) with
      | none => rw [hr'] at h; simp at h
      | some r' =>
        rw [hr'] at h
        simp only [Option.map_some, Option.some.injEq] at h; subst h
        unfold St.removeAt at hr'
        split at hr'
        · simp at hr'
        · simp only [Option.some.injEq] at hr'; subst hr'; simp only at hc; omega
    · simp only [Option.some.injEq] at h; subst h; (try simp only at hc); omega
  | removeAt p =>
    exfalso
    simp only [step] at h
    unfold St.removeAt at h
    split at h
    · simp at h
    · simp only [Option.some.injEq] at h; subst h; simp only at hc; omega
  | removeFront =>
    exfalso
    simp only [step] at h
    unfold St.removeAt at h
    split at h
    · simp at h
    · simp only [Option.some.injEq] at h; subst h; simp only at hc; omega
  | removeBack =>
    exfalso
    simp only [step] at h
    split at h
    · simp at h
    · unfold St.removeAt at h
      split at h
      · simp at h
      · simp only [Option.some.injEq] at h; subst h; simp only at hc; omega
  | clear => exfalso; simp only [step, Option.some.injEq] at h; subst h; simp only at hc; omega
  | find k => exfalso; simp only [step, Option.some.injEq] at h; subst h; (try simp only at hc); omega
  | contains k => exfalso; simp only [step, Option.some.injEq] at h; subst h; (try simp only at hc); omega
  | count k =>
    exfalso
    simp only [step] at h
    split at h
    · split at h
      · simp only [Option.some.injEq] at h; subst h; (try simp only at hc); omega
      · simp only [Option.some.injEq] at h; subst h; (try simp only at hc); omega
    · simp at h
  | front =>
    exfalso
    simp only [step] at h
    split at h
    · simp only [Option.some.injEq] at h; subst h; (try simp only at hc); omega
    · simp at h
  | back =>
    exfalso
    simp only [step] at h
    split at h
    · simp only [Option.some.injEq] at h; subst h; (try simp only at hc); omega
    · simp at h

/-- **LIFO reuse**: the item created by the first creating op after `remove(iterator)` gets exactly the address of
    the item just removed, and the free list is back to what it was before the removal. -/
theorem remove_then_insert_reuses {multi : Bool} {s : St} (hr : Reach multi s) (p : Nat) (r1 : St × Out)
    (h1 : step s (.removeAt p) = some r1) (op : Op) (r2 : St × Out) (h2 : step r1.1 op = some r2)
    (hc : r2.1.size = r1.1.size + 1) :
    ∃ q, r2.2.ret = .it q ∧ (ids r2.1.t)[q]? = (ids s.t)[p]? ∧ r2.1.free = s.free := by
  obtain ⟨_, hO, _⟩ := invs_reach hr
  have hr1 : Reach multi r1.1 := by
    have := Reach.step (.removeAt p) hr
    unfold step' at this; rw [h1] at this; exact this
  obtain ⟨_, ⟨q, e1, e2⟩, _, e3, _⟩ := insert_takes_free_head hr1 op r2 h2 hc
  simp only [step] at h1
  unfold St.removeAt at h1
  cases ho : s.order[p]? with
  | none => rw [ho] at h1; simp at h1
  | some id =>
    rw [ho] at h1
    simp only [Option.some.injEq] at h1; subst h1
    have ha := (alloc_lifo' { s with t := (delIdx p s.t).1, order := s.order.eraseIdx p, size := s.size - 1, free := id :: s.free }).1 id s.free rfl
    simp only at e2 e3 ha
    rw [ha] at e2 e3
    refine ⟨q, e1, ?_, e3⟩
    rw [e2, ← hO.order, ho]



namespace G
variable {K : Type} [KeyOrder K]

/-- `op`, executed in state `s`, is a removal that designates the item `e` (generic keys) -/
def Removes (s : St K) (op : Op K) (e : Nat × K × Int) : Prop :=
  match op with
  | .removeAt p => s.t.inorder[p]? = some e
  | .removeFront => s.t.inorder[0]? = some e
  | .removeBack => s.t.inorder[s.size - 1]? = some e
  | .removeKey k => ∃ p, s.findIdx k = some p ∧ s.t.inorder[p]? = some e
  | .clear => True
  | _ => False

def Survives (s : St K) (op : Op K) (s' : St K) (e : Nat × K × Int) : Prop :=
  e ∈ s'.t.inorder ∨
  (s.multi = false ∧ ∃ v, (e.1, e.2.1, v) ∈ s'.t.inorder ∧
      (op = .insert e.2.1 v ∨ ∃ p, op = .insertAt p e.2.1 v)) ∨
  (e.1 ∈ s'.free ∧ Removes s op e)

theorem toE_inj {f : K → Int} {L : List K} (hL : PresL f L) {a b : Nat × K × Int}
    (ha : a.2.1 ∈ L) (hb : b.2.1 ∈ L) (h : toE f a = toE f b) : a = b := by
  obtain ⟨a1, a2, a3⟩ := a
  obtain ⟨b1, b2, b3⟩ := b
  simp only [toE, Prod.mk.injEq] at h
  have := (hL a2 ha b2 hb).2.2.2.2.mpr h.2.1
  simp only [Prod.mk.injEq]
  exact ⟨h.1, this, h.2.2⟩

theorem findIdx_toSt (f : K → Int) (s : St K) (k : K) (hk : All (Pres f k) s.t) :
    (toSt f s).findIdx (f k) = s.findIdx k := by
  unfold St.findIdx Avl.St.findIdx Tree.findMIdx Avl.Tree.findMIdx
  have e3 : (toSt f s).multi = s.multi := rfl
  simp only [e3, toSt, findIdx_toI k s.t hk, findMLoop_toI k _ _ s.t hk]

/-- **Items never change identity while they live, for every key type.** -/
theorem ids_stable_step (multi : Bool) (ops : List (Op K)) (op : Op K) (r : St K × Out)
    (h : step (run multi ops) op = some r) (e : Nat × K × Int) (he : e ∈ (run multi ops).t.inorder) :
    Survives (run multi ops) op r.1 e := by
  obtain ⟨hL, h1, h2⟩ := transfer multi ops (keysOf [op])
  generalize hLd : keysOf [op] ++ keysOf ops = L at hL h1 h2
  generalize hfd : rank L = f at hL h1 h2
  generalize hsd : run multi ops = s at h he h1 h2 ⊢
  have hopk : ∀ k, opKey op = some k → k ∈ L := by
    intro k hk
    rw [← hLd]
    apply List.mem_append_left
    unfold keysOf; rw [List.mem_filterMap]; exact ⟨op, by simp, hk⟩
  have hk : ∀ k, opKey op = some k → All (Pres f k) s.t :=
    fun k hk => all_imp (fun x hx => hL k (hopk k hk) x hx) _ h2
  have h2' : All (fun k => k ∈ L) r.1.t := step_all s op r h hopk h2
  have hin := all_inorder h2
  have hin' := all_inorder h2'
  have hst := step_toSt (f := f) s op hk
  rw [h] at hst
  simp only [toR, Option.map_some] at hst
  have hreach : Avl.Reach multi (toSt f s) := by rw [h1]; exact Avl.reach_run _ _
  have heI : toE f e ∈ (toSt f s).t.inorder := by
    simp only [toSt, toI_inorder]; exact List.mem_map_of_mem he
  have hsv := Avl.ids_stable_step hreach (toOp f op) _ hst (toE f e) heI
  -- pull the three cases back along `f`
  have pull : ∀ x : Nat × K × Int, x.2.1 ∈ L → toE f x ∈ (toSt f r.1).t.inorder → x ∈ r.1.t.inorder := by
    intro x hx hm
    simp only [toSt, toI_inorder, List.mem_map] at hm
    obtain ⟨y, hy, hxy⟩ := hm
    have := toE_inj hL (hin' y hy) hx hxy
    rw [← this]; exact hy
  rcases hsv with c1 | ⟨c2, v, c3, c4⟩ | ⟨c5, c6⟩
  · left; exact pull e (hin e he) c1
  · right; left
    refine ⟨c2, v, pull (e.1, e.2.1, v) (hin e he) c3, ?_⟩
    simp only [toE] at c4
    cases op with
    | insert k v' =>
      simp only [toOp] at c4
      rcases c4 with c4 | ⟨p, c4⟩
      · simp only [Avl.Op.insert.injEq] at c4
        have := (hL k (hopk k rfl) e.2.1 (hin e he)).2.2.2.2.mpr c4.1
        left; rw [this, c4.2]
      · simp at c4
    | insertAt p' k v' =>
      simp only [toOp] at c4
      rcases c4 with c4 | ⟨p, c4⟩
      · simp at c4
      · simp only [Avl.Op.insertAt.injEq] at c4
        have := (hL k (hopk k rfl) e.2.1 (hin e he)).2.2.2.2.mpr c4.2.1
        right; exact ⟨p', by rw [this, c4.2.2]⟩
    | removeKey k => simp [toOp] at c4
    | removeAt p => simp [toOp] at c4
    | removeFront => simp [toOp] at c4
    | removeBack => simp [toOp] at c4
    | clear => simp [toOp] at c4
    | find k => simp [toOp] at c4
    | contains k => simp [toOp] at c4
    | count k => simp [toOp] at c4
    | front => simp [toOp] at c4
    | back => simp [toOp] at c4
  · right; right
    refine ⟨c5, ?_⟩
    have pullAt : ∀ p : Nat, (toSt f s).t.inorder[p]? = some (toE f e) → s.t.inorder[p]? = some e := by
      intro p hp
      simp only [toSt, toI_inorder, List.getElem?_map] at hp
      cases hx : s.t.inorder[p]? with
      | none => rw [hx] at hp; simp at hp
      | some y =>
        rw [hx] at hp
        simp only [Option.map_some, Option.some.injEq] at hp
        rw [toE_inj hL (hin y (List.mem_of_getElem? hx)) (hin e he) hp]
    cases op with
    | removeAt p => exact pullAt p c6
    | removeFront => exact pullAt 0 c6
    | removeBack => exact pullAt _ c6
    | removeKey k =>
      obtain ⟨p, c7, c8⟩ := c6
      rw [findIdx_toSt f s k (hk k rfl)] at c7
      exact ⟨p, c7, pullAt p c8⟩
    | clear => trivial
    | insert k v => exact c6
    | insertAt p k v => exact c6
    | find k => exact c6
    | contains k => exact c6
    | count k => exact c6
    | front => exact c6
    | back => exact c6

theorem ids_toSt (f : K → Int) (s : St K) : Avl.ids (toSt f s).t = s.t.inorder.map (fun e => e.1) := by
  simp [Avl.ids, toSt, toI_inorder, toE]

/-- **Which address an insert takes, for every key type** (see `Avl.insert_takes_free_head`). -/
theorem insert_takes_free_head (multi : Bool) (ops : List (Op K)) (op : Op K) (r : St K × Out)
    (h : step (run multi ops) op = some r) (hc : r.1.size = (run multi ops).size + 1) :
    ((∃ k v, op = .insert k v) ∨ (∃ p k v, op = .insertAt p k v)) ∧
    (∃ q, r.2.ret = .it q ∧ (r.1.t.inorder.map (fun e => e.1))[q]? = some (run multi ops).alloc.1) ∧
    (run multi ops).alloc.1 ∉ (run multi ops).t.inorder.map (fun e => e.1) ∧
    r.1.free = (run multi ops).alloc.2.free ∧ r.1.blocks = (run multi ops).alloc.2.blocks := by
  obtain ⟨hL, h1, h2⟩ := transfer multi ops (keysOf [op])
  generalize hLd : keysOf [op] ++ keysOf ops = L at hL h1 h2
  generalize hfd : rank L = f at hL h1 h2
  generalize hsd : run multi ops = s at h hc h1 h2 ⊢
  have hopk : ∀ k, opKey op = some k → k ∈ L := by
    intro k hk
    rw [← hLd]
    apply List.mem_append_left
    unfold keysOf; rw [List.mem_filterMap]; exact ⟨op, by simp, hk⟩
  have hk : ∀ k, opKey op = some k → All (Pres f k) s.t :=
    fun k hk => all_imp (fun x hx => hL k (hopk k hk) x hx) _ h2
  have hst := step_toSt (f := f) s op hk
  rw [h] at hst
  simp only [toR, Option.map_some] at hst
  have hreach : Avl.Reach multi (toSt f s) := by rw [h1]; exact Avl.reach_run _ _
  obtain ⟨a, ⟨q, b1, b2⟩, c, d, e⟩ := Avl.insert_takes_free_head hreach (toOp f op) _ hst hc
  rw [alloc_toSt] at b2 c d e
  simp only [ids_toSt] at b2 c
  refine ⟨?_, ⟨q, b1, b2⟩, c, d, e⟩
  rcases a with ⟨k', v, a⟩ | ⟨p, k', v, a⟩
  · left; cases op <;> simp [toOp] at a
    exact ⟨_, _, rfl⟩
  · right; cases op <;> simp [toOp] at a
    exact ⟨_, _, _, rfl⟩

theorem run_snoc_k (multi : Bool) (ops : List (Op K)) (op : Op K) : run multi (ops ++ [op]) = step' (run multi ops) op := by
  simp [run, List.foldl_append]

/-- **LIFO reuse, for every key type**: the item created by the first creating op after `remove(iterator)` gets exactly
    the address of the item just removed, and the free list is back to what it was before the removal. -/
theorem remove_then_insert_reuses (multi : Bool) (ops : List (Op K)) (p : Nat) (r1 : St K × Out)
    (h1 : step (run multi ops) (.removeAt p) = some r1) (op : Op K) (r2 : St K × Out) (h2 : step r1.1 op = some r2)
    (hc : r2.1.size = r1.1.size + 1) :
    ∃ q, r2.2.ret = .it q ∧ (r2.1.t.inorder.map (fun e => e.1))[q]? = (run multi ops).order[p]? ∧
      r2.1.free = (run multi ops).free := by
  have e1 : run multi (ops ++ [.removeAt p]) = r1.1 := by
    rw [run_snoc_k]; unfold step'; rw [h1]
  rw [← e1] at h2 hc
  obtain ⟨_, ⟨q, b1, b2⟩, _, d, _⟩ := insert_takes_free_head multi (ops ++ [.removeAt p]) op r2 h2 hc
  rw [e1] at b2 d
  simp only [step] at h1
  unfold St.removeAt at h1
  cases ho : (run multi ops).order[p]? with
  | none => rw [ho] at h1; simp at h1
  | some id =>
    rw [ho] at h1
    simp only [Option.some.injEq] at h1; subst h1
    simp only [St.alloc] at b2 d
    exact ⟨q, b1, b2, d⟩

end G

end Nstd.Avl
