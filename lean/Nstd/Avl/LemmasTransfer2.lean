import Nstd.Avl.LemmasTransfer
/-
  Part 2: the key set of the generic tree only changes by the key of the operation
  (`All P` is kept), container level transfer, whole runs.
-/
namespace Nstd.Avl.G
variable {K : Type} [KeyOrder K] {P : K → Prop}

theorem all_upd (t : Tree K) (h : All P t) : All P (Tree.upd t) := by
  cases t <;> simp_all [Tree.upd, All]

theorem all_rotr (t : Tree K) (h : All P t) : All P (Tree.rotr t) := by
  cases t with
  | nil => exact h
  | node i k v hh s l r =>
    cases l with
    | nil => exact h
    | node li lk lv lh ls ll lr => simp_all [Tree.rotr, Tree.upd, All]

theorem all_rotl (t : Tree K) (h : All P t) : All P (Tree.rotl t) := by
  cases t with
  | nil => exact h
  | node i k v hh s l r =>
    cases r with
    | nil => exact h
    | node ri rk rv rh rs rl rr => simp_all [Tree.rotl, Tree.upd, All]

theorem all_shiftr (t : Tree K) (h : All P t) : All P (Tree.shiftr t) := by
  cases t with
  | nil => exact h
  | node i k v hh s l r =>
    simp only [All] at h
    simp only [Tree.shiftr]
    split
    · exact all_rotr _ (by simp only [All]; exact ⟨h.1, all_rotl _ h.2.1, h.2.2⟩)
    · exact all_rotr _ (by simp only [All]; exact h)

theorem all_shiftl (t : Tree K) (h : All P t) : All P (Tree.shiftl t) := by
  cases t with
  | nil => exact h
  | node i k v hh s l r =>
    simp only [All] at h
    simp only [Tree.shiftl]
    split
    · exact all_rotl _ (by simp only [All]; exact ⟨h.1, h.2.1, all_rotr _ h.2.2⟩)
    · exact all_rotl _ (by simp only [All]; exact h)

theorem all_rebal (t : Tree K) (h : All P t) : All P (Tree.rebal t) := by
  simp only [Tree.rebal]
  split
  · exact all_shiftr t h
  · split
    · exact all_shiftl t h
    · exact h

theorem all_fixup (hh : Nat) (t : Tree K) (h : All P t) : All P (Tree.fixup hh t).1 :=
  all_rebal _ (all_upd _ h)

theorem all_goL (i) (k : K) (v hh s) (r : Tree K) (p : Tree K × Bool) (hk : P k) (hr : All P r) (hp : All P p.1) :
    All P (Tree.goL i k v hh s r p).1 := by
  simp only [Tree.goL]
  split
  · exact all_fixup _ _ (by simp only [All]; exact ⟨hk, hp, hr⟩)
  · simp only [All]; exact ⟨hk, hp, hr⟩

theorem all_goR (i) (k : K) (v hh s) (l : Tree K) (p : Tree K × Bool) (hk : P k) (hl : All P l) (hp : All P p.1) :
    All P (Tree.goR i k v hh s l p).1 := by
  simp only [Tree.goR]
  split
  · exact all_fixup _ _ (by simp only [All]; exact ⟨hk, hl, hp⟩)
  · simp only [All]; exact ⟨hk, hl, hp⟩

theorem all_ins (id : Nat) (k : K) (v : Int) (t : Tree K) (hk : P k) (h : All P t) : All P (Tree.ins id k v t).1 := by
  induction t with
  | nil => simp only [Tree.ins, All]; exact ⟨hk, trivial, trivial⟩
  | node i k' v' hh s l r ihl ihr =>
    simp only [All] at h
    simp only [Tree.ins]
    split
    · exact all_goR _ _ _ _ _ _ _ h.1 h.2.1 (ihr h.2.2)
    · split
      · exact all_goL _ _ _ _ _ _ _ h.1 h.2.2 (ihl h.2.1)
      · simp only [All]; exact h

theorem all_insM (id : Nat) (k : K) (v : Int) (t : Tree K) (hk : P k) (h : All P t) : All P (Tree.insM id k v t).1 := by
  induction t with
  | nil => simp only [Tree.insM, All]; exact ⟨hk, trivial, trivial⟩
  | node i k' v' hh s l r ihl ihr =>
    simp only [All] at h
    simp only [Tree.insM]
    split
    · exact all_goL _ _ _ _ _ _ _ h.1 h.2.2 (ihl h.2.1)
    · exact all_goR _ _ _ _ _ _ _ h.1 h.2.1 (ihr h.2.2)

theorem all_insAt (g : Tree K → Tree K × Bool) (hg : ∀ t, All P t → All P (g t).1) (right : Bool) (idx : Nat)
    (t : Tree K) (h : All P t) : All P (Tree.insAt g right idx t).1 := by
  induction t generalizing idx with
  | nil => exact h
  | node i k v hh s l r ihl ihr =>
    simp only [All] at h
    simp only [Tree.insAt]
    split
    · exact all_goL _ _ _ _ _ _ _ h.1 h.2.2 (ihl idx h.2.1)
    · split
      · cases right with
        | true => simp only [if_true]; exact all_goR _ _ _ _ _ _ _ h.1 h.2.1 (hg r h.2.2)
        | false => simp only [Bool.false_eq_true, if_false]; exact all_goL _ _ _ _ _ _ _ h.1 h.2.2 (hg l h.2.1)
      · exact all_goR _ _ _ _ _ _ _ h.1 h.2.1 (ihr _ h.2.2)

theorem all_setAt (v : Int) (idx : Nat) (t : Tree K) (h : All P t) : All P (Tree.setAt v idx t) := by
  induction t generalizing idx with
  | nil => exact h
  | node i k v' hh s l r ihl ihr =>
    simp only [All] at h
    simp only [Tree.setAt]
    split
    · simp only [All]; exact ⟨h.1, ihl idx h.2.1, h.2.2⟩
    · split
      · simp only [All]; exact h
      · simp only [All]; exact ⟨h.1, h.2.1, ihr _ h.2.2⟩

theorem all_popMin (t : Tree K) (h : All P t) :
    match Tree.popMin t with
    | none => True
    | some (m, p) => P m.2.1 ∧ All P p.1 := by
  induction t with
  | nil => trivial
  | node i k v hh s l r ihl ihr =>
    simp only [All] at h
    simp only [Tree.popMin]
    have := ihl h.2.1
    cases hp : Tree.popMin l with
    | none => exact ⟨h.1, h.2.2⟩
    | some y =>
      rw [hp] at this
      obtain ⟨m, p⟩ := y
      exact ⟨this.1, all_goL _ _ _ _ _ _ _ h.1 h.2.2 this.2⟩

theorem all_popMax (t : Tree K) (h : All P t) :
    match Tree.popMax t with
    | none => True
    | some (m, p) => P m.2.1 ∧ All P p.1 := by
  induction t with
  | nil => trivial
  | node i k v hh s l r ihl ihr =>
    simp only [All] at h
    simp only [Tree.popMax]
    have := ihr h.2.2
    cases hp : Tree.popMax r with
    | none => exact ⟨h.1, h.2.1⟩
    | some y =>
      rw [hp] at this
      obtain ⟨m, p⟩ := y
      exact ⟨this.1, all_goR _ _ _ _ _ _ _ h.1 h.2.1 this.2⟩

theorem all_removeRoot (t : Tree K) (h : All P t) : All P (Tree.removeRoot t) := by
  cases t with
  | nil => exact h
  | node i k v hh s l r =>
    simp only [All] at h
    cases l with
    | nil => cases r <;> simp only [Tree.removeRoot] <;> first | trivial | exact h.2.2
    | node li lk lv lh ls ll lr =>
      cases r with
      | nil => simp only [Tree.removeRoot]; exact h.2.1
      | node ri rk rv rh rs rl rr =>
        simp only [Tree.removeRoot]
        split
        · have := all_popMin _ h.2.2
          cases hp : Tree.popMin (.node ri rk rv rh rs rl rr) with
          | none => trivial
          | some y =>
            rw [hp] at this
            obtain ⟨⟨mi, mk, mv⟩, r', c⟩ := y
            exact all_rebal _ (all_upd _ (by simp only [All]; exact ⟨this.1, h.2.1, this.2⟩))
        · have := all_popMax _ h.2.1
          cases hp : Tree.popMax (.node li lk lv lh ls ll lr) with
          | none => trivial
          | some y =>
            rw [hp] at this
            obtain ⟨⟨mi, mk, mv⟩, l', c⟩ := y
            exact all_rebal _ (all_upd _ (by simp only [All]; exact ⟨this.1, this.2, h.2.2⟩))

theorem all_delIdx (idx : Nat) (t : Tree K) (h : All P t) : All P (Tree.delIdx idx t).1 := by
  induction t generalizing idx with
  | nil => exact h
  | node i k v hh s l r ihl ihr =>
    have h0 := h
    simp only [All] at h
    simp only [Tree.delIdx]
    split
    · exact all_goL _ _ _ _ _ _ _ h.1 h.2.2 (ihl idx h.2.1)
    · split
      · exact all_removeRoot _ h0
      · exact all_goR _ _ _ _ _ _ _ h.1 h.2.1 (ihr _ h.2.2)

end Nstd.Avl.G
