import Nstd.Avl.LemmasHeapThread
import Nstd.Avl.LemmasHeapClimb
import Nstd.Avl.LemmasHeapRemove
/-
  Glue for the composition of the translated pieces of the private insert (Generated/AvlRot.lean: `insertLeaf`,
  `insertPrivate`, `insertPlain`): what the rotation code and the upward loop leave alone (list links, `_size`, free
  list), contexts and trees under stores at other addresses, the free list, the ids of a plugged context.
-/
namespace Nstd.Avl
open Tree
open Nstd.Avl.Heap
open Nstd.Generated.AvlRot

/-- the parts of the container the tree code never touches -/
structure ListSame (h h' : Heap) : Prop where
  next : h'.next = h.next
  prev : h'.prev = h.prev
  beginItem : h'.beginItem = h.beginItem
  endItem : h'.endItem = h.endItem
  size : h'.size = h.size
  freeItem : h'.freeItem = h.freeItem
  nblocks : h'.nblocks = h.nblocks

theorem listSame_refl (h : Heap) : ListSame h h := ⟨rfl, rfl, rfl, rfl, rfl, rfl, rfl⟩

theorem listSame_trans {a b c : Heap} (x : ListSame a b) (y : ListSame b c) : ListSame a c :=
  ⟨y.next.trans x.next, y.prev.trans x.prev, y.beginItem.trans x.beginItem, y.endItem.trans x.endItem,
   y.size.trans x.size, y.freeItem.trans x.freeItem, y.nblocks.trans x.nblocks⟩

theorem listSame_set (h : Heap) (c : Cell) (v : Nat) : ListSame h (h.set c v) := by
  cases c <;> exact ⟨rfl, rfl, rfl, rfl, rfl, rfl, rfl⟩

theorem listSame_upd (h : Heap) (p : Nat) : ListSame h (Map.updateHeightAndSlope h p) := by
  rw [upd_fields]; exact ⟨rfl, rfl, rfl, rfl, rfl, rfl, rfl⟩

theorem listSame_rotr (h : Heap) (c : Cell) : ListSame h (Map.rotr h c) := by
  unfold Map.rotr
  simp only [upd_fields]
  split <;> cases c <;> exact ⟨rfl, rfl, rfl, rfl, rfl, rfl, rfl⟩

theorem listSame_rotl (h : Heap) (c : Cell) : ListSame h (Map.rotl h c) := by
  unfold Map.rotl
  simp only [upd_fields]
  split <;> cases c <;> exact ⟨rfl, rfl, rfl, rfl, rfl, rfl, rfl⟩

theorem listSame_shiftr (h : Heap) (c : Cell) : ListSame h (Map.shiftr h c) := by
  unfold Map.shiftr
  simp only []
  split
  · exact listSame_trans (listSame_rotl _ _) (listSame_rotr _ _)
  · exact listSame_rotr _ _

theorem listSame_shiftl (h : Heap) (c : Cell) : ListSame h (Map.shiftl h c) := by
  unfold Map.shiftl
  simp only []
  split
  · exact listSame_trans (listSame_rotr _ _) (listSame_rotl _ _)
  · exact listSame_rotl _ _

theorem listSame_rebal (h : Heap) (p : Nat) : ListSame h (Map.rebal h p).1 := by
  unfold Map.rebal
  simp only []
  repeat' split
  all_goals first
    | exact listSame_refl _
    | exact listSame_shiftr _ _
    | exact listSame_shiftl _ _

theorem listSame_insertLoop : ∀ (fuel : Nat) (h : Heap) (p old : Nat) (h' : Heap),
    Map.insertRebalance_loop fuel h p old = some h' → ListSame h h' := by
  intro fuel
  induction fuel with
  | zero => intro h p old h' e; rw [Map.insertRebalance_loop] at e; cases e
  | succ f ih =>
    intro h p old h' e
    rw [Map.insertRebalance_loop] at e
    simp only [] at e
    have l2 : ListSame h (Map.rebal (Map.updateHeightAndSlope h p) p).1 :=
      listSame_trans (listSame_upd h p) (listSame_rebal _ _)
    split at e
    · cases e; exact l2
    · split at e
      · exact listSame_trans l2 (ih _ _ _ _ e)
      · cases e; exact l2

end Nstd.Avl
