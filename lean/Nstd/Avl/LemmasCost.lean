import Nstd.Avl.LemmasProps
/-
  Key comparisons made by insert, hinted insert, remove(key) and count.
-/
namespace Nstd.Avl
open Tree

theorem insCmps_le (k : Int) (t : Tree) : insCmps k t ≤ 2 * t.height := by
  induction t with
  | nil => simp [insCmps]
  | node i k' v' h s l r ihl ihr =>
    simp only [insCmps, height_node]
    split
    · omega
    · split <;> omega

theorem insMCmps_le (k : Int) (t : Tree) : insMCmps k t ≤ t.height := by
  induction t with
  | nil => simp [insMCmps]
  | node i k' v' h s l r ihl ihr =>
    simp only [insMCmps, height_node]
    split <;> omega

theorem subAt_height (right : Bool) (idx : Nat) (t : Tree) : (subAt right idx t).height ≤ t.height := by
  induction t generalizing idx with
  | nil => simp [subAt]
  | node i k v h s l r ihl ihr =>
    simp only [subAt, height_node]
    split
    · have := ihl idx; omega
    · split
      · split <;> omega
      · have := ihr (idx - l.size - 1); omega

theorem insertIn_cmps (s : St) (k : Int) (cell : Option (Nat × Bool)) (sub : Tree) (mk : Nat → Tree) (c0 : Nat) :
    (s.insertIn k cell sub mk c0).2.cmps = c0 + (if s.multi then insMCmps k sub else insCmps k sub) := by
  unfold St.insertIn
  cases (if s.multi then landM k cell sub else land k cell sub) <;> rfl

theorem insertRoot_cmps_le (s : St) (k v : Int) (c0 : Nat) :
    (s.insertRoot k v c0).2.cmps ≤ c0 + 2 * s.t.height := by
  unfold St.insertRoot
  rw [insertIn_cmps]
  split
  · have := insMCmps_le k s.t; omega
  · have := insCmps_le k s.t; omega

theorem insertUnder_cmps_le (s : St) (right : Bool) (idx hid : Nat) (k v : Int) (c0 : Nat) :
    (s.insertUnder right idx hid k v c0).2.cmps ≤ c0 + 2 * s.t.height := by
  unfold St.insertUnder
  rw [insertIn_cmps]
  have hh := subAt_height right idx s.t
  split
  · have := insMCmps_le k (subAt right idx s.t); omega
  · have := insCmps_le k (subAt right idx s.t); omega

/-- a hinted insert makes at most three comparisons more than two per level -/
theorem insertAt_cmps_le (s : St) (p : Nat) (k v : Int) (r : St × Out) (h : s.insertAt p k v = some r) :
    r.2.cmps ≤ 3 + 2 * s.t.height := by
  have hu : ∀ right idx hid c0, c0 ≤ 3 → (s.insertUnder right idx hid k v c0).2.cmps ≤ 3 + 2 * s.t.height := by
    intro right idx hid c0 hc
    have := insertUnder_cmps_le s right idx hid k v c0; omega
  have hr : ∀ c0, c0 ≤ 3 → (s.insertRoot k v c0).2.cmps ≤ 3 + 2 * s.t.height := by
    intro c0 hc
    have := insertRoot_cmps_le s k v c0; omega
  unfold St.insertAt at h
  simp only at h
  repeat' split at h
  all_goals first
    | (simp at h; done)
    | (simp only [Option.some.injEq] at h; subst h
       first
         | exact hu _ _ _ _ (by omega)
         | exact hr _ (by omega)
         | (simp only; omega))

theorem countWalk_cmps (k : Int) (es : List E) : (countWalk k es).2 ≤ (countWalk k es).1 + 1 := by
  induction es with
  | nil => simp [countWalk]
  | cons e es ih =>
    obtain ⟨i, k', v'⟩ := e
    simp only [countWalk]
    split
    · simp only; omega
    · simp

end Nstd.Avl
