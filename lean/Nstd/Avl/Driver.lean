import Nstd.Common.Basic
import Nstd.Avl.Model
/-
  Line protocol of the Avl area (Map / MultiMap, property C01).
  Containers: 0 = Map<Key,int>, 1 = MultiMap<Key,int>, 2 = a second Map, 3 = a second MultiMap.
    reset | dom <lo> <hi> | obs <0|1|2|3>
    <c> ins k v | insat p k v | rmkey k | rmat p | rmfront | rmback | clear
    <c> find k | has k | count k | front | back | nop | wb | assign <src> | insall <src> | copy <src>
  Observation of the container touched, one line per op:
    <ret> c=<key comparisons of the op> n=<size> [| k:v k:v ...] [| p/c p/c ...] [# tree-with-fields ord ids free ids]
  (`c=-` on copy / assign lines: how many comparisons a copy makes is not part of the tie; a copy-constructed container
  prints its white-box part without item ids and free list from then on)
  the last part lists, for every key of the domain, the position `find` returns (e = end) and
  the number of comparisons it made.  A rejected op prints `bad-op`.
-/
open Nstd.Common
namespace Nstd.Avl

structure World where
  cs : List St
  lo : Int := 0
  hi : Int := -1
  lvl : Nat := 2
  /-- containers that were copy-CONSTRUCTED: how many items the copy constructor allocates at once is not part of the
      property, so from then on their white-box part names items by key instead of by id and leaves the free list out -/
  anon : List Bool := [false, false, false, false]

def World.init : World := { cs := [St.init false, St.init true, St.init false, St.init true] }

def retStr : Ret → String
  | .none => "-"
  | .it p => s!"it={p}"
  | .bool b => s!"b={if b then 1 else 0}"
  | .num n => s!"cnt={n}"
  | .val (some v) => s!"v={v}"
  | .val none => "v=none"

def domKeys (lo hi : Int) : List Int :=
  (List.range (hi + 1 - lo).toNat).map (fun (i : Nat) => lo + Int.ofNat i)

/-- the same with the parent link of every item: `(left id/key:height:slope^parent right)` -/
def renderP (par : Option Nat) : Tree → String
  | .nil => "."
  | .node i k _ h s l r =>
    let ps := match par with | some p => toString p | none => "-"
    s!"({renderP (some i) l} {i}/{k}:{h}:{s}^{ps} {renderP (some i) r})"

/-- the same without item ids (parent named by its key): `(left _/key:height:slope^kparent right)` -/
def renderA (par : Option Int) : Tree → String
  | .nil => "."
  | .node _ k _ h s l r =>
    let ps := match par with | some p => s!"k{p}" | none => "-"
    s!"({renderA (some k) l} _/{k}:{h}:{s}^{ps} {renderA (some k) r})"

/-- white-box part of an observation (level 3): tree with parent links, prev/next list, free list -/
def wbAll (anon : Bool) (s : St) : String :=
  if anon then
    renderA none s.t ++ " ord" ++ String.join (s.iter.map (fun e => s!" k{e.1}")) ++ " free ~"
  else
    renderP none s.t ++ " ord" ++ String.join (s.order.map (fun i => s!" {i}")) ++
      " free" ++ String.join (s.free.map (fun i => s!" {i}"))

def obsG (w : World) (anon nocmp : Bool) (s : St) (o : Out) : String :=
  let base := if nocmp then s!"{retStr o.ret} c=- n={s.size}" else s!"{retStr o.ret} c={o.cmps} n={s.size}"
  let it := if w.lvl ≥ 1 then " |" ++ String.join (s.iter.map (fun e => s!" {e.1}:{e.2}")) else ""
  let fs := if w.lvl ≥ 2 then
      " |" ++ String.join ((domKeys w.lo w.hi).map (fun k =>
        " " ++ (match s.findIdx k with | some p => toString p | none => "e") ++ "/" ++ toString (s.findCmps k)))
    else ""
  let wb := if w.lvl ≥ 3 then " # " ++ wbAll anon s else ""
  base ++ it ++ fs ++ wb

def obs (w : World) (c : Nat) (s : St) (o : Out) : String := obsG w (w.anon.getD c false) false s o

/-- white-box rendering of the tree with the item ids and stored fields:
    `(left id/key:height:slope right)` -/
def render : Tree → String
  | .nil => "."
  | .node i k _ h s l r => s!"({render l} {i}/{k}:{h}:{s} {render r})"

def renderAnon : Tree → String
  | .nil => "."
  | .node _ k _ h s l r => s!"({renderAnon l} _/{k}:{h}:{s} {renderAnon r})"

def parseOp : List String → Option Op
  | ["ins", k, v] => do pure (.insert (← k.toInt?) (← v.toInt?))
  | ["insat", p, k, v] => do pure (.insertAt (← p.toNat?) (← k.toInt?) (← v.toInt?))
  | ["rmkey", k] => do pure (.removeKey (← k.toInt?))
  | ["rmat", p] => do pure (.removeAt (← p.toNat?))
  | ["rmfront"] => some .removeFront
  | ["rmback"] => some .removeBack
  | ["clear"] => some .clear
  | ["find", k] => do pure (.find (← k.toInt?))
  | ["has", k] => do pure (.contains (← k.toInt?))
  | ["count", k] => do pure (.count (← k.toInt?))
  | ["front"] => some .front
  | ["back"] => some .back
  | _ => none

def setC (w : World) (c : Nat) (s : St) : World := { w with cs := w.cs.set c s }

def stepLine (w : World) (ws : List String) : World × String :=
  match ws with
  | ["reset"] => (World.init, "ok")
  | ["dom", lo, hi] =>
    match lo.toInt?, hi.toInt? with
    | some lo, some hi => ({ w with lo := lo, hi := hi }, "ok")
    | _, _ => (w, "bad-op")
  | ["obs", n] =>
    match n.toNat? with
    | some n => ({ w with lvl := n }, "ok")
    | none => (w, "bad-op")
  | c :: rest =>
    match c.toNat? with
    | none => (w, "bad-op")
    | some c =>
      match w.cs[c]? with
      | none => (w, "bad-op")
      | some s =>
        match rest with
        | ["nop"] => (w, obs w c s ⟨.none, 0⟩)
        | ["wb"] =>
          if w.anon.getD c false then (w, renderAnon s.t ++ " free ~")
          else (w, render s.t ++ " free" ++ String.join (s.free.map (fun i => s!" {i}")))
        | [op, src] =>
          if op = "assign" ∨ op = "insall" ∨ op = "copy" then
            match src.toNat? with
            | none => (w, "bad-op")
            | some j =>
              match w.cs[j]? with
              | none => (w, "bad-op")
              | some sj =>
                -- copies only between two different containers of the same kind; bulk insert is Map-only
                if j = c ∨ s.multi ≠ sj.multi ∨ (op = "insall" ∧ s.multi) then (w, "bad-op")
                else
                  -- `copy`: destroy the container and copy-construct it (same loop as `operator=`,
                  -- started from a fresh container)
                  let r := if op = "assign" then s.assignFrom sj
                           else if op = "copy" then (St.init s.multi).assignFrom sj
                           else s.insertAll sj
                  let w' := if op = "copy" then { w with anon := w.anon.set c true } else w
                  (setC w' c r.1, obsG w' (w'.anon.getD c false) (op ≠ "insall") r.1 ⟨.none, r.2⟩)
          else
            match parseOp rest with
            | none => (w, "bad-op")
            | some o =>
              match step s o with
              | none => (w, "bad-op")
              | some r => (setC w c r.1, obs w c r.1 r.2)
        | _ =>
          match parseOp rest with
          | none => (w, "bad-op")
          | some o =>
            match step s o with
            | none => (w, "bad-op")
            | some r => (setC w c r.1, obs w c r.1 r.2)
  | _ => (w, "bad-op")

end Nstd.Avl

def main : IO Unit := Nstd.Common.ioLoop Nstd.Avl.World.init Nstd.Avl.stepLine
