import Nstd.Avl.LemmasHintM2
/-
  Copy assignment (`Map::operator=` between two different maps) and bulk insert
  (`Map::insert(const Map&)`).
-/
namespace Nstd.Avl
open Tree

def foldIns (xs acc : List Spec.KV) : List Spec.KV :=
  xs.foldl (fun acc e => Spec.insertMap e.1 e.2 acc) acc

theorem insertMap_append_last (k v : Int) (pre : List Spec.KV) (h : ∀ e ∈ pre, e.1 < k) :
    Spec.insertMap k v pre = pre ++ [(k, v)] := by
  induction pre with
  | nil => rfl
  | cons a as ih =>
    have ha := h a (by simp)
    have n1 : ¬ k < a.1 := by omega
    have n2 : ¬ k = a.1 := by omega
    simp only [Spec.insertMap, n1, n2, if_false, List.cons_append]
    rw [ih (fun e he => h e (by simp [he]))]

/-- inserting the entries of a strictly sorted list one by one rebuilds that list -/
theorem foldIns_sorted (xs pre : List Spec.KV) (hs : (pre ++ xs).Pairwise (fun a b => a.1 < b.1)) :
    foldIns xs pre = pre ++ xs := by
  induction xs generalizing pre with
  | nil => simp [foldIns]
  | cons a as ih =>
    simp only [foldIns, List.foldl_cons]
    have hpre : ∀ e ∈ pre, e.1 < a.1 := by
      intro e he
      rw [List.pairwise_append] at hs
      exact hs.2.2 e he a (by simp)
    rw [insertMap_append_last a.1 a.2 pre hpre]
    have := ih (pre ++ [a]) (by simpa using hs)
    simp only [foldIns] at this
    rw [this]; simp

theorem lower_le_length (k : Int) (xs : List Spec.KV) : Spec.lower k xs ≤ xs.length := by
  induction xs with
  | nil => simp [Spec.lower]
  | cons a as ih => simp only [Spec.lower]; split <;> simp <;> omega

theorem insertMap_length_ge (k v : Int) (xs : List Spec.KV) : xs.length ≤ (Spec.insertMap k v xs).length := by
  induction xs with
  | nil => simp [Spec.insertMap]
  | cons a as ih =>
    simp only [Spec.insertMap]
    split
    · simp
    · split
      · simp
      · simp; exact ih

/-- the loop of `operator=` / the copy constructor: plain inserts -/
theorem assign_loop (l : List Spec.KV) (d : St × Nat) (hI : InvT d.1) (hO : InvO d.1) (hm : d.1.multi = false) :
    let r := l.foldl (fun (d : St × Nat) e =>
      let r := d.1.insertRoot e.1 e.2 0
      (r.1, d.2 + r.2.cmps)) d
    InvT r.1 ∧ InvO r.1 ∧ r.1.multi = false ∧ abs r.1 = foldIns l (abs d.1) := by
  induction l generalizing d with
  | nil => exact ⟨hI, hO, hm, rfl⟩
  | cons e es ih =>
    simp only [List.foldl_cons]
    have h1 := insertRoot_invT d.1 hI e.1 e.2 0
    have h2 := insertRoot_invO d.1 hO e.1 e.2 0
    have h3 : (d.1.insertRoot e.1 e.2 0).1.multi = false := by
      obtain ⟨_, _, h, _⟩ := insertRoot_t d.1 e.1 e.2 0; rw [h, hm]
    have h4 := insertRoot_abs d.1 hI e.1 e.2 0
    rw [hm] at h4
    simp only [Bool.false_eq_true, if_false] at h4
    have := ih ((d.1.insertRoot e.1 e.2 0).1, d.2 + (d.1.insertRoot e.1 e.2 0).2.cmps) h1 h2 h3
    simp only at this ⊢
    refine ⟨this.1, this.2.1, this.2.2.1, ?_⟩
    rw [this.2.2.2, h4]; rfl

/-- **Copy**: after `dst = src` (two different Maps) `dst` holds exactly the entries of `src`. -/
theorem assign_spec (dst src : St) (hId : InvT dst) (hOd : InvO dst) (hmd : dst.multi = false)
    (hIs : InvT src) (hOs : InvO src) (hms : src.multi = false) :
    InvT (dst.assignFrom src).1 ∧ InvO (dst.assignFrom src).1 ∧ abs (dst.assignFrom src).1 = abs src ∧
      (dst.assignFrom src).1.multi = false := by
  unfold St.assignFrom
  have hc : ∃ r, step dst .clear = some r := ⟨_, rfl⟩
  obtain ⟨r, hc⟩ := hc
  rw [hc]
  simp only
  have h1 := (step_invT dst hId .clear _ hc)
  have h2 := step_invO dst hId hOd .clear _ hc
  have h0 : abs r.1 = [] := by
    simp only [step, Option.some.injEq] at hc; rw [← hc]; rfl
  have := assign_loop src.iter (r.1, 0) h1.1 h2 (by rw [h1.2, hmd])
  simp only at this
  refine ⟨this.1, this.2.1, ?_, this.2.2.1⟩
  rw [this.2.2.2, iter_eq_abs src hOs, h0]
  have hs : (([] : List Spec.KV) ++ abs src).Pairwise (fun (a b : Spec.KV) => a.1 < b.1) := by
    have := hIs.sortedS hms
    unfold SortedS at this
    simp only [List.nil_append, abs, kv, List.pairwise_map]
    exact this
  have := foldIns_sorted (abs src) [] hs
  simpa using this

/-! ### the same for MultiMap (`MultiMap(const MultiMap&)`, `operator=`) -/

def foldInsM (xs acc : List Spec.KV) : List Spec.KV :=
  xs.foldl (fun acc e => Spec.insertMulti e.1 e.2 acc) acc

theorem insertMulti_append_last (k v : Int) (pre : List Spec.KV) (h : ∀ e ∈ pre, e.1 ≤ k) :
    Spec.insertMulti k v pre = pre ++ [(k, v)] := by
  induction pre with
  | nil => rfl
  | cons a as ih =>
    have ha := h a (by simp)
    have n1 : ¬ k < a.1 := by omega
    simp only [Spec.insertMulti, n1, if_false, List.cons_append]
    rw [ih (fun e he => h e (by simp [he]))]

/-- inserting the entries of an ascending list one by one rebuilds that list, equal keys in the
    same order -/
theorem foldInsM_sorted (xs pre : List Spec.KV) (hs : (pre ++ xs).Pairwise (fun a b => a.1 ≤ b.1)) :
    foldInsM xs pre = pre ++ xs := by
  induction xs generalizing pre with
  | nil => simp [foldInsM]
  | cons a as ih =>
    simp only [foldInsM, List.foldl_cons]
    have hpre : ∀ e ∈ pre, e.1 ≤ a.1 := by
      intro e he
      rw [List.pairwise_append] at hs
      exact hs.2.2 e he a (by simp)
    rw [insertMulti_append_last a.1 a.2 pre hpre]
    have := ih (pre ++ [a]) (by simpa using hs)
    simp only [foldInsM] at this
    rw [this]; simp

theorem assign_loopM (l : List Spec.KV) (d : St × Nat) (hI : InvT d.1) (hO : InvO d.1) (hm : d.1.multi = true) :
    let r := l.foldl (fun (d : St × Nat) e =>
      let r := d.1.insertRoot e.1 e.2 0
      (r.1, d.2 + r.2.cmps)) d
    InvT r.1 ∧ InvO r.1 ∧ r.1.multi = true ∧ abs r.1 = foldInsM l (abs d.1) := by
  induction l generalizing d with
  | nil => exact ⟨hI, hO, hm, rfl⟩
  | cons e es ih =>
    simp only [List.foldl_cons]
    have h1 := insertRoot_invT d.1 hI e.1 e.2 0
    have h2 := insertRoot_invO d.1 hO e.1 e.2 0
    have h3 : (d.1.insertRoot e.1 e.2 0).1.multi = true := by
      obtain ⟨_, _, h, _⟩ := insertRoot_t d.1 e.1 e.2 0; rw [h, hm]
    have h4 := insertRoot_abs d.1 hI e.1 e.2 0
    rw [hm] at h4
    simp only [if_true] at h4
    have := ih ((d.1.insertRoot e.1 e.2 0).1, d.2 + (d.1.insertRoot e.1 e.2 0).2.cmps) h1 h2 h3
    simp only at this ⊢
    refine ⟨this.1, this.2.1, this.2.2.1, ?_⟩
    rw [this.2.2.2, h4]; rfl

/-- **Copy of a MultiMap**: after `dst = src` (two different MultiMaps; the copy constructor is the
    same loop from a fresh container) `dst` holds exactly the entries of `src`, equal keys in the
    same order. -/
theorem assign_specM (dst src : St) (hId : InvT dst) (hOd : InvO dst) (hmd : dst.multi = true)
    (hIs : InvT src) (hOs : InvO src) :
    InvT (dst.assignFrom src).1 ∧ InvO (dst.assignFrom src).1 ∧ abs (dst.assignFrom src).1 = abs src ∧
      (dst.assignFrom src).1.multi = true := by
  unfold St.assignFrom
  have hc : ∃ r, step dst .clear = some r := ⟨_, rfl⟩
  obtain ⟨r, hc⟩ := hc
  rw [hc]
  simp only
  have h1 := (step_invT dst hId .clear _ hc)
  have h2 := step_invO dst hId hOd .clear _ hc
  have h0 : abs r.1 = [] := by
    simp only [step, Option.some.injEq] at hc; rw [← hc]; rfl
  have := assign_loopM src.iter (r.1, 0) h1.1 h2 (by rw [h1.2, hmd])
  simp only at this
  refine ⟨this.1, this.2.1, ?_, this.2.2.1⟩
  rw [this.2.2.2, iter_eq_abs src hOs, h0]
  have hs : (([] : List Spec.KV) ++ abs src).Pairwise (fun (a b : Spec.KV) => a.1 ≤ b.1) := by
    have := hIs.sortedW
    unfold SortedW at this
    simp only [List.nil_append, abs, kv, List.pairwise_map]
    exact this
  have := foldInsM_sorted (abs src) [] hs
  simpa using this

/-- the loop of `Map::insert(const Map&)`: each entry is inserted with the iterator returned for
    the previous one as hint -/
theorem insertAll_loop (l : List Spec.KV) (acc : St × Nat × Nat) (hI : InvT acc.1) (hO : InvO acc.1)
    (hm : acc.1.multi = false) (hp : acc.2.1 ≤ acc.1.size) :
    let r := l.foldl (fun (acc : St × Nat × Nat) e =>
        match acc.1.insertAt acc.2.1 e.1 e.2 with
        | some r => (r.1, r.2.pos, acc.2.2 + r.2.cmps)
        | none => acc) acc
    InvT r.1 ∧ InvO r.1 ∧ abs r.1 = foldIns l (abs acc.1) ∧ r.1.multi = false := by
  induction l generalizing acc with
  | nil => exact ⟨hI, hO, rfl, hm⟩
  | cons e es ih =>
    simp only [List.foldl_cons]
    have hst : step acc.1 (.insertAt acc.2.1 e.1 e.2) = acc.1.insertAt acc.2.1 e.1 e.2 := by
      simp only [step, hp, if_true]
    have hf := step_full acc.1 hI hO (.insertAt acc.2.1 e.1 e.2) (by intro p k v ⟨h1, _⟩; rw [hm] at h1; simp at h1)
    rw [hst] at hf
    cases hins : acc.1.insertAt acc.2.1 e.1 e.2 with
    | none =>
      rw [hins] at hf
      simp only [Spec.stepF, hm, Bool.false_eq_true, if_false, abs_length acc.1 hI, hp, if_true] at hf
      simp at hf
    | some r =>
      rw [hins] at hf
      obtain ⟨xs', ret, g1, g2, g3⟩ := hf
      simp only [Spec.stepF, hm, Bool.false_eq_true, if_false, abs_length acc.1 hI, hp, if_true,
        Option.some.injEq, Prod.mk.injEq] at g1
      have hsi := step_invT acc.1 hI _ r (by rw [hst]; exact hins)
      have hso := step_invO acc.1 hI hO _ r (by rw [hst]; exact hins)
      have hpos : r.2.pos ≤ r.1.size := by
        rw [← abs_length r.1 hsi.1, g2, ← g1.1]
        unfold Out.pos; rw [g3, ← g1.2]
        simp only
        exact Nat.le_trans (lower_le_length _ _) (insertMap_length_ge _ _ _)
      have := ih (r.1, r.2.pos, acc.2.2 + r.2.cmps) hsi.1 hso (by rw [hsi.2, hm]) hpos
      simp only at this ⊢
      refine ⟨this.1, this.2.1, ?_, this.2.2.2⟩
      rw [this.2.2.1, g2, ← g1.1]; rfl

/-- **Bulk insert**: `dst.insert(src)` (two Maps) leaves `dst` with the entries a sequence of plain
    inserts of `src`'s entries would give. -/
theorem insertAll_spec (dst src : St) (hId : InvT dst) (hOd : InvO dst) (hmd : dst.multi = false)
    (hOs : InvO src) :
    InvT (dst.insertAll src).1 ∧ InvO (dst.insertAll src).1 ∧
      abs (dst.insertAll src).1 = foldIns (abs src) (abs dst) ∧ (dst.insertAll src).1.multi = false := by
  unfold St.insertAll
  rw [iter_eq_abs src hOs]
  cases hx : abs src with
  | nil => exact ⟨hId, hOd, rfl, hmd⟩
  | cons e rest =>
    simp only
    have h1 := insertRoot_invT dst hId e.1 e.2 0
    have h2 := insertRoot_invO dst hOd e.1 e.2 0
    have h3 : (dst.insertRoot e.1 e.2 0).1.multi = false := by
      obtain ⟨_, _, h, _⟩ := insertRoot_t dst e.1 e.2 0; rw [h, hmd]
    have h4 := insertRoot_abs dst hId e.1 e.2 0
    rw [hmd] at h4
    simp only [Bool.false_eq_true, if_false] at h4
    have h5 := insertRoot_ret dst hId hOd e.1 e.2 0
    rw [hmd] at h5
    simp only [Bool.false_eq_true, if_false] at h5
    have hpos : (dst.insertRoot e.1 e.2 0).2.pos ≤ (dst.insertRoot e.1 e.2 0).1.size := by
      rw [← abs_length _ h1, h4]
      unfold Out.pos; rw [h5]
      simp only
      exact Nat.le_trans (lower_le_length _ _) (insertMap_length_ge _ _ _)
    have := insertAll_loop rest ((dst.insertRoot e.1 e.2 0).1, (dst.insertRoot e.1 e.2 0).2.pos,
      (dst.insertRoot e.1 e.2 0).2.cmps) h1 h2 h3 hpos
    refine ⟨this.1, this.2.1, ?_, this.2.2.2⟩
    exact this.2.2.1.trans (by rw [h4]; rfl)

end Nstd.Avl
