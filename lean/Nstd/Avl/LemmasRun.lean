import Nstd.Avl.LemmasHint
import Nstd.Avl.Spec
/-
  State level: the tree part of the invariant (`InvT`) is kept by every operation, and the
  abstraction `abs` (in-order keys/values of the tree) follows the specification.
-/
namespace Nstd.Avl
open Tree

def kv (es : List E) : List Spec.KV := es.map (fun e => (e.2.1, e.2.2))

/-- abstraction: the entries in in-order sequence of the tree -/
def abs (s : St) : List Spec.KV := kv s.t.inorder

/-! ### list facts -/

theorem kv_insList (id k v) (es : List E) : kv (insList id k v es) = Spec.insertMap k v (kv es) := by
  induction es with
  | nil => rfl
  | cons e es ih =>
    simp only [insList, kv, List.map_cons, Spec.insertMap]
    by_cases h1 : k < e.2.1
    · simp [h1]
    · by_cases h2 : k = e.2.1
      · rw [if_neg h1, if_pos h2, if_neg h1, if_pos h2]; simp
      · rw [if_neg h1, if_neg h2, if_neg h1, if_neg h2]; simp only [List.map_cons]; exact congrArg (List.cons _) ih

theorem kv_insListM (id k v) (es : List E) : kv (insListM id k v es) = Spec.insertMulti k v (kv es) := by
  induction es with
  | nil => rfl
  | cons e es ih =>
    simp only [insListM, kv, List.map_cons, Spec.insertMulti]
    by_cases h1 : k < e.2.1
    · simp [h1]
    · rw [if_neg h1, if_neg h1]; simp only [List.map_cons]; exact congrArg (List.cons _) ih

theorem kv_eraseIdx (es : List E) (i : Nat) : kv (es.eraseIdx i) = (kv es).eraseIdx i := by
  induction es generalizing i with
  | nil => rfl
  | cons e es ih =>
    cases i with
    | zero => rfl
    | succ i => simp only [List.eraseIdx_cons_succ, kv, List.map_cons] at ih ⊢; rw [ih]

theorem kv_length (es : List E) : (kv es).length = es.length := by simp [kv]

theorem firstIdx_kv (k : Int) (es : List E) : firstIdx k es = Spec.find k (kv es) := by
  simp only [firstIdx, Spec.find, kv, List.findIdx?_map]; rfl

theorem prefix_bound {es : List E} (hs : SortedW es) {j : Nat} {x : E} (hx : es[j]? = some x) :
    ∀ e ∈ es.take (j + 1), e.2.1 ≤ x.2.1 := by
  induction es generalizing j with
  | nil => simp at hx
  | cons a as ih =>
    unfold SortedW at hs ih
    rw [List.pairwise_cons] at hs
    cases j with
    | zero => simp at hx; subst hx; intro e he; simp at he; rw [he]; exact Int.le_refl _
    | succ j =>
      simp only [List.getElem?_cons_succ] at hx
      intro e he
      simp only [List.take_succ_cons, List.mem_cons] at he
      rcases he with he | he
      · rw [he]; exact hs.1 x (List.mem_of_getElem? hx)
      · exact ih hs.2 hx e he

theorem suffix_bound {es : List E} (hs : SortedW es) {j : Nat} {x : E} (hx : es[j]? = some x) :
    ∀ e ∈ es.drop j, x.2.1 ≤ e.2.1 := by
  induction es generalizing j with
  | nil => simp at hx
  | cons a as ih =>
    unfold SortedW at hs ih
    rw [List.pairwise_cons] at hs
    cases j with
    | zero =>
      simp at hx; subst hx; intro e he; simp at he
      rcases he with he | he
      · rw [he]; exact Int.le_refl _
      · exact hs.1 e he
    | succ j =>
      simp only [List.getElem?_cons_succ] at hx
      intro e he
      simp only [List.drop_succ_cons] at he
      exact ih hs.2 hx e he

/-! ### the tree part of the invariant -/

structure InvT (s : St) : Prop where
  avl : Avl s.t
  sortedW : SortedW s.t.inorder
  sortedS : s.multi = false → SortedS s.t.inorder
  size : s.size = s.t.size
  olen : s.order.length = s.size

theorem invT_init (m : Bool) : InvT (St.init m) :=
  ⟨trivial, List.Pairwise.nil, fun _ => List.Pairwise.nil, rfl, rfl⟩

theorem insertBefore_length (p x : Nat) (l : List Nat) : (insertBefore p x l).length = l.length + 1 := by
  induction l with
  | nil => rfl
  | cons a as ih => simp only [insertBefore]; split <;> simp [ih]

theorem insertAfter_length (p x : Nat) (l : List Nat) : (insertAfter p x l).length = l.length + 1 := by
  induction l with
  | nil => rfl
  | cons a as ih => simp only [insertAfter]; split <;> simp [ih]

theorem threadIn_length (l : List Nat) (x : Nat) (c : Option (Nat × Bool)) :
    (threadIn l x c).length = l.length + 1 := by
  unfold threadIn
  split
  · simp
  · exact insertAfter_length _ _ _
  · exact insertBefore_length _ _ _

/-- growth of the in-order sequence by an insert, read off the landing of the descent -/
theorem ins_length (id k v) (c : Option (Nat × Bool)) (t : Tree) :
    (ins id k v t).1.inorder.length =
      t.inorder.length + (match land k c t with | .found _ => 0 | .leaf _ => 1) := by
  induction t generalizing c with
  | nil => simp [ins, land]
  | node i k' v' h s l r ihl ihr =>
    simp only [ins, land]
    by_cases h1 : k > k'
    · rw [if_pos h1, if_pos h1, inorder_goR]
      simp only [List.length_append, List.length_cons, inorder_node, ihr (some (i, true))]
      omega
    · by_cases h2 : k < k'
      · rw [if_neg h1, if_pos h2, if_neg h1, if_pos h2, inorder_goL]
        simp only [List.length_append, List.length_cons, inorder_node, ihl (some (i, false))]
        omega
      · rw [if_neg h1, if_neg h2, if_neg h1, if_neg h2]; simp

theorem insM_length (id k v) (t : Tree) :
    (insM id k v t).1.inorder.length = t.inorder.length + 1 := by
  induction t with
  | nil => simp [insM]
  | node i k' v' h s l r ihl ihr =>
    simp only [insM]
    by_cases h2 : k < k'
    · rw [if_pos h2, inorder_goL]
      simp only [List.length_append, List.length_cons, inorder_node, ihl]; omega
    · rw [if_neg h2, inorder_goR]
      simp only [List.length_append, List.length_cons, inorder_node, ihr]; omega

theorem landM_leaf (k : Int) (c : Option (Nat × Bool)) (t : Tree) : ∃ p, landM k c t = .leaf p := by
  induction t generalizing c with
  | nil => exact ⟨c, rfl⟩
  | node i k' v' h s l r ihl ihr =>
    simp only [landM]
    split
    · exact ihl _
    · exact ihr _

theorem alloc_fields (s : St) :
    s.alloc.2.multi = s.multi ∧ s.alloc.2.t = s.t ∧ s.alloc.2.order = s.order ∧ s.alloc.2.size = s.size := by
  unfold St.alloc
  split
  · simp
  · split <;> simp

/-- the state a plain insert produces (comparison counts aside) -/
theorem insertRoot_t (s : St) (k v : Int) (c0 : Nat) :
    ∃ id, (s.insertRoot k v c0).1.t = (s.insSub id k v s.t).1 ∧
      (s.insertRoot k v c0).1.multi = s.multi ∧
      (s.insertRoot k v c0).1.size = s.size +
        (match (if s.multi then landM k none s.t else land k none s.t) with | .found _ => 0 | .leaf _ => 1) ∧
      (s.insertRoot k v c0).1.order.length = s.order.length +
        (match (if s.multi then landM k none s.t else land k none s.t) with | .found _ => 0 | .leaf _ => 1) := by
  unfold St.insertRoot St.insertIn
  obtain ⟨a1, a2, a3, a4⟩ := alloc_fields s
  generalize (if s.multi then landM k none s.t else land k none s.t) = ld
  cases ld with
  | found i => exact ⟨0, rfl, rfl, rfl, rfl⟩
  | leaf p => exact ⟨s.alloc.1, rfl, a1, rfl, threadIn_length _ _ _⟩

theorem insertRoot_invT (s : St) (hI : InvT s) (k v : Int) (c0 : Nat) : InvT (s.insertRoot k v c0).1 := by
  obtain ⟨id, ht, hm, hsz, hol⟩ := insertRoot_t s k v c0
  cases hmul : s.multi with
  | false =>
    have hS := hI.sortedS hmul
    simp only [St.insSub, hmul, Bool.false_eq_true, if_false] at ht hsz
    have hin := ins_inorder id k v s.t hS
    have hsrt := insList_sorted id k v _ hS
    simp only [hmul, Bool.false_eq_true, if_false] at hol
    refine ⟨?_, ?_, ?_, ?_, ?_⟩
    · rw [ht]; exact (ins_ok id k v s.t hI.avl).1
    · rw [ht, hin]; exact hsrt.toW
    · intro _; rw [ht, hin]; exact hsrt
    · rw [hsz, ht, size_eq_length, ins_length id k v none, hI.size, size_eq_length]
    · rw [hol, hsz, hI.olen]
  | true =>
    simp only [St.insSub, hmul, if_true] at ht hsz
    have hin := insM_inorder id k v s.t hI.sortedW
    have hsrt := insListM_sorted id k v _ hI.sortedW
    obtain ⟨p, hp⟩ := landM_leaf k none s.t
    simp only [hmul, if_true] at hol
    refine ⟨?_, ?_, ?_, ?_, ?_⟩
    · rw [ht]; exact (insM_ok id k v s.t hI.avl).1
    · rw [ht, hin]; exact hsrt
    · intro h; rw [hm, hmul] at h; exact absurd h (by simp)
    · rw [hsz, hp, ht, size_eq_length, insM_length, hI.size, size_eq_length]
    · rw [hol, hsz, hI.olen]

theorem insertRoot_abs (s : St) (hI : InvT s) (k v : Int) (c0 : Nat) :
    abs (s.insertRoot k v c0).1 =
      (if s.multi then Spec.insertMulti k v (abs s) else Spec.insertMap k v (abs s)) := by
  obtain ⟨id, ht, hm, hsz, _⟩ := insertRoot_t s k v c0
  unfold abs
  cases hmul : s.multi with
  | false =>
    simp only [St.insSub, hmul, Bool.false_eq_true, if_false] at ht ⊢
    rw [ht, ins_inorder id k v s.t (hI.sortedS hmul), kv_insList]
  | true =>
    simp only [St.insSub, hmul, if_true] at ht ⊢
    rw [ht, insM_inorder id k v s.t hI.sortedW, kv_insListM]

/-- a hinted insert whose cell lies on the plain descent path is the plain insert -/
theorem insertUnder_eq (s : St) (right : Bool) (idx hid : Nat) (k v kk vv : Int) (c0 c1 : Nat)
    (hh : s.t.inorder[idx]? = some (hid, kk, vv))
    (hf : if s.multi then FitsM k right idx s.t else Fits k right idx s.t) :
    (s.insertUnder right idx hid k v c0).1 = (s.insertRoot k v c1).1 ∧
    (s.insertUnder right idx hid k v c0).2.ret = (s.insertRoot k v c1).2.ret := by
  unfold St.insertUnder St.insertRoot St.insertIn
  cases hmul : s.multi with
  | false =>
    simp only [hmul, Bool.false_eq_true, if_false] at hf ⊢
    rw [land_eq k right idx s.t none hid kk vv hh hf]
    have hmk : ∀ id, (insAt (s.insSub id k v) right idx s.t).1 = (s.insSub id k v s.t).1 := by
      intro id; simp only [St.insSub, hmul, Bool.false_eq_true, if_false]; rw [insAt_eq_ins id k v right idx s.t hf]
    simp only [hmk]
    cases land k none s.t <;> exact ⟨rfl, rfl⟩
  | true =>
    simp only [hmul, if_true] at hf ⊢
    rw [landM_eq k right idx s.t none hid kk vv hh hf]
    have hmk : ∀ id, (insAt (s.insSub id k v) right idx s.t).1 = (s.insSub id k v s.t).1 := by
      intro id; simp only [St.insSub, hmul, if_true]; rw [insAt_eq_insM id k v right idx s.t hf]
    simp only [hmk]
    cases landM k none s.t <;> exact ⟨rfl, rfl⟩

end Nstd.Avl
