import Nstd.Avl.LemmasHeapRemove7
/-
  Two-children removal: where the in-order neighbour sits (`spine_min` / `spine_max`), the ids of a plugged context as a
  contiguous segment (`ids_plug_split`).
-/
namespace Nstd.Avl
open Tree
open Nstd.Avl.Heap
open Nstd.Generated.AvlRot

/-- the in-order first item of a non-empty tree: the hole of a context of left frames; `popMin` is the climb of that context -/
theorem spine_min : ∀ (r : Tree), r ≠ .nil → ∃ (a : Ctx) (mi : Nat) (mk mv : Int) (nh : Nat) (ns : Int) (nr : Tree),
    r = a.plug (node mi mk mv nh ns nil nr) ∧ Tree.popMin r = some ((mi, mk, mv), a.climb (nr, true)) ∧
    (ids r).head? = some mi ∧ (a = .top ∨ ∃ np nk nv nhh nss nrr a'', a = Ctx.left np nk nv nhh nss nrr a'') ∧
    a.depth < r.height := by
  intro r
  induction r with
  | nil => intro h; exact absurd rfl h
  | node i k v hh s l rr ihl _ =>
    intro _
    cases hl : l with
    | nil =>
      exact ⟨.top, i, k, v, hh, s, rr, rfl, rfl, by simp [ids_node, ids, Tree.inorder], Or.inl rfl, by simp [Ctx.depth, Tree.height]⟩
    | node li lk lv lh ls ll lr =>
      obtain ⟨a', mi, mk, mv, nh, ns, nr, e1, e2, e3, e4, e5⟩ := ihl (by rw [hl]; simp)
      rw [hl] at e1 e2 e3 e5
      refine ⟨a'.append (Ctx.left i k v hh s rr .top), mi, mk, mv, nh, ns, nr, ?_, ?_, ?_, ?_, ?_⟩
      · rw [plug_append, ← e1]; rfl
      · rw [climb_append]
        simp only [Ctx.climb]
        show (match Tree.popMin (node li lk lv lh ls ll lr) with
          | none => some ((i, k, v), rr, true)
          | some (m, p) => some (m, goL i k v hh s rr p)) = _
        rw [e2]
      · rw [ids_node]
        cases hi : ids (node li lk lv lh ls ll lr) with
        | nil => rw [hi] at e3; simp at e3
        | cons x xs => rw [hi] at e3; simpa using e3
      · right
        rcases e4 with e | ⟨np, nk, nv, nhh, nss, nrr, a'', e⟩
        · rw [e]; exact ⟨i, k, v, hh, s, rr, .top, rfl⟩
        · rw [e]; exact ⟨np, nk, nv, nhh, nss, nrr, a''.append (Ctx.left i k v hh s rr .top), rfl⟩
      · rw [depth_append]; simp only [Ctx.depth, Tree.height] at e5 ⊢; omega

/-- the in-order last item -/
theorem spine_max : ∀ (r : Tree), r ≠ .nil → ∃ (a : Ctx) (mi : Nat) (mk mv : Int) (nh : Nat) (ns : Int) (nl : Tree),
    r = a.plug (node mi mk mv nh ns nl nil) ∧ Tree.popMax r = some ((mi, mk, mv), a.climb (nl, true)) ∧
    (ids r).getLast? = some mi ∧ (a = .top ∨ ∃ np nk nv nhh nss nll a'', a = Ctx.right np nk nv nhh nss nll a'') ∧
    a.depth < r.height := by
  intro r
  induction r with
  | nil => intro h; exact absurd rfl h
  | node i k v hh s ll r _ ihr =>
    intro _
    cases hr : r with
    | nil =>
      exact ⟨.top, i, k, v, hh, s, ll, rfl, rfl, by simp [ids_node, ids, Tree.inorder], Or.inl rfl, by simp [Ctx.depth, Tree.height]⟩
    | node ri rk rv rh rs rl rr =>
      obtain ⟨a', mi, mk, mv, nh, ns, nl, e1, e2, e3, e4, e5⟩ := ihr (by rw [hr]; simp)
      rw [hr] at e1 e2 e3 e5
      refine ⟨a'.append (Ctx.right i k v hh s ll .top), mi, mk, mv, nh, ns, nl, ?_, ?_, ?_, ?_, ?_⟩
      · rw [plug_append, ← e1]; rfl
      · rw [climb_append]
        simp only [Ctx.climb]
        show (match Tree.popMax (node ri rk rv rh rs rl rr) with
          | none => some ((i, k, v), ll, true)
          | some (m, p) => some (m, goR i k v hh s ll p)) = _
        rw [e2]
      · rw [ids_node]
        cases hi : ids (node ri rk rv rh rs rl rr) with
        | nil => rw [hi] at e3; simp at e3
        | cons x xs =>
          rw [List.getLast?_append, List.getLast?_cons_cons, ← hi, e3]; rfl
      · right
        rcases e4 with e | ⟨np, nk, nv, nhh, nss, nll, a'', e⟩
        · rw [e]; exact ⟨i, k, v, hh, s, ll, .top, rfl⟩
        · rw [e]; exact ⟨np, nk, nv, nhh, nss, nll, a''.append (Ctx.right i k v hh s ll .top), rfl⟩
      · rw [depth_append]; simp only [Ctx.depth, Tree.height] at e5 ⊢; omega

/-- the ids of what hangs in the hole are a contiguous segment of the in-order ids of the whole tree -/
theorem ids_plug_split : ∀ (ctx : Ctx), ∃ pre post : List Nat, ∀ t, ids (ctx.plug t) = pre ++ ids t ++ post := by
  intro ctx
  induction ctx with
  | top => exact ⟨[], [], fun t => by simp [Ctx.plug]⟩
  | left i k v hh s r up ih =>
    obtain ⟨pre, post, e⟩ := ih
    refine ⟨pre, i :: ids r ++ post, fun t => ?_⟩
    simp only [Ctx.plug, e, ids_node, List.append_assoc, List.cons_append]
  | right i k v hh s l up ih =>
    obtain ⟨pre, post, e⟩ := ih
    refine ⟨pre ++ ids l ++ [i], post, fun t => ?_⟩
    simp only [Ctx.plug, e, ids_node, List.append_assoc, List.cons_append, List.nil_append]

end Nstd.Avl
