import Nstd.Avl.LemmasHeapRemove6
/-
  Two-children removal: the relinking stores.  `unlink_left` / `unlink_right`: the neighbour (which has no left / right
  child) is taken out of its old place; `swap_right` / `swap_left`: the neighbour takes the place of the removed item.
-/
namespace Nstd.Avl
open Tree
open Nstd.Avl.Heap
open Nstd.Generated.AvlRot

theorem ne_succ {a b : Nat} (h : a = b → False) : a + 1 ≠ b + 1 := fun e => h (by omega)

theorem repr_move {h h' : Heap} {t : Tree} {p par par' : Nat} (hr : Repr h p par t) (hnd : (ids t).Nodup)
    (ha : ∀ j ∈ ids t, h'.key (j + 1) = h.key (j + 1) ∧ h'.value (j + 1) = h.value (j + 1) ∧ h'.left (j + 1) = h.left (j + 1) ∧
      h'.right (j + 1) = h.right (j + 1) ∧ h'.height (j + 1) = h.height (j + 1) ∧ h'.slope (j + 1) = h.slope (j + 1))
    (hp : ∀ j ∈ ids t, j + 1 ≠ p → h'.parent (j + 1) = h.parent (j + 1))
    (hroot : p ≠ 0 → h'.parent p = par') : Repr h' p par' t :=
  repr_reparent hr ((distinct_iff_nodup' t).mpr hnd) (fun j hj => ha j ((mem_iff_ids' j t).mp hj))
    (fun j hj => hp j ((mem_iff_ids' j t).mp hj)) hroot

theorem repr_root_mem {h : Heap} {p par : Nat} {t : Tree} (hr : Repr h p par t) (hn : t ≠ .nil) :
    ∃ j, j ∈ ids t ∧ p = j + 1 := by
  cases t with
  | nil => exact absurd rfl hn
  | node i k v hh s l r => exact ⟨i, by simp [ids_node], hr.1⟩

theorem ctx_cell_owner (ctx : Ctx) (q : Nat) : (ctx.cell = .left q ∨ ctx.cell = .right q) → ∃ j ∈ ctx.ids, q = j + 1 := by
  intro hq
  cases ctx with
  | top => rcases hq with e | e <;> simp [Ctx.cell] at e
  | left i _ _ _ _ _ _ =>
    rcases hq with e | e <;> simp only [Ctx.cell, Cell.left.injEq, reduceCtorEq] at e
    exact ⟨i, by simp [Ctx.ids], e.symm⟩
  | right i _ _ _ _ _ _ =>
    rcases hq with e | e <;> simp only [Ctx.cell, Cell.right.injEq, reduceCtorEq] at e
    exact ⟨i, by simp [Ctx.ids], e.symm⟩

/-- **the neighbour takes the place of the removed item, neighbour deeper in the right subtree**:
    `*cell = next; next->parent = parent; next->left = left; left->parent = next; next->right = right; right->parent = next;` -/
theorem swap_right (ctx : Ctx) (h : Heap) (i mi : Nat) (k v mk mv : Int) (hh nh : Nat) (s ns : Int) (l R : Tree)
    (hc : ReprCtx h (Ctx.right i k v hh s l ctx)) (hR : Repr h (h.right (i + 1)) (i + 1) R) (hl : l ≠ .nil) (hRn : R ≠ .nil)
    (hX : h.key (mi + 1) = mk ∧ h.value (mi + 1) = mv ∧ h.height (mi + 1) = nh ∧ h.slope (mi + 1) = ns)
    (hnd : (mi :: (ids R ++ (Ctx.right i k v hh s l ctx).ids)).Nodup) :
    ReprCtx ((((((h.set ctx.cell (mi + 1)).setParent (mi + 1) ctx.par).setLeft (mi + 1) (h.left (i + 1))).setParent
        (h.left (i + 1)) (mi + 1)).setRight (mi + 1) (h.right (i + 1))).setParent (h.right (i + 1)) (mi + 1)) ctx ∧
    Repr ((((((h.set ctx.cell (mi + 1)).setParent (mi + 1) ctx.par).setLeft (mi + 1) (h.left (i + 1))).setParent
        (h.left (i + 1)) (mi + 1)).setRight (mi + 1) (h.right (i + 1))).setParent (h.right (i + 1)) (mi + 1))
      (((((((h.set ctx.cell (mi + 1)).setParent (mi + 1) ctx.par).setLeft (mi + 1) (h.left (i + 1))).setParent
        (h.left (i + 1)) (mi + 1)).setRight (mi + 1) (h.right (i + 1))).setParent (h.right (i + 1)) (mi + 1)).get ctx.cell)
      ctx.par (node mi mk mv nh ns l R) := by
  obtain ⟨a1, a2, a3, a4, a5, a6, a7, a8⟩ := hc
  obtain ⟨kX, vX, hXh, sX⟩ := hX
  simp only [Ctx.ids, List.nodup_cons, List.mem_append, List.mem_cons, List.nodup_append, List.cons_append] at hnd
  obtain ⟨N1, N2, ⟨N3, N4, N5, N6⟩, N7⟩ := hnd
  obtain ⟨lj, hlj, elp⟩ := repr_root_mem a7 hl
  obtain ⟨rj, hrj, erp⟩ := repr_root_mem hR hRn
  obtain ⟨h', eh'⟩ : ∃ y, y = (((((h.set ctx.cell (mi + 1)).setParent (mi + 1) ctx.par).setLeft (mi + 1) (h.left (i + 1))).setParent
        (h.left (i + 1)) (mi + 1)).setRight (mi + 1) (h.right (i + 1))).setParent (h.right (i + 1)) (mi + 1) := ⟨_, rfl⟩
  rw [← eh']
  -- the fields of h'
  have fkey : h'.key = h.key := by rw [eh']; simp only [Heap.setParent, Heap.setLeft, Heap.setRight, set_key]
  have fval : h'.value = h.value := by rw [eh']; simp only [Heap.setParent, Heap.setLeft, Heap.setRight, set_value]
  have fht : h'.height = h.height := by rw [eh']; simp only [Heap.setParent, Heap.setLeft, Heap.setRight, set_height]
  have fsl : h'.slope = h.slope := by rw [eh']; simp only [Heap.setParent, Heap.setLeft, Heap.setRight, set_slope]
  have fpar : ∀ q, h'.parent q = if q = h.right (i + 1) then mi + 1 else if q = h.left (i + 1) then mi + 1 else
      if q = mi + 1 then ctx.par else h.parent q := by
    intro q; rw [eh']; simp only [Heap.setParent, Heap.setLeft, Heap.setRight, set_parent, upd1_apply]
  have fleft : ∀ q, h'.left q = if q = mi + 1 then h.left (i + 1) else if ctx.cell = .left q then mi + 1 else h.left q := by
    intro q; rw [eh']; simp only [Heap.setParent, Heap.setLeft, Heap.setRight, set_left, upd1_apply]
  have fright : ∀ q, h'.right q = if q = mi + 1 then h.right (i + 1) else if ctx.cell = .right q then mi + 1 else h.right q := by
    intro q; rw [eh']; simp only [Heap.setParent, Heap.setLeft, Heap.setRight, set_right, upd1_apply]
  have froot : h'.root = if ctx.cell = .root then mi + 1 else h.root := by
    rw [eh']; simp only [Heap.setParent, Heap.setLeft, Heap.setRight, set_root]
  have fget : h'.get ctx.cell = mi + 1 := by
    cases hcc : ctx.cell with
    | root => simp only [Heap.get, froot, hcc, if_true]
    | left q =>
      obtain ⟨j, hj, e⟩ := ctx_cell_owner ctx q (Or.inl hcc)
      have : q ≠ mi + 1 := by
        rw [e]; exact ne_succ (fun e' => N1 (Or.inr (Or.inr (Or.inr (e' ▸ hj)))))
      simp only [Heap.get, fleft, this, hcc, if_false, if_true]
    | right q =>
      obtain ⟨j, hj, e⟩ := ctx_cell_owner ctx q (Or.inr hcc)
      have : q ≠ mi + 1 := by
        rw [e]; exact ne_succ (fun e' => N1 (Or.inr (Or.inr (Or.inr (e' ▸ hj)))))
      simp only [Heap.get, fright, this, hcc, if_false, if_true]
  -- who is who
  have own : ∀ q, (ctx.cell = .left q ∨ ctx.cell = .right q) → ∃ j ∈ ctx.ids, q = j + 1 := ctx_cell_owner ctx
  have notctx : ∀ j, (j = mi ∨ j ∈ ids R ∨ j = i ∨ j ∈ ids l) → j ∉ ctx.ids := by
    intro j hj hm
    rcases hj with e | e | e | e
    · exact N1 (Or.inr (Or.inr (Or.inr (e ▸ hm))))
    · exact N7 j e j (Or.inr (Or.inr hm)) rfl
    · exact N3 (Or.inr (e ▸ hm))
    · exact N6 j e j hm rfl
  have cellfree : ∀ j, (j = mi ∨ j ∈ ids R ∨ j = i ∨ j ∈ ids l) → ctx.cell ≠ .left (j + 1) ∧ ctx.cell ≠ .right (j + 1) := by
    intro j hj
    constructor
    · intro e
      obtain ⟨j', hj', e'⟩ := own _ (Or.inl e)
      have : j = j' := by omega
      exact notctx j hj (this ▸ hj')
    · intro e
      obtain ⟨j', hj', e'⟩ := own _ (Or.inr e)
      have : j = j' := by omega
      exact notctx j hj (this ▸ hj')
  have hmiR : mi ∉ ids R := fun m => N1 (Or.inl m)
  have hmil : mi ∉ ids l := fun m => N1 (Or.inr (Or.inr (Or.inl m)))
  have hRl : ∀ j ∈ ids R, j ∉ ids l := fun j hj m => N7 j hj j (Or.inr (Or.inl m)) rfl
  refine ⟨?_, ?_⟩
  · refine reprCtx_agree ctx a8 ?_ ?_ ?_ ?_ N5
    · intro j hj
      have n1 : j + 1 ≠ h.right (i + 1) := by
        rw [erp]; exact ne_succ (fun e => notctx rj (Or.inr (Or.inl hrj)) (e ▸ hj))
      have n2 : j + 1 ≠ h.left (i + 1) := by
        rw [elp]; exact ne_succ (fun e => notctx lj (Or.inr (Or.inr (Or.inr hlj))) (e ▸ hj))
      have n3 : j + 1 ≠ mi + 1 := ne_succ (fun e => notctx mi (Or.inl rfl) (e ▸ hj))
      exact ⟨by rw [fkey], by rw [fval], by rw [fpar, if_neg n1, if_neg n2, if_neg n3], by rw [fht], by rw [fsl]⟩
    · intro j hj hne
      have n3 : j + 1 ≠ mi + 1 := ne_succ (fun e => notctx mi (Or.inl rfl) (e ▸ hj))
      rw [fleft, if_neg n3, if_neg hne]
    · intro j hj hne
      have n3 : j + 1 ≠ mi + 1 := ne_succ (fun e => notctx mi (Or.inl rfl) (e ▸ hj))
      rw [fright, if_neg n3, if_neg hne]
    · intro hne; rw [froot, if_neg hne]
  · rw [fget, repr_node_iff]
    have nlr : h.left (i + 1) ≠ h.right (i + 1) := by
      rw [elp, erp]; exact ne_succ (fun e => hRl rj hrj (e ▸ hlj))
    have nXr : mi + 1 ≠ h.right (i + 1) := by
      rw [erp]; exact ne_succ (fun e => hmiR (e ▸ hrj))
    have nXl : mi + 1 ≠ h.left (i + 1) := by
      rw [elp]; exact ne_succ (fun e => hmil (e ▸ hlj))
    refine ⟨rfl, by rw [fkey]; exact kX, by rw [fval]; exact vX, by rw [fpar, if_neg nXr, if_neg nXl, if_pos rfl],
      by rw [fht]; exact hXh, by rw [fsl]; exact sX, ?_, ?_⟩
    · rw [fleft, if_pos rfl]
      refine repr_move a7 N4 ?_ ?_ ?_
      · intro j hj
        have n3 : j + 1 ≠ mi + 1 := ne_succ (fun e => hmil (e ▸ hj))
        have cf := cellfree j (Or.inr (Or.inr (Or.inr hj)))
        exact ⟨by rw [fkey], by rw [fval], by rw [fleft, if_neg n3, if_neg cf.1], by rw [fright, if_neg n3, if_neg cf.2],
          by rw [fht], by rw [fsl]⟩
      · intro j hj hne
        have n1 : j + 1 ≠ h.right (i + 1) := by
          rw [erp]; exact ne_succ (fun e => hRl rj hrj (e ▸ hj))
        have n3 : j + 1 ≠ mi + 1 := ne_succ (fun e => hmil (e ▸ hj))
        rw [fpar, if_neg n1, if_neg hne, if_neg n3]
      · intro _; rw [fpar, if_neg nlr, if_pos rfl]
    · rw [fright, if_pos rfl]
      refine repr_move hR N2 ?_ ?_ ?_
      · intro j hj
        have n3 : j + 1 ≠ mi + 1 := ne_succ (fun e => hmiR (e ▸ hj))
        have cf := cellfree j (Or.inr (Or.inl hj))
        exact ⟨by rw [fkey], by rw [fval], by rw [fleft, if_neg n3, if_neg cf.1], by rw [fright, if_neg n3, if_neg cf.2],
          by rw [fht], by rw [fsl]⟩
      · intro j hj hne
        have n2 : j + 1 ≠ h.left (i + 1) := by
          rw [elp]; exact ne_succ (fun e => hRl j hj (e ▸ hlj))
        have n3 : j + 1 ≠ mi + 1 := ne_succ (fun e => hmiR (e ▸ hj))
        rw [fpar, if_neg hne, if_neg n2, if_neg n3]
      · intro _; rw [fpar, if_pos rfl]

end Nstd.Avl
