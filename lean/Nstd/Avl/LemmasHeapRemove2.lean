import Nstd.Avl.LemmasHeapInsert8
/-
  `remove(it)` composed: the trivial paths of the complete translated `remove` are head + `rebalParentUpwards` + tail;
  what head and loop leave alone; the tail (unlinking from the prev/next list, `--_size`, push onto the free list).
-/
namespace Nstd.Avl
open Tree
open Nstd.Avl.Heap
open Nstd.Generated.AvlRot

theorem map_remove_trivial (fuel : Nat) (h : Heap) (it : Nat) (htag : (Map.removeHead h it).2.2 = 0) :
    Map.remove fuel h it = (match Map.removeUpwards fuel (Map.removeHead h it).1 (Map.removeHead h it).2.1 with
      | none => none
      | some h' => some (Map.removeTail h' it)) := by
  unfold Map.remove
  unfold Map.removeHead at htag ⊢
  simp only [] at htag ⊢
  by_cases hl : h.left it ≠ 0
  · by_cases hr : h.right it ≠ 0
    · by_cases hh : h.height (h.left it) < h.height (h.right it)
      · simp only [if_pos hl, if_pos hr, if_pos hh] at htag; cases htag
      · simp only [if_pos hl, if_pos hr, if_neg hh] at htag; cases htag
    · simp only [if_pos hl, if_neg hr]; rfl
  · by_cases hr : h.right it ≠ 0
    · simp only [if_neg hl, if_pos hr]; rfl
    · simp only [if_neg hl, if_neg hr]; rfl

theorem listSame_removeUp : ∀ (fuel : Nat) (h : Heap) (p old : Nat) (h' : Heap),
    Map.removeUpwards_loop fuel h p old = some h' → ListSame h h' := by
  intro fuel
  induction fuel with
  | zero => intro h p old h' e; rw [Map.removeUpwards_loop] at e; cases e
  | succ f ih =>
    intro h p old h' e
    rw [Map.removeUpwards_loop] at e
    simp only [] at e
    have l2 : ListSame h (Map.rebal (Map.updateHeightAndSlope h p) p).1 :=
      listSame_trans (listSame_upd h p) (listSame_rebal _ _)
    split at e
    · split at e
      · cases e; exact l2
      · exact listSame_trans l2 (ih _ _ _ _ e)
    · cases e; exact listSame_refl _

theorem listSame_removeHead (h : Heap) (it : Nat) : ListSame h (Map.removeHead h it).1 := by
  unfold Map.removeHead
  simp only []
  repeat' split
  all_goals first
    | exact listSame_refl _
    | exact listSame_set _ _ _
    | exact listSame_trans (listSame_set _ _ _) ⟨rfl, rfl, rfl, rfl, rfl, rfl, rfl⟩

end Nstd.Avl
