import Nstd.Avl.LemmasStable
/-
  The node pool (LIFO free list, blocks of `ipbOf` items): what `St.alloc` returns and what the private insert does
  with it.  Used by PropsIds.lean (`insert_takes_free_head`, `remove_then_insert_reuses`).
-/
namespace Nstd.Avl
open Tree

theorem blockItems_pos (b n : Nat) (h : 0 < n) : blockItems b n = (b + (n - 1)) :: blockItems b (n - 1) := by
  cases n with
  | zero => omega
  | succ m => simp [blockItems]

theorem alloc_lifo' (s : St) :
    (∀ i rest, s.free = i :: rest → s.alloc = (i, { s with free := rest })) ∧
    (s.free = [] → s.alloc = (ipbOf s.multi * s.blocks + (ipbOf s.multi - 1),
        { s with free := blockItems (ipbOf s.multi * s.blocks) (ipbOf s.multi - 1), blocks := s.blocks + 1 })) := by
  constructor
  · intro i rest h
    unfold St.alloc; rw [h]
  · intro h
    unfold St.alloc; rw [h]
    simp only
    rw [blockItems_pos _ _ (ipb_pos s.multi)]

theorem getElem_idxOf (x : Nat) (l : List Nat) (h : x ∈ l) : l[idxOf x l]? = some x := by
  induction l with
  | nil => simp at h
  | cons a as ih =>
    simp only [idxOf]
    by_cases e : a = x
    · simp [e]
    · simp only [e, if_false]
      have : x ∈ as := by
        rcases List.mem_cons.mp h with h | h
        · exact absurd h.symm e
        · exact h
      simpa using ih this

theorem mem_insertBefore (p x : Nat) (l : List Nat) : x ∈ insertBefore p x l := by
  induction l with
  | nil => simp [insertBefore]
  | cons a as ih => simp only [insertBefore]; split <;> simp [ih]

theorem mem_insertAfter (p x : Nat) (l : List Nat) : x ∈ insertAfter p x l := by
  induction l with
  | nil => simp [insertAfter]
  | cons a as ih => simp only [insertAfter]; split <;> simp [ih]

theorem mem_threadIn (o : List Nat) (x : Nat) (p : Option (Nat × Bool)) : x ∈ threadIn o x p := by
  cases p with
  | none => simp [threadIn]
  | some c =>
    obtain ⟨q, b⟩ := c
    cases b
    · simp only [threadIn]; exact mem_insertBefore _ _ _
    · simp only [threadIn]; exact mem_insertAfter _ _ _

/-- what one run of the private insert does to the node pool -/
theorem insertIn_pool (s : St) (k : Int) (cell : Option (Nat × Bool)) (sub : Tree) (mk : Nat → Tree) (c0 : Nat) :
    ((s.insertIn k cell sub mk c0).1.size = s.size + 1 →
      (s.insertIn k cell sub mk c0).1.free = s.alloc.2.free ∧ (s.insertIn k cell sub mk c0).1.blocks = s.alloc.2.blocks ∧
      ∃ q, (s.insertIn k cell sub mk c0).2.ret = .it q ∧ (s.insertIn k cell sub mk c0).1.order[q]? = some s.alloc.1) ∧
    ((s.insertIn k cell sub mk c0).1.size ≠ s.size + 1 →
      (s.insertIn k cell sub mk c0).1.free = s.free ∧ (s.insertIn k cell sub mk c0).1.blocks = s.blocks) := by
  unfold St.insertIn
  obtain ⟨a1, a2, a3, a4⟩ := alloc_fields s
  generalize (if s.multi then landM k cell sub else land k cell sub) = ld
  cases ld with
  | found fid => simp only; constructor <;> intro h <;> first | omega | exact ⟨trivial, trivial⟩
  | leaf p =>
    simp only
    constructor
    · intro _
      exact ⟨trivial, trivial, _, rfl, getElem_idxOf _ _ (mem_threadIn _ _ _)⟩
    · intro h; exact absurd rfl h

/-- what an op that went through the private insert did to the node pool: if it created an item, that item took
    `s.alloc` (its id is at the returned position of the prev/next list); otherwise the pool is untouched -/
def PoolStep (s : St) (r : St × Out) : Prop :=
  (r.1.size = s.size + 1 →
    r.1.free = s.alloc.2.free ∧ r.1.blocks = s.alloc.2.blocks ∧ ∃ q, r.2.ret = .it q ∧ r.1.order[q]? = some s.alloc.1) ∧
  (r.1.size ≠ s.size + 1 → r.1.free = s.free ∧ r.1.blocks = s.blocks)

theorem insertRoot_pool (s : St) (k v : Int) (c0 : Nat) : PoolStep s (s.insertRoot k v c0) := by
  unfold St.insertRoot; exact insertIn_pool _ _ _ _ _ _

theorem insertUnder_pool (s : St) (right : Bool) (idx hid : Nat) (k v : Int) (c0 : Nat) :
    PoolStep s (s.insertUnder right idx hid k v c0) := by
  unfold St.insertUnder; exact insertIn_pool _ _ _ _ _ _

theorem insertAt_pool (s : St) (p : Nat) (k v : Int) (r : St × Out) (h : s.insertAt p k v = some r) : PoolStep s r := by
  unfold St.insertAt at h
  simp only at h
  repeat' split at h
  all_goals first
    | (simp at h; done)
    | (simp only [Option.some.injEq] at h; subst h
       first
         | exact insertUnder_pool _ _ _ _ _ _ _
         | exact insertRoot_pool _ _ _ _
         | (constructor <;> intro hh <;> simp only at hh ⊢ <;> first | omega | exact ⟨rfl, rfl⟩ | exact ⟨trivial, trivial⟩))


end Nstd.Avl
