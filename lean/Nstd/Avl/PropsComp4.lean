import Nstd.Avl.PropsComp3
/-
  Property C01 — tie by translation, composed (continued): the one-line public bodies over `find` / `remove(it)`.
  tools/gen_avl.py recognises `contains` (`return find(key) != _end;`), `removeFront` (`return remove(_begin);`), `removeBack`
  (`return remove(_end.item->prev);`) and `remove(key)` (`Iterator it = find(key); if(it != _end) remove(it);`) by the shape of
  their syntax trees and emits `contains`, `removeFront`, `removeBack`, `removeKey` over the translated `find` / `remove`.
  The first item of the iteration has no left child and the last one no right child, so `removeFront` / `removeBack` are
  covered completely by the one-child case of `remove(it)`.
-/
namespace Nstd.Avl
open Tree
open Nstd.Avl.Heap
open Nstd.Generated.AvlRot

theorem size_zero_nil : ∀ (t : Tree), t.size = 0 → t = .nil := by
  intro t h
  cases t with
  | nil => rfl
  | node _ _ _ _ _ l r => simp only [Tree.size] at h; omega

/-- the first item of the iteration has no left child -/
theorem subAt_false_zero : ∀ (t : Tree), Tree.subAt false 0 t = .nil := by
  intro t
  induction t with
  | nil => rfl
  | node i k v hh s l r ihl _ =>
    simp only [Tree.subAt]
    by_cases h1 : 0 < l.size
    · simp only [h1, if_true]; exact ihl
    · have : l.size = 0 := by omega
      simp only [this, Nat.lt_irrefl, if_false, if_true, Bool.false_eq_true]
      exact size_zero_nil l this

/-- the last item of the iteration has no right child -/
theorem subAt_true_last : ∀ (t : Tree), t ≠ .nil → Tree.subAt true (t.size - 1) t = .nil := by
  intro t
  induction t with
  | nil => intro h; exact absurd rfl h
  | node i k v hh s l r _ ihr =>
    intro _
    simp only [Tree.subAt, Tree.size]
    cases r with
    | nil =>
      simp only [Tree.size, Nat.add_zero, Nat.add_sub_cancel, Nat.lt_irrefl, if_false, if_true]
    | node ri rk rv rh rs rl rr =>
      have h1 : ¬ (l.size + 1 + (node ri rk rv rh rs rl rr).size - 1 < l.size) := by omega
      have h2 : ¬ (l.size + 1 + (node ri rk rv rh rs rl rr).size - 1 = l.size) := by simp only [Tree.size]; omega
      simp only [h1, h2, if_false]
      have e : l.size + 1 + (node ri rk rv rh rs rl rr).size - 1 - l.size - 1 = (node ri rk rv rh rs rl rr).size - 1 := by
        simp only [Tree.size]; omega
      rw [e]
      exact ihr (by simp)

theorem findIdx_lt (k : Int) : ∀ (t : Tree) (j : Nat), Tree.findIdx k t = some j → j < t.size := by
  intro t
  induction t with
  | nil => intro j h; simp [Tree.findIdx] at h
  | node i k' v hh s l r ihl ihr =>
    intro j h
    simp only [Tree.findIdx] at h
    simp only [Tree.size]
    by_cases h1 : k > k'
    · simp only [h1, if_true, Option.map_eq_some_iff] at h
      obtain ⟨j', e1, e2⟩ := h
      have := ihr j' e1; omega
    · simp only [h1, if_false] at h
      by_cases h2 : k < k'
      · simp only [h2, if_true] at h; have := ihl j h; omega
      · simp only [h2, if_false, Option.some.injEq] at h; omega

theorem st_findIdx_lt (s : St) (k : Int) (p : Nat) (h : s.findIdx k = some p) : p < s.t.size := by
  unfold St.findIdx at h
  cases hm : s.multi with
  | false => rw [hm] at h; exact findIdx_lt k s.t p h
  | true =>
    rw [hm] at h
    rcases findMLoop_bound k s.t none 0 p h with e | e
    · cases e
    · omega

/-- the translated `removeFront()` / `removeBack()` / `contains` / `remove(key)` of one header -/
def removeFrontCode (multi : Bool) : Nat → Heap → Option (Heap × Nat) := if multi then Multi.removeFront else Map.removeFront
def removeBackCode (multi : Bool) : Nat → Heap → Option (Heap × Nat) := if multi then Multi.removeBack else Map.removeBack
def containsCode (multi : Bool) : Nat → Heap → Nat → Int → Option (Bool × Nat) := if multi then Multi.contains else Map.contains
def removeKeyCode (multi : Bool) : Nat → Heap → Nat → Int → Option (Heap × Nat) := if multi then Multi.removeKey else Map.removeKey

theorem removeFrontCode_eq (multi : Bool) (fuel : Nat) (h : Heap) : removeFrontCode multi fuel h = removeCode multi fuel h h.beginItem := by
  cases multi <;> rfl

theorem removeBackCode_eq (multi : Bool) (fuel : Nat) (h : Heap) :
    removeBackCode multi fuel h = removeCode multi fuel h (h.prev h.endItem) := by
  cases multi <;> rfl

/-- **`removeFront()`, complete, by translation**: `remove(_begin)` — the first item has no left child, so this is always the
    one-child path of `remove(it)`: for every reachable non-empty state and every heap that represents it the translated
    code leaves a heap that represents the model's `step s removeFront` and returns the new first item (or the sentinel). -/
theorem gen_remove_front_eq_step (multi : Bool) (s : St) (h : Heap) (fuel : Nat)
    (hreach : Reach multi s) (hr : ReprSt h s) (hp : 0 < s.size) (hf : s.t.height < fuel) :
    ∃ s' out, step s .removeFront = some (s', out) ∧ out.ret = .it 0 ∧
    ∃ h' ptr, removeFrontCode multi fuel h = some (h', ptr) ∧ ReprSt h' s' ∧ h'.endItem = h.endItem ∧
      ptr = headPtr h' s'.order := by
  have T := gen_remove_trivial_eq_step multi s h 0 fuel hreach hr hp hf (Or.inl (subAt_false_zero _))
  rw [removeFrontCode_eq, (dlist_head hr.list).1]
  exact T

/-- **`removeBack()`, complete, by translation**: `remove(_end.item->prev)` — the last item has no right child. -/
theorem gen_remove_back_eq_step (multi : Bool) (s : St) (h : Heap) (fuel : Nat)
    (hreach : Reach multi s) (hr : ReprSt h s) (hp : 0 < s.size) (hf : s.t.height < fuel) :
    ∃ s' out, step s .removeBack = some (s', out) ∧ out.ret = .it (s.size - 1) ∧
    ∃ h' ptr, removeBackCode multi fuel h = some (h', ptr) ∧ ReprSt h' s' ∧ h'.endItem = h.endItem ∧
      ptr = headPtr h' (s'.order.drop (s.size - 1)) := by
  obtain ⟨hT, hO, hm⟩ := invs_reach hreach
  have hne : s.t ≠ .nil := by
    intro e; have := hT.size; rw [e] at this; simp only [Tree.size] at this; omega
  have htriv : Tree.subAt true (s.size - 1) s.t = .nil := by rw [hT.size]; exact subAt_true_last s.t hne
  have T := gen_remove_trivial_eq_step multi s h (s.size - 1) fuel hreach hr (by omega) hf (Or.inr htriv)
  have hstep : step s .removeBack = step s (.removeAt (s.size - 1)) := by
    simp only [step]; rw [if_neg (by omega)]
  rw [hstep, removeBackCode_eq]
  -- the pointer `_end.item->prev`
  have hon : s.order ≠ [] := by intro e; have := hT.olen; rw [e] at this; simp at this; omega
  have hq := dlist_prevq [] s.order _ _ (by rw [List.append_nil]; exact hr.list)
  simp only [headPtr] at hq
  rw [List.getLast?_eq_some_getLast hon] at hq
  simp only at hq
  have hd : s.order.drop (s.size - 1) = [s.order.getLast hon] := by
    have hsplit := List.dropLast_concat_getLast hon
    have hl : s.order.dropLast.length = s.size - 1 := by rw [List.length_dropLast, hT.olen]
    calc s.order.drop (s.size - 1) = (s.order.dropLast ++ [s.order.getLast hon]).drop (s.size - 1) := by rw [hsplit]
      _ = [s.order.getLast hon] := List.drop_left' hl
  rw [hd] at T
  rw [hq]
  exact T

/-- **`contains(key)`, by translation**: `find(key) != _end` = the model's `step s (contains k)`, same comparisons. -/
theorem gen_contains_eq_step (multi : Bool) (s : St) (h : Heap) (k : Int) (c fuel : Nat)
    (hreach : Reach multi s) (hr : ReprSt h s) (hf : s.t.height < fuel) :
    ∃ out b, step s (.contains k) = some (s, out) ∧ out.ret = .bool b ∧
      containsCode multi fuel h c k = some (b, c + out.cmps) := by
  obtain ⟨hT, hO, hm⟩ := invs_reach hreach
  obtain ⟨out, q, e1, e2, e3⟩ := gen_find_eq_step multi s h k c fuel hreach hr hf
  simp only [step, Option.some.injEq, Prod.mk.injEq, true_and] at e1
  subst e1
  simp only [Ret.it.injEq] at e2
  refine ⟨_, _, rfl, rfl, ?_⟩
  have hcode : containsCode multi fuel h c k = (match findCode multi fuel h c k with
      | none => none | some (it, c') => some (decide (it ≠ h.endItem), c')) := by
    cases multi <;> rfl
  rw [hcode, e3]
  simp only [Option.some.injEq, Prod.mk.injEq, and_true]
  cases hfi : s.findIdx k with
  | none =>
    rw [hfi] at e2; simp only [Option.getD_none] at e2
    have : s.order[q]? = none := by rw [← e2, List.getElem?_eq_none_iff, hT.olen]; exact Nat.le_refl _
    rw [this]; simp
  | some p =>
    rw [hfi] at e2; simp only [Option.getD_some] at e2
    have hp := st_findIdx_lt s k p hfi
    have hlt : q < s.order.length := by rw [← e2, hT.olen, hT.size]; exact hp
    rw [List.getElem?_eq_getElem hlt]
    have := hr.endSep s.order[q] (Or.inl (List.getElem_mem hlt))
    simp [this]

/-- **`remove(key)`, by translation** — `find` + `remove(it)`: the model's `step s (removeKey k)` whenever the item found (if
    any) has an empty left or right cell (the two-children paths of `remove(it)` are OPEN, see PropsComp3.lean). -/
theorem gen_remove_key_trivial_eq_step (multi : Bool) (s : St) (h : Heap) (k : Int) (c fuel : Nat)
    (hreach : Reach multi s) (hr : ReprSt h s) (hf : s.t.height < fuel)
    (htriv : ∀ p, s.findIdx k = some p → Tree.subAt false p s.t = .nil ∨ Tree.subAt true p s.t = .nil) :
    ∃ s' out, step s (.removeKey k) = some (s', out) ∧
    ∃ h', removeKeyCode multi fuel h c k = some (h', c + out.cmps) ∧ ReprSt h' s' ∧ h'.endItem = h.endItem := by
  obtain ⟨hT, hO, hm⟩ := invs_reach hreach
  obtain ⟨out, q, e1, e2, e3⟩ := gen_find_eq_step multi s h k c fuel hreach hr hf
  simp only [step, Option.some.injEq, Prod.mk.injEq, true_and] at e1
  subst e1
  simp only [Ret.it.injEq] at e2
  have hcode : removeKeyCode multi fuel h c k = (match findCode multi fuel h c k with
      | none => none
      | some (it, c') => if it ≠ h.endItem then (match removeCode multi fuel h it with
          | none => none | some (h', _) => some (h', c')) else some (h, c')) := by
    cases multi <;> rfl
  rw [hcode, e3]
  simp only
  cases hfi : s.findIdx k with
  | none =>
    rw [hfi] at e2; simp only [Option.getD_none] at e2
    have : s.order[q]? = none := by rw [← e2, List.getElem?_eq_none_iff, hT.olen]; exact Nat.le_refl _
    rw [this]
    simp only [ne_eq, not_true_eq_false, if_false]
    refine ⟨s, ⟨.none, s.findCmps k⟩, by simp only [step, hfi], h, rfl, hr, rfl⟩
  | some p =>
    rw [hfi] at e2; simp only [Option.getD_some] at e2
    subst e2
    have hp : p < s.size := by rw [hT.size]; exact st_findIdx_lt s k p hfi
    have hlt : p < s.order.length := by rw [hT.olen]; exact hp
    obtain ⟨s', out', t1, t2, h', ptr, t3, t4, t5, _⟩ := gen_remove_trivial_eq_step multi s h p fuel hreach hr hp hf (htriv p hfi)
    have hdrop : headPtr h (s.order.drop p) = s.order[p] + 1 := by
      rw [← List.getElem_cons_drop_succ_eq_drop hlt]; rfl
    rw [hdrop] at t3
    rw [List.getElem?_eq_getElem hlt]
    have hne := hr.endSep s.order[p] (Or.inl (List.getElem_mem hlt))
    simp only [ne_eq, hne, not_false_eq_true, if_true, t3]
    simp only [step, St.removeAt, List.getElem?_eq_getElem hlt, Option.some.injEq, Prod.mk.injEq] at t1
    refine ⟨s', ⟨.none, s.findCmps k⟩, ?_, h', rfl, t4, t5⟩
    simp only [step, hfi, St.removeAt, List.getElem?_eq_getElem hlt, Option.map_some, ← t1.1]

end Nstd.Avl
