import Nstd.Avl.Model
/-
  The same model, generic in the key type: `Nstd.Avl.G.*` is `Model.lean` with `Int` keys replaced
  by any `K` with a lawful strict total order (`KeyOrder`).  Generated from Model.lean by
  replacing the key type; `PropsK.lean` proves that it is the `Int` model up to any key map that
  preserves the comparisons of the keys involved, and transfers the theorems.
-/
namespace Nstd.Avl

/-- a strict total order with its derived `≤` and decidable comparisons — what `Map<T,V>` assumes of `T` -/
class KeyOrder (K : Type) extends LT K, LE K where
  decLt : ∀ a b : K, Decidable (a < b)
  decLe : ∀ a b : K, Decidable (a ≤ b)
  decEq : DecidableEq K
  lt_irrefl : ∀ a : K, ¬ a < a
  lt_trans : ∀ a b c : K, a < b → b < c → a < c
  lt_trichotomy : ∀ a b : K, a < b ∨ a = b ∨ b < a
  le_iff : ∀ a b : K, a ≤ b ↔ ¬ b < a

instance {K : Type} [KeyOrder K] (a b : K) : Decidable (a < b) := KeyOrder.decLt a b
instance {K : Type} [KeyOrder K] (a b : K) : Decidable (a ≤ b) := KeyOrder.decLe a b
instance {K : Type} [KeyOrder K] : DecidableEq K := KeyOrder.decEq

instance : KeyOrder Int where
  decLt := fun a b => inferInstance
  decLe := fun a b => inferInstance
  decEq := inferInstance
  lt_irrefl := fun a => Int.lt_irrefl a
  lt_trans := fun a b c => Int.lt_trans
  lt_trichotomy := fun a b => Int.lt_trichotomy a b
  le_iff := fun a b => by omega

end Nstd.Avl

namespace Nstd.Avl.G
open Nstd.Avl (Ret Out insertBefore insertAfter threadIn idxOf ipbOf blockItems)
open Nstd.Avl.Tree (Landing)

inductive Tree (K : Type) where
  | nil : Tree K
  | node (id : Nat) (k : K) (v : Int) (h : Nat) (s : Int) (l r : Tree K) : Tree K

variable {K : Type} [KeyOrder K]

namespace Tree

/-- stored height field (`item ? item->height : 0`) -/
def ht : Tree K → Nat
  | nil => 0
  | node _ _ _ h _ _ _ => h

/-- stored slope field -/
def slope : Tree K → Int
  | nil => 0
  | node _ _ _ _ s _ _ => s

/-- real height -/
def height : Tree K → Nat
  | nil => 0
  | node _ _ _ _ _ l r => max (height l) (height r) + 1

def size : Tree K → Nat
  | nil => 0
  | node _ _ _ _ _ l r => size l + 1 + size r

/-- in-order sequence of `(id, key, value)` -/
def inorder : Tree K → List (Nat × K × Int)
  | nil => []
  | node i k v _ _ l r => inorder l ++ (i, k, v) :: inorder r

/-- `Item::updateHeightAndSlope` -/
def upd : Tree K → Tree K
  | nil => nil
  | node i k v _ _ l r =>
    node i k v (max l.ht r.ht + 1) ((l.ht : Int) - (r.ht : Int)) l r

/-- `rotr(cell)` -/
def rotr : Tree K → Tree K
  | node i k v h s (node li lk lv lh ls ll lr) r =>
    let oldTop := upd (node i k v h s lr r)
    upd (node li lk lv lh ls ll oldTop)
  | t => t

/-- `rotl(cell)` -/
def rotl : Tree K → Tree K
  | node i k v h s l (node ri rk rv rh rs rl rr) =>
    let oldTop := upd (node i k v h s l rl)
    upd (node ri rk rv rh rs oldTop rr)
  | t => t

/-- `shiftr(cell)` -/
def shiftr : Tree K → Tree K
  | node i k v h s l r =>
    if l.slope = -1 then rotr (node i k v h s (rotl l) r) else rotr (node i k v h s l r)
  | t => t

/-- `shiftl(cell)` -/
def shiftl : Tree K → Tree K
  | node i k v h s l r =>
    if r.slope = 1 then rotl (node i k v h s l (rotr r)) else rotl (node i k v h s l r)
  | t => t

/-- `rebal(item)` -/
def rebal (t : Tree K) : Tree K :=
  if t.slope > 1 then shiftr t
  else if t.slope < -1 then shiftl t
  else t

/-- one turn of an upward loop; returns the new subtree and whether the loop continues -/
def fixup (oldH : Nat) (t : Tree K) : Tree K × Bool :=
  let t' := rebal (upd t)
  (t', t'.ht != oldH)

/-- coming back from the left child with result `p = (new left subtree, loop still running)` -/
def goL (i : Nat) (k : K) (v : Int) (h : Nat) (s : Int) (r : Tree K) (p : Tree K × Bool) : Tree K × Bool :=
  if p.2 then fixup h (node i k v h s p.1 r) else (node i k v h s p.1 r, false)

/-- coming back from the right child -/
def goR (i : Nat) (k : K) (v : Int) (h : Nat) (s : Int) (l : Tree K) (p : Tree K × Bool) : Tree K × Bool :=
  if p.2 then fixup h (node i k v h s l p.1) else (node i k v h s l p.1, false)

/-! ### insert -/

/-- private `Map::insert(cell, parent, key, value)` -/
def ins (newId : Nat) (k : K) (v : Int) : Tree K → Tree K × Bool
  | nil => (node newId k v 1 0 nil nil, true)
  | node i k' v' h s l r =>
    if k > k' then goR i k' v' h s l (ins newId k v r)
    else if k < k' then goL i k' v' h s r (ins newId k v l)
    else (node i k' v h s l r, false)

/-- private `MultiMap::insert(cell, parent, key, value)`: `key < position->key` left, else right -/
def insM (newId : Nat) (k : K) (v : Int) : Tree K → Tree K × Bool
  | nil => (node newId k v 1 0 nil nil, true)
  | node i k' v' h s l r =>
    if k < k' then goL i k' v' h s r (insM newId k v l)
    else goR i k' v' h s l (insM newId k v r)

def land (k : K) : Option (Nat × Bool) → Tree K → Landing
  | c, nil => .leaf c
  | _, node i k' _ _ _ l r =>
    if k > k' then land k (some (i, true)) r
    else if k < k' then land k (some (i, false)) l
    else .found i

def landM (k : K) : Option (Nat × Bool) → Tree K → Landing
  | c, nil => .leaf c
  | _, node i k' _ _ _ l r =>
    if k < k' then landM k (some (i, false)) l
    else landM k (some (i, true)) r

/-- comparisons of the Map descent (`>` first, then `<`) -/
def insCmps (k : K) : Tree K → Nat
  | nil => 0
  | node _ k' _ _ _ l r =>
    if k > k' then 1 + insCmps k r
    else if k < k' then 2 + insCmps k l
    else 2

/-- comparisons of the MultiMap descent (one `<` per level) -/
def insMCmps (k : K) : Tree K → Nat
  | nil => 0
  | node _ k' _ _ _ l r => if k < k' then 1 + insMCmps k l else 1 + insMCmps k r

/-- hinted insert: go to the item at in-order position `idx` (the hint), run the private insert
    `f` in its left / right cell, and let the upward loop run on towards the root -/
def insAt (f : Tree K → Tree K × Bool) (right : Bool) (idx : Nat) : Tree K → Tree K × Bool
  | nil => (nil, false)
  | node i k v h s l r =>
    if idx < l.size then goL i k v h s r (insAt f right idx l)
    else if idx = l.size then
      (if right then goR i k v h s l (f r) else goL i k v h s r (f l))
    else goR i k v h s l (insAt f right (idx - l.size - 1) r)

/-- the subtree hanging in the left / right cell of the item at in-order position `idx` -/
def subAt (right : Bool) (idx : Nat) : Tree K → Tree K
  | nil => nil
  | node _ _ _ _ _ l r =>
    if idx < l.size then subAt right idx l
    else if idx = l.size then (if right then r else l)
    else subAt right (idx - l.size - 1) r

/-- `insertPos->value = value` for the item at in-order position `idx` -/
def setAt (v : Int) (idx : Nat) : Tree K → Tree K
  | nil => nil
  | node i k v' h s l r =>
    if idx < l.size then node i k v' h s (setAt v idx l) r
    else if idx = l.size then node i k v h s l r
    else node i k v' h s l (setAt v (idx - l.size - 1) r)

/-! ### remove -/

/-- unlink the in-order first item of a subtree (`next` of the removed item) and rebalance
    upwards with the early exit of the `rebalParent` loop -/
def popMin : Tree K → Option ((Nat × K × Int) × Tree K × Bool)
  | nil => none
  | node i k v h s l r =>
    match popMin l with
    | none => some ((i, k, v), r, true)
    | some (m, p) => some (m, goL i k v h s r p)

def popMax : Tree K → Option ((Nat × K × Int) × Tree K × Bool)
  | nil => none
  | node i k v h s l r =>
    match popMax r with
    | none => some ((i, k, v), l, true)
    | some (m, p) => some (m, goR i k v h s l p)

/-- `remove(it)` at the cell of the item -/
def removeRoot : Tree K → Tree K
  | nil => nil
  | node _ _ _ _ _ nil nil => nil
  | node _ _ _ _ _ nil r => r
  | node _ _ _ _ _ l nil => l
  | node _ _ _ h s l r =>
    if l.ht < r.ht then
      match popMin r with
      | some ((mi, mk, mv), r', _) => rebal (upd (node mi mk mv h s l r'))
      | none => nil
    else
      match popMax l with
      | some ((mi, mk, mv), l', _) => rebal (upd (node mi mk mv h s l' r))
      | none => nil

/-- `remove(it)` for the item at in-order position `idx` -/
def delIdx (idx : Nat) : Tree K → Tree K × Bool
  | nil => (nil, false)
  | node i k v h s l r =>
    if idx < l.size then goL i k v h s r (delIdx idx l)
    else if idx = l.size then (removeRoot (node i k v h s l r), true)
    else goR i k v h s l (delIdx (idx - l.size - 1) r)

/-! ### find -/

/-- `Map::find`: in-order position of the item found -/
def findIdx (k : K) : Tree K → Option Nat
  | nil => none
  | node _ k' _ _ _ l r =>
    if k > k' then (findIdx k r).map (fun j => l.size + 1 + j)
    else if k < k' then findIdx k l
    else some l.size

/-- comparisons made by `Map::find` -/
def findCmps (k : K) : Tree K → Nat
  | nil => 0
  | node _ k' _ _ _ l r =>
    if k > k' then 1 + findCmps k r
    else if k < k' then 2 + findCmps k l
    else 2

/-- `MultiMap::find` (repaired): `res` is the `result` variable, `off` the number of items to
    the left of the current subtree -/
def findMLoop (k : K) (res : Option Nat) (off : Nat) : Tree K → Option Nat
  | nil => res
  | node _ k' _ _ _ l r =>
    if k > k' then findMLoop k res (off + l.size + 1) r
    else findMLoop k (if k < k' then res else some (off + l.size)) off l

def findMIdx (k : K) (t : Tree K) : Option Nat := findMLoop k none 0 t

def findMCmps (k : K) : Tree K → Nat
  | nil => 0
  | node _ k' _ _ _ l r =>
    if k > k' then 1 + findMCmps k r else 2 + findMCmps k l

end Tree

open Nstd.Avl.G.Tree

/-! ### the container -/

structure St (K : Type) where
  multi : Bool
  t : Tree K := .nil
  order : List Nat := []
  size : Nat := 0
  free : List Nat := []
  blocks : Nat := 0

def St.init (multi : Bool) : St K := { multi := multi }

/-- take an item from the free list, allocating a block of 4 when it is empty -/
def St.alloc (s : St K) : Nat × St K :=
  match s.free with
  | i :: rest => (i, { s with free := rest })
  | [] =>
    match blockItems (ipbOf s.multi * s.blocks) (ipbOf s.multi) with
    | i :: rest => (i, { s with free := rest, blocks := s.blocks + 1 })
    | [] => (0, { s with blocks := s.blocks + 1 })   -- a block of zero items: the translator refuses that

inductive Op (K : Type) where
  | insert (k : K) (v : Int)
  | insertAt (p : Nat) (k : K) (v : Int)
  | removeKey (k : K)
  | removeAt (p : Nat)
  | removeFront
  | removeBack
  | clear
  | find (k : K)
  | contains (k : K)
  | count (k : K)
  | front
  | back

/-- the private insert started in cell `cell` whose content is `sub`; `mk` builds the new tree
    from the id of the new item -/
def St.insertIn (s : St K) (k : K) (cell : Option (Nat × Bool)) (sub : Tree K)
    (mk : Nat → Tree K) (c0 : Nat) : St K × Out :=
  let ld := if s.multi then landM k cell sub else land k cell sub
  let c := c0 + (if s.multi then insMCmps k sub else insCmps k sub)
  match ld with
  | .found id =>
    let t' := mk 0
    ({ s with t := t' }, ⟨.it (idxOf id s.order), c⟩)
  | .leaf p =>
    let (id, s1) := s.alloc
    let order' := threadIn s.order id p
    ({ s1 with t := mk id, order := order', size := s.size + 1 }, ⟨.it (idxOf id order'), c⟩)

def St.insSub (s : St K) (id : Nat) (k : K) (v : Int) : Tree K → Tree K × Bool :=
  if s.multi then insM id k v else ins id k v

/-- `insert(key, value)` = `insert(&root, 0, key, value)` -/
def St.insertRoot (s : St K) (k : K) (v : Int) (c0 : Nat) : St K × Out :=
  s.insertIn k none s.t (fun id => (s.insSub id k v s.t).1) c0

/-- `insert(&hint->left/right, hint, key, value)` for the hint at position `idx` -/
def St.insertUnder (s : St K) (right : Bool) (idx : Nat) (hintId : Nat) (k : K) (v : Int) (c0 : Nat) : St K × Out :=
  s.insertIn k (some (hintId, right)) (subAt right idx s.t)
    (fun id => (insAt (s.insSub id k v) right idx s.t).1) c0

/-- `insert(position, key, value)`; `p = size` is `end()` (Map.hpp:123-153, MultiMap.hpp:117-140) -/
def St.insertAt (s : St K) (p : Nat) (k : K) (v : Int) : Option (St K × Out) :=
  let es := s.t.inorder
  if p = s.size then
    match es.getLast? with
    | some (pi, pk, _) =>
      if k > pk then some (s.insertUnder true (s.size - 1) pi k v 1) else some (s.insertRoot k v 1)
    | none => some (s.insertRoot k v 0)
  else
    match es[p]? with
    | none => none
    | some (hi, hk, _) =>
      let prev := if p = 0 then none else es[p - 1]?
      let next := es[p + 1]?
      if s.multi then
        if k < hk then
          match prev with
          | none => some (s.insertUnder false p hi k v 1)
          | some (_, pk, _) =>
            if k ≥ pk then some (s.insertUnder false p hi k v 2) else some (s.insertRoot k v 2)
        else
          match next with
          | none => some (s.insertUnder true p hi k v 1)
          | some (_, nk, _) =>
            if k ≤ nk then some (s.insertUnder true p hi k v 2) else some (s.insertRoot k v 2)
      else
        if k < hk then
          match prev with
          | none => some (s.insertUnder false p hi k v 1)
          | some (_, pk, _) =>
            if k > pk then some (s.insertUnder false p hi k v 2) else some (s.insertRoot k v 2)
        else if k > hk then
          match next with
          | none => some (s.insertUnder true p hi k v 2)
          | some (_, nk, _) =>
            if k < nk then some (s.insertUnder true p hi k v 3) else some (s.insertRoot k v 3)
        else
          some ({ s with t := setAt v p s.t }, ⟨.it p, 2⟩)

/-- `remove(it)` for the iterator at position `p < size` -/
def St.removeAt (s : St K) (p : Nat) (c0 : Nat) : Option (St K × Out) :=
  match s.order[p]? with
  | none => none
  | some id =>
    some ({ s with t := (delIdx p s.t).1, order := s.order.eraseIdx p, size := s.size - 1,
                   free := id :: s.free }, ⟨.it p, c0⟩)

def St.findIdx (s : St K) (k : K) : Option Nat :=
  if s.multi then Tree.findMIdx k s.t else Tree.findIdx k s.t

def St.findCmps (s : St K) (k : K) : Nat :=
  if s.multi then Tree.findMCmps k s.t else Tree.findCmps k s.t

/-- the `==` walk of `MultiMap::count` (repaired) over the items after the one found:
    returns (equal keys seen, comparisons made) -/
def countWalk (k : K) : List (Nat × K × Int) → Nat × Nat
  | [] => (0, 0)
  | (_, k', _) :: rest =>
    if k' = k then let (n, c) := countWalk k rest; (n + 1, c + 1) else (0, 1)

def St.valueOf (s : St K) (id : Nat) : Option Int :=
  (s.t.inorder.find? (fun e => e.1 == id)).map (fun e => e.2.2)

def step (s : St K) : Op K → Option (St K × Out)
  | .insert k v => some (s.insertRoot k v 0)
  | .insertAt p k v => if p ≤ s.size then s.insertAt p k v else none
  | .removeKey k =>
    match s.findIdx k with
    | some p => (s.removeAt p (s.findCmps k)).map (fun r => (r.1, ⟨.none, r.2.cmps⟩))
    | none => some (s, ⟨.none, s.findCmps k⟩)
  | .removeAt p => s.removeAt p 0
  | .removeFront => s.removeAt 0 0
  | .removeBack => if s.size = 0 then none else s.removeAt (s.size - 1) 0
  | .clear =>
    some ({ s with t := .nil, order := [], size := 0, free := s.order.reverse ++ s.free }, ⟨.none, 0⟩)
  | .find k =>
    some (s, ⟨.it ((s.findIdx k).getD s.size), s.findCmps k⟩)
  | .contains k => some (s, ⟨.bool (s.findIdx k).isSome, s.findCmps k⟩)
  | .count k =>
    if s.multi then
      match s.findIdx k with
      | none => some (s, ⟨.num 0, s.findCmps k⟩)
      | some p =>
        let (n, c) := countWalk k (s.t.inorder.drop (p + 1))
        some (s, ⟨.num (n + 1), s.findCmps k + c⟩)
    else none
  | .front =>
    match s.order.head? with
    | some id => some (s, ⟨.val (s.valueOf id), 0⟩)
    | none => none
  | .back =>
    match s.order.getLast? with
    | some id => some (s, ⟨.val (s.valueOf id), 0⟩)
    | none => none

/-- iteration `begin() .. end()`: walks the prev/next list -/
def St.iter (s : St K) : List (K × Int) :=
  s.order.filterMap (fun id => (s.t.inorder.find? (fun e => e.1 == id)).map (fun e => e.2))

/-- an op the container rejects leaves the state unchanged -/
def step' (s : St K) (op : Op K) : St K :=
  match step s op with
  | some r => r.1
  | none => s

def run (multi : Bool) (ops : List (Op K)) : St K := ops.foldl step' (St.init multi)

