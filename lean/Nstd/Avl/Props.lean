import Nstd.Avl.LemmasHintM2
import Nstd.Avl.LemmasHeight
/-
  Property C01 — Map and MultiMap stay sorted, complete and logarithmically deep.

  `run multi ops` is the state of the model (Model.lean) of `Map` (`multi = false`) or `MultiMap`
  (`multi = true`) after the operation history `ops` (any list of plain / hinted inserts, removals
  by key / iterator, removeFront/removeBack, clear, lookups; an operation the container rejects
  leaves the state unchanged).  `abs s` is the in-order sequence of keys/values of the tree.
  All theorems quantify over every history, i.e. over every reachable tree shape.
-/
namespace Nstd.Avl
open Tree

/-- the invariant of a container state: balanced search tree with correct stored fields -/
structure Inv (s : St) : Prop where
  /-- AVL balance, and every stored `height` / `slope` field is the real one -/
  avl : Avl s.t
  /-- search tree: keys ascend in in-order sequence (strictly for Map) -/
  sorted : if s.multi then SortedW s.t.inorder else SortedS s.t.inorder
  /-- the `_size` counter -/
  size : s.size = s.t.size
  /-- the prev/next list (what iterators walk) is the in-order sequence of the items of the tree -/
  order : s.order = ids s.t
  /-- item ids (addresses) are pairwise distinct and none of them is on the free list -/
  nodup : (ids s.t ++ s.free).Nodup

theorem invT_run (multi : Bool) (ops : List Op) : InvT (run multi ops) ∧ (run multi ops).multi = multi := by
  unfold run
  suffices h : ∀ s, InvT s → InvT (ops.foldl step' s) ∧ (ops.foldl step' s).multi = s.multi from
    h _ (invT_init multi)
  induction ops with
  | nil => intro s hs; exact ⟨hs, rfl⟩
  | cons op ops ih =>
    intro s hs
    simp only [List.foldl_cons]
    have : InvT (step' s op) ∧ (step' s op).multi = s.multi := by
      unfold step'
      cases h : step s op with
      | none => exact ⟨hs, rfl⟩
      | some r => exact step_invT s hs op r h
    obtain ⟨h1, h2⟩ := ih _ this.1
    exact ⟨h1, by rw [h2, this.2]⟩

theorem invO_run (multi : Bool) (ops : List Op) : InvO (run multi ops) := by
  unfold run
  suffices h : ∀ s, InvT s → InvO s → InvO (ops.foldl step' s) from h _ (invT_init multi) (invO_init multi)
  induction ops with
  | nil => intro s _ hs; exact hs
  | cons op ops ih =>
    intro s hI hO
    simp only [List.foldl_cons]
    have : InvT (step' s op) ∧ InvO (step' s op) := by
      unfold step'
      cases h : step s op with
      | none => exact ⟨hI, hO⟩
      | some r => exact ⟨(step_invT s hI op r h).1, step_invO s hI hO op r h⟩
    exact ih _ this.1 this.2

/-- **Invariant.**  After any history the tree is an AVL-balanced search tree whose stored
    height/slope fields are correct, the size counter is the number of entries and the prev/next
    list threads exactly the in-order sequence of the tree. -/
theorem inv_run (multi : Bool) (ops : List Op) : Inv (run multi ops) := by
  obtain ⟨h, hm⟩ := invT_run multi ops
  have hO := invO_run multi ops
  refine ⟨h.avl, ?_, h.size, hO.order, hO.nodup⟩
  cases multi with
  | false => rw [hm]; exact h.sortedS hm
  | true => rw [hm]; exact h.sortedW

/-- **Iteration** `begin() … end()` (a walk over the prev/next list) yields the in-order
    sequence of the tree — so everything said about `abs` below is about what iterators see. -/
theorem iter_run (multi : Bool) (ops : List Op) : (run multi ops).iter = abs (run multi ops) :=
  iter_eq_abs _ (invO_run multi ops)

/-- Map iterates strictly ascending keys -/
theorem sorted_run_map (ops : List Op) : (abs (run false ops)).Pairwise (fun a b => a.1 < b.1) := by
  obtain ⟨h, hm⟩ := invT_run false ops
  have := h.sortedS hm
  unfold SortedS at this
  simp only [abs, kv, List.pairwise_map]
  exact this

/-- MultiMap iterates ascending keys -/
theorem sorted_run_multi (ops : List Op) : (abs (run true ops)).Pairwise (fun a b => a.1 ≤ b.1) := by
  obtain ⟨h, _⟩ := invT_run true ops
  have := h.sortedW
  unfold SortedW at this
  simp only [abs, kv, List.pairwise_map]
  exact this

/-- an op covered by the deterministic part of the specification: everything except the hinted
    insert of a MultiMap (whose position inside a run of equal keys the code leaves to the tree shape) -/
def Op.det (multi : Bool) : Op → Bool
  | .insertAt _ _ _ => !multi
  | _ => true

/-- the specification run: a rejected op leaves the list unchanged -/
def Spec.run (multi : Bool) (ops : List Op) : List Spec.KV :=
  ops.foldl (fun xs op => match Spec.stepF multi xs op with | some r => r.1 | none => xs) []

/-- **Refinement, one step from any reachable state**: the op is accepted iff the specification
    accepts it, the contents follow the specification, and the returned value (iterator position,
    `contains`, `count`, `front`/`back` value) is the specified one. -/
theorem refines_step (multi : Bool) (ops : List Op) (op : Op) (hd : op.det multi = true) :
    match step (run multi ops) op with
    | some r => ∃ xs' ret, Spec.stepF multi (abs (run multi ops)) op = some (xs', ret) ∧ abs r.1 = xs' ∧
                  r.2.ret = ret
    | none => Spec.stepF multi (abs (run multi ops)) op = none := by
  obtain ⟨h, hm⟩ := invT_run multi ops
  have := step_full (run multi ops) h (invO_run multi ops) op (by
    intro p k v ⟨h1, h2⟩
    rw [hm] at h1; subst h1; subst h2
    simp [Op.det] at hd)
  rw [hm] at this
  exact this

/-- **Refinement of the contents**: the in-order sequence of the tree after any history of
    deterministic ops is the reference sorted list after the same history. -/
theorem refines (multi : Bool) (ops : List Op) (hd : ∀ op ∈ ops, op.det multi = true) :
    abs (run multi ops) = Spec.run multi ops := by
  unfold run Spec.run
  suffices h : ∀ s, InvT s → s.multi = multi →
      abs (ops.foldl step' s) = ops.foldl (fun xs op => match Spec.stepF multi xs op with | some r => r.1 | none => xs) (abs s) from
    h _ (invT_init multi) rfl
  induction ops with
  | nil => intro s _ _; rfl
  | cons op ops ih =>
    intro s hs hm
    simp only [List.foldl_cons]
    have hdo := hd op (by simp)
    have hsp := step_spec s hs op (by
      intro p k v ⟨h1, h2⟩
      rw [hm] at h1; subst h1; subst h2
      simp [Op.det] at hdo)
    have hst : InvT (step' s op) ∧ (step' s op).multi = s.multi := by
      unfold step'
      cases h : step s op with
      | none => exact ⟨hs, rfl⟩
      | some r => exact step_invT s hs op r h
    rw [ih (fun o ho => hd o (by simp [ho])) _ hst.1 (by rw [hst.2, hm])]
    congr 1
    unfold step'
    rw [hm] at hsp
    cases h : step s op with
    | none => rw [h] at hsp; simp only at hsp; rw [hsp]
    | some r =>
      rw [h] at hsp
      obtain ⟨xs', ret, h1, h2, _⟩ := hsp
      rw [h1]; exact h2

/-- **MultiMap hinted insert** `insert(position p, k, v)` from any reachable state: accepted iff
    `p ≤ size`; the entry is inserted at a position `q` allowed by `Spec.HintPos` (directly in front of
    the hint if `prev.key ≤ k < hint.key`; directly behind it if `hint.key ≤ k < next.key` or the hint
    is the last entry; behind the hint inside the run of keys equal to `k` if `k = next.key`; otherwise
    where a plain insert puts it) and the returned iterator is that position. -/
theorem refines_hint_multi (ops : List Op) (p : Nat) (k v : Int) (hp : p ≤ (run true ops).size) :
    ∃ r q, step (run true ops) (.insertAt p k v) = some r ∧
      abs r.1 = (abs (run true ops)).take q ++ (k, v) :: (abs (run true ops)).drop q ∧
      Spec.HintPos (abs (run true ops)) p k q ∧ r.2.ret = .it q := by
  obtain ⟨h, hm⟩ := invT_run true ops
  obtain ⟨r, q, h1, h2, h3, h4⟩ := insertAt_multi_spec _ h (invO_run true ops) hm p k v hp
  exact ⟨r, q, by simp only [step, hp, if_true]; exact h1, h2, h3, h4⟩

/-- the observable outcome of a step: `none` = rejected, else (contents after, returned value) -/
def outcome (s : St) (op : Op) : Option (List Spec.KV × Ret) :=
  (step s op).map (fun r => (abs r.1, r.2.ret))

/-- **Refinement, complete**: from every reachable state every op — including the hinted MultiMap
    insert — takes a step of the specification `Spec.Step`. -/
theorem refines_rel (multi : Bool) (ops : List Op) (op : Op) :
    Spec.Step multi (abs (run multi ops)) op (outcome (run multi ops) op) := by
  obtain ⟨h, hm⟩ := invT_run multi ops
  cases hd : op.det multi with
  | true =>
    have hdet : ∀ p k v, ¬ (multi = true ∧ op = .insertAt p k v) := by
      intro p k v ⟨h1, h2⟩; subst h1; subst h2; simp [Op.det] at hd
    have := refines_step multi ops op hd
    have e : outcome (run multi ops) op = Spec.stepF multi (abs (run multi ops)) op := by
      unfold outcome
      cases hs : step (run multi ops) op with
      | none => rw [hs] at this; simp only at this; rw [this]; rfl
      | some r =>
        rw [hs] at this
        obtain ⟨xs', ret, h1, h2, h3⟩ := this
        rw [h1, ← h2, ← h3]; rfl
    rw [e]; exact Spec.Step.det op hdet
  | false =>
    cases op with
    | insertAt p k v =>
      have hmt : multi = true := by cases multi <;> simp [Op.det] at hd ⊢
      subst hmt
      have hlen := abs_length _ h
      by_cases hp : p ≤ (run true ops).size
      · obtain ⟨r, q, h1, h2, h3, h4⟩ := refines_hint_multi ops p k v hp
        have e : outcome (run true ops) (.insertAt p k v)
            = some ((abs (run true ops)).take q ++ (k, v) :: (abs (run true ops)).drop q, .it q) := by
          unfold outcome; rw [h1]; simp only [Option.map_some]; rw [h2, h4]
        rw [e]; exact Spec.Step.hint p k v q rfl (by omega) h3
      · have e : outcome (run true ops) (.insertAt p k v) = none := by
          unfold outcome; simp only [step, hp, if_false, Option.map_none]
        rw [e]; exact Spec.Step.hintReject p k v rfl (by omega)
    | insert k v => simp [Op.det] at hd
    | removeKey k => simp [Op.det] at hd
    | removeAt p => simp [Op.det] at hd
    | removeFront => simp [Op.det] at hd
    | removeBack => simp [Op.det] at hd
    | clear => simp [Op.det] at hd
    | find k => simp [Op.det] at hd
    | contains k => simp [Op.det] at hd
    | count k => simp [Op.det] at hd
    | front => simp [Op.det] at hd
    | back => simp [Op.det] at hd

/-- **Lookup cost**: `find` makes at most two key comparisons per level of the tree. -/
theorem find_cost (multi : Bool) (ops : List Op) (k : Int) :
    (run multi ops).findCmps k ≤ 2 * (run multi ops).t.height := by
  unfold St.findCmps
  split
  · exact findMCmps_le k _
  · exact findCmps_le k _

/-- **Height bound**: `height ≤ 1.4405·log2(n+2)`, written without reals
    (`h ≤ 1.4405·log2(n+2)  ⇔  2^(h/1.4405) ≤ n+2  ⇔  2^(10000 h) ≤ (n+2)^14405`). -/
theorem height_log (multi : Bool) (ops : List Op) :
    2 ^ (10000 * (run multi ops).t.height) ≤ ((run multi ops).size + 2) ^ 14405 := by
  obtain ⟨h, _⟩ := invT_run multi ops
  rw [h.size]
  exact Tree.height_log _ h.avl

/-- `H = ⌊1.4405·log2(n+2)⌋`, characterised without reals -/
def IsLogBound (n H : Nat) : Prop :=
  2 ^ (10000 * H) ≤ (n + 2) ^ 14405 ∧ (n + 2) ^ 14405 < 2 ^ (10000 * (H + 1))

/-- **The property's sentence**: finding any key among `n` entries needs at most
    `2·⌊1.4405·log2(n+2)⌋` key comparisons — for every history and every key. -/
theorem find_cost_log (multi : Bool) (ops : List Op) (k : Int) (H : Nat)
    (hH : IsLogBound (run multi ops).size H) : (run multi ops).findCmps k ≤ 2 * H := by
  have h1 := find_cost multi ops k
  have h2 := height_log multi ops
  have h3 : 2 ^ (10000 * (run multi ops).t.height) < 2 ^ (10000 * (H + 1)) := Nat.lt_of_le_of_lt h2 hH.2
  have h4 := (Nat.pow_lt_pow_iff_right (by omega : 1 < 2)).mp h3
  omega

/-- the comparison count the `find` op of the model reports is the one bounded above -/
theorem find_op_cmps (s : St) (k : Int) : ∃ r, step s (.find k) = some r ∧ r.2.cmps = s.findCmps k :=
  ⟨_, rfl, rfl⟩

/-- **MultiMap::count** (with fixes/avl/01+02) equals the number of entries with that key. -/
theorem count_correct (ops : List Op) (k : Int) :
    ∃ r, step (run true ops) (.count k) = some r ∧ r.2.ret = .num (Spec.count k (abs (run true ops))) ∧
      r.1 = run true ops := by
  have := refines_step true ops (.count k) rfl
  have hm := (invT_run true ops).2
  cases h : step (run true ops) (.count k) with
  | none => rw [h] at this; simp [Spec.stepF] at this
  | some r =>
    rw [h] at this
    obtain ⟨xs', ret, h1, h2, h3⟩ := this
    simp only [Spec.stepF, if_true, Option.some.injEq, Prod.mk.injEq] at h1
    refine ⟨r, rfl, ?_, ?_⟩
    · rw [h3, ← h1.2]
    · simp only [step, hm, if_true] at h
      split at h <;> (simp only [Option.some.injEq] at h; rw [← h])

/-- **MultiMap stability**: a plain insert puts the entry behind every entry with a key `≤ k`
    (in particular behind all equal keys inserted before) and in front of every larger key. -/
theorem multi_insert_stable (ops : List Op) (k v : Int) :
    ∃ a b, abs (run true ops) = a ++ b ∧
      abs (run true (ops ++ [.insert k v])) = a ++ (k, v) :: b ∧
      (∀ e ∈ a, e.1 ≤ k) ∧ (∀ e ∈ b, k < e.1) := by
  have hs := sorted_run_multi ops
  have hr : abs (run true (ops ++ [.insert k v])) = Spec.insertMulti k v (abs (run true ops)) := by
    have h := (invT_run true ops)
    have := insertRoot_abs (run true ops) h.1 k v 0
    rw [h.2] at this
    simp only [if_true] at this
    rw [← this]
    simp [run, step', step]
  rw [hr]
  generalize abs (run true ops) = xs at hs
  induction xs with
  | nil => exact ⟨[], [], rfl, rfl, by simp, by simp⟩
  | cons e es ih =>
    rw [List.pairwise_cons] at hs
    simp only [Spec.insertMulti]
    by_cases h1 : k < e.1
    · rw [if_pos h1]
      refine ⟨[], e :: es, rfl, rfl, by simp, ?_⟩
      intro x hx
      rcases List.mem_cons.mp hx with hx | hx
      · rw [hx]; exact h1
      · have := hs.1 x hx; omega
    · rw [if_neg h1]
      obtain ⟨a, b, e1, e2, e3, e4⟩ := ih hs.2
      refine ⟨e :: a, b, by rw [e1]; rfl, by rw [e2]; rfl, ?_, e4⟩
      intro x hx
      rcases List.mem_cons.mp hx with hx | hx
      · rw [hx]; omega
      · exact e3 x hx

/-! ### non-vacuity: concrete reachable states -/

/-- a 7-entry Map built through plain + hinted inserts and a two-child removal -/
def sampleOps : List Op :=
  [.insert 4 40, .insert 2 20, .insert 6 60, .insert 1 10, .insertAt 2 3 30, .insert 5 50,
   .insertAt 6 7 70, .insert 8 80, .removeKey 4]

example : abs (run false sampleOps) = [(1, 10), (2, 20), (3, 30), (5, 50), (6, 60), (7, 70), (8, 80)] := by
  decide +kernel
example : (run false sampleOps).t.height = 3 ∧ (run false sampleOps).size = 7 := by decide +kernel
example : ∀ op ∈ sampleOps, op.det false = true := by decide
/-- `⌊1.4405·log2(7+2)⌋ = 4` -/
example : IsLogBound 7 4 := by
  unfold IsLogBound
  constructor <;> decide +kernel
example : abs (run true [.insert 5 1, .insert 5 2, .insert 3 9, .insert 5 3]) = [(3, 9), (5, 1), (5, 2), (5, 3)] := by
  decide +kernel
example : ∃ r, step (run true [.insert 5 1, .insert 5 2, .insert 5 3]) (.count 5) = some r ∧ r.2.ret = .num 3 :=
  ⟨_, rfl, by decide +kernel⟩

end Nstd.Avl
