import Nstd.Avl.LemmasStable
import Nstd.Avl.LemmasInvariance
/-
  Property C01 — Map and MultiMap stay sorted, complete and logarithmically deep.

  `run multi ops` is the state of the model (Model.lean) of `Map` (`multi = false`) or `MultiMap`
  (`multi = true`) after the operation history `ops` (any list of plain / hinted inserts, removals
  by key / iterator, removeFront/removeBack, clear, lookups; an operation the container rejects
  leaves the state unchanged).  `Reach multi s` additionally closes the reachable states under
  copy construction / copy assignment (Map and MultiMap) and bulk insert between two Maps.  `abs s` is the in-order sequence of
  keys/values of the tree; `iter_run` shows it is what iteration `begin()…end()` yields.
  All theorems quantify over every history, i.e. over every reachable tree shape; keys are `Int`
  (PropsK.lean: any strictly totally ordered key type).

  The exact item ids / free-list order are modelled and compared with the real code by the
  thorough correspondence run (white-box dump); the theorems only need them distinct.  Out of scope of C01: self-assignment (C04), allocation failure.
-/
namespace Nstd.Avl
open Tree

/-- the invariant of a container state: balanced search tree with correct stored fields -/
structure Inv (s : St) : Prop where
  /-- AVL balance, and every stored `height` / `slope` field is the real one -/
  avl : Avl s.t
  /-- search tree: keys ascend in in-order sequence (strictly for Map) -/
  sorted : if s.multi then SortedW s.t.inorder else SortedS s.t.inorder
  /-- the `_size` counter -/
  size : s.size = s.t.size
  /-- the prev/next list (what iterators walk) is the in-order sequence of the items of the tree -/
  order : s.order = ids s.t
  /-- item ids (addresses) are pairwise distinct and none of them is on the free list -/
  nodup : (ids s.t ++ s.free).Nodup

/-- states reachable by histories over several containers: ops on one container, copy construction
    and copy assignment `dst = src` between two containers of the same kind (Map or MultiMap), and
    bulk insert `dst.insert(src)` between two Maps (MultiMap has no bulk insert) -/
inductive Reach : Bool → St → Prop
  | init (m : Bool) : Reach m (St.init m)
  | step {m : Bool} {s : St} (op : Op) : Reach m s → Reach m (step' s op)
  | assign {m : Bool} {d s : St} : Reach m d → Reach m s → Reach m (d.assignFrom s).1
  | copy {m : Bool} {s : St} : Reach m s → Reach m ((St.init m).assignFrom s).1
  | insertAll {d s : St} : Reach false d → Reach false s → Reach false (d.insertAll s).1

theorem reach_run (multi : Bool) (ops : List Op) : Reach multi (run multi ops) := by
  unfold run
  suffices h : ∀ s, Reach multi s → Reach multi (ops.foldl step' s) from h _ (Reach.init multi)
  induction ops with
  | nil => intro s hs; exact hs
  | cons op ops ih => intro s hs; exact ih _ (Reach.step op hs)

theorem invs_reach {multi : Bool} {s : St} (hr : Reach multi s) : InvT s ∧ InvO s ∧ s.multi = multi := by
  induction hr with
  | init m => exact ⟨invT_init m, invO_init m, rfl⟩
  | step op _ ih =>
    obtain ⟨hI, hO, hm⟩ := ih
    unfold step'
    rename_i s0 _
    cases h : step s0 op with
    | none => exact ⟨hI, hO, hm⟩
    | some r => exact ⟨(step_invT _ hI op r h).1, step_invO _ hI hO op r h, by rw [(step_invT _ hI op r h).2, hm]⟩
  | assign _ _ ihd ihs =>
    rename_i m d s _ _
    cases m with
    | false =>
      obtain ⟨a1, a2, _, a4⟩ := assign_spec _ _ ihd.1 ihd.2.1 ihd.2.2 ihs.1 ihs.2.1 ihs.2.2
      exact ⟨a1, a2, a4⟩
    | true =>
      obtain ⟨a1, a2, _, a4⟩ := assign_specM _ _ ihd.1 ihd.2.1 ihd.2.2 ihs.1 ihs.2.1
      exact ⟨a1, a2, a4⟩
  | copy _ ihs =>
    rename_i m s _
    cases m with
    | false =>
      obtain ⟨a1, a2, _, a4⟩ := assign_spec _ _ (invT_init false) (invO_init false) rfl ihs.1 ihs.2.1 ihs.2.2
      exact ⟨a1, a2, a4⟩
    | true =>
      obtain ⟨a1, a2, _, a4⟩ := assign_specM _ _ (invT_init true) (invO_init true) rfl ihs.1 ihs.2.1
      exact ⟨a1, a2, a4⟩
  | insertAll _ _ ihd ihs =>
    obtain ⟨a1, a2, _, a4⟩ := insertAll_spec _ _ ihd.1 ihd.2.1 ihd.2.2 ihs.2.1
    exact ⟨a1, a2, a4⟩

/-- **Invariant.**  After any history — also across containers — the tree is an AVL-balanced
    search tree whose stored height/slope fields are correct, the size counter is the number of
    entries and the prev/next list threads exactly the in-order sequence of the tree. -/
theorem inv_reach {multi : Bool} {s : St} (hr : Reach multi s) : Inv s := by
  obtain ⟨h, hO, hm⟩ := invs_reach hr
  refine ⟨h.avl, ?_, h.size, hO.order, hO.nodup⟩
  cases multi with
  | false => rw [hm]; exact h.sortedS hm
  | true => rw [hm]; exact h.sortedW

/-- the invariant for the histories of one container -/
theorem inv_run (multi : Bool) (ops : List Op) : Inv (run multi ops) := inv_reach (reach_run multi ops)

/-- **Iteration** `begin() … end()` (a walk over the prev/next list) yields the in-order
    sequence of the tree — so everything said about `abs` below is about what iterators see. -/
theorem iter_reach {multi : Bool} {s : St} (hr : Reach multi s) : s.iter = abs s :=
  iter_eq_abs _ (invs_reach hr).2.1

theorem iter_run (multi : Bool) (ops : List Op) : (run multi ops).iter = abs (run multi ops) :=
  iter_reach (reach_run multi ops)

/-- walking the `prev` links from `end()` back to `begin()` (iterator `--`) yields the contents in reverse -/
theorem iter_backward_reach {multi : Bool} {s : St} (hr : Reach multi s) :
    s.order.reverse.filterMap (fun id => (s.t.inorder.find? (fun e => e.1 == id)).map (fun e => e.2)) = (abs s).reverse := by
  rw [List.filterMap_reverse]
  have := iter_reach hr
  unfold St.iter at this
  rw [this]

/-- Reading the `p`-th item through the prev/next list (what the code does with `position.item`,
    `->prev`, `->next`) gives the entry the model reads at in-order position `p` — the model's
    position-based reads in `insertAt` / `removeAt` are reads through the list. -/
theorem list_read_eq_inorder {multi : Bool} {s : St} (hr : Reach multi s) (p : Nat) :
    (s.order[p]?).bind (fun id => s.t.inorder.find? (fun e => e.1 == id)) = s.t.inorder[p]? := by
  obtain ⟨_, hO, _⟩ := invs_reach hr
  have hnd : (s.t.inorder.map (fun e => e.1)).Nodup := (List.nodup_append.mp hO.nodup).1
  rw [hO.order]
  unfold ids
  rw [List.getElem?_map]
  cases h : s.t.inorder[p]? with
  | none => rfl
  | some e =>
    simp only [Option.map_some, Option.bind_some]
    exact find_self _ hnd e (List.mem_of_getElem? h)

/-- `size()` is the number of entries iteration yields -/
theorem size_reach {multi : Bool} {s : St} (hr : Reach multi s) : s.size = (abs s).length :=
  (abs_length s (invs_reach hr).1).symm

/-- `isEmpty()` (`!root`) agrees with `size() == 0` and with an empty iteration -/
theorem isEmpty_reach {multi : Bool} {s : St} (hr : Reach multi s) :
    (s.t = .nil ↔ s.size = 0) ∧ (s.t = .nil ↔ abs s = []) := by
  have h := (inv_reach hr).size
  have hl := size_reach hr
  cases ht : s.t with
  | nil =>
    rw [ht] at h
    simp only [Tree.size] at h
    rw [h] at hl
    refine ⟨⟨fun _ => h, fun _ => rfl⟩, ⟨fun _ => List.eq_nil_of_length_eq_zero hl.symm, fun _ => rfl⟩⟩
  | node i k v hh sl l r =>
    rw [ht] at h
    simp only [Tree.size] at h
    refine ⟨⟨fun e => by simp at e, fun e => by omega⟩, ⟨fun e => by simp at e, fun e => ?_⟩⟩
    rw [e] at hl; simp at hl; omega

/-- Map iterates strictly ascending keys -/
theorem sorted_map {s : St} (hr : Reach false s) : (abs s).Pairwise (fun a b => a.1 < b.1) := by
  obtain ⟨h, _, hm⟩ := invs_reach hr
  have := h.sortedS hm
  unfold SortedS at this
  simp only [abs, kv, List.pairwise_map]
  exact this

/-- MultiMap iterates ascending keys -/
theorem sorted_multi {s : St} (hr : Reach true s) : (abs s).Pairwise (fun a b => a.1 ≤ b.1) := by
  obtain ⟨h, _, _⟩ := invs_reach hr
  have := h.sortedW
  unfold SortedW at this
  simp only [abs, kv, List.pairwise_map]
  exact this

theorem sorted_run_multi (ops : List Op) : (abs (run true ops)).Pairwise (fun a b => a.1 ≤ b.1) :=
  sorted_multi (reach_run true ops)

/-- the specification run: a rejected op leaves the list unchanged -/
def Spec.run (multi : Bool) (ops : List Op) : List Spec.KV :=
  ops.foldl (fun xs op => match Spec.stepF multi xs op with | some r => r.1 | none => xs) []

/-- **Refinement, one step from any reachable state**: the op is accepted iff the specification
    accepts it, the contents follow the specification, and the returned value (iterator position,
    `contains`, `count`, `front`/`back` value) is the specified one. -/
theorem refines_step {multi : Bool} {s : St} (hr : Reach multi s) (op : Op) (hd : op.det multi = true) :
    match step s op with
    | some r => ∃ xs' ret, Spec.stepF multi (abs s) op = some (xs', ret) ∧ abs r.1 = xs' ∧ r.2.ret = ret
    | none => Spec.stepF multi (abs s) op = none := by
  obtain ⟨hI, hO, hm⟩ := invs_reach hr
  exact g_refines_step multi s hI hO hm op hd

/-- **Refinement of the contents**: the in-order sequence of the tree after any history of
    deterministic ops is the reference sorted list after the same history. -/
theorem refines (multi : Bool) (ops : List Op) (hd : ∀ op ∈ ops, op.det multi = true) :
    abs (run multi ops) = Spec.run multi ops := by
  unfold run Spec.run
  suffices h : ∀ s, InvT s → s.multi = multi →
      abs (ops.foldl step' s) = ops.foldl (fun xs op => match Spec.stepF multi xs op with | some r => r.1 | none => xs) (abs s) from
    h _ (invT_init multi) rfl
  induction ops with
  | nil => intro s _ _; rfl
  | cons op ops ih =>
    intro s hs hm
    simp only [List.foldl_cons]
    have hdo := hd op (by simp)
    have hsp := step_spec s hs op (by
      intro p k v ⟨h1, h2⟩
      rw [hm] at h1; subst h1; subst h2
      simp [Op.det] at hdo)
    have hst : InvT (step' s op) ∧ (step' s op).multi = s.multi := by
      unfold step'
      cases h : step s op with
      | none => exact ⟨hs, rfl⟩
      | some r => exact step_invT s hs op r h
    rw [ih (fun o ho => hd o (by simp [ho])) _ hst.1 (by rw [hst.2, hm])]
    congr 1
    unfold step'
    rw [hm] at hsp
    cases h : step s op with
    | none => rw [h] at hsp; simp only at hsp; rw [hsp]
    | some r =>
      rw [h] at hsp
      obtain ⟨xs', ret, h1, h2, _⟩ := hsp
      rw [h1]; exact h2

/-- **MultiMap hinted insert** `insert(position p, k, v)` from any reachable state: accepted iff
    `p ≤ size`; the entry is inserted at a position `q` allowed by `Spec.HintPos` (directly in front of
    the hint if `prev.key ≤ k < hint.key`; directly behind it if `hint.key ≤ k < next.key` or the hint
    is the last entry; behind the hint inside the run of keys equal to `k` if `k = next.key`; otherwise
    where a plain insert puts it) and the returned iterator is that position. -/
theorem refines_hint_multi {s : St} (hr : Reach true s) (p : Nat) (k v : Int) (hp : p ≤ s.size) :
    ∃ r q, step s (.insertAt p k v) = some r ∧
      abs r.1 = (abs s).take q ++ (k, v) :: (abs s).drop q ∧
      Spec.HintPos (abs s) p k q ∧ r.2.ret = .it q := by
  obtain ⟨hI, hO, hm⟩ := invs_reach hr
  exact g_refines_hint_multi s hI hO hm p k v hp

/-- **Refinement, complete**: from every reachable state every op — including the hinted MultiMap
    insert — takes a step of the specification `Spec.Step` (`outcome` = rejected, or contents after
    the op and the returned value). -/
theorem refines_rel {multi : Bool} {s : St} (hr : Reach multi s) (op : Op) :
    Spec.Step multi (abs s) op (outcome s op) := by
  obtain ⟨hI, hO, hm⟩ := invs_reach hr
  exact g_refines_rel multi s hI hO hm op

/-- histories of the specification, started from the contents `xs` -/
inductive Spec.RunsFrom (multi : Bool) : List Spec.KV → List Op → List Spec.KV → Prop
  | nil (xs : List Spec.KV) : Spec.RunsFrom multi xs [] xs
  | cons {xs ys : List Spec.KV} {ops : List Op} (op : Op) (res : Option (List Spec.KV × Ret)) :
      Spec.Step multi xs op res →
      Spec.RunsFrom multi (match res with | some r => r.1 | none => xs) ops ys →
      Spec.RunsFrom multi xs (op :: ops) ys

/-- **Refinement of whole histories** (all ops, from any reachable state): the contents after
    running a history on the model are contents the specification reaches by the same history. -/
theorem refines_run_rel {multi : Bool} {s : St} (hr : Reach multi s) (ops : List Op) :
    Spec.RunsFrom multi (abs s) ops (abs (ops.foldl step' s)) := by
  induction ops generalizing s with
  | nil => exact Spec.RunsFrom.nil _
  | cons op ops ih =>
    have hstep := refines_rel hr op
    have e : abs (step' s op) = (match outcome s op with | some r => r.1 | none => abs s) := by
      unfold step' outcome
      cases step s op <;> rfl
    have := ih (Reach.step op hr)
    rw [e] at this
    exact Spec.RunsFrom.cons op _ hstep this

/-- **Copy**: after `dst = src` between two Maps or between two MultiMaps, `dst` holds exactly the
    entries of `src` — for a MultiMap equal keys in the same order. -/
theorem copy_spec {m : Bool} {d s : St} (hd : Reach m d) (hs : Reach m s) :
    abs (d.assignFrom s).1 = abs s := by
  obtain ⟨a1, a2, a3⟩ := invs_reach hd
  obtain ⟨b1, b2, b3⟩ := invs_reach hs
  cases m with
  | false => exact (assign_spec d s a1 a2 a3 b1 b2 b3).2.2.1
  | true => exact (assign_specM d s a1 a2 a3 b1 b2).2.2.1

/-- **Copy construction** `Map b(a)` / `MultiMap b(a)`: the same loop from a fresh container. -/
theorem copy_ctor_spec {m : Bool} {s : St} (hs : Reach m s) :
    abs ((St.init m).assignFrom s).1 = abs s :=
  copy_spec (Reach.init m) hs

/-- **Bulk insert**: after `dst.insert(src)` between two Maps, `dst` holds what plain inserts of
    all entries of `src` (in iteration order) into `dst` give. -/
theorem bulk_insert_spec {d s : St} (hd : Reach false d) (hs : Reach false s) :
    abs (d.insertAll s).1 = (abs s).foldl (fun acc e => Spec.insertMap e.1 e.2 acc) (abs d) := by
  obtain ⟨a1, a2, a3⟩ := invs_reach hd
  obtain ⟨_, b2, _⟩ := invs_reach hs
  exact (insertAll_spec d s a1 a2 a3 b2).2.2.1

/-- **Lookup cost**: `find` makes at most two key comparisons per level of the tree. -/
theorem find_cost {multi : Bool} {s : St} (hr : Reach multi s) (k : Int) : s.findCmps k ≤ 2 * s.t.height := by
  obtain ⟨hI, hO, hm⟩ := invs_reach hr
  exact g_find_cost multi s hI hO hm k

/-- **Height bound**: `height ≤ 1.4405·log2(n+2)`, written without reals
    (`h ≤ 1.4405·log2(n+2)  ⇔  2^(h/1.4405) ≤ n+2  ⇔  2^(10000 h) ≤ (n+2)^14405`). -/
theorem height_log {multi : Bool} {s : St} (hr : Reach multi s) :
    2 ^ (10000 * s.t.height) ≤ (s.size + 2) ^ 14405 := by
  obtain ⟨hI, hO, hm⟩ := invs_reach hr
  exact g_height_log multi s hI hO hm

/-- **The property's sentence**: finding any key among `n` entries needs at most
    `2·⌊1.4405·log2(n+2)⌋` key comparisons — in every reachable state, for every key.
    (`IsLogBound n H` says `H = ⌊1.4405·log2(n+2)⌋` without reals.) -/
theorem find_cost_log {multi : Bool} {s : St} (hr : Reach multi s) (k : Int) (H : Nat)
    (hH : IsLogBound s.size H) : s.findCmps k ≤ 2 * H := by
  obtain ⟨hI, hO, hm⟩ := invs_reach hr
  exact g_find_cost_log multi s hI hO hm k H hH

/-- the same for the histories of one container -/
theorem find_cost_log_run (multi : Bool) (ops : List Op) (k : Int) (H : Nat)
    (hH : IsLogBound (run multi ops).size H) : (run multi ops).findCmps k ≤ 2 * H :=
  find_cost_log (reach_run multi ops) k H hH

/-- the height of every reachable tree is at most `⌊1.4405·log2(n+2)⌋` -/
theorem height_le {multi : Bool} {s : St} (hr : Reach multi s) (H : Nat) (hH : IsLogBound s.size H) :
    s.t.height ≤ H := by
  have h2 := height_log hr
  have h3 : 2 ^ (10000 * s.t.height) < 2 ^ (10000 * (H + 1)) := Nat.lt_of_le_of_lt h2 hH.2
  have h4 := (Nat.pow_lt_pow_iff_right (by omega : 1 < 2)).mp h3
  omega

/-- **Cost of every operation** (beyond the property's sentence): no op makes more than
    `2·⌊1.4405·log2(n+2)⌋ + 3` key comparisons, `count` additionally one per entry it counts. -/
theorem op_cost_log {multi : Bool} {s : St} (hr : Reach multi s) (H : Nat) (hH : IsLogBound s.size H)
    (op : Op) (r : St × Out) (h : step s op = some r) :
    r.2.cmps ≤ 2 * H + 3 + (match r.2.ret with | .num n => n | _ => 0) := by
  have hh := height_le hr H hH
  have hf : ∀ k, s.findCmps k ≤ 2 * H := fun k => by have := find_cost hr k; omega
  cases op with
  | insert k v =>
    simp only [step, Option.some.injEq] at h; subst h
    have := insertRoot_cmps_le s k v 0; omega
  | insertAt p k v =>
    simp only [step] at h
    split at h
    · have := insertAt_cmps_le s p k v r h; omega
    · simp at h
  | removeKey k =>
    simp only [step] at h
    have := hf k
    split at h
    · cases hr' : s.removeAt _ (s.findCmps k) with
      | none => rw [hr'] at h; simp at h
      | some r' =>
        rw [hr'] at h
        simp only [Option.map_some, Option.some.injEq] at h; subst h
        unfold St.removeAt at hr'
        split at hr'
        · simp at hr'
        · simp only [Option.some.injEq] at hr'; subst hr'; simp only; omega
    · simp only [Option.some.injEq] at h; subst h; simp only; omega
  | removeAt p =>
    simp only [step] at h
    unfold St.removeAt at h
    split at h
    · simp at h
    · simp only [Option.some.injEq] at h; subst h; simp only; omega
  | removeFront =>
    simp only [step] at h
    unfold St.removeAt at h
    split at h
    · simp at h
    · simp only [Option.some.injEq] at h; subst h; simp only; omega
  | removeBack =>
    simp only [step] at h
    split at h
    · simp at h
    · unfold St.removeAt at h
      split at h
      · simp at h
      · simp only [Option.some.injEq] at h; subst h; simp only; omega
  | clear => simp only [step, Option.some.injEq] at h; subst h; simp only; omega
  | find k => simp only [step, Option.some.injEq] at h; subst h; have := hf k; simp only; omega
  | contains k => simp only [step, Option.some.injEq] at h; subst h; have := hf k; simp only; omega
  | count k =>
    simp only [step] at h
    have := hf k
    split at h
    · split at h
      · simp only [Option.some.injEq] at h; subst h; simp only; omega
      · rename_i p _
        simp only [Option.some.injEq] at h; subst h
        have := countWalk_cmps k (List.drop (p + 1) s.t.inorder)
        simp only; omega
    · simp at h
  | front =>
    simp only [step] at h
    split at h
    · simp only [Option.some.injEq] at h; subst h; simp only; omega
    · simp at h
  | back =>
    simp only [step] at h
    split at h
    · simp only [Option.some.injEq] at h; subst h; simp only; omega
    · simp at h

/-- the comparison count the `find` op of the model reports is the one bounded above -/
theorem find_op_cmps (s : St) (k : Int) : ∃ r, step s (.find k) = some r ∧ r.2.cmps = s.findCmps k :=
  ⟨_, rfl, rfl⟩

/-- **MultiMap::count** (with fixes/avl/01+02) equals the number of entries with that key. -/
theorem count_correct {s : St} (hr : Reach true s) (k : Int) :
    ∃ r, step s (.count k) = some r ∧ r.2.ret = .num (Spec.count k (abs s)) ∧ r.1 = s := by
  obtain ⟨hI, hO, hm⟩ := invs_reach hr
  exact g_count_correct s hI hO hm k

theorem step'_map {f : Int → Int} (hf : Mono f) (s : St) (op : Op) :
    step' (mapSt f s) (mapOp f op) = mapSt f (step' s op) := by
  unfold step'
  rw [step_map hf]
  cases step s op <;> rfl

/-- **Order invariance** (towards arbitrary key types): the model only looks at the outcome of key
    comparisons.  For every order embedding `f` of the keys (strictly monotone `Int → Int`), the
    run on the relabelled history is the relabelled run — same tree shape, stored fields, item ids,
    prev/next list and free list … -/
theorem order_invariance {f : Int → Int} (hf : Mono f) (multi : Bool) (ops : List Op) :
    run multi (ops.map (mapOp f)) = mapSt f (run multi ops) := by
  unfold run
  suffices h : ∀ s, (ops.map (mapOp f)).foldl step' (mapSt f s) = mapSt f (ops.foldl step' s) from h (St.init multi)
  induction ops with
  | nil => intro s; rfl
  | cons op ops ih => intro s; simp only [List.map_cons, List.foldl_cons]; rw [step'_map hf, ih]

/-- … and every op then returns the same value with the same number of key comparisons. -/
theorem order_invariance_out {f : Int → Int} (hf : Mono f) (multi : Bool) (ops : List Op) (op : Op) :
    (step (run multi (ops.map (mapOp f))) (mapOp f op)).map (fun r => r.2) =
      (step (run multi ops) op).map (fun r => r.2) := by
  rw [order_invariance hf, step_map hf]
  cases step (run multi ops) op <;> rfl

/-- **MultiMap stability**: a plain insert puts the entry behind every entry with a key `≤ k`
    (in particular behind all equal keys inserted before) and in front of every larger key. -/
theorem multi_insert_stable (ops : List Op) (k v : Int) :
    ∃ a b, abs (run true ops) = a ++ b ∧
      abs (run true (ops ++ [.insert k v])) = a ++ (k, v) :: b ∧
      (∀ e ∈ a, e.1 ≤ k) ∧ (∀ e ∈ b, k < e.1) := by
  have hs := sorted_run_multi ops
  have hr : abs (run true (ops ++ [.insert k v])) = Spec.insertMulti k v (abs (run true ops)) := by
    have h := (invT_run true ops)
    have := insertRoot_abs (run true ops) h.1 k v 0
    rw [h.2] at this
    simp only [if_true] at this
    rw [← this]
    simp [run, step', step]
  rw [hr]
  generalize abs (run true ops) = xs at hs
  induction xs with
  | nil => exact ⟨[], [], rfl, rfl, by simp, by simp⟩
  | cons e es ih =>
    rw [List.pairwise_cons] at hs
    simp only [Spec.insertMulti]
    by_cases h1 : k < e.1
    · rw [if_pos h1]
      refine ⟨[], e :: es, rfl, rfl, by simp, ?_⟩
      intro x hx
      rcases List.mem_cons.mp hx with hx | hx
      · rw [hx]; exact h1
      · have := hs.1 x hx; omega
    · rw [if_neg h1]
      obtain ⟨a, b, e1, e2, e3, e4⟩ := ih hs.2
      refine ⟨e :: a, b, by rw [e1]; rfl, by rw [e2]; rfl, ?_, e4⟩
      intro x hx
      rcases List.mem_cons.mp hx with hx | hx
      · rw [hx]; omega
      · exact e3 x hx

/-
  OPEN (not proved; stated here so that nobody reads more into the theorems above):

  * Keys are `Int` in this file.  PropsK.lean lifts the model to any key type with a lawful strict
    total order and proves `G.transfer` (a generic run is the `Int` run of the relabelled history),
    `G.transfer_out`, `G.find_cost_log`, `G.height_log`, `G.sorted_map/multi`, `G.int_instance`, `G.refines_rel`;
    PropsKSpec.lean states the refinement directly against the specification typed over `K` (SpecK.lean):
    `G.refines_relK`, `G.refines_run_relK` (closed in the extension round).
  * Which address an insert takes (LIFO free list, blocks of `ipbOf` items) is now proved for `Int` keys:
    PropsIds.lean `alloc_lifo`, `insert_takes_free_head`, `remove_then_insert_reuses`.  `G.insert_takes_free_head`,
    `G.remove_then_insert_reuses` are the statements for every key type.
  * PropsRot.lean ties `updateHeightAndSlope/rotr/rotl/shiftr/shiftl/rebal` and the pieces of insert / remove / find /
    count to the headers by translation; PropsComp.lean, PropsComp2.lean, PropsComp3.lean compose them: the translated
    `insert(key, value)` (with the complete private insert), `insert(position, key, value)`, `find`, `contains`, `count`, `clear()`,
    `remove(it)` for every item (PropsComp5.lean: `gen_remove_eq_step`), `remove(key)`, `removeFront`, `removeBack`, run on a heap that
    represents a reachable state, yield a heap that represents the model's step.
    STILL hand-translated (tied by the correspondence run incl. the white-box comparison only): the copy / bulk insert loops
    (they run over a second container).
-/

/-! ### non-vacuity: concrete reachable states -/

/-- a 7-entry Map built through plain + hinted inserts and a two-child removal -/
def sampleOps : List Op :=
  [.insert 4 40, .insert 2 20, .insert 6 60, .insert 1 10, .insertAt 2 3 30, .insert 5 50,
   .insertAt 6 7 70, .insert 8 80, .removeKey 4]

example : Reach false (run false sampleOps) := reach_run _ _
/-- a state reached through a bulk insert between two Maps followed by more ops -/
example : Reach false (step' ((run false [.insert 9 1]).insertAll (run false sampleOps)).1 (.removeAt 2)) :=
  Reach.step _ (Reach.insertAll (reach_run _ _) (reach_run _ _))
example : abs (run false sampleOps) = [(1, 10), (2, 20), (3, 30), (5, 50), (6, 60), (7, 70), (8, 80)] := by
  decide +kernel
example : (run false sampleOps).t.height = 3 ∧ (run false sampleOps).size = 7 := by decide +kernel
example : ∀ op ∈ sampleOps, op.det false = true := by decide
/-- `⌊1.4405·log2(7+2)⌋ = 4` -/
example : IsLogBound 7 4 := by
  unfold IsLogBound
  constructor <;> decide +kernel
/-- removing the two-child root 4 of `sampleOps`' tree (in-order position 3) keeps the ids of all other items
    (see PropsIds.lean); stated without the concrete ids, which depend on the items-per-block constant -/
example : (run false sampleOps).t.inorder.map (fun e => e.1) =
    ((run false (sampleOps.take 8)).t.inorder.map (fun e => e.1)).eraseIdx 3 ∧
    ((run false (sampleOps.take 8)).t.inorder.map (fun e => e.1)).Nodup := by decide +kernel
/-- an order embedding that is not a translation: `k ↦ 3k - 7` -/
example : Mono (fun k => 3 * k - 7) := by intro a b; simp only; constructor <;> intro h <;> omega
example : abs (run false (sampleOps.map (mapOp (fun k => 3 * k - 7)))) =
    [(-4, 10), (-1, 20), (2, 30), (8, 50), (11, 60), (14, 70), (17, 80)] := by decide +kernel
example : abs (run true [.insert 5 1, .insert 5 2, .insert 3 9, .insert 5 3]) = [(3, 9), (5, 1), (5, 2), (5, 3)] := by
  decide +kernel
example : ∃ r, step (run true [.insert 5 1, .insert 5 2, .insert 5 3]) (.count 5) = some r ∧ r.2.ret = .num 3 :=
  ⟨_, rfl, by decide +kernel⟩
/-- a hinted MultiMap insert in the case the code leaves to the tree shape: hint = second `5`,
    key = `5` = key behind the hint; the entry lands at position 3 (allowed: 2..3) -/
example : (outcome (run true [.insert 5 1, .insert 5 2, .insert 5 3]) (.insertAt 1 5 4)) =
    some ([(5, 1), (5, 2), (5, 3), (5, 4)], .it 3) := by decide +kernel
example : Spec.HintPos [(5, 1), (5, 2), (5, 3)] 1 5 3 := by
  simp [Spec.HintPos, Spec.upper]
/-- copy construction / assignment between two MultiMaps keeps equal keys in order -/
example : abs ((run true [.insert 9 1]).assignFrom (run true [.insert 5 1, .insert 5 2, .insert 3 9, .insert 5 3])).1
    = [(3, 9), (5, 1), (5, 2), (5, 3)] := by decide +kernel
example : Reach true ((St.init true).assignFrom (run true [.insert 5 1, .insert 5 2])).1 :=
  Reach.copy (reach_run _ _)
/-- copy and bulk insert between two reachable Maps -/
example : abs ((run false [.insert 9 1]).assignFrom (run false sampleOps)).1 = abs (run false sampleOps) := by
  decide +kernel
example : abs ((run false [.insert 9 1, .insert 3 0]).insertAll (run false sampleOps)).1
    = [(1, 10), (2, 20), (3, 30), (5, 50), (6, 60), (7, 70), (8, 80), (9, 1)] := by decide +kernel

end Nstd.Avl
