import Nstd.Avl.Model
namespace Nstd.Avl
theorem placeholder : (run false []).size = 0 := by decide
end Nstd.Avl
