import Nstd.Avl.PropsComp
/-
  Property C01 — tie by translation, composed (continued): `clear()`.
-/
namespace Nstd.Avl
open Tree
open Nstd.Avl.Heap
open Nstd.Generated.AvlRot

/-- the loop of `clear()` (`for(Item* i = _begin.item, * end = &endItem; i != end; i = i->next) { i->~Item(); i->prev =
    freeItem; freeItem = i; }`) followed by the four resetting stores: pushes the items of the list, in list order, onto
    the free list and empties the container -/
theorem clear_loop_eq : ∀ (is : List Nat) (h : Heap) (p pv fuel : Nat) (fl : List Nat),
    DList h p pv is → FreeRepr h h.freeItem fl → is.Nodup → (∀ j ∈ is, j ∉ fl) →
    (∀ j, j ∈ is ∨ j ∈ fl → j + 1 ≠ h.endItem) → is.length < fuel →
    ∃ h', Map.clear_loop fuel h p = some h' ∧ h'.root = 0 ∧ h'.size = 0 ∧ h'.beginItem = h.endItem ∧
      h'.endItem = h.endItem ∧ h'.prev h.endItem = 0 ∧ FreeRepr h' h'.freeItem (is.reverse ++ fl) ∧
      h'.nblocks = h.nblocks := by
  intro is
  induction is with
  | nil =>
    intro h p pv fuel fl hd hf _ _ he hfu
    cases fuel with
    | zero => simp at hfu
    | succ f =>
      rw [Map.clear_loop]
      have : p = h.endItem := hd.1
      simp only [this, ne_eq, not_true_eq_false, if_false]
      refine ⟨_, rfl, rfl, rfl, rfl, rfl, by simp [Heap.set, Heap.setSize, Heap.setPrev, Heap.setBegin], ?_, rfl⟩
      simp only [List.reverse_nil, List.nil_append]
      refine freeRepr_frame fl _ hf ?_
      intro j hj
      have := he j (Or.inr hj)
      simp [Heap.set, Heap.setSize, Heap.setPrev, Heap.setBegin, upd1_apply, this]
  | cons i is ih =>
    intro h p pv fuel fl hd hf hnd hdis he hfu
    obtain ⟨e1, e2, e3⟩ := hd
    obtain ⟨n1, n2⟩ := List.nodup_cons.mp hnd
    have hpe : p ≠ h.endItem := by rw [e1]; exact he i (Or.inl (by simp))
    cases fuel with
    | zero => simp at hfu
    | succ f =>
      rw [Map.clear_loop]
      simp only [hpe, ne_eq, not_false_eq_true, if_true]
      obtain ⟨h1, eh1⟩ : ∃ y, y = (h.setPrev p h.freeItem).setFree p := ⟨_, rfl⟩
      have hn1 : h1.next = h.next := by rw [eh1]; rfl
      have hE1 : h1.endItem = h.endItem := by rw [eh1]; rfl
      have hp1 : ∀ q, q ≠ p → h1.prev q = h.prev q := by
        intro q hq; rw [eh1]; simp [Heap.setFree, Heap.setPrev, upd1_apply, hq]
      have hd1 : DList h1 (h.next p) p is := by
        refine dlist_frame is _ _ e3 hE1 ?_ (hp1 _ (Ne.symm hpe))
        intro j hj
        refine ⟨by rw [hn1], hp1 _ ?_⟩
        rw [e1]; intro e; have : j = i := by omega
        exact n1 (this ▸ hj)
      have hf1 : FreeRepr h1 h1.freeItem (i :: fl) := by
        have e4 : h1.freeItem = p := by rw [eh1]; rfl
        have e5 : h1.prev p = h.freeItem := by rw [eh1]; simp [Heap.setFree, Heap.setPrev]
        rw [e4]
        refine ⟨e1, ?_⟩
        rw [e5]
        refine freeRepr_frame fl _ hf ?_
        intro j hj
        apply hp1
        rw [e1]; intro e; have : j = i := by omega
        exact hdis i (by simp) (this ▸ hj)
      obtain ⟨h', r1, r2, r3, r4, r5, r6, r7, r8⟩ := ih h1 (h.next p) p f (i :: fl) hd1 hf1 n2
        (by intro j hj hm
            rcases List.mem_cons.mp hm with e | e
            · exact n1 (e ▸ hj)
            · exact hdis j (by simp [hj]) e)
        (by intro j hj; rw [hE1]
            rcases hj with e | e
            · exact he j (Or.inl (by simp [e]))
            · rcases List.mem_cons.mp e with e' | e'
              · exact he j (Or.inl (by simp [e']))
              · exact he j (Or.inr e'))
        (by simp only [List.length_cons] at hfu; omega)
      rw [hE1] at r4 r5 r6
      have hnx : (h.setPrev p h.freeItem).setFree p = h1 := eh1.symm
      refine ⟨h', ?_, r2, r3, r4, r5, r6, ?_, by rw [r8, eh1]; rfl⟩
      · show Map.clear_loop f ((h.setPrev p h.freeItem).setFree p) (((h.setPrev p h.freeItem).setFree p).next p) = some h'
        rw [hnx, hn1]; exact r1
      · simpa [List.reverse_cons, List.append_assoc] using r7

theorem multi_clear_loop : ∀ (fuel : Nat) (h : Heap) (p : Nat), Multi.clear_loop fuel h p = Map.clear_loop fuel h p := by
  intro fuel
  induction fuel with
  | zero => intro h p; rw [Multi.clear_loop, Map.clear_loop]
  | succ f ih => intro h p; rw [Multi.clear_loop, Map.clear_loop]; simp only [ih]

/-- the translated `clear()` of one header -/
def clearCode (multi : Bool) : Nat → Heap → Option Heap := if multi then Multi.clear else Map.clear

/-- **`clear()` of both containers, by translation**: on every heap that represents a reachable state the loop of the
    current header terminates (`size + 1` units of fuel) and leaves a heap that represents the model's `step s clear`:
    `root = 0`, `_begin.item = &endItem`, `endItem.prev = 0`, `_size = 0`, and the free list is the old list pushed item by
    item (LIFO: the last item of the iteration on top) onto the old free list. -/
theorem gen_clear_eq_step (multi : Bool) (s : St) (h : Heap) (fuel : Nat)
    (hreach : Reach multi s) (hr : ReprSt h s) (hf : s.size < fuel) :
    ∃ s' out, step s .clear = some (s', out) ∧ ∃ h', clearCode multi fuel h = some h' ∧ ReprSt h' s' ∧
      h'.endItem = h.endItem := by
  obtain ⟨hT, hO, hm⟩ := invs_reach hreach
  refine ⟨_, _, rfl, ?_⟩
  have hnd := hO.nodup
  rw [← hO.order, List.nodup_append] at hnd
  obtain ⟨n1, n2, n3⟩ := hnd
  obtain ⟨h', r1, r2, r3, r4, r5, r6, r7, r8⟩ := clear_loop_eq s.order h h.beginItem 0 fuel s.free hr.list hr.free n1
    (fun j hj hm => n3 j hj j hm rfl) hr.endSep (by rw [hT.olen]; exact hf)
  refine ⟨h', ?_, ⟨r2, ⟨by rw [r4, r5], by rw [r5, r6]⟩, r3, r7, by rw [r8]; exact hr.blocks, ?_⟩, r5⟩
  · cases multi with
    | false => exact r1
    | true =>
      show Multi.clear fuel h = some h'
      unfold Multi.clear
      simp only [multi_clear_loop]; exact r1
  · intro j hj
    rw [r5]
    rcases hj with e | e
    · simp at e
    · rcases List.mem_append.mp e with e' | e'
      · exact hr.endSep j (Or.inl (List.mem_reverse.mp e'))
      · exact hr.endSep j (Or.inr e')

/-- non-vacuity: clearing the one-item container built by the translated insert gives back an empty container whose free
    list starts with that item -/
example : ∃ h1 p h2, Map.insertPlain 5 emptyHeap 0 7 70 = some (h1, p, 0) ∧ Map.clear 3 h1 = some h2 ∧ h2.root = 0 ∧
    h2.size = 0 ∧ h2.beginItem = 1000 ∧ h2.freeItem = p ∧ Map.clear 1 h1 = none :=
  ⟨_, _, _, rfl, rfl, rfl, rfl, rfl, rfl, rfl⟩

end Nstd.Avl
