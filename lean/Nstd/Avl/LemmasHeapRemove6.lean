import Nstd.Avl.LemmasHeapRemove5
/-
  The loop behind `rebalParent:` of `remove(it)` (`removeRebal_loop`) against the model: `LoopSpec a B`.
-/
namespace Nstd.Avl
open Tree
open Nstd.Avl.Heap
open Nstd.Generated.AvlRot

/-- started at the item the hole of `a.append B` hangs under, with `sub` in that hole, the loop climbs `a` (the model's
    `a.climb`, early exit included) and always ends by re-updating and rebalancing the item of the frame `B` (the
    replacement of the removed item), whose parent it returns -/
def LoopSpec (a B : Ctx) : Prop :=
  ∀ (h : Heap) (sub : Tree) (fuel old : Nat),
    ReprCtx h (a.append B) → Repr h (h.get (a.append B).cell) (a.append B).par sub →
    (ids sub ++ (a.append B).ids).Nodup → ClimbOk a (sub, true) →
    RebalOk (Tree.upd (B.node1 (a.climb (sub, true)).1)) → Avl (Tree.rebal (Tree.upd (B.node1 (a.climb (sub, true)).1))) →
    a.depth < fuel →
    ∃ h', Map.removeRebal_loop fuel h B.up.cell B.up.par (a.append B).par old = some (h', B.up.par) ∧
      ReprCtx h' B.up ∧ Repr h' (h'.get B.up.cell) B.up.par (Tree.rebal (Tree.upd (B.node1 (a.climb (sub, true)).1))) ∧
      h'.key = h.key ∧ h'.value = h.value ∧ ListSame h h'

theorem node1_rebal_ne_nil (B : Ctx) (hB : B ≠ .top) (t : Tree) : Tree.rebal (Tree.upd (B.node1 t)) ≠ .nil := by
  cases B with
  | top => exact absurd rfl hB
  | left i k v hh s r up => exact rebal_upd_ne_nil _ _ _ _ _ _ _
  | right i k v hh s l up => exact rebal_upd_ne_nil _ _ _ _ _ _ _

/-- the step at the frame `B` itself, through the `parent = *cell` exit or not: one more `update + rebal` of an item that
    is already up to date and balanced changes nothing -/
theorem final_step (B : Ctx) (hB : B ≠ .top) (h : Heap) (R : Tree)
    (hc : ReprCtx h B) (hs : Repr h (h.get B.cell) B.par R) (hnd : (ids R ++ B.ids).Nodup)
    (hok : RebalOk (Tree.upd (B.node1 R))) :
    ∃ h2 p2, Map.rebal (Map.updateHeightAndSlope h B.par) B.par = (h2, p2) ∧
      ReprCtx h2 B.up ∧ Repr h2 (h2.get B.up.cell) B.up.par (Tree.rebal (Tree.upd (B.node1 R))) ∧ p2 = h2.get B.up.cell ∧
      h2.height p2 = (Tree.rebal (Tree.upd (B.node1 R))).ht ∧ h2.parent p2 = B.up.par ∧ h.height B.par = B.oldH ∧
      h2.key = h.key ∧ h2.value = h.value ∧ ListSame h h2 := by
  obtain ⟨s1, s2, s3, s4, s5, s6, s7, s8, s9⟩ := climb_step B hB h R hc hs hnd hok
  exact ⟨_, _, rfl, s1, s2, s3, s4, s5, s6, s7, s8, s9⟩

/-- `update + rebal` of the item in the hole of `ctx`, when that item is already a correct AVL tree: nothing changes -/
theorem redo_step (ctx : Ctx) (h : Heap) (T : Tree) (hT : T ≠ .nil) (hA : Avl T)
    (hc : ReprCtx h ctx) (hs : Repr h (h.get ctx.cell) ctx.par T) (hnd : (ids T ++ ctx.ids).Nodup) :
    ∃ h2 p2, Map.rebal (Map.updateHeightAndSlope h (h.get ctx.cell)) (h.get ctx.cell) = (h2, p2) ∧
      ReprCtx h2 ctx ∧ Repr h2 (h2.get ctx.cell) ctx.par T ∧ h2.parent p2 = ctx.par ∧
      h2.key = h.key ∧ h2.value = h.value ∧ ListSame h h2 := by
  cases T with
  | nil => exact absurd rfl hT
  | node a' k' v' h' s' l1 r1 =>
    have hs0 := hs
    rw [repr_node_iff] at hs
    obtain ⟨eP, kP, vP, pP, hP, sP, rL, rR⟩ := hs
    rw [eP] at kP vP pP hP sP rL rR
    have hcx : ReprCtx h (Ctx.left a' k' v' h' s' r1 ctx) := ⟨kP, vP, hP, sP, pP, eP, rR, hc⟩
    have hA' := hA
    rw [avl_node] at hA'
    have hok : RebalOk (Tree.upd ((Ctx.left a' k' v' h' s' r1 ctx).node1 l1)) := rebalOk_upd _ _ _ _ _ _ _ hA'.1 hA'.2.1
    have hnd' : (ids l1 ++ (Ctx.left a' k' v' h' s' r1 ctx).ids).Nodup := by
      simp only [Ctx.ids, ids_node, List.append_assoc, List.cons_append] at hnd ⊢; exact hnd
    obtain ⟨s1, s2, s3, s4, s5, s6, s7, s8, s9⟩ := climb_step (Ctx.left a' k' v' h' s' r1 ctx) (by simp) h l1 hcx rL hnd' hok
    simp only [Ctx.par, Ctx.up, Ctx.node1] at s1 s2 s3 s4 s5 s7 s8 s9
    rw [rebal_upd_avl _ hA] at s2
    rw [eP]
    exact ⟨_, _, rfl, s1, s2, s5, s7, s8, s9⟩

theorem loop_base (B : Ctx) (hB : B ≠ .top) : LoopSpec .top B := by
  intro h sub fuel old hc hs hnd _ hok hAvl hf
  simp only [Ctx.append, Ctx.climb] at hc hs hnd hok hAvl ⊢
  cases fuel with
  | zero => omega
  | succ f =>
    rw [Map.removeRebal_loop]
    obtain ⟨h2, p2, er, s1, s2, s3, s4, s5, s6, s7, s8, s9⟩ := final_step B hB h sub hc hs hnd hok
    simp only [er, s6, s4]
    by_cases e : B.oldH = (Tree.rebal (Tree.upd (B.node1 sub))).ht
    · rw [if_pos e]
      have hnd2 : (ids (Tree.rebal (Tree.upd (B.node1 sub))) ++ B.up.ids).Nodup := by
        rw [ids_rebal_upd]; exact (ids_node1 B hB sub).nodup_iff.mpr hnd
      obtain ⟨h3, p3, er3, r1, r2, r3, r4, r5, r6⟩ := redo_step B.up h2 _ (node1_rebal_ne_nil B hB sub) hAvl s1 s2 hnd2
      simp only [er3, r3]
      exact ⟨h3, rfl, r1, r2, by rw [r4, s7], by rw [r5, s8], listSame_trans s9 r6⟩
    · rw [if_neg e]
      simp only [s5, ne_eq, not_true_eq_false, if_false]
      exact ⟨h2, rfl, s1, by rw [← s3] at s2 ⊢; exact s2, s7, s8, s9⟩

theorem mem_up_ids_tail (B : Ctx) (q : Nat) (hq : q ∈ B.up.ids) : ∃ bi rest, B.ids = bi :: rest ∧ q ∈ rest := by
  cases B with
  | top => simp [Ctx.up, Ctx.ids] at hq
  | left bi _ _ _ _ br bu => exact ⟨bi, _, rfl, List.mem_append_right _ hq⟩
  | right bi _ _ _ _ bl bu => exact ⟨bi, _, rfl, List.mem_append_right _ hq⟩

/-- the item a hole below the frame `B` hangs under is not the parent of `B`'s item -/
theorem append_par_ne (a' B : Ctx) (hB : B ≠ .top) (hnd : (a'.append B).ids.Nodup) : (a'.append B).par ≠ B.up.par := by
  rcases ctx_par_mem B.up with e | ⟨q, hq, e⟩
  · rw [e]
    obtain ⟨j, _, e1, _⟩ := ctx_par_head (a'.append B) (by cases a' <;> simp [Ctx.append, hB])
    rw [e1]; omega
  · obtain ⟨bi, brest, eb, hqb⟩ := mem_up_ids_tail B q hq
    rw [e]
    cases a' with
    | top =>
      simp only [Ctx.append] at hnd ⊢
      obtain ⟨j, rest, e1, e2⟩ := ctx_par_head B hB
      rw [e1]; intro e3; have : j = q := by omega
      rw [e2] at hnd eb
      have hh := (List.nodup_cons.mp hnd).1
      simp only [List.cons.injEq] at eb
      exact hh (by rw [this, eb.2]; exact hqb)
    | left ai _ _ _ _ ar au =>
      simp only [Ctx.append, Ctx.par, Ctx.ids, List.cons_append, List.nodup_cons, ids_append] at hnd ⊢
      intro e3; have : ai = q := by omega
      exact hnd.1 (by rw [this]; simp [eb, hqb])
    | right ai _ _ _ _ al au =>
      simp only [Ctx.append, Ctx.par, Ctx.ids, List.cons_append, List.nodup_cons, ids_append] at hnd ⊢
      intro e3; have : ai = q := by omega
      exact hnd.1 (by rw [this]; simp [eb, hqb])

theorem loop_left (i : Nat) (k v : Int) (hh : Nat) (s : Int) (r : Tree) (a' B : Ctx) (hB : B ≠ .top)
    (IH : LoopSpec a' B) : LoopSpec (Ctx.left i k v hh s r a') B := by
  intro h sub fuel old hc hs hnd hok hRB hAvl hf
  obtain ⟨cx, ecx⟩ : ∃ cx, cx = (Ctx.left i k v hh s r a').append B := ⟨_, rfl⟩
  have hcxne : cx ≠ .top := by rw [ecx]; simp [Ctx.append]
  have hup : cx.up = a'.append B := by rw [ecx]; rfl
  have hn1 : cx.node1 sub = node i k v hh s sub r := by rw [ecx]; rfl
  have hold : cx.oldH = hh := by rw [ecx]; rfl
  have hpar : cx.par = i + 1 := by rw [ecx]; rfl
  obtain ⟨T, eT⟩ : ∃ T, T = Tree.rebal (Tree.upd (node i k v hh s sub r)) := ⟨_, rfl⟩
  have hm : (Ctx.left i k v hh s r a').climb (sub, true) = a'.climb (T, T.ht != hh) := by
    rw [eT]; simp [Ctx.climb, goL, fixup]
  rw [hm] at hRB hAvl ⊢
  obtain ⟨ok1, ok2⟩ := hok
  rw [← ecx] at hc hs hnd ⊢
  cases fuel with
  | zero => omega
  | succ f =>
    simp only [Ctx.depth] at hf
    rw [Map.removeRebal_loop]
    obtain ⟨h2, p2, er, s1, s2, s3, s4, s5, s6, s7, s8, s9⟩ := final_step cx hcxne h sub hc hs hnd (by rw [hn1]; exact ok1 rfl)
    rw [hn1, ← eT] at s2 s4
    rw [hup] at s1 s2 s3 s5
    rw [hold] at s6
    simp only [er, s6, s4]
    -- ids of what comes back
    have hndT : (ids T ++ (a'.append B).ids).Nodup := by
      rw [eT, ids_rebal_upd, ← hn1, ← hup]; exact (ids_node1 cx hcxne sub).nodup_iff.mpr hnd
    by_cases e : hh = T.ht
    · -- nothing changes further up: `parent = *cell`, update + rebal of the replacement
      rw [if_pos e]
      have hflag : (T.ht != hh) = false := by simp [e.symm]
      rw [hflag, climb_false] at hRB hAvl ⊢
      obtain ⟨c1, c2⟩ := replug a' B T s1 s2
      have hg : h2.get B.up.cell = B.par := reprCtx_get B c1 hB
      have hndB : (ids (a'.plug T) ++ B.ids).Nodup := by
        have p1 := ids_plug_perm a' T
        have : (ids (a'.plug T) ++ B.ids).Perm (ids T ++ (a'.append B).ids) := by
          rw [ids_append, ← List.append_assoc]; exact List.Perm.append_right _ p1
        exact this.nodup_iff.mpr hndT
      obtain ⟨h3, p3, er3, t1, t2, t3, t4, t5, t6, t7, t8, t9⟩ := final_step B hB h2 (a'.plug T) c1 c2 hndB hRB
      simp only [hg, er3, t5]
      exact ⟨h3, rfl, t1, t2, by rw [t7, s7], by rw [t8, s8], listSame_trans s9 t9⟩
    · rw [if_neg e]
      have hflag : (T.ht != hh) = true := by simp only [bne_iff_ne, ne_eq]; exact fun x => e x.symm
      rw [hflag] at hRB hAvl ⊢
      simp only [s5]
      have hne : (a'.append B).par ≠ B.up.par := append_par_ne a' B hB (List.nodup_append.mp hndT).2.1
      rw [if_pos hne]
      have ok2' : ClimbOk a' (T, true) := by
        simp only [goL, fixup, if_true] at ok2
        rw [← eT, hflag] at ok2
        exact ok2
      obtain ⟨h', r1, r2, r3, r4, r5, r6⟩ := IH h2 T f hh s1 s2 hndT ok2' hRB hAvl (by omega)
      exact ⟨h', r1, r2, r3, by rw [r4, s7], by rw [r5, s8], listSame_trans s9 r6⟩

theorem loop_right (i : Nat) (k v : Int) (hh : Nat) (s : Int) (r : Tree) (a' B : Ctx) (hB : B ≠ .top)
    (IH : LoopSpec a' B) : LoopSpec (Ctx.right i k v hh s r a') B := by
  intro h sub fuel old hc hs hnd hok hRB hAvl hf
  obtain ⟨cx, ecx⟩ : ∃ cx, cx = (Ctx.right i k v hh s r a').append B := ⟨_, rfl⟩
  have hcxne : cx ≠ .top := by rw [ecx]; simp [Ctx.append]
  have hup : cx.up = a'.append B := by rw [ecx]; rfl
  have hn1 : cx.node1 sub = node i k v hh s r sub := by rw [ecx]; rfl
  have hold : cx.oldH = hh := by rw [ecx]; rfl
  have hpar : cx.par = i + 1 := by rw [ecx]; rfl
  obtain ⟨T, eT⟩ : ∃ T, T = Tree.rebal (Tree.upd (node i k v hh s r sub)) := ⟨_, rfl⟩
  have hm : (Ctx.right i k v hh s r a').climb (sub, true) = a'.climb (T, T.ht != hh) := by
    rw [eT]; simp [Ctx.climb, goR, fixup]
  rw [hm] at hRB hAvl ⊢
  obtain ⟨ok1, ok2⟩ := hok
  rw [← ecx] at hc hs hnd ⊢
  cases fuel with
  | zero => omega
  | succ f =>
    simp only [Ctx.depth] at hf
    rw [Map.removeRebal_loop]
    obtain ⟨h2, p2, er, s1, s2, s3, s4, s5, s6, s7, s8, s9⟩ := final_step cx hcxne h sub hc hs hnd (by rw [hn1]; exact ok1 rfl)
    rw [hn1, ← eT] at s2 s4
    rw [hup] at s1 s2 s3 s5
    rw [hold] at s6
    simp only [er, s6, s4]
    -- ids of what comes back
    have hndT : (ids T ++ (a'.append B).ids).Nodup := by
      rw [eT, ids_rebal_upd, ← hn1, ← hup]; exact (ids_node1 cx hcxne sub).nodup_iff.mpr hnd
    by_cases e : hh = T.ht
    · -- nothing changes further up: `parent = *cell`, update + rebal of the replacement
      rw [if_pos e]
      have hflag : (T.ht != hh) = false := by simp [e.symm]
      rw [hflag, climb_false] at hRB hAvl ⊢
      obtain ⟨c1, c2⟩ := replug a' B T s1 s2
      have hg : h2.get B.up.cell = B.par := reprCtx_get B c1 hB
      have hndB : (ids (a'.plug T) ++ B.ids).Nodup := by
        have p1 := ids_plug_perm a' T
        have : (ids (a'.plug T) ++ B.ids).Perm (ids T ++ (a'.append B).ids) := by
          rw [ids_append, ← List.append_assoc]; exact List.Perm.append_right _ p1
        exact this.nodup_iff.mpr hndT
      obtain ⟨h3, p3, er3, t1, t2, t3, t4, t5, t6, t7, t8, t9⟩ := final_step B hB h2 (a'.plug T) c1 c2 hndB hRB
      simp only [hg, er3, t5]
      exact ⟨h3, rfl, t1, t2, by rw [t7, s7], by rw [t8, s8], listSame_trans s9 t9⟩
    · rw [if_neg e]
      have hflag : (T.ht != hh) = true := by simp only [bne_iff_ne, ne_eq]; exact fun x => e x.symm
      rw [hflag] at hRB hAvl ⊢
      simp only [s5]
      have hne : (a'.append B).par ≠ B.up.par := append_par_ne a' B hB (List.nodup_append.mp hndT).2.1
      rw [if_pos hne]
      have ok2' : ClimbOk a' (T, true) := by
        simp only [goR, fixup, if_true] at ok2
        rw [← eT, hflag] at ok2
        exact ok2
      obtain ⟨h', r1, r2, r3, r4, r5, r6⟩ := IH h2 T f hh s1 s2 hndT ok2' hRB hAvl (by omega)
      exact ⟨h', r1, r2, r3, by rw [r4, s7], by rw [r5, s8], listSame_trans s9 r6⟩

theorem loop_spec (B : Ctx) (hB : B ≠ .top) : ∀ (a : Ctx), LoopSpec a B := by
  intro a
  induction a with
  | top => exact loop_base B hB
  | left i k v hh s r up ih => exact loop_left i k v hh s r up B hB ih
  | right i k v hh s l up ih => exact loop_right i k v hh s l up B hB ih

end Nstd.Avl
