import Nstd.Avl.PropsK
/-
  The specification of property C01 typed over an arbitrary key type `K` (`KeyOrder K`): Spec.lean with `Int`
  replaced by `K`, and the lemmas that carry `Spec.Step` back along an order embedding of the keys involved.
-/
namespace Nstd.Avl.G.SpecK
open Nstd.Avl (Ret)
variable {K : Type} [KeyOrder K]

abbrev KV (K : Type) := K × Int

def insertMap (k : K) (v : Int) : List (KV K) → List (KV K)
  | [] => [(k, v)]
  | e :: es =>
    if k < e.1 then (k, v) :: e :: es
    else if k = e.1 then (e.1, v) :: es
    else e :: insertMap k v es

def insertMulti (k : K) (v : Int) : List (KV K) → List (KV K)
  | [] => [(k, v)]
  | e :: es => if k < e.1 then (k, v) :: e :: es else e :: insertMulti k v es

/-- number of leading keys `< k` -/
def lower (k : K) : List (KV K) → Nat
  | [] => 0
  | e :: es => if e.1 < k then lower k es + 1 else 0

/-- number of leading keys `≤ k` -/
def upper (k : K) : List (KV K) → Nat
  | [] => 0
  | e :: es => if k < e.1 then 0 else upper k es + 1

/-- first position carrying key `k` -/
def find (k : K) (xs : List (KV K)) : Option Nat := xs.findIdx? (fun e => decide (e.1 = k))

def count (k : K) (xs : List (KV K)) : Nat := xs.countP (fun e => decide (e.1 = k))

/-- where `MultiMap::insert(position p, k, v)` may put the new entry (MultiMap.hpp:117-140) -/
def HintPos (xs : List (KV K)) (p : Nat) (k : K) (q : Nat) : Prop :=
  if p = xs.length then
    match xs.getLast? with
    | some e => if e.1 < k then q = xs.length else q = upper k xs
    | none => q = upper k xs
  else
    match xs[p]? with
    | none => False
    | some h =>
      if k < h.1 then
        (if p = 0 then q = p else
          match xs[p - 1]? with
          | some pe => if pe.1 ≤ k then q = p else q = upper k xs
          | none => q = p)
      else
        match xs[p + 1]? with
        | none => q = p + 1
        | some ne =>
          if k < ne.1 then q = p + 1
          else if k = ne.1 then p + 1 ≤ q ∧ q ≤ upper k xs
          else q = upper k xs

/-- the deterministic part of the specification -/
def stepF (multi : Bool) (xs : List (KV K)) : Op K → Option (List (KV K) × Ret)
  | .insert k v =>
    if multi then some (insertMulti k v xs, .it (upper k xs))
    else some (insertMap k v xs, .it (lower k xs))
  | .insertAt p k v =>
    if multi then none
    else if p ≤ xs.length then some (insertMap k v xs, .it (lower k xs)) else none
  | .removeKey k =>
    match find k xs with
    | some i => some (xs.eraseIdx i, .none)
    | none => some (xs, .none)
  | .removeAt p => if p < xs.length then some (xs.eraseIdx p, .it p) else none
  | .removeFront => if 0 < xs.length then some (xs.eraseIdx 0, .it 0) else none
  | .removeBack => if 0 < xs.length then some (xs.eraseIdx (xs.length - 1), .it (xs.length - 1)) else none
  | .clear => some ([], .none)
  | .find k => some (xs, .it ((find k xs).getD xs.length))
  | .contains k => some (xs, .bool (find k xs).isSome)
  | .count k => if multi then some (xs, .num (count k xs)) else none
  | .front => match xs.head? with | some e => some (xs, .val (some e.2)) | none => none
  | .back => match xs.getLast? with | some e => some (xs, .val (some e.2)) | none => none

/-- one step of the specification over `K` -/
inductive Step (multi : Bool) (xs : List (KV K)) : Op K → Option (List (KV K) × Ret) → Prop
  | det (op : Op K) (h : ∀ p k v, ¬ (multi = true ∧ op = .insertAt p k v)) : Step multi xs op (stepF multi xs op)
  | hintReject (p : Nat) (k : K) (v : Int) (hm : multi = true) (hp : xs.length < p) :
      Step multi xs (.insertAt p k v) none
  | hint (p : Nat) (k : K) (v : Int) (q : Nat) (hm : multi = true) (hp : p ≤ xs.length) (hq : HintPos xs p k q) :
      Step multi xs (.insertAt p k v) (some (xs.take q ++ (k, v) :: xs.drop q, .it q))

/-! ### relabelling -/

def m (f : K → Int) (e : KV K) : Spec.KV := (f e.1, e.2)
def ml (f : K → Int) (xs : List (KV K)) : List Spec.KV := xs.map (m f)

variable {f : K → Int}

theorem insertMap_map (k : K) (v : Int) (xs : List (KV K)) (hp : ∀ e ∈ xs, Pres f k e.1) :
    ml f (insertMap k v xs) = Spec.insertMap (f k) v (ml f xs) := by
  induction xs with
  | nil => rfl
  | cons e es ih =>
    have he := hp e (by simp)
    have ih' := ih (fun x hx => hp x (by simp [hx]))
    simp only [insertMap, ml, List.map_cons, Spec.insertMap, m]
    by_cases h1 : k < e.1
    · have : f k < f e.1 := he.1.mp h1
      simp [h1, this, m]
    · have n1 : ¬ f k < f e.1 := fun h => h1 (he.1.mpr h)
      by_cases h2 : k = e.1
      · have : f k = f e.1 := he.2.2.2.2.mp h2
        simp only [h1, n1, if_false]
        simp [h2, this, m]
      · have n2 : ¬ f k = f e.1 := fun h => h2 (he.2.2.2.2.mpr h)
        simp only [h1, n1, h2, n2, if_false, List.map_cons, m]
        simp only [ml, m] at ih'
        rw [ih']

theorem insertMulti_map (k : K) (v : Int) (xs : List (KV K)) (hp : ∀ e ∈ xs, Pres f k e.1) :
    ml f (insertMulti k v xs) = Spec.insertMulti (f k) v (ml f xs) := by
  induction xs with
  | nil => rfl
  | cons e es ih =>
    have he := hp e (by simp)
    have ih' := ih (fun x hx => hp x (by simp [hx]))
    simp only [insertMulti, ml, List.map_cons, Spec.insertMulti, m]
    by_cases h1 : k < e.1
    · have : f k < f e.1 := he.1.mp h1
      simp [h1, this, m]
    · have n1 : ¬ f k < f e.1 := fun h => h1 (he.1.mpr h)
      simp only [h1, n1, if_false, List.map_cons, m]
      simp only [ml, m] at ih'
      rw [ih']

theorem lower_map (k : K) (xs : List (KV K)) (hp : ∀ e ∈ xs, Pres f k e.1) :
    Spec.lower (f k) (ml f xs) = lower k xs := by
  induction xs with
  | nil => rfl
  | cons e es ih =>
    have he := hp e (by simp)
    have ih' := ih (fun x hx => hp x (by simp [hx]))
    simp only [lower, ml, List.map_cons, Spec.lower, m]
    simp only [ml, m] at ih'
    by_cases h1 : e.1 < k
    · have : f e.1 < f k := he.2.1.mp h1
      simp [h1, this, ih']
    · have n1 : ¬ f e.1 < f k := fun h => h1 (he.2.1.mpr h)
      simp [h1, n1]

theorem upper_map (k : K) (xs : List (KV K)) (hp : ∀ e ∈ xs, Pres f k e.1) :
    Spec.upper (f k) (ml f xs) = upper k xs := by
  induction xs with
  | nil => rfl
  | cons e es ih =>
    have he := hp e (by simp)
    have ih' := ih (fun x hx => hp x (by simp [hx]))
    simp only [upper, ml, List.map_cons, Spec.upper, m]
    simp only [ml, m] at ih'
    by_cases h1 : k < e.1
    · have : f k < f e.1 := he.1.mp h1
      simp [h1, this]
    · have n1 : ¬ f k < f e.1 := fun h => h1 (he.1.mpr h)
      simp [h1, n1, ih']

theorem find_map (k : K) (xs : List (KV K)) (hp : ∀ e ∈ xs, Pres f k e.1) :
    Spec.find (f k) (ml f xs) = find k xs := by
  unfold Spec.find find ml
  induction xs with
  | nil => rfl
  | cons e es ih =>
    have he := (hp e (by simp)).2.2.2.2
    have ih' := ih (fun x hx => hp x (by simp [hx]))
    simp only [List.map_cons, List.findIdx?_cons, m]
    by_cases h : e.1 = k
    · have : f e.1 = f k := by rw [h]
      simp [h, this]
    · have : ¬ f e.1 = f k := fun h2 => h (he.mpr h2.symm).symm
      simp only [beq_iff_eq, this, h, decide_false, if_false, Bool.false_eq_true]
      rw [ih']

theorem count_map (k : K) (xs : List (KV K)) (hp : ∀ e ∈ xs, Pres f k e.1) :
    Spec.count (f k) (ml f xs) = count k xs := by
  unfold Spec.count count ml
  rw [List.countP_map]
  apply List.countP_congr
  intro e he
  have := (hp e he).2.2.2.2
  simp only [Function.comp, m]
  by_cases h : e.1 = k
  · have : f e.1 = f k := by rw [h]
    simp [h, this]
  · have : ¬ f e.1 = f k := fun h2 => h (this.mpr h2.symm).symm
    simp [h, this]


theorem ml_length (xs : List (KV K)) : (ml f xs).length = xs.length := by simp [ml]
theorem ml_getElem? (xs : List (KV K)) (p : Nat) : (ml f xs)[p]? = (xs[p]?).map (m f) := by simp [ml]
theorem ml_getLast? (xs : List (KV K)) : (ml f xs).getLast? = xs.getLast?.map (m f) := by simp [ml]
theorem ml_head? (xs : List (KV K)) : (ml f xs).head? = xs.head?.map (m f) := by simp [ml]

theorem hintPos_map (k : K) (xs : List (KV K)) (p q : Nat) (hp : ∀ e ∈ xs, Pres f k e.1) :
    Spec.HintPos (ml f xs) p (f k) q ↔ HintPos xs p k q := by
  unfold Spec.HintPos HintPos
  rw [ml_length, ml_getLast?, ml_getElem?, ml_getElem?, ml_getElem?, upper_map k xs hp]
  by_cases h0 : p = xs.length
  · simp only [h0, if_true]
    cases hl : xs.getLast? with
    | none => simp
    | some e =>
      have he := hp e (List.mem_of_getLast? hl)
      simp only [Option.map_some, m]
      by_cases h1 : e.1 < k
      · have : f e.1 < f k := he.2.1.mp h1
        simp [h1, this]
      · have : ¬ f e.1 < f k := fun h => h1 (he.2.1.mpr h)
        simp [h1, this]
  · simp only [h0, if_false]
    cases hh : xs[p]? with
    | none => simp
    | some hd =>
      have he := hp hd (List.mem_of_getElem? hh)
      simp only [Option.map_some, m]
      by_cases h1 : k < hd.1
      · have t1 : f k < f hd.1 := he.1.mp h1
        simp only [h1, t1, if_true]
        by_cases hp0 : p = 0
        · simp [hp0]
        · simp only [hp0, if_false]
          cases hpe : xs[p - 1]? with
          | none => simp
          | some pe =>
            have hpe' := hp pe (List.mem_of_getElem? hpe)
            simp only [Option.map_some, m]
            by_cases h2 : pe.1 ≤ k
            · have : f pe.1 ≤ f k := hpe'.2.2.2.1.mp h2
              simp [h2, this]
            · have : ¬ f pe.1 ≤ f k := fun h => h2 (hpe'.2.2.2.1.mpr h)
              simp [h2, this]
      · have t1 : ¬ f k < f hd.1 := fun h => h1 (he.1.mpr h)
        simp only [h1, t1, if_false]
        cases hne : xs[p + 1]? with
        | none => simp
        | some ne =>
          have hne' := hp ne (List.mem_of_getElem? hne)
          simp only [Option.map_some, m]
          by_cases h2 : k < ne.1
          · have : f k < f ne.1 := hne'.1.mp h2
            simp [h2, this]
          · have t2 : ¬ f k < f ne.1 := fun h => h2 (hne'.1.mpr h)
            simp only [h2, t2, if_false]
            by_cases h3 : k = ne.1
            · have : f k = f ne.1 := hne'.2.2.2.2.mp h3
              simp only [this, if_true]
              simp [h3]
            · have : ¬ f k = f ne.1 := fun h => h3 (hne'.2.2.2.2.mpr h)
              simp [h3, this]


def mr (f : K → Int) (r : List (KV K) × Ret) : List Spec.KV × Ret := (ml f r.1, r.2)

theorem ml_eraseIdx (xs : List (KV K)) (i : Nat) : (ml f xs).eraseIdx i = ml f (xs.eraseIdx i) := by
  induction xs generalizing i with
  | nil => rfl
  | cons e es ih =>
    cases i with
    | zero => rfl
    | succ j => simp only [ml, List.map_cons, List.eraseIdx_cons_succ] at ih ⊢; rw [ih]

theorem stepF_map (multi : Bool) (xs : List (KV K)) (op : Op K)
    (hp : ∀ k, opKey op = some k → ∀ e ∈ xs, Pres f k e.1) :
    Spec.stepF multi (ml f xs) (toOp f op) = (stepF multi xs op).map (mr f) := by
  cases op with
  | insert k v =>
    have h := hp k rfl
    cases multi <;>
      simp [toOp, Spec.stepF, stepF, mr, insertMap_map k v xs h, insertMulti_map k v xs h, lower_map k xs h, upper_map k xs h]
  | insertAt p k v =>
    have h := hp k rfl
    cases multi
    · simp only [toOp, Spec.stepF, stepF, ml_length, Bool.false_eq_true, if_false]
      by_cases hl : p ≤ xs.length
      · simp [hl, mr, insertMap_map k v xs h, lower_map k xs h]
      · simp [hl]
    · simp [toOp, Spec.stepF, stepF]
  | removeKey k =>
    have h := hp k rfl
    simp only [toOp, Spec.stepF, stepF, find_map k xs h]
    cases find k xs with
    | none => simp [mr]
    | some i => simp [mr, ml_eraseIdx]
  | removeAt p =>
    simp only [toOp, Spec.stepF, stepF, ml_length]
    by_cases hl : p < xs.length
    · simp [hl, mr, ml_eraseIdx]
    · simp [hl]
  | removeFront =>
    simp only [toOp, Spec.stepF, stepF, ml_length]
    by_cases hl : 0 < xs.length
    · simp only [hl, if_true, Option.map_some, mr, ml_eraseIdx]
    · simp [hl]
  | removeBack =>
    simp only [toOp, Spec.stepF, stepF, ml_length]
    by_cases hl : 0 < xs.length
    · simp [hl, mr, ml_eraseIdx]
    · simp [hl]
  | clear => simp [toOp, Spec.stepF, stepF, mr, ml]
  | find k =>
    have h := hp k rfl
    simp [toOp, Spec.stepF, stepF, mr, find_map k xs h, ml_length]
  | contains k =>
    have h := hp k rfl
    simp [toOp, Spec.stepF, stepF, mr, find_map k xs h]
  | count k =>
    have h := hp k rfl
    cases multi <;> simp [toOp, Spec.stepF, stepF, mr, count_map k xs h]
  | front =>
    simp only [toOp, Spec.stepF, stepF, ml_head?]
    cases xs.head? with
    | none => simp
    | some e => simp [mr, m]
  | back =>
    simp only [toOp, Spec.stepF, stepF, ml_getLast?]
    cases xs.getLast? with
    | none => simp
    | some e => simp [mr, m]

theorem ml_inj {L : List K} (hL : PresL f L) : ∀ (xs ys : List (KV K)), (∀ e ∈ xs, e.1 ∈ L) → (∀ e ∈ ys, e.1 ∈ L) →
    ml f xs = ml f ys → xs = ys := by
  intro xs
  induction xs with
  | nil => intro ys _ _ h; cases ys with
    | nil => rfl
    | cons y ys => simp [ml] at h
  | cons x xs ih =>
    intro ys hx hy h
    cases ys with
    | nil => simp [ml] at h
    | cons y ys =>
      simp only [ml, List.map_cons, List.cons.injEq, m, Prod.mk.injEq] at h
      obtain ⟨⟨h1, h2⟩, h3⟩ := h
      have e1 : x.1 = y.1 := (hL x.1 (hx x (by simp)) y.1 (hy y (by simp))).2.2.2.2.mpr h1
      have : x = y := Prod.ext e1 h2
      rw [this, ih ys (fun e he => hx e (by simp [he])) (fun e he => hy e (by simp [he])) h3]

theorem mem_insertMap (k : K) (v : Int) (xs : List (KV K)) : ∀ e ∈ insertMap k v xs, e.1 = k ∨ ∃ e' ∈ xs, e.1 = e'.1 := by
  induction xs with
  | nil => intro e he; simp [insertMap] at he; left; rw [he]
  | cons x xs ih =>
    intro e he
    simp only [insertMap] at he
    split at he
    · rcases List.mem_cons.mp he with h | h
      · left; rw [h]
      · right; exact ⟨e, h, rfl⟩
    · split at he
      · rcases List.mem_cons.mp he with h | h
        · right; exact ⟨x, by simp, by rw [h]⟩
        · right; exact ⟨e, by simp [h], rfl⟩
      · rcases List.mem_cons.mp he with h | h
        · right; exact ⟨x, by simp, by rw [h]⟩
        · rcases ih e h with h | ⟨e', h1, h2⟩
          · left; exact h
          · right; exact ⟨e', by simp [h1], h2⟩

theorem mem_insertMulti (k : K) (v : Int) (xs : List (KV K)) : ∀ e ∈ insertMulti k v xs, e.1 = k ∨ ∃ e' ∈ xs, e.1 = e'.1 := by
  induction xs with
  | nil => intro e he; simp [insertMulti] at he; left; rw [he]
  | cons x xs ih =>
    intro e he
    simp only [insertMulti] at he
    split at he
    · rcases List.mem_cons.mp he with h | h
      · left; rw [h]
      · right; exact ⟨e, h, rfl⟩
    · rcases List.mem_cons.mp he with h | h
      · right; exact ⟨x, by simp, by rw [h]⟩
      · rcases ih e h with h | ⟨e', h1, h2⟩
        · left; exact h
        · right; exact ⟨e', by simp [h1], h2⟩

theorem stepF_keys {L : List K} (multi : Bool) (xs : List (KV K)) (op : Op K) (r : List (KV K) × Ret)
    (hx : ∀ e ∈ xs, e.1 ∈ L) (hk : ∀ k, opKey op = some k → k ∈ L) (h : stepF multi xs op = some r) :
    ∀ e ∈ r.1, e.1 ∈ L := by
  have him : ∀ k v, k ∈ L → ∀ e ∈ insertMap k v xs, e.1 ∈ L := by
    intro k v hkL e he
    rcases mem_insertMap k v xs e he with h | ⟨e', h1, h2⟩
    · rw [h]; exact hkL
    · rw [h2]; exact hx e' h1
  have himm : ∀ k v, k ∈ L → ∀ e ∈ insertMulti k v xs, e.1 ∈ L := by
    intro k v hkL e he
    rcases mem_insertMulti k v xs e he with h | ⟨e', h1, h2⟩
    · rw [h]; exact hkL
    · rw [h2]; exact hx e' h1
  have her : ∀ i, ∀ e ∈ xs.eraseIdx i, e.1 ∈ L := fun i e he => hx e (List.mem_of_mem_eraseIdx he)
  cases op with
  | insert k v =>
    simp only [stepF] at h
    split at h <;> (simp only [Option.some.injEq] at h; subst h)
    · exact himm k v (hk k rfl)
    · exact him k v (hk k rfl)
  | insertAt p k v =>
    simp only [stepF] at h
    split at h
    · simp at h
    · split at h
      · simp only [Option.some.injEq] at h; subst h; exact him k v (hk k rfl)
      · simp at h
  | removeKey k =>
    simp only [stepF] at h
    split at h <;> (simp only [Option.some.injEq] at h; subst h)
    · exact her _
    · exact hx
  | removeAt p =>
    simp only [stepF] at h
    split at h
    · simp only [Option.some.injEq] at h; subst h; exact her _
    · simp at h
  | removeFront =>
    simp only [stepF] at h
    split at h
    · simp only [Option.some.injEq] at h; subst h; exact her _
    · simp at h
  | removeBack =>
    simp only [stepF] at h
    split at h
    · simp only [Option.some.injEq] at h; subst h; exact her _
    · simp at h
  | clear => simp only [stepF, Option.some.injEq] at h; subst h; simp
  | find k => simp only [stepF, Option.some.injEq] at h; subst h; exact hx
  | contains k => simp only [stepF, Option.some.injEq] at h; subst h; exact hx
  | count k =>
    simp only [stepF] at h
    split at h
    · simp only [Option.some.injEq] at h; subst h; exact hx
    · simp at h
  | front =>
    simp only [stepF] at h
    split at h
    · simp only [Option.some.injEq] at h; subst h; exact hx
    · simp at h
  | back =>
    simp only [stepF] at h
    split at h
    · simp only [Option.some.injEq] at h; subst h; exact hx
    · simp at h


/-- inversion of the `Int` specification step -/
theorem spec_step_inv {multi : Bool} {xs : List Spec.KV} {op : Avl.Op} {res : Option (List Spec.KV × Ret)}
    (S : Spec.Step multi xs op res) :
    (res = Spec.stepF multi xs op ∧ ∀ p k v, ¬ (multi = true ∧ op = .insertAt p k v)) ∨
    (∃ p k v, multi = true ∧ op = .insertAt p k v ∧ xs.length < p ∧ res = none) ∨
    (∃ p k v q, multi = true ∧ op = .insertAt p k v ∧ p ≤ xs.length ∧ Spec.HintPos xs p k q ∧
      res = some (xs.take q ++ (k, v) :: xs.drop q, .it q)) := by
  cases S with
  | det op h => exact Or.inl ⟨rfl, h⟩
  | hintReject p k v hm hp => exact Or.inr (Or.inl ⟨p, k, v, hm, rfl, hp, rfl⟩)
  | hint p k v q hm hp hq => exact Or.inr (Or.inr ⟨p, k, v, q, hm, rfl, hp, hq, rfl⟩)

/-- the contents of a generic container: in-order `(key, value)` pairs -/
def absK (s : St K) : List (KV K) := s.t.inorder.map (fun e => e.2)

theorem absF_ml (f : K → Int) (s : St K) : absF f s = ml f (absK s) := by
  rw [absF_eq]; simp [ml, absK, m]

theorem toOp_insertAt {op : Op K} {p : Nat} {k' : Int} {v : Int} (h : toOp f op = .insertAt p k' v) :
    ∃ k, op = .insertAt p k v ∧ f k = k' := by
  cases op <;> simp [toOp] at h
  obtain ⟨h1, h2, h3⟩ := h
  subst h1; subst h3
  exact ⟨_, rfl, h2⟩

end Nstd.Avl.G.SpecK
